(* C10 - complex arithmetic and functions (src/complex.c, include/a/complex.h, constants of include/a/math.h).
   Theorems over R about the model coq/C10/CxDefs.v instantiated with R_ops / R_ext (exact real arithmetic, libm names
   = the real functions).  RO = R_ops, RE = R_ext, C = R * R (Coquelicot).  `*_fb` = fallback body, `c*_ B` = the function
   under the binding B of the A_HAVE_C* switches, fb_bind = all switches off.
   Floating-point rounding ("within a small multiple of machine precision") is carried by the theorems of the last section
   (field arithmetic and modulus at the rounded-real instance, C10/CxRound*.v); for the transcendental functions that part of
   the property is sampled by checks/C10.py (tie 2) and is PARTIAL. *)
From Coq Require Import Reals ZArith.
From Coquelicot Require Import Coquelicot.
From LibaV Require Import Common.NumOps Common.ROps C10.CxDefs C10.CxReal C10.CxField C10.CxSqrt C10.CxExpLog C10.CxConst
  C10.CxTrig C10.CxInverse C10.CxExamples.
Local Open Scope R_scope.

(* ---------------------------------------------------------------- field arithmetic *)
Theorem c10_mul : forall x z : C, mul_ RO x z = Cmult x z.
Proof. exact mul_Cmult. Qed.
Print Assumptions c10_mul.

Theorem c10_div : forall x z : C, z <> (0, 0) -> cabs RO z <> 0 /\ div_ RO x z = Cdiv x z.
Proof. exact div_Cdiv. Qed.
Print Assumptions c10_div.

Theorem c10_inv : forall z : C, z <> (0, 0) -> cabs RO z <> 0 /\ inv_ RO z = Cinv z.
Proof. exact inv_Cinv. Qed.
Print Assumptions c10_inv.

Theorem c10_add : forall x y : C, cadd RO x y = Cplus x y.
Proof. exact add_Cplus. Qed.
Print Assumptions c10_add.
Theorem c10_sub : forall x y : C, csub RO x y = Cminus x y.
Proof. exact sub_Cminus. Qed.
Print Assumptions c10_sub.
Theorem c10_neg : forall z : C, neg RO z = Copp z.
Proof. exact neg_Copp. Qed.
Print Assumptions c10_neg.
Theorem c10_conj : forall z : C, conj RO z = Cconj z.
Proof. exact conj_Cconj. Qed.
Print Assumptions c10_conj.

Theorem c10_modulus : forall z : C, cabs RO z = Cmod z.
Proof. exact cabs_Cmod. Qed.
Print Assumptions c10_modulus.
Theorem c10_abs2 : forall z : C, abs2 RO z = Cmod z * Cmod z.
Proof. exact abs2_Cmod. Qed.
Print Assumptions c10_abs2.

(* real- and imaginary-scalar forms = the operation with (y, 0) resp. (0, y) *)
Theorem c10_add_real : forall x y, add_real RO x y = cadd RO x (y, 0).
Proof. exact add_real_spec. Qed.
Print Assumptions c10_add_real.
Theorem c10_add_imag : forall x y, add_imag RO x y = cadd RO x (0, y).
Proof. exact add_imag_spec. Qed.
Print Assumptions c10_add_imag.
Theorem c10_sub_real : forall x y, sub_real RO x y = csub RO x (y, 0).
Proof. exact sub_real_spec. Qed.
Print Assumptions c10_sub_real.
Theorem c10_sub_imag : forall x y, sub_imag RO x y = csub RO x (0, y).
Proof. exact sub_imag_spec. Qed.
Print Assumptions c10_sub_imag.
Theorem c10_mul_real : forall x y, mul_real RO x y = mul_ RO x (y, 0).
Proof. exact mul_real_spec. Qed.
Print Assumptions c10_mul_real.
Theorem c10_mul_imag : forall x y, mul_imag RO x y = mul_ RO x (0, y).
Proof. exact mul_imag_spec. Qed.
Print Assumptions c10_mul_imag.
Theorem c10_div_real : forall x y, y <> 0 -> div_real RO x y = div_ RO x (y, 0).
Proof. exact div_real_spec. Qed.
Print Assumptions c10_div_real.
Theorem c10_div_imag : forall x y, y <> 0 -> div_imag RO x y = div_ RO x (0, y).
Proof. exact div_imag_spec. Qed.
Print Assumptions c10_div_imag.

(* documented inverse pairs compose to the identity *)
Theorem c10_mul_div_real_id : forall z y, y <> 0 -> div_real RO (mul_real RO z y) y = z.
Proof. exact mul_div_real_id. Qed.
Print Assumptions c10_mul_div_real_id.
Theorem c10_div_mul_real_id : forall z y, y <> 0 -> mul_real RO (div_real RO z y) y = z.
Proof. exact div_mul_real_id. Qed.
Print Assumptions c10_div_mul_real_id.
Theorem c10_mul_div_imag_id : forall z y, y <> 0 -> div_imag RO (mul_imag RO z y) y = z.
Proof. exact mul_div_imag_id. Qed.
Print Assumptions c10_mul_div_imag_id.
Theorem c10_div_mul_imag_id : forall z y, y <> 0 -> mul_imag RO (div_imag RO z y) y = z.
Proof. exact div_mul_imag_id. Qed.
Print Assumptions c10_div_mul_imag_id.
Theorem c10_inv_inv_id : forall z : C, z <> (0, 0) -> inv_ RO (inv_ RO z) = z.
Proof. exact inv_inv_id. Qed.
Print Assumptions c10_inv_inv_id.
Theorem c10_div_mul_id : forall x z : C, z <> (0, 0) -> mul_ RO (div_ RO x z) z = x.
Proof. exact div_mul_id. Qed.
Print Assumptions c10_div_mul_id.

(* the body of a_complex_div_imag as found in the repository (before proposed_fixes/C10-1) composes to -z *)
Theorem c10_div_imag_unfixed_refuted :
  exists z y, y <> 0 /\ div_imag_unfixed RO (mul_imag RO z y) y <> z /\ div_imag_unfixed RO (mul_imag RO z y) y = neg RO z.
Proof. exact div_imag_unfixed_refuted. Qed.
Print Assumptions c10_div_imag_unfixed_refuted.

(* ---------------------------------------------------------------- square root *)
(* THE principal root: w*w = z and (Re w > 0 or Re w = 0 and Im w >= 0), every z: four quadrants, both axes, origin *)
Theorem c10_sqrt_principal : forall z : C, principal_root (sqrt_fb RO RE z) z.
Proof. exact sqrt_fb_principal. Qed.
Print Assumptions c10_sqrt_principal.
(* definedness on the way: w > 0 (the divisor 2w), 2 w^2 = |Re z| + |z| *)
Theorem c10_sqrt_defined : forall z : C, z <> (0, 0) ->
  let w := sqrt_w RO RE z in 0 < w /\ 2 * (w * w) = Rabs (fst z) + R_sqrt.sqrt (fst z * fst z + snd z * snd z).
Proof. exact sqrt_w_spec. Qed.
Print Assumptions c10_sqrt_defined.
Theorem c10_sqrt_unfixed_refuted : exists z : C, ~ principal_root (sqrt_fb_unfixed RO RE z) z.
Proof. exact sqrt_fb_unfixed_refuted. Qed.
Print Assumptions c10_sqrt_unfixed_refuted.
Theorem c10_sqrt_real : forall x : R, principal_root (sqrt_real RO x) (x, 0).
Proof. exact sqrt_real_principal. Qed.
Print Assumptions c10_sqrt_real.
Theorem c10_sqrt_real_axis : forall x : R, sqrt_fb RO RE (x, 0) = sqrt_real RO x.
Proof. exact sqrt_fb_real_axis. Qed.
Print Assumptions c10_sqrt_real_axis.

(* ---------------------------------------------------------------- modulus / argument / polar / exp / log / pow *)
Theorem c10_logabs : forall z : C, z <> (0, 0) -> logabs RO z = ln (Cmod z).
Proof. exact logabs_spec. Qed.
Print Assumptions c10_logabs.
Theorem c10_arg : forall z : C, z <> (0, 0) ->
  let t := arg RO RE z in - PI < t <= PI /\ fst z = Cmod z * cos t /\ snd z = Cmod z * sin t.
Proof. exact arg_spec. Qed.
Print Assumptions c10_arg.
Theorem c10_polar : forall rho t : R, 0 < rho -> - PI < t <= PI ->
  cabs RO (polar RO rho t) = rho /\ arg RO RE (polar RO rho t) = t.
Proof. exact polar_abs_arg. Qed.
Print Assumptions c10_polar.
Theorem c10_exp : forall z : C, exp_fb RO z = Cexp z.
Proof. exact exp_fb_Cexp. Qed.
Print Assumptions c10_exp.
Theorem c10_exp_add : forall a b : C, exp_fb RO (cadd RO a b) = mul_ RO (exp_fb RO a) (exp_fb RO b).
Proof. exact exp_fb_add. Qed.
Print Assumptions c10_exp_add.
Theorem c10_exp_log_id : forall z : C, z <> (0, 0) -> exp_fb RO (log_fb RO RE z) = z.
Proof. exact exp_log_id. Qed.
Print Assumptions c10_exp_log_id.
Theorem c10_log_exp_id : forall z : C, - PI < snd z <= PI -> log_fb RO RE (exp_fb RO z) = z.
Proof. exact log_exp_id. Qed.
Print Assumptions c10_log_exp_id.
Theorem c10_pow : forall z a : C, z <> (0, 0) -> pow_fb RO RE z a = exp_fb RO (mul_ RO a (log_fb RO RE z)).
Proof. exact pow_fb_spec. Qed.
Print Assumptions c10_pow.
Theorem c10_pow_zero : forall a : C,
  pow_fb RO RE (0, 0) a = if Req_EM_T (fst a) 0 then (if Req_EM_T (snd a) 0 then (1, 0) else (0, 0)) else (0, 0).
Proof. exact pow_fb_zero. Qed.
Print Assumptions c10_pow_zero.
Theorem c10_pow_real : forall (z : C) (a : R), pow_real_ RO RE z a = pow_fb RO RE z (a, 0).
Proof. exact pow_real_spec. Qed.
Print Assumptions c10_pow_real.

(* logarithms to base 2, 10, b:  2^(log2 z) = z, 10^(log10 z) = z with b^w = exp (w ln b) *)
Theorem c10_log2 : forall z : C, z <> (0, 0) -> exp_fb RO (mul_real RO (log2_ RO RE fb_bind z) (ln 2)) = z.
Proof. exact log2_spec. Qed.
Print Assumptions c10_log2.
Theorem c10_log10 : forall z : C, z <> (0, 0) -> exp_fb RO (mul_real RO (log10_ RO RE fb_bind z) (ln 10)) = z.
Proof. exact log10_spec. Qed.
Print Assumptions c10_log10.
Theorem c10_log2_any_binding : forall (B : Binding R) (z : C),
  log2_ RO RE B z = (fst (clog_ RO RE B z) / ln 2, snd (clog_ RO RE B z) / ln 2).
Proof. exact log2_any. Qed.
Print Assumptions c10_log2_any_binding.
Theorem c10_log10_any_binding : forall (B : Binding R) (z : C),
  log10_ RO RE B z = (fst (clog_ RO RE B z) / ln 10, snd (clog_ RO RE B z) / ln 10).
Proof. exact log10_any. Qed.
Print Assumptions c10_log10_any_binding.
Theorem c10_logb_any_binding : forall (B : Binding R) (z b : C), clog_ RO RE B b <> (0, 0) ->
  logb_ RO RE B z b = Cdiv (clog_ RO RE B z) (clog_ RO RE B b) /\
  mul_ RO (logb_ RO RE B z b) (clog_ RO RE B b) = clog_ RO RE B z.
Proof. exact logb_any. Qed.
Print Assumptions c10_logb_any_binding.

(* the binary64 literals of a/math.h that complex.c uses are within 2^-53 (relative) of the exact constants *)
Theorem c10_const_sqrt1_2 : Rabs (lit SQRT1_2_m SQRT1_2_e * R_sqrt.sqrt 2 - 1) <= / 2 ^ 53.
Proof. exact const_sqrt1_2. Qed.
Print Assumptions c10_const_sqrt1_2.
Theorem c10_const_pi : Rabs (lit PI_m PI_e / PI - 1) <= / 2 ^ 53.
Proof. exact const_pi. Qed.
Print Assumptions c10_const_pi.
Theorem c10_const_pi_2 : Rabs (lit PI_2_m PI_2_e / (PI / 2) - 1) <= / 2 ^ 53.
Proof. exact const_pi_2. Qed.
Print Assumptions c10_const_pi_2.
Theorem c10_const_ln1_2 : Rabs (lit LN1_2_m LN1_2_e * ln 2 - 1) <= / 2 ^ 53.
Proof. exact const_ln1_2. Qed.
Print Assumptions c10_const_ln1_2.
Theorem c10_const_ln1_10 : Rabs (lit LN1_10_m LN1_10_e * ln 10 - 1) <= / 2 ^ 53.
Proof. exact const_ln1_10. Qed.
Print Assumptions c10_const_ln1_10.
(* the literal as found (before proposed_fixes/C10-2) is log2(10) *)
Theorem c10_const_ln1_2_unfixed_refuted :
  Rabs (lit LN1_2_bad_m LN1_2_bad_e * ln 2 - 1) >= 1 /\ Rabs (lit LN1_2_bad_m LN1_2_bad_e * ln 2 - ln 10) <= / 2 ^ 50.
Proof. exact const_ln1_2_unfixed_refuted. Qed.
Print Assumptions c10_const_ln1_2_unfixed_refuted.

(* ---------------------------------------------------------------- forward trigonometric / hyperbolic families *)
Theorem c10_sin : forall z : C, sin_fb RO z = Csin z.
Proof. exact sin_fb_spec. Qed.
Print Assumptions c10_sin.
Theorem c10_cos : forall z : C, cos_fb RO z = Ccos z.
Proof. exact cos_fb_spec. Qed.
Print Assumptions c10_cos.
Theorem c10_sinh : forall z : C, sinh_fb RO z = Csinh z.
Proof. exact sinh_fb_spec. Qed.
Print Assumptions c10_sinh.
Theorem c10_cosh : forall z : C, cosh_fb RO z = Ccosh z.
Proof. exact cosh_fb_spec. Qed.
Print Assumptions c10_cosh.
Theorem c10_tan : forall z : C, Ccos z <> (0, 0) ->
  cos (fst z) * cos (fst z) + sinh (snd z) * sinh (snd z) <> 0 /\ tan_fb RO RE z = Ctan z.
Proof. exact tan_fb_spec. Qed.
Print Assumptions c10_tan.
Theorem c10_tanh : forall z : C, Ccosh z <> (0, 0) ->
  cos (snd z) * cos (snd z) + sinh (fst z) * sinh (fst z) <> 0 /\ tanh_fb RO RE z = Ctanh z.
Proof. exact tanh_fb_spec. Qed.
Print Assumptions c10_tanh.
(* reciprocal families, for every binding of the underlying function *)
Theorem c10_sec : forall (B : Binding R) z, ccos_ RO B z <> (0, 0) -> sec_ RO B z = Cinv (ccos_ RO B z).
Proof. exact sec_spec. Qed.
Print Assumptions c10_sec.
Theorem c10_csc : forall (B : Binding R) z, csin_ RO B z <> (0, 0) -> csc_ RO B z = Cinv (csin_ RO B z).
Proof. exact csc_spec. Qed.
Print Assumptions c10_csc.
Theorem c10_cot : forall (B : Binding R) z, ctan_ RO RE B z <> (0, 0) -> cot_ RO RE B z = Cinv (ctan_ RO RE B z).
Proof. exact cot_spec. Qed.
Print Assumptions c10_cot.
Theorem c10_sech : forall (B : Binding R) z, ccosh_ RO B z <> (0, 0) -> sech_ RO B z = Cinv (ccosh_ RO B z).
Proof. exact sech_spec. Qed.
Print Assumptions c10_sech.
Theorem c10_csch : forall (B : Binding R) z, csinh_ RO B z <> (0, 0) -> csch_ RO B z = Cinv (csinh_ RO B z).
Proof. exact csch_spec. Qed.
Print Assumptions c10_csch.
Theorem c10_coth : forall (B : Binding R) z, ctanh_ RO RE B z <> (0, 0) -> coth_ RO RE B z = Cinv (ctanh_ RO RE B z).
Proof. exact coth_spec. Qed.
Print Assumptions c10_coth.
Theorem c10_sec_fallback : forall z, Ccos z <> (0, 0) -> sec_ RO fb_bind z = Cinv (Ccos z).
Proof. exact sec_fb_spec. Qed.
Print Assumptions c10_sec_fallback.
Theorem c10_cot_fallback : forall z, Ccos z <> (0, 0) -> Ctan z <> (0, 0) -> cot_ RO RE fb_bind z = Cinv (Ctan z).
Proof. exact cot_fb_spec. Qed.
Print Assumptions c10_cot_fallback.

(* ---------------------------------------------------------------- inverse families: structure, for every binding *)
Theorem c10_asinh_structure : forall (B : Binding R) z, asinh_fb RO RE B z = Cmult (Copp Ci) (casin_ RO RE B (Cmult Ci z)).
Proof. exact asinh_structure. Qed.
Print Assumptions c10_asinh_structure.
Theorem c10_atanh_structure : forall (B : Binding R) z, snd z <> 0 ->
  atanh_fb RO RE B z = Cmult (Copp Ci) (catan_ RO RE B (Cmult Ci z)).
Proof. exact atanh_structure. Qed.
Print Assumptions c10_atanh_structure.
Theorem c10_acosh_structure : forall (B : Binding R) z,
  let w := cacos_ RO RE B z in
  (acosh_fb RO RE B z = Cmult (Copp Ci) w \/ acosh_fb RO RE B z = Cmult Ci w) /\ 0 <= fst (acosh_fb RO RE B z).
Proof. exact acosh_structure. Qed.
Print Assumptions c10_acosh_structure.
Theorem c10_asec_structure : forall (B : Binding R) z, z <> (0, 0) -> asec_ RO RE B z = cacos_ RO RE B (Cinv z).
Proof. exact asec_structure. Qed.
Print Assumptions c10_asec_structure.
Theorem c10_acsc_structure : forall (B : Binding R) z, z <> (0, 0) -> acsc_ RO RE B z = casin_ RO RE B (Cinv z).
Proof. exact acsc_structure. Qed.
Print Assumptions c10_acsc_structure.
Theorem c10_acot_structure : forall (B : Binding R) z, z <> (0, 0) -> acot_ RO RE B z = catan_ RO RE B (Cinv z).
Proof. exact acot_structure. Qed.
Print Assumptions c10_acot_structure.
Theorem c10_asech_structure : forall (B : Binding R) z, z <> (0, 0) -> asech_ RO RE B z = cacosh_ RO RE B (Cinv z).
Proof. exact asech_structure. Qed.
Print Assumptions c10_asech_structure.
Theorem c10_acsch_structure : forall (B : Binding R) z, z <> (0, 0) -> acsch_ RO RE B z = casinh_ RO RE B (Cinv z).
Proof. exact acsch_structure. Qed.
Print Assumptions c10_acsch_structure.
Theorem c10_acoth_structure : forall (B : Binding R) z, z <> (0, 0) -> acoth_ RO RE B z = catanh_ RO RE B (Cinv z).
Proof. exact acoth_structure. Qed.
Print Assumptions c10_acoth_structure.

(* ---------------------------------------------------------------- real-argument variants *)
Theorem c10_asin_real_axis : forall x, asin_fb RO RE (x, 0) = asin_real RO RE x.
Proof. exact asin_fb_real_axis. Qed.
Print Assumptions c10_asin_real_axis.
Theorem c10_acos_real_axis : forall x, acos_fb RO RE (x, 0) = acos_real RO RE x.
Proof. exact acos_fb_real_axis. Qed.
Print Assumptions c10_acos_real_axis.
Theorem c10_atanh_real_axis : forall (B : Binding R) x, atanh_fb RO RE B (x, 0) = atanh_real RO RE x.
Proof. exact atanh_fb_real_axis. Qed.
Print Assumptions c10_atanh_real_axis.
Theorem c10_asec_real : forall x, x <> 0 -> asec_real RO RE x = acos_real RO RE (1 / x).
Proof. exact asec_real_spec. Qed.
Print Assumptions c10_asec_real.
Theorem c10_acsc_real : forall x, x <> 0 -> acsc_real RO RE x = asin_real RO RE (1 / x).
Proof. exact acsc_real_spec. Qed.
Print Assumptions c10_acsc_real.
(* residuals for EVERY real x (inside and outside [-1,1]): sin(asin_real x) = x etc. *)
Theorem c10_asin_real_residual : forall x, Csin (asin_real RO RE x) = (x, 0).
Proof. exact asin_real_residual. Qed.
Print Assumptions c10_asin_real_residual.
Theorem c10_acos_real_residual : forall x, Ccos (acos_real RO RE x) = (x, 0).
Proof. exact acos_real_residual. Qed.
Print Assumptions c10_acos_real_residual.
Theorem c10_acosh_real_residual : forall x, Ccosh (acosh_real RO RE x) = (x, 0) /\ 0 <= fst (acosh_real RO RE x).
Proof. exact acosh_real_residual. Qed.
Print Assumptions c10_acosh_real_residual.

(* ---------------------------------------------------------------- rounding-error bounds of the FIELD arithmetic
   The theorems above are exact statements over R.  The theorems below bound the FORWARD ERROR of the same Gallina terms
   (cadd, csub, mul_, div_, inv_, the scalar forms, abs2, cabs - tied to the current src/complex.c for EVERY NumOps instance by
   harness/C10/TieCx*.v) run at a ROUNDED-REAL instance (every + - * / followed by rnd) against their exact value, in the
   standard model of floating-point arithmetic with gradual underflow  std_model rnd eps eta : |rnd v - v| <= eps |v| + eta
   (Common/RoundOps.v), for EVERY such rnd; IEEE binary64 round-to-nearest-even is an instance with eps64 = 2^-53,
   eta64 = 2^-1075 (Flocq, Common/RoundFlocq.v).  Proofs: C10/CxRound.v, C10/CxRound64.v.
   The modulus:  complex.c calls a_real_hypot (libm hypot, or a_real_norm2 of src/math.c when A_HAVE_HYPOT is off); the model
   writes fn2 O Hypot.  Rnd_ops_hyp rnd hyp is Rnd_ops rnd with fn2 Hypot := hyp, an ARBITRARY function about which only the
   accuracy at the argument is assumed (|hyp c d - |z|| <= 2 eps |z|: a hypot with one ulp of error, or the correctly rounded
   one); *_cr: the instance Rnd_ops rnd itself (correctly rounded hypot - an idealisation of libm);  *_fallback: Rnd_ops_fb rnd,
   whose modulus is real_norm2 (Rnd_ops rnd), the rounded a_real_norm2 (C11_norm2_rounding_bound supplies its accuracy).
   Range hypotheses of inv_/div_:  eta <= eps |z|  and  eta |z| <= eps  (|z| and 1/|z| in the normal range: 2^-1022 <= |z| <=
   2^1022 in binary64), rnd 1 = 1, eps <= 1/64 (1/128 for the fallback).  Overflow is outside the model.  The constants are
   explicit, not sharp (std_model gives eps |v| + eta where IEEE gives the max of the two).
   NOT covered: sqrt/exp/log/pow/trigonometric/hyperbolic functions and their inverses - their accuracy stays sampled (tie 2).
   Non-vacuity: c10_rounding_nonvacuous_id / _scale / _binary64. *)
From LibaV Require Import Common.RoundOps Common.RoundFlocq C10.CxRound C10.CxRound64.
From LibaV Require C11.MathDefs.

(* add, sub: one rounding per component *)
Theorem c10_add_rounding_bound : forall (rnd : R -> R) (eps eta : R), std_model rnd eps eta -> forall x y : C,
  Rabs (fst (cadd (Rnd_ops rnd) x y) - fst (Cplus x y)) <= eps * Rabs (fst (Cplus x y)) + eta /\
  Rabs (snd (cadd (Rnd_ops rnd) x y) - snd (Cplus x y)) <= eps * Rabs (snd (Cplus x y)) + eta.
Proof. exact add_round. Qed.
Print Assumptions c10_add_rounding_bound.
Theorem c10_sub_rounding_bound : forall (rnd : R -> R) (eps eta : R), std_model rnd eps eta -> forall x y : C,
  Rabs (fst (csub (Rnd_ops rnd) x y) - fst (Cminus x y)) <= eps * Rabs (fst (Cminus x y)) + eta /\
  Rabs (snd (csub (Rnd_ops rnd) x y) - snd (Cminus x y)) <= eps * Rabs (snd (Cminus x y)) + eta.
Proof. exact sub_round. Qed.
Print Assumptions c10_sub_rounding_bound.
(* scalar forms: the touched component is rounded once, the other one is copied *)
Theorem c10_add_real_rounding_bound : forall (rnd : R -> R) (eps eta : R), std_model rnd eps eta -> forall (x : C) (y : R),
  Rabs (fst (add_real (Rnd_ops rnd) x y) - (fst x + y)) <= eps * Rabs (fst x + y) + eta /\ snd (add_real (Rnd_ops rnd) x y) = snd x.
Proof. exact add_real_round. Qed.
Print Assumptions c10_add_real_rounding_bound.
Theorem c10_add_imag_rounding_bound : forall (rnd : R -> R) (eps eta : R), std_model rnd eps eta -> forall (x : C) (y : R),
  fst (add_imag (Rnd_ops rnd) x y) = fst x /\ Rabs (snd (add_imag (Rnd_ops rnd) x y) - (snd x + y)) <= eps * Rabs (snd x + y) + eta.
Proof. exact add_imag_round. Qed.
Print Assumptions c10_add_imag_rounding_bound.
Theorem c10_sub_real_rounding_bound : forall (rnd : R -> R) (eps eta : R), std_model rnd eps eta -> forall (x : C) (y : R),
  Rabs (fst (sub_real (Rnd_ops rnd) x y) - (fst x - y)) <= eps * Rabs (fst x - y) + eta /\ snd (sub_real (Rnd_ops rnd) x y) = snd x.
Proof. exact sub_real_round. Qed.
Print Assumptions c10_sub_real_rounding_bound.
Theorem c10_sub_imag_rounding_bound : forall (rnd : R -> R) (eps eta : R), std_model rnd eps eta -> forall (x : C) (y : R),
  fst (sub_imag (Rnd_ops rnd) x y) = fst x /\ Rabs (snd (sub_imag (Rnd_ops rnd) x y) - (snd x - y)) <= eps * Rabs (snd x - y) + eta.
Proof. exact sub_imag_round. Qed.
Print Assumptions c10_sub_imag_rounding_bound.
Theorem c10_mul_real_rounding_bound : forall (rnd : R -> R) (eps eta : R), std_model rnd eps eta -> forall (x : C) (y : R),
  Rabs (fst (mul_real (Rnd_ops rnd) x y) - fst x * y) <= eps * Rabs (fst x * y) + eta /\
  Rabs (snd (mul_real (Rnd_ops rnd) x y) - snd x * y) <= eps * Rabs (snd x * y) + eta.
Proof. exact mul_real_round. Qed.
Print Assumptions c10_mul_real_rounding_bound.
Theorem c10_mul_imag_rounding_bound : forall (rnd : R -> R) (eps eta : R), std_model rnd eps eta -> forall (x : C) (y : R),
  Rabs (fst (mul_imag (Rnd_ops rnd) x y) - (- snd x * y)) <= eps * Rabs (- snd x * y) + eta /\
  Rabs (snd (mul_imag (Rnd_ops rnd) x y) - fst x * y) <= eps * Rabs (fst x * y) + eta.
Proof. exact mul_imag_round. Qed.
Print Assumptions c10_mul_imag_rounding_bound.
Theorem c10_div_real_rounding_bound : forall (rnd : R -> R) (eps eta : R), std_model rnd eps eta -> forall (x : C) (y : R), y <> 0 ->
  Rabs (fst (div_real (Rnd_ops rnd) x y) - fst x / y) <= eps * Rabs (fst x / y) + eta /\
  Rabs (snd (div_real (Rnd_ops rnd) x y) - snd x / y) <= eps * Rabs (snd x / y) + eta.
Proof. exact div_real_round. Qed.
Print Assumptions c10_div_real_rounding_bound.
Theorem c10_div_imag_rounding_bound : forall (rnd : R -> R) (eps eta : R), std_model rnd eps eta -> forall (x : C) (y : R), y <> 0 ->
  Rabs (fst (div_imag (Rnd_ops rnd) x y) - snd x / y) <= eps * Rabs (snd x / y) + eta /\
  Rabs (snd (div_imag (Rnd_ops rnd) x y) - (- fst x / y)) <= eps * Rabs (- fst x / y) + eta.
Proof. exact div_imag_round. Qed.
Print Assumptions c10_div_imag_rounding_bound.
(* the values the scalar-form bounds compare with are those of the exact instance; neg and conj do not round *)
Theorem c10_scalar_exact_values : forall (x : C) (y : R),
  add_real RO x y = (fst x + y, snd x) /\ add_imag RO x y = (fst x, snd x + y) /\
  sub_real RO x y = (fst x - y, snd x) /\ sub_imag RO x y = (fst x, snd x - y) /\
  mul_real RO x y = (fst x * y, snd x * y) /\ mul_imag RO x y = (- snd x * y, fst x * y) /\
  div_real RO x y = (fst x / y, snd x / y) /\ div_imag RO x y = (snd x / y, - fst x / y).
Proof. exact scalar_exact_values. Qed.
Print Assumptions c10_scalar_exact_values.
Theorem c10_neg_conj_rounding_exact : forall (rnd : R -> R) (z : C), neg (Rnd_ops rnd) z = Copp z /\ conj (Rnd_ops rnd) z = Cconj z.
Proof. exact neg_conj_exact. Qed.
Print Assumptions c10_neg_conj_rounding_exact.

(* the product: componentwise, and Higham's normwise bound sqrt 2 (2 eps + eps^2) |x| |z| with its underflow term *)
Theorem c10_mul_rounding_bound : forall (rnd : R -> R) (eps eta : R), std_model rnd eps eta -> forall x z : C,
  Rabs (fst (mul_ (Rnd_ops rnd) x z) - fst (Cmult x z))
    <= (2 * eps + eps * eps) * (Rabs (fst x * fst z) + Rabs (snd x * snd z)) + (3 + 2 * eps) * eta /\
  Rabs (snd (mul_ (Rnd_ops rnd) x z) - snd (Cmult x z))
    <= (2 * eps + eps * eps) * (Rabs (fst x * snd z) + Rabs (snd x * fst z)) + (3 + 2 * eps) * eta.
Proof. exact mul_round_comp. Qed.
Print Assumptions c10_mul_rounding_bound.
Theorem c10_mul_rounding_bound_normwise : forall (rnd : R -> R) (eps eta : R), std_model rnd eps eta -> forall x z : C,
  Cmod (Cminus (mul_ (Rnd_ops rnd) x z) (Cmult x z)) <= Rsqrt 2 * ((2 * eps + eps * eps) * (Cmod x * Cmod z) + (3 + 2 * eps) * eta).
Proof. exact mul_round_norm. Qed.
Print Assumptions c10_mul_rounding_bound_normwise.
Theorem c10_abs2_rounding_bound : forall (rnd : R -> R) (eps eta : R), std_model rnd eps eta -> forall z : C,
  Rabs (abs2 (Rnd_ops rnd) z - Cmod z * Cmod z) <= (2 * eps + eps * eps) * (Cmod z * Cmod z) + (3 + 2 * eps) * eta.
Proof. exact abs2_round. Qed.
Print Assumptions c10_abs2_rounding_bound.

(* 1/z and x/z, any modulus function accurate to 2 eps at z: 11 eps, resp. 14 eps componentwise and 19 eps normwise *)
Theorem c10_inv_rounding_bound : forall (rnd : R -> R) (eps eta : R), std_model rnd eps eta ->
  forall (hyp : R -> R -> R) (z : C),
  rnd 1 = 1 -> eps <= / 64 -> z <> (0, 0) -> eta * Cmod z <= eps ->
  Rabs (hyp (fst z) (snd z) - Cmod z) <= 2 * eps * Cmod z ->
  let f := inv_ (Rnd_ops_hyp rnd hyp) z in
  Rabs (fst f - fst (Cinv z)) <= 11 * eps * (Rabs (fst z) / (Cmod z * Cmod z)) + 2 * eta * (1 + 1 / Cmod z) /\
  Rabs (snd f - snd (Cinv z)) <= 11 * eps * (Rabs (snd z) / (Cmod z * Cmod z)) + 2 * eta * (1 + 1 / Cmod z) /\
  Cmod (Cminus f (Cinv z)) <= 11 * eps * (1 / Cmod z) + 2 * eta * (1 + 1 / Cmod z).
Proof. exact inv_round. Qed.
Print Assumptions c10_inv_rounding_bound.
Theorem c10_div_rounding_bound : forall (rnd : R -> R) (eps eta : R), std_model rnd eps eta ->
  forall (hyp : R -> R -> R) (x z : C),
  rnd 1 = 1 -> eps <= / 64 -> z <> (0, 0) -> eta <= eps -> eta * Cmod z <= eps ->
  Rabs (hyp (fst z) (snd z) - Cmod z) <= 2 * eps * Cmod z ->
  let X := Cmod (Cdiv x z) in
  let f := div_ (Rnd_ops_hyp rnd hyp) x z in
  Rabs (fst f - fst (Cdiv x z))
    <= 14 * eps * ((Rabs (fst x * fst z) + Rabs (snd x * snd z)) / (Cmod z * Cmod z)) + eta * (5 + 2 * X) /\
  Rabs (snd f - snd (Cdiv x z))
    <= 14 * eps * ((Rabs (snd x * fst z) + Rabs (fst x * snd z)) / (Cmod z * Cmod z)) + eta * (5 + 2 * X) /\
  Cmod (Cminus f (Cdiv x z)) <= 19 * eps * X + eta * (7 + 3 * X).
Proof. exact div_round. Qed.
Print Assumptions c10_div_rounding_bound.
(* ... at Rnd_ops rnd itself (correctly rounded hypot), |z| and 1/|z| in the normal range *)
Theorem c10_inv_rounding_bound_cr : forall (rnd : R -> R) (eps eta : R), std_model rnd eps eta -> forall z : C,
  rnd 1 = 1 -> eps <= / 64 -> z <> (0, 0) -> eta <= eps * Cmod z -> eta * Cmod z <= eps ->
  let f := inv_ (Rnd_ops rnd) z in
  Rabs (fst f - fst (Cinv z)) <= 11 * eps * (Rabs (fst z) / (Cmod z * Cmod z)) + 2 * eta * (1 + 1 / Cmod z) /\
  Rabs (snd f - snd (Cinv z)) <= 11 * eps * (Rabs (snd z) / (Cmod z * Cmod z)) + 2 * eta * (1 + 1 / Cmod z) /\
  Cmod (Cminus f (Cinv z)) <= 11 * eps * (1 / Cmod z) + 2 * eta * (1 + 1 / Cmod z).
Proof. exact inv_round_cr. Qed.
Print Assumptions c10_inv_rounding_bound_cr.
Theorem c10_div_rounding_bound_cr : forall (rnd : R -> R) (eps eta : R), std_model rnd eps eta -> forall x z : C,
  rnd 1 = 1 -> eps <= / 64 -> z <> (0, 0) -> eta <= eps * Cmod z -> eta * Cmod z <= eps ->
  let X := Cmod (Cdiv x z) in
  let f := div_ (Rnd_ops rnd) x z in
  Rabs (fst f - fst (Cdiv x z))
    <= 14 * eps * ((Rabs (fst x * fst z) + Rabs (snd x * snd z)) / (Cmod z * Cmod z)) + eta * (5 + 2 * X) /\
  Rabs (snd f - snd (Cdiv x z))
    <= 14 * eps * ((Rabs (snd x * fst z) + Rabs (fst x * snd z)) / (Cmod z * Cmod z)) + eta * (5 + 2 * X) /\
  Cmod (Cminus f (Cdiv x z)) <= 19 * eps * X + eta * (7 + 3 * X).
Proof. exact div_round_cr. Qed.
Print Assumptions c10_div_rounding_bound_cr.
(* ... for a modulus of ANY relative accuracy theta <= 1/2, without a smallness condition on eps: the bound as a function of
   theta (iota_of, kappa_of, Gdiv, Ginv, Tof, Tinv are defined in C10/CxRound.v; Gdiv theta = (2 theta + 10 eps) + O(eps^2)) *)
Theorem c10_inv_rounding_bound_general : forall (rnd : R -> R) (eps eta : R), std_model rnd eps eta ->
  forall (hyp : R -> R -> R) (z : C) (theta : R),
  rnd 1 = 1 -> z <> (0, 0) -> 0 <= theta <= / 2 -> eta * Cmod z <= eps ->
  Rabs (hyp (fst z) (snd z) - Cmod z) <= theta * Cmod z ->
  let u := 1 / Cmod z in
  let f := inv_ (Rnd_ops_hyp rnd hyp) z in
  Rabs (fst f - fst (Cinv z)) <= Ginv eps theta * (Rabs (fst z) * u * u) + Tinv eps eta theta u /\
  Rabs (snd f - snd (Cinv z)) <= Ginv eps theta * (Rabs (snd z) * u * u) + Tinv eps eta theta u /\
  Cmod (Cminus f (Cinv z)) <= Ginv eps theta * u + Rsqrt 2 * Tinv eps eta theta u.
Proof. exact inv_round_gen. Qed.
Print Assumptions c10_inv_rounding_bound_general.
Theorem c10_div_rounding_bound_general : forall (rnd : R -> R) (eps eta : R), std_model rnd eps eta ->
  forall (hyp : R -> R -> R) (x z : C) (theta : R),
  rnd 1 = 1 -> z <> (0, 0) -> 0 <= theta <= / 2 -> eta * Cmod z <= eps ->
  Rabs (hyp (fst z) (snd z) - Cmod z) <= theta * Cmod z ->
  let k := kappa_of eps theta in
  let X := Cmod x / Cmod z in
  let T := Tof eps eta k (Rsqrt 2 * (1 + X)) in
  let f := div_ (Rnd_ops_hyp rnd hyp) x z in
  Rabs (fst f - fst (Cdiv x z))
    <= Gdiv eps theta * ((Rabs (fst x * fst z) + Rabs (snd x * snd z)) / (Cmod z * Cmod z)) + T /\
  Rabs (snd f - snd (Cdiv x z))
    <= Gdiv eps theta * ((Rabs (snd x * fst z) + Rabs (fst x * snd z)) / (Cmod z * Cmod z)) + T /\
  Cmod (Cminus f (Cdiv x z)) <= Rsqrt 2 * (Gdiv eps theta * X + T).
Proof. exact div_round_gen. Qed.
Print Assumptions c10_div_rounding_bound_general.

(* the modulus: correctly rounded at Rnd_ops rnd; at Rnd_ops_fb rnd it IS the rounded a_real_norm2 of C11 *)
Theorem c10_modulus_rounding_bound_cr : forall (rnd : R -> R) (eps eta : R), std_model rnd eps eta -> forall z : C,
  Rabs (cabs (Rnd_ops rnd) z - Cmod z) <= eps * Cmod z + eta.
Proof. exact cabs_round_cr. Qed.
Print Assumptions c10_modulus_rounding_bound_cr.
Theorem c10_modulus_fallback_is_norm2 : forall (rnd : R -> R) (z : C),
  cabs (Rnd_ops_fb rnd) z = C11.MathDefs.real_norm2 (Rnd_ops rnd) (fst z) (snd z) /\
  (forall hyp : R -> R -> R, cabs (Rnd_ops_hyp rnd hyp) z = hyp (fst z) (snd z)).
Proof. intros rnd z. split; [exact (cabs_fb_is_norm2 rnd z)|exact (fun hyp => cabs_hyp rnd hyp z)]. Qed.
Print Assumptions c10_modulus_fallback_is_norm2.
Theorem c10_modulus_rounding_bound_fallback : forall (rnd : R -> R) (eps eta : R), std_model rnd eps eta -> forall z : C,
  rnd 1 = 1 -> eps + eta <= / 64 ->
  (fst z = 0 \/ 2 * eta <= Rabs (fst z)) -> (snd z = 0 \/ 2 * eta <= Rabs (snd z)) ->
  Rabs (cabs (Rnd_ops_fb rnd) z - Cmod z) <= 7 / 2 * (eps + eta) * Cmod z + eta.
Proof. exact cabs_round_fb. Qed.
Print Assumptions c10_modulus_rounding_bound_fallback.
Theorem c10_inv_rounding_bound_fallback : forall (rnd : R -> R) (eps eta : R), std_model rnd eps eta -> forall z : C,
  rnd 1 = 1 -> eps <= / 128 -> z <> (0, 0) -> eta <= eps * Cmod z -> eta * Cmod z <= eps ->
  (fst z = 0 \/ 2 * eta <= Rabs (fst z)) -> (snd z = 0 \/ 2 * eta <= Rabs (snd z)) ->
  let f := inv_ (Rnd_ops_fb rnd) z in
  Rabs (fst f - fst (Cinv z)) <= 26 * eps * (Rabs (fst z) / (Cmod z * Cmod z)) + 2 * eta * (1 + 1 / Cmod z) /\
  Rabs (snd f - snd (Cinv z)) <= 26 * eps * (Rabs (snd z) / (Cmod z * Cmod z)) + 2 * eta * (1 + 1 / Cmod z) /\
  Cmod (Cminus f (Cinv z)) <= 26 * eps * (1 / Cmod z) + 2 * eta * (1 + 1 / Cmod z).
Proof. exact inv_round_fallback. Qed.
Print Assumptions c10_inv_rounding_bound_fallback.
Theorem c10_div_rounding_bound_fallback : forall (rnd : R -> R) (eps eta : R), std_model rnd eps eta -> forall x z : C,
  rnd 1 = 1 -> eps <= / 128 -> z <> (0, 0) -> eta <= eps * Cmod z -> eta * Cmod z <= eps ->
  (fst z = 0 \/ 2 * eta <= Rabs (fst z)) -> (snd z = 0 \/ 2 * eta <= Rabs (snd z)) ->
  let X := Cmod (Cdiv x z) in
  let f := div_ (Rnd_ops_fb rnd) x z in
  Rabs (fst f - fst (Cdiv x z))
    <= 29 * eps * ((Rabs (fst x * fst z) + Rabs (snd x * snd z)) / (Cmod z * Cmod z)) + eta * (5 + 2 * X) /\
  Rabs (snd f - snd (Cdiv x z))
    <= 29 * eps * ((Rabs (snd x * fst z) + Rabs (fst x * snd z)) / (Cmod z * Cmod z)) + eta * (5 + 2 * X) /\
  Cmod (Cminus f (Cdiv x z)) <= 41 * eps * X + eta * (7 + 3 * X).
Proof. exact div_round_fallback. Qed.
Print Assumptions c10_div_rounding_bound_fallback.

(* ---------------------------------------------------------------- IEEE binary64 (Flocq), overflow excluded *)
Theorem c10_add_sub_rounding_bound_binary64 : forall x y : C,
  (Rabs (fst (cadd (Rnd_ops rnd64) x y) - fst (Cplus x y)) <= eps64 * Rabs (fst (Cplus x y)) + eta64 /\
   Rabs (snd (cadd (Rnd_ops rnd64) x y) - snd (Cplus x y)) <= eps64 * Rabs (snd (Cplus x y)) + eta64) /\
  (Rabs (fst (csub (Rnd_ops rnd64) x y) - fst (Cminus x y)) <= eps64 * Rabs (fst (Cminus x y)) + eta64 /\
   Rabs (snd (csub (Rnd_ops rnd64) x y) - snd (Cminus x y)) <= eps64 * Rabs (snd (Cminus x y)) + eta64).
Proof. exact add_sub_round_binary64. Qed.
Print Assumptions c10_add_sub_rounding_bound_binary64.
Theorem c10_mul_rounding_bound_binary64 : forall x z : C,
  Rabs (fst (mul_ (Rnd_ops rnd64) x z) - fst (Cmult x z))
    <= (2 * eps64 + eps64 * eps64) * (Rabs (fst x * fst z) + Rabs (snd x * snd z)) + (3 + 2 * eps64) * eta64 /\
  Rabs (snd (mul_ (Rnd_ops rnd64) x z) - snd (Cmult x z))
    <= (2 * eps64 + eps64 * eps64) * (Rabs (fst x * snd z) + Rabs (snd x * fst z)) + (3 + 2 * eps64) * eta64 /\
  Cmod (Cminus (mul_ (Rnd_ops rnd64) x z) (Cmult x z))
    <= Rsqrt 2 * ((2 * eps64 + eps64 * eps64) * (Cmod x * Cmod z) + (3 + 2 * eps64) * eta64).
Proof. exact mul_round_binary64. Qed.
Print Assumptions c10_mul_rounding_bound_binary64.
Theorem c10_scalar_rounding_bound_binary64 : forall (x : C) (y : R),
  (Rabs (fst (mul_real (Rnd_ops rnd64) x y) - fst x * y) <= eps64 * Rabs (fst x * y) + eta64 /\
   Rabs (snd (mul_real (Rnd_ops rnd64) x y) - snd x * y) <= eps64 * Rabs (snd x * y) + eta64) /\
  (Rabs (fst (mul_imag (Rnd_ops rnd64) x y) - (- snd x * y)) <= eps64 * Rabs (- snd x * y) + eta64 /\
   Rabs (snd (mul_imag (Rnd_ops rnd64) x y) - fst x * y) <= eps64 * Rabs (fst x * y) + eta64) /\
  (y <> 0 ->
   (Rabs (fst (div_real (Rnd_ops rnd64) x y) - fst x / y) <= eps64 * Rabs (fst x / y) + eta64 /\
    Rabs (snd (div_real (Rnd_ops rnd64) x y) - snd x / y) <= eps64 * Rabs (snd x / y) + eta64) /\
   (Rabs (fst (div_imag (Rnd_ops rnd64) x y) - snd x / y) <= eps64 * Rabs (snd x / y) + eta64 /\
    Rabs (snd (div_imag (Rnd_ops rnd64) x y) - (- fst x / y)) <= eps64 * Rabs (- fst x / y) + eta64)).
Proof. exact scalar_round_binary64. Qed.
Print Assumptions c10_scalar_rounding_bound_binary64.
Theorem c10_inv_rounding_bound_binary64 : forall z : C, z <> (0, 0) -> eta64 <= eps64 * Cmod z -> eta64 * Cmod z <= eps64 ->
  Cmod (Cminus (inv_ (Rnd_ops rnd64) z) (Cinv z)) <= 11 * eps64 * (1 / Cmod z) + 2 * eta64 * (1 + 1 / Cmod z).
Proof. exact inv_round_binary64. Qed.
Print Assumptions c10_inv_rounding_bound_binary64.
Theorem c10_div_rounding_bound_binary64 : forall x z : C, z <> (0, 0) -> eta64 <= eps64 * Cmod z -> eta64 * Cmod z <= eps64 ->
  let X := Cmod (Cdiv x z) in
  Rabs (fst (div_ (Rnd_ops rnd64) x z) - fst (Cdiv x z))
    <= 14 * eps64 * ((Rabs (fst x * fst z) + Rabs (snd x * snd z)) / (Cmod z * Cmod z)) + eta64 * (5 + 2 * X) /\
  Rabs (snd (div_ (Rnd_ops rnd64) x z) - snd (Cdiv x z))
    <= 14 * eps64 * ((Rabs (snd x * fst z) + Rabs (fst x * snd z)) / (Cmod z * Cmod z)) + eta64 * (5 + 2 * X) /\
  Cmod (Cminus (div_ (Rnd_ops rnd64) x z) (Cdiv x z)) <= 19 * eps64 * X + eta64 * (7 + 3 * X).
Proof. exact div_round_binary64. Qed.
Print Assumptions c10_div_rounding_bound_binary64.
(* every binary64 number is 0 or at least 2^-1074 = 2 eta64 in magnitude: the side conditions on the components hold for all
   floating-point arguments *)
Theorem c10_modulus_rounding_bound_fallback_binary64 : forall z : C,
  (fst z = 0 \/ 2 * eta64 <= Rabs (fst z)) -> (snd z = 0 \/ 2 * eta64 <= Rabs (snd z)) ->
  Rabs (cabs (Rnd_ops_fb rnd64) z - Cmod z) <= 7 / 2 * (eps64 + eta64) * Cmod z + eta64.
Proof. exact cabs_round_fallback_binary64. Qed.
Print Assumptions c10_modulus_rounding_bound_fallback_binary64.
Theorem c10_inv_div_rounding_bound_fallback_binary64 : forall x z : C,
  z <> (0, 0) -> eta64 <= eps64 * Cmod z -> eta64 * Cmod z <= eps64 ->
  (fst z = 0 \/ 2 * eta64 <= Rabs (fst z)) -> (snd z = 0 \/ 2 * eta64 <= Rabs (snd z)) ->
  let X := Cmod (Cdiv x z) in
  Cmod (Cminus (inv_ (Rnd_ops_fb rnd64) z) (Cinv z)) <= 26 * eps64 * (1 / Cmod z) + 2 * eta64 * (1 + 1 / Cmod z) /\
  Cmod (Cminus (div_ (Rnd_ops_fb rnd64) x z) (Cdiv x z)) <= 41 * eps64 * X + eta64 * (7 + 3 * X).
Proof. exact inv_div_round_fallback_binary64. Qed.
Print Assumptions c10_inv_div_rounding_bound_fallback_binary64.

(* ---------------------------------------------------------------- non-vacuity of the rounding theorems
   _id: the identity rounding (eps = eta = 0, rnd 1 = 1) meets every hypothesis for every z <> 0, all bounds are 0 and the
        rounded instance returns the exact inverse, quotient and product;
   _scale: the inexact model rnd v = 9/8 v: (1+2i)(3+4i) is computed as -405/64 + 405/32 i; the imaginary part ATTAINS the bound;
   _binary64: z = 3 + 4i, x = 1 + 2i meet the range hypotheses in binary64 (both modulus instances). *)
Theorem c10_rounding_nonvacuous_id : forall x z : C, z <> (0, 0) ->
  inv_ (Rnd_ops (fun v => v)) z = Cinv z /\ div_ (Rnd_ops (fun v => v)) x z = Cdiv x z /\
  mul_ (Rnd_ops (fun v => v)) x z = Cmult x z.
Proof. exact inv_div_round_id. Qed.
Print Assumptions c10_rounding_nonvacuous_id.
Theorem c10_rounding_nonvacuous_scale :
  let rnd := fun v => v * (1 + / 8) in
  mul_ (Rnd_ops rnd) (1, 2) (3, 4) = (- (405 / 64), 405 / 32) /\ Cmult (1, 2) (3, 4) = (-5, 10) /\
  Rabs (- (405 / 64) - -5) <= (2 * / 8 + / 8 * / 8) * (Rabs (1 * 3) + Rabs (2 * 4)) + (3 + 2 * / 8) * 0 /\
  Rabs (405 / 32 - 10) = (2 * / 8 + / 8 * / 8) * (Rabs (1 * 4) + Rabs (2 * 3)) + (3 + 2 * / 8) * 0 /\
  cadd (Rnd_ops rnd) (1, 2) (3, 4) = (9 / 2, 27 / 4) /\ Cplus (1, 2) (3, 4) = (4, 6) /\
  Rabs (9 / 2 - 4) = / 8 * Rabs 4 + 0 /\ Rabs (27 / 4 - 6) = / 8 * Rabs 6 + 0.
Proof. exact mul_add_round_scale. Qed.
Print Assumptions c10_rounding_nonvacuous_scale.
Theorem c10_rounding_nonvacuous_binary64 :
  Cmod (Cminus (inv_ (Rnd_ops rnd64) (3, 4)) (Cinv (3, 4))) <= 11 * eps64 * (1 / 5) + 2 * eta64 * (1 + 1 / 5) /\
  Cmod (Cminus (div_ (Rnd_ops rnd64) (1, 2) (3, 4)) (Cdiv (1, 2) (3, 4)))
    <= 19 * eps64 * Cmod (Cdiv (1, 2) (3, 4)) + eta64 * (7 + 3 * Cmod (Cdiv (1, 2) (3, 4))) /\
  Cmod (Cminus (div_ (Rnd_ops_fb rnd64) (1, 2) (3, 4)) (Cdiv (1, 2) (3, 4)))
    <= 41 * eps64 * Cmod (Cdiv (1, 2) (3, 4)) + eta64 * (7 + 3 * Cmod (Cdiv (1, 2) (3, 4))).
Proof. exact inv_div_round_binary64_ex. Qed.
Print Assumptions c10_rounding_nonvacuous_binary64.
