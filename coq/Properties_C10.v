(* placeholder while the pipeline is brought up *)
From Coq Require Import Reals Lra Psatz.
From LibaV Require Import Common.NumOps Common.ROps C10.CxDefs.
Local Open Scope R_scope.
Theorem c10_abs2_nonneg : forall z : R * R, 0 <= abs2 R_ops z.
Proof. intros [x y]. unfold abs2. cbn. nra. Qed.
Print Assumptions c10_abs2_nonneg.
