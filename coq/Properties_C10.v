(* C10 - complex arithmetic and functions (src/complex.c, include/a/complex.h, constants of include/a/math.h).
   Theorems over R about the model coq/C10/CxDefs.v instantiated with R_ops / R_ext (exact real arithmetic, libm names
   = the real functions).  RO = R_ops, RE = R_ext, C = R * R (Coquelicot).  `*_fb` = fallback body, `c*_ B` = the function
   under the binding B of the A_HAVE_C* switches, fb_bind = all switches off.
   NOT carried by any theorem: floating-point rounding ("within a small multiple of machine precision") - that part of the
   property is sampled by checks/C10.py (tie 2) and is PARTIAL. *)
From Coq Require Import Reals ZArith.
From Coquelicot Require Import Coquelicot.
From LibaV Require Import Common.NumOps Common.ROps C10.CxDefs C10.CxReal C10.CxField C10.CxSqrt C10.CxExpLog C10.CxConst
  C10.CxTrig C10.CxInverse C10.CxExamples.
Local Open Scope R_scope.

(* ---------------------------------------------------------------- field arithmetic *)
Theorem c10_mul : forall x z : C, mul_ RO x z = Cmult x z.
Proof. exact mul_Cmult. Qed.
Print Assumptions c10_mul.

Theorem c10_div : forall x z : C, z <> (0, 0) -> cabs RO z <> 0 /\ div_ RO x z = Cdiv x z.
Proof. exact div_Cdiv. Qed.
Print Assumptions c10_div.

Theorem c10_inv : forall z : C, z <> (0, 0) -> cabs RO z <> 0 /\ inv_ RO z = Cinv z.
Proof. exact inv_Cinv. Qed.
Print Assumptions c10_inv.

Theorem c10_add : forall x y : C, cadd RO x y = Cplus x y.
Proof. exact add_Cplus. Qed.
Print Assumptions c10_add.
Theorem c10_sub : forall x y : C, csub RO x y = Cminus x y.
Proof. exact sub_Cminus. Qed.
Print Assumptions c10_sub.
Theorem c10_neg : forall z : C, neg RO z = Copp z.
Proof. exact neg_Copp. Qed.
Print Assumptions c10_neg.
Theorem c10_conj : forall z : C, conj RO z = Cconj z.
Proof. exact conj_Cconj. Qed.
Print Assumptions c10_conj.

Theorem c10_modulus : forall z : C, cabs RO z = Cmod z.
Proof. exact cabs_Cmod. Qed.
Print Assumptions c10_modulus.
Theorem c10_abs2 : forall z : C, abs2 RO z = Cmod z * Cmod z.
Proof. exact abs2_Cmod. Qed.
Print Assumptions c10_abs2.

(* real- and imaginary-scalar forms = the operation with (y, 0) resp. (0, y) *)
Theorem c10_add_real : forall x y, add_real RO x y = cadd RO x (y, 0).
Proof. exact add_real_spec. Qed.
Print Assumptions c10_add_real.
Theorem c10_add_imag : forall x y, add_imag RO x y = cadd RO x (0, y).
Proof. exact add_imag_spec. Qed.
Print Assumptions c10_add_imag.
Theorem c10_sub_real : forall x y, sub_real RO x y = csub RO x (y, 0).
Proof. exact sub_real_spec. Qed.
Print Assumptions c10_sub_real.
Theorem c10_sub_imag : forall x y, sub_imag RO x y = csub RO x (0, y).
Proof. exact sub_imag_spec. Qed.
Print Assumptions c10_sub_imag.
Theorem c10_mul_real : forall x y, mul_real RO x y = mul_ RO x (y, 0).
Proof. exact mul_real_spec. Qed.
Print Assumptions c10_mul_real.
Theorem c10_mul_imag : forall x y, mul_imag RO x y = mul_ RO x (0, y).
Proof. exact mul_imag_spec. Qed.
Print Assumptions c10_mul_imag.
Theorem c10_div_real : forall x y, y <> 0 -> div_real RO x y = div_ RO x (y, 0).
Proof. exact div_real_spec. Qed.
Print Assumptions c10_div_real.
Theorem c10_div_imag : forall x y, y <> 0 -> div_imag RO x y = div_ RO x (0, y).
Proof. exact div_imag_spec. Qed.
Print Assumptions c10_div_imag.

(* documented inverse pairs compose to the identity *)
Theorem c10_mul_div_real_id : forall z y, y <> 0 -> div_real RO (mul_real RO z y) y = z.
Proof. exact mul_div_real_id. Qed.
Print Assumptions c10_mul_div_real_id.
Theorem c10_div_mul_real_id : forall z y, y <> 0 -> mul_real RO (div_real RO z y) y = z.
Proof. exact div_mul_real_id. Qed.
Print Assumptions c10_div_mul_real_id.
Theorem c10_mul_div_imag_id : forall z y, y <> 0 -> div_imag RO (mul_imag RO z y) y = z.
Proof. exact mul_div_imag_id. Qed.
Print Assumptions c10_mul_div_imag_id.
Theorem c10_div_mul_imag_id : forall z y, y <> 0 -> mul_imag RO (div_imag RO z y) y = z.
Proof. exact div_mul_imag_id. Qed.
Print Assumptions c10_div_mul_imag_id.
Theorem c10_inv_inv_id : forall z : C, z <> (0, 0) -> inv_ RO (inv_ RO z) = z.
Proof. exact inv_inv_id. Qed.
Print Assumptions c10_inv_inv_id.
Theorem c10_div_mul_id : forall x z : C, z <> (0, 0) -> mul_ RO (div_ RO x z) z = x.
Proof. exact div_mul_id. Qed.
Print Assumptions c10_div_mul_id.

(* the body of a_complex_div_imag as found in the repository (before proposed_fixes/C10-1) composes to -z *)
Theorem c10_div_imag_unfixed_refuted :
  exists z y, y <> 0 /\ div_imag_unfixed RO (mul_imag RO z y) y <> z /\ div_imag_unfixed RO (mul_imag RO z y) y = neg RO z.
Proof. exact div_imag_unfixed_refuted. Qed.
Print Assumptions c10_div_imag_unfixed_refuted.

(* ---------------------------------------------------------------- square root *)
(* THE principal root: w*w = z and (Re w > 0 or Re w = 0 and Im w >= 0), every z: four quadrants, both axes, origin *)
Theorem c10_sqrt_principal : forall z : C, principal_root (sqrt_fb RO RE z) z.
Proof. exact sqrt_fb_principal. Qed.
Print Assumptions c10_sqrt_principal.
(* definedness on the way: w > 0 (the divisor 2w), 2 w^2 = |Re z| + |z| *)
Theorem c10_sqrt_defined : forall z : C, z <> (0, 0) ->
  let w := sqrt_w RO RE z in 0 < w /\ 2 * (w * w) = Rabs (fst z) + R_sqrt.sqrt (fst z * fst z + snd z * snd z).
Proof. exact sqrt_w_spec. Qed.
Print Assumptions c10_sqrt_defined.
Theorem c10_sqrt_unfixed_refuted : exists z : C, ~ principal_root (sqrt_fb_unfixed RO RE z) z.
Proof. exact sqrt_fb_unfixed_refuted. Qed.
Print Assumptions c10_sqrt_unfixed_refuted.
Theorem c10_sqrt_real : forall x : R, principal_root (sqrt_real RO x) (x, 0).
Proof. exact sqrt_real_principal. Qed.
Print Assumptions c10_sqrt_real.
Theorem c10_sqrt_real_axis : forall x : R, sqrt_fb RO RE (x, 0) = sqrt_real RO x.
Proof. exact sqrt_fb_real_axis. Qed.
Print Assumptions c10_sqrt_real_axis.

(* ---------------------------------------------------------------- modulus / argument / polar / exp / log / pow *)
Theorem c10_logabs : forall z : C, z <> (0, 0) -> logabs RO z = ln (Cmod z).
Proof. exact logabs_spec. Qed.
Print Assumptions c10_logabs.
Theorem c10_arg : forall z : C, z <> (0, 0) ->
  let t := arg RO RE z in - PI < t <= PI /\ fst z = Cmod z * cos t /\ snd z = Cmod z * sin t.
Proof. exact arg_spec. Qed.
Print Assumptions c10_arg.
Theorem c10_polar : forall rho t : R, 0 < rho -> - PI < t <= PI ->
  cabs RO (polar RO rho t) = rho /\ arg RO RE (polar RO rho t) = t.
Proof. exact polar_abs_arg. Qed.
Print Assumptions c10_polar.
Theorem c10_exp : forall z : C, exp_fb RO z = Cexp z.
Proof. exact exp_fb_Cexp. Qed.
Print Assumptions c10_exp.
Theorem c10_exp_add : forall a b : C, exp_fb RO (cadd RO a b) = mul_ RO (exp_fb RO a) (exp_fb RO b).
Proof. exact exp_fb_add. Qed.
Print Assumptions c10_exp_add.
Theorem c10_exp_log_id : forall z : C, z <> (0, 0) -> exp_fb RO (log_fb RO RE z) = z.
Proof. exact exp_log_id. Qed.
Print Assumptions c10_exp_log_id.
Theorem c10_log_exp_id : forall z : C, - PI < snd z <= PI -> log_fb RO RE (exp_fb RO z) = z.
Proof. exact log_exp_id. Qed.
Print Assumptions c10_log_exp_id.
Theorem c10_pow : forall z a : C, z <> (0, 0) -> pow_fb RO RE z a = exp_fb RO (mul_ RO a (log_fb RO RE z)).
Proof. exact pow_fb_spec. Qed.
Print Assumptions c10_pow.
Theorem c10_pow_zero : forall a : C,
  pow_fb RO RE (0, 0) a = if Req_EM_T (fst a) 0 then (if Req_EM_T (snd a) 0 then (1, 0) else (0, 0)) else (0, 0).
Proof. exact pow_fb_zero. Qed.
Print Assumptions c10_pow_zero.
Theorem c10_pow_real : forall (z : C) (a : R), pow_real_ RO RE z a = pow_fb RO RE z (a, 0).
Proof. exact pow_real_spec. Qed.
Print Assumptions c10_pow_real.

(* logarithms to base 2, 10, b:  2^(log2 z) = z, 10^(log10 z) = z with b^w = exp (w ln b) *)
Theorem c10_log2 : forall z : C, z <> (0, 0) -> exp_fb RO (mul_real RO (log2_ RO RE fb_bind z) (ln 2)) = z.
Proof. exact log2_spec. Qed.
Print Assumptions c10_log2.
Theorem c10_log10 : forall z : C, z <> (0, 0) -> exp_fb RO (mul_real RO (log10_ RO RE fb_bind z) (ln 10)) = z.
Proof. exact log10_spec. Qed.
Print Assumptions c10_log10.
Theorem c10_log2_any_binding : forall (B : Binding R) (z : C),
  log2_ RO RE B z = (fst (clog_ RO RE B z) / ln 2, snd (clog_ RO RE B z) / ln 2).
Proof. exact log2_any. Qed.
Print Assumptions c10_log2_any_binding.
Theorem c10_log10_any_binding : forall (B : Binding R) (z : C),
  log10_ RO RE B z = (fst (clog_ RO RE B z) / ln 10, snd (clog_ RO RE B z) / ln 10).
Proof. exact log10_any. Qed.
Print Assumptions c10_log10_any_binding.
Theorem c10_logb_any_binding : forall (B : Binding R) (z b : C), clog_ RO RE B b <> (0, 0) ->
  logb_ RO RE B z b = Cdiv (clog_ RO RE B z) (clog_ RO RE B b) /\
  mul_ RO (logb_ RO RE B z b) (clog_ RO RE B b) = clog_ RO RE B z.
Proof. exact logb_any. Qed.
Print Assumptions c10_logb_any_binding.

(* the binary64 literals of a/math.h that complex.c uses are within 2^-53 (relative) of the exact constants *)
Theorem c10_const_sqrt1_2 : Rabs (lit SQRT1_2_m SQRT1_2_e * R_sqrt.sqrt 2 - 1) <= / 2 ^ 53.
Proof. exact const_sqrt1_2. Qed.
Print Assumptions c10_const_sqrt1_2.
Theorem c10_const_pi : Rabs (lit PI_m PI_e / PI - 1) <= / 2 ^ 53.
Proof. exact const_pi. Qed.
Print Assumptions c10_const_pi.
Theorem c10_const_pi_2 : Rabs (lit PI_2_m PI_2_e / (PI / 2) - 1) <= / 2 ^ 53.
Proof. exact const_pi_2. Qed.
Print Assumptions c10_const_pi_2.
Theorem c10_const_ln1_2 : Rabs (lit LN1_2_m LN1_2_e * ln 2 - 1) <= / 2 ^ 53.
Proof. exact const_ln1_2. Qed.
Print Assumptions c10_const_ln1_2.
Theorem c10_const_ln1_10 : Rabs (lit LN1_10_m LN1_10_e * ln 10 - 1) <= / 2 ^ 53.
Proof. exact const_ln1_10. Qed.
Print Assumptions c10_const_ln1_10.
(* the literal as found (before proposed_fixes/C10-2) is log2(10) *)
Theorem c10_const_ln1_2_unfixed_refuted :
  Rabs (lit LN1_2_bad_m LN1_2_bad_e * ln 2 - 1) >= 1 /\ Rabs (lit LN1_2_bad_m LN1_2_bad_e * ln 2 - ln 10) <= / 2 ^ 50.
Proof. exact const_ln1_2_unfixed_refuted. Qed.
Print Assumptions c10_const_ln1_2_unfixed_refuted.

(* ---------------------------------------------------------------- forward trigonometric / hyperbolic families *)
Theorem c10_sin : forall z : C, sin_fb RO z = Csin z.
Proof. exact sin_fb_spec. Qed.
Print Assumptions c10_sin.
Theorem c10_cos : forall z : C, cos_fb RO z = Ccos z.
Proof. exact cos_fb_spec. Qed.
Print Assumptions c10_cos.
Theorem c10_sinh : forall z : C, sinh_fb RO z = Csinh z.
Proof. exact sinh_fb_spec. Qed.
Print Assumptions c10_sinh.
Theorem c10_cosh : forall z : C, cosh_fb RO z = Ccosh z.
Proof. exact cosh_fb_spec. Qed.
Print Assumptions c10_cosh.
Theorem c10_tan : forall z : C, Ccos z <> (0, 0) ->
  cos (fst z) * cos (fst z) + sinh (snd z) * sinh (snd z) <> 0 /\ tan_fb RO RE z = Ctan z.
Proof. exact tan_fb_spec. Qed.
Print Assumptions c10_tan.
Theorem c10_tanh : forall z : C, Ccosh z <> (0, 0) ->
  cos (snd z) * cos (snd z) + sinh (fst z) * sinh (fst z) <> 0 /\ tanh_fb RO RE z = Ctanh z.
Proof. exact tanh_fb_spec. Qed.
Print Assumptions c10_tanh.
(* reciprocal families, for every binding of the underlying function *)
Theorem c10_sec : forall (B : Binding R) z, ccos_ RO B z <> (0, 0) -> sec_ RO B z = Cinv (ccos_ RO B z).
Proof. exact sec_spec. Qed.
Print Assumptions c10_sec.
Theorem c10_csc : forall (B : Binding R) z, csin_ RO B z <> (0, 0) -> csc_ RO B z = Cinv (csin_ RO B z).
Proof. exact csc_spec. Qed.
Print Assumptions c10_csc.
Theorem c10_cot : forall (B : Binding R) z, ctan_ RO RE B z <> (0, 0) -> cot_ RO RE B z = Cinv (ctan_ RO RE B z).
Proof. exact cot_spec. Qed.
Print Assumptions c10_cot.
Theorem c10_sech : forall (B : Binding R) z, ccosh_ RO B z <> (0, 0) -> sech_ RO B z = Cinv (ccosh_ RO B z).
Proof. exact sech_spec. Qed.
Print Assumptions c10_sech.
Theorem c10_csch : forall (B : Binding R) z, csinh_ RO B z <> (0, 0) -> csch_ RO B z = Cinv (csinh_ RO B z).
Proof. exact csch_spec. Qed.
Print Assumptions c10_csch.
Theorem c10_coth : forall (B : Binding R) z, ctanh_ RO RE B z <> (0, 0) -> coth_ RO RE B z = Cinv (ctanh_ RO RE B z).
Proof. exact coth_spec. Qed.
Print Assumptions c10_coth.
Theorem c10_sec_fallback : forall z, Ccos z <> (0, 0) -> sec_ RO fb_bind z = Cinv (Ccos z).
Proof. exact sec_fb_spec. Qed.
Print Assumptions c10_sec_fallback.
Theorem c10_cot_fallback : forall z, Ccos z <> (0, 0) -> Ctan z <> (0, 0) -> cot_ RO RE fb_bind z = Cinv (Ctan z).
Proof. exact cot_fb_spec. Qed.
Print Assumptions c10_cot_fallback.

(* ---------------------------------------------------------------- inverse families: structure, for every binding *)
Theorem c10_asinh_structure : forall (B : Binding R) z, asinh_fb RO RE B z = Cmult (Copp Ci) (casin_ RO RE B (Cmult Ci z)).
Proof. exact asinh_structure. Qed.
Print Assumptions c10_asinh_structure.
Theorem c10_atanh_structure : forall (B : Binding R) z, snd z <> 0 ->
  atanh_fb RO RE B z = Cmult (Copp Ci) (catan_ RO RE B (Cmult Ci z)).
Proof. exact atanh_structure. Qed.
Print Assumptions c10_atanh_structure.
Theorem c10_acosh_structure : forall (B : Binding R) z,
  let w := cacos_ RO RE B z in
  (acosh_fb RO RE B z = Cmult (Copp Ci) w \/ acosh_fb RO RE B z = Cmult Ci w) /\ 0 <= fst (acosh_fb RO RE B z).
Proof. exact acosh_structure. Qed.
Print Assumptions c10_acosh_structure.
Theorem c10_asec_structure : forall (B : Binding R) z, z <> (0, 0) -> asec_ RO RE B z = cacos_ RO RE B (Cinv z).
Proof. exact asec_structure. Qed.
Print Assumptions c10_asec_structure.
Theorem c10_acsc_structure : forall (B : Binding R) z, z <> (0, 0) -> acsc_ RO RE B z = casin_ RO RE B (Cinv z).
Proof. exact acsc_structure. Qed.
Print Assumptions c10_acsc_structure.
Theorem c10_acot_structure : forall (B : Binding R) z, z <> (0, 0) -> acot_ RO RE B z = catan_ RO RE B (Cinv z).
Proof. exact acot_structure. Qed.
Print Assumptions c10_acot_structure.
Theorem c10_asech_structure : forall (B : Binding R) z, z <> (0, 0) -> asech_ RO RE B z = cacosh_ RO RE B (Cinv z).
Proof. exact asech_structure. Qed.
Print Assumptions c10_asech_structure.
Theorem c10_acsch_structure : forall (B : Binding R) z, z <> (0, 0) -> acsch_ RO RE B z = casinh_ RO RE B (Cinv z).
Proof. exact acsch_structure. Qed.
Print Assumptions c10_acsch_structure.
Theorem c10_acoth_structure : forall (B : Binding R) z, z <> (0, 0) -> acoth_ RO RE B z = catanh_ RO RE B (Cinv z).
Proof. exact acoth_structure. Qed.
Print Assumptions c10_acoth_structure.

(* ---------------------------------------------------------------- real-argument variants *)
Theorem c10_asin_real_axis : forall x, asin_fb RO RE (x, 0) = asin_real RO RE x.
Proof. exact asin_fb_real_axis. Qed.
Print Assumptions c10_asin_real_axis.
Theorem c10_acos_real_axis : forall x, acos_fb RO RE (x, 0) = acos_real RO RE x.
Proof. exact acos_fb_real_axis. Qed.
Print Assumptions c10_acos_real_axis.
Theorem c10_atanh_real_axis : forall (B : Binding R) x, atanh_fb RO RE B (x, 0) = atanh_real RO RE x.
Proof. exact atanh_fb_real_axis. Qed.
Print Assumptions c10_atanh_real_axis.
Theorem c10_asec_real : forall x, x <> 0 -> asec_real RO RE x = acos_real RO RE (1 / x).
Proof. exact asec_real_spec. Qed.
Print Assumptions c10_asec_real.
Theorem c10_acsc_real : forall x, x <> 0 -> acsc_real RO RE x = asin_real RO RE (1 / x).
Proof. exact acsc_real_spec. Qed.
Print Assumptions c10_acsc_real.
(* residuals for EVERY real x (inside and outside [-1,1]): sin(asin_real x) = x etc. *)
Theorem c10_asin_real_residual : forall x, Csin (asin_real RO RE x) = (x, 0).
Proof. exact asin_real_residual. Qed.
Print Assumptions c10_asin_real_residual.
Theorem c10_acos_real_residual : forall x, Ccos (acos_real RO RE x) = (x, 0).
Proof. exact acos_real_residual. Qed.
Print Assumptions c10_acos_real_residual.
Theorem c10_acosh_real_residual : forall x, Ccosh (acosh_real RO RE x) = (x, 0) /\ 0 <= fst (acosh_real RO RE x).
Proof. exact acosh_real_residual. Qed.
Print Assumptions c10_acosh_real_residual.
