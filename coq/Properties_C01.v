From Coq Require Import ZArith List.
From LibaV Require Import C01.AvlDefs C01.AvlProofs.
Theorem c01_search_empty : forall k, search k E = None.
Proof. exact search_empty. Qed.
Print Assumptions c01_search_empty.
