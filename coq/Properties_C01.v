(* C01 -- AVL tree stays a balanced, correctly linked search tree under any history.
   Model: C01/AvlDefs.v (run / step / ins / rem / search / heap_of).  Vocabulary: C01/AvlProofs.v
   (sorted, Bst, Balanced, linsert, ldelete), C01/AvlHistory.v (amap, a_step, a_run, reachable, ids,
   fresh_ids), C01/AvlHeap.v (Repr), C01/AvlOrder.v (mapk, op_mapk, order_preserving).  Non-vacuity Examples: C01/AvlExamples.v.
   Every theorem quantifies over ALL finite histories from the empty tree. *)
From Coq Require Import ZArith List.
From LibaV Require Import C01.AvlDefs C01.AvlProofs C01.AvlHistory C01.AvlHeap C01.AvlOrder C01.AvlExamples.
Import ListNotations.
Local Open Scope Z_scope.

(* After every insert / remove / search, in any interleaving: no model error (no null dereference, no
   factor leaving -1..1), the tree is a search tree, and at every node the stored factor equals
   height(right) - height(left) and lies in -1..1. *)
Theorem c01_avl_inv_reachable : forall ops : list op,
  exists t obs, run ops E = Some (t, obs) /\ Bst t /\ Balanced t.
Proof. exact avl_inv_reachable_proof. Qed.
Print Assumptions c01_avl_inv_reachable.

(* The container holds exactly the elements inserted and not yet removed: the run refines the abstract
   map key -> id (a_step: insert of a resident key changes nothing and returns the resident; insert of
   an absent key adds it and returns NULL; remove deletes the key and returns its node; search returns
   the resident), every returned pointer included; the in-order list is strictly sorted; membership and
   search agree with the abstract map. *)
Theorem c01_avl_refines_set : forall ops : list op,
  exists t obs,
    run ops E = Some (t, obs) /\
    obs = snd (a_run ops aempty) /\
    sorted (elements t) /\
    (forall k i, In (k, i) (elements t) <-> fst (a_run ops aempty) k = Some i) /\
    (forall k, search k t = fst (a_run ops aempty) k).
Proof. exact avl_refines_set_proof. Qed.
Print Assumptions c01_avl_refines_set.

(* Inserting an element whose key is present changes NOTHING (the tree is equal to the old one) and
   returns the resident; inserting an absent key returns NULL and adds exactly that element. *)
Theorem c01_avl_insert_cases : forall t k id, reachable t ->
  match search k t with
  | Some d => step t (Ins k id) = Some (t, Some d, [TDup])
  | None => exists t' tr, step t (Ins k id) = Some (t', None, tr) /\
                          elements t' = linsert k id (elements t) /\
                          (forall x, In x (elements t') <-> x = (k, id) \/ In x (elements t))
  end.
Proof. exact avl_insert_cases_proof. Qed.
Print Assumptions c01_avl_insert_cases.

(* Remove deletes exactly the key's element and returns its node; removing an absent key changes nothing. *)
Theorem c01_avl_remove_cases : forall t k, reachable t ->
  match search k t with
  | Some d => exists t' tr, step t (Rem k) = Some (t', Some d, tr) /\
                            elements t' = ldelete k (elements t) /\
                            (forall x, In x (elements t') <-> In x (elements t) /\ fst x <> k)
  | None => step t (Rem k) = Some (t, None, [TAbsent])
  end.
Proof. exact avl_remove_cases_proof. Qed.
Print Assumptions c01_avl_remove_cases.

(* Lookup finds an element exactly when it is present. *)
Theorem c01_avl_search_iff : forall t k i, reachable t ->
  (search k t = Some i <-> In (k, i) (elements t)).
Proof. exact avl_search_iff_proof. Qed.
Print Assumptions c01_avl_search_iff.

(* The canonical pointer structure of any tree with distinct node ids: it represents the tree, every
   child's parent field points back to its parent, exactly the root has a null parent field, every other
   node is the left or right child of the node its parent field names, and it holds exactly the tree's nodes. *)
Theorem c01_heap_of_parent_links : forall t, NoDup (ids t) ->
  let h := heap_of None t in
  Repr h None t /\
  (forall i c, lookup h i = Some c ->
     (forall j, c_left c = Some j -> exists c', lookup h j = Some c' /\ c_parent c' = Some i) /\
     (forall j, c_right c = Some j -> exists c', lookup h j = Some c' /\ c_parent c' = Some i) /\
     (c_parent c = None <-> root_id t = Some i) /\
     (forall q, c_parent c = Some q ->
        exists cq, lookup h q = Some cq /\ (c_left cq = Some i \/ c_right cq = Some i))) /\
  (forall i, In i (ids t) <-> exists c, lookup h i = Some c).
Proof. exact heap_of_parent_links_proof. Qed.
Print Assumptions c01_heap_of_parent_links.

(* ... and this holds after every history whose inserted node objects are not already in use. *)
Theorem c01_heap_links_reachable : forall ops t obs,
  fresh_ids ops [] -> run ops E = Some (t, obs) ->
  let h := heap_of None t in
  Repr h None t /\
  (forall i c, lookup h i = Some c ->
     (forall j, c_left c = Some j -> exists c', lookup h j = Some c' /\ c_parent c' = Some i) /\
     (forall j, c_right c = Some j -> exists c', lookup h j = Some c' /\ c_parent c' = Some i) /\
     (c_parent c = None <-> root_id t = Some i) /\
     (forall q, c_parent c = Some q ->
        exists cq, lookup h q = Some cq /\ (c_left cq = Some i \/ c_right cq = Some i))) /\
  (forall i, In i (ids t) <-> exists c, lookup h i = Some c).
Proof. exact heap_links_reachable_proof. Qed.
Print Assumptions c01_heap_links_reachable.

(* Balanced is the real AVL condition: logarithmic height. *)
Theorem c01_avl_height_log : forall t, Balanced t -> height t <= 2 * Z.log2 (size t + 1) + 1.
Proof. exact avl_height_log_proof. Qed.
Print Assumptions c01_avl_height_log.

(* "Over all key sets": only the relative order of keys matters.  Relabelling every key of a history by
   an order-preserving map relabels the keys in the resulting tree and changes nothing else -- same
   shape, node ids, stored factors and returned pointers (and an error would be preserved too).  So the
   theorems above, stated for Z keys, cover every totally ordered key set that embeds in Z. *)
Theorem c01_avl_order_only : forall f, order_preserving f -> forall ops,
  run (map (op_mapk f) ops) E = option_map (fun '(t, obs) => (mapk f t, obs)) (run ops E).
Proof. exact avl_order_only_proof. Qed.
Print Assumptions c01_avl_order_only.
