(* C14 - Velocity-profile trajectories respect kinematic limits and reach their end state.
   Models: C14/TrapDefs.v (src/trajtrap.c), C14/BellDefs.v (src/trajbell.c), one Gallina term each, polymorphic over the
   number type; the theorems below are about the instance R_ops (Coq's reals: exact arithmetic; sqrt of a negative number
   and division by zero are 0 there, so every theorem about a generator also states/uses that the radicands are >= 0 and
   the denominators non-zero on the executed path).  The binary64 instance of the SAME terms is compared bit for bit with
   the C by checks/C14.py.  Floating-point rounding is not proved.
   Two layers.  Evaluation layer: from a well-formedness predicate on the context alone (WFtrap / WFbell: phase durations
   non-negative and summing to t, the hand-over equations; WFlim: the reached peak values are within the limits).
   Planning layer: a generator result t > 0 implies well-formedness - all four branches of the trapezoid generator (on a
   request whose acceleration signs match the direction of travel), and for the double-S generator all four cruise
   variants and the three exits of the bisection loop, for ANY number of loop passes (induction on the model's fuel);
   the acceleration limit of the two single-phase exits needs the standard double-S feasibility condition.
   The models include the zero-limit guards of /repo commit b8b7c64 (both generators return 0 when a limit is zero; before
   it a_trajtrap_gen(vm = 0) returned +inf and a_trajbell_gen(vm = 0) a positive duration with a peak velocity above the
   zero limit): with that guard the planning theorems need no hypothesis on the limits at all.
   Definitions used in the statements: WFtrap, trap_feasible, clampR, trap_gen_post, trap_motion (C14/TrapProofs.v,
   TrapGenProofs.v, MotionProofs.v); WFbell, WFlim, mirror, bnorm, bnd (BellProofs.v); bell_feasible, feasible_std,
   bell_gen_post, inv, exit_post, shape (BellGenProofs.v); bell_motion (MotionProofs.v).
   Non-vacuity: Examples trap_gen_ex, bell_gen_ex (MotionProofs.v: concrete feasible requests with t = 3 resp. t = 5),
   bell_ex_wf, bell_ex_rev_wf (BellProofs.v: concrete well-formed contexts in both directions). *)
From Coq Require Import Reals List.
From Coquelicot Require Import Coquelicot.
From LibaV Require Import Common.NumOps Common.ROps C14.TrapDefs C14.BellDefs C14.TrapProofs C14.TrapGenProofs
  C14.BellProofs C14.BellGenProofs C14.MotionProofs.
Local Open Scope R_scope.

(* ================================================================================================ trapezoid *)
(* --- planning layer: every branch of a_trajtrap_gen (cruise / acceleration only / deceleration only / acceleration +
   deceleration), either direction of travel: a positive result on a feasible request gives a well-formed context that
   records the request, with every divisor non-zero and every sqrt argument non-negative on the executed path *)
Theorem C14_trap_gen_wellformed : forall c0 vm ac de p0 p1 v0 v1,
  trap_feasible ac de p0 p1 ->
  trap_gen_post vm ac de p0 p1 v0 v1 (trap_gen_b R_ops c0 vm ac de p0 p1 v0 v1).
Proof. exact trap_gen_wf. Qed.
Print Assumptions C14_trap_gen_wellformed.

(* --- evaluation layer, from WFtrap alone *)
Theorem C14_trap_start_end : forall vm c, WFtrap vm c ->
  trap_pos R_ops c 0 = t_p0 c /\ trap_vel R_ops c 0 = t_v0 c /\
  trap_pos R_ops c (t_t c) = t_p1 c /\ trap_vel R_ops c (t_t c) = t_v1 c.
Proof. exact trap_start_end. Qed.
Print Assumptions C14_trap_start_end.

Theorem C14_trap_hold_before : forall vm c x, WFtrap vm c -> x <= 0 ->
  trap_pos R_ops c x = t_p0 c /\ trap_vel R_ops c x = t_v0 c.
Proof. exact trap_hold_before. Qed.
Print Assumptions C14_trap_hold_before.

Theorem C14_trap_hold_after : forall vm c x, WFtrap vm c -> t_t c <= x ->
  trap_pos R_ops c x = t_p1 c /\ trap_vel R_ops c x = t_v1 c.
Proof. exact trap_hold_after. Qed.
Print Assumptions C14_trap_hold_after.

Theorem C14_trap_speed_limit : forall vm c x, WFtrap vm c -> Rabs (trap_vel R_ops c x) <= vm.
Proof. exact trap_vel_bound. Qed.
Print Assumptions C14_trap_speed_limit.

(* continuity at every query time, in particular across the phase boundaries ta, td, t and at 0 *)
Theorem C14_trap_continuous : forall vm c x, WFtrap vm c ->
  continuous (trap_pos R_ops c) x /\ continuous (trap_vel R_ops c) x.
Proof. exact trap_continuous. Qed.
Print Assumptions C14_trap_continuous.

Theorem C14_trap_vel_is_derivative : forall vm c x, WFtrap vm c -> 0 < x < t_t c ->
  is_derive (trap_pos R_ops c) x (trap_vel R_ops c x).
Proof. exact trap_vel_is_derivative. Qed.
Print Assumptions C14_trap_vel_is_derivative.

(* the acceleration output is the slope of the velocity piece of the phase *)
Theorem C14_trap_acc_phases : forall vm c x, WFtrap vm c ->
  (0 <= x < t_ta c -> trap_acc R_ops c x = t_ac c) /\
  (t_ta c <= x < t_td c -> trap_acc R_ops c x = 0) /\
  (t_td c <= x <= t_t c -> t_ta c <= x -> trap_acc R_ops c x = t_de c) /\
  (x < 0 \/ t_t c < x -> trap_acc R_ops c x = 0).
Proof. exact trap_acc_phases. Qed.
Print Assumptions C14_trap_acc_phases.

Theorem C14_trap_durations : forall vm c, WFtrap vm c ->
  0 <= t_ta c /\ 0 <= t_td c - t_ta c /\ 0 <= t_t c - t_td c /\ t_t c = t_ta c + (t_td c - t_ta c) + (t_t c - t_td c).
Proof. exact trap_durations. Qed.
Print Assumptions C14_trap_durations.

(* --- both layers together: the property for the trapezoid, stated on the generator's output *)
Theorem C14_trap_property : forall c0 vm ac de p0 p1 v0 v1,
  trap_feasible ac de p0 p1 ->
  let '(c, t, b) := trap_gen_b R_ops c0 vm ac de p0 p1 v0 v1 in
  0 < t -> trap_motion vm p0 p1 v0 c t /\ (b = TB_cruise \/ b = TB_accdec -> t_v1 c = clampR v1 vm).
Proof. exact trap_gen_motion. Qed.
Print Assumptions C14_trap_property.

(* ================================================================================================ double-S *)
(* --- planning layer.  The whole generator: whatever way it leaves through `exit` (t > 0), the context records the clamped
   request, is well-formed, its peak velocity is within the limit, and its peak accelerations are within the limit -
   unconditionally for the four cruise variants and the loop's two-phase exit, and under the standard feasibility
   condition for the two single-phase exits (BX_noacc, BX_nodec) *)
Theorem C14_bell_gen_wellformed : forall fuel c0 jm am vm p0 p1 v0 v1,
  bell_gen_post jm am vm p0 p1 v0 v1 (bell_gen_b R_ops fuel c0 jm am vm p0 p1 v0 v1).
Proof. exact bell_gen_wf. Qed.
Print Assumptions C14_bell_gen_wellformed.

(* one pass of the bisection loop, for ANY loop state satisfying the invariant: an accepted pass gives the hand-over
   equations and limits, a continuing pass re-establishes the invariant *)
Theorem C14_bell_step_invariant : forall JM AM VM p w0 w1,
  0 < JM -> 0 < AM -> 0 <= p -> - VM <= w0 <= VM -> - VM <= w1 <= VM ->
  (forall a, 0 < a <= AM ->
     p <= (VM + w0) / 2 * ((VM - w0) / a + a / JM) + (VM + w1) / 2 * ((VM - w1) / a + a / JM)) ->
  forall c am ac, inv AM c am ac ->
  match bell_step R_ops JM p w0 w1 c am ac with
  | SExit c' k => exit_post JM AM VM p w0 w1 c c' k
  | SFail _ _ => True
  | SCont c' am' ac' => same_req c c' /\ inv AM c' am' ac'
  end.
Proof. exact bell_step_inv. Qed.
Print Assumptions C14_bell_step_invariant.

(* the loop, by induction on the fuel (no bound on the number of passes enters the statement) *)
Theorem C14_bell_loop_exit : forall JM AM VM p w0 w1,
  0 < JM -> 0 < AM -> 0 <= p -> - VM <= w0 <= VM -> - VM <= w1 <= VM ->
  (forall a, 0 < a <= AM ->
     p <= (VM + w0) / 2 * ((VM - w0) / a + a / JM) + (VM + w1) / 2 * ((VM - w1) / a + a / JM)) ->
  forall fuel n c am ac, inv AM c am ac ->
  match bell_loop R_ops fuel n JM p w0 w1 c am ac with
  | LExit c' k _ => exit_post JM AM VM p w0 w1 c c' k
  | LFail _ _ _ => True
  end.
Proof. exact bell_loop_inv. Qed.
Print Assumptions C14_bell_loop_exit.

(* definedness on every loop pass: the divisors jm and 2*am are non-zero and the radicand is non-negative *)
Theorem C14_bell_step_defined : forall JM AM p w0 w1, 0 < JM -> 0 < AM -> 0 <= p ->
  forall c am ac, inv AM c am ac -> JM <> 0 /\ 2 * am <> 0 /\ 0 <= Delta JM am p w0 w1.
Proof. exact bell_step_defined. Qed.
Print Assumptions C14_bell_step_defined.

(* --- evaluation layer, from WFbell (and WFlim for the limits) alone; either direction of travel *)
Theorem C14_bell_start_end : forall c, WFbell c ->
  bell_pos R_ops c 0 = b_p0 c /\ bell_vel R_ops c 0 = b_v0 c /\ bell_acc R_ops c 0 = 0 /\
  bell_pos R_ops c (b_t c) = b_p1 c /\ bell_vel R_ops c (b_t c) = b_v1 c /\ bell_acc R_ops c (b_t c) = 0.
Proof. exact bell_start_end. Qed.
Print Assumptions C14_bell_start_end.

Theorem C14_bell_hold : forall c x, WFbell c ->
  (x <= 0 -> bell_pos R_ops c x = b_p0 c /\ bell_vel R_ops c x = b_v0 c /\ bell_acc R_ops c x = 0) /\
  (b_t c <= x -> bell_pos R_ops c x = b_p1 c /\ bell_vel R_ops c x = b_v1 c /\ bell_acc R_ops c x = 0).
Proof. exact bell_hold. Qed.
Print Assumptions C14_bell_hold.

(* continuity of position, velocity and acceleration at every query time, in particular across all phase boundaries *)
Theorem C14_bell_continuous : forall c x, WFbell c ->
  continuous (bell_pos R_ops c) x /\ continuous (bell_vel R_ops c) x /\ continuous (bell_acc R_ops c) x.
Proof. exact bell_continuous. Qed.
Print Assumptions C14_bell_continuous.

Theorem C14_bell_derivatives : forall c x, WFbell c -> 0 < x < b_t c ->
  is_derive (bell_pos R_ops c) x (bell_vel R_ops c x) /\ is_derive (bell_vel R_ops c) x (bell_acc R_ops c x).
Proof. exact bell_derivatives. Qed.
Print Assumptions C14_bell_derivatives.

Theorem C14_bell_jerk_derivative : forall c k x, WFbell c -> (1 <= k <= 7)%nat -> bnd c (k - 1) < x < bnd c k ->
  is_derive (bell_acc R_ops c) x (bell_jer R_ops c x).
Proof. exact bell_jerk_derivative. Qed.
Print Assumptions C14_bell_jerk_derivative.

Theorem C14_bell_limits : forall VM AM c x, WFbell c -> WFlim VM AM c ->
  Rabs (bell_vel R_ops c x) <= VM /\ Rabs (bell_acc R_ops c x) <= AM /\ Rabs (bell_jer R_ops c x) <= b_jm c.
Proof. exact bell_limits. Qed.
Print Assumptions C14_bell_limits.

Theorem C14_bell_durations : forall c, WFbell c ->
  0 <= b_taj c /\ 0 <= b_ta c - 2 * b_taj c /\ 0 <= b_tv c /\ 0 <= b_tdj c /\ 0 <= b_td c - 2 * b_tdj c /\
  b_t c = b_taj c + (b_ta c - 2 * b_taj c) + b_taj c + b_tv c + b_tdj c + (b_td c - 2 * b_tdj c) + b_tdj c.
Proof. exact bell_durations. Qed.
Print Assumptions C14_bell_durations.

(* the C's seven polynomial pieces agree with its decision tree on the CLOSED phase intervals (forward contexts) *)
Theorem C14_bell_pieces : forall c k x, WFfwd c -> (k <= 8)%nat -> inreg c k x ->
  bell_pos R_ops c x = BP c k x /\ bell_vel R_ops c x = BV c k x /\ bell_acc R_ops c x = BA c k x.
Proof. exact bell_piece. Qed.
Print Assumptions C14_bell_pieces.

(* the mirrored direction: outputs of a context with p0 > p1 are the negated outputs of the mirrored context *)
Theorem C14_bell_mirror : forall c x, b_p1 c < b_p0 c ->
  bell_pos R_ops c x = - bell_pos R_ops (mirror c) x /\ bell_vel R_ops c x = - bell_vel R_ops (mirror c) x /\
  bell_acc R_ops c x = - bell_acc R_ops (mirror c) x /\ bell_jer R_ops c x = - bell_jer R_ops (mirror c) x.
Proof. exact bell_mirror. Qed.
Print Assumptions C14_bell_mirror.

(* --- both layers together: the property for the double-S profile, stated on the generator's output *)
Theorem C14_bell_property : forall fuel c0 jm am vm p0 p1 v0 v1,
  bell_feasible jm am vm p0 p1 v0 v1 ->
  let '(c, t, k, n) := bell_gen_b R_ops fuel c0 jm am vm p0 p1 v0 v1 in
  0 < t -> bell_motion jm am vm p0 p1 v0 v1 c t.
Proof. exact bell_gen_motion. Qed.
Print Assumptions C14_bell_property.

(* ================================================================================================ fuel sufficiency
   The bisection loop of a_trajbell_gen in the ROUNDED model (coq/C14/BellFuel.v): at the instance Rnd_ops rnd of the same
   Gallina terms (every + - * / sqrt followed by rnd, comparisons exact; Common/RoundOps.v) the loop never uses up its
   fuel, for every rnd in which halving a format number above 2^-52 is exact (record halving_rnd), in particular for IEEE
   binary64 round-to-nearest-even (rnd64 of Common/RoundFlocq.v, by Flocq) with any fuel >= 1077 - so with the fuel 1200
   of the correspondence run.  Together with tie_a_trajbell_gen_inv (harness/C14/TieBellGen.v: regenerated function =
   bell_gen_b for every instance and fuel, None iff BX_out_of_fuel) the function regenerated from the current C source
   returns `Some _` at that instance for every finite am.  Overflow, infinities and NaN are outside the model (rnd is a
   total function on R): am = +-inf, for which the C loop does not end, is excluded by |am| < 2^1024.
   Non-vacuity: halving_rnd_id, bell_gen_fuel_binary64_am_1, bell_gen_fuel_binary64_am_max (BellFuel.v) and
   C14_bell_fuel_example below (a request with 52 loop passes). *)
From Coq Require Import ZArith.
From LibaV Require Import Common.RoundOps Common.RoundFlocq C14.BellFuel.

(* every continuing pass multiplies ac by A_REAL_C(0.5) exactly once - for every NumOps instance *)
Theorem C14_bell_step_halves : forall (T : Type) (O : NumOps T) jm p v0 v1 c am ac c' am' ac',
  bell_step O jm p v0 v1 c am ac = SCont c' am' ac' -> ac' = mul O ac (half O).
Proof. exact (@bell_step_cont_ac). Qed.
Print Assumptions C14_bell_step_halves.

(* generic rounding: a format number ac <= 2^-52 * 2^j ends the loop within j + 1 passes *)
Theorem C14_bell_loop_fuel : forall rnd, halving_rnd rnd ->
  forall fuel j n jm p v0 v1 c am ac,
  rnd ac = ac -> ac <= eps52 * 2 ^ j -> (j < fuel)%nat ->
  match bell_loop (Rnd_ops rnd) fuel n jm p v0 v1 c am ac with LFail _ BX_out_of_fuel _ => False | _ => True end.
Proof.
  intros rnd H fuel j n jm p v0 v1 c am ac F B L.
  pose proof (bell_loop_fuel rnd H fuel j n jm p v0 v1 c am ac F B L) as X. unfold loop_oof in X.
  destruct (bell_loop (Rnd_ops rnd) fuel n jm p v0 v1 c am ac) as [c' k n'|c' k n']; [exact I|].
  destruct k; try exact I. apply X. exact I.
Qed.
Print Assumptions C14_bell_loop_fuel.

Theorem C14_bell_gen_fuel : forall rnd, halving_rnd rnd ->
  forall fuel j c jm am vm p0 p1 v0 v1,
  rnd am = am -> Rabs am <= eps52 * 2 ^ j -> (j < fuel)%nat ->
  snd (fst (bell_gen_b (Rnd_ops rnd) fuel c jm am vm p0 p1 v0 v1)) <> BX_out_of_fuel.
Proof. exact bell_gen_fuel. Qed.
Print Assumptions C14_bell_gen_fuel.

(* binary64: halving a format number above 2^-52 (in fact: of magnitude >= 2^-1021) is exact *)
Theorem C14_halving_rnd_binary64 : halving_rnd rnd64.
Proof. exact halving_rnd_binary64. Qed.
Print Assumptions C14_halving_rnd_binary64.

(* binary64: every finite am (a format number below the overflow threshold; subnormal, zero and negative included), every
   other argument, every previous content of the context, every fuel >= 1077 *)
Theorem C14_bell_gen_fuel_binary64 : forall fuel c jm am vm p0 p1 v0 v1,
  rnd64 am = am -> Rabs am < IZR (2 ^ 1024) -> (1076 < fuel)%nat ->
  snd (fst (bell_gen_b (Rnd_ops rnd64) fuel c jm am vm p0 p1 v0 v1)) <> BX_out_of_fuel.
Proof. exact bell_gen_fuel_binary64. Qed.
Print Assumptions C14_bell_gen_fuel_binary64.

(* ... in particular the fuel the correspondence run uses (bell_fuel = 1200) *)
Theorem C14_bell_gen_fuel_binary64_1200 : forall c jm am vm p0 p1 v0 v1,
  rnd64 am = am -> Rabs am < IZR (2 ^ 1024) ->
  snd (fst (bell_gen_b (Rnd_ops rnd64) bell_fuel c jm am vm p0 p1 v0 v1)) <> BX_out_of_fuel.
Proof. exact bell_gen_fuel_binary64_1200. Qed.
Print Assumptions C14_bell_gen_fuel_binary64_1200.

(* non-vacuity: jm = am = vm = 1, p0 = p1 = 0, v0 = v1 = 0 at binary64: the loop halves ac 52 times (1 -> 2^-52) and the
   generator leaves through `fail` with result 0 because `ac > A_REAL_EPSILON` became false *)
Theorem C14_bell_fuel_example : forall c,
  let r := bell_gen_b (Rnd_ops rnd64) bell_fuel c 1 1 1 0 0 0 0 in
  snd (fst (fst r)) = 0 /\ snd (fst r) = BX_fail_loop /\ snd r = 52%nat.
Proof. exact bell_gen_52_passes_binary64. Qed.
Print Assumptions C14_bell_fuel_example.
