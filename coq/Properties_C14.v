From Coq Require Import Reals List.
From LibaV Require Import Common.NumOps Common.ROps C14.TrapDefs C14.TrapProofs.
Local Open Scope R_scope.

Theorem C14_sat_range : forall x lo hi, lo <= hi -> lo <= sat R_ops x lo hi <= hi.
Proof. exact sat_range. Qed.
Print Assumptions C14_sat_range.
