(* C11 - Real special functions and reductions are accurate in every configuration (src/math.c, include/a/math.h).

   Model: C11/MathDefs.v - the FALLBACK bodies (every A_HAVE_* switch off) of a_real_asinh/acosh/atanh/expm1/log1p/atan2,
   a_real_norm2/norm3/norm/norm_, the polar/spherical conversions, and list models of sum/mean/dot/copy/swap/fill/zero/
   push/roll, written once over NumOps.  Proofs: C11/HypProofs.v, GeomProofs.v, Expm1Proofs.v, ListProofs.v, RangeProofs.v,
   Defined.v, collected per function family in C11/Clauses.v; non-vacuity: C11/Examples.v.

   THE FULL STATEMENT of the property's first sentence is about binary64/binary32 results:
       for every finite argument x in the domain, |a_real_f(x) - f(x)| <= K * eps * |f(x)|  in both configurations.
   What is PROVED here is its exact-arithmetic half, for all real arguments (instance R_ops): the formula each fallback body
   evaluates IS the mathematical function (identity on the middle ranges, a proved method-error bound <= 2^-53 relative
   on the outer ranges and for the expm1 rational approximation), no division by zero / sqrt or log outside the domain is
   executed (the *_defined theorems), and the norms' scaled intermediates lie in [0,1] / [1,n].  The rounding error of the
   float evaluation is NOT proved: it is measured on samples against mpmath by checks/C11.py (tie 2).  The theorems that
   stand for a float-accuracy clause are therefore named ..._partial.  The list-helper clauses (second sentence of the
   property) are proved in full: they hold for every cell type, hence for the floats themselves. *)
From Coq Require Import Reals List ZArith Bool Arith.
From LibaV Require Import Common.NumOps Common.ROps C11.MathDefs
  C11.HypProofs C11.GeomProofs C11.Expm1Proofs C11.ListProofs C11.RangeProofs C11.Defined C11.Clauses C11.Examples.
Import ListNotations.
Local Open Scope R_scope.
Local Notation sqrt := R_sqrt.sqrt.

(* ================================================================ log1p *)
(* the volatile compensation term -(b - x)/a is neutral in exact arithmetic: the body computes ln(1+x) *)
Theorem C11_log1p_formula_partial : forall x, real_log1p R_ops x = ln (1 + x).
Proof. exact log1p_neutral. Qed.
Print Assumptions C11_log1p_formula_partial.

(* ================================================================ asinh: four ranges of |x| split at 2^26, 2, 2^-26
   (1) middle ranges (log and log1p forms): exactly arcsinh (Coq's Reals: ln (x + sqrt (x^2+1)));
   (2) |x| > 2^26: log|x| + LN2, method error (incl. the double constant LN2) below 2^-53 where |arcsinh x| > 18;
   (3) |x| <= 2^-26: x itself, relative method error <= 2^-52/6;
   (4) all ranges at once and hence across every split point: relative method error <= 2^-53 for EVERY real x *)
Theorem C11_asinh_partial :
  (forall x, / 67108864 < Rabs x <= 67108864 -> real_asinh R_ops x = arcsinh x) /\
  (forall x, 67108864 < Rabs x -> Rabs (real_asinh R_ops x - arcsinh x) <= / 9007199254740992) /\
  (forall x, Rabs x <= / 67108864 -> real_asinh R_ops x = x /\ Rabs (x - arcsinh x) <= Rabs x * / 27021597764222976) /\
  (forall x, Rabs (real_asinh R_ops x - arcsinh x) <= / 9007199254740992 * Rabs (arcsinh x)).
Proof. exact clause_asinh. Qed.
Print Assumptions C11_asinh_partial.

(* ================================================================ acosh: ranges split at 2^26, 2, 1
   arccosh x := ln (x + sqrt (x^2 - 1)); (1) it is THE inverse of cosh on [1, oo); (2) exact on [1, 2^26] (log1p form,
   log form, and the point 1); (3) x > 2^26: log x + LN2, method error below 2^-51 where arccosh x > 18;
   (4) relative method error <= 2^-53 on the whole domain *)
Theorem C11_acosh_partial :
  (forall x, 1 <= x -> cosh (arccosh x) = x /\ 0 <= arccosh x) /\
  (forall x, 1 <= x <= 67108864 -> real_acosh R_ops x = arccosh x) /\
  (forall x, 67108864 < x -> Rabs (real_acosh R_ops x - arccosh x) <= / 2251799813685248) /\
  (forall x, 1 <= x -> Rabs (real_acosh R_ops x - arccosh x) <= / 9007199254740992 * Rabs (arccosh x)).
Proof. exact clause_acosh. Qed.
Print Assumptions C11_acosh_partial.

(* ================================================================ atanh: ranges split at 1/2 and 2^-52
   arctanh x := 1/2 ln ((1+x)/(1-x)); (1) THE inverse of tanh on (-1,1); (2) exact for 2^-52 < |x| < 1 (both log1p
   forms); (3) |x| <= 2^-52: x itself, relative method error <= 2^-104; (4) the whole open interval *)
Theorem C11_atanh_partial :
  (forall x, -1 < x < 1 -> tanh (arctanh x) = x) /\
  (forall x, / 4503599627370496 < Rabs x < 1 -> real_atanh R_ops x = arctanh x) /\
  (forall x, Rabs x <= / 4503599627370496 ->
     real_atanh R_ops x = x /\ Rabs (x - arctanh x) <= Rabs x * / 20282409603651670423947251286016) /\
  (forall x, Rabs x < 1 -> Rabs (real_atanh R_ops x - arctanh x) <= / 9007199254740992 * Rabs (arctanh x)).
Proof. exact clause_atanh. Qed.
Print Assumptions C11_atanh_partial.

(* ================================================================ expm1
   (1) which formula is used where; (2) the rational approximation x (2P/(Q - xP)) on [-1/2,1/2], coefficients as the
   compiler rounds them to binary64: absolute method error <= 1e-18 (interval arithmetic with Taylor models);
   (3) RELATIVE method error <= 2^-53 on the whole interval, including the sliver around 0 (shape argument + mean
   value theorem); (4) the complete function, every real x; (5) definedness: the divisor Q(x^2) - x P(x^2) is >= 1;
   (6) hence no poisoned operation is executed (see the definedness section below for Rp_ops) *)
Theorem C11_expm1_partial :
  (forall x, (x < -1/2 \/ 1/2 < x -> real_expm1 R_ops x = exp x - 1) /\
             (-1/2 <= x <= 1/2 -> real_expm1 R_ops x = expm1_rat R_ops x)) /\
  (forall x, -1/2 <= x <= 1/2 -> Rabs (expm1_rat R_ops x - (exp x - 1)) <= 1 / 1000000000000000000) /\
  (forall x, -1/2 <= x <= 1/2 -> Rabs (expm1_rat R_ops x - (exp x - 1)) <= / 9007199254740992 * Rabs (exp x - 1)) /\
  (forall x, Rabs (real_expm1 R_ops x - (exp x - 1)) <= / 9007199254740992 * Rabs (exp x - 1)) /\
  (forall x, -1/2 <= x <= 1/2 -> 1 <= polevl R_ops (expm1_Q R_ops) (x * x) - polevl R_ops (expm1_P R_ops) (x * x) * x) /\
  (forall p x, real_expm1 (Rp_ops p) x = real_expm1 R_ops x).
Proof. exact clause_expm1. Qed.
Print Assumptions C11_expm1_partial.

(* ================================================================ atan2: all quadrants, all four half-axes, origin
   polar_angle x y t :=  -PI < t <= PI /\ x = r cos t /\ y = r sin t  with r = sqrt (x^2+y^2).
   (1) away from the origin the result is THE polar angle up to the distance of the double constant A_REAL_PI from pi
   (exactly the angle in the right half plane); (2) that distance is <= 2^-52 and A_REAL_PI_2 is half of A_REAL_PI;
   (3) atan2(0,0) = 0; (4) the result itself never leaves (-PI, PI] (the constant is below pi);
   (5), (6) a_real_rad2deg / a_real_deg2rad: multiplication by double constants within 2^-53 (relative) of 180/pi, pi/180 *)
Theorem C11_atan2_partial :
  (forall x y, x <> 0 \/ y <> 0 ->
     exists theta, polar_angle x y theta /\ Rabs (real_atan2 R_ops y x - theta) <= Rabs (c_pi R_ops - PI)) /\
  (Rabs (c_pi R_ops - PI) <= / 4503599627370496 /\ c_pi_2 R_ops = c_pi R_ops / 2) /\
  real_atan2 R_ops 0 0 = 0 /\
  (forall x y, - PI < real_atan2 R_ops y x <= PI) /\
  (forall x, Rabs (real_rad2deg R_ops x - x * (180 / PI)) <= / 9007199254740992 * Rabs (x * (180 / PI))) /\
  (forall x, Rabs (real_deg2rad R_ops x - x * (PI / 180)) <= / 9007199254740992 * Rabs (x * (PI / 180))).
Proof. exact clause_atan2. Qed.
Print Assumptions C11_atan2_partial.
(* the body found in the repository before fix 4df114e (+-PI on the y axis) is not the polar angle: at (0,1) the angle is
   PI/2 <= 2 and the body returned more than 3 *)
Theorem C11_atan2_unpatched_refuted :
  exists x y theta, polar_angle x y theta /\ theta <= 2 /\ 3 < real_atan2_unpatched R_ops y x.
Proof. exact clause_atan2_unpatched. Qed.
Print Assumptions C11_atan2_unpatched_refuted.

(* ================================================================ Euclidean norms *)
Theorem C11_norm2_norm3_partial :
  (forall x y, real_norm2 R_ops x y = sqrt (x * x + y * y)) /\
  (forall x y z, real_norm3 R_ops x y z = sqrt (x * x + y * y + z * z)).
Proof. exact clause_norm23. Qed.
Print Assumptions C11_norm2_norm3_partial.
(* (1) n components with stride c >= 1: sqrt of the sum of squares of exactly the cells p[0], p[c], ..; out of bounds is an
   error; a_real_norm is the stride-1 case; (2) stride 0 returns 0 (both loops are empty); (3) on the visited cells:
   the zero vector (largest magnitude 0) returns 0 without dividing, otherwise the scaled form, always sqrt(sum of squares) *)
Theorem C11_norm_strided_partial :
  (forall (n : nat) (p : list R) (c : nat), (1 <= c)%nat ->
     (in_bounds n p 0 c -> real_norm_ R_ops n p c = Some (sqrt (sumsq (cells 0 n p 0 c)))) /\
     (~ in_bounds n p 0 c -> real_norm_ R_ops n p c = None) /\
     real_norm R_ops n p = real_norm_ R_ops n p 1) /\
  (forall (n : nat) (p : list R), real_norm_ R_ops n p 0 = Some 0) /\
  (forall (l : list R), let w := maxabs l 0 in
     (w <= 0 -> norm_cells R_ops l = 0 /\ sumsq l = 0) /\
     (0 < w -> norm_cells R_ops l = sqrt (fold_left (fun s p => s + p / w * (p / w)) l 0) * w) /\
     norm_cells R_ops l = sqrt (sumsq l)).
Proof. exact clause_norm. Qed.
Print Assumptions C11_norm_strided_partial.
(* "no overflow or underflow when the true result is representable", as a statement about the intermediates the scaling
   produces (exact arithmetic): with m the largest magnitude, every quotient is in [0,1] (resp. [-1,1]), the radicand in
   [1,2], [1,3], [1,n], the result in [m, sqrt2 m], [m, sqrt3 m], [m, sqrt n m]; so the only operation that can leave the
   float range is the final multiplication, and only if the true norm does.  PARTIAL: that the rounded operations keep
   these bounds is not proved (sampled 1e-300..1e300 in tie 2); squares of quotients below 2^-537 do underflow, harmlessly
   (they are added to a sum >= 1). *)
Theorem C11_norm_scaling_partial :
  (forall x y, let m := Rmax (Rabs x) (Rabs y) in let q := Rmin (Rabs x) (Rabs y) / m in
     0 < m -> 0 <= q <= 1 /\ 1 <= q * q + 1 <= 2 /\ real_norm2 R_ops x y = sqrt (q * q + 1) * m /\
              m <= real_norm2 R_ops x y <= sqrt 2 * m) /\
  (forall x y z, let m := Rmax (Rmax (Rabs x) (Rabs y)) (Rabs z) in
     0 < m -> exists q1 q2, 0 <= q1 <= 1 /\ 0 <= q2 <= 1 /\ 1 <= q1 * q1 + q2 * q2 + 1 <= 3 /\
              real_norm3 R_ops x y z = sqrt (q1 * q1 + q2 * q2 + 1) * m /\ m <= real_norm3 R_ops x y z <= sqrt 3 * m) /\
  (forall (l : list R), let w := maxabs l 0 in 0 < w ->
     List.Forall (fun p => -1 <= p / w <= 1) l /\
     1 <= fold_left (fun s p => s + p / w * (p / w)) l 0 <= INR (length l) /\
     norm_cells R_ops l = sqrt (fold_left (fun s p => s + p / w * (p / w)) l 0) * w /\
     w <= norm_cells R_ops l <= sqrt (INR (length l)) * w).
Proof. exact clause_norm_scaling. Qed.
Print Assumptions C11_norm_scaling_partial.

(* ================================================================ polar / spherical conversions (fallback hypot = norm2) *)
(* (1) cart2pol = (radius, atan2); (2) pol2cart inverts it when fed the exact polar angle; (3) pol2cart lands on the
   circle of radius |rho|; (4) round trip: some exact polar angle theta of (x,y) is within |A_REAL_PI - pi| of the
   angle cart2pol returns, and pol2cart (radius, theta) is the point *)
Theorem C11_cart2pol_pol2cart_partial :
  (forall x y, fst (real_cart2pol R_ops x y) = sqrt (x * x + y * y) /\ snd (real_cart2pol R_ops x y) = real_atan2 R_ops y x) /\
  (forall x y theta, polar_angle x y theta -> real_pol2cart R_ops (sqrt (x * x + y * y)) theta = (x, y)) /\
  (forall rho theta, let p := real_pol2cart R_ops rho theta in fst p * fst p + snd p * snd p = rho * rho) /\
  (forall x y, x <> 0 \/ y <> 0 ->
     exists theta, polar_angle x y theta /\ real_pol2cart R_ops (fst (real_cart2pol R_ops x y)) theta = (x, y) /\
                   Rabs (snd (real_cart2pol R_ops x y) - theta) <= Rabs (c_pi R_ops - PI)).
Proof. exact clause_polar. Qed.
Print Assumptions C11_cart2pol_pol2cart_partial.
(* (1) cart2sph = (radius, azimuth atan2(y,x), elevation atan2(z, sqrt(x^2+y^2))); (2) sph2cart inverts it when fed the
   exact angles; (3) sph2cart lands on the sphere of radius |rho| *)
Theorem C11_cart2sph_sph2cart_partial :
  (forall x y z, let r := sqrt (x * x + y * y) in
     real_cart2sph R_ops x y z = (sqrt (x * x + y * y + z * z), real_atan2 R_ops y x, real_atan2 R_ops z r)) /\
  (forall x y z theta alpha, let r := sqrt (x * x + y * y) in
     polar_angle x y theta -> polar_angle r z alpha ->
     real_sph2cart R_ops (sqrt (x * x + y * y + z * z)) theta alpha = (x, y, z)) /\
  (forall rho theta alpha, let '(x, y, z) := real_sph2cart R_ops rho theta alpha in x * x + y * y + z * z = rho * rho).
Proof. exact clause_spherical. Qed.
Print Assumptions C11_cart2sph_sph2cart_partial.

(* ================================================================ definedness (DESIGN 3): Rp_ops p is the real instance in
   which division by zero, sqrt of a negative number and log of a non-positive number return an arbitrary poison value p.
   (1), (2): every function returns what it returns over R_ops, for EVERY p, on the property's domain: none of those
   operations is executed (or its value is never used; expm1: see C11_expm1_partial).  (3): outside the domain the C returns
   NaN / +-inf on purpose - these are exactly the branches that do divide by zero (A_REAL_INF, A_REAL_NAN = 0 * inf). *)
Theorem C11_defined : forall p,
  ((forall x, -1 < x -> real_log1p (Rp_ops p) x = real_log1p R_ops x) /\
   (forall x, real_asinh (Rp_ops p) x = real_asinh R_ops x) /\
   (forall x, 1 <= x -> real_acosh (Rp_ops p) x = real_acosh R_ops x) /\
   (forall x, -1 < x < 1 -> real_atanh (Rp_ops p) x = real_atanh R_ops x) /\
   (forall y x, real_atan2 (Rp_ops p) y x = real_atan2 R_ops y x)) /\
  ((forall x y, real_norm2 (Rp_ops p) x y = real_norm2 R_ops x y) /\
   (forall x y z, real_norm3 (Rp_ops p) x y z = real_norm3 R_ops x y z) /\
   (forall n l c, real_norm_ (Rp_ops p) n l c = real_norm_ R_ops n l c /\ real_norm (Rp_ops p) n l = real_norm R_ops n l) /\
   (forall n l c, real_mean_ (Rp_ops p) n l c = real_mean_ R_ops n l c) /\
   (forall x y, real_cart2pol (Rp_ops p) x y = real_cart2pol R_ops x y) /\
   (forall x y z, real_cart2sph (Rp_ops p) x y z = real_cart2sph R_ops x y z) /\
   (forall r t, real_pol2cart (Rp_ops p) r t = real_pol2cart R_ops r t) /\
   (forall r t a, real_sph2cart (Rp_ops p) r t a = real_sph2cart R_ops r t a)) /\
  (real_acosh (Rp_ops p) (1 / 2) = c_nan (Rp_ops p) /\ real_atanh (Rp_ops p) 2 = c_nan (Rp_ops p) /\
   real_atanh (Rp_ops p) 1 = c_inf (Rp_ops p) /\ real_atanh (Rp_ops p) (-1) = - c_inf (Rp_ops p) /\ c_inf (Rp_ops p) = p).
Proof. exact clause_defined. Qed.
Print Assumptions C11_defined.

(* ================================================================ reductions: every length n, every stride c (also 0)
   in_bounds n p i c := n = 0 \/ i + (n-1) c < length p;  cells d n p i c := [p[i]; p[i+c]; ...; p[i+(n-1)c]];
   rsum = fold_right Rplus 0.  (Over R the order of summation is immaterial; the ORDER the C uses is what the bit-exact
   tie compares.) *)
Theorem C11_sums_and_mean :
  (forall (n : nat) (p : list R) (c : nat), in_bounds n p 0 c -> real_sum_ R_ops n p c = Some (rsum (cells 0 n p 0 c))) /\
  (forall (n : nat) (p : list R) (c : nat), in_bounds n p 0 c -> real_sum1_ R_ops n p c = Some (rsum (map Rabs (cells 0 n p 0 c)))) /\
  (forall (n : nat) (p : list R) (c : nat), in_bounds n p 0 c ->
     real_sum2_ R_ops n p c = Some (rsum (map (fun v => v * v) (cells 0 n p 0 c)))) /\
  (forall (n : nat) (p : list R) (c : nat), in_bounds n p 0 c -> real_mean_ R_ops n p c = Some (rsum (cells 0 n p 0 c) / INR n)).
Proof. exact clause_sums. Qed.
Print Assumptions C11_sums_and_mean.
Theorem C11_dot : forall (n : nat) (X : list R) (Xc : nat) (Y : list R) (Yc : nat), in_bounds n X 0 Xc -> in_bounds n Y 0 Yc ->
  real_dot_ R_ops n X Xc Y Yc = Some (rsum (map (fun k => nth (k * Xc) X 0 * nth (k * Yc) Y 0) (seq 0 n))).
Proof. exact dot_spec. Qed.
Print Assumptions C11_dot.
(* out of bounds (undefined in C) is an error of the model; the unit-stride entry points are the strided ones with c = 1 *)
Theorem C11_reductions_edges :
  (forall (n : nat) (p : list R) (c : nat), ~ in_bounds n p 0 c ->
     real_sum_ R_ops n p c = None /\ real_sum1_ R_ops n p c = None /\ real_sum2_ R_ops n p c = None /\ real_mean_ R_ops n p c = None) /\
  (forall (n : nat) (p : list R),
     real_sum R_ops n p = real_sum_ R_ops n p 1 /\ real_sum1 R_ops n p = real_sum1_ R_ops n p 1 /\
     real_sum2 R_ops n p = real_sum2_ R_ops n p 1 /\ real_mean R_ops n p = real_mean_ R_ops n p 1 /\
     (forall q, real_dot R_ops n p q = real_dot_ R_ops n p 1 q 1)).
Proof. exact clause_reductions_edges. Qed.
Print Assumptions C11_reductions_edges.

(* ================================================================ copy / swap / fill / zero / push / roll: ANY cell type T
   agrees d0 p' len f := length p' = len /\ forall k < len, p'[k] = f k   (this determines p': agrees_unique) *)
Theorem C11_copy : forall (T : Type) (d0 : T) (n : nat) (m : list T) (d s : nat), (d + n <= length m)%nat -> (s + n <= length m)%nat ->
  exists m', real_copy n m d s = Some m' /\
    agrees d0 m' (length m) (fun k => if ((d <=? k) && (k <? d + n))%nat then nth (s + (k - d)) m d0 else nth k m d0).
Proof. exact @copy_spec. Qed.
Print Assumptions C11_copy.
Theorem C11_copy_strided : forall (T : Type) (d0 : T) (n : nat) (m : list T) (d dc s sc : nat),
  (1 <= dc)%nat -> (n = 0%nat \/ (d + (n - 1) * dc < length m /\ s + (n - 1) * sc < length m)%nat) ->
  (forall i j, (i < n)%nat -> (j < n)%nat -> (d + i * dc <> s + j * sc)%nat) ->
  exists m', real_copy_ n m d dc s sc = Some m' /\ length m' = length m /\
    (forall k, (k < n)%nat -> nth (d + k * dc) m' d0 = nth (s + k * sc) m d0) /\
    (forall a, (forall k, (k < n)%nat -> a <> (d + k * dc)%nat) -> nth a m' d0 = nth a m d0).
Proof. exact @copy__spec. Qed.
Print Assumptions C11_copy_strided.
Theorem C11_swap_strided : forall (T : Type) (d0 : T) (n : nat) (m : list T) (l lc r rc : nat),
  (1 <= lc)%nat -> (1 <= rc)%nat -> (n = 0%nat \/ (l + (n - 1) * lc < length m /\ r + (n - 1) * rc < length m)%nat) ->
  (forall i j, (i < n)%nat -> (j < n)%nat -> (l + i * lc <> r + j * rc)%nat) ->
  exists m', real_swap_ n m l lc r rc = Some m' /\ length m' = length m /\
    (forall k, (k < n)%nat -> nth (l + k * lc) m' d0 = nth (r + k * rc) m d0 /\ nth (r + k * rc) m' d0 = nth (l + k * lc) m d0) /\
    (forall a, (forall k, (k < n)%nat -> a <> (l + k * lc)%nat /\ a <> (r + k * rc)%nat) -> nth a m' d0 = nth a m d0).
Proof. exact @swap__spec. Qed.
Print Assumptions C11_swap_strided.
(* a_real_swap (restrict: blocks do not overlap): the two blocks are exchanged, nothing else changes *)
Theorem C11_swap : forall (T : Type) (d0 : T) (n : nat) (m : list T) (l r : nat),
  (l + n <= length m)%nat -> (r + n <= length m)%nat -> (l + n <= r \/ r + n <= l)%nat ->
  exists m', real_swap n m l r = Some m' /\
    agrees d0 m' (length m) (fun k => if ((l <=? k) && (k <? l + n))%nat then nth (r + (k - l)) m d0
                                      else if ((r <=? k) && (k <? r + n))%nat then nth (l + (k - r)) m d0 else nth k m d0).
Proof. exact @swap_spec. Qed.
Print Assumptions C11_swap.
Theorem C11_swap_unit : forall (T : Type) (n : nat) (m : list T) (l r : nat), real_swap n m l r = real_swap_ n m l 1 r 1.
Proof. exact @swap_unit. Qed.
Print Assumptions C11_swap_unit.
Theorem C11_fill : forall (T : Type) (d0 : T) (n : nat) (p : list T) (v : T), (n <= length p)%nat ->
  exists p', real_fill n p v = Some p' /\ agrees d0 p' (length p) (fun k => if (k <? n)%nat then v else nth k p d0).
Proof. exact @fill_spec. Qed.
Print Assumptions C11_fill.
Theorem C11_zero : forall (n : nat) (p : list R), (n <= length p)%nat ->
  exists p', real_zero R_ops n p = Some p' /\ agrees 0 p' (length p) (fun k => if (k <? n)%nat then 0 else nth k p 0).
Proof. exact zero_spec. Qed.
Print Assumptions C11_zero.
Theorem C11_push_fore : forall (T : Type) (d0 : T) (p : list T) (n : nat) (x : T), (n <= length p)%nat ->
  exists p', real_push_fore p n x = Some p' /\
    agrees d0 p' (length p) (fun k => if (k <? n)%nat then (if (k =? 0)%nat then x else nth (k - 1) p d0) else nth k p d0).
Proof. exact @push_fore_spec. Qed.
Print Assumptions C11_push_fore.
Theorem C11_push_back : forall (T : Type) (d0 : T) (p : list T) (n : nat) (x : T), (n <= length p)%nat ->
  exists p', real_push_back p n x = Some p' /\
    agrees d0 p' (length p) (fun k => if (k <? n)%nat then (if (k =? n - 1)%nat then x else nth (k + 1) p d0) else nth k p d0).
Proof. exact @push_back_spec. Qed.
Print Assumptions C11_push_back.
Theorem C11_roll_fore : forall (T : Type) (d0 : T) (p : list T) (n : nat), (n <= length p)%nat ->
  exists p', real_roll_fore p n = Some p' /\
    agrees d0 p' (length p) (fun k => if (k <? n)%nat then (if (k =? n - 1)%nat then nth 0 p d0 else nth (k + 1) p d0) else nth k p d0).
Proof. exact @roll_fore_spec. Qed.
Print Assumptions C11_roll_fore.
Theorem C11_roll_back : forall (T : Type) (d0 : T) (p : list T) (n : nat), (n <= length p)%nat ->
  exists p', real_roll_back p n = Some p' /\
    agrees d0 p' (length p) (fun k => if (k <? n)%nat then (if (k =? 0)%nat then nth (n - 1) p d0 else nth (k - 1) p d0) else nth k p d0).
Proof. exact @roll_back_spec. Qed.
Print Assumptions C11_roll_back.
(* block forms: the last min(cache_n, block_n) cache cells enter; the block moves by that many *)
Theorem C11_push_fore_block : forall (T : Type) (d0 : T) (block : list T) (bn : nat) (cache : list T) (cn : nat),
  (bn <= length block)%nat -> (cn <= length cache)%nat -> let n := Nat.min cn bn in
  exists b', real_push_fore_ block bn cache cn = Some b' /\
    agrees d0 b' (length block) (fun k => if (k <? n)%nat then nth (cn - n + k) cache d0
                                          else if (k <? bn)%nat then nth (k - n) block d0 else nth k block d0).
Proof. exact @push_fore__spec. Qed.
Print Assumptions C11_push_fore_block.
Theorem C11_push_back_block : forall (T : Type) (d0 : T) (block : list T) (bn : nat) (cache : list T) (cn : nat),
  (bn <= length block)%nat -> (cn <= length cache)%nat -> let n := Nat.min cn bn in
  exists b', real_push_back_ block bn cache cn = Some b' /\
    agrees d0 b' (length block) (fun k => if (k <? bn - n)%nat then nth (k + n) block d0
                                          else if (k <? bn)%nat then nth (cn - n + (k - (bn - n))) cache d0 else nth k block d0).
Proof. exact @push_back__spec. Qed.
Print Assumptions C11_push_back_block.
(* rotation by shift_n mod block_n of the first block_n cells; an empty block is left alone (fix 8b840f9) *)
Theorem C11_roll_fore_block : forall (T : Type) (d0 : T) (block : list T) (bn : nat) (shift : list T) (sn : nat),
  (bn <= length block)%nat -> (bn = 0%nat \/ (sn mod bn <= length shift)%nat) ->
  exists b' s', real_roll_fore_ block bn shift sn = Some (b', s') /\ length s' = length shift /\
    agrees d0 b' (length block) (fun k => if (k <? bn)%nat then nth ((k + sn mod bn) mod bn) block d0 else nth k block d0).
Proof. exact @roll_fore__spec. Qed.
Print Assumptions C11_roll_fore_block.
Theorem C11_roll_back_block : forall (T : Type) (d0 : T) (block : list T) (bn : nat) (shift : list T) (sn : nat),
  (bn <= length block)%nat -> (bn = 0%nat \/ (sn mod bn <= length shift)%nat) ->
  exists b' s', real_roll_back_ block bn shift sn = Some (b', s') /\ length s' = length shift /\
    agrees d0 b' (length block) (fun k => if (k <? bn)%nat then nth ((k + (bn - sn mod bn)) mod bn) block d0 else nth k block d0).
Proof. exact @roll_back__spec. Qed.
Print Assumptions C11_roll_back_block.
(* the bounds hypotheses above are necessary: a count beyond the array is an error of the model, not a silent success *)
Theorem C11_helpers_out_of_bounds : forall (T : Type) (p : list T) (n : nat) (x : T), (length p < n)%nat ->
  real_fill n p x = None /\ real_push_fore p n x = None /\ real_push_back p n x = None /\
  real_roll_fore p n = None /\ real_roll_back p n = None.
Proof. exact @helpers_out_of_bounds. Qed.
Print Assumptions C11_helpers_out_of_bounds.

(* ================================================================ ROUNDING ERROR OF THE REDUCTIONS AND OF norm2 (C11/RoundProofs.v)
   Everything above is about exact real arithmetic (R_ops).  The theorems below bound the distance between that exact value
   and what the SAME model term returns when every arithmetic operation is followed by a rounding function rnd (instance
   Rnd_ops rnd, Common/RoundOps.v), in the STANDARD MODEL WITH GRADUAL UNDERFLOW
       std_model rnd eps eta :=  (forall x, |rnd x - x| <= eps |x| + eta)  /\  rnd 0 = 0  /\  0 <= eps < 1/4  /\  0 <= eta.
   OVERFLOW IS OUTSIDE THE MODEL (rnd has unbounded range).  IEEE binary64 round-to-nearest-even satisfies it with
   eps = 2^-53, eta = 2^-1075 (C11_binary64_satisfies_model, by Flocq; rnd64 is also idempotent and exact on 1 and on
   integers up to 2^53, which discharges the side conditions in the ..._binary64 theorems).  That each binary64
   operation of the C / of the F64_ops run returns rnd64 of the exact result (finite operands, no overflow) is Flocq's
   theorem on Coq's primitive floats (Common/RoundFlocq.v prim_*_rnd64); its composition along a whole loop is not proved.
   Scope: sum, dot, mean (all lengths, all strides, by induction) and norm2; norm, norm_ and norm3 in the last section of
   this file.  NOT covered: the hyperbolic/expm1/log1p/atan2 bodies (their accuracy clauses above stay ..._partial).
   prods xs ys = [x_i * y_i], gamma eps k = k eps / (1 - k eps).  The cells are arbitrary reals unless stated.
   Non-vacuity: RoundProofs.reductions_round_id (identity rounding: all four bounds are 0 and the instances agree),
   sum_round_scale (inexact model rnd v = 9/8 v: 225/64 vs 3, inside the bound), norm2_round_binary64_ex (x=3, y=-4). *)
From LibaV Require Import Common.RoundOps Common.RoundFlocq C11.RoundProofs.

(* recursive summation: n roundings for arbitrary cells; n-1 (the classical constant) when the first cell is representable *)
Theorem C11_sum_rounding_bound : forall (rnd : R -> R) (eps eta : R), std_model rnd eps eta ->
  forall (n : nat) (p : list R) (c : nat), in_bounds n p 0 c ->
  let xs := cells 0 n p 0 c in
  exists sr, real_sum_ (Rnd_ops rnd) n p c = Some sr /\ real_sum_ R_ops n p c = Some (rsum xs) /\
    Rabs (sr - rsum xs) <= ((1 + eps) ^ n - 1) * rsum (map Rabs xs) + INR n * eta * (1 + eps) ^ n.
Proof. exact sum_round. Qed.
Print Assumptions C11_sum_rounding_bound.

Theorem C11_sum_rounding_bound_sharp : forall (rnd : R -> R) (eps eta : R), std_model rnd eps eta ->
  forall (n : nat) (p : list R) (c : nat), in_bounds n p 0 c -> (1 <= n)%nat -> rnd (nth 0 p 0) = nth 0 p 0 ->
  let xs := cells 0 n p 0 c in
  exists sr, real_sum_ (Rnd_ops rnd) n p c = Some sr /\ real_sum_ R_ops n p c = Some (rsum xs) /\
    Rabs (sr - rsum xs) <= ((1 + eps) ^ (n - 1) - 1) * rsum (map Rabs xs) + INR (n - 1) * eta * (1 + eps) ^ (n - 1).
Proof. exact sum_round_sharp. Qed.
Print Assumptions C11_sum_rounding_bound_sharp.

Theorem C11_sum_rounding_bound_gamma : forall (rnd : R -> R) (eps eta : R), std_model rnd eps eta ->
  forall (n : nat) (p : list R) (c : nat), in_bounds n p 0 c -> (1 <= n)%nat -> rnd (nth 0 p 0) = nth 0 p 0 ->
  INR (n - 1) * eps < 1 ->
  let xs := cells 0 n p 0 c in
  exists sr, real_sum_ (Rnd_ops rnd) n p c = Some sr /\ real_sum_ R_ops n p c = Some (rsum xs) /\
    Rabs (sr - rsum xs) <= gamma eps (n - 1) * rsum (map Rabs xs) + INR (n - 1) * eta * (1 + gamma eps (n - 1)).
Proof. exact sum_round_gamma. Qed.
Print Assumptions C11_sum_rounding_bound_gamma.

(* dot product: n+1 for any rounding; n (the classical gamma_n) for an idempotent rounding *)
Theorem C11_dot_rounding_bound : forall (rnd : R -> R) (eps eta : R), std_model rnd eps eta ->
  forall (n : nat) (X : list R) (Xc : nat) (Y : list R) (Yc : nat), in_bounds n X 0 Xc -> in_bounds n Y 0 Yc ->
  let ps := prods (cells 0 n X 0 Xc) (cells 0 n Y 0 Yc) in
  exists dr, real_dot_ (Rnd_ops rnd) n X Xc Y Yc = Some dr /\ real_dot_ R_ops n X Xc Y Yc = Some (rsum ps) /\
    Rabs (dr - rsum ps) <= ((1 + eps) ^ (n + 1) - 1) * rsum (map Rabs ps) + 2 * INR n * eta * (1 + eps) ^ (n + 1).
Proof. exact dot_round. Qed.
Print Assumptions C11_dot_rounding_bound.

Theorem C11_dot_rounding_bound_sharp : forall (rnd : R -> R) (eps eta : R), std_model rnd eps eta ->
  forall (n : nat) (X : list R) (Xc : nat) (Y : list R) (Yc : nat), in_bounds n X 0 Xc -> in_bounds n Y 0 Yc ->
  (1 <= n)%nat -> (forall v, rnd (rnd v) = rnd v) ->
  let ps := prods (cells 0 n X 0 Xc) (cells 0 n Y 0 Yc) in
  exists dr, real_dot_ (Rnd_ops rnd) n X Xc Y Yc = Some dr /\ real_dot_ R_ops n X Xc Y Yc = Some (rsum ps) /\
    Rabs (dr - rsum ps) <= ((1 + eps) ^ n - 1) * rsum (map Rabs ps) + (2 * INR n - 1) * eta * (1 + eps) ^ n.
Proof. exact dot_round_sharp. Qed.
Print Assumptions C11_dot_rounding_bound_sharp.

Theorem C11_dot_rounding_bound_gamma : forall (rnd : R -> R) (eps eta : R), std_model rnd eps eta ->
  forall (n : nat) (X : list R) (Xc : nat) (Y : list R) (Yc : nat), in_bounds n X 0 Xc -> in_bounds n Y 0 Yc ->
  (1 <= n)%nat -> (forall v, rnd (rnd v) = rnd v) -> INR n * eps < 1 ->
  let ps := prods (cells 0 n X 0 Xc) (cells 0 n Y 0 Yc) in
  exists dr, real_dot_ (Rnd_ops rnd) n X Xc Y Yc = Some dr /\ real_dot_ R_ops n X Xc Y Yc = Some (rsum ps) /\
    Rabs (dr - rsum ps) <= gamma eps n * rsum (map Rabs ps) + (2 * INR n - 1) * eta * (1 + gamma eps n).
Proof. exact dot_round_gamma. Qed.
Print Assumptions C11_dot_rounding_bound_gamma.

(* mean: i = 1/(a_real)n rounded once (1 and n representable), then r += x * i: two roundings per term *)
Theorem C11_mean_rounding_bound : forall (rnd : R -> R) (eps eta : R), std_model rnd eps eta ->
  forall (n : nat) (p : list R) (c : nat), in_bounds n p 0 c -> (1 <= n)%nat -> rnd 1 = 1 -> rnd (INR n) = INR n ->
  let xs := cells 0 n p 0 c in
  exists mr, real_mean_ (Rnd_ops rnd) n p c = Some mr /\ real_mean_ R_ops n p c = Some (rsum xs / INR n) /\
    Rabs (mr - rsum xs / INR n)
      <= ((1 + eps) ^ (n + 2) - 1) * (rsum (map Rabs xs) / INR n)
         + eta * (1 + eps) ^ (n + 2) * ((1 + eps) * rsum (map Rabs xs) + 2 * INR n).
Proof. exact mean_round. Qed.
Print Assumptions C11_mean_rounding_bound.

(* norm2 (the fallback hypot): five roundings; relative error 7/2 (eps + eta) plus eta, first-order constant 3.25 *)
Theorem C11_norm2_rounding_bound : forall (rnd : R -> R) (eps eta : R), std_model rnd eps eta ->
  forall x y : R, rnd 1 = 1 -> eps + eta <= / 64 ->
  (x = 0 \/ 2 * eta <= Rabs x) -> (y = 0 \/ 2 * eta <= Rabs y) ->
  let h := sqrt (x * x + y * y) in
  real_norm2 R_ops x y = h /\
  Rabs (real_norm2 (Rnd_ops rnd) x y - h) <= 7 / 2 * (eps + eta) * h + eta.
Proof. exact norm2_round. Qed.
Print Assumptions C11_norm2_rounding_bound.

(* ---------------------------------------------------------------- IEEE binary64 (Flocq), overflow excluded *)
Theorem C11_binary64_satisfies_model :
  std_model rnd64 eps64 eta64 /\ eps64 = / 9007199254740992 /\ eta64 = / IZR (2 ^ 1075) /\
  (forall v, rnd64 (rnd64 v) = rnd64 v) /\ rnd64 1 = 1 /\ (forall n, (n <= 2 ^ 53)%nat -> rnd64 (INR n) = INR n) /\
  (forall x, rnd64 x = Flocq.Core.Generic_fmt.round Flocq.Core.Zaux.radix2 (Flocq.Core.FLT.FLT_exp (-1074) 53)
                         (Flocq.Core.Generic_fmt.Znearest (fun z => negb (Z.even z))) x).
Proof.
  exact (conj std_model_binary64 (conj eps64_val (conj eta64_val (conj rnd64_idem (conj rnd64_1 (conj rnd64_INR (fun x => eq_refl))))))).
Qed.
Print Assumptions C11_binary64_satisfies_model.

Theorem C11_sum_rounding_bound_binary64 : forall (n : nat) (p : list R) (c : nat), in_bounds n p 0 c ->
  let xs := cells 0 n p 0 c in
  exists sr, real_sum_ (Rnd_ops rnd64) n p c = Some sr /\ real_sum_ R_ops n p c = Some (rsum xs) /\
    Rabs (sr - rsum xs) <= ((1 + eps64) ^ n - 1) * rsum (map Rabs xs) + INR n * eta64 * (1 + eps64) ^ n /\
    ((1 <= n)%nat -> rnd64 (nth 0 p 0) = nth 0 p 0 ->
     Rabs (sr - rsum xs) <= ((1 + eps64) ^ (n - 1) - 1) * rsum (map Rabs xs) + INR (n - 1) * eta64 * (1 + eps64) ^ (n - 1)).
Proof. exact sum_round_binary64. Qed.
Print Assumptions C11_sum_rounding_bound_binary64.

Theorem C11_dot_rounding_bound_binary64 : forall (n : nat) (X : list R) (Xc : nat) (Y : list R) (Yc : nat),
  in_bounds n X 0 Xc -> in_bounds n Y 0 Yc -> (1 <= n)%nat ->
  let ps := prods (cells 0 n X 0 Xc) (cells 0 n Y 0 Yc) in
  exists dr, real_dot_ (Rnd_ops rnd64) n X Xc Y Yc = Some dr /\ real_dot_ R_ops n X Xc Y Yc = Some (rsum ps) /\
    Rabs (dr - rsum ps) <= ((1 + eps64) ^ n - 1) * rsum (map Rabs ps) + (2 * INR n - 1) * eta64 * (1 + eps64) ^ n.
Proof. exact dot_round_binary64. Qed.
Print Assumptions C11_dot_rounding_bound_binary64.

Theorem C11_mean_rounding_bound_binary64 : forall (n : nat) (p : list R) (c : nat), in_bounds n p 0 c -> (1 <= n <= 2 ^ 53)%nat ->
  let xs := cells 0 n p 0 c in
  exists mr, real_mean_ (Rnd_ops rnd64) n p c = Some mr /\ real_mean_ R_ops n p c = Some (rsum xs / INR n) /\
    Rabs (mr - rsum xs / INR n)
      <= ((1 + eps64) ^ (n + 2) - 1) * (rsum (map Rabs xs) / INR n)
         + eta64 * (1 + eps64) ^ (n + 2) * ((1 + eps64) * rsum (map Rabs xs) + 2 * INR n).
Proof. exact mean_round_binary64. Qed.
Print Assumptions C11_mean_rounding_bound_binary64.

(* every binary64 number is 0 or at least 2^-1074 = 2 eta64 in magnitude: the side conditions hold for all float arguments *)
Theorem C11_norm2_rounding_bound_binary64 : forall x y : R,
  (x = 0 \/ 2 * eta64 <= Rabs x) -> (y = 0 \/ 2 * eta64 <= Rabs y) ->
  let h := sqrt (x * x + y * y) in
  real_norm2 R_ops x y = h /\
  Rabs (real_norm2 (Rnd_ops rnd64) x y - h) <= 7 / 2 * (eps64 + eta64) * h + eta64.
Proof. exact norm2_round_binary64. Qed.
Print Assumptions C11_norm2_rounding_bound_binary64.

(* ================================================================================================================
   ROUNDING ERROR of the n-element scaled norm a_real_norm / a_real_norm_ and of a_real_norm3 (C11/NormRound.v), at the
   rounded-real instance, every std_model rnd eps eta, EVERY length n >= 1 and stride.  (This supersedes the "NOT covered:
   norm3, norm_" of the scope note above.)  Pass 1 (largest magnitude w) is exact: fabs and comparisons do not round and the
   isinf test x + x == x is false for a cell that is 0 or at least 2 eta in magnitude (every binary64 number is).  Pass 2
   accumulates rnd (q q), q = rnd (p_i / w), by s := rnd (s + ..); the result is rnd (rnd (sqrt s) * w).  With
   N = sqrt (sum p_i^2), w > 0 and (n + 3)(eps + eta) <= 1/64:
        |fl - N| <= ((9/16 n + 15/4) eps + (9/4 n + 17/16) eta) N + eta  <=  (9/4 n + 15/4)(eps + eta) N + eta
   (norm_C n eps eta is the first bracket; first-order truth (n/2 + 3.5) eps).  The eta inside the bracket is underflow in the
   scaled quantities, the last eta the absolute underflow error of the final product.  Overflow is outside the model.
   Non-vacuity: NormRound.norm_round_binary64_ex ([3; -4; 12] in binary64), norm_round_scale_ex (inexact model
   rnd v = v (1 + 2^-10) on [3; 4]), norm3_round_binary64_ex ((2, -3, 6) in binary64). *)
From LibaV Require Import C11.NormRound.

Theorem C11_norm_rounding_bound : forall (rnd : R -> R) (eps eta : R), std_model rnd eps eta ->
  forall (n : nat) (p : list R) (c : nat), (1 <= c)%nat -> in_bounds n p 0 c ->
  let xs := cells 0 n p 0 c in
  List.Forall (fun v => v = 0 \/ 2 * eta <= Rabs v) xs -> 0 < maxabs xs 0 -> INR (n + 3) * (eps + eta) <= / 64 ->
  let N := sqrt (sumsq xs) in
  exists fl, real_norm_ (Rnd_ops rnd) n p c = Some fl /\ real_norm_ R_ops n p c = Some N /\
    (c = 1%nat -> real_norm (Rnd_ops rnd) n p = Some fl) /\
    Rabs (fl - N) <= ((9 / 16 * INR n + 15 / 4) * eps + (9 / 4 * INR n + 17 / 16) * eta) * N + eta /\
    Rabs (fl - N) <= (9 / 4 * INR n + 15 / 4) * (eps + eta) * N + eta.
Proof. exact norm_round. Qed.
Print Assumptions C11_norm_rounding_bound.

(* the all-zero vector (w = 0) returns 0 exactly *)
Theorem C11_norm_rounding_zero : forall (rnd : R -> R) (eps eta : R), std_model rnd eps eta ->
  forall l : list R, List.Forall (fun v => v = 0 \/ 2 * eta <= Rabs v) l -> maxabs l 0 <= 0 ->
  norm_cells (Rnd_ops rnd) l = 0 /\ norm_cells R_ops l = 0 /\ sumsq l = 0.
Proof. exact norm_cells_round_zero. Qed.
Print Assumptions C11_norm_rounding_zero.

(* a_real_norm3: ten roundings, first-order truth 4.5 eps *)
Theorem C11_norm3_rounding_bound : forall (rnd : R -> R) (eps eta : R), std_model rnd eps eta ->
  forall x y z : R, rnd 1 = 1 -> eps + eta <= / 64 ->
  (x = 0 \/ 2 * eta <= Rabs x) -> (y = 0 \/ 2 * eta <= Rabs y) -> (z = 0 \/ 2 * eta <= Rabs z) ->
  let h := sqrt (x * x + y * y + z * z) in
  real_norm3 R_ops x y z = h /\
  Rabs (real_norm3 (Rnd_ops rnd) x y z - h) <= (21 / 4 * eps + 25 / 4 * eta) * h + eta.
Proof. exact norm3_round. Qed.
Print Assumptions C11_norm3_rounding_bound.

(* IEEE binary64: every length up to 2^45 *)
Theorem C11_norm_rounding_bound_binary64 : forall (n : nat) (p : list R) (c : nat),
  (1 <= c)%nat -> in_bounds n p 0 c -> (n <= 2 ^ 45)%nat ->
  let xs := cells 0 n p 0 c in
  List.Forall (fun v => v = 0 \/ 2 * eta64 <= Rabs v) xs -> 0 < maxabs xs 0 ->
  let N := sqrt (sumsq xs) in
  exists fl, real_norm_ (Rnd_ops rnd64) n p c = Some fl /\ real_norm_ R_ops n p c = Some N /\
    (c = 1%nat -> real_norm (Rnd_ops rnd64) n p = Some fl) /\
    Rabs (fl - N) <= ((9 / 16 * INR n + 15 / 4) * eps64 + (9 / 4 * INR n + 17 / 16) * eta64) * N + eta64 /\
    Rabs (fl - N) <= (9 / 4 * INR n + 15 / 4) * (eps64 + eta64) * N + eta64.
Proof. exact norm_round_binary64. Qed.
Print Assumptions C11_norm_rounding_bound_binary64.

Theorem C11_norm3_rounding_bound_binary64 : forall x y z : R,
  (x = 0 \/ 2 * eta64 <= Rabs x) -> (y = 0 \/ 2 * eta64 <= Rabs y) -> (z = 0 \/ 2 * eta64 <= Rabs z) ->
  let h := sqrt (x * x + y * y + z * z) in
  real_norm3 R_ops x y z = h /\
  Rabs (real_norm3 (Rnd_ops rnd64) x y z - h) <= (21 / 4 * eps64 + 25 / 4 * eta64) * h + eta64.
Proof. exact norm3_round_binary64. Qed.
Print Assumptions C11_norm3_rounding_bound_binary64.
