(* C11 - real helpers (src/math.c fallback bodies).  Model: C11/MathDefs.v; proofs: C11/MathProofs.v. *)
From Coq Require Import Reals List.
From LibaV Require Import Common.NumOps Common.ROps C11.MathDefs C11.MathProofs.
Import ListNotations.
Local Open Scope R_scope.

Theorem C11_log1p_compensation_neutral : forall x, real_log1p R_ops x = ln (1 + x).
Proof. exact log1p_neutral. Qed.
Print Assumptions C11_log1p_compensation_neutral.
