(** Property C04 — statements only; proofs are in C04/VecProofs.v *)
From Coq Require Import NArith List Bool.
From LibaV Require Import C04.VecDefs C04.VecProofs.
Local Open Scope N_scope.

Theorem c04_slot_of_mul : forall siz i, 0 < siz -> slot_of siz (siz * i) = Ok i.
Proof. exact slot_of_mul. Qed.
Print Assumptions c04_slot_of_mul.
