(** Property C04 — "Vector and fixed buffer behave as an indexable sequence under any history".
    Statements only; every proof is [exact <lemma of C04/*Proofs.v>].  The model (C04/VecDefs.v) is
    the code WITH the proposed fixes C04-1..6; the statements about the unpatched guards are the
    [..._refuted] theorems at the end.  Non-vacuity examples: C04/VecExamples.v.

    Vocabulary (C04/VecSpec.v): [abs a] = the first [a_num a] slots; [arr_inv] = siz >= 1,
    num <= mem, mem = number of slots really owned, byte size < 2^63, every slot has siz bytes;
    [op_spec] = the abstract-sequence semantics of every operation (result value, returned slot
    inside storage, element behind the returned pointer, destructor calls, capacity);
    [hist_pre] = every store passes an array of < 2^63 elements and every buffer capacity request
    is representable in bytes (nothing else is assumed about indices and counts, which range over
    all of N and in particular over [0, 2^64)). *)
From Coq Require Import NArith List Bool Sorting.Sorted Sorting.Permutation.
From LibaV Require Import C04.VecDefs C04.VecSpec C04.SwapProofs C04.ArrProofs C04.SortProofs C04.VecProofs
     C04.VecExamples C04.AccDefs C04.AccProofs.
Import ListNotations.
Local Open Scope N_scope.

(** * refinement, one operation, any state satisfying the invariant, any index / count *)
Theorem vec_refines_seq :
  forall cmp : elem -> elem -> comparison,
    (forall a b c, le cmp a b -> le cmp b c -> le cmp a c) -> (forall a b, le cmp a b \/ le cmp b a) ->
    forall h v o, vec_inv v -> op_pre KVec (a_siz (v_arr v)) o ->
      exists h' v' r, vec_step cmp h v o = Ok (h', v', r) /\ vec_inv v'
                      /\ step_post cmp KVec (v_arr v) o (v_arr v') r.
Proof. exact vec_step_refines. Qed.
Print Assumptions vec_refines_seq.

Theorem buf_refines_seq :
  forall cmp : elem -> elem -> comparison,
    (forall a b c, le cmp a b -> le cmp b c -> le cmp a c) -> (forall a b, le cmp a b \/ le cmp b a) ->
    forall h b o, buf_inv b -> op_pre KBuf (a_siz (b_arr b)) o ->
      exists h' b' r, buf_step cmp h b o = Ok (h', b', r) /\ buf_inv b'
                      /\ step_post cmp KBuf (b_arr b) o (b_arr b') r.
Proof. exact buf_step_refines. Qed.
Print Assumptions buf_refines_seq.

(** * all finite histories (two vectors incl. a_vec_swap, one buffer, new/die): invariants
      (count <= capacity, storage owned), no model error, every step meets its specification *)
Theorem history_refines :
  forall cmp : elem -> elem -> comparison,
    (forall a b c, le cmp a b -> le cmp b c -> le cmp a c) -> (forall a b, le cmp a b \/ le cmp b a) ->
    forall ops w, world_inv w -> hist_pre cmp w ops -> hist_post cmp w ops.
Proof. exact history_ok. Qed.
Print Assumptions history_refines.

Theorem history_refines_from_init :
  forall cmp : elem -> elem -> comparison,
    (forall a b c, le cmp a b -> le cmp b c -> le cmp a c) -> (forall a b, le cmp a b \/ le cmp b a) ->
    forall sched limit ops,
      hist_pre cmp (init_world sched limit) ops -> hist_post cmp (init_world sched limit) ops.
Proof. exact history_ok_init. Qed.
Print Assumptions history_refines_from_init.

Theorem run_never_out_of_bounds :
  forall cmp : elem -> elem -> comparison,
    (forall a b c, le cmp a b -> le cmp b c -> le cmp a c) -> (forall a b, le cmp a b \/ le cmp b a) ->
    forall ops w, world_inv w -> hist_pre cmp w ops ->
      Forall (fun r => o_err r = None) (snd (run cmp w ops)) /\ world_inv (fst (run cmp w ops)).
Proof. exact run_no_error. Qed.
Print Assumptions run_never_out_of_bounds.

(** * every element pointer returned lies inside storage the container owns *)
Theorem returned_pointer_inside_storage :
  forall (cmp : elem -> elem -> comparison) k siz mem l o r d siz' mem' l' off c,
      op_spec cmp k siz mem l o r d siz' mem' l' -> o <> OEnd -> r = RPtr (Some off) c ->
      exists p, off = siz' * p /\ p < mem'.
Proof. exact ret_ptr_inside. Qed.
Print Assumptions returned_pointer_inside_storage.

(** * a_swap: exchanges two slots; on the overlapping ranges of remove it rotates one element *)
Theorem a_swap_rotates :
  forall siz sl p m, 0 < siz -> Forall (elem_ok siz) sl -> p + m < nlen sl ->
    sl_swap siz sl (siz * p) (siz * (p + 1)) (siz * m) = Ok (lrot (N.to_nat p) (N.to_nat m) sl).
Proof. exact sl_swap_rot. Qed.
Print Assumptions a_swap_rotates.

Theorem a_swap_exchanges_adjacent :
  forall siz sl j, 0 < siz -> Forall (elem_ok siz) sl -> j + 1 < nlen sl ->
    sl_swap siz sl (siz * (j + 1)) (siz * j) siz = Ok (lswap (N.to_nat j) sl).
Proof. exact sl_swap_adj'. Qed.
Print Assumptions a_swap_exchanges_adjacent.

(** * both implementations of remove (scratch slot / in-place rotation) agree, and removal returns
      the removed element intact *)
Theorem remove_paths_agree :
  forall a1 a2 idx,
    arr_inv a1 -> arr_inv a2 -> abs a1 = abs a2 -> abs a1 <> [] ->
    a_num a1 < a_mem a1 -> a_num a2 = a_mem a2 ->
    exists a1' o1 a2' o2,
      arr_remove a1 idx = Ok (a1', Some o1) /\ arr_remove a2 idx = Ok (a2', Some o2)
      /\ abs a1' = abs a2' /\ abs a1' = sp_remove (abs a1) idx
      /\ content_at a1' o1 (a_mem a1') = Some (sp_removed (abs a1) idx)
      /\ content_at a2' o2 (a_mem a2') = Some (sp_removed (abs a1) idx).
Proof. exact remove_paths_agree_lemma. Qed.
Print Assumptions remove_paths_agree.

(** * sorted-insert variants (either implementation) on a sorted sequence: sorted, the new element
      added, nothing lost *)
Theorem sort_paths_agree :
  forall cmp : elem -> elem -> comparison,
    (forall a b c, le cmp a b -> le cmp b c -> le cmp a c) -> (forall a b, le cmp a b \/ le cmp b a) ->
    forall a1 a2,
      arr_inv a1 -> arr_inv a2 -> abs a1 = abs a2 -> a_num a1 < a_mem a1 -> a_num a2 = a_mem a2 ->
      (sorted cmp (tl (abs a1)) ->
       exists a1' a2', arr_sort_fore cmp a1 = Ok a1' /\ arr_sort_fore cmp a2 = Ok a2' /\ abs a1' = abs a2')
      /\ (sorted cmp (removelast (abs a1)) ->
          exists a1' a2', arr_sort_back cmp a1 = Ok a1' /\ arr_sort_back cmp a2 = Ok a2' /\ abs a1' = abs a2').
Proof. exact sort_paths_agree_lemma. Qed.
Print Assumptions sort_paths_agree.

Theorem sort_fore_sorted :
  forall cmp : elem -> elem -> comparison,
    (forall a b c, le cmp a b -> le cmp b c -> le cmp a c) -> (forall a b, le cmp a b \/ le cmp b a) ->
    forall a, arr_inv a -> sorted cmp (tl (abs a)) ->
      exists a', arr_sort_fore cmp a = Ok a' /\ arr_inv a'
                 /\ abs a' = sp_sort_fore cmp (abs a) /\ sorted cmp (abs a') /\ Permutation (abs a) (abs a').
Proof. exact sort_fore_sorted_lemma. Qed.
Print Assumptions sort_fore_sorted.

Theorem sort_back_sorted :
  forall cmp : elem -> elem -> comparison,
    (forall a b c, le cmp a b -> le cmp b c -> le cmp a c) -> (forall a b, le cmp a b \/ le cmp b a) ->
    forall a, arr_inv a -> sorted cmp (removelast (abs a)) ->
      exists a', arr_sort_back cmp a = Ok a' /\ arr_inv a'
                 /\ abs a' = sp_sort_back cmp (abs a) /\ sorted cmp (abs a') /\ Permutation (abs a) (abs a').
Proof. exact sort_back_sorted_lemma. Qed.
Print Assumptions sort_back_sorted.

Theorem push_sort_sorted :
  forall cmp : elem -> elem -> comparison,
    (forall a b c, le cmp a b -> le cmp b c -> le cmp a c) -> (forall a b, le cmp a b \/ le cmp b a) ->
    forall a key, arr_inv a -> a_num a < a_mem a -> sorted cmp (abs a) -> fit (a_siz a) key = key ->
      exists a2 a3 off,
        arr_push_sort cmp a key = Ok (a2, off) /\ put a2 off key = Ok a3 /\ arr_inv a3
        /\ abs a3 = sp_push_sort cmp (abs a) key
        /\ sorted cmp (abs a3) /\ Permutation (key :: abs a) (abs a3).
Proof. exact push_sort_sorted_lemma. Qed.
Print Assumptions push_sort_sorted.

(** * the fixed buffer refuses exactly the operations that do not fit, and then changes nothing *)
Theorem buf_refuses :
  forall cmp : elem -> elem -> comparison,
    (forall a b c, le cmp a b -> le cmp b c -> le cmp a c) -> (forall a b, le cmp a b \/ le cmp b a) ->
    forall h b o need,
      buf_inv b -> op_pre KBuf (a_siz (b_arr b)) o -> room_needed o = Some need ->
      exists h' b' r, buf_step cmp h b o = Ok (h', b', r) /\ buf_inv b'
        /\ (a_mem (b_arr b) < a_num (b_arr b) + need ->
            refusal o (o_ret r) /\ abs (b_arr b') = abs (b_arr b) /\ a_mem (b_arr b') = a_mem (b_arr b))
        /\ (a_num (b_arr b) + need <= a_mem (b_arr b) ->
            ~ refusal o (o_ret r) /\ nlen (abs (b_arr b')) = nlen (abs (b_arr b)) + need).
Proof. exact buf_refuses_lemma. Qed.
Print Assumptions buf_refuses.

(** * the vector's growth step never wraps, never loops, and keeps the contents *)
Theorem vec_growth :
  forall h v mem, vec_inv v ->
    exists h' v' rc ev, vec_setm h v mem = Ok (h', v', rc, ev)
      /\ ((rc = A_SUCCESS /\ vec_inv v' /\ mem <= a_mem (v_arr v')
           /\ a_mem (v_arr v) <= a_mem (v_arr v')
           /\ a_siz (v_arr v') = a_siz (v_arr v) /\ a_num (v_arr v') = a_num (v_arr v)
           /\ abs (v_arr v') = abs (v_arr v))
          \/ (rc = A_OMEMORY /\ v' = v /\ a_mem (v_arr v) < mem)).
Proof. exact vec_setm_spec. Qed.
Print Assumptions vec_growth.

(** * trusted-model sanity: the insertion sort standing for qsort yields a sorted permutation; the
      harness comparator (memcmp) is a total order whose equivalence is identity *)
Theorem qsort_model_sorted_permutation :
  forall cmp : elem -> elem -> comparison,
    (forall a b c, le cmp a b -> le cmp b c -> le cmp a c) -> (forall a b, le cmp a b \/ le cmp b a) ->
    forall l, sorted cmp (isort cmp l) /\ Permutation l (isort cmp l).
Proof. exact isort_sorted_perm. Qed.
Print Assumptions qsort_model_sorted_permutation.

Theorem harness_comparator_transitive :
  forall a b c, le lex_cmp a b -> le lex_cmp b c -> le lex_cmp a c.
Proof. exact lex_le_trans. Qed.
Print Assumptions harness_comparator_transitive.

Theorem harness_comparator_total : forall a b, le lex_cmp a b \/ le lex_cmp b a.
Proof. exact lex_le_total. Qed.
Print Assumptions harness_comparator_total.

Theorem harness_comparator_equivalence_is_identity : forall a b, lex_cmp a b = Eq -> a = b.
Proof. exact lex_cmp_eq. Qed.
Print Assumptions harness_comparator_equivalence_is_identity.

(** * the guards: the unpatched ones admit out-of-range arguments (defects C04-1, C04-2, witnesses
      replayed on the real code by corpus/C04/defects.case), the patched ones are exact *)
Theorem remove_guard_original_refuted :
  exists idx num, idx < W /\ num < W /\ (wadd idx 1 <? num) = true /\ num <= idx.
Proof. exact orig_remove_guard_refuted. Qed.
Print Assumptions remove_guard_original_refuted.

Theorem remove_guard_fixed :
  forall idx num, num < W -> (negb (num =? 0) && (idx <? wsub num 1) = true <-> idx + 1 < num).
Proof. exact fixed_remove_guard_spec. Qed.
Print Assumptions remove_guard_fixed.

Theorem erase_end_original_refuted :
  exists idx cnt num, idx < W /\ cnt < W /\ num < W /\ idx < num
                      /\ (wadd idx cnt <? num) = true /\ num < idx + cnt.
Proof. exact orig_erase_end_refuted. Qed.
Print Assumptions erase_end_original_refuted.

Theorem erase_end_fixed :
  forall idx cnt num, num < W ->
    (if (idx <? num) && (cnt <? wsub num idx) then wadd idx cnt else num) = N.min (idx + cnt) (N.max idx num)
    \/ num <= idx.
Proof. exact fixed_erase_end_spec. Qed.
Print Assumptions erase_end_fixed.

(** * the rest of the public interface of vec.h / buf.h (C04/AccDefs.v; every function below is called by
      harness/C04/drv.c after every operation and compared with the extracted definitions)

      unchecked element accessors a_vec_at_ / a_buf_at_, a_vec_top_ / a_buf_top_, a_vec_end_ under their
      documented preconditions, for EVERY state satisfying the invariant: the 64-bit product does not wrap,
      the pointer designates a whole slot inside the owned storage, and the checked accessor returns the
      same pointer (a_vec_of(ctx, -1) is the top element) *)
Theorem unchecked_at_inside_storage :
  forall a idx, arr_inv a -> idx < a_mem a ->
    arr_at_ a idx = a_siz a * idx
    /\ a_siz a * idx + a_siz a <= a_siz a * a_mem a
    /\ arr_at a idx = Some (arr_at_ a idx).
Proof. exact arr_at__spec. Qed.
Print Assumptions unchecked_at_inside_storage.

Theorem unchecked_top_is_last_element :
  forall a, arr_inv a -> a_num a <> 0 ->
    arr_top_ a = a_siz a * (a_num a - 1)
    /\ arr_top_ a + a_siz a = a_siz a * a_num a
    /\ arr_top_ a + a_siz a <= a_siz a * a_mem a
    /\ arr_top a = Some (arr_top_ a)
    /\ arr_of a (W - 1) = Some (arr_top_ a).
Proof. exact arr_top__spec. Qed.
Print Assumptions unchecked_top_is_last_element.

Theorem unchecked_end_is_one_past_last :
  forall a, arr_inv a ->
    arr_end_ a = a_siz a * a_num a /\ arr_end_ a <= a_siz a * a_mem a /\ arr_end a = arr_end_ a.
Proof. exact arr_end__spec. Qed.
Print Assumptions unchecked_end_is_one_past_last.

(** the verdict both drivers print after every operation (acc=ok) holds in every reachable state *)
Theorem accessor_verdict_ok :
  (forall v, vec_inv v -> vec_acc_check v = true) /\ (forall b, buf_inv b -> buf_acc_check b = true).
Proof. exact (conj vec_acc_check_ok buf_acc_check_ok). Qed.
Print Assumptions accessor_verdict_ok.

(** aliases a_vec_push / a_vec_pull / a_buf_push / a_buf_pull *)
Theorem aliases_are_push_back_pull_back :
  forall cmp h v b x,
    vec_step cmp h v (OPush x) = vec_step cmp h v (OPushBack x)
    /\ vec_step cmp h v OPull = vec_step cmp h v OPullBack
    /\ buf_step cmp h b (OPush x) = buf_step cmp h b (OPushBack x)
    /\ buf_step cmp h b OPull = buf_step cmp h b OPullBack.
Proof. exact alias_steps. Qed.
Print Assumptions aliases_are_push_back_pull_back.

(** ctor / dtor: a_vec_new = a_alloc + a_vec_ctor, a_vec_die = a_vec_dtor + a_alloc(ctx, 0) (same for the
    buffer), so the history theorems above cover containers built by hand; what ctor establishes and what
    dtor leaves *)
Theorem new_die_are_ctor_dtor :
  (forall h siz, vec_new_by_ctor h siz = vec_new h siz)
  /\ (forall h siz num, buf_new_by_ctor h siz num = buf_new h siz num)
  /\ (forall h id v dt, vec_die_by_dtor h id v dt = vec_die h id v dt)
  /\ (forall h b dt, buf_die_by_dtor h b dt = buf_die h b dt).
Proof. exact (conj vec_new_by_ctor_eq (conj buf_new_by_ctor_eq (conj vec_die_by_dtor_eq buf_die_by_dtor_eq))). Qed.
Print Assumptions new_die_are_ctor_dtor.

Theorem vec_ctor_establishes_invariant :
  forall siz, vec_inv (vec_ctor siz)
    /\ a_siz (v_arr (vec_ctor siz)) = (if siz =? 0 then 1 else siz)
    /\ abs (v_arr (vec_ctor siz)) = [] /\ a_mem (v_arr (vec_ctor siz)) = 0.
Proof. exact vec_ctor_inv. Qed.
Print Assumptions vec_ctor_establishes_invariant.

Theorem vec_dtor_destroys_all_and_releases :
  forall h v dt, vec_inv v ->
    exists h' ev, vec_dtor h v dt = Ok (h', mkVec None (mkArr 0 0 0 []), (if dt then rev (abs (v_arr v)) else []), ev)
      /\ (h', ev) = match v_ptr v with
                    | Some p => let '(_, h1, ev1) := a_alloc h (Some p) 0 in (h1, ev1)
                    | None => (h, []) end.
Proof. exact vec_dtor_spec. Qed.
Print Assumptions vec_dtor_destroys_all_and_releases.

Theorem buf_dtor_destroys_all_keeps_capacity :
  forall b dt, buf_inv b ->
    exists b', buf_dtor b dt = Ok (b', (if dt then rev (abs (b_arr b)) else []))
      /\ buf_inv b' /\ b_blk b' = b_blk b /\ abs (b_arr b') = []
      /\ a_siz (b_arr b') = a_siz (b_arr b) /\ a_mem (b_arr b') = a_mem (b_arr b).
Proof. exact buf_dtor_spec. Qed.
Print Assumptions buf_dtor_destroys_all_keeps_capacity.
