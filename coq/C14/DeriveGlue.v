(* Gluing lemmas: a function that coincides with g on a left neighbourhood (c-d, c] of c and with h on a right neighbourhood
   [c, c+d) is continuous / differentiable at c as soon as g and h are, with the same value / derivative. *)
From Coq Require Import Reals Lra.
From Coquelicot Require Import Coquelicot.
Local Open Scope R_scope.

Lemma is_derive_glue (f g h : R -> R) (c l : R) :
  (exists d, 0 < d /\ forall y, c - d < y <= c -> f y = g y) ->
  (exists d, 0 < d /\ forall y, c <= y < c + d -> f y = h y) ->
  is_derive g c l -> is_derive h c l -> is_derive f c l.
Proof.
  intros [d1 [Hd1 Hg]] [d2 [Hd2 Hh]] Dg Dh.
  apply is_derive_Reals in Dg. apply is_derive_Reals in Dh. apply is_derive_Reals.
  intros eps Heps.
  destruct (Dg eps Heps) as [dg Hdg]. destruct (Dh eps Heps) as [dh Hdh].
  assert (Hm : 0 < Rmin (Rmin dg dh) (Rmin d1 d2)).
  { repeat apply Rmin_glb_lt; try assumption; [apply (cond_pos dg)|apply (cond_pos dh)]. }
  exists (mkposreal _ Hm). intros k Hk Hlt. cbn in Hlt.
  assert (L1 : Rabs k < dg) by (eapply Rlt_le_trans; [exact Hlt|]; eapply Rle_trans; [apply Rmin_l|apply Rmin_l]).
  assert (L2 : Rabs k < dh) by (eapply Rlt_le_trans; [exact Hlt|]; eapply Rle_trans; [apply Rmin_l|apply Rmin_r]).
  assert (L3 : Rabs k < d1) by (eapply Rlt_le_trans; [exact Hlt|]; eapply Rle_trans; [apply Rmin_r|apply Rmin_l]).
  assert (L4 : Rabs k < d2) by (eapply Rlt_le_trans; [exact Hlt|]; eapply Rle_trans; [apply Rmin_r|apply Rmin_r]).
  destruct (Rlt_dec k 0) as [Hneg|Hpos].
  - rewrite (Hg (c + k)), (Hg c); [apply Hdg; assumption| lra |].
    rewrite Rabs_left in L3 by lra. lra.
  - assert (0 < k) by lra.
    rewrite (Hh (c + k)), (Hh c); [apply Hdh; assumption| lra |].
    rewrite Rabs_right in L4 by lra. lra.
Qed.

Lemma continuous_glue (f g h : R -> R) (c : R) :
  (exists d, 0 < d /\ forall y, c - d < y <= c -> f y = g y) ->
  (exists d, 0 < d /\ forall y, c <= y < c + d -> f y = h y) ->
  continuous g c -> continuous h c -> continuous f c.
Proof.
  intros [d1 [Hd1 Hg]] [d2 [Hd2 Hh]] Cg Ch.
  apply continuity_pt_filterlim in Cg. apply continuity_pt_filterlim in Ch. apply continuity_pt_filterlim.
  intros eps Heps.
  destruct (Cg eps Heps) as [ag [Hag Cg']]. destruct (Ch eps Heps) as [ah [Hah Ch']].
  exists (Rmin (Rmin ag ah) (Rmin d1 d2)). split.
  { repeat apply Rmin_glb_lt; assumption. }
  intros y [[_ Hne] Hd]. unfold dist in *. cbn in *. unfold R_dist in *.
  assert (L1 : Rabs (y - c) < ag) by (eapply Rlt_le_trans; [exact Hd|]; eapply Rle_trans; [apply Rmin_l|apply Rmin_l]).
  assert (L2 : Rabs (y - c) < ah) by (eapply Rlt_le_trans; [exact Hd|]; eapply Rle_trans; [apply Rmin_l|apply Rmin_r]).
  assert (L3 : Rabs (y - c) < d1) by (eapply Rlt_le_trans; [exact Hd|]; eapply Rle_trans; [apply Rmin_r|apply Rmin_l]).
  assert (L4 : Rabs (y - c) < d2) by (eapply Rlt_le_trans; [exact Hd|]; eapply Rle_trans; [apply Rmin_r|apply Rmin_r]).
  destruct (Rlt_dec y c) as [Hneg|Hpos].
  - rewrite (Hg y), (Hg c); [| lra |].
    + apply Cg'. split; [split; [exact I|lra]|exact L1].
    + rewrite Rabs_left in L3 by lra. lra.
  - assert (c < y) by lra.
    rewrite (Hh y), (Hh c); [| lra |].
    + apply Ch'. split; [split; [exact I|lra]|exact L2].
    + rewrite Rabs_right in L4 by lra. lra.
Qed.
