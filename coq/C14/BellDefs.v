(* C14 model, part 2: src/trajbell.c (a_trajbell_gen/pos/vel/acc/jer), transcribed statement by statement, polymorphic
   over NumOps.  No proofs here.
   - the context is a record of the 14 struct fields (include/a/trajbell.h);
   - `goto exit` / `goto fail` / early `return` are early exits of the model;
   - the do { ... } while (ac > A_REAL_EPSILON) bisection on the acceleration is `bell_step` (one loop body, returning
     exit / fail / continue with the new (am, ac)) iterated by `bell_loop` on fuel; running out of fuel is a distinct
     result (LOut) that no theorem treats as success.  In binary64 `ac` is halved on every non-exiting pass, so at most
     1076 passes happen for any finite start value; the correspondence run uses fuel 1200. *)
From Coq Require Import ZArith List.
From LibaV Require Import Common.NumOps C14.TrapDefs.
Import ListNotations.

Record bell (T : Type) := mk_bell {
  b_t : T; b_tv : T; b_ta : T; b_td : T; b_taj : T; b_tdj : T;
  b_p0 : T; b_p1 : T; b_v0 : T; b_v1 : T; b_vm : T; b_jm : T; b_am : T; b_dm : T }.
Arguments mk_bell {T}. Arguments b_t {T}. Arguments b_tv {T}. Arguments b_ta {T}. Arguments b_td {T}.
Arguments b_taj {T}. Arguments b_tdj {T}. Arguments b_p0 {T}. Arguments b_p1 {T}. Arguments b_v0 {T}.
Arguments b_v1 {T}. Arguments b_vm {T}. Arguments b_jm {T}. Arguments b_am {T}. Arguments b_dm {T}.

Section Setters.
  Context {T : Type}.
  Local Notation bell := (bell T).
  Definition b_set_t (x : T) (c : bell) : bell :=
    {| b_t := x; b_tv := b_tv c; b_ta := b_ta c; b_td := b_td c; b_taj := b_taj c; b_tdj := b_tdj c; b_p0 := b_p0 c; b_p1 := b_p1 c; b_v0 := b_v0 c; b_v1 := b_v1 c; b_vm := b_vm c; b_jm := b_jm c; b_am := b_am c; b_dm := b_dm c |}.
  Definition b_set_tv (x : T) (c : bell) : bell :=
    {| b_t := b_t c; b_tv := x; b_ta := b_ta c; b_td := b_td c; b_taj := b_taj c; b_tdj := b_tdj c; b_p0 := b_p0 c; b_p1 := b_p1 c; b_v0 := b_v0 c; b_v1 := b_v1 c; b_vm := b_vm c; b_jm := b_jm c; b_am := b_am c; b_dm := b_dm c |}.
  Definition b_set_ta (x : T) (c : bell) : bell :=
    {| b_t := b_t c; b_tv := b_tv c; b_ta := x; b_td := b_td c; b_taj := b_taj c; b_tdj := b_tdj c; b_p0 := b_p0 c; b_p1 := b_p1 c; b_v0 := b_v0 c; b_v1 := b_v1 c; b_vm := b_vm c; b_jm := b_jm c; b_am := b_am c; b_dm := b_dm c |}.
  Definition b_set_td (x : T) (c : bell) : bell :=
    {| b_t := b_t c; b_tv := b_tv c; b_ta := b_ta c; b_td := x; b_taj := b_taj c; b_tdj := b_tdj c; b_p0 := b_p0 c; b_p1 := b_p1 c; b_v0 := b_v0 c; b_v1 := b_v1 c; b_vm := b_vm c; b_jm := b_jm c; b_am := b_am c; b_dm := b_dm c |}.
  Definition b_set_taj (x : T) (c : bell) : bell :=
    {| b_t := b_t c; b_tv := b_tv c; b_ta := b_ta c; b_td := b_td c; b_taj := x; b_tdj := b_tdj c; b_p0 := b_p0 c; b_p1 := b_p1 c; b_v0 := b_v0 c; b_v1 := b_v1 c; b_vm := b_vm c; b_jm := b_jm c; b_am := b_am c; b_dm := b_dm c |}.
  Definition b_set_tdj (x : T) (c : bell) : bell :=
    {| b_t := b_t c; b_tv := b_tv c; b_ta := b_ta c; b_td := b_td c; b_taj := b_taj c; b_tdj := x; b_p0 := b_p0 c; b_p1 := b_p1 c; b_v0 := b_v0 c; b_v1 := b_v1 c; b_vm := b_vm c; b_jm := b_jm c; b_am := b_am c; b_dm := b_dm c |}.
  Definition b_set_p0 (x : T) (c : bell) : bell :=
    {| b_t := b_t c; b_tv := b_tv c; b_ta := b_ta c; b_td := b_td c; b_taj := b_taj c; b_tdj := b_tdj c; b_p0 := x; b_p1 := b_p1 c; b_v0 := b_v0 c; b_v1 := b_v1 c; b_vm := b_vm c; b_jm := b_jm c; b_am := b_am c; b_dm := b_dm c |}.
  Definition b_set_p1 (x : T) (c : bell) : bell :=
    {| b_t := b_t c; b_tv := b_tv c; b_ta := b_ta c; b_td := b_td c; b_taj := b_taj c; b_tdj := b_tdj c; b_p0 := b_p0 c; b_p1 := x; b_v0 := b_v0 c; b_v1 := b_v1 c; b_vm := b_vm c; b_jm := b_jm c; b_am := b_am c; b_dm := b_dm c |}.
  Definition b_set_v0 (x : T) (c : bell) : bell :=
    {| b_t := b_t c; b_tv := b_tv c; b_ta := b_ta c; b_td := b_td c; b_taj := b_taj c; b_tdj := b_tdj c; b_p0 := b_p0 c; b_p1 := b_p1 c; b_v0 := x; b_v1 := b_v1 c; b_vm := b_vm c; b_jm := b_jm c; b_am := b_am c; b_dm := b_dm c |}.
  Definition b_set_v1 (x : T) (c : bell) : bell :=
    {| b_t := b_t c; b_tv := b_tv c; b_ta := b_ta c; b_td := b_td c; b_taj := b_taj c; b_tdj := b_tdj c; b_p0 := b_p0 c; b_p1 := b_p1 c; b_v0 := b_v0 c; b_v1 := x; b_vm := b_vm c; b_jm := b_jm c; b_am := b_am c; b_dm := b_dm c |}.
  Definition b_set_vm (x : T) (c : bell) : bell :=
    {| b_t := b_t c; b_tv := b_tv c; b_ta := b_ta c; b_td := b_td c; b_taj := b_taj c; b_tdj := b_tdj c; b_p0 := b_p0 c; b_p1 := b_p1 c; b_v0 := b_v0 c; b_v1 := b_v1 c; b_vm := x; b_jm := b_jm c; b_am := b_am c; b_dm := b_dm c |}.
  Definition b_set_jm (x : T) (c : bell) : bell :=
    {| b_t := b_t c; b_tv := b_tv c; b_ta := b_ta c; b_td := b_td c; b_taj := b_taj c; b_tdj := b_tdj c; b_p0 := b_p0 c; b_p1 := b_p1 c; b_v0 := b_v0 c; b_v1 := b_v1 c; b_vm := b_vm c; b_jm := x; b_am := b_am c; b_dm := b_dm c |}.
  Definition b_set_am (x : T) (c : bell) : bell :=
    {| b_t := b_t c; b_tv := b_tv c; b_ta := b_ta c; b_td := b_td c; b_taj := b_taj c; b_tdj := b_tdj c; b_p0 := b_p0 c; b_p1 := b_p1 c; b_v0 := b_v0 c; b_v1 := b_v1 c; b_vm := b_vm c; b_jm := b_jm c; b_am := x; b_dm := b_dm c |}.
  Definition b_set_dm (x : T) (c : bell) : bell :=
    {| b_t := b_t c; b_tv := b_tv c; b_ta := b_ta c; b_td := b_td c; b_taj := b_taj c; b_tdj := b_tdj c; b_p0 := b_p0 c; b_p1 := b_p1 c; b_v0 := b_v0 c; b_v1 := b_v1 c; b_vm := b_vm c; b_jm := b_jm c; b_am := b_am c; b_dm := x |}.
End Setters.

(* how a_trajbell_gen left: through `exit` after the cruise test (with which of the two limit tests true), through the
   loop (which acceptance), or through `fail` *)
Inductive bell_exit :=
  | BX_cruise (acc_tri dec_tri : bool)   (* tv > 0; acc_tri: a_max not reached in the acceleration phase, etc. *)
  | BX_both                               (* loop: ta >= 2tj and td >= 2tj accepted *)
  | BX_noacc                              (* loop: ta < 0 accepted, deceleration only *)
  | BX_nodec                              (* loop: td < 0 accepted, acceleration only *)
  | BX_fail_noacc | BX_fail_nodec         (* negative discriminant in a single-phase case *)
  | BX_fail_loop                          (* loop condition ac > epsilon became false *)
  | BX_fail_zero                          (* a limit is zero (fix b8b7c64) *)
  | BX_out_of_fuel.

Section Model.
  Context {T : Type} (O : NumOps T).
  Local Notation "x + y" := (add O x y) (at level 50, left associativity).
  Local Notation "x - y" := (sub O x y) (at level 50, left associativity).
  Local Notation "x * y" := (mul O x y) (at level 40, left associativity).
  Local Notation "x / y" := (div O x y) (at level 40, left associativity).
  Local Notation "- x" := (opp O x) (at level 35, right associativity).
  Local Notation "# z" := (ofZ O z%Z) (at level 0, z at level 0).
  Local Notation "x <? y" := (ltb O x y) (at level 70, no associativity).
  Local Notation "x <=? y" := (leb O x y) (at level 70, no associativity).
  Local Notation "x >? y" := (gtb O x y) (at level 70, no associativity).
  Local Notation "x >=? y" := (geb O x y) (at level 70, no associativity).
  Local Notation "x ==? y" := (eqb O x y) (at level 70, no associativity).
  Local Notation half := (half O).
  Local Notation sat := (sat O).

  Definition sixteenth : T := ofD O 1 (-4).                 (* A_REAL_C(0.0625) *)
  Definition epsilon : T := ofD O 1 (-52).                  (* A_REAL_EPSILON = DBL_EPSILON (A_SIZE_REAL 8) *)

  Inductive step_res :=
    | SExit (c : bell T) (k : bell_exit)
    | SFail (c : bell T) (k : bell_exit)
    | SCont (c : bell T) (am ac : T).

  (* one pass through the body of the do-while, src/trajbell.c:68-132.  jm, p, v0, v1 are the (mirrored) locals, which
     the loop does not change; the locals _2v0, _2v1, v0pv1, _2v02pv12 computed before the loop are pure functions of
     them and are recomputed here. *)
  Definition bell_step (jm p v0 v1 : T) (c : bell T) (am ac : T) : step_res :=
    let _2v0 := #2 * v0 in
    let _2v1 := #2 * v1 in
    let v0pv1 := v0 + v1 in
    let _2v02pv12 := #2 * (v0 * v0 + v1 * v1) in
    let tj := am / jm in
    let _2tj := #2 * tj in
    let c := b_set_taj tj c in
    let c := b_set_tdj tj c in
    let _tmp := am * tj in
    let temp := _tmp * _tmp + _2v02pv12 + (#4 * p - _2tj * v0pv1) * am in
    let _tmp := _tmp + sqrt O temp in
    let temp := #2 * am in
    let c := b_set_ta ((_tmp - _2v0) / temp) c in
    let accept := orb (am ==? b_am c) (ac <? b_dm c) in
    if b_ta c <? #0 then
      if accept then
        let c := b_set_ta #0 c in
        let c := b_set_taj #0 c in
        let c := b_set_td (#2 * p / v0pv1) c in
        let _tmp := jm * p in
        let temp := jm * (_tmp * p + (v1 - v0) * v0pv1 * v0pv1) in
        if temp <? #0 then SFail c BX_fail_noacc else
        let c := b_set_tdj ((_tmp - sqrt O temp) / (jm * v0pv1)) c in
        let c := b_set_am #0 c in
        let c := b_set_dm (- jm * b_tdj c) c in
        let c := b_set_vm v0 c in
        SExit c BX_noacc
      else
        let ac := ac * half in
        SCont c (am + ac) ac
    else
    let c := b_set_td ((_tmp - _2v1) / temp) c in
    if b_td c <? #0 then
      if accept then
        let c := b_set_td #0 c in
        let c := b_set_tdj #0 c in
        let c := b_set_ta (#2 * p / v0pv1) c in
        let _tmp := jm * p in
        let temp := jm * (_tmp * p + (v0 - v1) * v0pv1 * v0pv1) in
        if temp <? #0 then SFail c BX_fail_nodec else
        let c := b_set_taj ((_tmp - sqrt O temp) / (jm * v0pv1)) c in
        let c := b_set_am (jm * b_taj c) c in
        let c := b_set_dm #0 c in
        let c := b_set_vm (v0 + b_am c * (b_ta c - b_taj c)) c in
        SExit c BX_nodec
      else
        let ac := ac * half in
        SCont c (am + ac) ac
    else
    if andb (b_ta c >=? _2tj) (b_td c >=? _2tj) then
      if accept then
        let c := b_set_am am c in
        let c := b_set_dm (- am) c in
        let c := b_set_vm (v0 + b_am c * (b_ta c - tj)) c in
        SExit c BX_both
      else
        let ac := ac * half in
        SCont c (am + ac) ac
    else
      let ac := ac * half in
      SCont c (am - ac) ac.

  Inductive loop_res := LExit (c : bell T) (k : bell_exit) (n : nat) | LFail (c : bell T) (k : bell_exit) (n : nat).

  (* n counts completed passes (bookkeeping only) *)
  Fixpoint bell_loop (fuel : nat) (n : nat) (jm p v0 v1 : T) (c : bell T) (am ac : T) : loop_res :=
    match fuel with
    | 0%nat => LFail c BX_out_of_fuel n
    | S f =>
        match bell_step jm p v0 v1 c am ac with
        | SExit c k => LExit c k (S n)
        | SFail c k => LFail c k (S n)
        | SCont c am ac =>
            if ac >? epsilon then bell_loop f (S n) jm p v0 v1 c am ac      (* while (ac > A_REAL_EPSILON) *)
            else LFail c BX_fail_loop (S n)
        end
    end.

  (* a_trajbell_gen, src/trajbell.c:8-140.  Result: (context, return value, how it left, loop passes). *)
  Definition bell_gen_b (fuel : nat) (c : bell T) (jm am vm p0 p1 v0 v1 : T) : bell T * T * bell_exit * nat :=
    let jm := if jm <? #0 then - jm else jm in
    let am := if am <? #0 then - am else am in
    let vm := if vm <? #0 then - vm else vm in
    if orb (jm ==? #0) (orb (am ==? #0) (vm ==? #0))        (* a zero limit allows no motion: goto fail (fix b8b7c64) *)
    then (b_set_t #0 c, #0, BX_fail_zero, 0%nat) else
    let v0 := sat v0 (- vm) vm in
    let v1 := sat v1 (- vm) vm in
    let c := b_set_p0 p0 c in
    let c := b_set_p1 p1 c in
    let c := b_set_v0 v0 c in
    let c := b_set_v1 v1 c in
    let rev := p0 >? p1 in
    let p0 := if rev then - p0 else p0 in
    let p1 := if rev then - p1 else p1 in
    let v0 := if rev then - v0 else v0 in
    let v1 := if rev then - v1 else v1 in
    let c := b_set_vm vm c in
    let c := b_set_jm jm c in
    let _tmp := am * am in
    let _2v0 := vm - v0 in
    let acc_tri := _2v0 * jm <? _tmp in
    let c :=
      if acc_tri then
        let c := b_set_taj (sqrt O (_2v0 / jm)) c in
        let c := b_set_ta (#2 * b_taj c) c in
        b_set_am (jm * b_taj c) c
      else
        let c := b_set_taj (am / jm) c in
        let c := b_set_ta (b_taj c + _2v0 / am) c in
        b_set_am am c in
    let _2v1 := vm - v1 in
    let dec_tri := _2v1 * jm <? _tmp in
    let c :=
      if dec_tri then
        let c := b_set_tdj (sqrt O (_2v1 / jm)) c in
        let c := b_set_td (#2 * b_tdj c) c in
        b_set_dm (- jm * b_tdj c) c
      else
        let c := b_set_tdj (am / jm) c in
        let c := b_set_td (b_tdj c + _2v1 / am) c in
        b_set_dm (- am) c in
    let p := p1 - p0 in
    let c := b_set_tv (p / vm - half * b_ta c * (#1 + v0 / vm) - half * b_td c * (#1 + v1 / vm)) c in
    let do_exit (c : bell T) (k : bell_exit) (n : nat) :=
      let c := b_set_t (b_ta c + b_tv c + b_td c) c in (c, b_t c, k, n) in
    let do_fail (c : bell T) (k : bell_exit) (n : nat) :=
      let c := b_set_t #0 c in (c, #0, k, n) in
    if b_tv c >? #0 then do_exit c (BX_cruise acc_tri dec_tri) 0%nat else
    let c := b_set_tv #0 c in
    let ac := am in
    let c := b_set_am ac c in
    let c := b_set_dm (ac * sixteenth) c in
    match bell_loop fuel 0%nat jm p v0 v1 c am ac with
    | LExit c k n => do_exit c k n
    | LFail c k n => do_fail c k n
    end.

  Definition bell_gen (fuel : nat) (c : bell T) (jm am vm p0 p1 v0 v1 : T) : bell T * T :=
    fst (fst (bell_gen_b fuel c jm am vm p0 p1 v0 v1)).

  (* a_trajbell_pos, src/trajbell.c:142-202 *)
  Definition bell_pos (c : bell T) (x : T) : T :=
    let rev := b_p0 c >? b_p1 c in
    let p0 := if rev then - b_p0 c else b_p0 c in
    let p1 := if rev then - b_p1 c else b_p1 c in
    let v0 := if rev then - b_v0 c else b_v0 c in
    let v1 := if rev then - b_v1 c else b_v1 c in
    let fin (y : T) := if rev then - y else y in
    if x <? b_ta c then
      if x <? b_taj c then
        if x <=? #0 then b_p0 c
        else fin (p0 + v0 * x + b_jm c * x * x * x / #6)
      else if x <? b_ta c - b_taj c then
        fin (p0 + v0 * x + b_am c * (#3 * x * x - #3 * x * b_taj c + b_taj c * b_taj c) / #6)
      else
        let x := b_ta c - x in
        fin (p0 + half * (b_vm c + v0) * b_ta c - b_vm c * x + b_jm c * x * x * x / #6)
    else if x <? b_t c - b_td c + b_tdj c then
      if x <? b_ta c + b_tv c then
        fin (p0 + half * (b_vm c + v0) * b_ta c + b_vm c * (x - b_ta c))
      else
        let x := x - (b_t c - b_td c) in
        fin (p1 - half * (b_vm c + v1) * b_td c + b_vm c * x - b_jm c * x * x * x / #6)
    else if x <? b_t c then
      if x <? b_t c - b_tdj c then
        let x := x - (b_t c - b_td c) in
        fin (p1 - half * (b_vm c + v1) * b_td c + b_vm c * x +
             b_dm c * (#3 * x * x - #3 * x * b_tdj c + b_tdj c * b_tdj c) / #6)
      else
        let x := b_t c - x in
        fin (p1 - v1 * x - b_jm c * x * x * x / #6)
    else b_p1 c.

  (* a_trajbell_vel, src/trajbell.c:204-258 *)
  Definition bell_vel (c : bell T) (x : T) : T :=
    let rev := b_p0 c >? b_p1 c in
    let v0 := if rev then - b_v0 c else b_v0 c in
    let v1 := if rev then - b_v1 c else b_v1 c in
    let fin (y : T) := if rev then - y else y in
    if x <? b_ta c then
      if x <? b_taj c then
        if x <=? #0 then b_v0 c
        else fin (v0 + half * b_jm c * x * x)
      else if x <? b_ta c - b_taj c then
        fin (v0 + b_am c * (x - half * b_taj c))
      else
        let x := b_ta c - x in
        fin (b_vm c - half * b_jm c * x * x)
    else if x <? b_t c - b_td c + b_tdj c then
      if x <? b_ta c + b_tv c then fin (b_vm c)
      else
        let x := x - (b_t c - b_td c) in
        fin (b_vm c - half * b_jm c * x * x)
    else if x <? b_t c then
      if x <? b_t c - b_tdj c then
        fin (b_vm c + b_dm c * (x - b_t c + b_td c - half * b_tdj c))
      else
        let x := b_t c - x in
        fin (v1 + half * b_jm c * x * x)
    else b_v1 c.

  (* a_trajbell_acc, src/trajbell.c:260-306 *)
  Definition bell_acc (c : bell T) (x : T) : T :=
    let fin (y : T) := if b_p0 c >? b_p1 c then - y else y in
    if x <? b_ta c then
      if x >=? b_taj c then
        if x <? b_ta c - b_taj c then fin (b_am c)
        else fin (b_jm c * (b_ta c - x))
      else if x >? #0 then fin (b_jm c * x)
      else #0
    else if x <? b_t c - b_td c + b_tdj c then
      if x >=? b_ta c + b_tv c then fin (- b_jm c * (x - b_t c + b_td c))
      else #0
    else if x <? b_t c then
      if x <? b_t c - b_tdj c then fin (b_dm c)
      else fin (- b_jm c * (b_t c - x))
    else #0.

  (* a_trajbell_jer, src/trajbell.c:308-347 *)
  Definition bell_jer (c : bell T) (x : T) : T :=
    let fin (y : T) := if b_p0 c >? b_p1 c then - y else y in
    if x <? b_ta c then
      if x >=? b_ta c - b_taj c then fin (- b_jm c)
      else if andb (x <? b_taj c) (x >=? #0) then fin (b_jm c)
      else #0
    else if x <? b_t c - b_td c + b_tdj c then
      if x >=? b_ta c + b_tv c then fin (- b_jm c)
      else #0
    else if x <=? b_t c then
      if x >=? b_t c - b_tdj c then fin (b_jm c)
      else #0
    else #0.

  (* flat views used by the correspondence run *)
  Definition bell_fields (c : bell T) : list T :=
    [b_t c; b_tv c; b_ta c; b_td c; b_taj c; b_tdj c; b_p0 c; b_p1 c; b_v0 c; b_v1 c; b_vm c; b_jm c; b_am c; b_dm c].
  Definition bell_of (l : list T) : bell T :=
    let g i := nth i l #0 in
    mk_bell (g 0%nat) (g 1%nat) (g 2%nat) (g 3%nat) (g 4%nat) (g 5%nat) (g 6%nat) (g 7%nat) (g 8%nat) (g 9%nat)
            (g 10%nat) (g 11%nat) (g 12%nat) (g 13%nat).
  Definition bell_exit_code (k : bell_exit) : Z :=
    match k with
    | BX_cruise a d => (if a then 1 else 0) + (if d then 2 else 0)
    | BX_both => 4 | BX_noacc => 5 | BX_nodec => 6 | BX_fail_noacc => 7 | BX_fail_nodec => 8
    | BX_fail_loop => 9 | BX_out_of_fuel => 10 | BX_fail_zero => 11
    end%Z.
  Definition bell_fuel : nat := (40 * 30)%nat.
  (* one line of the correspondence: return value, the 14 fields; then exit code and pass count (model only) *)
  Definition bell_gen_line (c0 : list T) (jm am vm p0 p1 v0 v1 : T) : list T :=
    let '(c, r, k, n) := bell_gen_b bell_fuel (bell_of c0) jm am vm p0 p1 v0 v1 in
    r :: bell_fields c ++ [ofZ O (bell_exit_code k); ofZ O (Z.of_nat n)].
  Definition bell_eval_line (c : list T) (xs : list T) : list T :=
    let c := bell_of c in
    flat_map (fun x => [bell_pos c x; bell_vel c x; bell_acc c x; bell_jer c x]) xs.
End Model.
