(* C14: the two layers put together - what a positive result of the generators guarantees about the motion that
   pos/vel/acc(/jer) then evaluate - and non-vacuity examples (concrete requests on which the generators return t > 0). *)
From Coq Require Import Reals ZArith List Lra Lia Bool Psatz.
From Coquelicot Require Import Coquelicot.
From LibaV Require Import Common.NumOps Common.ROps C14.TrapDefs C14.BellDefs C14.TrapProofs C14.TrapGenProofs
  C14.BellProofs C14.BellGenProofs.
Local Open Scope R_scope.

(* phase durations of a well-formed trapezoid context are non-negative and add up to the total *)
Lemma trap_durations vm c : WFtrap vm c ->
  0 <= t_ta c /\ 0 <= t_td c - t_ta c /\ 0 <= t_t c - t_td c /\ t_t c = t_ta c + (t_td c - t_ta c) + (t_t c - t_td c).
Proof. intros [H1 H2 H3 _ _ _ _ _ _ _ _]. lra. Qed.

Definition trap_motion (vm p0 p1 v0 : R) (c : trapR) (t : R) : Prop :=
  t = t_t c /\
  trap_pos R_ops c 0 = p0 /\ trap_vel R_ops c 0 = clampR v0 vm /\
  trap_pos R_ops c t = p1 /\ trap_vel R_ops c t = t_v1 c /\ Rabs (t_v1 c) <= Rabs vm /\
  (0 <= t_ta c /\ 0 <= t_td c - t_ta c /\ 0 <= t - t_td c) /\
  (forall x, Rabs (trap_vel R_ops c x) <= Rabs vm) /\
  (forall x, continuous (trap_pos R_ops c) x /\ continuous (trap_vel R_ops c) x) /\
  (forall x, x <= 0 -> trap_pos R_ops c x = p0 /\ trap_vel R_ops c x = clampR v0 vm) /\
  (forall x, t <= x -> trap_pos R_ops c x = p1 /\ trap_vel R_ops c x = t_v1 c) /\
  (forall x, 0 < x < t -> is_derive (trap_pos R_ops c) x (trap_vel R_ops c x)).

Theorem trap_gen_motion c0 vm ac de p0 p1 v0 v1 :
  trap_feasible ac de p0 p1 ->
  let '(c, t, b) := trap_gen_b R_ops c0 vm ac de p0 p1 v0 v1 in
  0 < t -> trap_motion vm p0 p1 v0 c t /\ (b = TB_cruise \/ b = TB_accdec -> t_v1 c = clampR v1 vm).
Proof.
  intros Hf. pose proof (trap_gen_wf c0 vm ac de p0 p1 v0 v1 Hf) as H.
  destruct (trap_gen_b R_ops c0 vm ac de p0 p1 v0 v1) as [[c t] b]. unfold trap_gen_post in H.
  intros Ht. destruct (H Ht) as (WF & Et & E0 & E1 & Ev0 & _ & _ & Ev1 & _ & _).
  split; [|exact Ev1]. unfold trap_motion. rewrite Et.
  destruct (trap_start_end _ _ WF) as (S1 & S2 & S3 & S4).
  destruct (trap_durations _ _ WF) as (D1 & D2 & D3 & _).
  rewrite <- E0, <- E1, <- Ev0.
  split; [reflexivity|]. do 4 (split; [assumption|]).
  split; [apply WF|]. split; [lra|].
  split; [intros x; apply (trap_vel_bound _ _ _ WF)|].
  split; [intros x; apply (trap_continuous _ _ x WF)|].
  split; [intros x Hx; apply (trap_hold_before _ _ _ WF Hx)|].
  split; [intros x Hx; apply (trap_hold_after _ _ _ WF Hx)|].
  intros x Hx. apply (trap_vel_is_derivative _ _ _ WF Hx).
Qed.

Definition bell_motion (jm am vm p0 p1 v0 v1 : R) (c : bellR) (t : R) : Prop :=
  t = b_t c /\
  bell_pos R_ops c 0 = p0 /\ bell_vel R_ops c 0 = clampR v0 vm /\ bell_acc R_ops c 0 = 0 /\
  bell_pos R_ops c t = p1 /\ bell_vel R_ops c t = clampR v1 vm /\ bell_acc R_ops c t = 0 /\
  (0 <= b_taj c /\ 0 <= b_ta c - 2 * b_taj c /\ 0 <= b_tv c /\ 0 <= b_tdj c /\ 0 <= b_td c - 2 * b_tdj c /\
   t = b_taj c + (b_ta c - 2 * b_taj c) + b_taj c + b_tv c + b_tdj c + (b_td c - 2 * b_tdj c) + b_tdj c) /\
  (forall x, Rabs (bell_vel R_ops c x) <= Rabs vm /\ Rabs (bell_acc R_ops c x) <= Rabs am /\
             Rabs (bell_jer R_ops c x) <= Rabs jm) /\
  (forall x, continuous (bell_pos R_ops c) x /\ continuous (bell_vel R_ops c) x /\ continuous (bell_acc R_ops c) x) /\
  (forall x, x <= 0 -> bell_pos R_ops c x = p0 /\ bell_vel R_ops c x = clampR v0 vm /\ bell_acc R_ops c x = 0) /\
  (forall x, t <= x -> bell_pos R_ops c x = p1 /\ bell_vel R_ops c x = clampR v1 vm /\ bell_acc R_ops c x = 0) /\
  (forall x, 0 < x < t -> is_derive (bell_pos R_ops c) x (bell_vel R_ops c x) /\
                          is_derive (bell_vel R_ops c) x (bell_acc R_ops c x)) /\
  (forall k x, (1 <= k <= 7)%nat -> bnd c (k - 1) < x < bnd c k -> is_derive (bell_acc R_ops c) x (bell_jer R_ops c x)).

Theorem bell_gen_motion fuel c0 jm am vm p0 p1 v0 v1 :
  bell_feasible jm am vm p0 p1 v0 v1 ->
  let '(c, t, k, n) := bell_gen_b R_ops fuel c0 jm am vm p0 p1 v0 v1 in
  0 < t -> bell_motion jm am vm p0 p1 v0 v1 c t.
Proof.
  intros Hf. pose proof (bell_gen_wf fuel c0 jm am vm p0 p1 v0 v1) as H.
  destruct (bell_gen_b R_ops fuel c0 jm am vm p0 p1 v0 v1) as [[[c t] k] n]. unfold bell_gen_post in H.
  intros Ht. destruct (H Ht) as (Et & E0 & E1 & Ev0 & Ev1 & Ej & WF & L0 & L1 & Lm & La).
  destruct (La (or_intror Hf)) as [La1 La2].
  assert (WL : WFlim (Rabs vm) (Rabs am) c) by (constructor; assumption).
  unfold bell_motion. rewrite Et.
  destruct (bell_start_end _ WF) as (S1 & S2 & S3 & S4 & S5 & S6).
  rewrite <- E0, <- E1, <- Ev0, <- Ev1, <- Ej.
  split; [reflexivity|]. do 6 (split; [assumption|]).
  split; [apply (bell_durations _ WF)|].
  split; [intros x; apply (bell_limits _ _ _ x WF WL)|].
  split; [intros x; apply (bell_continuous _ x WF)|].
  split; [intros x Hx; apply (bell_hold _ x WF); assumption|].
  split; [intros x Hx; apply (bell_hold _ x WF); assumption|].
  split; [intros x Hx; apply (bell_derivatives _ x WF Hx)|].
  intros j x Hj Hx. apply (bell_jerk_derivative _ j x WF Hj Hx).
Qed.

(* ------------------------------------------------------------------------------------------------ non-vacuity *)
Definition trap0 : trapR := mk_trap 0 0 0 0 0 0 0 0 0 0 0 0.

(* a concrete well-formed trapezoid context (the one the generator produces for the request of trap_gen_ex below), and its
   mirror image for the other direction of travel *)
Example trap_ex_wf :
  WFtrap 1 (mk_trap 3 0 2 0 0 1 1 2 (1/2) (3/2) 1 (-1)) /\ WFtrap 1 (mk_trap 3 0 (-2) 0 0 (-1) 1 2 (-1/2) (-3/2) (-1) 1).
Proof.
  split; constructor; cbn [t_t t_p0 t_p1 t_v0 t_v1 t_vc t_ta t_td t_pa t_pd t_ac t_de]; unfold Rsqr;
    try (apply Rabs_le); lra.
Qed.

(* decide every comparison between concrete numbers in the goal *)
Ltac decide_cmp :=
  repeat (match goal with
          | |- context [Rltb ?a ?b] =>
              first [ assert (a < b) by lra; destruct (Rltb_spec a b); [|exfalso; lra]
                    | assert (~ a < b) by lra; destruct (Rltb_spec a b); [exfalso; lra|] ]
          | |- context [Rleb ?a ?b] =>
              first [ assert (a <= b) by lra; destruct (Rleb_spec a b); [|exfalso; lra]
                    | assert (~ a <= b) by lra; destruct (Rleb_spec a b); [exfalso; lra|] ]
          | |- context [Reqb ?a ?b] =>
              first [ assert (a = b) by lra; destruct (Reqb_spec a b); [|exfalso; lra]
                    | assert (a <> b) by lra; destruct (Reqb_spec a b); [exfalso; lra|] ]
          end; cbv iota).

(* vm = 1, ac = 1, de = -1, from rest at 0 to rest at 2: accelerate 1 s, cruise 1 s, decelerate 1 s *)
Example trap_gen_ex :
  trap_feasible 1 (-1) 0 2 /\
  let '(c, t, b) := trap_gen_b R_ops trap0 1 1 (-1) 0 2 0 0 in t = 3 /\ b = TB_cruise.
Proof.
  split; [left; lra|].
  cbv beta zeta iota delta [trap_gen_b trap0 sat t_set_t t_set_p0 t_set_p1 t_set_v0 t_set_v1 t_set_vc t_set_ta t_set_td
     t_set_pa t_set_pd t_set_ac t_set_de t_t t_p0 t_p1 t_v0 t_v1 t_vc t_ta t_td t_pa t_pd t_ac t_de].
  unfold_ops. rewrite ?half_R.
  decide_cmp.
  cbv beta zeta iota delta [t_set_t t_set_p0 t_set_p1 t_set_v0 t_set_v1 t_set_vc t_set_ta t_set_td
     t_set_pa t_set_pd t_set_ac t_set_de t_t t_p0 t_p1 t_v0 t_v1 t_vc t_ta t_td t_pa t_pd t_ac t_de].
  split; [field; lra|reflexivity].
Qed.

(* jm = am = vm = 1, from rest at 0 to rest at 3: feasible, and the generator returns 5 s with a 1 s cruise phase *)
Example bell_gen_ex :
  bell_feasible 1 1 1 0 3 0 0 /\
  let '(c, t, k, n) := bell_gen_b R_ops 0 bell_ex 1 1 1 0 3 0 0 in t = 5 /\ k = BX_cruise false false.
Proof.
  assert (A1 : Rabs 1 = 1) by (apply Rabs_right; lra).
  assert (C0 : clampR 0 1 = 0) by (unfold clampR; rewrite A1; apply sat_id; lra).
  split.
  - unfold bell_feasible, feasible_std. rewrite C0, A1.
    destruct (Rltb_spec 3 0); [exfalso; lra|]. replace (0 - 0) with 0 by ring. rewrite Rabs_R0.
    destruct (Rltb_spec (0 * 1) (1 * 1)); [|exfalso; lra]. lra.
  - rewrite bell_gen_core. cbv zeta. unfold bell_ex, sat. core_unfold. unfold_ops. rewrite ?half_R.
    decide_cmp. core_unfold. decide_cmp. core_unfold.
    split; [field; lra|reflexivity].
Qed.
