(* C14, bell-shaped (double-S) velocity profile: evaluation layer.  Everything here follows from the well-formedness
   predicate WFbell on the context ALONE (it does not matter how the context was planned): the seven polynomial pieces
   of pos/vel/acc coincide with the C's decision tree on the CLOSED phase intervals (hence continuity at every phase
   boundary), start/end state, hold outside [0,T], vel is the derivative of pos and acc of vel on (0,T), jer of acc
   inside the phases, and the limits |vel|<=VM, |acc|<=AM, |jer|<=jm at every query time.  Both directions of travel:
   the C mirrors p0,p1,v0,v1 when p0 > p1; `mirror` does the same to the context and the theorems are transported. *)
From Coq Require Import Reals ZArith List Lra Lia Bool Psatz.
From Coquelicot Require Import Coquelicot.
From LibaV Require Import Common.NumOps Common.ROps C14.TrapDefs C14.BellDefs C14.DeriveGlue C14.TrapProofs.
Import ListNotations.
Local Open Scope R_scope.

Notation bellR := (bell R).

Ltac bcbn := cbn [b_t b_tv b_ta b_td b_taj b_tdj b_p0 b_p1 b_v0 b_v1 b_vm b_jm b_am b_dm] in *.

(* ------------------------------------------------------------------------------------------------ well-formedness *)
(* the context seen in the direction of travel (what the C does to p0, p1, v0, v1 when p0 > p1) *)
Definition mirror (c : bellR) : bellR :=
  mk_bell (b_t c) (b_tv c) (b_ta c) (b_td c) (b_taj c) (b_tdj c) (- b_p0 c) (- b_p1 c) (- b_v0 c) (- b_v1 c)
          (b_vm c) (b_jm c) (b_am c) (b_dm c).
Definition bnorm (c : bellR) : bellR := if Rltb (b_p1 c) (b_p0 c) then mirror c else c.

(* a forward (p0 <= p1) context: phase durations non-negative and summing to t, the hand-over equations *)
Record WFfwd (c : bellR) : Prop := {
  wb_dir : b_p0 c <= b_p1 c;
  wb_jm  : 0 <= b_jm c;
  wb_taj : 0 <= b_taj c;
  wb_ta  : 2 * b_taj c <= b_ta c;
  wb_tdj : 0 <= b_tdj c;
  wb_td  : 2 * b_tdj c <= b_td c;
  wb_tv  : 0 <= b_tv c;
  wb_t   : b_t c = b_ta c + b_tv c + b_td c;
  wb_am  : b_am c = b_jm c * b_taj c;
  wb_dm  : b_dm c = - b_jm c * b_tdj c;
  wb_vm  : b_vm c = b_v0 c + b_am c * (b_ta c - b_taj c);
  wb_v1  : b_v1 c = b_vm c + b_dm c * (b_td c - b_tdj c);
  wb_p1  : b_p1 c - b_p0 c = (b_v0 c + b_vm c) * b_ta c / 2 + b_vm c * b_tv c + (b_vm c + b_v1 c) * b_td c / 2 }.

Definition WFbell (c : bellR) : Prop := WFfwd (bnorm c).

(* the limits: VM, AM are the (absolute) velocity and acceleration limits of the request; the jerk limit is b_jm *)
Record WFlim (VM AM : R) (c : bellR) : Prop := {
  wl_v0 : Rabs (b_v0 c) <= VM;
  wl_v1 : Rabs (b_v1 c) <= VM;
  wl_vm : Rabs (b_vm c) <= VM;
  wl_am : b_am c <= AM;
  wl_dm : - b_dm c <= AM }.

(* ------------------------------------------------------------------------------------------------ the pieces *)
(* phase boundaries 0 = bnd 0 <= bnd 1 <= ... <= bnd 7 = t, written as the C computes them *)
Definition bnd (c : bellR) (k : nat) : R :=
  match k with
  | 0%nat => 0
  | 1%nat => b_taj c
  | 2%nat => b_ta c - b_taj c
  | 3%nat => b_ta c
  | 4%nat => b_ta c + b_tv c
  | 5%nat => b_t c - b_td c + b_tdj c
  | 6%nat => b_t c - b_tdj c
  | _ => b_t c
  end.

(* piece k is used on [bnd (k-1), bnd k]; piece 0 before the start, piece 8 after the end *)
Definition BP (c : bellR) (k : nat) (x : R) : R :=
  match k with
  | 0%nat => b_p0 c
  | 1%nat => b_p0 c + b_v0 c * x + b_jm c * (x * x * x) / 6
  | 2%nat => b_p0 c + b_v0 c * x + b_am c * (3 * (x * x) - 3 * x * b_taj c + b_taj c * b_taj c) / 6
  | 3%nat => b_p0 c + (b_vm c + b_v0 c) * b_ta c / 2 - b_vm c * (b_ta c - x)
             + b_jm c * ((b_ta c - x) * (b_ta c - x) * (b_ta c - x)) / 6
  | 4%nat => b_p0 c + (b_vm c + b_v0 c) * b_ta c / 2 + b_vm c * (x - b_ta c)
  | 5%nat => b_p1 c - (b_vm c + b_v1 c) * b_td c / 2 + b_vm c * (x - (b_t c - b_td c))
             - b_jm c * ((x - (b_t c - b_td c)) * (x - (b_t c - b_td c)) * (x - (b_t c - b_td c))) / 6
  | 6%nat => b_p1 c - (b_vm c + b_v1 c) * b_td c / 2 + b_vm c * (x - (b_t c - b_td c))
             + b_dm c * (3 * ((x - (b_t c - b_td c)) * (x - (b_t c - b_td c))) - 3 * (x - (b_t c - b_td c)) * b_tdj c
                         + b_tdj c * b_tdj c) / 6
  | 7%nat => b_p1 c - b_v1 c * (b_t c - x) - b_jm c * ((b_t c - x) * (b_t c - x) * (b_t c - x)) / 6
  | _ => b_p1 c
  end.

Definition BV (c : bellR) (k : nat) (x : R) : R :=
  match k with
  | 0%nat => b_v0 c
  | 1%nat => b_v0 c + b_jm c * (x * x) / 2
  | 2%nat => b_v0 c + b_am c * (x - b_taj c / 2)
  | 3%nat => b_vm c - b_jm c * ((b_ta c - x) * (b_ta c - x)) / 2
  | 4%nat => b_vm c
  | 5%nat => b_vm c - b_jm c * ((x - (b_t c - b_td c)) * (x - (b_t c - b_td c))) / 2
  | 6%nat => b_vm c + b_dm c * (x - b_t c + b_td c - b_tdj c / 2)
  | 7%nat => b_v1 c + b_jm c * ((b_t c - x) * (b_t c - x)) / 2
  | _ => b_v1 c
  end.

Definition BA (c : bellR) (k : nat) (x : R) : R :=
  match k with
  | 0%nat => 0
  | 1%nat => b_jm c * x
  | 2%nat => b_am c
  | 3%nat => b_jm c * (b_ta c - x)
  | 4%nat => 0
  | 5%nat => - b_jm c * (x - b_t c + b_td c)
  | 6%nat => b_dm c
  | 7%nat => - b_jm c * (b_t c - x)
  | _ => 0
  end.

Definition BJ (c : bellR) (k : nat) : R :=
  match k with
  | 1%nat => b_jm c | 3%nat => - b_jm c | 5%nat => - b_jm c | 7%nat => b_jm c | _ => 0
  end.

(* the closed region of piece k *)
Definition inreg (c : bellR) (k : nat) (x : R) : Prop :=
  match k with
  | 0%nat => x <= 0
  | S j => match j with
           | 7%nat => b_t c <= x
           | _ => bnd c j <= x <= bnd c (S j)
           end
  end.

(* ------------------------------------------------------------------------------------------------ piece lemmas *)
(* open a forward well-formed context: fresh variables for the gaps ta - 2 taj and td - 2 tdj, every derived field
   replaced by its defining expression; what is left is polynomial in p0 v0 jm taj g2 tv tdj g6 *)
Ltac open_fwd c H :=
  destruct c as [t tv ta td taj tdj p0 p1 v0 v1 vm jm am dm];
  destruct H as [Hdir Hjm Htaj Hta Htdj Htd Htv Ht Ham Hdm Hvm Hv1 Hp1];
  bcbn.

Ltac head_if :=
  repeat (match goal with
          | |- (if Rltb ?a ?b then _ else _) = _ => destruct (Rltb_spec a b)
          | |- (if Rleb ?a ?b then _ else _) = _ => destruct (Rleb_spec a b)
          end; try (exfalso; lra)).

Ltac gaps ta taj td tdj t Hta Htd :=
  let g2 := fresh "g2" in let g6 := fresh "g6" in
  let E2 := fresh "E2" in let E6 := fresh "E6" in
  assert (exists g2, ta = 2 * taj + g2 /\ 0 <= g2) as [g2 [E2 Hg2]] by (exists (ta - 2 * taj); lra);
  assert (exists g6, td = 2 * tdj + g6 /\ 0 <= g6) as [g6 [E6 Hg6]] by (exists (td - 2 * tdj); lra);
  subst ta td t.

Ltac zero_gap v := try (assert (v = 0) by lra; subst v).

Lemma bell_piece c k x : WFfwd c -> (k <= 8)%nat -> inreg c k x ->
  bell_pos R_ops c x = BP c k x /\ bell_vel R_ops c x = BV c k x /\ bell_acc R_ops c x = BA c k x.
Proof.
  intros H Hk Hx. open_fwd c H.
  unfold bell_pos, bell_vel, bell_acc. bcbn. unfold_ops. rewrite ?half_R.
  destruct (Rltb_spec p1 p0) as [?|_]; [exfalso; lra|].
  assert (exists g2, ta = 2 * taj + g2 /\ 0 <= g2) as [g2 [E2 Hg2]] by (exists (ta - 2 * taj); lra).
  assert (exists g6, td = 2 * tdj + g6 /\ 0 <= g6) as [g6 [E6 Hg6]] by (exists (td - 2 * tdj); lra).
  subst ta td t.
  assert (Hp1' : p1 = p0 + ((v0 + vm) * (2 * taj + g2) / 2 + vm * tv + (vm + v1) * (2 * tdj + g6) / 2)) by lra.
  clear Hp1 Hdir.
  destruct k as [|[|[|[|[|[|[|[|[|k]]]]]]]]]; try (exfalso; lia); clear Hk;
    unfold inreg, bnd, BP, BV, BA in *; bcbn.
  all: repeat split; head_if.
  all: subst p1 v1 vm am dm.
  all: try (field; fail).
  all: first [ assert (x = 0) by lra
             | assert (x = taj) by lra
             | assert (x = taj + g2) by lra
             | assert (x = 2 * taj + g2) by lra
             | assert (x = 2 * taj + g2 + tv) by lra
             | assert (x = 2 * taj + g2 + tv + tdj) by lra
             | assert (x = 2 * taj + g2 + tv + tdj + g6) by lra
             | assert (x = 2 * taj + g2 + tv + 2 * tdj + g6) by lra ]; subst x.
  all: zero_gap taj; zero_gap g2; zero_gap tv; zero_gap tdj; zero_gap g6.
  all: try (field; fail).
Qed.

(* ------------------------------------------------------------------------------------------------ jerk inside the phases *)
Ltac head_if_and :=
  repeat (match goal with
          | |- (if Rltb ?a ?b then _ else _) = _ => destruct (Rltb_spec a b)
          | |- (if Rleb ?a ?b then _ else _) = _ => destruct (Rleb_spec a b)
          | |- (if (Rltb ?a ?b && _)%bool then _ else _) = _ => destruct (Rltb_spec a b); cbn [andb]
          | |- (if (Rleb ?a ?b && _)%bool then _ else _) = _ => destruct (Rleb_spec a b); cbn [andb]
          end; try (exfalso; lra)).

Lemma bell_jer_piece c k x : WFfwd c -> (1 <= k <= 7)%nat -> bnd c (k - 1) < x < bnd c k ->
  bell_jer R_ops c x = BJ c k.
Proof.
  intros H Hk Hx. open_fwd c H.
  unfold bell_jer. bcbn. unfold_ops.
  destruct (Rltb_spec p1 p0) as [?|_]; [exfalso; lra|].
  subst t. clear Hp1 Hvm Hv1 Ham Hdm.
  destruct k as [|[|[|[|[|[|[|[|k]]]]]]]]; try (exfalso; lia); clear Hk;
    unfold bnd, BJ in *; cbn [Nat.sub] in Hx; bcbn; head_if_and; lra.
Qed.

Lemma bell_jer_outside c x : WFfwd c -> x < 0 \/ b_t c < x -> bell_jer R_ops c x = 0.
Proof.
  intros H Hx. open_fwd c H.
  unfold bell_jer. bcbn. unfold_ops.
  destruct (Rltb_spec p1 p0) as [?|_]; [exfalso; lra|].
  subst t. clear Hp1 Hvm Hv1 Ham Hdm.
  destruct Hx; head_if_and; lra.
Qed.

(* the jerk output is one of +jm, -jm, 0 at every query time, on ANY context *)
Lemma bell_jer_values c x :
  bell_jer R_ops c x = b_jm c \/ bell_jer R_ops c x = - b_jm c \/ bell_jer R_ops c x = 0.
Proof.
  unfold bell_jer. unfold_ops.
  repeat (match goal with |- context [if ?b then _ else _] => destruct b end; cbv iota);
    rewrite ?Ropp_involutive, ?Ropp_0; auto.
Qed.

(* ------------------------------------------------------------------------------------------------ derivatives of the pieces *)
Lemma BP_derive c k x : (1 <= k <= 7)%nat -> is_derive (BP c k) x (BV c k x).
Proof.
  intros Hk. destruct k as [|[|[|[|[|[|[|[|k]]]]]]]]; try (exfalso; lia);
    unfold BP, BV; auto_derive; try exact I; field.
Qed.

Lemma BV_derive c k x : is_derive (BV c k) x (BA c k x).
Proof.
  destruct k as [|[|[|[|[|[|[|[|k]]]]]]]]; unfold BV, BA; auto_derive; try exact I; field.
Qed.

Lemma BA_derive c k x : is_derive (BA c k) x (BJ c k).
Proof.
  destruct k as [|[|[|[|[|[|[|[|k]]]]]]]]; unfold BA, BJ; auto_derive; try exact I; field.
Qed.

Lemma BP_cont c k x : continuous (BP c k) x.
Proof.
  apply (ex_derive_continuous (BP c k) x).
  destruct k as [|[|[|[|[|[|[|[|k]]]]]]]]; unfold BP; auto_derive; exact I.
Qed.
Lemma BV_cont c k x : continuous (BV c k) x.
Proof. apply (ex_derive_continuous (BV c k) x). eexists. apply BV_derive. Qed.
Lemma BA_cont c k x : continuous (BA c k) x.
Proof. apply (ex_derive_continuous (BA c k) x). eexists. apply BA_derive. Qed.

(* ------------------------------------------------------------------------------------------------ neighbourhoods *)
Ltac pick k d :=
  exists k; split; [lia|split; [intros; try lia; exfalso; lra|split; [intros; try lia; exfalso; lra|
    exists d; split; [lra|intros y Hy; unfold inreg, bnd; bcbn; lra]]]].

Lemma left_nbhd c x : WFfwd c ->
  exists k, (k <= 8)%nat /\ (0 < x -> (1 <= k)%nat) /\ (x <= b_t c -> (k <= 7)%nat) /\
            exists d, 0 < d /\ forall y, x - d < y <= x -> inreg c k y.
Proof.
  intros H. open_fwd c H. subst t.
  destruct (Rle_dec x 0); [pick 0%nat 1|].
  destruct (Rle_dec x taj); [pick 1%nat x|].
  destruct (Rle_dec x (ta - taj)); [pick 2%nat (x - taj)|].
  destruct (Rle_dec x ta); [pick 3%nat (x - (ta - taj))|].
  destruct (Rle_dec x (ta + tv)); [pick 4%nat (x - ta)|].
  destruct (Rle_dec x (ta + tv + tdj)); [pick 5%nat (x - (ta + tv))|].
  destruct (Rle_dec x (ta + tv + td - tdj)); [pick 6%nat (x - (ta + tv + tdj))|].
  destruct (Rle_dec x (ta + tv + td)); [pick 7%nat (x - (ta + tv + td - tdj))|].
  pick 8%nat (x - (ta + tv + td)).
Qed.

Lemma right_nbhd c x : WFfwd c ->
  exists k, (k <= 8)%nat /\ (0 <= x -> (1 <= k)%nat) /\ (x < b_t c -> (k <= 7)%nat) /\
            exists d, 0 < d /\ forall y, x <= y < x + d -> inreg c k y.
Proof.
  intros H. open_fwd c H. subst t.
  destruct (Rlt_dec x 0); [pick 0%nat (- x)|].
  destruct (Rlt_dec x taj); [pick 1%nat (taj - x)|].
  destruct (Rlt_dec x (ta - taj)); [pick 2%nat (ta - taj - x)|].
  destruct (Rlt_dec x ta); [pick 3%nat (ta - x)|].
  destruct (Rlt_dec x (ta + tv)); [pick 4%nat (ta + tv - x)|].
  destruct (Rlt_dec x (ta + tv + tdj)); [pick 5%nat (ta + tv + tdj - x)|].
  destruct (Rlt_dec x (ta + tv + td - tdj)); [pick 6%nat (ta + tv + td - tdj - x)|].
  destruct (Rlt_dec x (ta + tv + td)); [pick 7%nat (ta + tv + td - x)|].
  pick 8%nat 1.
Qed.

Lemma in_some_region c x : WFfwd c -> exists k, (k <= 8)%nat /\ inreg c k x.
Proof.
  intros H. destruct (left_nbhd c x H) as (k & Hk & _ & _ & d & Hd & Hy).
  exists k. split; [assumption|]. apply Hy. lra.
Qed.

(* ------------------------------------------------------------------------------------------------ forward theorems *)
Theorem bell_fwd_continuous c x : WFfwd c ->
  continuous (bell_pos R_ops c) x /\ continuous (bell_vel R_ops c) x /\ continuous (bell_acc R_ops c) x.
Proof.
  intros H.
  destruct (left_nbhd c x H) as (kl & Hkl & _ & _ & dl & Hdl & HL).
  destruct (right_nbhd c x H) as (kr & Hkr & _ & _ & dr & Hdr & HR).
  repeat split.
  - apply (continuous_glue _ (BP c kl) (BP c kr)); try apply BP_cont.
    + exists dl. split; [assumption|]. intros y Hy. apply (bell_piece c kl y H Hkl (HL y Hy)).
    + exists dr. split; [assumption|]. intros y Hy. apply (bell_piece c kr y H Hkr (HR y Hy)).
  - apply (continuous_glue _ (BV c kl) (BV c kr)); try apply BV_cont.
    + exists dl. split; [assumption|]. intros y Hy. apply (bell_piece c kl y H Hkl (HL y Hy)).
    + exists dr. split; [assumption|]. intros y Hy. apply (bell_piece c kr y H Hkr (HR y Hy)).
  - apply (continuous_glue _ (BA c kl) (BA c kr)); try apply BA_cont.
    + exists dl. split; [assumption|]. intros y Hy. apply (bell_piece c kl y H Hkl (HL y Hy)).
    + exists dr. split; [assumption|]. intros y Hy. apply (bell_piece c kr y H Hkr (HR y Hy)).
Qed.

Theorem bell_fwd_derivatives c x : WFfwd c -> 0 < x < b_t c ->
  is_derive (bell_pos R_ops c) x (bell_vel R_ops c x) /\ is_derive (bell_vel R_ops c) x (bell_acc R_ops c x).
Proof.
  intros H Hx.
  destruct (left_nbhd c x H) as (kl & Hkl & Hl1 & Hl7 & dl & Hdl & HL).
  destruct (right_nbhd c x H) as (kr & Hkr & Hr1 & Hr7 & dr & Hdr & HR).
  assert (Pl := bell_piece c kl x H Hkl (HL x ltac:(lra))).
  assert (Pr := bell_piece c kr x H Hkr (HR x ltac:(lra))).
  destruct Pl as (_ & Vl & Al). destruct Pr as (_ & Vr & Ar).
  split.
  - apply (is_derive_glue _ (BP c kl) (BP c kr)).
    + exists dl. split; [assumption|]. intros y Hy. apply (bell_piece c kl y H Hkl (HL y Hy)).
    + exists dr. split; [assumption|]. intros y Hy. apply (bell_piece c kr y H Hkr (HR y Hy)).
    + rewrite Vl. apply BP_derive. split; [apply Hl1|apply Hl7]; lra.
    + rewrite Vr. apply BP_derive. split; [apply Hr1|apply Hr7]; lra.
  - apply (is_derive_glue _ (BV c kl) (BV c kr)).
    + exists dl. split; [assumption|]. intros y Hy. apply (bell_piece c kl y H Hkl (HL y Hy)).
    + exists dr. split; [assumption|]. intros y Hy. apply (bell_piece c kr y H Hkr (HR y Hy)).
    + rewrite Al. apply BV_derive.
    + rewrite Ar. apply BV_derive.
Qed.

Theorem bell_fwd_jerk_derivative c k x : WFfwd c -> (1 <= k <= 7)%nat -> bnd c (k - 1) < x < bnd c k ->
  is_derive (bell_acc R_ops c) x (bell_jer R_ops c x).
Proof.
  intros H Hk Hx. rewrite (bell_jer_piece c k x H Hk Hx).
  assert (Hreg : forall y, bnd c (k - 1) <= y <= bnd c k -> inreg c k y).
  { intros y Hy. destruct k as [|[|[|[|[|[|[|[|k]]]]]]]]; try (exfalso; lia); unfold inreg; cbn [Nat.sub] in Hy; exact Hy. }
  apply (is_derive_glue _ (BA c k) (BA c k)); try apply BA_derive.
  - exists (x - bnd c (k - 1)). split; [lra|]. intros y Hy. apply (bell_piece c k y H); [lia|apply Hreg; lra].
  - exists (bnd c k - x). split; [lra|]. intros y Hy. apply (bell_piece c k y H); [lia|apply Hreg; lra].
Qed.

Theorem bell_fwd_hold c x : WFfwd c ->
  (x <= 0 -> bell_pos R_ops c x = b_p0 c /\ bell_vel R_ops c x = b_v0 c /\ bell_acc R_ops c x = 0) /\
  (b_t c <= x -> bell_pos R_ops c x = b_p1 c /\ bell_vel R_ops c x = b_v1 c /\ bell_acc R_ops c x = 0).
Proof.
  intros H. split; intros Hx.
  - apply (bell_piece c 0 x H); [lia|exact Hx].
  - apply (bell_piece c 8 x H); [lia|exact Hx].
Qed.

(* the velocity stays between the boundary velocities and the peak, the acceleration between dm and am *)
Lemma BV_between c k x : WFfwd c -> (k <= 8)%nat -> inreg c k x ->
  (b_v0 c <= BV c k x <= b_vm c) \/ (b_v1 c <= BV c k x <= b_vm c).
Proof.
  intros H Hk Hx. open_fwd c H.
  assert (exists g2, ta = 2 * taj + g2 /\ 0 <= g2) as [g2 [E2 Hg2]] by (exists (ta - 2 * taj); lra).
  assert (exists g6, td = 2 * tdj + g6 /\ 0 <= g6) as [g6 [E6 Hg6]] by (exists (td - 2 * tdj); lra).
  subst ta td t. clear Hp1 Hdir. subst am dm.
  assert (Ha : 0 <= jm * taj) by nra. assert (Hd : 0 <= jm * tdj) by nra.
  assert (Hvm' : v0 <= vm) by (rewrite Hvm; nra).
  assert (Hv1' : v1 <= vm) by (rewrite Hv1; nra).
  destruct k as [|[|[|[|[|[|[|[|[|k]]]]]]]]]; try (exfalso; lia); clear Hk;
    unfold inreg, bnd, BV in *; bcbn.
  - left. lra.
  - left. split; [nra|]. rewrite Hvm. assert (x * x <= taj * taj) by nra. nra.
  - left. rewrite Hvm. split; nra.
  - left. set (y := 2 * taj + g2 - x) in *. assert (0 <= y <= taj) by (unfold y; lra).
    assert (y * y <= taj * taj) by nra. split; [rewrite Hvm at 1; nra|nra].
  - left. lra.
  - right. set (y := x - (2 * taj + g2 + tv + (2 * tdj + g6) - (2 * tdj + g6))) in *.
    assert (0 <= y <= tdj) by (unfold y; lra). assert (y * y <= tdj * tdj) by nra.
    split; [rewrite Hv1; nra|nra].
  - right. rewrite Hv1. split; nra.
  - right. set (y := 2 * taj + g2 + tv + (2 * tdj + g6) - x) in *.
    assert (0 <= y <= tdj) by (unfold y; lra). assert (y * y <= tdj * tdj) by nra.
    split; [nra|rewrite Hv1; nra].
  - right. lra.
Qed.

Lemma BA_between c k x : WFfwd c -> (k <= 8)%nat -> inreg c k x ->
  b_dm c <= BA c k x <= b_am c /\ b_dm c <= 0 <= b_am c.
Proof.
  intros H Hk Hx. open_fwd c H.
  subst t. clear Hp1 Hdir Hvm Hv1. subst am dm.
  assert (0 <= jm * taj) by nra. assert (0 <= jm * tdj) by nra.
  destruct k as [|[|[|[|[|[|[|[|[|k]]]]]]]]]; try (exfalso; lia); clear Hk;
    unfold inreg, bnd, BA in *; bcbn; (split; [|lra]); split; nra.
Qed.

Theorem bell_fwd_limits VM AM c x : WFfwd c -> WFlim VM AM c ->
  Rabs (bell_vel R_ops c x) <= VM /\ Rabs (bell_acc R_ops c x) <= AM /\ Rabs (bell_jer R_ops c x) <= b_jm c.
Proof.
  intros H [L0 L1 Lm La Ld].
  destruct (in_some_region c x H) as (k & Hk & Hr).
  destruct (bell_piece c k x H Hk Hr) as [_ [-> ->]].
  apply Rabs_le_between in L0. apply Rabs_le_between in L1. apply Rabs_le_between in Lm.
  repeat split.
  - apply Rabs_le. destruct (BV_between c k x H Hk Hr); lra.
  - apply Rabs_le. destruct (BA_between c k x H Hk Hr). lra.
  - pose proof (wb_jm _ H). destruct (bell_jer_values c x) as [ -> | [ -> | -> ] ];
      [rewrite Rabs_right|rewrite Rabs_Ropp, Rabs_right|rewrite Rabs_R0]; lra.
Qed.

(* ------------------------------------------------------------------------------------------------ the other direction *)
Ltac head_if_both :=
  repeat (match goal with
          | |- (if Rltb ?a ?b then _ else _) = _ => destruct (Rltb_spec a b)
          | |- (if Rleb ?a ?b then _ else _) = _ => destruct (Rleb_spec a b)
          | |- (if (Rltb ?a ?b && _)%bool then _ else _) = _ => destruct (Rltb_spec a b); cbn [andb]
          | |- (if (Rleb ?a ?b && _)%bool then _ else _) = _ => destruct (Rleb_spec a b); cbn [andb]
          end; cbv iota).

(* when p0 > p1 the outputs are the negated outputs of the mirrored context (this is what the C's `rev` does) *)
Lemma bell_mirror c x : b_p1 c < b_p0 c ->
  bell_pos R_ops c x = - bell_pos R_ops (mirror c) x /\ bell_vel R_ops c x = - bell_vel R_ops (mirror c) x /\
  bell_acc R_ops c x = - bell_acc R_ops (mirror c) x /\ bell_jer R_ops c x = - bell_jer R_ops (mirror c) x.
Proof.
  intros Hr. destruct c as [t tv ta td taj tdj p0 p1 v0 v1 vm jm am dm].
  unfold bell_pos, bell_vel, bell_acc, bell_jer, mirror. bcbn. unfold_ops.
  destruct (Rltb_spec p1 p0) as [_|?]; [|exfalso; lra].
  destruct (Rltb_spec (- p1) (- p0)) as [?|_]; [exfalso; lra|].
  repeat split; head_if_both; lra.
Qed.

Definition sgn (c : bellR) : R := if Rltb (b_p1 c) (b_p0 c) then -1 else 1.

Lemma bell_norm c x :
  bell_pos R_ops c x = sgn c * bell_pos R_ops (bnorm c) x /\ bell_vel R_ops c x = sgn c * bell_vel R_ops (bnorm c) x /\
  bell_acc R_ops c x = sgn c * bell_acc R_ops (bnorm c) x /\ bell_jer R_ops c x = sgn c * bell_jer R_ops (bnorm c) x.
Proof.
  unfold sgn, bnorm. destruct (Rltb_spec (b_p1 c) (b_p0 c)) as [Hr|Hr].
  - destruct (bell_mirror c x Hr) as (-> & -> & -> & ->). repeat split; lra.
  - repeat split; lra.
Qed.

Lemma sgn_cases c : (sgn c = 1 /\ bnorm c = c) \/ (sgn c = -1 /\ bnorm c = mirror c /\ b_p1 c < b_p0 c).
Proof. unfold sgn, bnorm. destruct (Rltb_spec (b_p1 c) (b_p0 c)); auto. Qed.

Lemma norm_times c : b_t (bnorm c) = b_t c /\ b_jm (bnorm c) = b_jm c /\ (forall k, bnd (bnorm c) k = bnd c k).
Proof. destruct (sgn_cases c) as [[_ ->]|[_ [-> _]]]; repeat split; intros; destruct c; reflexivity. Qed.

Lemma norm_state c :
  b_p0 c = sgn c * b_p0 (bnorm c) /\ b_p1 c = sgn c * b_p1 (bnorm c) /\
  b_v0 c = sgn c * b_v0 (bnorm c) /\ b_v1 c = sgn c * b_v1 (bnorm c).
Proof. destruct (sgn_cases c) as [[-> ->]|[-> [-> _]]]; destruct c; cbn; repeat split; lra. Qed.

Lemma WFlim_norm VM AM c : WFlim VM AM c -> WFlim VM AM (bnorm c).
Proof.
  intros [L0 L1 Lm La Ld]. destruct (sgn_cases c) as [[_ ->]|[_ [-> _]]]; [constructor; assumption|].
  destruct c; constructor; cbn in *; rewrite ?Rabs_Ropp; assumption.
Qed.

(* ------------------------------------------------------------------------------------------------ theorems, either direction *)
(* phase durations are non-negative and add up to the total *)
Theorem bell_durations c : WFbell c ->
  0 <= b_taj c /\ 0 <= b_ta c - 2 * b_taj c /\ 0 <= b_tv c /\ 0 <= b_tdj c /\ 0 <= b_td c - 2 * b_tdj c /\
  b_t c = b_taj c + (b_ta c - 2 * b_taj c) + b_taj c + b_tv c + b_tdj c + (b_td c - 2 * b_tdj c) + b_tdj c.
Proof.
  unfold WFbell. intros H.
  assert (E : b_t (bnorm c) = b_t c /\ b_tv (bnorm c) = b_tv c /\ b_ta (bnorm c) = b_ta c /\ b_td (bnorm c) = b_td c /\
              b_taj (bnorm c) = b_taj c /\ b_tdj (bnorm c) = b_tdj c).
  { destruct (sgn_cases c) as [[_ ->]|[_ [-> _]]]; destruct c; repeat split; reflexivity. }
  destruct E as (E1 & E2 & E3 & E4 & E5 & E6).
  destruct H as [_ _ H1 H2 H3 H4 H5 H6 _ _ _ _ _]. rewrite E1, E2, E3, E4, E5, E6 in *. lra.
Qed.

(* queries before the start / after the end hold the boundary state (in particular pos/vel at 0 and at t) *)
Theorem bell_hold c x : WFbell c ->
  (x <= 0 -> bell_pos R_ops c x = b_p0 c /\ bell_vel R_ops c x = b_v0 c /\ bell_acc R_ops c x = 0) /\
  (b_t c <= x -> bell_pos R_ops c x = b_p1 c /\ bell_vel R_ops c x = b_v1 c /\ bell_acc R_ops c x = 0).
Proof.
  unfold WFbell. intros H. destruct (bell_fwd_hold (bnorm c) x H) as [A B].
  destruct (bell_norm c x) as (-> & -> & -> & _). destruct (norm_state c) as (-> & -> & -> & ->).
  destruct (norm_times c) as (Et & _ & _). rewrite Et in B.
  split; intros Hx; [destruct (A Hx) as (-> & -> & ->)|destruct (B Hx) as (-> & -> & ->)]; repeat split; lra.
Qed.

Theorem bell_start_end c : WFbell c ->
  bell_pos R_ops c 0 = b_p0 c /\ bell_vel R_ops c 0 = b_v0 c /\ bell_acc R_ops c 0 = 0 /\
  bell_pos R_ops c (b_t c) = b_p1 c /\ bell_vel R_ops c (b_t c) = b_v1 c /\ bell_acc R_ops c (b_t c) = 0.
Proof.
  intros H. destruct (bell_hold c 0 H) as [A _]. destruct (bell_hold c (b_t c) H) as [_ B].
  destruct (A (Rle_refl _)) as (? & ? & ?). destruct (B (Rle_refl _)) as (? & ? & ?). auto 10.
Qed.

Lemma continuous_sgn (s : R) (f g : R -> R) x : (forall y, f y = s * g y) -> continuous g x -> continuous f x.
Proof.
  intros E C. apply (continuous_ext (fun y => s * g y)); [intros y; symmetry; apply E|].
  apply (continuous_scal_r s g x C).
Qed.

(* position, velocity and acceleration outputs are continuous functions of the query time on the whole real line *)
Theorem bell_continuous c x : WFbell c ->
  continuous (bell_pos R_ops c) x /\ continuous (bell_vel R_ops c) x /\ continuous (bell_acc R_ops c) x.
Proof.
  unfold WFbell. intros H. destruct (bell_fwd_continuous (bnorm c) x H) as (A & B & C).
  repeat split.
  - apply (continuous_sgn (sgn c) _ (bell_pos R_ops (bnorm c))); [intros y; apply (bell_norm c y)|exact A].
  - apply (continuous_sgn (sgn c) _ (bell_vel R_ops (bnorm c))); [intros y; apply (bell_norm c y)|exact B].
  - apply (continuous_sgn (sgn c) _ (bell_acc R_ops (bnorm c))); [intros y; apply (bell_norm c y)|exact C].
Qed.

Lemma is_derive_sgn (s : R) (f g : R -> R) x l : (forall y, f y = s * g y) -> is_derive g x l -> is_derive f x (s * l).
Proof.
  intros E D. apply (is_derive_ext (fun y => s * g y)); [intros y; symmetry; apply E|].
  apply (is_derive_scal g x s l D).
Qed.

(* vel is the derivative of pos and acc the derivative of vel at every instant strictly inside the motion *)
Theorem bell_derivatives c x : WFbell c -> 0 < x < b_t c ->
  is_derive (bell_pos R_ops c) x (bell_vel R_ops c x) /\ is_derive (bell_vel R_ops c) x (bell_acc R_ops c x).
Proof.
  unfold WFbell. intros H Hx. destruct (norm_times c) as (Et & _ & _).
  destruct (bell_fwd_derivatives (bnorm c) x H) as (A & B); [rewrite Et; exact Hx|].
  destruct (bell_norm c x) as (_ & -> & -> & _).
  split.
  - apply (is_derive_sgn (sgn c) _ (bell_pos R_ops (bnorm c))); [intros y; apply (bell_norm c y)|exact A].
  - apply (is_derive_sgn (sgn c) _ (bell_vel R_ops (bnorm c))); [intros y; apply (bell_norm c y)|exact B].
Qed.

(* jer is the derivative of acc strictly inside each of the seven phases *)
Theorem bell_jerk_derivative c k x : WFbell c -> (1 <= k <= 7)%nat -> bnd c (k - 1) < x < bnd c k ->
  is_derive (bell_acc R_ops c) x (bell_jer R_ops c x).
Proof.
  unfold WFbell. intros H Hk Hx. destruct (norm_times c) as (_ & _ & Eb).
  assert (D := bell_fwd_jerk_derivative (bnorm c) k x H Hk). rewrite !Eb in D. specialize (D Hx).
  destruct (bell_norm c x) as (_ & _ & _ & ->).
  apply (is_derive_sgn (sgn c) _ (bell_acc R_ops (bnorm c))); [intros y; apply (bell_norm c y)|exact D].
Qed.

(* the limits, at every query time *)
Theorem bell_limits VM AM c x : WFbell c -> WFlim VM AM c ->
  Rabs (bell_vel R_ops c x) <= VM /\ Rabs (bell_acc R_ops c x) <= AM /\ Rabs (bell_jer R_ops c x) <= b_jm c.
Proof.
  unfold WFbell. intros H L. destruct (norm_times c) as (_ & Ej & _).
  destruct (bell_fwd_limits VM AM (bnorm c) x H (WFlim_norm VM AM c L)) as (A & B & C). rewrite Ej in C.
  destruct (bell_norm c x) as (_ & -> & -> & ->).
  assert (S : forall y, Rabs (sgn c * y) = Rabs y).
  { intros y. destruct (sgn_cases c) as [[-> _]|[-> _]]; [f_equal; ring|]. replace (-1 * y) with (- y) by ring. apply Rabs_Ropp. }
  rewrite !S. auto.
Qed.

(* ------------------------------------------------------------------------------------------------ non-vacuity *)
Definition bell_ex : bellR := mk_bell 6 1 3 2 1 1 0 8 0 1 2 1 1 (-1).
Example bell_ex_wf : WFbell bell_ex /\ WFlim 2 1 bell_ex.
Proof.
  split.
  - unfold WFbell, bnorm, bell_ex. bcbn. destruct (Rltb_spec 8 0); [exfalso; lra|]. constructor; bcbn; lra.
  - constructor; unfold bell_ex; bcbn; try (apply Rabs_le); lra.
Qed.
Definition bell_ex_rev : bellR := mk_bell 6 1 3 2 1 1 0 (-8) 0 (-1) 2 1 1 (-1).
Example bell_ex_rev_wf : WFbell bell_ex_rev /\ WFlim 2 1 bell_ex_rev.
Proof.
  split.
  - unfold WFbell, bnorm, bell_ex_rev. bcbn. destruct (Rltb_spec (-8) 0); [|exfalso; lra].
    constructor; unfold mirror; bcbn; lra.
  - constructor; unfold bell_ex_rev; bcbn; try (apply Rabs_le); lra.
Qed.
