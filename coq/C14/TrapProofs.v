(* C14, trapezoidal velocity profile: evaluation layer (from the well-formedness predicate WFtrap alone) and planning
   layer (a_trajtrap_gen returning t > 0 on a feasible request produces a well-formed context). Real-number instance. *)
From Coq Require Import Reals ZArith List Lra Lia Bool Psatz.
From Coquelicot Require Import Coquelicot.
From LibaV Require Import Common.NumOps Common.ROps C14.TrapDefs C14.DeriveGlue.
Import ListNotations.
Local Open Scope R_scope.

Notation trapR := (trap R).

Lemma half_R : half R_ops = / 2.
Proof. unfold half. cbn. change (Pos.to_nat 1) with 1%nat. lra. Qed.

Lemma sat_range x lo hi : lo <= hi -> lo <= sat R_ops x lo hi <= hi.
Proof. intros H. unfold sat. unfold_ops. rcases; lra. Qed.

Lemma sat_id x lo hi : lo <= x <= hi -> sat R_ops x lo hi = x.
Proof. intros H. unfold sat. unfold_ops. rcases; lra. Qed.

(* ------------------------------------------------------------------------------------------------ well-formedness *)
(* vm is the (non-negative) velocity limit; it is not stored in the context *)
Record WFtrap (vm : R) (c : trapR) : Prop := {
  wf_ta : 0 <= t_ta c;
  wf_td : t_ta c <= t_td c;
  wf_t  : t_td c <= t_t c;
  wf_vc : t_vc c = t_v0 c + t_ac c * t_ta c;
  wf_pa : t_pa c = t_p0 c + t_v0 c * t_ta c + t_ac c * (t_ta c)² / 2;
  wf_pd : t_pd c = t_pa c + t_vc c * (t_td c - t_ta c);
  wf_v1 : t_v1 c = t_vc c + t_de c * (t_t c - t_td c);
  wf_p1 : t_p1 c = t_pd c + t_vc c * (t_t c - t_td c) + t_de c * (t_t c - t_td c)² / 2;
  wf_lv0 : Rabs (t_v0 c) <= vm;
  wf_lvc : Rabs (t_vc c) <= vm;
  wf_lv1 : Rabs (t_v1 c) <= vm }.

(* the three polynomial pieces *)
Definition P1 (c : trapR) (x : R) := t_p0 c + t_v0 c * x + t_ac c * x² / 2.
Definition P2 (c : trapR) (x : R) := t_pa c + t_vc c * (x - t_ta c).
Definition P3 (c : trapR) (x : R) := t_pd c + t_vc c * (x - t_td c) + t_de c * (x - t_td c)² / 2.
Definition V1 (c : trapR) (x : R) := t_v0 c + t_ac c * x.
Definition V2 (c : trapR) (x : R) := t_vc c.
Definition V3 (c : trapR) (x : R) := t_vc c + t_de c * (x - t_td c).

Ltac try_eq a b := try (assert (a = b) by lra; (subst a || subst b)).

(* open a well-formed context into variables and substitute the hand-over equations *)
Ltac open_wf c H :=
  destruct c as [t p0 p1 v0 v1 vc ta td pa pd ac de];
  destruct H as [Hta Htd Ht Hvc Hpa Hpd Hv1 Hp1 Hl0 Hlc Hl1];
  cbn [t_t t_p0 t_p1 t_v0 t_v1 t_vc t_ta t_td t_pa t_pd t_ac t_de] in *.

Ltac collapse x t ta td :=
  try_eq x 0; try_eq x ta; try_eq x td; try_eq x t; try_eq ta 0; try_eq td ta; try_eq t td; try_eq td 0; try_eq t 0; try_eq t ta.

Ltac piece_tac x t ta td :=
  unfold_ops; rewrite ?half_R; unfold Rsqr in *; rcases;
  try lra; collapse x t ta td; subst; try lra; try (field_simplify; lra); try nra.

(* pos and vel coincide with the polynomial pieces on the CLOSED phase intervals: continuity at every phase boundary *)
Lemma trap_pos_piece1 vm c x : WFtrap vm c -> 0 <= x <= t_ta c -> trap_pos R_ops c x = P1 c x.
Proof. intros H Hx. open_wf c H. unfold trap_pos, P1; cbn [t_t t_p0 t_p1 t_v0 t_v1 t_vc t_ta t_td t_pa t_pd t_ac t_de]. piece_tac x t ta td. Qed.
Lemma trap_pos_piece2 vm c x : WFtrap vm c -> t_ta c <= x <= t_td c -> trap_pos R_ops c x = P2 c x.
Proof. intros H Hx. open_wf c H. unfold trap_pos, P2; cbn [t_t t_p0 t_p1 t_v0 t_v1 t_vc t_ta t_td t_pa t_pd t_ac t_de]. piece_tac x t ta td. Qed.
Lemma trap_pos_piece3 vm c x : WFtrap vm c -> t_td c <= x <= t_t c -> trap_pos R_ops c x = P3 c x.
Proof. intros H Hx. open_wf c H. unfold trap_pos, P3; cbn [t_t t_p0 t_p1 t_v0 t_v1 t_vc t_ta t_td t_pa t_pd t_ac t_de]. piece_tac x t ta td. Qed.
Lemma trap_vel_piece1 vm c x : WFtrap vm c -> 0 <= x <= t_ta c -> trap_vel R_ops c x = V1 c x.
Proof. intros H Hx. open_wf c H. unfold trap_vel, V1; cbn [t_t t_p0 t_p1 t_v0 t_v1 t_vc t_ta t_td t_pa t_pd t_ac t_de]. piece_tac x t ta td. Qed.
Lemma trap_vel_piece2 vm c x : WFtrap vm c -> t_ta c <= x <= t_td c -> trap_vel R_ops c x = V2 c x.
Proof. intros H Hx. open_wf c H. unfold trap_vel, V2; cbn [t_t t_p0 t_p1 t_v0 t_v1 t_vc t_ta t_td t_pa t_pd t_ac t_de]. piece_tac x t ta td. Qed.
Lemma trap_vel_piece3 vm c x : WFtrap vm c -> t_td c <= x <= t_t c -> trap_vel R_ops c x = V3 c x.
Proof. intros H Hx. open_wf c H. unfold trap_vel, V3; cbn [t_t t_p0 t_p1 t_v0 t_v1 t_vc t_ta t_td t_pa t_pd t_ac t_de]. piece_tac x t ta td. Qed.

Ltac tcbn := cbn [t_t t_p0 t_p1 t_v0 t_v1 t_vc t_ta t_td t_pa t_pd t_ac t_de] in *.

(* queries before the start / after the end hold the boundary state (no well-formedness needed beyond 0 <= ta <= td <= t) *)
Lemma trap_hold_before vm c x : WFtrap vm c -> x <= 0 ->
  trap_pos R_ops c x = t_p0 c /\ trap_vel R_ops c x = t_v0 c.
Proof.
  intros H Hx. open_wf c H. unfold trap_pos, trap_vel; tcbn.
  split; piece_tac x t ta td.
Qed.

Lemma trap_hold_after vm c x : WFtrap vm c -> t_t c <= x ->
  trap_pos R_ops c x = t_p1 c /\ trap_vel R_ops c x = t_v1 c.
Proof.
  intros H Hx. open_wf c H. unfold trap_pos, trap_vel; tcbn.
  split; piece_tac x t ta td.
Qed.

(* start and end state *)
Lemma trap_start_end vm c : WFtrap vm c ->
  trap_pos R_ops c 0 = t_p0 c /\ trap_vel R_ops c 0 = t_v0 c /\
  trap_pos R_ops c (t_t c) = t_p1 c /\ trap_vel R_ops c (t_t c) = t_v1 c.
Proof.
  intros H. destruct (trap_hold_before vm c 0 H (Rle_refl _)) as [A B].
  destruct (trap_hold_after vm c (t_t c) H (Rle_refl _)) as [C D]. auto.
Qed.

(* every query falls in one of the five closed regions *)
Lemma trap_regions vm c x : WFtrap vm c ->
  x <= 0 \/ 0 <= x <= t_ta c \/ t_ta c <= x <= t_td c \/ t_td c <= x <= t_t c \/ t_t c <= x.
Proof. intros [H1 H2 H3 _ _ _ _ _ _ _ _]. lra. Qed.

Lemma Rabs_between a b x m : Rabs a <= m -> Rabs b <= m -> (a <= x <= b \/ b <= x <= a) -> Rabs x <= m.
Proof.
  intros Ha Hb Hx. apply Rabs_le. apply Rabs_le_between in Ha. apply Rabs_le_between in Hb. lra.
Qed.

(* the speed never exceeds the limit, at any query time *)
Lemma trap_vel_bound vm c x : WFtrap vm c -> Rabs (trap_vel R_ops c x) <= vm.
Proof.
  intros H. destruct (trap_regions vm c x H) as [R|[R|[R|[R|R]]]].
  - destruct (trap_hold_before vm c x H R) as [_ ->]. apply H.
  - rewrite (trap_vel_piece1 vm c x H R). unfold V1.
    apply (Rabs_between (t_v0 c) (t_vc c)); [apply H|apply H|]. rewrite (wf_vc _ _ H).
    destruct (Rle_dec 0 (t_ac c)); [left|right]; nra.
  - rewrite (trap_vel_piece2 vm c x H R). apply H.
  - rewrite (trap_vel_piece3 vm c x H R). unfold V3.
    apply (Rabs_between (t_vc c) (t_v1 c)); [apply H|apply H|]. rewrite (wf_v1 _ _ H).
    destruct (Rle_dec 0 (t_de c)); [left|right]; nra.
  - destruct (trap_hold_after vm c x H R) as [_ ->]. apply H.
Qed.

(* the acceleration output is one of ac, de, 0; inside the phases it is the slope of the velocity piece *)
Lemma trap_acc_values c x : trap_acc R_ops c x = t_ac c \/ trap_acc R_ops c x = t_de c \/ trap_acc R_ops c x = 0.
Proof. unfold trap_acc. unfold_ops. rcases; auto. Qed.

Lemma trap_acc_phases vm c x : WFtrap vm c ->
  (0 <= x < t_ta c -> trap_acc R_ops c x = t_ac c) /\
  (t_ta c <= x < t_td c -> trap_acc R_ops c x = 0) /\
  (t_td c <= x <= t_t c -> t_ta c <= x -> trap_acc R_ops c x = t_de c) /\
  (x < 0 \/ t_t c < x -> trap_acc R_ops c x = 0).
Proof.
  intros H. open_wf c H. unfold trap_acc; tcbn. unfold_ops.
  repeat split; intros; rcases; lra.
Qed.

(* each velocity piece is the derivative of its position piece (polynomial identities) *)
Lemma P1_derive c x : is_derive (P1 c) x (V1 c x).
Proof. unfold P1, V1, Rsqr. auto_derive; [exact I|field]. Qed.
Lemma P2_derive c x : is_derive (P2 c) x (V2 c x).
Proof. unfold P2, V2. auto_derive; [exact I|field]. Qed.
Lemma P3_derive c x : is_derive (P3 c) x (V3 c x).
Proof. unfold P3, V3, Rsqr. auto_derive; [exact I|field]. Qed.
Lemma V1_derive c x : is_derive (V1 c) x (t_ac c).
Proof. unfold V1. auto_derive; [exact I|field]. Qed.
Lemma V2_derive c x : is_derive (V2 c) x 0.
Proof. unfold V2. auto_derive; [exact I|field]. Qed.
Lemma V3_derive c x : is_derive (V3 c) x (t_de c).
Proof. unfold V3. auto_derive; [exact I|field]. Qed.

(* left and right pieces at a point strictly inside (0, t) *)
Lemma trap_left_piece vm c x : WFtrap vm c -> 0 < x <= t_t c ->
  exists P V, (exists d, 0 < d /\ forall y, x - d < y <= x -> trap_pos R_ops c y = P y) /\ is_derive P x (V x) /\
              trap_vel R_ops c x = V x.
Proof.
  intros H Hx. pose proof (wf_ta _ _ H). pose proof (wf_td _ _ H). pose proof (wf_t _ _ H).
  destruct (Rle_dec x (t_ta c)); [|destruct (Rle_dec x (t_td c))].
  - exists (P1 c), (V1 c). split; [|split; [apply P1_derive|apply (trap_vel_piece1 vm); [assumption|lra]]].
    exists x. split; [lra|]. intros y Hy. apply (trap_pos_piece1 vm); [assumption|lra].
  - exists (P2 c), (V2 c). split; [|split; [apply P2_derive|apply (trap_vel_piece2 vm); [assumption|lra]]].
    exists (x - t_ta c). split; [lra|]. intros y Hy. apply (trap_pos_piece2 vm); [assumption|lra].
  - exists (P3 c), (V3 c). split; [|split; [apply P3_derive|apply (trap_vel_piece3 vm); [assumption|lra]]].
    exists (x - t_td c). split; [lra|]. intros y Hy. apply (trap_pos_piece3 vm); [assumption|lra].
Qed.

Lemma trap_right_piece vm c x : WFtrap vm c -> 0 <= x < t_t c ->
  exists P V, (exists d, 0 < d /\ forall y, x <= y < x + d -> trap_pos R_ops c y = P y) /\ is_derive P x (V x) /\
              trap_vel R_ops c x = V x.
Proof.
  intros H Hx. pose proof (wf_ta _ _ H). pose proof (wf_td _ _ H). pose proof (wf_t _ _ H).
  destruct (Rlt_dec x (t_ta c)); [|destruct (Rlt_dec x (t_td c))].
  - exists (P1 c), (V1 c). split; [|split; [apply P1_derive|apply (trap_vel_piece1 vm); [assumption|lra]]].
    exists (t_ta c - x). split; [lra|]. intros y Hy. apply (trap_pos_piece1 vm); [assumption|lra].
  - exists (P2 c), (V2 c). split; [|split; [apply P2_derive|apply (trap_vel_piece2 vm); [assumption|lra]]].
    exists (t_td c - x). split; [lra|]. intros y Hy. apply (trap_pos_piece2 vm); [assumption|lra].
  - exists (P3 c), (V3 c). split; [|split; [apply P3_derive|apply (trap_vel_piece3 vm); [assumption|lra]]].
    exists (t_t c - x). split; [lra|]. intros y Hy. apply (trap_pos_piece3 vm); [assumption|lra].
Qed.

(* the velocity output is the derivative of the position output at every instant strictly inside the motion *)
Theorem trap_vel_is_derivative vm c x : WFtrap vm c -> 0 < x < t_t c ->
  is_derive (trap_pos R_ops c) x (trap_vel R_ops c x).
Proof.
  intros H Hx.
  destruct (trap_left_piece vm c x H) as (Pl & Vl & HL & DL & EL); [lra|].
  destruct (trap_right_piece vm c x H) as (Pr & Vr & HR & DR & ER); [lra|].
  apply (is_derive_glue _ Pl Pr); try assumption.
  - rewrite EL. exact DL.
  - rewrite ER. exact DR.
Qed.

(* position and velocity outputs are continuous functions of the query time on the whole real line *)
Lemma cont_of_derive (P : R -> R) x l : is_derive P x l -> continuous P x.
Proof. intros D. apply (ex_derive_continuous P x). exists l. exact D. Qed.

Lemma trap_left_cont vm c x : WFtrap vm c ->
  exists P V, (exists d, 0 < d /\ forall y, x - d < y <= x -> trap_pos R_ops c y = P y /\ trap_vel R_ops c y = V y) /\
              continuous P x /\ continuous V x.
Proof.
  intros H. pose proof (wf_ta _ _ H). pose proof (wf_td _ _ H). pose proof (wf_t _ _ H).
  destruct (Rle_dec x 0); [|destruct (Rle_dec x (t_ta c)); [|destruct (Rle_dec x (t_td c)); [|destruct (Rle_dec x (t_t c))]]].
  - exists (fun _ => t_p0 c), (fun _ => t_v0 c). split; [|split; apply continuous_const].
    exists 1. split; [lra|]. intros y Hy. apply (trap_hold_before vm); [assumption|lra].
  - exists (P1 c), (V1 c). split; [|split; [apply (cont_of_derive _ _ _ (P1_derive c x))|apply (cont_of_derive _ _ _ (V1_derive c x))]].
    exists x. split; [lra|]. intros y Hy. split; [apply (trap_pos_piece1 vm)|apply (trap_vel_piece1 vm)]; try assumption; lra.
  - exists (P2 c), (V2 c). split; [|split; [apply (cont_of_derive _ _ _ (P2_derive c x))|apply (cont_of_derive _ _ _ (V2_derive c x))]].
    exists (x - t_ta c). split; [lra|]. intros y Hy. split; [apply (trap_pos_piece2 vm)|apply (trap_vel_piece2 vm)]; try assumption; lra.
  - exists (P3 c), (V3 c). split; [|split; [apply (cont_of_derive _ _ _ (P3_derive c x))|apply (cont_of_derive _ _ _ (V3_derive c x))]].
    exists (x - t_td c). split; [lra|]. intros y Hy. split; [apply (trap_pos_piece3 vm)|apply (trap_vel_piece3 vm)]; try assumption; lra.
  - exists (fun _ => t_p1 c), (fun _ => t_v1 c). split; [|split; apply continuous_const].
    exists (x - t_t c). split; [lra|]. intros y Hy. apply (trap_hold_after vm); [assumption|lra].
Qed.

Lemma trap_right_cont vm c x : WFtrap vm c ->
  exists P V, (exists d, 0 < d /\ forall y, x <= y < x + d -> trap_pos R_ops c y = P y /\ trap_vel R_ops c y = V y) /\
              continuous P x /\ continuous V x.
Proof.
  intros H. pose proof (wf_ta _ _ H). pose proof (wf_td _ _ H). pose proof (wf_t _ _ H).
  destruct (Rlt_dec x 0); [|destruct (Rlt_dec x (t_ta c)); [|destruct (Rlt_dec x (t_td c)); [|destruct (Rlt_dec x (t_t c))]]].
  - exists (fun _ => t_p0 c), (fun _ => t_v0 c). split; [|split; apply continuous_const].
    exists (- x). split; [lra|]. intros y Hy. apply (trap_hold_before vm); [assumption|lra].
  - exists (P1 c), (V1 c). split; [|split; [apply (cont_of_derive _ _ _ (P1_derive c x))|apply (cont_of_derive _ _ _ (V1_derive c x))]].
    exists (t_ta c - x). split; [lra|]. intros y Hy. split; [apply (trap_pos_piece1 vm)|apply (trap_vel_piece1 vm)]; try assumption; lra.
  - exists (P2 c), (V2 c). split; [|split; [apply (cont_of_derive _ _ _ (P2_derive c x))|apply (cont_of_derive _ _ _ (V2_derive c x))]].
    exists (t_td c - x). split; [lra|]. intros y Hy. split; [apply (trap_pos_piece2 vm)|apply (trap_vel_piece2 vm)]; try assumption; lra.
  - exists (P3 c), (V3 c). split; [|split; [apply (cont_of_derive _ _ _ (P3_derive c x))|apply (cont_of_derive _ _ _ (V3_derive c x))]].
    exists (t_t c - x). split; [lra|]. intros y Hy. split; [apply (trap_pos_piece3 vm)|apply (trap_vel_piece3 vm)]; try assumption; lra.
  - exists (fun _ => t_p1 c), (fun _ => t_v1 c). split; [|split; apply continuous_const].
    exists 1. split; [lra|]. intros y Hy. apply (trap_hold_after vm); [assumption|lra].
Qed.

Theorem trap_continuous vm c x : WFtrap vm c ->
  continuous (trap_pos R_ops c) x /\ continuous (trap_vel R_ops c) x.
Proof.
  intros H.
  destruct (trap_left_cont vm c x H) as (Pl & Vl & (dl & Hdl & HL) & CPl & CVl).
  destruct (trap_right_cont vm c x H) as (Pr & Vr & (dr & Hdr & HR) & CPr & CVr).
  split.
  - apply (continuous_glue _ Pl Pr); try assumption.
    + exists dl. split; [assumption|]. intros y Hy. apply HL, Hy.
    + exists dr. split; [assumption|]. intros y Hy. apply HR, Hy.
  - apply (continuous_glue _ Vl Vr); try assumption.
    + exists dl. split; [assumption|]. intros y Hy. apply HL, Hy.
    + exists dr. split; [assumption|]. intros y Hy. apply HR, Hy.
Qed.
