From Coq Require Import Reals ZArith List Lra Lia Bool.
From LibaV Require Import Common.NumOps Common.ROps C14.TrapDefs.
Import ListNotations.
Local Open Scope R_scope.

Lemma sat_range x lo hi : lo <= hi -> lo <= sat R_ops x lo hi <= hi.
Proof. intros H. unfold sat. unfold_ops. rcases; lra. Qed.
