(* C14, a_trajbell_gen: FUEL SUFFICIENCY of the bisection loop in the rounded-real model.

   The do { ... } while (ac > A_REAL_EPSILON) loop of src/trajbell.c is `bell_loop` of BellDefs.v, a Fixpoint on fuel that
   answers `LFail _ BX_out_of_fuel _` when the fuel is used up; harness/C14/TieBellGen.v proves that the function
   regenerated from the current C source equals `bell_gen_b` for every NumOps instance and every fuel, "out of fuel" on
   one side iff on the other.  This file proves that at the instance `Rnd_ops rnd` (every + - * / sqrt followed by rnd,
   comparisons exact) the fuel is never used up, for every rnd in which HALVING A FORMAT NUMBER ABOVE 2^-52 IS EXACT:

   1. for every NumOps instance: every continuing pass of bell_step multiplies ac by A_REAL_C(0.5) exactly once
      (bell_step_cont_ac), and bell_step never answers with the tag BX_out_of_fuel (bell_step_no_oof);
   2. generic rnd (record halving_rnd: rnd monotone, rnd (-x) = - rnd x, 1/2 and 2^-52 are format numbers, and
      rnd x = x -> 2^-52 < x -> rnd (x / 2) = x / 2): when ac is a format number and ac <= 2^-52 * 2^j, bell_loop
      with fuel > j does not run out of fuel (bell_loop_fuel: by induction, after k continuing passes the step was
      entered with ac0 / 2^k; once ac <= 2^-52 the halved value is <= 2^-52 too and the loop test fails);
      bell_gen_fuel is the same for the whole generator (ac starts at |am|);
   3. IEEE binary64 round-to-nearest-even (rnd64 of Common/RoundFlocq.v, Flocq) is such a rounding (halving_rnd_binary64:
      halving a format number of magnitude >= 2^-1021 is exact, Flocq's mult_bpow_exact_FLT), hence for EVERY binary64
      number am below the overflow threshold 2^1024 (i.e. every finite double, also subnormal, zero or negative) and
      every other argument, `bell_gen_b (Rnd_ops rnd64) fuel` with fuel >= 1077 - in particular the fuel 1200 of the
      correspondence run - never reports BX_out_of_fuel (bell_gen_fuel_binary64, bell_gen_fuel_binary64_1200).
      By tie_a_trajbell_gen_inv (harness/C14/TieBellGen.v, which cannot be imported here) the regenerated
      `gen_a_trajbell_gen (Rnd_ops rnd64) 1200 ...` is then `Some _` for these arguments.
   4. non-vacuity (BellFuelExample below): the request jm = am = vm = 1, p0 = p1 = 0, v0 = v1 = 0 makes the loop run
      52 passes (51 continuing ones), halving ac from 1 to 2^-52, and leave through `fail` because ac > epsilon became
      false - at every rnd that is exact on 0 and on the powers of two 2^z, z >= -1074, in particular at rnd64.

   WHAT THE MODEL DOES NOT COVER (as everywhere in Common/Round*.v): rnd : R -> R is total with unbounded range, there is
   no overflow, no infinity and no NaN.  In the C, am = +-inf makes ac = inf, inf * 0.5 = inf > epsilon: the C loop
   does not terminate for an infinite am (checks/C14.py does not generate it); that is outside this theorem, whose
   hypothesis |am| < 2^1024 says "am is finite".  An intermediate result that overflows inside a pass does not matter
   for THIS statement (the halving of ac never overflows and no other value enters the loop test), but the remaining
   theorems about Rnd_ops carry their own no-overflow hypotheses. *)
From Coq Require Import Reals ZArith List Lra Lia Bool.
From Flocq Require Import Core Mult_error.
From LibaV Require Import Common.NumOps Common.ROps Common.RoundOps Common.RoundFlocq Common.RoundMono
  C14.TrapDefs C14.BellDefs.
Import ListNotations.
Local Open Scope R_scope.

(* ------------------------------------------------------------------ 1. every NumOps instance *)
Section AnyInstance.
  Context {T : Type} (O : NumOps T).

  Ltac step_cases :=
    unfold bell_step;
    repeat match goal with
           | |- context [if ?b then _ else _] => destruct b
           end.

  (* in every continuing arm the C does `ac *= A_REAL_C(0.5)` exactly once *)
  Lemma bell_step_cont_ac jm p v0 v1 c am ac c' am' ac' :
    bell_step O jm p v0 v1 c am ac = SCont c' am' ac' -> ac' = mul O ac (half O).
  Proof.
    step_cases; intros H; first [discriminate H | injection H as _ _ H; symmetry; exact H].
  Qed.

  (* the tag "out of fuel" is produced by bell_loop only *)
  Lemma bell_step_no_oof jm p v0 v1 c am ac :
    match bell_step O jm p v0 v1 c am ac with
    | SExit _ k | SFail _ k => k <> BX_out_of_fuel
    | SCont _ _ _ => True
    end.
  Proof. step_cases; first [exact I | discriminate]. Qed.
End AnyInstance.

Definition loop_oof {T} (r : loop_res (T := T)) : Prop :=
  match r with LFail _ BX_out_of_fuel _ => True | _ => False end.


Section AnyInstanceLoop.
  Context {T : Type} (O : NumOps T).

  (* a result that left through `exit` does not carry the tag either *)
  Lemma bell_loop_exit_tag fuel : forall n jm p v0 v1 c am ac c' k n',
    bell_loop O fuel n jm p v0 v1 c am ac = LExit c' k n' -> k <> BX_out_of_fuel.
  Proof.
    induction fuel as [|f IH]; intros n jm p v0 v1 c am ac c' k n'; cbn [bell_loop]; [discriminate|].
    pose proof (bell_step_no_oof O jm p v0 v1 c am ac) as S.
    destruct (bell_step O jm p v0 v1 c am ac) as [c1 k1|c1 k1|c1 am1 ac1].
    - intros E. injection E as _ E _. subst k1. exact S.
    - discriminate.
    - destruct (gtb O ac1 (epsilon O)); [apply IH|discriminate].
  Qed.

  Lemma tag_if {A B C} (G : Prop) (b : bool) (x y : A * B * bell_exit * C) :
    snd (fst x) <> BX_out_of_fuel -> (snd (fst y) = BX_out_of_fuel -> G) ->
    snd (fst (if b then x else y)) = BX_out_of_fuel -> G.
  Proof. destruct b; [intros H _ E; contradiction|intros _ H; exact H]. Qed.

  (* where the generator can get the tag from: only from the loop, which it enters with am = ac = |am| (the C's
     `if (am < 0) { am = -am; }`, then `ac = am`) *)
  Lemma bell_gen_oof_loop fuel c jm am vm p0 p1 v0 v1 :
    snd (fst (bell_gen_b O fuel c jm am vm p0 p1 v0 v1)) = BX_out_of_fuel ->
    let am' := if ltb O am (ofZ O 0) then opp O am else am in
    exists n jm' p v0' v1' c', loop_oof (bell_loop O fuel n jm' p v0' v1' c' am' am').
  Proof.
    cbv delta [bell_gen_b] beta.
    repeat lazymatch goal with
    | |- snd (fst (let x := ?v in @?B x)) = _ -> ?G =>
        let y := fresh x in pose (y := v); change (snd (fst (B y)) = BX_out_of_fuel -> G); cbv beta
    | |- snd (fst (if ?b then _ else _)) = _ -> _ => apply tag_if; [cbn [fst snd]; discriminate|]
    end.
    lazymatch goal with |- context [bell_loop O fuel ?n ?jm' ?p ?v0' ?v1' ?c' ?a ?a'] =>
      intros H am'; exists n, jm', p, v0', v1', c'; change (loop_oof (bell_loop O fuel n jm' p v0' v1' c' a a'));
      pose proof (bell_loop_exit_tag fuel n jm' p v0' v1' c' a a') as X;
      destruct (bell_loop O fuel n jm' p v0' v1' c' a a') as [cx kx nx|cx kx nx] end.
    - exfalso. apply (X cx kx nx eq_refl). exact H.
    - cbn in H. subst kx. exact I.
  Qed.
End AnyInstanceLoop.

(* ------------------------------------------------------------------ 2. roundings in which halving is exact *)
Definition eps52 : R := powerRZ 2 (-52).

Record halving_rnd (rnd : R -> R) : Prop := {
  hr_le : forall x y, x <= y -> rnd x <= rnd y;
  hr_opp : forall x, rnd (- x) = - rnd x;
  hr_half : rnd (/ 2) = / 2;                                   (* A_REAL_C(0.5) is a format number *)
  hr_eps : rnd eps52 = eps52;                                  (* A_REAL_EPSILON is a format number *)
  hr_exact : forall x, rnd x = x -> eps52 < x -> rnd (x * / 2) = x * / 2
}.

Lemma eps52_pos : 0 < eps52.
Proof. unfold eps52. apply powerRZ_lt. lra. Qed.

Section Halving.
  Variable rnd : R -> R.
  Hypothesis H : halving_rnd rnd.

  Lemma half_rnd_val : half (Rnd_ops rnd) = / 2.
  Proof.
    unfold half. unfold_rops. replace (1 * powerRZ 2 (-1)) with (/ 2) by (simpl; field). exact (hr_half _ H).
  Qed.
  Lemma epsilon_rnd_val : epsilon (Rnd_ops rnd) = eps52.
  Proof. unfold epsilon. unfold_rops. rewrite Rmult_1_l. exact (hr_eps _ H). Qed.

  (* one continuing pass: the new ac is the rounded half, and below 2^-52 it stays below *)
  Lemma halved_small ac : ac <= eps52 -> rnd (ac * / 2) <= eps52.
  Proof.
    intros Hs. rewrite <- (hr_eps _ H). apply (hr_le _ H). pose proof eps52_pos. lra.
  Qed.

  (* the bisection loop entered with a format number ac <= 2^-52 * 2^j ends within j + 1 passes *)
  Theorem bell_loop_fuel : forall fuel j n jm p v0 v1 c am ac,
    rnd ac = ac -> ac <= eps52 * 2 ^ j -> (j < fuel)%nat ->
    ~ loop_oof (bell_loop (Rnd_ops rnd) fuel n jm p v0 v1 c am ac).
  Proof.
    induction fuel as [|f IH]; intros j n jm p v0 v1 c am ac Fx Hb Hj; [lia|].
    cbn [bell_loop].
    pose proof (bell_step_no_oof (Rnd_ops rnd) jm p v0 v1 c am ac) as S.
    pose proof (bell_step_cont_ac (Rnd_ops rnd) jm p v0 v1 c am ac) as A.
    destruct (bell_step (Rnd_ops rnd) jm p v0 v1 c am ac) as [c1 k1|c1 k1|c1 am1 ac1].
    - exact (fun F => F).
    - destruct k1; cbn [loop_oof]; try exact (fun F => F). intros _. apply S. reflexivity.
    - specialize (A c1 am1 ac1 eq_refl). rewrite half_rnd_val in A. cbn [mul Rnd_ops] in A.
      rewrite epsilon_rnd_val. unfold gtb. cbn [ltb Rnd_ops].
      destruct (Rltb_spec eps52 ac1) as [Hc|Hc]; [|exact (fun F => F)].
      (* the loop continues: ac was above 2^-52, so the halving was exact *)
      destruct (Rle_lt_dec ac eps52) as [Hs|Hl].
      { exfalso. pose proof (halved_small ac Hs). lra. }
      pose proof (hr_exact _ H ac Fx Hl) as E. rewrite E in A.
      destruct j as [|j'].
      { exfalso. simpl in Hb. lra. }
      apply (IH j').
      + rewrite A. exact E.
      + rewrite A. cbn [pow] in Hb. lra.
      + lia.
  Qed.

  (* the generator: ac starts at |am| *)
  Theorem bell_gen_fuel : forall fuel j c jm am vm p0 p1 v0 v1,
    rnd am = am -> Rabs am <= eps52 * 2 ^ j -> (j < fuel)%nat ->
    snd (fst (bell_gen_b (Rnd_ops rnd) fuel c jm am vm p0 p1 v0 v1)) <> BX_out_of_fuel.
  Proof.
    intros fuel j c jm am vm p0 p1 v0 v1 Fx Hb Hj E.
    destruct (bell_gen_oof_loop (Rnd_ops rnd) fuel c jm am vm p0 p1 v0 v1 E) as (n & jm' & p & v0' & v1' & c' & L).
    revert L. apply (bell_loop_fuel fuel j); [| |exact Hj].
    - cbn [ltb Rnd_ops]. destruct (Rltb _ _); [cbn [opp Rnd_ops]; rewrite (hr_opp _ H), Fx; reflexivity|exact Fx].
    - eapply Rle_trans; [|exact Hb].
      cbn [ltb Rnd_ops]. destruct (Rltb _ _); cbn [opp Rnd_ops]; [rewrite <- Rabs_Ropp|]; apply Rle_abs.
  Qed.
End Halving.

(* non-vacuity of the record: the identity (Rnd_ops id computes what R_ops computes) *)
Example halving_rnd_id : halving_rnd (fun x => x).
Proof. constructor; intros; (reflexivity || assumption || ring). Qed.

(* ------------------------------------------------------------------ 3. IEEE binary64, round to nearest even *)
Local Instance prec53f : Prec_gt_0 53 := eq_refl.
Local Instance valid64f : Valid_exp fexp64 := FLT_exp_valid (-1074) 53.

Lemma bpow2_powerRZ e : bpow radix2 e = powerRZ 2 e.
Proof. rewrite bpow_powerRZ. reflexivity. Qed.

(* halving a binary64 number of magnitude >= 2^-1021 (twice the smallest normal number) is exact *)
Lemma rnd64_half_exact x : rnd64 x = x -> bpow radix2 (-1021) <= Rabs x -> rnd64 (x * / 2) = x * / 2.
Proof.
  intros Fx Hx. unfold rnd64. apply round_generic; [typeclasses eauto|].
  change (/ 2) with (bpow radix2 (-1)). unfold fexp64.
  apply (mult_bpow_exact_FLT radix2 (-1074) 53).
  - exact (rnd64_fix_format x Fx).
  - pose proof (mag_ge_bpow radix2 x (-1020) Hx). lia.
Qed.

Theorem halving_rnd_binary64 : halving_rnd rnd64.
Proof.
  constructor.
  - exact (mr_le _ mono_rnd_binary64).
  - exact (mr_opp _ mono_rnd_binary64).
  - pose proof (rnd64_dyadic 1 (-1) eq_refl ltac:(lia)) as E. rewrite Rmult_1_l in E. exact E.
  - unfold eps52. rewrite <- bpow2_powerRZ.
    pose proof (rnd64_dyadic 1 (-52) eq_refl ltac:(lia)) as E. rewrite Rmult_1_l in E. exact E.
  - intros x Fx Hx. apply rnd64_half_exact; [exact Fx|].
    unfold eps52 in Hx. rewrite <- bpow2_powerRZ in Hx.
    assert (bpow radix2 (-1021) <= bpow radix2 (-52)) by (apply bpow_le; lia).
    pose proof (Rle_abs x). lra.
Qed.

(* |am| < 2^1024 = 2^-52 * 2^1076; 2^1024 is the overflow threshold of binary64 (DBL_MAX = 2^1024 - 2^971) *)
Lemma eps52_pow_1076 : eps52 * 2 ^ 1076 = IZR (2 ^ 1024).
Proof.
  unfold eps52. rewrite pow_powerRZ, <- powerRZ_add by lra. rewrite <- bpow2_powerRZ. reflexivity.
Qed.

(* every finite binary64 am: the generator never runs out of a fuel above 1076 *)
Theorem bell_gen_fuel_binary64 : forall fuel c jm am vm p0 p1 v0 v1,
  rnd64 am = am -> Rabs am < IZR (2 ^ 1024) -> (1076 < fuel)%nat ->
  snd (fst (bell_gen_b (Rnd_ops rnd64) fuel c jm am vm p0 p1 v0 v1)) <> BX_out_of_fuel.
Proof.
  intros fuel c jm am vm p0 p1 v0 v1 Fx Hb Hf.
  apply (bell_gen_fuel rnd64 halving_rnd_binary64 fuel 1076); [exact Fx| |exact Hf].
  rewrite eps52_pow_1076. lra.
Qed.

(* the fuel of the correspondence run (bell_fuel = 1200, used by bell_gen_line) *)
Corollary bell_gen_fuel_binary64_1200 : forall c jm am vm p0 p1 v0 v1,
  rnd64 am = am -> Rabs am < IZR (2 ^ 1024) ->
  snd (fst (bell_gen_b (Rnd_ops rnd64) bell_fuel c jm am vm p0 p1 v0 v1)) <> BX_out_of_fuel.
Proof.
  intros. apply bell_gen_fuel_binary64; [assumption|assumption|].
  unfold bell_fuel. apply Nat.ltb_lt. vm_compute. reflexivity.
Qed.

(* non-vacuity of the hypotheses about am: 1 qualifies, and so does the largest double DBL_MAX = (2^53 - 1) 2^971 *)
Example bell_gen_fuel_binary64_am_1 : rnd64 1 = 1 /\ Rabs 1 < IZR (2 ^ 1024).
Proof.
  split; [exact rnd64_1|]. rewrite Rabs_R1. apply IZR_lt. reflexivity.
Qed.
Example bell_gen_fuel_binary64_am_max :
  rnd64 (IZR ((2 ^ 53 - 1) * 2 ^ 971)) = IZR ((2 ^ 53 - 1) * 2 ^ 971) /\ Rabs (IZR ((2 ^ 53 - 1) * 2 ^ 971)) < IZR (2 ^ 1024).
Proof.
  split.
  - rewrite mult_IZR. change (IZR (2 ^ 971)) with (bpow radix2 971). apply rnd64_dyadic; [reflexivity|lia].
  - rewrite Rabs_pos_eq by (apply IZR_le; discriminate). apply IZR_lt. reflexivity.
Qed.

(* ------------------------------------------------------------------ 4. a request on which the loop runs 52 passes
   jm = am = vm = 1, p0 = p1 = 0, v0 = v1 = 0 (no displacement asked for: tv = -2 is not > 0, so the loop is entered with
   am = ac = 1).  On every pass am = ac = 2^z: tj = 2^z, the radicand is 2^(4z), ta = td = 2^z < 2 tj, hence the last arm
   `ac *= 0.5; am -= ac`, and the pass ends with am = ac = 2^(z-1).  All intermediate values are 0 or powers of two, so the
   computation is the same at every rnd that fixes them.  After pass 52 ac = 2^-52 is not > epsilon: `fail`. *)
Definition fuel_example_result (r : bell R * R * bell_exit * nat) : Prop :=
  snd (fst (fst r)) = 0 /\ snd (fst r) = BX_fail_loop /\ snd r = 52%nat.

Section BellFuelExample.
  Variable rnd : R -> R.
  Hypothesis fx_0 : rnd 0 = 0.
  Hypothesis fx_odd : forall x, rnd (- x) = - rnd x.
  Hypothesis fx_pow : forall z, (-1074 <= z)%Z -> rnd (powerRZ 2 z) = powerRZ 2 z.

  Let P (z : Z) : R := powerRZ 2 z.
  Lemma fx_P_pos z : 0 < P z. Proof. apply powerRZ_lt. lra. Qed.
  Lemma fx_P_S z : P (z + 1) = 2 * P z. Proof. unfold P. rewrite powerRZ_add by lra. simpl. ring. Qed.
  Lemma fx_P_pred z : P (z - 1) = P z * / 2. Proof. unfold P. unfold Z.sub. rewrite powerRZ_add by lra. simpl. field. Qed.
  Lemma fx_P_add y z : P (y + z) = P y * P z. Proof. unfold P. apply powerRZ_add. lra. Qed.
  Lemma fx_P_lt y z : (y < z)%Z -> P y < P z.
  Proof. intros L. unfold P. rewrite <- !bpow2_powerRZ. apply bpow_lt. exact L. Qed.
  Lemma fx_1 : rnd 1 = 1. Proof. exact (fx_pow 0 ltac:(lia)). Qed.
  Lemma fx_2 : rnd 2 = 2. Proof. pose proof (fx_pow 1 ltac:(lia)) as E. simpl in E. rewrite Rmult_1_r in E. exact E. Qed.
  Lemma fx_4 : rnd 4 = 4.
  Proof. pose proof (fx_pow 2 ltac:(lia)) as E. simpl in E. replace (2 * (2 * 1)) with 4 in E by ring. exact E. Qed.
  Lemma fx_h : rnd (/ 2) = / 2. Proof. pose proof (fx_pow (-1) ltac:(lia)) as E. simpl in E. rewrite Rmult_1_r in E. exact E. Qed.
  Lemma fx_11 : rnd (1 + 1) = 2. Proof. replace (1 + 1) with 2 by ring. exact fx_2. Qed.
  Lemma fx_hl : 1 * powerRZ 2 (-1) = / 2. Proof. simpl; field. Qed.
  Lemma fx_h2 : / 2 * 2 = 1. Proof. field. Qed.
  Lemma fx_m1 x : 0 - x = - x. Proof. ring. Qed.
  Lemma fx_m2 : Ropp 1 - 1 = Ropp 2. Proof. ring. Qed.
  Lemma fx_div1 x : x / 1 = x. Proof. field. Qed.
  Lemma fx_eps : epsilon (Rnd_ops rnd) = P (-52).
  Proof. unfold epsilon. unfold_rops. rewrite Rmult_1_l. apply fx_pow. lia. Qed.

  Ltac fx_red :=
    cbv beta zeta iota delta [bell_step sat b_set_t b_set_tv b_set_ta b_set_td b_set_taj b_set_tdj b_set_p0 b_set_p1 b_set_v0
     b_set_v1 b_set_vm b_set_jm b_set_am b_set_dm b_t b_tv b_ta b_td b_taj b_tdj b_p0 b_p1 b_v0 b_v1 b_vm b_jm b_am b_dm].
  (* rewriting with the fixed points of rnd; the extra equations are those about the current a = 2^z *)
  Ltac fx_nrm Fa F2a Faa Fa4 F2aa Fh Hq Hs Hm :=
    repeat progress (rewrite ?fx_0, ?fx_1, ?fx_2, ?fx_4, ?fx_hl, ?fx_h, ?fx_11, ?fx_h2, ?Fa, ?F2a, ?Faa, ?Fa4, ?F2aa, ?Fh, ?Hq, ?Hs, ?Hm,
                       ?Rminus_0_r, ?Ropp_0, ?fx_m1, ?fx_m2, ?fx_odd, ?Rmult_0_r, ?Rmult_0_l, ?Rplus_0_r, ?Rplus_0_l,
                       ?Rmult_1_l, ?Rmult_1_r, ?fx_div1).

  Lemma fx_step z c : (-200 <= z)%Z ->
    exists c', bell_step (Rnd_ops rnd) 1 0 0 0 c (P z) (P z) = SCont c' (P (z - 1)) (P (z - 1)).
  Proof.
    intros Hz. set (a := P z).
    assert (Pa : 0 < a) by apply fx_P_pos.
    assert (Fa : rnd a = a) by (apply fx_pow; lia).
    assert (F2a : rnd (2 * a) = 2 * a) by (unfold a; rewrite <- fx_P_S; apply fx_pow; lia).
    assert (Faa : rnd (a * a) = a * a) by (unfold a; rewrite <- fx_P_add; apply fx_pow; lia).
    assert (Fa4 : rnd (a * a * (a * a)) = a * a * (a * a)) by (unfold a; rewrite <- !fx_P_add; apply fx_pow; lia).
    assert (F2aa : rnd (a * a + a * a) = a * a + a * a).
    { replace (a * a + a * a) with (2 * (a * a)) by ring. unfold a. rewrite <- fx_P_add, <- fx_P_S. apply fx_pow. lia. }
    assert (Fh : rnd (a * / 2) = a * / 2) by (unfold a; rewrite <- fx_P_pred; apply fx_pow; lia).
    rewrite fx_P_pred. fold a.
    assert (Hq : (a * a + a * a) / (2 * a) = a) by (field; lra).
    assert (Hs : R_sqrt.sqrt (a * a * (a * a)) = a * a) by (apply sqrt_square; nra).
    assert (Hm : a - a * / 2 = a * / 2) by field.
    fx_red. unfold half. unfold_rops.
    lazymatch goal with |- exists _, (if Rltb ?ta (rnd 0) then _ else _) = _ =>
      assert (Eta : ta = a) by (fx_nrm Fa F2a Faa Fa4 F2aa Fh Hq Hs Hm; reflexivity); rewrite !Eta end.
    rewrite fx_0. destruct (Rltb_spec a 0) as [L|_]; [lra|].
    destruct (Rltb_spec a 0) as [L|_]; [lra|].
    rewrite fx_div1, Fa, fx_2, F2a.
    destruct (Rleb_spec (2 * a) a) as [L|_]; [lra|]. cbn [andb].
    eexists. f_equal; fx_nrm Fa F2a Faa Fa4 F2aa Fh Hq Hs Hm; reflexivity.
  Qed.

  (* entered with am = ac = 2^(m-51), the loop makes m + 1 passes (m continuing ones) and fails on its own test *)
  Lemma fx_loop m : forall f n c, (m < f)%nat -> (m <= 51)%nat ->
    exists c', bell_loop (Rnd_ops rnd) f n 1 0 0 0 c (P (Z.of_nat m - 51)) (P (Z.of_nat m - 51)) = LFail c' BX_fail_loop (n + S m).
  Proof.
    induction m as [|m IH]; intros f n c Hf Hm; (destruct f as [|f]; [lia|]); cbn [bell_loop];
      lazymatch goal with |- context [bell_step _ _ _ _ _ _ (P ?z) _] => destruct (fx_step z c ltac:(lia)) as [c1 E] end;
      rewrite E; rewrite fx_eps; unfold gtb; cbn [ltb Rnd_ops].
    - change (Z.of_nat 0 - 51 - 1)%Z with (-52)%Z. destruct (Rltb_spec (P (-52)) (P (-52))) as [L|_]; [lra|].
      exists c1. f_equal. lia.
    - replace (Z.of_nat (S m) - 51 - 1)%Z with (Z.of_nat m - 51)%Z by lia.
      destruct (Rltb_spec (P (-52)) (P (Z.of_nat m - 51))) as [_|L]; [|exfalso; apply L; apply fx_P_lt; lia].
      destruct (IH f (S n) c1 ltac:(lia) ltac:(lia)) as [c2 E2]. exists c2. rewrite E2. f_equal. lia.
  Qed.

  Ltac fx_cmp :=
    repeat match goal with
           | |- context [Rltb ?a ?b] => destruct (Rltb_spec a b); try (exfalso; lra)
           | |- context [Rleb ?a ?b] => destruct (Rleb_spec a b); try (exfalso; lra)
           | |- context [Reqb ?a ?b] => destruct (Reqb_spec a b); try (exfalso; lra)
           end.
  Ltac fx_val :=
    fx_red; unfold half, sixteenth; unfold_rops; fx_nrm fx_0 fx_0 fx_0 fx_0 fx_0 fx_0 fx_0 fx_0 fx_0; fx_cmp; cbn [orb andb];
    reflexivity.
  (* the statements before the loop, one at a time: a real or boolean local is replaced by its value, a context local is
     substituted as it is *)
  Ltac fx_gstep :=
    lazymatch goal with
    | |- fuel_example_result (let x := ?v in @?B x) =>
        let ty := type of v in
        first [ first [constr_eq ty R | constr_eq ty bool];
                let E := fresh "E" in
                eassert (E : v = _) by fx_val;
                change (fuel_example_result (B v)); rewrite E; clear E; cbv beta iota
              | change (fuel_example_result (B v)); cbv beta iota ]
    | |- fuel_example_result (if ?b then _ else _) =>
        let E := fresh "E" in
        eassert (E : b = _) by fx_val;
        rewrite E; clear E; cbv beta iota
    end.

  (* return value 0, left through `fail` because the loop test became false, after 52 passes - for every fuel >= 52 and
     every previous content of the context *)
  Lemma fx_gen fuel c : (51 < fuel)%nat -> fuel_example_result (bell_gen_b (Rnd_ops rnd) fuel c 1 1 1 0 0 0 0).
  Proof.
    intros Hf. cbv delta [bell_gen_b] beta.
    repeat fx_gstep.
    lazymatch goal with
    | |- fuel_example_result (match bell_loop _ fuel 0%nat 1 0 0 0 ?cc 1 1 with LExit _ _ _ => _ | LFail _ _ _ => _ end) =>
      destruct (fx_loop 51 fuel 0%nat cc Hf (le_n _)) as [c' E] end.
    change (P (Z.of_nat 51 - 51)) with 1 in E. rewrite E.
    unfold fuel_example_result. cbn [fst snd ofZ Rnd_ops Nat.add]. rewrite fx_0. repeat split.
  Qed.
End BellFuelExample.

(* at binary64, with the fuel of the correspondence run: 52 passes, far below the 1077 of bell_gen_fuel_binary64 *)
Lemma rnd64_powerRZ z : (-1074 <= z)%Z -> rnd64 (powerRZ 2 z) = powerRZ 2 z.
Proof.
  intros Hz. rewrite <- bpow2_powerRZ. pose proof (rnd64_dyadic 1 z eq_refl Hz) as E. rewrite Rmult_1_l in E. exact E.
Qed.
Example bell_gen_52_passes_binary64 : forall c,
  fuel_example_result (bell_gen_b (Rnd_ops rnd64) bell_fuel c 1 1 1 0 0 0 0).
Proof.
  intros c. apply fx_gen.
  - exact (mr_0 _ mono_rnd_binary64).
  - exact (mr_opp _ mono_rnd_binary64).
  - exact rnd64_powerRZ.
  - unfold bell_fuel. apply Nat.ltb_lt. vm_compute. reflexivity.
Qed.
(* and with exact arithmetic (rnd = identity) *)
Example bell_gen_52_passes_id : forall c,
  fuel_example_result (bell_gen_b (Rnd_ops (fun x => x)) bell_fuel c 1 1 1 0 0 0 0).
Proof.
  intros c. apply fx_gen; try reflexivity. unfold bell_fuel. apply Nat.ltb_lt. vm_compute. reflexivity.
Qed.
