(* C14, bell-shaped (double-S) velocity profile, planning layer: a_trajbell_gen returning through `exit` produces a
   well-formed context.  One algebra lemma per planning branch, the loop invariant of the bisection on the acceleration
   (induction on the model's fuel; no bound on the number of passes is used), and the assembly for the whole generator.
   Every division and square root on the executed path is shown to be defined (non-zero denominator, non-negative
   radicand). *)
From Coq Require Import Reals ZArith List Lra Lia Bool Psatz.
From LibaV Require Import Common.NumOps Common.ROps C14.TrapDefs C14.BellDefs C14.TrapProofs C14.TrapGenProofs C14.BellProofs.
Import ListNotations.
Local Open Scope R_scope.

Ltac bell_unfold :=
  cbv beta zeta iota delta [bell_step b_set_t b_set_tv b_set_ta b_set_td b_set_taj b_set_tdj b_set_p0 b_set_p1 b_set_v0
     b_set_v1 b_set_vm b_set_jm b_set_am b_set_dm b_t b_tv b_ta b_td b_taj b_tdj b_p0 b_p1 b_v0 b_v1 b_vm b_jm b_am b_dm].

(* the hand-over equations in the direction of travel: JM jerk limit, p >= 0 displacement, w0, w1 boundary velocities *)
Definition shape (JM p w0 w1 : R) (c : bellR) : Prop :=
  0 <= b_taj c /\ 2 * b_taj c <= b_ta c /\ 0 <= b_tdj c /\ 2 * b_tdj c <= b_td c /\ 0 <= b_tv c /\
  b_am c = JM * b_taj c /\ b_dm c = - JM * b_tdj c /\
  b_vm c = w0 + b_am c * (b_ta c - b_taj c) /\ w1 = b_vm c + b_dm c * (b_td c - b_tdj c) /\
  p = (w0 + b_vm c) * b_ta c / 2 + b_vm c * b_tv c + (b_vm c + w1) * b_td c / 2.

Lemma div_neg_num a b : 0 < b -> a / b < 0 -> a < 0.
Proof.
  intros Hb H. apply Rnot_le_lt. intros Ha. assert (0 <= a / b); [|lra].
  unfold Rdiv. apply Rmult_le_pos; [assumption|]. left. apply Rinv_0_lt_compat. assumption.
Qed.

Lemma div_nonneg_num a b : 0 < b -> ~ a / b < 0 -> 0 <= a.
Proof.
  intros Hb H. apply Rnot_lt_le. intros Ha. apply H. unfold Rdiv.
  assert (0 < / b) by (apply Rinv_0_lt_compat; assumption). nra.
Qed.

(* the discriminant of the no-cruise equations is a sum of squares plus 4*am*p *)
Definition Delta (JM am p w0 w1 : R) : R :=
  am * (am / JM) * (am * (am / JM)) + 2 * (w0 * w0 + w1 * w1) + (4 * p - 2 * (am / JM) * (w0 + w1)) * am.

Lemma Delta_nonneg JM am p w0 w1 : 0 < JM -> 0 < am -> 0 <= p -> 0 <= Delta JM am p w0 w1.
Proof.
  intros HJ Ha Hp. unfold Delta.
  replace (am * (am / JM) * (am * (am / JM)) + 2 * (w0 * w0 + w1 * w1) + (4 * p - 2 * (am / JM) * (w0 + w1)) * am)
    with ((am * (am / JM) - (w0 + w1)) * (am * (am / JM) - (w0 + w1)) + (w0 - w1) * (w0 - w1) + 4 * (am * p))
    by (field; lra).
  assert (0 <= am * p) by nra.
  set (X := am * (am / JM) - (w0 + w1)). set (Y := w0 - w1).
  pose proof (Rle_0_sqr X). pose proof (Rle_0_sqr Y). unfold Rsqr in *. lra.
Qed.

(* ---- branch: no cruise phase, both an acceleration and a deceleration phase (the loop's third acceptance) *)
Lemma both_alg JM am p w0 w1 S :
  0 < JM -> 0 < am -> 0 <= S -> S * S = Delta JM am p w0 w1 ->
  let tj := am / JM in
  let ta := (am * tj + S - 2 * w0) / (2 * am) in
  let td := (am * tj + S - 2 * w1) / (2 * am) in
  let vm := w0 + am * (ta - tj) in
  0 < tj /\ am = JM * tj /\ - am = - JM * tj /\ w1 = vm + - am * (td - tj) /\
  p = (w0 + vm) * ta / 2 + vm * 0 + (vm + w1) * td / 2.
Proof.
  intros HJ Ha HS HSS tj ta td vm.
  assert (Htj : 0 < tj) by (unfold tj; apply Rdiv_lt_0_compat; assumption).
  assert (Hp : p = (S * S - am * tj * (am * tj) - 2 * (w0 * w0 + w1 * w1) + 2 * tj * (w0 + w1) * am) / (4 * am)).
  { rewrite HSS. unfold Delta, tj. field. lra. }
  repeat split.
  - exact Htj.
  - unfold tj. field. lra.
  - unfold tj. field. lra.
  - unfold vm, ta, td. field. lra.
  - rewrite Hp. unfold vm, ta, td. field. lra.
Qed.

(* a negative acceleration time means: the start is faster than the end and the mean velocity is positive *)
Lemma neg_time_signs JM am p w0 w1 S :
  0 < JM -> 0 < am -> 0 <= p -> 0 <= S -> S * S = Delta JM am p w0 w1 ->
  (am * (am / JM) + S - 2 * w0) / (2 * am) < 0 -> w1 < w0 /\ 0 < w0 + w1.
Proof.
  intros HJ Ha Hp HS HSS Hneg.
  assert (HA : 0 < am * (am / JM)).
  { apply Rmult_lt_0_compat; [assumption|apply Rdiv_lt_0_compat; assumption]. }
  set (A := am * (am / JM)) in *.
  apply div_neg_num in Hneg; [|lra].
  assert (HD : Delta JM am p w0 w1 = A * A + 2 * (w0 * w0 + w1 * w1) + 4 * (am * p) - 2 * A * (w0 + w1)).
  { unfold Delta, A. field. lra. }
  assert (Hamp : 0 <= am * p) by nra.
  assert (Hsq : S * S < (2 * w0 - A) * (2 * w0 - A)) by nra.
  rewrite HSS, HD in Hsq.
  assert (Hprod : (w1 - w0) * (w0 + w1 - A) < 0) by nra.
  assert (Hlt : w1 < w0).
  { apply Rnot_le_lt. intros Hge. assert (0 <= (w1 - w0) * (w0 + w1 - A)); [|lra]. apply Rmult_le_pos; lra. }
  split; [exact Hlt|]. assert (0 < w0 + w1 - A); [|lra]. nra.
Qed.

(* ---- branch: deceleration phase only (the loop's first acceptance) *)
Lemma noacc_alg JM p w0 w1 :
  0 < JM -> 0 <= p -> w1 < w0 -> 0 < w0 + w1 ->
  let T := JM * (JM * p * p + (w1 - w0) * (w0 + w1) * (w0 + w1)) in
  ~ T < 0 ->
  let td := 2 * p / (w0 + w1) in
  let tdj := (JM * p - R_sqrt.sqrt T) / (JM * (w0 + w1)) in
  0 <= tdj /\ 2 * tdj <= td /\ w1 = w0 + - JM * tdj * (td - tdj) /\
  p = (w0 + w0) * 0 / 2 + w0 * 0 + (w0 + w1) * td / 2.
Proof.
  intros HJ Hp Hlt Hs T HT td tdj.
  assert (HT0 : 0 <= T) by lra.
  pose proof (sqrt_pos T) as HR0. pose proof (sqrt_sqrt T HT0) as HRR.
  set (R := R_sqrt.sqrt T) in *.
  assert (Hden : 0 < JM * (w0 + w1)) by (apply Rmult_lt_0_compat; assumption).
  assert (HRle : R <= JM * p).
  { assert (0 <= JM * p) by nra. apply Rnot_lt_le. intros Hgt.
    assert (JM * p * (JM * p) < R * R) by nra. rewrite HRR in H0. unfold T in H0.
    assert (0 < (w0 - w1) * ((w0 + w1) * (w0 + w1))) by (apply Rmult_lt_0_compat; nra). nra. }
  repeat split.
  - unfold tdj. apply Rmult_le_pos; [lra|]. left. apply Rinv_0_lt_compat. assumption.
  - unfold tdj, td.
    replace (2 * p / (w0 + w1)) with (2 * ((JM * p) / (JM * (w0 + w1)))) by (field; lra).
    apply Rmult_le_compat_l; [lra|]. unfold Rdiv. apply Rmult_le_compat_r; [left; apply Rinv_0_lt_compat; assumption|lra].
  - apply Rminus_diag_uniq.
    replace (w1 - (w0 + - JM * tdj * (td - tdj))) with ((JM * (JM * p * p + (w1 - w0) * (w0 + w1) * (w0 + w1)) - R * R) / (JM * ((w0 + w1) * (w0 + w1))))
      by (unfold tdj, td; field; lra).
    rewrite HRR. unfold T. field. lra.
  - unfold td. field. lra.
Qed.

(* ---- branch: acceleration phase only (the loop's second acceptance) *)
Lemma nodec_alg JM p w0 w1 :
  0 < JM -> 0 <= p -> w0 < w1 -> 0 < w0 + w1 ->
  let T := JM * (JM * p * p + (w0 - w1) * (w0 + w1) * (w0 + w1)) in
  ~ T < 0 ->
  let ta := 2 * p / (w0 + w1) in
  let taj := (JM * p - R_sqrt.sqrt T) / (JM * (w0 + w1)) in
  let vm := w0 + JM * taj * (ta - taj) in
  0 <= taj /\ 2 * taj <= ta /\ vm = w1 /\
  p = (w0 + vm) * ta / 2 + vm * 0 + (vm + w1) * 0 / 2.
Proof.
  intros HJ Hp Hlt Hs T HT ta taj vm.
  assert (HT0 : 0 <= T) by lra.
  pose proof (sqrt_pos T) as HR0. pose proof (sqrt_sqrt T HT0) as HRR.
  set (R := R_sqrt.sqrt T) in *.
  assert (Hden : 0 < JM * (w0 + w1)) by (apply Rmult_lt_0_compat; assumption).
  assert (HRle : R <= JM * p).
  { assert (0 <= JM * p) by nra. apply Rnot_lt_le. intros Hgt.
    assert (JM * p * (JM * p) < R * R) by nra. rewrite HRR in H0. unfold T in H0.
    assert (0 < (w1 - w0) * ((w0 + w1) * (w0 + w1))) by (apply Rmult_lt_0_compat; nra). nra. }
  assert (Hvm : vm = w1).
  { apply Rminus_diag_uniq.
    replace (vm - w1) with ((JM * (JM * p * p + (w0 - w1) * (w0 + w1) * (w0 + w1)) - R * R) / (JM * ((w0 + w1) * (w0 + w1))))
      by (unfold vm, taj, ta; field; lra).
    rewrite HRR. unfold T. field. lra. }
  repeat split.
  - unfold taj. apply Rmult_le_pos; [lra|]. left. apply Rinv_0_lt_compat. assumption.
  - unfold taj, ta.
    replace (2 * p / (w0 + w1)) with (2 * ((JM * p) / (JM * (w0 + w1)))) by (field; lra).
    apply Rmult_le_compat_l; [lra|]. unfold Rdiv. apply Rmult_le_compat_r; [left; apply Rinv_0_lt_compat; assumption|lra].
  - exact Hvm.
  - rewrite Hvm. unfold ta. field. lra.
Qed.


(* ---- limits of the three loop exits *)
(* the time needed to reach VM from w (distance D = VM - w) under the limit AM is at most the trapezoidal-acceleration
   time for any smaller limit a (arithmetic-geometric mean / monotonicity) *)
Lemma time_le_tri JM a D : 0 < JM -> 0 < a -> 0 <= D -> 2 * R_sqrt.sqrt (D / JM) <= D / a + a / JM.
Proof.
  intros HJ Ha HD.
  assert (Hq : 0 <= D / JM) by (apply Rmult_le_pos; [assumption|left; apply Rinv_0_lt_compat; assumption]).
  pose proof (sqrt_pos (D / JM)) as H0. pose proof (sqrt_sqrt _ Hq) as H1.
  set (r := R_sqrt.sqrt (D / JM)) in *.
  assert (HDq : D = JM * (r * r)) by (rewrite H1; field; lra).
  assert (0 <= D / a + a / JM - 2 * r); [|lra].
  replace (D / a + a / JM - 2 * r) with ((JM * r - a) * (JM * r - a) / (a * JM)) by (rewrite HDq at 1; field; lra).
  apply Rmult_le_pos; [pose proof (Rle_0_sqr (JM * r - a)) as Hq2; unfold Rsqr in Hq2; exact Hq2|].
  left. apply Rinv_0_lt_compat. apply Rmult_lt_0_compat; assumption.
Qed.

Lemma time_le_trp JM AM a D : 0 < JM -> 0 < a <= AM -> ~ D * JM < AM * AM -> AM / JM + D / AM <= D / a + a / JM.
Proof.
  intros HJ Ha Hge. assert (0 <= D / a + a / JM - (AM / JM + D / AM)); [|lra].
  replace (D / a + a / JM - (AM / JM + D / AM)) with ((AM - a) * (D * JM - a * AM) / (a * AM * JM)) by (field; lra).
  apply Rmult_le_pos; [|left; apply Rinv_0_lt_compat; apply Rmult_lt_0_compat; nra].
  apply Rmult_le_pos; [lra|]. assert (a * AM <= AM * AM) by nra. lra.
Qed.

(* the peak velocity of an accepted no-cruise profile is within the limit as soon as the distance does not exceed the one
   needed to reach VM and come back with acceleration limit am *)
Lemma both_vm_bound JM VM am p w0 w1 S :
  0 < JM -> 0 < am -> 0 <= p -> - VM <= w0 <= VM -> - VM <= w1 <= VM -> 0 <= S -> S * S = Delta JM am p w0 w1 ->
  p <= (VM + w0) / 2 * ((VM - w0) / am + am / JM) + (VM + w1) / 2 * ((VM - w1) / am + am / JM) ->
  - VM <= w0 + am * ((am * (am / JM) + S - 2 * w0) / (2 * am) - am / JM) <= VM.
Proof.
  intros HJ Ha Hp Hw0 Hw1 HS HSS Hst.
  assert (HA : 0 < am * (am / JM)).
  { apply Rmult_lt_0_compat; [assumption|apply Rdiv_lt_0_compat; assumption]. }
  replace (w0 + am * ((am * (am / JM) + S - 2 * w0) / (2 * am) - am / JM)) with ((S - am * (am / JM)) / 2) by (field; lra).
  set (A := am * (am / JM)) in *.
  assert (HD : Delta JM am p w0 w1 = A * A + 2 * (w0 * w0 + w1 * w1) + 4 * (am * p) - 2 * A * (w0 + w1)).
  { unfold Delta, A. field. lra. }
  assert (H4 : am * p <= am * ((VM + w0) / 2 * ((VM - w0) / am + am / JM) + (VM + w1) / 2 * ((VM - w1) / am + am / JM)))
    by (apply Rmult_le_compat_l; lra).
  replace (am * ((VM + w0) / 2 * ((VM - w0) / am + am / JM) + (VM + w1) / 2 * ((VM - w1) / am + am / JM)))
    with (((VM * VM - w0 * w0) + (VM + w0) * A + (VM * VM - w1 * w1) + (VM + w1) * A) / 2) in H4 by (unfold A; field; lra).
  assert (Hup : S * S <= (2 * VM + A) * (2 * VM + A)) by (rewrite HSS, HD; nra).
  assert (Hlo : (A - (w0 + w1)) * (A - (w0 + w1)) <= S * S).
  { rewrite HSS, HD. assert (0 <= am * p) by nra. pose proof (Rle_0_sqr (w0 - w1)) as Hq2. unfold Rsqr in Hq2. lra. }
  assert (HVM : 0 <= VM) by lra.
  split.
  - assert (A - (w0 + w1) <= S); [|lra].
    destruct (Rle_dec (A - (w0 + w1)) 0); [lra|]. nra.
  - assert (S <= 2 * VM + A); [|lra]. nra.
Qed.

(* the single-phase exits respect the acceleration limit on a feasible request *)
Definition feas_alg (JM AM p w0 w1 : R) : Prop :=
  AM * AM <= Rabs (w1 - w0) * JM -> (w0 + w1) * (AM * AM + JM * Rabs (w1 - w0)) <= 2 * JM * AM * p.

Lemma single_phase_bound JM AM p s d :
  0 < JM -> 0 < AM -> 0 <= p -> 0 < d -> 0 < s ->
  let T := JM * (JM * p * p + - d * s * s) in
  ~ T < 0 -> (AM * AM <= d * JM -> s * (AM * AM + JM * d) <= 2 * JM * AM * p) ->
  JM * ((JM * p - R_sqrt.sqrt T) / (JM * s)) <= AM.
Proof.
  intros HJ HA Hp Hd Hs T HT Hf.
  assert (HT0 : 0 <= T) by lra.
  pose proof (sqrt_pos T) as HR0. pose proof (sqrt_sqrt T HT0) as HRR.
  set (R := R_sqrt.sqrt T) in *.
  replace (JM * ((JM * p - R) / (JM * s))) with ((JM * p - R) / s) by (field; lra).
  apply Rmult_le_reg_r with (r := s); [assumption|].
  replace ((JM * p - R) / s * s) with (JM * p - R) by (field; lra).
  assert (JM * p - AM * s <= R); [|lra].
  destruct (Rle_dec (JM * p - AM * s) 0) as [Hn|Hn]; [lra|].
  assert (HX : 0 < JM * p - AM * s) by lra.
  assert (Hkey : s * (AM * AM + JM * d) <= 2 * JM * AM * p).
  { destruct (Rle_dec (AM * AM) (d * JM)) as [Hc|Hc]; [apply Hf; assumption|]. nra. }
  assert (Hsq : (JM * p - AM * s) * (JM * p - AM * s) <= R * R).
  { rewrite HRR. unfold T.
    assert (0 <= s * (2 * JM * AM * p - s * (AM * AM + JM * d))) by (apply Rmult_le_pos; lra). nra. }
  nra.
Qed.

(* ------------------------------------------------------------------------------------------------ the bisection loop *)
Definition same_req (c c' : bellR) : Prop :=
  b_p0 c' = b_p0 c /\ b_p1 c' = b_p1 c /\ b_v0 c' = b_v0 c /\ b_v1 c' = b_v1 c /\ b_jm c' = b_jm c /\ b_tv c' = b_tv c.

Lemma same_req_trans a b c : same_req a b -> same_req b c -> same_req a c.
Proof. unfold same_req. intuition congruence. Qed.

Section Loop.
  Variables JM AM VM p w0 w1 : R.
  Hypothesis HJ : 0 < JM.
  Hypothesis HA : 0 < AM.
  Hypothesis Hp : 0 <= p.
  Hypothesis Hw0 : - VM <= w0 <= VM.
  Hypothesis Hw1 : - VM <= w1 <= VM.
  (* what the failed cruise test (tv <= 0) gives: for every acceleration limit a <= AM the distance is at most the one
     needed to reach VM and come back *)
  Hypothesis Hstar : forall a, 0 < a <= AM ->
    p <= (VM + w0) / 2 * ((VM - w0) / a + a / JM) + (VM + w1) / 2 * ((VM - w1) / a + a / JM).

  (* loop invariant: ctx->am, ctx->dm hold the limit and its 16th (the acceptance threshold), the cruise time is 0, and
     the bisection state is the initial one or satisfies ac <= am <= AM - ac *)
  Definition inv (c : bellR) (am ac : R) : Prop :=
    b_am c = AM /\ b_dm c = AM * sixteenth R_ops /\ b_tv c = 0 /\
    ((am = AM /\ ac = AM) \/ (0 < ac /\ ac <= am /\ am <= AM - ac)).

  Definition exit_post (c c' : bellR) (k : bell_exit) : Prop :=
    same_req c c' /\ shape JM p w0 w1 c' /\ (k = BX_both \/ k = BX_noacc \/ k = BX_nodec) /\
    Rabs (b_vm c') <= VM /\
    (k = BX_both \/ feas_alg JM AM p w0 w1 -> b_am c' <= AM /\ - b_dm c' <= AM).

  Lemma inv_am_pos c am ac : inv c am ac -> 0 < am <= AM.
  Proof. intros (_ & _ & _ & [[-> _]|(? & ? & ?)]); lra. Qed.

  (* every pass of the loop evaluates sqrt on a non-negative argument and divides by non-zero numbers *)
  Lemma bell_step_defined c am ac : inv c am ac -> JM <> 0 /\ 2 * am <> 0 /\ 0 <= Delta JM am p w0 w1.
  Proof.
    intros H. pose proof (inv_am_pos c am ac H). repeat split; try lra. apply Delta_nonneg; lra.
  Qed.

  Ltac inv_next := unfold same_req, inv; bcbn; repeat split; try reflexivity; try lra.

  Lemma bell_step_inv c am ac : inv c am ac ->
    match bell_step R_ops JM p w0 w1 c am ac with
    | SExit c' k => exit_post c c' k
    | SFail _ _ => True
    | SCont c' am' ac' => same_req c c' /\ inv c' am' ac'
    end.
  Proof.
    intros Hinv. pose proof (inv_am_pos c am ac Hinv) as Ham.
    destruct c as [t tv ta td taj tdj p0 p1 v0 v1 vm jm amf dmf].
    destruct Hinv as (Ea & Ed & Etv & Hst). bcbn. subst amf dmf tv.
    bell_unfold. unfold_ops. rewrite ?half_R.
    change (am * (am / JM) * (am * (am / JM)) + 2 * (w0 * w0 + w1 * w1) + (4 * p - 2 * (am / JM) * (w0 + w1)) * am)
      with (Delta JM am p w0 w1).
    assert (HD : 0 <= Delta JM am p w0 w1) by (apply Delta_nonneg; lra).
    pose proof (sqrt_pos (Delta JM am p w0 w1)) as HS0. pose proof (sqrt_sqrt _ HD) as HSS.
    set (S := R_sqrt.sqrt (Delta JM am p w0 w1)) in *.
    destruct (Rltb_spec ((am * (am / JM) + S - 2 * w0) / (2 * am)) 0) as [Hta|Hta].
    { (* ta < 0 *)
      destruct (Reqb_spec am AM) as [Eam|Eam]; destruct (Rltb_spec ac (AM * sixteenth R_ops)) as [Hac|Hac]; cbn [orb].
      4: { destruct Hst as [[? ?]|(? & ? & ?)]; [lra|]. inv_next; try (right; lra). }
      all: destruct (Rltb_spec (JM * (JM * p * p + (w1 - w0) * (w0 + w1) * (w0 + w1))) 0) as [HT|HT]; [exact I|].
      all: destruct (neg_time_signs JM am p w0 w1 S HJ (proj1 Ham) Hp HS0 HSS Hta) as [Hlt Hs].
      all: destruct (noacc_alg JM p w0 w1 HJ Hp Hlt Hs HT) as (B1 & B2 & B3 & B4).
      all: unfold exit_post; split; [unfold same_req; bcbn; repeat split; reflexivity|].
      all: split; [unfold shape; bcbn; repeat split; try reflexivity; try lra; assumption|].
      all: split; [right; left; reflexivity|]. all: bcbn.
      all: split; [apply Rabs_le; lra|]. all: intros [Hk|Hf]; [discriminate|].
      all: split; [lra|]. all: rewrite Ropp_mult_distr_l, Ropp_involutive.
      all: assert (Hd : 0 < w0 - w1) by lra.
      all: assert (HT' : ~ JM * (JM * p * p + - (w0 - w1) * (w0 + w1) * (w0 + w1)) < 0)
             by (replace (- (w0 - w1)) with (w1 - w0) by ring; exact HT).
      all: pose proof (single_phase_bound JM AM p (w0 + w1) (w0 - w1) HJ HA Hp Hd Hs HT') as HB.
      all: replace (- (w0 - w1)) with (w1 - w0) in HB by ring. all: apply HB.
      all: unfold feas_alg in Hf; rewrite Rabs_left in Hf by lra.
      all: replace (- (w1 - w0)) with (w0 - w1) in Hf by ring; exact Hf. }
    destruct (Rltb_spec ((am * (am / JM) + S - 2 * w1) / (2 * am)) 0) as [Htd|Htd].
    { (* td < 0 *)
      destruct (Reqb_spec am AM) as [Eam|Eam]; destruct (Rltb_spec ac (AM * sixteenth R_ops)) as [Hac|Hac]; cbn [orb].
      4: { destruct Hst as [[? ?]|(? & ? & ?)]; [lra|]. inv_next; try (right; lra). }
      all: destruct (Rltb_spec (JM * (JM * p * p + (w0 - w1) * (w0 + w1) * (w0 + w1))) 0) as [HT|HT]; [exact I|].
      all: assert (HSS' : S * S = Delta JM am p w1 w0) by (rewrite HSS; unfold Delta; ring).
      all: assert (Htd' : (am * (am / JM) + S - 2 * w1) / (2 * am) < 0) by exact Htd.
      all: destruct (neg_time_signs JM am p w1 w0 S HJ (proj1 Ham) Hp HS0 HSS' Htd') as [Hlt Hs].
      all: assert (Hs' : 0 < w0 + w1) by lra.
      all: destruct (nodec_alg JM p w0 w1 HJ Hp Hlt Hs' HT) as (B1 & B2 & B3 & B4).
      all: unfold exit_post; split; [unfold same_req; bcbn; repeat split; reflexivity|].
      all: split; [unfold shape; bcbn; repeat split; try reflexivity; try lra; assumption|].
      all: split; [right; right; reflexivity|]. all: bcbn.
      all: split; [rewrite B3; apply Rabs_le; lra|]. all: intros [Hk|Hf]; [discriminate|].
      all: split; [|lra].
      all: assert (Hd : 0 < w1 - w0) by lra.
      all: assert (HT' : ~ JM * (JM * p * p + - (w1 - w0) * (w0 + w1) * (w0 + w1)) < 0)
             by (replace (- (w1 - w0)) with (w0 - w1) by ring; exact HT).
      all: pose proof (single_phase_bound JM AM p (w0 + w1) (w1 - w0) HJ HA Hp Hd Hs' HT') as HB.
      all: replace (- (w1 - w0)) with (w0 - w1) in HB by ring. all: apply HB.
      all: unfold feas_alg in Hf; rewrite Rabs_right in Hf by lra; exact Hf. }
    destruct (Rleb_spec (2 * (am / JM)) ((am * (am / JM) + S - 2 * w0) / (2 * am))) as [Ga|Ga];
      destruct (Rleb_spec (2 * (am / JM)) ((am * (am / JM) + S - 2 * w1) / (2 * am))) as [Gd|Gd]; cbn [andb].
    2, 3, 4: destruct Hst as [[? ?]|(? & ? & ?)]; inv_next; try (right; lra).
    destruct (Reqb_spec am AM) as [Eam|Eam]; destruct (Rltb_spec ac (AM * sixteenth R_ops)) as [Hac|Hac]; cbn [orb].
    4: { destruct Hst as [[? ?]|(? & ? & ?)]; [lra|]. inv_next; try (right; lra). }
    all: destruct (both_alg JM am p w0 w1 S HJ (proj1 Ham) HS0 HSS) as (B1 & B2 & B3 & B4 & B5).
    all: pose proof (both_vm_bound JM VM am p w0 w1 S HJ (proj1 Ham) Hp Hw0 Hw1 HS0 HSS (Hstar am Ham)) as HB.
    all: unfold exit_post; split; [unfold same_req; bcbn; repeat split; reflexivity|].
    all: split; [unfold shape; bcbn; repeat split; try reflexivity; try lra; assumption|].
    all: split; [left; reflexivity|]. all: bcbn.
    all: split; [apply Rabs_le; exact HB|]. all: intros _; split; lra.
  Qed.

  Lemma exit_post_trans a b c k : same_req a b -> exit_post b c k -> exit_post a c k.
  Proof. intros H (H1 & H2 & H3). split; [eapply same_req_trans; eassumption|]. split; assumption. Qed.

  (* induction on the fuel: whatever number of passes the loop makes, leaving it through `exit` gives the hand-over
     equations and the limits *)
  Lemma bell_loop_inv fuel : forall n c am ac, inv c am ac ->
    match bell_loop R_ops fuel n JM p w0 w1 c am ac with
    | LExit c' k _ => exit_post c c' k
    | LFail _ _ _ => True
    end.
  Proof.
    induction fuel as [|fuel IH]; intros n c am ac Hinv; cbn [bell_loop]; [exact I|].
    pose proof (bell_step_inv c am ac Hinv) as Hs.
    destruct (bell_step R_ops JM p w0 w1 c am ac) as [c' k|c' k|c' am' ac']; [exact Hs|exact I|].
    destruct Hs as [Hsame Hinv'].
    destruct (gtb R_ops ac' (epsilon R_ops)); [|exact I].
    specialize (IH (S n) c' am' ac' Hinv').
    destruct (bell_loop R_ops fuel (S n) JM p w0 w1 c' am' ac') as [c'' k n'|]; [|exact I].
    eapply exit_post_trans; eassumption.
  Qed.
End Loop.

(* ------------------------------------------------------------------------------------------------ the generator *)
(* The body of a_trajbell_gen after the clamping and mirroring of the request, as a function of the mirrored locals
   (a verbatim copy of that part of BellDefs.bell_gen_b; `bell_gen_core` below checks by conversion that it IS that part). *)
Section Core.
  Context {T : Type} (O : NumOps T).
  Local Notation "x + y" := (add O x y) (at level 50, left associativity).
  Local Notation "x - y" := (sub O x y) (at level 50, left associativity).
  Local Notation "x * y" := (mul O x y) (at level 40, left associativity).
  Local Notation "x / y" := (div O x y) (at level 40, left associativity).
  Local Notation "- x" := (opp O x) (at level 35, right associativity).
  Local Notation "# z" := (ofZ O z%Z) (at level 0, z at level 0).
  Local Notation "x <? y" := (ltb O x y) (at level 70, no associativity).
  Local Notation "x >? y" := (gtb O x y) (at level 70, no associativity).
  Local Notation half := (half O).

  Definition bell_core (fuel : nat) (c : bell T) (jm am vm p v0 v1 : T) : bell T * T * bell_exit * nat :=
    let c := b_set_vm vm c in
    let c := b_set_jm jm c in
    let _tmp := am * am in
    let _2v0 := vm - v0 in
    let acc_tri := _2v0 * jm <? _tmp in
    let c :=
      if acc_tri then
        let c := b_set_taj (sqrt O (_2v0 / jm)) c in
        let c := b_set_ta (#2 * b_taj c) c in
        b_set_am (jm * b_taj c) c
      else
        let c := b_set_taj (am / jm) c in
        let c := b_set_ta (b_taj c + _2v0 / am) c in
        b_set_am am c in
    let _2v1 := vm - v1 in
    let dec_tri := _2v1 * jm <? _tmp in
    let c :=
      if dec_tri then
        let c := b_set_tdj (sqrt O (_2v1 / jm)) c in
        let c := b_set_td (#2 * b_tdj c) c in
        b_set_dm (- jm * b_tdj c) c
      else
        let c := b_set_tdj (am / jm) c in
        let c := b_set_td (b_tdj c + _2v1 / am) c in
        b_set_dm (- am) c in
    let c := b_set_tv (p / vm - half * b_ta c * (#1 + v0 / vm) - half * b_td c * (#1 + v1 / vm)) c in
    let do_exit (c : bell T) (k : bell_exit) (n : nat) :=
      let c := b_set_t (b_ta c + b_tv c + b_td c) c in (c, b_t c, k, n) in
    let do_fail (c : bell T) (k : bell_exit) (n : nat) :=
      let c := b_set_t #0 c in (c, #0, k, n) in
    if b_tv c >? #0 then do_exit c (BX_cruise acc_tri dec_tri) 0%nat else
    let c := b_set_tv #0 c in
    let ac := am in
    let c := b_set_am ac c in
    let c := b_set_dm (ac * sixteenth O) c in
    match bell_loop O fuel 0%nat jm p v0 v1 c am ac with
    | LExit c k n => do_exit c k n
    | LFail c k n => do_fail c k n
    end.

  Lemma bell_gen_core fuel c jm am vm p0 p1 v0 v1 :
    bell_gen_b O fuel c jm am vm p0 p1 v0 v1 =
    (let jm := if jm <? #0 then - jm else jm in
     let am := if am <? #0 then - am else am in
     let vm := if vm <? #0 then - vm else vm in
     if orb (eqb O jm #0) (orb (eqb O am #0) (eqb O vm #0)) then (b_set_t #0 c, #0, BX_fail_zero, 0%nat) else
     let v0 := sat O v0 (- vm) vm in
     let v1 := sat O v1 (- vm) vm in
     let c := b_set_v1 v1 (b_set_v0 v0 (b_set_p1 p1 (b_set_p0 p0 c))) in
     let rev := p0 >? p1 in
     bell_core fuel c jm am vm ((if rev then - p1 else p1) - (if rev then - p0 else p0))
               (if rev then - v0 else v0) (if rev then - v1 else v1)).
  Proof. reflexivity. Qed.
End Core.

Ltac core_unfold :=
  cbv beta zeta iota delta [bell_core b_set_t b_set_tv b_set_ta b_set_td b_set_taj b_set_tdj b_set_p0 b_set_p1 b_set_v0
     b_set_v1 b_set_vm b_set_jm b_set_am b_set_dm b_t b_tv b_ta b_td b_taj b_tdj b_p0 b_p1 b_v0 b_v1 b_vm b_jm b_am b_dm].

(* first block of the generator: the time to reach VM from w with the jerk limit, with (trapezoidal acceleration) or
   without (triangular) reaching the acceleration limit *)
Lemma tri_alg JM AM D : 0 < JM -> 0 < AM -> 0 <= D -> D * JM < AM * AM ->
  let tj := R_sqrt.sqrt (D / JM) in
  0 <= tj /\ 2 * tj <= 2 * tj /\ D = JM * tj * (2 * tj - tj) /\ 0 <= JM * tj <= AM.
Proof.
  intros HJ HA HD Hlt tj.
  assert (Hq : 0 <= D / JM) by (apply Rmult_le_pos; [assumption|left; apply Rinv_0_lt_compat; assumption]).
  pose proof (sqrt_pos (D / JM)) as H0. pose proof (sqrt_sqrt _ Hq) as H1. fold tj in H0, H1.
  assert (HDq : D = JM * (tj * tj)) by (rewrite H1; field; lra).
  assert (G3 : D = JM * tj * (2 * tj - tj)) by (rewrite HDq at 1; ring).
  assert (G4 : 0 <= JM * tj) by nra.
  assert (G5 : JM * tj <= AM).
  { apply Rnot_lt_le. intros Hgt. assert (AM * AM < JM * tj * (JM * tj)) by nra.
    assert (D * JM = JM * tj * (JM * tj)) by (rewrite HDq at 1; ring). lra. }
  repeat split; try assumption; lra.
Qed.

Lemma trp_alg JM AM D : 0 < JM -> 0 < AM -> ~ D * JM < AM * AM ->
  let tj := AM / JM in
  0 <= tj /\ 2 * tj <= tj + D / AM /\ D = AM * (tj + D / AM - tj) /\ AM = JM * tj.
Proof.
  intros HJ HA Hge tj.
  assert (Htj : 0 < tj) by (unfold tj; apply Rdiv_lt_0_compat; assumption).
  assert (G2 : tj <= D / AM).
  { unfold tj. apply Rmult_le_reg_r with (r := AM * JM); [nra|].
    replace (AM / JM * (AM * JM)) with (AM * AM) by (field; lra).
    replace (D / AM * (AM * JM)) with (D * JM) by (field; lra). lra. }
  assert (G3 : D = AM * (tj + D / AM - tj)) by (field; lra).
  assert (G4 : AM = JM * tj) by (unfold tj; field; lra).
  repeat split; try assumption; lra.
Qed.

(* the cruise test failing (tv <= 0) bounds the distance by the one needed to reach VM and come back *)
Lemma star_from_tv VM p w0 w1 ta1 td1 g0 g1 :
  0 < VM -> - VM <= w0 <= VM -> - VM <= w1 <= VM ->
  ~ 0 < p / VM - / 2 * ta1 * (1 + w0 / VM) - / 2 * td1 * (1 + w1 / VM) ->
  ta1 <= g0 -> td1 <= g1 -> p <= (VM + w0) / 2 * g0 + (VM + w1) / 2 * g1.
Proof.
  intros HV H0 H1 Htv L0 L1.
  assert (E : p / VM - / 2 * ta1 * (1 + w0 / VM) - / 2 * td1 * (1 + w1 / VM)
              = (p - ((VM + w0) / 2 * ta1 + (VM + w1) / 2 * td1)) / VM) by (field; lra).
  assert (Hle : p <= (VM + w0) / 2 * ta1 + (VM + w1) / 2 * td1).
  { apply Rnot_lt_le. intros Hgt. apply Htv. rewrite E. apply Rdiv_lt_0_compat; lra. }
  assert ((VM + w0) / 2 * ta1 <= (VM + w0) / 2 * g0) by (apply Rmult_le_compat_l; lra).
  assert ((VM + w1) / 2 * td1 <= (VM + w1) / 2 * g1) by (apply Rmult_le_compat_l; lra).
  lra.
Qed.

Definition core_limits (JM AM VM p w0 w1 : R) (c : bellR) (k : bell_exit) : Prop :=
  match k with
  | BX_cruise _ _ => b_vm c = VM /\ 0 <= b_am c <= AM /\ 0 <= - b_dm c <= AM
  | BX_both | BX_noacc | BX_nodec =>
      Rabs (b_vm c) <= VM /\ (k = BX_both \/ feas_alg JM AM p w0 w1 -> b_am c <= AM /\ - b_dm c <= AM)
  | _ => False
  end.

Definition core_post (c : bellR) (JM AM VM p w0 w1 : R) (r : bellR * R * bell_exit * nat) : Prop :=
  let '(c', t, k, n) := r in
  0 < t ->
  b_p0 c' = b_p0 c /\ b_p1 c' = b_p1 c /\ b_v0 c' = b_v0 c /\ b_v1 c' = b_v1 c /\ b_jm c' = JM /\
  t = b_t c' /\ b_t c' = b_ta c' + b_tv c' + b_td c' /\ shape JM p w0 w1 c' /\ core_limits JM AM VM p w0 w1 c' k.

Theorem bell_core_post fuel c JM AM VM p w0 w1 :
  0 < JM -> 0 < AM -> 0 < VM -> - VM <= w0 <= VM -> - VM <= w1 <= VM -> 0 <= p ->
  core_post c JM AM VM p w0 w1 (bell_core R_ops fuel c JM AM VM p w0 w1).
Proof.
  intros HJ HA HV Hw0 Hw1 Hp.
  destruct c as [t tv ta td taj tdj p0 p1 v0 v1 vm jm amf dmf].
  unfold core_post. core_unfold. unfold_ops. rewrite ?half_R.
  assert (HD0 : 0 <= VM - w0) by lra. assert (HD1 : 0 <= VM - w1) by lra.
  destruct (Rltb_spec ((VM - w0) * JM) (AM * AM)) as [Ca|Ca];
    [destruct (tri_alg JM AM (VM - w0) HJ HA HD0 Ca) as (A1 & A2 & A3 & A4);
     assert (TA : forall a, 0 < a <= AM -> 2 * R_sqrt.sqrt ((VM - w0) / JM) <= (VM - w0) / a + a / JM)
       by (intros a Ha; apply time_le_tri; lra)
    |destruct (trp_alg JM AM (VM - w0) HJ HA Ca) as (A1 & A2 & A3 & A4);
     assert (TA : forall a, 0 < a <= AM -> AM / JM + (VM - w0) / AM <= (VM - w0) / a + a / JM)
       by (intros a Ha; apply time_le_trp; assumption)];
  (destruct (Rltb_spec ((VM - w1) * JM) (AM * AM)) as [Cd|Cd];
    [destruct (tri_alg JM AM (VM - w1) HJ HA HD1 Cd) as (D1 & D2 & D3 & D4);
     assert (TD : forall a, 0 < a <= AM -> 2 * R_sqrt.sqrt ((VM - w1) / JM) <= (VM - w1) / a + a / JM)
       by (intros a Ha; apply time_le_tri; lra)
    |destruct (trp_alg JM AM (VM - w1) HJ HA Cd) as (D1 & D2 & D3 & D4);
     assert (TD : forall a, 0 < a <= AM -> AM / JM + (VM - w1) / AM <= (VM - w1) / a + a / JM)
       by (intros a Ha; apply time_le_trp; assumption)]);
  core_unfold.
  all: match goal with |- context [Rltb 0 ?tv] => destruct (Rltb_spec 0 tv) as [Ctv|Ctv] end.
  (* cruise: the four limit combinations *)
  1, 3, 5, 7: intros _; unfold shape, core_limits; bcbn; repeat split; try reflexivity; try lra; try (field; lra).
  (* no cruise phase: the loop *)
  all: assert (Hstar : forall a, 0 < a <= AM ->
         p <= (VM + w0) / 2 * ((VM - w0) / a + a / JM) + (VM + w1) / 2 * ((VM - w1) / a + a / JM))
       by (intros a Ha; exact (star_from_tv VM p w0 w1 _ _ _ _ HV Hw0 Hw1 Ctv (TA a Ha) (TD a Ha))).
  all: match goal with |- context [bell_loop R_ops ?f 0%nat _ _ _ _ ?c0 _ _] =>
         pose proof (bell_loop_inv JM AM VM p w0 w1 HJ HA Hp Hw0 Hw1 Hstar f 0%nat c0 AM AM) as HL;
         destruct (bell_loop R_ops f 0%nat JM p w0 w1 c0 AM AM) as [c' k n|c' k n] end.
  2, 4, 6, 8: intros; exfalso; lra.
  all: intros _; destruct HL as ((S1 & S2 & S3 & S4 & S5 & S6) & Hshape & Hk & Hvm & Hlim);
       [unfold inv; bcbn; repeat split; try reflexivity; left; split; reflexivity|].
  all: destruct c' as [t' tv' ta' td' taj' tdj' p0' p1' v0' v1' vm' jm' am' dm']; unfold shape in *; bcbn; cbv beta iota.
  all: destruct Hshape as (G1 & G2 & G3 & G4 & G5 & G6 & G7 & G8 & G9 & G10).
  all: repeat split; try assumption; try reflexivity.
  all: destruct Hk as [ -> | [ -> | -> ] ]; unfold core_limits; bcbn; split; assumption.
Qed.

Lemma shape_wf JM p w0 w1 c :
  0 <= JM -> 0 <= p -> shape JM p w0 w1 c -> b_jm c = JM -> b_t c = b_ta c + b_tv c + b_td c ->
  b_v0 c = w0 -> b_v1 c = w1 -> b_p1 c - b_p0 c = p -> WFfwd c.
Proof.
  intros HJ Hp (G1 & G2 & G3 & G4 & G5 & G6 & G7 & G8 & G9 & G10) Ej Et E0 E1 Ep.
  constructor; rewrite ?Ej, ?E0, ?E1; try assumption; try lra.
Qed.

Lemma shape_mirror JM p w0 w1 c : shape JM p w0 w1 c -> shape JM p w0 w1 (mirror c).
Proof. destruct c. exact (fun H => H). Qed.

(* ------------------------------------------------------------------------------------------------ feasibility *)
(* the standard double-S feasibility condition (Biagiotti & Melchiorri, Trajectory Planning for Automatic Machines and
   Robots, 3.17-3.19) on the clamped request seen in the direction of travel: with Tj = min(sqrt(|v1-v0|/jm), am/jm),
   p > Tj (v0+v1) if Tj < am/jm, else p > (v0+v1)/2 (Tj + |v1-v0|/am) *)
Definition feasible_std (JM AM p u0 u1 : R) : Prop :=
  let d := Rabs (u1 - u0) in
  if Rltb (d * JM) (AM * AM) then R_sqrt.sqrt (d / JM) * (u0 + u1) < p
  else (u0 + u1) / 2 * (AM / JM + d / AM) < p.

Definition bell_feasible (jm am vm p0 p1 v0 v1 : R) : Prop :=
  let rev := Rltb p1 p0 in
  let w0 := clampR v0 vm in
  let w1 := clampR v1 vm in
  feasible_std (Rabs jm) (Rabs am) ((if rev then - p1 else p1) - (if rev then - p0 else p0))
               (if rev then - w0 else w0) (if rev then - w1 else w1).

Lemma feasible_alg JM AM p u0 u1 : 0 < JM -> 0 < AM -> feasible_std JM AM p u0 u1 -> feas_alg JM AM p u0 u1.
Proof.
  intros HJ HA. unfold feasible_std, feas_alg. set (d := Rabs (u1 - u0)).
  destruct (Rltb_spec (d * JM) (AM * AM)) as [Hc|Hc]; intros Hf Hge; [exfalso; lra|].
  assert (Hm : (u0 + u1) / 2 * (AM / JM + d / AM) * (2 * JM * AM) < p * (2 * JM * AM)).
  { apply Rmult_lt_compat_r; [|assumption]. apply Rmult_lt_0_compat; lra. }
  replace ((u0 + u1) / 2 * (AM / JM + d / AM) * (2 * JM * AM)) with ((u0 + u1) * (AM * AM + JM * d)) in Hm by (field; lra).
  lra.
Qed.

(* ------------------------------------------------------------------------------------------------ the theorem *)
Definition bell_gen_post (jm am vm p0 p1 v0 v1 : R) (r : bellR * R * bell_exit * nat) : Prop :=
  let '(c, t, k, n) := r in
  0 < t ->
  t = b_t c /\ b_p0 c = p0 /\ b_p1 c = p1 /\ b_v0 c = clampR v0 vm /\ b_v1 c = clampR v1 vm /\ b_jm c = Rabs jm /\
  WFbell c /\ Rabs (b_v0 c) <= Rabs vm /\ Rabs (b_v1 c) <= Rabs vm /\ Rabs (b_vm c) <= Rabs vm /\
  ((k <> BX_noacc /\ k <> BX_nodec) \/ bell_feasible jm am vm p0 p1 v0 v1 -> b_am c <= Rabs am /\ - b_dm c <= Rabs am).

Lemma core_gen_limits JM AM VM p w0 w1 c k : 0 < JM -> 0 < AM -> 0 < VM ->
  core_limits JM AM VM p w0 w1 c k ->
  Rabs (b_vm c) <= VM /\
  ((k <> BX_noacc /\ k <> BX_nodec) \/ feasible_std JM AM p w0 w1 -> b_am c <= AM /\ - b_dm c <= AM).
Proof.
  intros HJ HA HV. destruct k; cbn; try tauto.
  - intros (-> & ? & ?). split; [apply Rabs_le; lra|]. intros _. lra.
  - intros (? & H). split; [assumption|]. intros [[? _]|Hf]; [congruence|]. apply H. right. apply feasible_alg; assumption.
  - intros (? & H). split; [assumption|]. intros [[_ ?]|Hf]; [congruence|]. apply H. right. apply feasible_alg; assumption.
Qed.

Theorem bell_gen_wf fuel c0 jm am vm p0 p1 v0 v1 :
  bell_gen_post jm am vm p0 p1 v0 v1 (bell_gen_b R_ops fuel c0 jm am vm p0 p1 v0 v1).
Proof.
  unfold bell_gen_post, bell_feasible. rewrite bell_gen_core. cbv zeta. unfold_ops. rewrite !abs_if.
  (* zero limits: the generator returns 0 *)
  destruct (Reqb_spec (Rabs jm) 0) as [?|Hjm]; [cbn [orb]; intros; lra|].
  destruct (Reqb_spec (Rabs am) 0) as [?|Ham]; [cbn [orb]; intros; lra|].
  destruct (Reqb_spec (Rabs vm) 0) as [?|Hvm]; [cbn [orb]; intros; lra|]. cbn [orb].
  fold (clampR v0 vm). fold (clampR v1 vm).
  pose proof (clamp_range v0 vm) as Hw0. pose proof (clamp_range v1 vm) as Hw1.
  assert (HJ : 0 < Rabs jm) by (pose proof (Rabs_pos jm); lra).
  assert (HA : 0 < Rabs am) by (pose proof (Rabs_pos am); lra).
  assert (HV : 0 < Rabs vm) by (pose proof (Rabs_pos vm); lra).
  set (JM := Rabs jm) in *. set (AM := Rabs am) in *. set (VM := Rabs vm) in *.
  set (w0 := clampR v0 vm) in *. set (w1 := clampR v1 vm) in *.
  set (cin := b_set_v1 w1 (b_set_v0 w0 (b_set_p1 p1 (b_set_p0 p0 c0)))).
  assert (Ein : b_p0 cin = p0 /\ b_p1 cin = p1 /\ b_v0 cin = w0 /\ b_v1 cin = w1) by (destruct c0; repeat split; reflexivity).
  destruct Ein as (I0 & I1 & I2 & I3).
  destruct (Rltb_spec p1 p0) as [Hrev|Hfwd].
  - (* travelling in the negative direction: the generator plans the mirrored request *)
    assert (Hp : 0 <= - p1 - - p0) by lra.
    assert (Hm0 : - VM <= - w0 <= VM) by lra. assert (Hm1 : - VM <= - w1 <= VM) by lra.
    pose proof (bell_core_post fuel cin JM AM VM (- p1 - - p0) (- w0) (- w1) HJ HA HV Hm0 Hm1 Hp) as HC.
    destruct (bell_core R_ops fuel cin JM AM VM (- p1 - - p0) (- w0) (- w1)) as [[[c t] k] n].
    unfold core_post in HC. intros Ht. destruct (HC Ht) as (E0 & E1 & E2 & E3 & Ej & Et & Ett & Hsh & Hlim).
    rewrite I0 in E0. rewrite I1 in E1. rewrite I2 in E2. rewrite I3 in E3.
    assert (HWF : WFbell c).
    { unfold WFbell, bnorm. rewrite E0, E1. destruct (Rltb_spec p1 p0) as [_|?]; [|exfalso; lra].
      apply (shape_wf JM (- p1 - - p0) (- w0) (- w1)); try lra.
      * apply shape_mirror. exact Hsh.
      * destruct c; exact Ej.
      * destruct c; exact Ett.
      * destruct c; cbn in *; lra.
      * destruct c; cbn in *; lra.
      * destruct c; cbn in *; lra. }
    destruct (core_gen_limits JM AM VM _ _ _ c k HJ HA HV Hlim) as [Lvm Lam].
    split; [assumption|]. do 5 (split; [assumption|]). split; [exact HWF|]. split; [|split; [|split]].
    + rewrite E2. apply Rabs_le. fold VM. lra.
    + rewrite E3. apply Rabs_le. fold VM. lra.
    + exact Lvm.
    + exact Lam.
  - assert (Hp : 0 <= p1 - p0) by lra.
    pose proof (bell_core_post fuel cin JM AM VM (p1 - p0) w0 w1 HJ HA HV Hw0 Hw1 Hp) as HC.
    destruct (bell_core R_ops fuel cin JM AM VM (p1 - p0) w0 w1) as [[[c t] k] n].
    unfold core_post in HC. intros Ht. destruct (HC Ht) as (E0 & E1 & E2 & E3 & Ej & Et & Ett & Hsh & Hlim).
    rewrite I0 in E0. rewrite I1 in E1. rewrite I2 in E2. rewrite I3 in E3.
    assert (HWF : WFbell c).
    { unfold WFbell, bnorm. rewrite E0, E1. destruct (Rltb_spec p1 p0) as [?|_]; [exfalso; lra|].
      apply (shape_wf JM (p1 - p0) w0 w1); try lra; try assumption. }
    destruct (core_gen_limits JM AM VM _ _ _ c k HJ HA HV Hlim) as [Lvm Lam].
    split; [assumption|]. do 5 (split; [assumption|]). split; [exact HWF|]. split; [|split; [|split]].
    + rewrite E2. apply Rabs_le. fold VM. lra.
    + rewrite E3. apply Rabs_le. fold VM. lra.
    + exact Lvm.
    + exact Lam.
Qed.
