(* C14, trapezoidal velocity profile, planning layer: a_trajtrap_gen returning t > 0 on a feasible request produces a
   well-formed context (one lemma per planning branch), and every division / sqrt on the executed path is defined. *)
From Coq Require Import Reals ZArith List Lra Lia Bool Psatz.
From Coquelicot Require Import Rcomplements.
From LibaV Require Import Common.NumOps Common.ROps C14.TrapDefs C14.TrapProofs.
Import ListNotations.
Local Open Scope R_scope.

Definition trap_feasible (ac de p0 p1 : R) : Prop :=
  (p0 <= p1 /\ 0 < ac /\ de < 0) \/ (p1 < p0 /\ ac < 0 /\ 0 < de).

Definition clampR (v vm : R) : R := sat R_ops v (- Rabs vm) (Rabs vm).

Lemma abs_if vm : (if Rltb vm 0 then - vm else vm) = Rabs vm.
Proof. destruct (Rltb_spec vm 0); [rewrite Rabs_left|rewrite Rabs_right]; lra. Qed.

Ltac gen_unfold :=
  cbv beta zeta iota delta [trap_gen_b t_set_t t_set_p0 t_set_p1 t_set_v0 t_set_v1 t_set_vc t_set_ta t_set_td t_set_pa
                            t_set_pd t_set_ac t_set_de t_t t_p0 t_p1 t_v0 t_v1 t_vc t_ta t_td t_pa t_pd t_ac t_de].


Lemma clamp_range v vm : - Rabs vm <= clampR v vm <= Rabs vm.
Proof. unfold clampR. apply sat_range. pose proof (Rabs_pos vm). lra. Qed.


(* direction of travel: the sign of the cruise/peak velocity and of the two accelerations *)
Definition dirn (V vc ac de p : R) : Prop :=
  (vc = V /\ 0 < ac /\ de < 0 /\ 0 <= p) \/ (vc = - V /\ ac < 0 /\ 0 < de /\ p < 0).

Lemma div_sign_nonneg a b : b <> 0 -> 0 <= a * b -> 0 <= a / b.
Proof.
  intros Hb H. replace (a / b) with ((a * b) * / (b * b)) by (field; assumption).
  apply Rmult_le_pos; [assumption|]. left. apply Rinv_0_lt_compat. nra.
Qed.

Lemma div_sign_pos a b : b <> 0 -> 0 < a * b -> 0 < a / b.
Proof.
  intros Hb H. replace (a / b) with ((a * b) * / (b * b)) by (field; assumption).
  apply Rmult_lt_0_compat; [assumption|]. apply Rinv_0_lt_compat. nra.
Qed.

(* ---- branch 1: acceleration, constant velocity, deceleration *)
Lemma cruise_alg V vc ac de p0 p1 w0 w1 :
  dirn V vc ac de (p1 - p0) -> 0 < V -> - V <= w0 <= V -> - V <= w1 <= V ->
  V * V < (w1 * w1 * ac - w0 * w0 * de - 2 * (p1 - p0) * ac * de) / (ac - de) ->
  let ta := (vc - w0) / ac in
  let tdu := (w1 - vc) / de in
  let pa := p0 + w0 * ta + / 2 * ac * ta * ta in
  let pd := p1 - vc * tdu - / 2 * de * tdu * tdu in
  let td := ta + (pd - pa) / vc in
  let t := tdu + td in
  0 <= ta /\ ta <= td /\ td <= t /\ vc = w0 + ac * ta /\ pa = p0 + w0 * ta + ac * ta² / 2 /\
  pd = pa + vc * (td - ta) /\ w1 = vc + de * (t - td) /\ p1 = pd + vc * (t - td) + de * (t - td)² / 2 /\
  Rabs vc <= V.
Proof.
  intros Hd HV Hw0 Hw1 Hvc2. intros.
  set (N := w1 * w1 * ac - w0 * w0 * de - 2 * (p1 - p0) * ac * de) in *.
  assert (Hne : ac <> 0 /\ de <> 0 /\ ac - de <> 0 /\ vc <> 0) by (destruct Hd as [(?&?&?&?)|(?&?&?&?)]; subst; repeat split; lra).
  destruct Hne as (Hac & Hde & Hacde & Hvc).
  assert (HN : N = (N / (ac - de)) * (ac - de)) by (field; assumption).
  set (q := N / (ac - de)) in *.
  assert (Hgap : pd - pa = (N - vc * vc * (ac - de)) / (- 2 * ac * de)).
  { unfold pd, pa, tdu, ta, N. field. repeat split; assumption. }
  assert (Hta : 0 <= ta).
  { unfold ta. apply div_sign_nonneg; [assumption|]. destruct Hd as [(?&?&?&?)|(?&?&?&?)]; subst; nra. }
  assert (Htdu : 0 <= tdu).
  { unfold tdu. apply div_sign_nonneg; [assumption|]. destruct Hd as [(?&?&?&?)|(?&?&?&?)]; subst; nra. }
  assert (Hcr : 0 <= (pd - pa) / vc).
  { apply div_sign_nonneg; [assumption|]. rewrite Hgap.
    assert (0 < - 2 * ac * de) by (destruct Hd as [(?&?&?&?)|(?&?&?&?)]; nra).
    replace ((N - vc * vc * (ac - de)) / (-2 * ac * de) * vc) with (((N - vc * vc * (ac - de)) * vc) / (-2 * ac * de)) by (field; lra).
    apply Rmult_le_pos; [|left; apply Rinv_0_lt_compat; assumption].
    destruct Hd as [(?&?&?&?)|(?&?&?&?)]; subst vc.
    - assert (0 < ac - de) by lra. assert (0 < (q - V * V) * (ac - de)) by (apply Rmult_lt_0_compat; lra). nra.
    - assert (0 < de - ac) by lra. assert (0 < (q - V * V) * (de - ac)) by (apply Rmult_lt_0_compat; lra). nra. }
  repeat split.
  - exact Hta.
  - unfold td. lra.
  - unfold t. lra.
  - unfold ta. field. assumption.
  - unfold pa, Rsqr. field.
  - unfold td. field. assumption.
  - unfold t, tdu. field. assumption.
  - unfold t, pd, Rsqr. field.
  - destruct Hd as [(?&?&?&?)|(?&?&?&?)]; subst vc; [rewrite Rabs_right|rewrite Rabs_left]; lra.
Qed.

Lemma sq_le_le r V : 0 <= r -> 0 < V -> r * r <= V * V -> r <= V.
Proof. intros. nra. Qed.

Lemma sq_ge_abs r w : 0 <= r -> w * w <= r * r -> - r <= w <= r.
Proof. intros. split; nra. Qed.

(* ---- branch 2: acceleration only (the requested final speed is out of reach; the reached one is recorded) *)
Lemma acc_alg V vf ac de p0 p1 w0 w1 :
  let D := w0 * w0 + 2 * (p1 - p0) * ac in
  let vc2 := (w1 * w1 * ac - w0 * w0 * de - 2 * (p1 - p0) * ac * de) / (ac - de) in
  dirn (R_sqrt.sqrt D) vf ac de (p1 - p0) -> 0 < V -> - V <= w0 <= V -> - V <= w1 <= V ->
  ~ V * V < vc2 -> vc2 <= w1 * w1 -> ~ D < 0 ->
  let t := (vf - w0) / ac in
  let pa := p0 + w0 * t + / 2 * ac * t * t in
  0 <= t /\ vf = w0 + ac * t /\ pa = p0 + w0 * t + ac * t² / 2 /\ p1 = pa /\ Rabs vf <= V.
Proof.
  intros D vc2 Hd HV Hw0 Hw1 Hc1 Hc3 Hc4. intros.
  assert (Hne : ac <> 0 /\ de <> 0 /\ ac - de <> 0) by (destruct Hd as [(?&?&?&?)|(?&?&?&?)]; repeat split; lra).
  destruct Hne as (Hac & Hde & Hacde).
  assert (HD : 0 <= D) by lra.
  pose proof (sqrt_pos D) as Hr0. pose proof (sqrt_sqrt D HD) as Hrr.
  set (r := R_sqrt.sqrt D) in *.
  set (N := w1 * w1 * ac - w0 * w0 * de - 2 * (p1 - p0) * ac * de) in *.
  assert (HN : N = vc2 * (ac - de)) by (unfold vc2; field; assumption).
  assert (HND : N = w1 * w1 * ac - de * D) by (unfold N, D; ring).
  assert (HDle : D <= vc2).
  { destruct Hd as [(?&?&?&?)|(?&?&?&?)]; nra. }
  assert (Hff : vf * vf = D) by (destruct Hd as [(?&?&?&?)|(?&?&?&?)]; subst vf; nra).
  repeat split.
  - unfold t. apply div_sign_nonneg; [assumption|].
    assert (- r <= w0 <= r) by (apply sq_ge_abs; [assumption|]; rewrite Hrr; unfold D; destruct Hd as [(?&?&?&?)|(?&?&?&?)]; nra).
    destruct Hd as [(?&?&?&?)|(?&?&?&?)]; subst vf; nra.
  - unfold t. field. assumption.
  - unfold pa, Rsqr. field.
  - unfold pa, t. apply Rminus_diag_uniq.
    replace (p1 - (p0 + w0 * ((vf - w0) / ac) + / 2 * ac * ((vf - w0) / ac) * ((vf - w0) / ac)))
      with ((D - vf * vf) / (2 * ac)) by (unfold D; field; assumption).
    rewrite Hff. field. assumption.
  - assert (r <= V) by (apply sq_le_le; lra).
    destruct Hd as [(?&?&?&?)|(?&?&?&?)]; subst vf; apply Rabs_le; lra.
Qed.

(* ---- branch 3: deceleration only *)
Lemma dec_alg V vf ac de p0 p1 w0 :
  let D := w0 * w0 + 2 * (p1 - p0) * de in
  dirn (R_sqrt.sqrt D) vf ac de (p1 - p0) -> 0 < V -> - V <= w0 <= V -> ~ D < 0 ->
  let t := (vf - w0) / de in
  vf = w0 + de * t /\ p1 = p0 + w0 * t + de * t² / 2 /\ Rabs vf <= V.
Proof.
  intros D Hd HV Hw0 Hc4. intros.
  assert (Hne : ac <> 0 /\ de <> 0 /\ ac - de <> 0) by (destruct Hd as [(?&?&?&?)|(?&?&?&?)]; repeat split; lra).
  destruct Hne as (Hac & Hde & Hacde).
  assert (HD : 0 <= D) by lra.
  pose proof (sqrt_pos D) as Hr0. pose proof (sqrt_sqrt D HD) as Hrr.
  set (r := R_sqrt.sqrt D) in *.
  assert (Hff : vf * vf = D) by (destruct Hd as [(?&?&?&?)|(?&?&?&?)]; subst vf; nra).
  repeat split.
  - unfold t. field. assumption.
  - unfold t, Rsqr. apply Rminus_diag_uniq.
    replace (p1 - (p0 + w0 * ((vf - w0) / de) + de * (((vf - w0) / de) * ((vf - w0) / de)) / 2))
      with ((D - vf * vf) / (2 * de)) by (unfold D; field; assumption).
    rewrite Hff. field. assumption.
  - assert (r <= V).
    { apply sq_le_le; try lra. rewrite Hrr. unfold D. destruct Hd as [(?&?&?&?)|(?&?&?&?)]; nra. }
    destruct Hd as [(?&?&?&?)|(?&?&?&?)]; subst vf; apply Rabs_le; lra.
Qed.

(* ---- branch 4: acceleration, deceleration (peak below the limit) *)
Lemma accdec_alg V vc ac de p0 p1 w0 w1 :
  let vc2 := (w1 * w1 * ac - w0 * w0 * de - 2 * (p1 - p0) * ac * de) / (ac - de) in
  dirn (R_sqrt.sqrt vc2) vc ac de (p1 - p0) -> 0 < V -> - V <= w0 <= V -> - V <= w1 <= V ->
  ~ vc2 <= 0 -> ~ V * V < vc2 ->
  ~ (w0 * w0 < vc2 /\ vc2 <= w1 * w1) -> ~ (vc2 <= w0 * w0 /\ w1 * w1 < vc2) ->
  let t1 := (vc - w0) / ac in
  let pa := p0 + w0 * t1 + / 2 * ac * t1 * t1 in
  let t := t1 + (w1 - vc) / de in
  0 <= t1 /\ t1 <= t /\ vc = w0 + ac * t1 /\ pa = p0 + w0 * t1 + ac * t1² / 2 /\
  w1 = vc + de * (t - t1) /\ p1 = pa + vc * (t - t1) + de * (t - t1)² / 2 /\ Rabs vc <= V.
Proof.
  intros vc2 Hd HV Hw0 Hw1 Hc0 Hc1 Hc2 Hc3. intros.
  assert (Hne : ac <> 0 /\ de <> 0 /\ ac - de <> 0) by (destruct Hd as [(?&?&?&?)|(?&?&?&?)]; repeat split; lra).
  destruct Hne as (Hac & Hde & Hacde).
  assert (HD : 0 <= vc2) by lra.
  pose proof (sqrt_pos vc2) as Hr0. pose proof (sqrt_sqrt vc2 HD) as Hrr.
  set (r := R_sqrt.sqrt vc2) in *.
  set (N := w1 * w1 * ac - w0 * w0 * de - 2 * (p1 - p0) * ac * de) in *.
  assert (HN : N = vc2 * (ac - de)) by (unfold vc2; field; assumption).
  assert (Hff : vc * vc = vc2) by (destruct Hd as [(?&?&?&?)|(?&?&?&?)]; subst vc; nra).
  assert (Hrw0 : Rabs w0 <= r).
  { apply Rnot_lt_le. intros Hlt. assert (vc2 < w0 * w0).
    { rewrite <- Hrr. pose proof (Rabs_pos w0). replace (w0 * w0) with (Rabs w0 * Rabs w0); [nra|].
      unfold Rabs; destruct (Rcase_abs w0); ring. }
    assert (vc2 <= w1 * w1) by (apply Rnot_lt_le; intros ?; apply Hc3; split; lra).
    unfold N in HN. destruct Hd as [(?&?&?&?)|(?&?&?&?)].
    + assert (0 <= (p1 - p0) * (ac * - de)) by (apply Rmult_le_pos; nra).
      assert (vc2 * ac <= w1 * w1 * ac) by nra. assert (vc2 * - de <= w0 * w0 * - de) by nra.
      assert (vc2 * ac < w1 * w1 * ac \/ vc2 * - de < w0 * w0 * - de) by (first [left; nra|right; nra]). nra.
    + assert (0 <= - (p1 - p0) * (- ac * de)) by (apply Rmult_le_pos; nra).
      assert (vc2 * - ac <= w1 * w1 * - ac) by nra. assert (vc2 * de <= w0 * w0 * de) by nra.
      assert (vc2 * - ac < w1 * w1 * - ac \/ vc2 * de < w0 * w0 * de) by (first [left; nra|right; nra]). nra. }
  assert (Hrw1 : Rabs w1 <= r).
  { apply Rnot_lt_le. intros Hlt. assert (vc2 < w1 * w1).
    { rewrite <- Hrr. pose proof (Rabs_pos w1). replace (w1 * w1) with (Rabs w1 * Rabs w1); [nra|].
      unfold Rabs; destruct (Rcase_abs w1); ring. }
    assert (vc2 <= w0 * w0) by (apply Rnot_lt_le; intros ?; apply Hc2; split; lra).
    unfold N in HN. destruct Hd as [(?&?&?&?)|(?&?&?&?)].
    + assert (0 <= (p1 - p0) * (ac * - de)) by (apply Rmult_le_pos; nra).
      assert (vc2 * ac <= w1 * w1 * ac) by nra. assert (vc2 * - de <= w0 * w0 * - de) by nra.
      assert (vc2 * ac < w1 * w1 * ac \/ vc2 * - de < w0 * w0 * - de) by (first [left; nra|right; nra]). nra.
    + assert (0 <= - (p1 - p0) * (- ac * de)) by (apply Rmult_le_pos; nra).
      assert (vc2 * - ac <= w1 * w1 * - ac) by nra. assert (vc2 * de <= w0 * w0 * de) by nra.
      assert (vc2 * - ac < w1 * w1 * - ac \/ vc2 * de < w0 * w0 * de) by (first [left; nra|right; nra]). nra. }
  apply Rabs_le_between in Hrw0. apply Rabs_le_between in Hrw1.
  assert (Ht1 : 0 <= t1).
  { unfold t1. apply div_sign_nonneg; [assumption|]. destruct Hd as [(?&?&?&?)|(?&?&?&?)]; subst vc; nra. }
  assert (Ht2 : 0 <= (w1 - vc) / de).
  { apply div_sign_nonneg; [assumption|]. destruct Hd as [(?&?&?&?)|(?&?&?&?)]; subst vc; nra. }
  repeat split.
  - exact Ht1.
  - unfold t. lra.
  - unfold t1. field. assumption.
  - unfold pa, Rsqr. field.
  - unfold t. field. assumption.
  - unfold t, pa, t1, Rsqr. apply Rminus_diag_uniq.
    match goal with |- ?lhs = 0 =>
      replace lhs with ((vc * vc * (ac - de) - N) / (2 * ac * de)) by (unfold N; field; repeat split; assumption) end.
    rewrite Hff, HN. field. split; assumption.
  - assert (r <= V) by (apply sq_le_le; lra).
    destruct Hd as [(?&?&?&?)|(?&?&?&?)]; subst vc; apply Rabs_le; lra.
Qed.

(* ------------------------------------------------------------------------------------------------ the generator *)
(* every division and square root executed by the generator on the path it took is defined *)
Definition trap_gen_defined (vm ac de p0 p1 v0 v1 : R) (b : trap_branch) : Prop :=
  let w0 := clampR v0 vm in
  let w1 := clampR v1 vm in
  ac - de <> 0 /\ ac <> 0 /\ de <> 0 /\ Rabs vm <> 0 /\
  (b = TB_acc -> 0 <= w0 * w0 + 2 * (p1 - p0) * ac) /\
  (b = TB_dec -> 0 <= w0 * w0 + 2 * (p1 - p0) * de) /\
  (b = TB_accdec -> 0 <= (w1 * w1 * ac - w0 * w0 * de - 2 * (p1 - p0) * ac * de) / (ac - de)).

Definition trap_gen_post (vm ac de p0 p1 v0 v1 : R) (r : trapR * R * trap_branch) : Prop :=
  let '(c, t, b) := r in
  0 < t ->
  WFtrap (Rabs vm) c /\ t = t_t c /\ t_p0 c = p0 /\ t_p1 c = p1 /\ t_v0 c = clampR v0 vm /\
  t_ac c = ac /\ t_de c = de /\
  (b = TB_cruise \/ b = TB_accdec -> t_v1 c = clampR v1 vm) /\
  (b = TB_cruise \/ b = TB_acc \/ b = TB_dec \/ b = TB_accdec) /\
  trap_gen_defined vm ac de p0 p1 v0 v1 b.

Ltac fin := first [assumption | reflexivity | lra | (apply Rabs_le; lra) | (unfold Rsqr in *; lra) | nra].
Ltac finish_post := repeat split; try fin; try discriminate; try (intros [X|X]; discriminate); auto.
Ltac fin0 := first [assumption | reflexivity | lra | (apply Rabs_le; lra) | (unfold Rsqr in *; lra) | nra].

Theorem trap_gen_wf c0 vm ac de p0 p1 v0 v1 :
  trap_feasible ac de p0 p1 ->
  trap_gen_post vm ac de p0 p1 v0 v1 (trap_gen_b R_ops c0 vm ac de p0 p1 v0 v1).
Proof.
  intros Hf.
  pose proof (clamp_range v0 vm) as Hw0. pose proof (clamp_range v1 vm) as Hw1.
  destruct (Req_dec (Rabs vm) 0) as [Hz|Hnz].
  { (* a zero velocity limit: the generator returns 0 *)
    unfold trap_gen_post. gen_unfold. unfold_ops. rewrite !abs_if.
    destruct (Reqb_spec ac de) as [E|_]; [intros; lra|].
    destruct (Reqb_spec (Rabs vm) 0) as [_|?]; [intros; lra|contradiction]. }
  assert (HV : 0 < Rabs vm) by (pose proof (Rabs_pos vm); lra).
  assert (Hne : ac - de <> 0 /\ ac <> 0 /\ de <> 0 /\ Rabs vm <> 0) by (destruct Hf as [(?&?&?)|(?&?&?)]; repeat split; lra).
  assert (Hdir : exists s : bool, Rltb (p1 - p0) 0 = s /\
             forall X, dirn X (if s then - X else X) ac de (p1 - p0)).
  { destruct Hf as [(?&?&?)|(?&?&?)]; [exists false|exists true]; (split; [destruct (Rltb_spec (p1 - p0) 0); [lra||reflexivity|reflexivity||lra]|]);
      intros X; [left|right]; repeat split; lra. }
  destruct Hdir as (s & Hrev & Hdir).
  unfold trap_gen_post, trap_gen_defined.
  gen_unfold. unfold_ops. rewrite !half_R. rewrite !abs_if. rewrite !Hrev.
  fold (clampR v0 vm). fold (clampR v1 vm).
  set (V := Rabs vm) in *. set (w0 := clampR v0 vm) in *. set (w1 := clampR v1 vm) in *.
  set (vc2 := (w1 * w1 * ac - w0 * w0 * de - 2 * (p1 - p0) * ac * de) / (ac - de)).
  destruct (Reqb_spec ac de) as [E|_]; [lra|].
  destruct (Reqb_spec V 0) as [E|_]; [lra|].
  destruct (Rleb_spec vc2 0) as [C0|C0]; [intros; lra|].
  destruct (Rltb_spec (V * V) vc2) as [C1|C1].
  - (* cruise *)
    destruct (cruise_alg V (if s then - V else V) ac de p0 p1 w0 w1 (Hdir V) HV Hw0 Hw1 C1)
      as (A1 & A2 & A3 & A4 & A5 & A6 & A7 & A8 & A9).
    destruct s; gen_unfold; intros Ht; (split; [constructor; tcbn; fin|]); finish_post.
  - destruct (Rltb_spec (w0 * w0) vc2) as [C2|C2]; destruct (Rleb_spec vc2 (w1 * w1)) as [C3|C3]; cbn [andb].
    + (* acceleration only *)
      destruct (Rltb_spec (w0 * w0 + 2 * (p1 - p0) * ac) 0) as [C4|C4]; [intros; lra|].
      destruct (acc_alg V (if s then - R_sqrt.sqrt (w0 * w0 + 2 * (p1 - p0) * ac) else R_sqrt.sqrt (w0 * w0 + 2 * (p1 - p0) * ac))
                  ac de p0 p1 w0 w1 (Hdir _) HV Hw0 Hw1 C1 C3 C4) as (A1 & A2 & A3 & A4 & A5).
      destruct s; gen_unfold; intros Ht; (split; [constructor; tcbn; fin|]); finish_post.
    + (* peak above both boundary speeds: acceleration, deceleration *)
      destruct (Rleb_spec vc2 (w0 * w0)) as [C5|C5]; [lra|]. cbn [andb].
      destruct (accdec_alg V (if s then - R_sqrt.sqrt vc2 else R_sqrt.sqrt vc2) ac de p0 p1 w0 w1 (Hdir _) HV Hw0 Hw1 C0 C1)
        as (A1 & A2 & A3 & A4 & A5 & A6 & A7); [intros [? ?]; unfold vc2 in *; lra|intros [? ?]; unfold vc2 in *; lra|].
      destruct s; gen_unfold; intros Ht; (split; [constructor; tcbn; fin|]); finish_post.
    + destruct (Rleb_spec vc2 (w0 * w0)) as [C5|C5]; destruct (Rltb_spec (w1 * w1) vc2) as [C6|C6]; cbn [andb]; try lra.
      * (* both boundary speeds equal the peak (only possible with p = 0): acceleration, deceleration *)
        destruct (accdec_alg V (if s then - R_sqrt.sqrt vc2 else R_sqrt.sqrt vc2) ac de p0 p1 w0 w1 (Hdir _) HV Hw0 Hw1 C0 C1)
          as (A1 & A2 & A3 & A4 & A5 & A6 & A7); [intros [? ?]; unfold vc2 in *; lra|intros [? ?]; unfold vc2 in *; lra|].
        destruct s; gen_unfold; intros Ht; (split; [constructor; tcbn; fin|]); finish_post.
    + destruct (Rleb_spec vc2 (w0 * w0)) as [C5|C5]; destruct (Rltb_spec (w1 * w1) vc2) as [C6|C6]; cbn [andb]; try lra.
      * (* deceleration only *)
        destruct (Rltb_spec (w0 * w0 + 2 * (p1 - p0) * de) 0) as [C4|C4]; [intros; lra|].
        destruct (dec_alg V (if s then - R_sqrt.sqrt (w0 * w0 + 2 * (p1 - p0) * de) else R_sqrt.sqrt (w0 * w0 + 2 * (p1 - p0) * de))
                    ac de p0 p1 w0 (Hdir _) HV Hw0 C4) as (A1 & A2 & A3).
        destruct s; gen_unfold; intros Ht; (split; [constructor; tcbn; fin|]); finish_post.
Qed.
