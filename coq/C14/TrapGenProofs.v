(* C14, trapezoidal velocity profile, planning layer: a_trajtrap_gen returning t > 0 on a feasible request produces a
   well-formed context (one lemma per planning branch), and every division / sqrt on the executed path is defined. *)
From Coq Require Import Reals ZArith List Lra Lia Bool Psatz.
From LibaV Require Import Common.NumOps Common.ROps C14.TrapDefs C14.TrapProofs.
Import ListNotations.
Local Open Scope R_scope.

Definition trap_feasible (ac de p0 p1 : R) : Prop :=
  (p0 <= p1 /\ 0 < ac /\ de < 0) \/ (p1 < p0 /\ ac < 0 /\ 0 < de).

Definition clampR (v vm : R) : R := sat R_ops v (- Rabs vm) (Rabs vm).

Lemma abs_if vm : (if Rltb vm 0 then - vm else vm) = Rabs vm.
Proof. destruct (Rltb_spec vm 0); [rewrite Rabs_left|rewrite Rabs_right]; lra. Qed.

Goal forall c0 vm ac de p0 p1 v0 v1, vm <> 0 -> trap_feasible ac de p0 p1 ->
  0 < snd (fst (trap_gen_b R_ops c0 vm ac de p0 p1 v0 v1)) -> False.
Proof.
  intros c0 vm ac de p0 p1 v0 v1 Hvm Hf.
  cbv beta zeta delta [trap_gen_b]. unfold_ops. rewrite !half_R. rewrite !abs_if.
  fold (clampR v0 vm). fold (clampR v1 vm).
  set (V := Rabs vm). set (w0 := clampR v0 vm). set (w1 := clampR v1 vm).
  Show.
Abort.
