(* C14 model, part 1: src/trajtrap.c (a_trajtrap_gen/pos/vel/acc), transcribed statement by statement, polymorphic over
   NumOps (R for the theorems, binary64 for the bit-exact run).  No proofs here.
   Conventions: the context is a record of the 12 struct fields (include/a/trajtrap.h); `gen` takes the context it is
   called on (the C writes only some fields on its early `return 0` paths) and returns (context after the call, result).
   C macros are written out: A_SAT(x,lo,hi) = (lo < x ? (x < hi ? x : hi) : lo).  Operation order is the C's
   (left-associative, e.g. 0.5 * ac * ta * ta = ((0.5*ac)*ta)*ta). *)
From Coq Require Import ZArith List.
From LibaV Require Import Common.NumOps.
Import ListNotations.

Record trap (T : Type) := mk_trap {
  t_t : T; t_p0 : T; t_p1 : T; t_v0 : T; t_v1 : T; t_vc : T;
  t_ta : T; t_td : T; t_pa : T; t_pd : T; t_ac : T; t_de : T }.
Arguments mk_trap {T}. Arguments t_t {T}. Arguments t_p0 {T}. Arguments t_p1 {T}. Arguments t_v0 {T}.
Arguments t_v1 {T}. Arguments t_vc {T}. Arguments t_ta {T}. Arguments t_td {T}. Arguments t_pa {T}.
Arguments t_pd {T}. Arguments t_ac {T}. Arguments t_de {T}.

Section Setters.
  Context {T : Type}.
  Local Notation trap := (trap T).
  Definition t_set_t (x : T) (c : trap) : trap :=
    {| t_t := x; t_p0 := t_p0 c; t_p1 := t_p1 c; t_v0 := t_v0 c; t_v1 := t_v1 c; t_vc := t_vc c; t_ta := t_ta c; t_td := t_td c; t_pa := t_pa c; t_pd := t_pd c; t_ac := t_ac c; t_de := t_de c |}.
  Definition t_set_p0 (x : T) (c : trap) : trap :=
    {| t_t := t_t c; t_p0 := x; t_p1 := t_p1 c; t_v0 := t_v0 c; t_v1 := t_v1 c; t_vc := t_vc c; t_ta := t_ta c; t_td := t_td c; t_pa := t_pa c; t_pd := t_pd c; t_ac := t_ac c; t_de := t_de c |}.
  Definition t_set_p1 (x : T) (c : trap) : trap :=
    {| t_t := t_t c; t_p0 := t_p0 c; t_p1 := x; t_v0 := t_v0 c; t_v1 := t_v1 c; t_vc := t_vc c; t_ta := t_ta c; t_td := t_td c; t_pa := t_pa c; t_pd := t_pd c; t_ac := t_ac c; t_de := t_de c |}.
  Definition t_set_v0 (x : T) (c : trap) : trap :=
    {| t_t := t_t c; t_p0 := t_p0 c; t_p1 := t_p1 c; t_v0 := x; t_v1 := t_v1 c; t_vc := t_vc c; t_ta := t_ta c; t_td := t_td c; t_pa := t_pa c; t_pd := t_pd c; t_ac := t_ac c; t_de := t_de c |}.
  Definition t_set_v1 (x : T) (c : trap) : trap :=
    {| t_t := t_t c; t_p0 := t_p0 c; t_p1 := t_p1 c; t_v0 := t_v0 c; t_v1 := x; t_vc := t_vc c; t_ta := t_ta c; t_td := t_td c; t_pa := t_pa c; t_pd := t_pd c; t_ac := t_ac c; t_de := t_de c |}.
  Definition t_set_vc (x : T) (c : trap) : trap :=
    {| t_t := t_t c; t_p0 := t_p0 c; t_p1 := t_p1 c; t_v0 := t_v0 c; t_v1 := t_v1 c; t_vc := x; t_ta := t_ta c; t_td := t_td c; t_pa := t_pa c; t_pd := t_pd c; t_ac := t_ac c; t_de := t_de c |}.
  Definition t_set_ta (x : T) (c : trap) : trap :=
    {| t_t := t_t c; t_p0 := t_p0 c; t_p1 := t_p1 c; t_v0 := t_v0 c; t_v1 := t_v1 c; t_vc := t_vc c; t_ta := x; t_td := t_td c; t_pa := t_pa c; t_pd := t_pd c; t_ac := t_ac c; t_de := t_de c |}.
  Definition t_set_td (x : T) (c : trap) : trap :=
    {| t_t := t_t c; t_p0 := t_p0 c; t_p1 := t_p1 c; t_v0 := t_v0 c; t_v1 := t_v1 c; t_vc := t_vc c; t_ta := t_ta c; t_td := x; t_pa := t_pa c; t_pd := t_pd c; t_ac := t_ac c; t_de := t_de c |}.
  Definition t_set_pa (x : T) (c : trap) : trap :=
    {| t_t := t_t c; t_p0 := t_p0 c; t_p1 := t_p1 c; t_v0 := t_v0 c; t_v1 := t_v1 c; t_vc := t_vc c; t_ta := t_ta c; t_td := t_td c; t_pa := x; t_pd := t_pd c; t_ac := t_ac c; t_de := t_de c |}.
  Definition t_set_pd (x : T) (c : trap) : trap :=
    {| t_t := t_t c; t_p0 := t_p0 c; t_p1 := t_p1 c; t_v0 := t_v0 c; t_v1 := t_v1 c; t_vc := t_vc c; t_ta := t_ta c; t_td := t_td c; t_pa := t_pa c; t_pd := x; t_ac := t_ac c; t_de := t_de c |}.
  Definition t_set_ac (x : T) (c : trap) : trap :=
    {| t_t := t_t c; t_p0 := t_p0 c; t_p1 := t_p1 c; t_v0 := t_v0 c; t_v1 := t_v1 c; t_vc := t_vc c; t_ta := t_ta c; t_td := t_td c; t_pa := t_pa c; t_pd := t_pd c; t_ac := x; t_de := t_de c |}.
  Definition t_set_de (x : T) (c : trap) : trap :=
    {| t_t := t_t c; t_p0 := t_p0 c; t_p1 := t_p1 c; t_v0 := t_v0 c; t_v1 := t_v1 c; t_vc := t_vc c; t_ta := t_ta c; t_td := t_td c; t_pa := t_pa c; t_pd := t_pd c; t_ac := t_ac c; t_de := x |}.
End Setters.

Section Model.
  Context {T : Type} (O : NumOps T).
  Local Notation "x + y" := (add O x y) (at level 50, left associativity).
  Local Notation "x - y" := (sub O x y) (at level 50, left associativity).
  Local Notation "x * y" := (mul O x y) (at level 40, left associativity).
  Local Notation "x / y" := (div O x y) (at level 40, left associativity).
  Local Notation "- x" := (opp O x) (at level 35, right associativity).
  Local Notation "# z" := (ofZ O z%Z) (at level 0, z at level 0).
  Local Notation "x <? y" := (ltb O x y) (at level 70, no associativity).
  Local Notation "x <=? y" := (leb O x y) (at level 70, no associativity).
  Local Notation "x >? y" := (gtb O x y) (at level 70, no associativity).
  Local Notation "x >=? y" := (geb O x y) (at level 70, no associativity).
  Local Notation "x ==? y" := (eqb O x y) (at level 70, no associativity).

  Definition half : T := ofD O 1 (-1).                      (* A_REAL_C(0.5) *)

  (* A_SAT(x, min, max) ((min) < (x) ? (x) < (max) ? (x) : (max) : (min)) *)
  Definition sat (x lo hi : T) : T := if lo <? x then (if x <? hi then x else hi) else lo.

  (* which planning branch a call took (coverage bookkeeping of the model; not part of the C state) *)
  Inductive trap_branch := TB_equal | TB_vm_zero | TB_vc2_nonpos | TB_cruise | TB_acc | TB_acc_neg | TB_dec | TB_dec_neg | TB_accdec.

  (* a_trajtrap_gen, src/trajtrap.c:8-77.  Result: (context, return value, branch). *)
  Definition trap_gen_b (c : trap T) (vm ac de p0 p1 v0 v1 : T) : trap T * T * trap_branch :=
    let p := p1 - p0 in
    let _2p := #2 * p in
    let reversed := p <? #0 in
    if ac ==? de then (c, #0, TB_equal) else
    let vm := if vm <? #0 then - vm else vm in
    if vm ==? #0 then (c, #0, TB_vm_zero) else            (* a zero velocity limit allows no motion (fix b8b7c64) *)
    let v0 := sat v0 (- vm) vm in
    let v1 := sat v1 (- vm) vm in
    let c := t_set_p0 p0 c in
    let c := t_set_p1 p1 c in
    let c := t_set_v0 v0 c in
    let c := t_set_v1 v1 c in
    let v02 := v0 * v0 in
    let v12 := v1 * v1 in
    let vc2 := (v12 * ac - v02 * de - _2p * ac * de) / (ac - de) in
    if vc2 <=? #0 then (c, #0, TB_vc2_nonpos) else
    let finish (c : trap T) (b : trap_branch) :=
      let c := t_set_ac ac c in
      let c := t_set_de de c in
      (c, t_t c, b) in
    if vc2 >? vm * vm then                          (* acceleration, constant velocity, deceleration *)
      let c := t_set_vc (if reversed then - vm else vm) c in
      let c := t_set_ta ((t_vc c - v0) / ac) c in
      let c := t_set_t ((v1 - t_vc c) / de) c in
      let c := t_set_pa (p0 + t_v0 c * t_ta c + half * ac * t_ta c * t_ta c) c in
      let c := t_set_pd (p1 - t_vc c * t_t c - half * de * t_t c * t_t c) c in
      let c := t_set_td (t_ta c + (t_pd c - t_pa c) / t_vc c) c in
      let c := t_set_t (t_t c + t_td c) c in
      finish c TB_cruise
    else if andb (vc2 >? v02) (vc2 <=? v12) then    (* acceleration *)
      let v12 := v02 + _2p * ac in
      if v12 <? #0 then (c, #0, TB_acc_neg) else
      let c := t_set_v1 (sqrt O v12) c in
      let c := if reversed then t_set_v1 (- t_v1 c) c else c in
      let c := t_set_vc (t_v1 c) c in
      let c := t_set_t ((t_v1 c - v0) / ac) c in
      let c := t_set_ta (t_t c) c in
      let c := t_set_td (t_t c) c in
      let c := t_set_pa (p0 + t_v0 c * t_t c + half * ac * t_t c * t_t c) c in
      let c := t_set_pd p1 c in
      finish c TB_acc
    else if andb (vc2 <=? v02) (vc2 >? v12) then    (* deceleration *)
      let v12 := v02 + _2p * de in
      if v12 <? #0 then (c, #0, TB_dec_neg) else
      let c := t_set_v1 (sqrt O v12) c in
      let c := if reversed then t_set_v1 (- t_v1 c) c else c in
      let c := t_set_vc (t_v0 c) c in
      let c := t_set_t ((t_v1 c - v0) / de) c in
      let c := t_set_ta #0 c in
      let c := t_set_td #0 c in
      let c := t_set_pa p0 c in
      let c := t_set_pd p0 c in
      finish c TB_dec
    else                                            (* acceleration, deceleration *)
      let c := t_set_vc (sqrt O vc2) c in
      let c := if reversed then t_set_vc (- t_vc c) c else c in
      let c := t_set_t ((t_vc c - v0) / ac) c in
      let c := t_set_ta (t_t c) c in
      let c := t_set_td (t_t c) c in
      let c := t_set_pa (p0 + t_v0 c * t_t c + half * ac * t_t c * t_t c) c in
      let c := t_set_t (t_t c + (v1 - t_vc c) / de) c in
      let c := t_set_pd (t_pa c) c in
      finish c TB_accdec.

  Definition trap_gen (c : trap T) (vm ac de p0 p1 v0 v1 : T) : trap T * T :=
    fst (trap_gen_b c vm ac de p0 p1 v0 v1).

  (* a_trajtrap_pos, src/trajtrap.c:79-99 *)
  Definition trap_pos (c : trap T) (x : T) : T :=
    if x >=? t_ta c then
      if x <? t_td c then t_pa c + t_vc c * (x - t_ta c)                         (* linear motion *)
      else if x <? t_t c then
        let x := x - t_td c in t_pd c + t_vc c * x + half * t_de c * x * x      (* final blend *)
      else t_p1 c
    else if x >? #0 then t_p0 c + t_v0 c * x + half * t_ac c * x * x            (* initial blend *)
    else t_p0 c.

  (* a_trajtrap_vel, src/trajtrap.c:101-120 *)
  Definition trap_vel (c : trap T) (x : T) : T :=
    if x >=? t_ta c then
      if x <? t_td c then t_vc c
      else if x <? t_t c then t_vc c + t_de c * (x - t_td c)
      else t_v1 c
    else if x >? #0 then t_v0 c + t_ac c * x
    else t_v0 c.

  (* a_trajtrap_acc, src/trajtrap.c:122-139 *)
  Definition trap_acc (c : trap T) (x : T) : T :=
    if x <? t_ta c then
      (if x >=? #0 then t_ac c else #0)
    else if x >=? t_td c then
      (if x <=? t_t c then t_de c else #0)
    else #0.

  (* flat views used by the correspondence run *)
  Definition trap_fields (c : trap T) : list T :=
    [t_t c; t_p0 c; t_p1 c; t_v0 c; t_v1 c; t_vc c; t_ta c; t_td c; t_pa c; t_pd c; t_ac c; t_de c].
  Definition trap_of (l : list T) : trap T :=
    let g i := nth i l #0 in
    mk_trap (g 0%nat) (g 1%nat) (g 2%nat) (g 3%nat) (g 4%nat) (g 5%nat) (g 6%nat) (g 7%nat) (g 8%nat) (g 9%nat)
            (g 10%nat) (g 11%nat).
  Definition trap_branch_code (b : trap_branch) : T :=
    match b with
    | TB_equal => #0 | TB_vc2_nonpos => #1 | TB_cruise => #2 | TB_acc => #3 | TB_acc_neg => #4
    | TB_dec => #5 | TB_dec_neg => #6 | TB_accdec => #7 | TB_vm_zero => #8
    end.
  (* one line of the correspondence: return value, the 12 fields; then the branch code (model only) *)
  Definition trap_gen_line (c0 : list T) (vm ac de p0 p1 v0 v1 : T) : list T :=
    let '(c, r, b) := trap_gen_b (trap_of c0) vm ac de p0 p1 v0 v1 in
    r :: trap_fields c ++ [trap_branch_code b].
  Definition trap_eval_line (c : list T) (xs : list T) : list T :=
    let c := trap_of c in
    flat_map (fun x => [trap_pos c x; trap_vel c x; trap_acc c x]) xs.
End Model.
