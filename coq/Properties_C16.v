(* C16 - Transfer function and RC filters realise their difference equations exactly.
   Model: C16/FilterDefs.v (src/tf.c, a_real_push_fore, include/a/lpf.h, include/a/hpf.h); proofs C16/TfProofs.v, RcProofs.v.
   All theorems over Coq's reals (R_ops); every input sequence, every numerator/denominator order (0 included). *)
From Coq Require Import Reals List.
From Coquelicot Require Import Coquelicot.
From LibaV Require Import Common.NumOps Common.ROps C16.FilterDefs C16.TfProofs C16.RcProofs.
Import ListNotations.
Local Open Scope R_scope.

(* output k from the zero state = sum of numerator coefficients times the most recent inputs (u_k first) minus the sum of
   denominator coefficients times the most recent outputs (y_{k-1} first); missing history counts as zero *)
Theorem C16_tf_difference_equation : forall nm dn us k, (k < length us)%nat ->
  nth k (tf_out nm dn us) 0 =
    dot nm (recent (length nm) (rev (firstn (S k) us)))
  - dot dn (recent (length dn) (rev (firstn k (tf_out nm dn us)))).
Proof. exact tf_difference_eq. Qed.
Print Assumptions C16_tf_difference_equation.

(* the delay lines always hold the most recent inputs / outputs, most recent first, zero padded *)
Theorem C16_tf_state : forall nm dn us,
  let s := fst (tf_run R_ops (tf_init R_ops nm dn) us) in
  input s = recent (length nm) (rev us) /\ output s = recent (length dn) (rev (tf_out nm dn us)).
Proof.
  intros nm dn us. pose proof (tf_state_after nm dn us) as H. cbv zeta in *.
  rewrite hist_after_is_rev in H. cbn [fst snd] in H. rewrite !app_nil_r in H.
  rewrite tf_out_spec. exact H.
Qed.
Print Assumptions C16_tf_state.

Theorem C16_tf_linear : forall nm dn a b us1 us2, length us1 = length us2 ->
  tf_out nm dn (lc a us1 b us2) = lc a (tf_out nm dn us1) b (tf_out nm dn us2).
Proof. exact tf_linear. Qed.
Print Assumptions C16_tf_linear.

Theorem C16_tf_time_invariant : forall nm dn d us, tf_out nm dn (zeros d ++ us) = zeros d ++ tf_out nm dn us.
Proof. exact tf_time_invariant. Qed.
Print Assumptions C16_tf_time_invariant.

Theorem C16_tf_zero_resets : forall nm dn us,
  tf_zero R_ops (fst (tf_run R_ops (tf_init R_ops nm dn) us)) = tf_init R_ops nm dn.
Proof. exact tf_zero_resets. Qed.
Print Assumptions C16_tf_zero_resets.

(* low pass: a convex combination - stays in any interval containing the initial state and the inputs; settles *)
Theorem C16_lpf_convex : forall alpha lo hi, 0 <= alpha <= 1 -> forall xs o,
  lo <= o <= hi -> List.Forall (fun x => lo <= x <= hi) xs ->
  List.Forall (fun y => lo <= y <= hi) (lpf_run R_ops alpha o xs).
Proof. exact lpf_convex. Qed.
Print Assumptions C16_lpf_convex.

Theorem C16_lpf_settles : forall alpha o c, 0 < alpha <= 1 ->
  (forall k, lpf_n alpha o c k - c = (1 - alpha) ^ k * (o - c)) /\ is_lim_seq (fun k => lpf_n alpha o c k) c.
Proof. exact (fun alpha o c H => conj (lpf_const_closed_form alpha o c) (lpf_settles alpha o c H)). Qed.
Print Assumptions C16_lpf_settles.

Theorem C16_lpf_n_is_run : forall alpha c n o k, (k < n)%nat ->
  nth k (lpf_run R_ops alpha o (repeat c n)) 0 = lpf_n alpha o c (S k).
Proof. intros. rewrite lpf_run_eq. apply lpf_outs_const. assumption. Qed.
Print Assumptions C16_lpf_n_is_run.

(* high pass: for a constant input the output decays geometrically to zero *)
Theorem C16_hpf_decays : forall alpha st c, 0 <= alpha < 1 ->
  (forall k, hpf_n alpha (hpf_iter R_ops alpha st c) c k = (alpha ^ k * fst (hpf_iter R_ops alpha st c), c)) /\
  is_lim_seq (fun k => fst (hpf_n alpha (hpf_iter R_ops alpha st c) c k)) 0.
Proof. exact (fun alpha st c H => conj (hpf_const_closed_form alpha st c) (hpf_decays alpha st c H)). Qed.
Print Assumptions C16_hpf_decays.

(* coefficient generators map positive fc, ts strictly inside (0,1) - over the reals; the saturation of the binary64
   evaluation for extreme fc*ts is checked on the C by the correspondence run's grid *)
Theorem C16_lpf_gen_range : forall fc ts, 0 < fc -> 0 < ts -> 0 < lpf_gen R_ops fc ts < 1.
Proof. exact lpf_gen_range. Qed.
Print Assumptions C16_lpf_gen_range.

Theorem C16_hpf_gen_range : forall fc ts, 0 < fc -> 0 < ts -> 0 < hpf_gen R_ops fc ts < 1.
Proof. exact hpf_gen_range. Qed.
Print Assumptions C16_hpf_gen_range.
