(* C16 - Transfer function and RC filters realise their difference equations exactly.
   Model: C16/FilterDefs.v (src/tf.c, a_real_push_fore, include/a/lpf.h, include/a/hpf.h); proofs C16/TfProofs.v, RcProofs.v.
   All theorems over Coq's reals (R_ops); every input sequence, every numerator/denominator order (0 included). *)
From Coq Require Import Reals List.
From Coquelicot Require Import Coquelicot.
From LibaV Require Import Common.NumOps Common.ROps C16.FilterDefs C16.TfProofs C16.RcProofs.
Import ListNotations.
Local Open Scope R_scope.

(* output k from the zero state = sum of numerator coefficients times the most recent inputs (u_k first) minus the sum of
   denominator coefficients times the most recent outputs (y_{k-1} first); missing history counts as zero *)
Theorem C16_tf_difference_equation : forall nm dn us k, (k < length us)%nat ->
  nth k (tf_out nm dn us) 0 =
    dot nm (recent (length nm) (rev (firstn (S k) us)))
  - dot dn (recent (length dn) (rev (firstn k (tf_out nm dn us)))).
Proof. exact tf_difference_eq. Qed.
Print Assumptions C16_tf_difference_equation.

(* the delay lines always hold the most recent inputs / outputs, most recent first, zero padded *)
Theorem C16_tf_state : forall nm dn us,
  let s := fst (tf_run R_ops (tf_init R_ops nm dn) us) in
  input s = recent (length nm) (rev us) /\ output s = recent (length dn) (rev (tf_out nm dn us)).
Proof.
  intros nm dn us. pose proof (tf_state_after nm dn us) as H. cbv zeta in *.
  rewrite hist_after_is_rev in H. cbn [fst snd] in H. rewrite !app_nil_r in H.
  rewrite tf_out_spec. exact H.
Qed.
Print Assumptions C16_tf_state.

Theorem C16_tf_linear : forall nm dn a b us1 us2, length us1 = length us2 ->
  tf_out nm dn (lc a us1 b us2) = lc a (tf_out nm dn us1) b (tf_out nm dn us2).
Proof. exact tf_linear. Qed.
Print Assumptions C16_tf_linear.

Theorem C16_tf_time_invariant : forall nm dn d us, tf_out nm dn (zeros d ++ us) = zeros d ++ tf_out nm dn us.
Proof. exact tf_time_invariant. Qed.
Print Assumptions C16_tf_time_invariant.

Theorem C16_tf_zero_resets : forall nm dn us,
  tf_zero R_ops (fst (tf_run R_ops (tf_init R_ops nm dn) us)) = tf_init R_ops nm dn.
Proof. exact tf_zero_resets. Qed.
Print Assumptions C16_tf_zero_resets.

(* low pass: a convex combination - stays in any interval containing the initial state and the inputs; settles *)
Theorem C16_lpf_convex : forall alpha lo hi, 0 <= alpha <= 1 -> forall xs o,
  lo <= o <= hi -> List.Forall (fun x => lo <= x <= hi) xs ->
  List.Forall (fun y => lo <= y <= hi) (lpf_run R_ops alpha o xs).
Proof. exact lpf_convex. Qed.
Print Assumptions C16_lpf_convex.

Theorem C16_lpf_settles : forall alpha o c, 0 < alpha <= 1 ->
  (forall k, lpf_n alpha o c k - c = (1 - alpha) ^ k * (o - c)) /\ is_lim_seq (fun k => lpf_n alpha o c k) c.
Proof. exact (fun alpha o c H => conj (lpf_const_closed_form alpha o c) (lpf_settles alpha o c H)). Qed.
Print Assumptions C16_lpf_settles.

Theorem C16_lpf_n_is_run : forall alpha c n o k, (k < n)%nat ->
  nth k (lpf_run R_ops alpha o (repeat c n)) 0 = lpf_n alpha o c (S k).
Proof. intros. rewrite lpf_run_eq. apply lpf_outs_const. assumption. Qed.
Print Assumptions C16_lpf_n_is_run.

(* high pass: for a constant input the output decays geometrically to zero *)
Theorem C16_hpf_decays : forall alpha st c, 0 <= alpha < 1 ->
  (forall k, hpf_n alpha (hpf_iter R_ops alpha st c) c k = (alpha ^ k * fst (hpf_iter R_ops alpha st c), c)) /\
  is_lim_seq (fun k => fst (hpf_n alpha (hpf_iter R_ops alpha st c) c k)) 0.
Proof. exact (fun alpha st c H => conj (hpf_const_closed_form alpha st c) (hpf_decays alpha st c H)). Qed.
Print Assumptions C16_hpf_decays.

(* coefficient generators map positive fc, ts strictly inside (0,1) - over the reals; the saturation of the binary64
   evaluation for extreme fc*ts is checked on the C by the correspondence run's grid *)
Theorem C16_lpf_gen_range : forall fc ts, 0 < fc -> 0 < ts -> 0 < lpf_gen R_ops fc ts < 1.
Proof. exact lpf_gen_range. Qed.
Print Assumptions C16_lpf_gen_range.

Theorem C16_hpf_gen_range : forall fc ts, 0 < fc -> 0 < ts -> 0 < hpf_gen R_ops fc ts < 1.
Proof. exact hpf_gen_range. Qed.
Print Assumptions C16_hpf_gen_range.

(* ------------------------------------------------------------------------------------------------------------------
   ROUNDED ARITHMETIC (C16/FilterRound.v): the low pass at Rnd_ops rnd,
       lpf_iter (Rnd_ops rnd) alpha out x = rnd (rnd (out * rnd (1 - alpha)) + rnd (x * alpha)),
   comparisons exact, overflow outside the model.  mono_rnd rnd: rnd monotone, rnd 0 = 0, rnd 1 = 1, rnd (-x) = - rnd x
   (Common/RoundMono.v; binary64 round-to-nearest-even satisfies it, by Flocq). *)
From LibaV Require Import Common.RoundOps Common.RoundFlocq Common.RoundMono C16.FilterRound.

(* C16_lpf_convex does NOT survive rounding: a 3-bit binary round-to-nearest-even format (monotone, odd, idempotent,
   standard model with eps = 1/8), alpha = 5/64, out = x = 5, all numbers of the format: the output 4 is below both *)
Theorem C16_round_lpf_hull_refuted :
  exists (rnd : R -> R) (alpha o x : R),
    mono_rnd rnd /\ idem_rnd rnd /\ std_model rnd (/ 8) 0 /\
    0 <= alpha <= 1 /\ rnd alpha = alpha /\ rnd o = o /\ rnd x = x /\
    lpf_iter (Rnd_ops rnd) alpha o x < Rmin o x.
Proof. exact lpf_hull_refuted. Qed.
Print Assumptions C16_round_lpf_hull_refuted.

(* ... nor in IEEE binary64: alpha = 0x1.999999999999ap-4 (nearest 0.1), out = x = 13 give 13 + 2^-49 *)
Theorem C16_b64_lpf_hull_refuted :
  (exists alpha o x : R,
     0 <= alpha <= 1 /\ rnd64 alpha = alpha /\ rnd64 o = o /\ rnd64 x = x /\
     Rmax o x < lpf_iter (Rnd_ops rnd64) alpha o x) /\
  lpf_iter (Rnd_ops rnd64) (3602879701896397 / 36028797018963968) 13 13 = 13 + / 562949953421312 /\
  ~ (forall alpha lo hi, 0 <= alpha <= 1 -> forall xs o,
       lo <= o <= hi -> List.Forall (fun x => lo <= x <= hi) xs ->
       List.Forall (fun y => lo <= y <= hi) (lpf_run (Rnd_ops rnd64) alpha o xs)).
Proof. exact (conj lpf_hull_refuted_binary64 (conj lpf_rnd64_witness lpf_convex_binary64_refuted)). Qed.
Print Assumptions C16_b64_lpf_hull_refuted.

(* what IS true under monotone rounding, alpha in [0,1], every history: the filter is monotone in state and inputs *)
Theorem C16_round_lpf_mono : forall (rnd : R -> R), mono_rnd rnd -> forall alpha, 0 <= alpha <= 1 ->
  forall xs1 xs2 o1 o2, o1 <= o2 -> Forall2 Rle xs1 xs2 ->
  Forall2 Rle (lpf_run (Rnd_ops rnd) alpha o1 xs1) (lpf_run (Rnd_ops rnd) alpha o2 xs2).
Proof. exact r_lpf_mono. Qed.
Print Assumptions C16_round_lpf_mono.

(* sign preservation: the hulls [0, +oo) and (-oo, 0] survive *)
Theorem C16_round_lpf_sign : forall (rnd : R -> R), mono_rnd rnd -> forall alpha, 0 <= alpha <= 1 -> forall xs o,
  (0 <= o -> List.Forall (fun x => 0 <= x) xs -> List.Forall (fun y => 0 <= y) (lpf_run (Rnd_ops rnd) alpha o xs)) /\
  (o <= 0 -> List.Forall (fun x => x <= 0) xs -> List.Forall (fun y => y <= 0) (lpf_run (Rnd_ops rnd) alpha o xs)).
Proof. exact (fun rnd M alpha Ha xs o => conj (r_lpf_nonneg rnd M alpha Ha xs o) (r_lpf_nonpos rnd M alpha Ha xs o)). Qed.
Print Assumptions C16_round_lpf_sign.

(* the hull statement for an interval [lo,hi] over every history holds exactly when it holds in the two constant
   corner cases *)
Theorem C16_round_lpf_hull_iff_corners : forall (rnd : R -> R), mono_rnd rnd -> forall alpha lo hi,
  0 <= alpha <= 1 -> lo <= hi ->
  ((forall xs o, lo <= o <= hi -> List.Forall (fun x => lo <= x <= hi) xs ->
      List.Forall (fun y => lo <= y <= hi) (lpf_run (Rnd_ops rnd) alpha o xs)) <->
   lo <= lpf_iter (Rnd_ops rnd) alpha lo lo /\ lpf_iter (Rnd_ops rnd) alpha hi hi <= hi).
Proof. exact r_lpf_hull_iff_corners. Qed.
Print Assumptions C16_round_lpf_hull_iff_corners.

(* the weakened hull statement, one step, under the standard model |rnd x - x| <= eps |x| + eta (monotonicity not used):
   lpf_B eps eta A = ((1+eps)^3 - 1) A + eta ((1+eps)^2 A + 2 (1+eps) + 1) *)
Theorem C16_round_lpf_hull_enlarged : forall (rnd : R -> R) eps eta, std_model rnd eps eta -> rnd 1 = 1 ->
  forall alpha o x lo hi A, 0 <= alpha <= 1 ->
  lo <= o <= hi -> lo <= x <= hi -> Rabs lo <= A -> Rabs hi <= A ->
  Rabs (lpf_iter (Rnd_ops rnd) alpha o x - lpf_iter R_ops alpha o x) <= lpf_B eps eta A /\
  lo - lpf_B eps eta A <= lpf_iter (Rnd_ops rnd) alpha o x <= hi + lpf_B eps eta A.
Proof. exact r_lpf_error_and_hull. Qed.
Print Assumptions C16_round_lpf_hull_enlarged.

(* binary64 instances: eps64 = 2^-53, eta64 = 2^-1075 *)
Theorem C16_b64_lpf_mono_sign : forall alpha, 0 <= alpha <= 1 ->
  (forall xs1 xs2 o1 o2, o1 <= o2 -> Forall2 Rle xs1 xs2 ->
     Forall2 Rle (lpf_run (Rnd_ops rnd64) alpha o1 xs1) (lpf_run (Rnd_ops rnd64) alpha o2 xs2)) /\
  (forall xs o, 0 <= o -> List.Forall (fun x => 0 <= x) xs ->
     List.Forall (fun y => 0 <= y) (lpf_run (Rnd_ops rnd64) alpha o xs)).
Proof. exact (fun alpha Ha => conj (b64_lpf_mono alpha Ha) (b64_lpf_nonneg alpha Ha)). Qed.
Print Assumptions C16_b64_lpf_mono_sign.

Theorem C16_b64_lpf_hull_enlarged : forall alpha o x lo hi A, 0 <= alpha <= 1 ->
  lo <= o <= hi -> lo <= x <= hi -> Rabs lo <= A -> Rabs hi <= A ->
  lo - lpf_B eps64 eta64 A <= lpf_iter (Rnd_ops rnd64) alpha o x <= hi + lpf_B eps64 eta64 A.
Proof. exact b64_lpf_hull_enlarged. Qed.
Print Assumptions C16_b64_lpf_hull_enlarged.

(* ------------------------------------------------------------------------------------------------------------------
   ROUNDED ARITHMETIC, the transfer function (C16/TfRound.v): a_tf_iter at Rnd_ops rnd is one recursive summation of the
   rounded products num_i * input_i (added) and den_j * output_j (subtracted), started from 0.  For EVERY pair of orders,
   every state, every std_model rnd eps eta (|rnd v - v| <= eps |v| + eta, rnd 0 = 0); overflow outside the model.
   dot a b = sum a_i b_i, adot a b = sum |a_i b_i| over the common length; U = input delay line after the push, Y = output
   delay line: the CURRENT (already rounded) histories. *)
From LibaV Require Import C16.TfRound.

(* one step, every state: the new state, the reference value (what R_ops returns from the same state), the bound with
   m = number of products formed *)
Theorem C16_round_tf_step : forall (rnd : R -> R) eps eta, std_model rnd eps eta -> forall (s : tf (T := R)) (x : R),
  let inp := push_fore (input s) x in
  let m := (length (combine (num s) inp) + length (combine (den s) (output s)))%nat in
  let y := snd (tf_iter (Rnd_ops rnd) s x) in
  fst (tf_iter (Rnd_ops rnd) s x) = {| num := num s; den := den s; input := inp; output := push_fore (output s) y |} /\
  snd (tf_iter R_ops s x) = dot (num s) inp - dot (den s) (output s) /\
  Rabs (y - (dot (num s) inp - dot (den s) (output s)))
    <= ((1 + eps) ^ (m + 1) - 1) * (adot (num s) inp + adot (den s) (output s)) + 2 * INR m * eta * (1 + eps) ^ (m + 1).
Proof. exact tf_iter_round. Qed.
Print Assumptions C16_round_tf_step.

(* in terms of the orders n = nn + nd, and the classical gamma_(n+1) form *)
Theorem C16_round_tf_step_gamma : forall (rnd : R -> R) eps eta, std_model rnd eps eta -> forall (s : tf (T := R)) (x : R),
  let inp := push_fore (input s) x in
  let n := (length (num s) + length (den s))%nat in
  let y := snd (tf_iter (Rnd_ops rnd) s x) in
  Rabs (y - (dot (num s) inp - dot (den s) (output s)))
    <= ((1 + eps) ^ (n + 1) - 1) * (adot (num s) inp + adot (den s) (output s)) + 2 * INR n * eta * (1 + eps) ^ (n + 1) /\
  (INR (n + 1) * eps < 1 ->
   Rabs (y - (dot (num s) inp - dot (den s) (output s)))
    <= gamma eps (n + 1) * (adot (num s) inp + adot (den s) (output s)) + 2 * INR n * eta * (1 + gamma eps (n + 1))).
Proof.
  intros rnd eps eta M s x. cbv zeta.
  exact (conj (tf_iter_round_orders rnd eps eta M s x) (tf_iter_round_gamma rnd eps eta M s x)).
Qed.
Print Assumptions C16_round_tf_step_gamma.

(* one rounding fewer when rnd is idempotent (and odd, if no numerator product is formed) *)
Theorem C16_round_tf_step_sharp : forall (rnd : R -> R) eps eta, std_model rnd eps eta -> forall (s : tf (T := R)) (x : R),
  (forall v, rnd (rnd v) = rnd v) ->
  let inp := push_fore (input s) x in
  (combine (num s) inp <> [] \/ forall v, rnd (- v) = - rnd v) ->
  let m := (length (combine (num s) inp) + length (combine (den s) (output s)))%nat in
  let y := snd (tf_iter (Rnd_ops rnd) s x) in
  (1 <= m)%nat ->
  Rabs (y - (dot (num s) inp - dot (den s) (output s)))
    <= ((1 + eps) ^ m - 1) * (adot (num s) inp + adot (den s) (output s)) + (2 * INR m - 1) * eta * (1 + eps) ^ m.
Proof. exact tf_iter_round_sharp. Qed.
Print Assumptions C16_round_tf_step_sharp.

(* a whole run from the zero state, every input sequence: the computed outputs satisfy the difference equation of
   C16_tf_difference_equation (with the COMPUTED outputs in the feedback sum) up to the one-step residual
   tf_res_bound eps eta nm dn U Y = ((1+eps)^(n+1) - 1) (adot nm U + adot dn Y) + 2 n eta (1+eps)^(n+1), n = nn + nd *)
Theorem C16_round_tf_run_residual : forall (rnd : R -> R) eps eta, std_model rnd eps eta -> forall nm dn us k,
  (k < length us)%nat ->
  let ys := snd (tf_run (Rnd_ops rnd) (tf_init (Rnd_ops rnd) nm dn) us) in
  let U := recent (length nm) (rev (firstn (S k) us)) in
  let Y := recent (length dn) (rev (firstn k ys)) in
  Rabs (nth k ys 0 - (dot nm U - dot dn Y))
    <= ((1 + eps) ^ (length nm + length dn + 1) - 1) * (adot nm U + adot dn Y)
       + 2 * INR (length nm + length dn) * eta * (1 + eps) ^ (length nm + length dn + 1).
Proof. exact tf_run_round_residual. Qed.
Print Assumptions C16_round_tf_run_residual.

(* the same as an exact statement: the computed output sequence is the exact response (over R) to the inputs with a
   disturbance r_k added at the summing node of step k, |r_k| within the residual bound; hence computed = exact + e with e
   the exact response of the all-pole filter [1]/den to r (no bound on e is claimed: it depends on the stability of 1/den) *)
Theorem C16_round_tf_run_perturbed : forall (rnd : R -> R) eps eta, std_model rnd eps eta -> forall nm dn us,
  let ys := snd (tf_run (Rnd_ops rnd) (tf_init (Rnd_ops rnd) nm dn) us) in
  exists rs, length rs = length us /\
    ys = spec_run_d nm dn [] [] us rs /\
    ys = lc 1 (tf_out nm dn us) 1 (tf_out [1] dn rs) /\
    forall k, (k < length us)%nat ->
      Rabs (nth k rs 0) <= tf_res_bound eps eta nm dn (recent (length nm) (rev (firstn (S k) us)))
                                                (recent (length dn) (rev (firstn k ys))).
Proof.
  intros rnd eps eta M nm dn us ys.
  destruct (tf_run_round_perturbed rnd eps eta M nm dn us) as (rs & Hl & E & B).
  exists rs. split; [exact Hl|]. split; [exact E|]. split; [|exact B].
  change ys with (r_tf_out rnd nm dn us). rewrite E, !tf_out_spec.
  exact (spec_run_d_split nm dn us rs [] [] [] [] Hl eq_refl).
Qed.
Print Assumptions C16_round_tf_run_perturbed.

(* IEEE binary64 (eps64 = 2^-53, eta64 = 2^-1075; rnd64 is idempotent and odd, by Flocq): the sharp one-step bound for
   every state that forms at least one product, and the run *)
Theorem C16_b64_tf_round :
  (forall (s : tf (T := R)) (x : R),
     let inp := push_fore (input s) x in
     let m := (length (combine (num s) inp) + length (combine (den s) (output s)))%nat in
     let y := snd (tf_iter (Rnd_ops rnd64) s x) in
     (1 <= m)%nat ->
     Rabs (y - (dot (num s) inp - dot (den s) (output s)))
       <= ((1 + eps64) ^ m - 1) * (adot (num s) inp + adot (den s) (output s)) + (2 * INR m - 1) * eta64 * (1 + eps64) ^ m) /\
  (forall nm dn us k, (k < length us)%nat ->
     let ys := snd (tf_run (Rnd_ops rnd64) (tf_init (Rnd_ops rnd64) nm dn) us) in
     let U := recent (length nm) (rev (firstn (S k) us)) in
     let Y := recent (length dn) (rev (firstn k ys)) in
     Rabs (nth k ys 0 - (dot nm U - dot dn Y)) <= tf_res_bound eps64 eta64 nm dn U Y).
Proof. exact (conj tf_iter_round_binary64 tf_run_round_binary64). Qed.
Print Assumptions C16_b64_tf_round.

(* ------------------------------------------------------------------------------------------------------------------
   THE PRIMITIVE-FLOAT RUN IS THE ROUNDED-REAL RUN (C16/LpfFloat.v, Common/F64Refine.v).  The theorems above are about
   lpf_iter (Rnd_ops rnd64); the bit-exact correspondence with the C is about lpf_iter F64_ops (Coq's primitive binary64
   floats).  These theorems compose the per-operation link (Flocq's B*_correct through the standard library's
   FloatAxioms) along the program and along a run of ANY length: f2r is the real value of a float, ffinite says
   "neither infinite nor NaN", frel x r := ffinite x = true /\ f2r x = r.  Overflow is handled, not assumed away: the
   one-step theorem needs only |state|, |sample| <= 2^1022, and the run theorems carry the guard on the real-number
   side, where C16_round_lpf_hull_iff_corners discharges it (C16_f64_lpf_run_hull). *)
From Flocq Require Import Core.
From LibaV Require Import Common.FloatOps Common.F64Refine C16.LpfFloat.
Theorem C16_f64_lpf_step_is_rounded_step : forall alpha o x : Floats.PrimFloat.float,
  ffinite alpha = true -> ffinite o = true -> ffinite x = true ->
  0 <= f2r alpha <= 1 -> Rabs (f2r o) <= bpow radix2 1022 -> Rabs (f2r x) <= bpow radix2 1022 ->
  ffinite (lpf_iter F64_ops alpha o x) = true /\
  f2r (lpf_iter F64_ops alpha o x) = lpf_iter (Rnd_ops rnd64) (f2r alpha) (f2r o) (f2r x).
Proof. exact f64_lpf_iter_refines. Qed.
Print Assumptions C16_f64_lpf_step_is_rounded_step.

Theorem C16_f64_lpf_run_is_rounded_run : forall alpha : Floats.PrimFloat.float,
  ffinite alpha = true -> 0 <= f2r alpha <= 1 ->
  forall (xs : list Floats.PrimFloat.float) (o : Floats.PrimFloat.float),
  (ffinite o = true /\ Rabs (f2r o) <= bpow radix2 1022) ->
  List.Forall (fun x => ffinite x = true /\ Rabs (f2r x) <= bpow radix2 1022) xs ->
  List.Forall (fun y => Rabs y <= bpow radix2 1022) (lpf_run (Rnd_ops rnd64) (f2r alpha) (f2r o) (map f2r xs)) ->
  map f2r (lpf_run F64_ops alpha o xs) = lpf_run (Rnd_ops rnd64) (f2r alpha) (f2r o) (map f2r xs) /\
  List.Forall (fun y => ffinite y = true) (lpf_run F64_ops alpha o xs).
Proof. exact f64_lpf_run_values. Qed.
Print Assumptions C16_f64_lpf_run_is_rounded_run.

(* the hull statement on the float side: whenever the two corners are stable in binary64 (the exact criterion of
   C16_round_lpf_hull_iff_corners), EVERY float run on finite data within [-M, M], M <= 2^1022, of any length, stays
   finite and within [-M, M] - no overflow, no NaN *)
Theorem C16_f64_lpf_run_hull : forall (alpha : Floats.PrimFloat.float) (M : R),
  ffinite alpha = true -> 0 <= f2r alpha <= 1 -> 0 <= M <= bpow radix2 1022 ->
  - M <= lpf_iter (Rnd_ops rnd64) (f2r alpha) (- M) (- M) ->
  lpf_iter (Rnd_ops rnd64) (f2r alpha) M M <= M ->
  forall (xs : list Floats.PrimFloat.float) (o : Floats.PrimFloat.float),
  ffinite o = true -> - M <= f2r o <= M ->
  List.Forall (fun x => ffinite x = true /\ - M <= f2r x <= M) xs ->
  List.Forall (fun y => ffinite y = true /\ - M <= f2r y <= M) (lpf_run F64_ops alpha o xs).
Proof. exact f64_lpf_run_hull. Qed.
Print Assumptions C16_f64_lpf_run_hull.

(* the high pass, one step: finite alpha in [0,1], state and sample of magnitude at most 2^1021 - the float step is finite,
   its real value is the rounded-real step, and the stored input is the sample *)
Theorem C16_f64_hpf_step_is_rounded_step : forall alpha o xi x : Floats.PrimFloat.float,
  ffinite alpha = true -> ffinite o = true -> ffinite xi = true -> ffinite x = true ->
  0 <= f2r alpha <= 1 -> Rabs (f2r o) <= bpow radix2 1021 -> Rabs (f2r xi) <= bpow radix2 1021 -> Rabs (f2r x) <= bpow radix2 1021 ->
  (ffinite (fst (hpf_iter F64_ops alpha (o, xi) x)) = true /\
   f2r (fst (hpf_iter F64_ops alpha (o, xi) x)) = fst (hpf_iter (Rnd_ops rnd64) (f2r alpha) (f2r o, f2r xi) (f2r x))) /\
  snd (hpf_iter F64_ops alpha (o, xi) x) = x.
Proof. exact f64_hpf_iter_refines. Qed.
Print Assumptions C16_f64_hpf_step_is_rounded_step.

(* the high-pass run of ANY length: as long as the rounded-real outputs stay within 2^1021 in magnitude (the overflow guard,
   stated on the real side), the float run is the rounded-real run and every float output is finite *)
Theorem C16_f64_hpf_run_is_rounded_run : forall alpha : Floats.PrimFloat.float,
  ffinite alpha = true -> 0 <= f2r alpha <= 1 ->
  forall (xs : list Floats.PrimFloat.float) (o xi : Floats.PrimFloat.float),
  (ffinite o = true /\ Rabs (f2r o) <= bpow radix2 1021) -> (ffinite xi = true /\ Rabs (f2r xi) <= bpow radix2 1021) ->
  List.Forall (fun x => ffinite x = true /\ Rabs (f2r x) <= bpow radix2 1021) xs ->
  List.Forall (fun y => Rabs y <= bpow radix2 1021) (hpf_run (Rnd_ops rnd64) (f2r alpha) (f2r o, f2r xi) (map f2r xs)) ->
  map f2r (hpf_run F64_ops alpha (o, xi) xs) = hpf_run (Rnd_ops rnd64) (f2r alpha) (f2r o, f2r xi) (map f2r xs) /\
  List.Forall (fun y => ffinite y = true) (hpf_run F64_ops alpha (o, xi) xs).
Proof. exact f64_hpf_run_values. Qed.
Print Assumptions C16_f64_hpf_run_is_rounded_run.
