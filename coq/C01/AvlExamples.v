(* C01 -- non-vacuity: concrete, non-trivial states satisfy the hypotheses of the property theorems,
   and the model really rotates / splices (so the theorems are not about a degenerate model). *)
From Coq Require Import ZArith List Bool Lia.
From LibaV Require Import C01.AvlDefs C01.AvlProofs C01.AvlHistory C01.AvlHeap.
Import ListNotations.
Local Open Scope Z_scope.

(* a history with single and double rotations on insert, a duplicate insert, searches, a two-child
   removal with a deep successor splice and a removal that triggers a rotation *)
Definition ex_ops : list op :=
  [Ins 50 1; Ins 30 2; Ins 40 3;            (* double rotation: root becomes 40 *)
   Ins 60 4; Ins 70 5;                      (* single rotation at 50 *)
   Ins 40 6;                                (* duplicate: returns node 3 *)
   Ins 20 7; Ins 10 8; Ins 65 9; Ins 55 10;
   Find 65; Find 66;
   Rem 40;                                  (* root, two children, successor 50 is deep *)
   Rem 10; Rem 20;                          (* left side drains: rotation *)
   Rem 99].                                 (* absent *)

Definition ex_tree : tree :=
  T (T (T E 30 2 0 E) 50 1 0 (T E 55 10 0 E)) 60 4 0 (T (T E 65 9 0 E) 70 5 (-1) E).

Example ex_run :
  run ex_ops E = Some (ex_tree,
    [None; None; None; None; None; Some 3; None; None; None; None; Some 9; None; Some 3; Some 8; Some 7; None]).
Proof. vm_compute. reflexivity. Qed.

Example ex_reachable : reachable ex_tree.
Proof. eexists ex_ops, _. exact ex_run. Qed.

Example ex_fresh : fresh_ids ex_ops [].
Proof. cbn [ex_ops fresh_ids In]. repeat split; intuition discriminate. Qed.

Example ex_nodup : NoDup (ids ex_tree).
Proof. eapply run_nodup_empty; [exact ex_fresh | exact ex_run]. Qed.

Example ex_balanced : Balanced ex_tree /\ height ex_tree = 3 /\ size ex_tree = 6.
Proof. split; [apply balancedb_spec; vm_compute; reflexivity | vm_compute; auto]. Qed.

Example ex_abstract :
  map (fst (a_run ex_ops aempty)) [10; 20; 30; 40; 50; 55; 60; 65; 66; 70; 99] =
  [None; None; Some 2; None; Some 1; Some 10; Some 4; Some 9; None; Some 5; None] /\
  snd (a_run ex_ops aempty) =
  [None; None; None; None; None; Some 3; None; None; None; None; Some 9; None; Some 3; Some 8; Some 7; None].
Proof. vm_compute. auto. Qed.

(* the heap of the example: node 1 (key 50) is the left child of the root 4 and parent of 2 and 10 *)
Example ex_heap :
  lookup (heap_of None ex_tree) 1 = Some (mkcell 50 (Some 2) (Some 10) (Some 4) 0) /\
  lookup (heap_of None ex_tree) 4 = Some (mkcell 60 (Some 1) (Some 5) None 0) /\
  lookup (heap_of None ex_tree) 5 = Some (mkcell 70 (Some 9) None (Some 4) (-1)).
Proof. vm_compute. auto. Qed.

(* the model does what the C case analysis does: each rebalancing case on a minimal input *)
Example ex_grow_rot1 : handle_growth 1 (T E 1 1 1 (T E 2 2 1 (T E 3 3 0 E)))
                       = Some (T (T E 1 1 0 E) 2 2 0 (T E 3 3 0 E), true, TGrot1 1).
Proof. reflexivity. Qed.
Example ex_grow_rot2 : handle_growth (-1) (T (T E 1 1 1 (T E 2 2 0 E)) 3 3 (-1) E)
                       = Some (T (T E 1 1 0 E) 2 2 0 (T E 3 3 0 E), true, TGrot2 (-1) 0).
Proof. reflexivity. Qed.
Example ex_shrink_bal : handle_shrink 1 (T E 1 1 1 (T (T E 2 2 0 E) 3 3 0 (T E 4 4 0 E)))
                       = Some (T (T E 1 1 1 (T E 2 2 0 E)) 3 3 (-1) (T E 4 4 0 E), true, TSrot1bal 1).
Proof. reflexivity. Qed.
(* errors are really produced where the C would dereference null / corrupt the packed factor *)
Example ex_err_rotate : rotate (T E 1 1 0 E) 1 = None.
Proof. reflexivity. Qed.
Example ex_err_factor : add_factor (T E 1 1 1 E) 1 = None.
Proof. reflexivity. Qed.
(* and an unbalanced (non-reachable) state makes handle_growth fail rather than succeed silently *)
Example ex_err_growth : handle_growth 1 (T E 1 1 1 E) = None.
Proof. reflexivity. Qed.
