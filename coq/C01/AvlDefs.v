(* C01 -- executable model of /repo/src/avl.c (a_avl_insert, a_avl_insert_adjust, a_avl_remove,
   a_avl_search and their static helpers).  NO PROOFS IN THIS FILE.

   Representation.  The C tree is a pointer structure; the model is the algebraic tree
       tree := E | T left key id factor right
   where [key] is what the comparator looks at, [id] names the node object (the harness gives every
   node a small integer; "pointers" returned by the API are reported as ids) and [factor] is the
   STORED balance factor (the low two bits of parent_ minus one).  Parent pointers are not stored in
   the tree: [heap_of] computes the canonical pointer structure (left/right/parent/factor per id).

   Control.  The C retraces bottom-up in a loop; the model recurses and passes a flag upward
   ([grew] / [shrunk]).  Every per-node decision is a function with the same case analysis, in the
   same order, on the same quantities as the C function of the same name:
       child set_child add_factor(=a_avl_set_factor) set_factor(=a_avl_set_parent_factor's factor)
       rotate rotate2 handle_growth link_adjust(first level of a_avl_insert_adjust)
       handle_shrink handle_remove(+rem_min = its do-while descent) .
   [sign] is the C's int sign (-1 / +1), factors are Z.

   Where the C would misbehave the model returns an error instead of a value:
     * dereferencing a null child in rotate / rotate2 / handle_growth / handle_shrink / handle_remove
       -> None / IErr / RErr;
     * a_avl_set_factor leaving the range -1..1 (the packed word would become the undefined code 3 or
       borrow from the pointer bits) -> None.
   The proofs show that no error is reachable from the empty tree.

   a_avl_remove takes a node pointer; the model removes by key (descending exactly as a_avl_search
   does); the harness calls a_avl_search first and removes the node it finds. *)

From Coq Require Import ZArith List Bool.
Import ListNotations.
Local Open Scope Z_scope.

Inductive tree : Type :=
| E : tree
| T : tree -> Z -> Z -> Z -> tree -> tree.     (* left key id factor right *)

(* which case of the C fired (coverage evidence only; no theorem depends on tags) *)
Inductive tag : Type :=
| TLinkRoot                 (* insert into the empty tree: insert_adjust returns at !parent *)
| TLinkStop (s : Z)         (* first level of insert_adjust: parent's factor became 0 *)
| TLinkGrow (s : Z)         (* first level: parent's factor became +-1, enter the loop *)
| TG0 (s : Z)               (* handle_growth: cur_factor == 0 *)
| TGstop (s : Z)            (* handle_growth: new_factor == 0 *)
| TGrot1 (s : Z)            (* handle_growth: single rotation *)
| TGrot2 (s e : Z)          (* handle_growth: double rotation, e = factor of E *)
| TDup                      (* insert: comparator returned 0 *)
| TS0 (s : Z)               (* handle_shrink: cur_factor == 0 *)
| TSdec (s : Z)             (* handle_shrink: new_factor == 0 *)
| TSrot1bal (s : Z)         (* handle_shrink: single rotation, node balanced: stop *)
| TSrot1 (s : Z)            (* handle_shrink: single rotation, continue *)
| TSrot2 (s e : Z)          (* handle_shrink: double rotation *)
| TUnlink (c : Z)           (* remove: node misses a child; c = 0 leaf, -1 left child only, 1 right child only *)
| TSpliceChild              (* handle_remove: successor is X->right *)
| TSpliceDeep               (* handle_remove: successor deeper on the left spine of X->right *)
| TAbsent.                  (* remove / search of an absent key *)

(* ---------------------------------------------------------------- node accessors *)

(* a_avl_child *)
Definition child (t : tree) (s : Z) : tree :=
  match t with
  | E => E
  | T l _ _ _ r => if s <? 0 then l else r
  end.

(* a_avl_set_child *)
Definition set_child (t c : tree) (s : Z) : tree :=
  match t with
  | E => E
  | T l k i f r => if s <? 0 then T c k i f r else T l k i f c
  end.

(* the factor part of a_avl_set_parent_factor *)
Definition set_factor (t : tree) (f : Z) : tree :=
  match t with
  | E => E
  | T l k i _ r => T l k i f r
  end.

(* a_avl_set_factor: add [amount]; result must stay in -1..1 *)
Definition add_factor (t : tree) (amount : Z) : option tree :=
  match t with
  | E => None
  | T l k i f r =>
    let f' := f + amount in
    if (-1 <=? f') && (f' <=? 1) then Some (T l k i f' r) else None
  end.

(* ---------------------------------------------------------------- rotations *)

(* a_avl_rotate(root, A, sign): B = child(A,-sign), E = child(B,+sign);
   A.child(-sign) = E; B.child(+sign) = A.  Factors untouched.  Returns the new subtree root B. *)
Definition rotate (A : tree) (s : Z) : option tree :=
  match A with
  | E => None
  | T _ _ _ _ _ =>
    match child A (- s) with
    | E => None
    | T _ _ _ _ _ as B =>
      let Ee := child B s in
      let A' := set_child A Ee (- s) in
      Some (set_child B A' s)
    end
  end.

(* a_avl_rotate2(root, B, A, sign) with B = child(A,-sign) (true at both call sites).
   Returns the new subtree root E. *)
Definition rotate2 (A : tree) (s : Z) : option (tree * Z) :=
  match A with
  | E => None
  | T _ _ _ _ _ =>
    match child A (- s) with
    | E => None
    | T _ _ _ _ _ as B =>
      match child B s with
      | E => None
      | T _ _ _ e _ as Ee =>
        let F := child Ee (- s) in
        let G := child Ee s in
        let A' := set_factor (set_child A G (- s)) (if s * e >=? 0 then 0 else - e) in
        let B' := set_factor (set_child B F s) (if s * e <=? 0 then 0 else - e) in
        Some (set_factor (set_child (set_child Ee A' s) B' (- s)) 0, e)
      end
    end
  end.

(* ---------------------------------------------------------------- insertion *)

(* a_avl_handle_growth(root, parent, node, sign) with node = child(parent, sign).
   Result: new subtree, the C return value (true = done), tag. *)
Definition handle_growth (s : Z) (p : tree) : option (tree * bool * tag) :=
  match p with
  | E => None
  | T _ _ _ cur _ =>
    let new := cur + s in
    if cur =? 0 then
      match add_factor p s with
      | Some p' => Some (p', false, TG0 s)
      | None => None
      end
    else if new =? 0 then
      match add_factor p s with
      | Some p' => Some (p', true, TGstop s)
      | None => None
      end
    else
      match child p s with
      | E => None
      | T _ _ _ fn _ =>
        if s * fn >? 0 then
          (* a_avl_rotate(root, parent, -sign); set_factor(parent,-sign); set_factor(node,-sign) *)
          match rotate p (- s) with
          | None => None
          | Some b =>
            match add_factor (child b (- s)) (- s) with
            | None => None
            | Some a' =>
              match add_factor (set_child b a' (- s)) (- s) with
              | None => None
              | Some b' => Some (b', true, TGrot1 s)
              end
            end
          end
        else
          match rotate2 p (- s) with
          | None => None
          | Some (e', e) => Some (e', true, TGrot2 s e)
          end
      end
  end.

Inductive ires : Type :=
| IDup (id : Z)                                  (* comparator returned 0 at node id *)
| IOk (t : tree) (grew : bool) (tr : list tag)   (* new subtree; did its height grow by one? *)
| IErr.

(* first level of a_avl_insert_adjust: parent of the freshly linked leaf *)
Definition link_adjust (s : Z) (p : tree) : ires :=
  match add_factor p s with
  | None => IErr
  | Some p' =>
    match p' with
    | E => IErr
    | T _ _ _ f _ => if f =? 0 then IOk p' false [TLinkStop s] else IOk p' true [TLinkGrow s]
    end
  end.

Definition growth_step (s : Z) (p : tree) (tr : list tag) : ires :=
  match handle_growth s p with
  | None => IErr
  | Some (p', ok, tg) => IOk p' (negb ok) (tg :: tr)
  end.

Definition leaf (k id : Z) : tree := T E k id 0 E.     (* a_avl_init *)

Fixpoint ins (k id : Z) (t : tree) : ires :=
  match t with
  | E => IOk (leaf k id) false [TLinkRoot]
  | T l k' id' f r =>
    match k ?= k' with
    | Eq => IDup id'
    | Lt =>
      match l with
      | E => link_adjust (-1) (T (leaf k id) k' id' f r)
      | T _ _ _ _ _ =>
        match ins k id l with
        | IOk l' grew tr =>
          if grew then growth_step (-1) (T l' k' id' f r) tr
          else IOk (T l' k' id' f r) false tr
        | other => other
        end
      end
    | Gt =>
      match r with
      | E => link_adjust 1 (T l k' id' f (leaf k id))
      | T _ _ _ _ _ =>
        match ins k id r with
        | IOk r' grew tr =>
          if grew then growth_step 1 (T l k' id' f r') tr
          else IOk (T l k' id' f r') false tr
        | other => other
        end
      end
    end
  end.

(* ---------------------------------------------------------------- search *)

Fixpoint search (k : Z) (t : tree) : option Z :=
  match t with
  | E => None
  | T l k' id' _ r =>
    match k ?= k' with
    | Lt => search k l
    | Gt => search k r
    | Eq => Some id'
    end
  end.

(* ---------------------------------------------------------------- removal *)

(* a_avl_handle_shrink(root, parent, sign, &left).
   Result: new subtree, stop (C returned NULL because the height did not change), tag. *)
Definition handle_shrink (s : Z) (p : tree) : option (tree * bool * tag) :=
  match p with
  | E => None
  | T _ _ _ cur _ =>
    let new := cur + s in
    if cur =? 0 then
      match add_factor p s with
      | Some p' => Some (p', true, TS0 s)
      | None => None
      end
    else if new =? 0 then
      match add_factor p s with
      | Some p' => Some (p', false, TSdec s)
      | None => None
      end
    else
      match child p s with
      | E => None
      | T _ _ _ fn _ =>
        if s * fn >=? 0 then
          match rotate p (- s) with
          | None => None
          | Some b =>
            match b with
            | E => None
            | T _ _ _ fb _ =>
              if fb =? 0 then
                match add_factor b (- s) with
                | None => None
                | Some b' => Some (b', true, TSrot1bal s)
                end
              else
                match add_factor (child b (- s)) (- s) with
                | None => None
                | Some a' =>
                  match add_factor (set_child b a' (- s)) (- s) with
                  | None => None
                  | Some b' => Some (b', false, TSrot1 s)
                  end
                end
            end
          end
        else
          match rotate2 p (- s) with
          | None => None
          | Some (e', e) => Some (e', false, TSrot2 s e)
          end
      end
  end.

(* the do { Q = Y; Y = Y->left; } while (Y->left) descent of a_avl_handle_remove together with the
   part of the retrace loop that runs on that left spine: removes the minimum of [t].
   Result: remaining subtree, shrunk?, (key,id) of the minimum, tags. *)
Fixpoint rem_min (t : tree) : option (tree * bool * (Z * Z) * list tag) :=
  match t with
  | E => None
  | T l k i f r =>
    match l with
    | E => Some (r, true, (k, i), [])
    | T _ _ _ _ _ =>
      match rem_min l with
      | None => None
      | Some (l', sh, y, tr) =>
        if sh then
          match handle_shrink 1 (T l' k i f r) with
          | None => None
          | Some (p', stop, tg) => Some (p', negb stop, y, tg :: tr)
          end
        else Some (T l' k i f r, false, y, tr)
      end
    end
  end.

Inductive rres : Type :=
| RAbsent
| ROk (t : tree) (shrunk : bool) (rid : Z) (tr : list tag)
| RErr.

Definition shrink_step (s : Z) (p : tree) (rid : Z) (tr : list tag) : rres :=
  match handle_shrink s p with
  | None => RErr
  | Some (p', stop, tg) => ROk p' (negb stop) rid (tg :: tr)
  end.

(* a_avl_handle_remove for X = T l _ idx f r with both children; Y inherits X's factor word *)
Definition handle_remove (l : tree) (idx f : Z) (r : tree) : rres :=
  match r with
  | E => RErr
  | T yl ky iy _ yr =>
    match yl with
    | E => (* !Y->left: Y = X->right replaces X; retrace starts at Y with left = 0 *)
      shrink_step (-1) (T l ky iy f yr) idx [TSpliceChild]
    | T _ _ _ _ _ =>
      match rem_min r with
      | None => RErr
      | Some (r', sh, (ky', iy'), tr) =>
        if sh then shrink_step (-1) (T l ky' iy' f r') idx (tr ++ [TSpliceDeep])
        else ROk (T l ky' iy' f r') false idx (tr ++ [TSpliceDeep])
      end
    end
  end.

Fixpoint rem (k : Z) (t : tree) : rres :=
  match t with
  | E => RAbsent
  | T l k' id' f r =>
    match k ?= k' with
    | Lt =>
      match rem k l with
      | ROk l' sh rid tr =>
        if sh then shrink_step 1 (T l' k' id' f r) rid tr
        else ROk (T l' k' id' f r) false rid tr
      | other => other
      end
    | Gt =>
      match rem k r with
      | ROk r' sh rid tr =>
        if sh then shrink_step (-1) (T l k' id' f r') rid tr
        else ROk (T l k' id' f r') false rid tr
      | other => other
      end
    | Eq =>
      match l, r with
      | T _ _ _ _ _, T _ _ _ _ _ => handle_remove l id' f r
      | T _ _ _ _ _, E => ROk l true id' [TUnlink (-1)]
      | E, T _ _ _ _ _ => ROk r true id' [TUnlink 1]
      | E, E => ROk E true id' [TUnlink 0]
      end
    end
  end.

(* ---------------------------------------------------------------- API level: operations, histories *)

Inductive op : Type :=
| Ins (k id : Z)      (* a_avl_insert of node [id] carrying key [k] *)
| Rem (k : Z)         (* a_avl_search(k), then a_avl_remove of the node found (if any) *)
| Find (k : Z).       (* a_avl_search(k) *)

(* result of one API call: new tree, returned "pointer" (None = NULL), tags; None = model error *)
Definition step (t : tree) (o : op) : option (tree * option Z * list tag) :=
  match o with
  | Ins k id =>
    match ins k id t with
    | IDup d => Some (t, Some d, [TDup])
    | IOk t' _ tr => Some (t', None, tr)
    | IErr => None
    end
  | Rem k =>
    match rem k t with
    | RAbsent => Some (t, None, [TAbsent])
    | ROk t' _ rid tr => Some (t', Some rid, tr)
    | RErr => None
    end
  | Find k => Some (t, search k t, [])
  end.

(* run a history; observations = returned pointers, oldest first *)
Fixpoint run (ops : list op) (t : tree) : option (tree * list (option Z)) :=
  match ops with
  | [] => Some (t, [])
  | o :: rest =>
    match step t o with
    | None => None
    | Some (t', ret, _) =>
      match run rest t' with
      | None => None
      | Some (t'', obs) => Some (t'', ret :: obs)
      end
    end
  end.

(* ---------------------------------------------------------------- canonical pointer structure *)

Definition root_id (t : tree) : option Z :=
  match t with
  | E => None
  | T _ _ i _ _ => Some i
  end.

Record cell : Type := mkcell { c_key : Z; c_left : option Z; c_right : option Z; c_parent : option Z; c_factor : Z }.

(* one (id, cell) per node, preorder; [p] is the parent of the subtree root *)
Fixpoint heap_of (p : option Z) (t : tree) : list (Z * cell) :=
  match t with
  | E => []
  | T l k i f r => (i, mkcell k (root_id l) (root_id r) p f) :: heap_of (Some i) l ++ heap_of (Some i) r
  end.

Fixpoint lookup (h : list (Z * cell)) (i : Z) : option cell :=
  match h with
  | [] => None
  | (j, c) :: rest => if i =? j then Some c else lookup rest i
  end.

(* ---------------------------------------------------------------- specification vocabulary *)

Fixpoint elements (t : tree) : list (Z * Z) :=      (* in-order (key, id) *)
  match t with
  | E => []
  | T l k i _ r => elements l ++ (k, i) :: elements r
  end.

Fixpoint height (t : tree) : Z :=
  match t with
  | E => 0
  | T l _ _ _ r => 1 + Z.max (height l) (height r)
  end.

Fixpoint size (t : tree) : Z :=
  match t with
  | E => 0
  | T l _ _ _ r => 1 + size l + size r
  end.

(* executable invariant checker (used in Examples and by the drivers' self-check) *)
Fixpoint balancedb (t : tree) : bool :=
  match t with
  | E => true
  | T l _ _ f r => balancedb l && balancedb r && (f =? height r - height l) && (-1 <=? f) && (f <=? 1)
  end.

Fixpoint sortedb (xs : list (Z * Z)) : bool :=
  match xs with
  | [] => true
  | x :: rest => match rest with [] => true | y :: _ => (fst x <? fst y) && sortedb rest end
  end.
