(* C01 -- the pointer level of src/avl.c, the public insert and search (continues C01/AvlTieLemmas.v; independent of the C).

   Part 11: vocabulary for `a_avl_node **link` (the address of a link = a slot) and for the comparator.
   Part 12: a_avl_insert: hand model of the descent loop (with init, link and retrace after it) over abstract a_avl_init /
            a_avl_insert_adjust / comparator, and the proof that it turns the layout of t into the layout of AvlDefs.ins's
            result (or returns the resident node of an equal key and writes nothing).
   The ties are in harness/C01/TieAvlInsert.v, re-proved against the regenerated module on every run. *)
From Coq Require Import ZArith List Bool Lia.
From LibaV Require Import C01.AvlDefs C01.AvlProofs C01.AvlHistory C01.AvlTieLemmas C01.AvlTieLemmasRemove.
Import ListNotations.
Local Open Scope Z_scope.

(* ================================================================== Part 11: links by address *)

(* `*link` and `*link = v` for link = &root->node / &q->left / &q->right *)
Definition rd_slot (st : state) (sl : slot) : option (option Z) :=
  match sl with
  | SRoot => Some (rootp st)
  | SLeft q => rd st cl (Some q)
  | SRight q => rd st cr (Some q)
  end.

Definition wr_slot (st : state) (sl : slot) (v : option Z) : option state :=
  match sl with
  | SRoot => Some (set_root st v)
  | SLeft q => wr_l st (Some q) v
  | SRight q => wr_r st (Some q) v
  end.

(* `&p->left` / `&p->right`: p must point to a node (forming the address from a null pointer is an error) *)
Definition slot_l (p : option Z) : option slot := match p with Some q => Some (SLeft q) | None => None end.
Definition slot_r (p : option Z) : option slot := match p with Some q => Some (SRight q) | None => None end.

(* ================================================================== Part 12: a_avl_search and a_avl_insert *)

(* the comparator, applied to the key context / the new node, orders it against every node of t as k is ordered against the
   node's key (the model compares keys; the C hands the comparator two pointers) *)
Fixpoint cmp_ok (c : option Z -> Z) (k : Z) (t : tree) : Prop :=
  match t with
  | E => True
  | T l k' i _ r => (c (Some i) <? 0) = (k <? k') /\ (c (Some i) >? 0) = (k >? k') /\ cmp_ok c k l /\ cmp_ok c k r
  end.

Lemma ins_search : forall k id t,
  match ins k id t with IDup d => search k t = Some d | IOk _ _ _ => search k t = None | IErr => True end.
Proof.
  induction t as [|l IHl k' i f r IHr]; [reflexivity|]. cbn [ins search]. destruct (k ?= k'); [reflexivity| |].
  - destruct l as [|ll lk li lf lr]; [unfold link_adjust; destruct (add_factor _ _) as [[|? ? ? ff ?]|]; cbn; auto; destruct (ff =? 0); reflexivity|].
    destruct (ins k id (T ll lk li lf lr)) as [d|l' g tr|]; [exact IHl| |exact I].
    destruct g; [unfold growth_step; destruct (handle_growth _ _) as [[[? ?] ?]|]; [exact IHl|exact I]|exact IHl].
  - destruct r as [|rl rk ri rf rr]; [unfold link_adjust; destruct (add_factor _ _) as [[|? ? ? ff ?]|]; cbn; auto; destruct (ff =? 0); reflexivity|].
    destruct (ins k id (T rl rk ri rf rr)) as [d|r' g tr|]; [exact IHr| |exact I].
    destruct g; [unfold growth_step; destruct (handle_growth _ _) as [[[? ?] ?]|]; [exact IHr|exact I]|exact IHr].
Qed.

Lemma link_has_s : forall k id t, search k t = None -> forall j, has (link k id t) j <-> j = id \/ has t j.
Proof.
  induction t as [|l IHl k' i f r IHr]; intros H j; [cbn; tauto|]. cbn [search link] in *. destruct (k ?= k'); [discriminate| |];
    cbn [has]; [rewrite (IHl H)|rewrite (IHr H)]; tauto.
Qed.

Lemma link_distinct_s : forall k id t, search k t = None -> distinct t -> ~ has t id -> distinct (link k id t).
Proof.
  induction t as [|l IHl k' i f r IHr]; intros H Hd Hid; [cbn; tauto|]. cbn [search link] in *.
  cbn [distinct has] in *. destruct Hd as (H1 & H2 & H3 & H4 & H5). destruct (k ?= k'); [discriminate| |]; cbn [distinct].
  - pose proof (link_has_s k id l H) as Hh. repeat split; auto.
    + intros Hx. apply Hh in Hx. destruct Hx as [->|Hx]; tauto.
    + intros j Hj Hj'. apply Hh in Hj. destruct Hj as [->|Hj]; [tauto|eauto].
    + apply IHl; tauto.
  - pose proof (link_has_s k id r H) as Hh. repeat split; auto.
    + intros Hx. apply Hh in Hx. destruct Hx as [->|Hx]; tauto.
    + intros j Hj Hj'. apply Hh in Hj'. destruct Hj' as [->|Hj']; [tauto|eauto].
    + apply IHr; tauto.
Qed.

Section Insert.
  (* a_avl_init and a_avl_insert_adjust as the generated module has them; only their tie theorems are used *)
  Variable init : state -> option Z -> option Z -> option (option Z * state).
  Variable ia : nat -> state -> option Z -> option state.
  Variable cmp : option Z -> option Z -> Z.

  (* hand model of the descent loop of a_avl_insert (with what follows it: init, link, retrace) *)
  Fixpoint m_insert_loop (fuel : nat) (st : state) (node parent : option Z) (link : slot) {struct fuel}
    : option (option Z * state) :=
    match fuel with
    | O => None
    | S n =>
      bind (rd_slot st link) (fun t1 =>
      if nonnull t1
      then
        bind (rd_slot st link) (fun t2 =>
        if cmp node t2 <? 0 then bind (slot_l t2) (fun l => m_insert_loop n st node t2 l)
        else if cmp node t2 >? 0 then bind (slot_r t2) (fun l => m_insert_loop n st node t2 l)
        else Some (t2, st))
      else
        bind (init st node parent) (fun '(t5, st1) =>
        bind (wr_slot st1 link t5) (fun st2 =>
        bind (ia (S n) st2 node) (fun st3 => Some (None, st3)))))
    end.

  Hypothesis init_spec : forall st x p c, hp st x = Some c ->
    exists st1, init st (Some x) p = Some (Some x, st1) /\ rootp st1 = rootp st /\
      hp st1 x = Some (mkC None None p 0) /\ (forall j, j <> x -> hp st1 j = hp st j).

  (* the descent from a slot below which u is laid out *)
  Lemma descend : forall k id c0 u st sl pp,
    Repr (hp st) (slot_parent sl) u -> rd_slot st sl = Some (root_id u) -> (u = E -> pp = slot_parent sl) ->
    cmp_ok (cmp (Some id)) k u -> distinct u -> ~ has u id -> slot_parent sl <> Some id -> hp st id = Some c0 ->
    match search k u with
    | Some d => forall n, m_insert_loop (depth k u + n) st (Some id) pp sl = Some (Some d, st)
    | None =>
      exists st2, Repr (hp st2) (slot_parent sl) (link k id u) /\
        rootp st2 = rootp (slot_set st sl (root_id (link k id u))) /\
        (forall j, j <> id -> ~ has u j -> hp st2 j = hp (slot_set st sl (root_id (link k id u))) j) /\
        forall n, m_insert_loop (depth k u + S n) st (Some id) pp sl = bind (ia (S n) st2 (Some id)) (fun st3 => Some (None, st3))
    end.
  Proof.
    intros k id c0. induction u as [|l IHl k' i f r IHr]; intros st sl pp Hr Hsv Hpp Hc Hd Hid Hq Hidc.
    - (* the search position: init, link, hand over to the retrace *)
      cbn [search link depth Nat.add root_id] in *. rewrite (Hpp eq_refl).
      destruct (init_spec st id (slot_parent sl) c0 Hidc) as (st1 & Hinit & Hroot1 & Hid1 & Hfr1).
      assert (Hw : exists st2, wr_slot st1 sl (Some id) = Some st2 /\ rootp st2 = rootp (slot_set st sl (Some id)) /\
                 hp st2 id = Some (mkC None None (slot_parent sl) 0) /\
                 (forall j, j <> id -> hp st2 j = hp (slot_set st sl (Some id)) j)).
      { destruct sl as [|q|q]; cbn [wr_slot rd_slot slot_parent slot_set set_root] in *.
        - eexists. split; [reflexivity|]. cbn [hp rootp]. split; [reflexivity|]. split; [exact Hid1|]. exact Hfr1.
        - unfold rd in Hsv. destruct (hp st q) as [cq|] eqn:Hcq; [|discriminate].
          assert (Hqi : q <> id) by congruence. unfold wr_l, wr. rewrite (Hfr1 q Hqi), Hcq.
          eexists. split; [reflexivity|]. cbn [hp rootp]. split; [exact Hroot1|]. split; [rewrite upd_other by congruence; exact Hid1|].
          intros j Hj. unfold upd. destruct (j =? q); [reflexivity|apply Hfr1; exact Hj].
        - unfold rd in Hsv. destruct (hp st q) as [cq|] eqn:Hcq; [|discriminate].
          assert (Hqi : q <> id) by congruence. unfold wr_r, wr. rewrite (Hfr1 q Hqi), Hcq.
          eexists. split; [reflexivity|]. cbn [hp rootp]. split; [exact Hroot1|]. split; [rewrite upd_other by congruence; exact Hid1|].
          intros j Hj. unfold upd. destruct (j =? q); [reflexivity|apply Hfr1; exact Hj]. }
      destruct Hw as (st2 & Hwr & Hroot2 & Hid2 & Hfr2).
      exists st2. split; [unfold leaf; cbn [Repr root_id]; auto|]. split; [exact Hroot2|]. split; [intros j Hj _; apply Hfr2; exact Hj|].
      intros n. cbn [m_insert_loop]. rewrite Hsv. cbn [bind nonnull]. rewrite Hinit. cbn [bind]. rewrite Hwr. reflexivity.
    - cbn [Repr] in Hr. destruct Hr as (Hi & Hrl & Hrr). cbn [cmp_ok] in Hc. destruct Hc as (Hlt & Hgt & Hcl & Hcr).
      cbn [distinct] in Hd. destruct Hd as (H1 & H2 & H3 & Hdl & Hdr).
      cbn [has] in Hid. cbn [root_id] in Hsv.
      assert (Hii : i <> id) by (intros ->; tauto).
      cbn [search link depth].
      assert (Hstep : forall n, m_insert_loop (S n) st (Some id) pp sl =
                 if cmp (Some id) (Some i) <? 0 then m_insert_loop n st (Some id) (Some i) (SLeft i)
                 else if cmp (Some id) (Some i) >? 0 then m_insert_loop n st (Some id) (Some i) (SRight i)
                 else Some (Some i, st)).
      { intros n. cbn [m_insert_loop]. rewrite Hsv. cbn [bind nonnull slot_l slot_r]. reflexivity. }
      assert (Hsame : rootp (slot_set st sl (Some i)) = rootp st /\ forall j, hp (slot_set st sl (Some i)) j = hp st j).
      { destruct sl as [|q|q]; cbn [rd_slot slot_set] in *.
        - injection Hsv as Hsv. split; [cbn; congruence|reflexivity].
        - unfold rd in Hsv. destruct (hp st q) as [cq|] eqn:Hcq; [|discriminate]. injection Hsv as Hsv. cbn [hp rootp].
          split; [reflexivity|]. intros j. unfold upd. destruct (Z.eqb_spec j q); [|reflexivity]. subst. rewrite Hcq.
          destruct cq; cbn in *. subst. reflexivity.
        - unfold rd in Hsv. destruct (hp st q) as [cq|] eqn:Hcq; [|discriminate]. injection Hsv as Hsv. cbn [hp rootp].
          split; [reflexivity|]. intros j. unfold upd. destruct (Z.eqb_spec j q); [|reflexivity]. subst. rewrite Hcq.
          destruct cq; cbn in *. subst. reflexivity. }
      destruct Hsame as (Hss1 & Hss2).
      destruct (Z.compare_spec k k') as [Heq|Hlt'|Hgt'].
      + intros n. cbn [Nat.add]. rewrite Hstep.
        replace (cmp (Some id) (Some i) <? 0) with false by (rewrite Hlt; symmetry; apply Z.ltb_ge; lia).
        replace (cmp (Some id) (Some i) >? 0) with false by (rewrite Hgt; symmetry; rewrite Z.gtb_ltb; apply Z.ltb_ge; lia).
        reflexivity.
      + assert (Hb : cmp (Some id) (Some i) <? 0 = true) by (rewrite Hlt; apply Z.ltb_lt; exact Hlt').
        assert (Hsl : rd_slot st (SLeft i) = Some (root_id l)) by (cbn [rd_slot]; unfold rd; rewrite Hi; reflexivity).
        assert (Hqi : slot_parent (SLeft i) <> Some id) by (cbn; congruence).
        specialize (IHl st (SLeft i) (Some i) Hrl Hsl (fun _ => eq_refl) Hcl Hdl ltac:(tauto) Hqi Hidc).
        destruct (search k l) as [d|].
        * intros n. cbn [Nat.add]. rewrite Hstep, Hb. apply IHl.
        * destruct IHl as (st2 & HR2 & Hroot2 & Hfr2 & Heq2). rewrite rootp_slot_set_left in Hroot2.
          exists st2. cbn [root_id]. split; [|split; [congruence|split]].
          -- apply (Repr_above_left st st2 _ (fun j => j = id \/ has l j) (link k id l) k' i f r _ Hi eq_refl eq_refl eq_refl Hrr).
             ++ intros [Hx|Hx]; [congruence|contradiction].
             ++ intros j Hj [->|Hh]; [tauto|exact (H3 j Hh Hj)].
             ++ exact H2.
             ++ exact HR2.
             ++ intros j Hj. apply Hfr2; tauto.
          -- intros j Hj Hnj. cbn [has] in Hnj. rewrite Hss2. rewrite Hfr2 by tauto. apply hp_slot_set_other. cbn. intros [= ->]. tauto.
          -- intros n. cbn [Nat.add]. rewrite Hstep, Hb. apply Heq2.
      + assert (Hb : cmp (Some id) (Some i) <? 0 = false) by (rewrite Hlt; apply Z.ltb_ge; lia).
        assert (Hb' : cmp (Some id) (Some i) >? 0 = true) by (rewrite Hgt; rewrite Z.gtb_ltb; apply Z.ltb_lt; exact Hgt').
        assert (Hsl : rd_slot st (SRight i) = Some (root_id r)) by (cbn [rd_slot]; unfold rd; rewrite Hi; reflexivity).
        assert (Hqi : slot_parent (SRight i) <> Some id) by (cbn; congruence).
        specialize (IHr st (SRight i) (Some i) Hrr Hsl (fun _ => eq_refl) Hcr Hdr ltac:(tauto) Hqi Hidc).
        destruct (search k r) as [d|].
        * intros n. cbn [Nat.add]. rewrite Hstep, Hb, Hb'. apply IHr.
        * destruct IHr as (st2 & HR2 & Hroot2 & Hfr2 & Heq2). rewrite rootp_slot_set_right in Hroot2.
          exists st2. cbn [root_id]. split; [|split; [congruence|split]].
          -- apply (Repr_above_right st st2 _ (fun j => j = id \/ has r j) (link k id r) k' i f l _ Hi eq_refl eq_refl eq_refl Hrl).
             ++ intros [Hx|Hx]; [congruence|contradiction].
             ++ intros j Hj [->|Hh]; [tauto|exact (H3 j Hj Hh)].
             ++ exact H1.
             ++ exact HR2.
             ++ intros j Hj. apply Hfr2; tauto.
          -- intros j Hj Hnj. cbn [has] in Hnj. rewrite Hss2. rewrite Hfr2 by tauto. apply hp_slot_set_other. cbn. intros [= ->]. tauto.
          -- intros n. cbn [Nat.add]. rewrite Hstep, Hb, Hb'. apply Heq2.
  Qed.

  Hypothesis ia_spec : forall k id t t' g tr st fuel,
    Balanced t -> Bst t -> NoDup (ids (link k id t)) -> ins k id t = IOk t' g tr ->
    Repr (hp st) None (link k id t) -> rootp st = root_id (link k id t) -> height t <= Z.of_nat fuel ->
    exists st', ia fuel st (Some id) = Some st' /\ Repr (hp st') None t' /\ rootp st' = root_id t' /\
      (forall j, j <> id -> ~ In j (ids t) -> hp st' j = hp st j).

  (* a_avl_insert implements AvlDefs.ins: from a heap that lays out t (and holds the new node object id, contents arbitrary) to
     a heap that lays out the model's result; a key already present: the resident node is returned and nothing is written *)
  Theorem m_insert_refines : forall k id t st fuel c0,
    Balanced t -> Bst t -> NoDup (ids t) -> ~ In id (ids t) ->
    Repr (hp st) None t -> rootp st = root_id t -> hp st id = Some c0 ->
    cmp_ok (cmp (Some id)) k t -> 2 * height t + 1 <= Z.of_nat fuel ->
    match ins k id t with
    | IDup d => m_insert_loop fuel st (Some id) (rootp st) SRoot = Some (Some d, st)
    | IOk t' g tr =>
      exists st', m_insert_loop fuel st (Some id) (rootp st) SRoot = Some (None, st') /\ Repr (hp st') None t' /\
        rootp st' = root_id t' /\ (forall j, j <> id -> ~ In j (ids t) -> hp st' j = hp st j)
    | IErr => False
    end.
  Proof.
    intros k id t st fuel c0 Bt St Hn Hid Hr Hroot Hidc Hc Hfuel.
    pose proof (proj2 (distinct_ids t) Hn) as Hd.
    assert (Hid' : ~ has t id) by (rewrite has_ids; exact Hid).
    assert (Hsv : rd_slot st SRoot = Some (root_id t)) by (cbn; rewrite Hroot; reflexivity).
    assert (Hpp : t = E -> rootp st = slot_parent SRoot) by (intros ->; exact Hroot).
    assert (Hq : slot_parent SRoot <> Some id) by (cbn; discriminate).
    pose proof (descend k id c0 t st SRoot (rootp st) Hr Hsv Hpp Hc Hd Hid' Hq Hidc) as Hdesc.
    pose proof (ins_search k id t) as Hs. pose proof (ins_spec k id t Bt St) as Hspec.
    pose proof (depth_height k t) as Hdh. pose proof (height_nonneg t) as Hh0.
    destruct (ins k id t) as [d|t' g tr|] eqn:Eins; [| |exact Hspec].
    - rewrite Hs in Hdesc. replace fuel with (depth k t + (fuel - depth k t))%nat by lia. apply Hdesc.
    - rewrite Hs in Hdesc. destruct Hdesc as (st2 & HR2 & Hroot2 & Hfr2 & Heq2). cbn [slot_set rootp hp slot_parent] in *.
      assert (Hnl : NoDup (ids (link k id t))) by (apply distinct_ids; apply link_distinct_s; assumption).
      assert (Hf2 : height t <= Z.of_nat (S (fuel - S (depth k t)))) by lia.
      destruct (ia_spec k id t t' g tr st2 _ Bt St Hnl Eins HR2 Hroot2 Hf2) as (st3 & Hrun & HR3 & Hroot3 & Hfr3).
      exists st3. split; [|split; [exact HR3|split; [exact Hroot3|]]].
      + replace fuel with (depth k t + S (fuel - S (depth k t)))%nat by lia. rewrite Heq2, Hrun. reflexivity.
      + intros j Hj Hnj. rewrite Hfr3 by assumption. apply Hfr2; [exact Hj|]. rewrite has_ids. exact Hnj.
  Qed.
End Insert.
