(* C01 -- the pointer level of src/avl.c, removal side (continues C01/AvlTieLemmas.v; does not depend on the C).

   Part 8: what a_avl_handle_shrink needs: the slot after the operation, the `*left` flag, a_avl_set_factor on a whole tree.
   Part 9: a_avl_handle_remove: the successor splice as a tree operation ([splice]: the leftmost node of the right subtree cut
           out and put in X's place, nothing re-balanced), its cell-level descriptions (successor = right child / deeper),
           and the proof that a heap matching them lays out the spliced tree.
   Part 10: a_avl_remove: hand models of the function and of its retrace loop over abstract a_avl_handle_shrink /
           a_avl_handle_remove, and the proof (induction on the tree; the loop runs bottom-up against the model's recursive
           rem / rem_min with their `shrunk` flag) that it turns the layout of t into the layout of AvlDefs.rem's result.
   The ties themselves are in harness/C01/TieAvlRemove.v, re-proved against the regenerated module on every run. *)
From Coq Require Import ZArith List Bool Lia.
From LibaV Require Import C01.AvlDefs C01.AvlProofs C01.AvlHistory C01.AvlTieLemmas.
Import ListNotations.
Local Open Scope Z_scope.

(* the sixth use of the packed word (a_avl_handle_remove: `Y->parent_ = X->parent_`): a word determines its pointer and its tag,
   so copying the word copies both components *)
Lemma pw_unique : forall p t p' t', p mod 4 = 0 -> p' mod 4 = 0 -> 0 <= t < 4 -> 0 <= t' < 4 -> p + t = p' + t' ->
  p = p' /\ t = t'.
Proof.
  intros p t p' t' Hp Hp' Ht Ht' H.
  pose proof (Z.div_mod p 4 ltac:(lia)). pose proof (Z.div_mod p' 4 ltac:(lia)). lia.
Qed.

(* ================================================================== Part 8: a_avl_handle_shrink *)

(* what a_avl_handle_shrink stores in *left when it returns the parent: 1 for a left slot, 0 for a right slot; untouched (lf0)
   when there is no parent *)
Definition slot_flag (sl : slot) (lf0 : Z) : Z := match sl with SRoot => lf0 | SLeft _ => 1 | SRight _ => 0 end.

(* for a right slot: the parent's left field names no node of the subtree (true in a tree: the two subtrees of a node are
   disjoint).  a_avl_handle_shrink finds out which child it came from by testing `parent->left == node` with the NEW subtree root *)
Definition slot_clean (st : state) (sl : slot) (P : tree) : Prop :=
  match sl with
  | SRight q => forall c j, hp st q = Some c -> cl c = Some j -> ~ has P j
  | _ => True
  end.

(* the tail of a_avl_handle_shrink: parent = a_avl_parent(node); if (parent) *left = (parent->left == node); return parent *)
Lemma shrink_tail : forall st st' sl P P' x lf0,
  Repr (hp st') (slot_parent sl) P' -> root_id P' = Some x -> has P x ->
  (forall q, slot_parent sl = Some q -> ~ has P q) -> slot_at st sl (root_id P) -> slot_clean st sl P ->
  (forall j, ~ has P j -> hp st' j = hp (slot_set st sl (Some x)) j) ->
  bind (m_parent st' (Some x)) (fun parent =>
    if nonnull parent
    then bind (rd st' cl parent) (fun t => if oid_eqb t (Some x) then Some (parent, 1, st') else Some (parent, 0, st'))
    else Some (parent, lf0, st'))
  = Some (slot_parent sl, slot_flag sl lf0, st').
Proof.
  intros st st' sl P P' x lf0 HR Hx HxP Hq Hsl Hcl Hfr.
  destruct (Repr_root _ _ _ _ HR Hx) as (cx & Hcx & Hpx). unfold m_parent.
  rewrite (bind_rd _ _ _ _ _ _ _ Hcx), Hpx.
  destruct sl as [|q|q]; cbn [slot_parent nonnull slot_flag] in *; [reflexivity| |].
  - destruct Hsl as (c & Hc & _). pose proof (Hfr q (Hq q eq_refl)) as Hq'. cbn [slot_set] in Hq'. rewrite Hc in Hq'.
    cbn [hp] in Hq'. rewrite upd_same in Hq'. rewrite (bind_rd _ _ _ _ _ _ _ Hq'). cbn [cl with_l]. rewrite oid_eqb_refl. reflexivity.
  - destruct Hsl as (c & Hc & _ & _). pose proof (Hfr q (Hq q eq_refl)) as Hq'. cbn [slot_set] in Hq'. rewrite Hc in Hq'.
    cbn [hp] in Hq'. rewrite upd_same in Hq'. rewrite (bind_rd _ _ _ _ _ _ _ Hq'). cbn [cl with_r].
    destruct (oid_eqb (cl c) (Some x)) eqn:Eo; [|reflexivity]. apply oid_eqb_eq in Eo. exfalso. exact (Hcl c x Hc Eo HxP).
Qed.

(* a_avl_set_factor on the root of any laid-out tree *)
Lemma add_factor_top : forall st p t amt t', Repr (hp st) p t -> distinct t -> add_factor t amt = Some t' ->
  exists st', m_add_factor st (root_id t) amt = Some st' /\ Repr (hp st') p t' /\ root_id t' = root_id t /\
    rootp st' = rootp st /\ (forall j, ~ has t j -> hp st' j = hp st j).
Proof.
  intros st p [|l k i f r] amt t' Hr Hd Ha; [discriminate|]. cbn [distinct] in Hd. destruct Hd as (H1 & H2 & _).
  destruct (add_factor_root st p l k i f r amt t' Hr H1 H2 Ha) as (st' & Hrun & HR & Hroot & Hfr).
  exists st'. split; [exact Hrun|]. split; [exact HR|]. split; [exact (add_factor_root_id _ _ _ Ha)|]. split; [exact Hroot|].
  intros j Hj. apply Hfr. intros ->. apply Hj. cbn; auto.
Qed.

Lemma rotate2_root_in : forall A s A' e, rotate2 A s = Some (A', e) -> exists x, root_id A' = Some x /\ has A x.
Proof.
  intros A s A' e H. destruct A as [|l k a f r]; [discriminate|]. unfold rotate2 in H.
  destruct (child (T l k a f r) (- s)) as [|bl bk b bf br] eqn:EB; [discriminate|].
  destruct (child (T bl bk b bf br) s) as [|el ek x ef er] eqn:EE; [discriminate|].
  injection H as <- _. exists x. split.
  - unfold set_child, set_factor. destruct (- s <? 0), (s <? 0); reflexivity.
  - apply (child_has _ (- s)). rewrite EB. apply (child_has _ s). rewrite EE. cbn; auto.
Qed.

Lemma root_child_has : forall t s x, root_id (child t s) = Some x -> has t x.
Proof. intros t s x H. apply (child_has _ s). apply root_has. exact H. Qed.

(* ================================================================== Part 9: a_avl_handle_remove - the successor splice *)

(* the leftmost node of a tree cut out, its right subtree in its place, nothing re-balanced *)
Fixpoint cut (t : tree) : tree :=
  match t with
  | E => E
  | T l k i f r => match l with E => r | T _ _ _ _ _ => T (cut l) k i f r end
  end.
Fixpoint min_key (t : tree) : Z :=
  match t with E => 0 | T l k _ _ _ => match l with E => k | T _ _ _ _ _ => min_key l end end.
Fixpoint min_id (t : tree) : Z :=
  match t with E => 0 | T l _ i _ _ => match l with E => i | T _ _ _ _ _ => min_id l end end.
Fixpoint min_right (t : tree) : tree :=
  match t with E => E | T l _ _ _ r => match l with E => r | T _ _ _ _ _ => min_right l end end.
(* the parent of the leftmost node (for a tree whose root has a left child) *)
Fixpoint min_parent (t : tree) : Z :=
  match t with
  | E => 0
  | T l _ i _ _ => match l with E => 0 | T ll _ _ _ _ => match ll with E => i | T _ _ _ _ _ => min_parent l end end
  end.
(* number of left steps from the root to the leftmost node *)
Fixpoint lspine (t : tree) : nat :=
  match t with E => O | T l _ _ _ _ => match l with E => O | T _ _ _ _ _ => S (lspine l) end end.

(* what a_avl_handle_remove leaves of X = T l kx ix f r (both children present): the successor in X's place with X's factor *)
Definition splice (l : tree) (f : Z) (r : tree) : tree := T l (min_key r) (min_id r) f (cut r).

Lemma cut_has : forall t j, has (cut t) j -> has t j.
Proof.
  induction t as [|l IHl k i f r _]; intros j H; [exact H|]. cbn [cut] in H. destruct l as [|ll lk li lf lr].
  - cbn; auto.
  - destruct H as [->|[H|H]]; [left; reflexivity|right; left; apply IHl; exact H|right; right; exact H].
Qed.

Lemma cut_root : forall l k i f r, l <> E -> root_id (cut (T l k i f r)) = Some i.
Proof. intros [|? ? ? ? ?] k i f r H; [congruence|reflexivity]. Qed.

Lemma min_id_has : forall t, t <> E -> has t (min_id t).
Proof.
  induction t as [|l IHl k i f r _]; intros H; [congruence|]. cbn [min_id]. destruct l as [|ll lk li lf lr]; [cbn; auto|].
  cbn [has]. right. left. apply IHl. discriminate.
Qed.

Lemma min_right_has : forall t j, has (min_right t) j -> has t j.
Proof.
  induction t as [|l IHl k i f r _]; intros j H; [exact H|]. cbn [min_right] in H. destruct l as [|ll lk li lf lr].
  - cbn [has]. auto.
  - right. left. apply IHl. exact H.
Qed.

Lemma cut_distinct : forall t, distinct t -> distinct (cut t).
Proof.
  induction t as [|l IHl k i f r _]; intros H; [exact H|]. cbn [cut]. destruct l as [|ll lk li lf lr].
  - cbn [distinct] in H. tauto.
  - cbn [distinct] in H |- *. destruct H as (H1 & H2 & H3 & H4 & H5). repeat split; auto.
    + intros Hx. apply H1. apply cut_has. exact Hx.
    + intros j Hj Hj'. apply (H3 j); [apply cut_has; exact Hj|exact Hj'].
Qed.

Lemma min_parent_has : forall t, child t (-1) <> E -> has t (min_parent t).
Proof.
  induction t as [|l IHl k i f r _]; intros H; [cbn in H; congruence|]. cbn [child Z.ltb Z.compare] in H.
  destruct l as [|ll lk li lf lr]; [congruence|]. cbn [min_parent]. destruct ll as [|? ? ? ? ?]; [cbn; auto|].
  right. left. apply IHl. cbn. discriminate.
Qed.

Lemma with_p_same : forall c p, cp c = p -> with_p p c = c.
Proof. intros [a b c d] p H. cbn in *. subst. reflexivity. Qed.

(* the heap after the cut, described cell by cell on the nodes of v: Q = parent of the minimum gets the minimum's right
   subtree as left child, that subtree's root is re-parented to Q, the root of v gets the parent field p' *)
Lemma Repr_cut : forall v h h' p p', distinct v -> Repr h p v -> child v (-1) <> E ->
  (forall c, h (min_parent v) = Some c ->
     h' (min_parent v) = Some (with_l (root_id (min_right v)) (if oid_eqb (Some (min_parent v)) (root_id v) then with_p p' c else c))) ->
  (forall i c, root_id v = Some i -> i <> min_parent v -> h i = Some c -> h' i = Some (with_p p' c)) ->
  (forall x c, root_id (min_right v) = Some x -> h x = Some c -> h' x = Some (with_p (Some (min_parent v)) c)) ->
  (forall j, has v j -> j <> min_parent v -> root_id v <> Some j -> root_id (min_right v) <> Some j -> j <> min_id v -> h' j = h j) ->
  Repr h' p' (cut v).
Proof.
  induction v as [|vl IHl k i f vr _]; intros h h' p p' Hd Hr Hne HQ Hroot Hyr Hrest; [exact I|].
  cbn [child Z.ltb Z.compare] in Hne. destruct vl as [|vll lk li lf vlr]; [congruence|].
  cbn [Repr] in Hr. destruct Hr as (Hi & (Hli & Hll & Hlr) & Hvr).
  cbn [distinct] in Hd. destruct Hd as (H1 & H2 & H3 & (H4 & H5 & H6 & H7 & H8) & H9).
  destruct vll as [|vlll llk lli llf vllr].
  - (* the left child is the minimum: Q = i *)
    cbn [cut min_parent min_right min_id root_id] in *. pose proof (HQ _ Hi) as HQi. rewrite oid_eqb_refl in HQi.
    cbn [Repr]. split; [|split].
    + rewrite HQi. reflexivity.
    + apply (Repr_reparent vlr h h' (Some li) (Some i) H8 Hlr).
      * intros x Hx. destruct (Repr_root _ _ _ _ Hlr Hx) as (c & Hc & _). exists c. split; [exact Hc|]. apply (Hyr x c Hx Hc).
      * intros j Hj Hne'. apply Hrest; [cbn [has]; tauto| | |exact Hne'|].
        -- intros ->. apply H1. cbn [has]. tauto.
        -- intros [= ->]. apply H1. cbn [has]. tauto.
        -- intros ->. tauto.
    + apply (Repr_ext vr h); [|exact Hvr]. intros j Hj. apply Hrest; [cbn [has]; tauto| | | |].
      * intros ->. tauto.
      * intros [= ->]. tauto.
      * intros Hx. apply (H3 j); [cbn [has]; right; right; apply root_has; exact Hx|exact Hj].
      * intros ->. apply (H3 li); [cbn [has]; tauto|exact Hj].
  - (* deeper: Q is inside the left subtree *)
    set (L := T (T vlll llk lli llf vllr) lk li lf vlr) in *.
    assert (HQin : has L (min_parent L)) by (apply min_parent_has; subst L; cbn; discriminate).
    assert (HQi : min_parent L <> i) by (intros Heq; apply H1; rewrite <- Heq; exact HQin).
    change (cut (T L k i f vr)) with (T (cut L) k i f vr). cbn [Repr].
    change (min_parent (T L k i f vr)) with (min_parent L) in *.
    change (min_right (T L k i f vr)) with (min_right L) in *.
    change (min_id (T L k i f vr)) with (min_id L) in *.
    cbn [root_id] in Hroot, Hrest, HQ.
    assert (Hmin : has L (min_id L)) by (apply min_id_has; subst L; discriminate).
    split; [|split].
    + rewrite (Hroot i _ eq_refl (not_eq_sym HQi) Hi). unfold with_p. cbn [cl cr cf].
      replace (root_id (cut L)) with (root_id L); [reflexivity|]. subst L. reflexivity.
    + assert (HrL : Repr h (Some i) L) by (subst L; cbn [Repr]; auto).
      assert (HdL : distinct L) by (subst L; cbn [distinct]; auto).
      apply (IHl h h' (Some i) (Some i) HdL HrL); [subst L; cbn; discriminate| | | |].
      * intros c Hc. rewrite (HQ c Hc).
        destruct (oid_eqb (Some (min_parent L)) (Some i)) eqn:E1; [apply oid_eqb_eq in E1; congruence|].
        destruct (oid_eqb (Some (min_parent L)) (root_id L)) eqn:E2; [|reflexivity].
        apply oid_eqb_eq in E2. destruct (Repr_root _ _ _ _ HrL (eq_sym E2)) as (c' & Hc' & Hp'). rewrite Hc in Hc'. injection Hc' as <-.
        rewrite (with_p_same _ _ Hp'). reflexivity.
      * intros j c Hj Hjq Hc. destruct (Repr_root _ _ _ _ HrL Hj) as (c' & Hc' & Hp'). rewrite Hc in Hc'. injection Hc' as <-.
        rewrite (with_p_same _ _ Hp'). rewrite <- Hc. apply Hrest; [cbn [has]; right; left; apply root_has; exact Hj|exact Hjq| | |].
        -- intros [= ->]. apply H1. apply root_has. exact Hj.
        -- intros Hx. subst L. cbn [root_id] in Hj. assert (j = li) by congruence. subst j.
           apply H4. apply min_right_has. apply root_has. exact Hx.
        -- intros Heq. rewrite Heq in Hj. subst L. cbn [root_id] in Hj. injection Hj as Hj'.
           assert (Hm : has (T vlll llk lli llf vllr) (min_id (T vlll llk lli llf vllr))) by (apply min_id_has; discriminate).
           apply H4. rewrite Hj'. exact Hm.
      * exact Hyr.
      * intros j Hj Hjq Hjr Hjy Hjm. apply Hrest; [cbn [has]; tauto|exact Hjq| |exact Hjy|exact Hjm].
        intros [= ->]. tauto.
    + apply (Repr_ext vr h); [|exact Hvr]. intros j Hj. apply Hrest; [cbn [has]; tauto| | | |].
      * intros ->. apply (H3 (min_parent L)); assumption.
      * intros [= ->]. tauto.
      * intros Hx. apply (H3 j); [apply min_right_has; apply root_has; exact Hx|exact Hj].
      * intros ->. apply (H3 (min_id L)); assumption.
Qed.

(* ---------------------------------------------------------------- the successor is X's right child (it has no left child)
   Y: left := X's left, parent := X's parent, factor := X's factor;  X's left child: parent := Y;  the slot X hung from := Y *)
Definition splice0_cells (st : state) (sl : slot) (iy : Z) (cX cY : pcell) : Z -> option pcell :=
  upd (reparent (cl cX) (Some iy) (hp (slot_set st sl (Some iy)))) iy (mkC (cl cX) (cr cY) (cp cX) (cf cX)).

Record Splice0Pre (st : state) (sl : slot) (ix iy l0 : Z) (cX cY cL : pcell) : Prop := mkSplice0Pre {
  s0_xy : ix <> iy; s0_xl : ix <> l0; s0_yl : iy <> l0;
  s0_x : hp st ix = Some cX; s0_y : hp st iy = Some cY; s0_l : hp st l0 = Some cL;
  s0_xleft : cl cX = Some l0; s0_xright : cr cX = Some iy; s0_yleft : cl cY = None;
  s0_par : cp cX = slot_parent sl; s0_slot : slot_at st sl (Some ix);
  s0_qx : slot_parent sl <> Some ix; s0_qy : slot_parent sl <> Some iy; s0_ql : slot_parent sl <> Some l0;
  s0_f : -1 <= cf cX <= 1 }.

Definition Splice0Post (st : state) (sl : slot) (iy : Z) (cX cY : pcell) (st' : state) : Prop :=
  rootp st' = rootp (slot_set st sl (Some iy)) /\ forall j, hp st' j = splice0_cells st sl iy cX cY j.

Lemma splice0_pre : forall st sl l kx ix f ky iy yf yr,
  Hangs st sl (T l kx ix f (T E ky iy yf yr)) -> l <> E -> -1 <= f <= 1 ->
  exists l0 cX cY cL, root_id l = Some l0 /\ Splice0Pre st sl ix iy l0 cX cY cL.
Proof.
  intros st sl l kx ix f ky iy yf yr (Hd & Hq & Hr & Hsl) Hl Hf.
  destruct l as [|ll lk l0 lf lr]; [congruence|].
  cbn [Repr] in Hr. destruct Hr as (Hx & (Hl0 & _ & _) & (Hy & _ & _)).
  cbn [distinct has] in Hd. destruct Hd as (H1 & H2 & H3 & _ & _).
  exists l0. do 3 eexists. split; [reflexivity|].
  constructor; try eassumption; try reflexivity; try exact Hf.
  - intros ->. apply H2. auto.
  - intros ->. apply H1. auto.
  - intros ->. apply (H3 l0); auto.
  - intros Heq. apply (Hq ix Heq). cbn; auto.
  - intros Heq. apply (Hq iy Heq). cbn; auto.
  - intros Heq. apply (Hq l0 Heq). cbn; auto.
Qed.

Lemma splice0_post : forall st sl l kx ix f ky iy yf yr l0 cX cY cL st',
  Hangs st sl (T l kx ix f (T E ky iy yf yr)) -> root_id l = Some l0 ->
  Splice0Pre st sl ix iy l0 cX cY cL -> Splice0Post st sl iy cX cY st' ->
  Repr (hp st') (slot_parent sl) (T l ky iy f yr) /\
  agree_outside (T l kx ix f (T E ky iy yf yr)) st' (slot_set st sl (Some iy)).
Proof.
  intros st sl l kx ix f ky iy yf yr l0 cX cY cL st' (Hd & Hq & Hr & Hsl) Hl0 Pre (Hroot & Hcells).
  destruct Pre as [Hxy Hxl Hyl Hx Hy Hl Hxleft Hxright Hyleft Hpar _ Hqx Hqy Hql _].
  cbn [Repr] in Hr. destruct Hr as (Hx' & Hrl & (Hy' & _ & Hryr)).
  rewrite Hx' in Hx. injection Hx as <-. rewrite Hy' in Hy. injection Hy as <-. cbn [cl cr cp cf] in *.
  cbn [distinct has] in Hd. destruct Hd as (H1 & H2 & H3 & Hdl & (_ & H5 & _ & _ & Hdyr)).
  assert (Hq' : forall j, has (T l kx ix f (T E ky iy yf yr)) j -> slot_parent sl <> Some j) by (intros j; apply q_out; exact Hq).
  assert (Hother : forall j, j <> iy -> j <> l0 -> slot_parent sl <> Some j -> hp st' j = hp st j).
  { intros j Hj1 Hj2 Hj3. rewrite Hcells. unfold splice0_cells. rewrite upd_other by exact Hj1. cbn [cl].
    rewrite Hl0, reparent_other by congruence. apply hp_slot_set_other. exact Hj3. }
  split.
  - cbn [Repr]. split; [|split].
    + rewrite Hcells. unfold splice0_cells. rewrite upd_same. reflexivity.
    + apply (Repr_reparent l (hp st) _ (Some ix) (Some iy) Hdl Hrl).
      * intros x Hx. rewrite Hl0 in Hx. injection Hx as <-. exists cL. split; [exact Hl|].
        rewrite Hcells. unfold splice0_cells. rewrite upd_other by (apply not_eq_sym; exact Hyl). cbn [cl]. rewrite Hl0.
        apply reparent_same. rewrite hp_slot_set_other by exact Hql. exact Hl.
      * intros j Hj Hne. apply Hother; [| |apply Hq'; cbn [has]; tauto].
        -- intros ->. apply (H3 iy); cbn; auto.
        -- intros ->. congruence.
    + apply (Repr_ext yr (hp st)); [|exact Hryr]. intros j Hj. apply Hother; [| |apply Hq'; cbn [has]; tauto].
      * intros ->. tauto.
      * intros ->. apply (H3 l0); [apply root_has; exact Hl0|cbn; auto].
  - split; [exact Hroot|]. intros j Hj. rewrite Hcells. unfold splice0_cells. cbn [cl].
    rewrite upd_other by (intros ->; apply Hj; cbn; auto). rewrite Hl0.
    apply reparent_other. intros [= ->]. apply Hj. cbn [has]. right. left. apply root_has. exact Hl0.
Qed.

(* ---------------------------------------------------------------- the successor Y is deeper: the leftmost node of X's right
   subtree, Q its parent.
   Q: left := Y's right;  Y's right child (if any): parent := Q;  Y: left, right, parent, factor := X's;
   X's right child (possibly Q itself) and X's left child: parent := Y;  the slot X hung from := Y *)
Definition deep_cells (st : state) (sl : slot) (Q ym : Z) (cX cQ cY : pcell) : Z -> option pcell :=
  upd (reparent (cl cX) (Some ym) (reparent (cr cX) (Some ym) (reparent (cr cY) (Some Q)
         (upd (hp (slot_set st sl (Some ym))) Q (with_l (cr cY) cQ)))))
      ym (mkC (cl cX) (cr cX) (cp cX) (cf cX)).

Record DeepPre (st : state) (sl : slot) (ix Q ym l0 r0 : Z) (cX cQ cY cL : pcell) : Prop := mkDeepPre {
  d_xq : ix <> Q; d_xy : ix <> ym; d_qy : Q <> ym; d_xl : ix <> l0; d_ql : Q <> l0; d_yl : ym <> l0;
  d_xr : ix <> r0; d_yr : ym <> r0; d_lr : l0 <> r0;
  d_x : hp st ix = Some cX; d_q : hp st Q = Some cQ; d_y : hp st ym = Some cY; d_l : hp st l0 = Some cL;
  d_r : r0 <> Q -> exists cR, hp st r0 = Some cR;
  d_xleft : cl cX = Some l0; d_xright : cr cX = Some r0; d_qleft : cl cQ = Some ym; d_yleft : cl cY = None;
  d_par : cp cX = slot_parent sl; d_slot : slot_at st sl (Some ix);
  d_sx : slot_parent sl <> Some ix; d_sq : slot_parent sl <> Some Q; d_sy : slot_parent sl <> Some ym;
  d_sl : slot_parent sl <> Some l0; d_sr : slot_parent sl <> Some r0;
  d_yright : forall x, cr cY = Some x ->
     x <> ix /\ x <> Q /\ x <> ym /\ x <> l0 /\ x <> r0 /\ slot_parent sl <> Some x /\ exists c, hp st x = Some c;
  d_f : -1 <= cf cX <= 1 }.

Definition DeepPost (st : state) (sl : slot) (Q ym : Z) (cX cQ cY : pcell) (st' : state) : Prop :=
  rootp st' = rootp (slot_set st sl (Some ym)) /\ forall j, hp st' j = deep_cells st sl Q ym cX cQ cY j.

(* the path of left links the descent `do { Q = Y; Y = Y->left; } while (Y->left);` follows: from y to Q in m steps *)
Inductive Spine (h : Z -> option pcell) : Z -> Z -> nat -> Prop :=
| spine_here : forall Q, Spine h Q Q O
| spine_step : forall y y1 y2 c c1 Q m, h y = Some c -> cl c = Some y1 -> h y1 = Some c1 -> cl c1 = Some y2 ->
    Spine h y1 Q m -> Spine h y Q (S m).

Lemma spine_of_tree : forall v h p i, Repr h p v -> child v (-1) <> E -> root_id v = Some i ->
  Spine h i (min_parent v) (pred (lspine v)).
Proof.
  induction v as [|vl IHl k i0 f vr _]; intros h p i Hr Hne Hi; [discriminate|].
  cbn in Hi. injection Hi as ->. cbn [child Z.ltb Z.compare] in Hne.
  destruct vl as [|vll lk li lf vlr]; [congruence|]. cbn [Repr] in Hr. destruct Hr as (Hi & Hl & _).
  destruct vll as [|vlll llk lli llf vllr]; [cbn; constructor|].
  set (L := T (T vlll llk lli llf vllr) lk li lf vlr) in *.
  change (min_parent (T L k i f vr)) with (min_parent L). change (lspine (T L k i f vr)) with (S (lspine L)). cbn [pred].
  assert (HL : lspine L = S (pred (lspine L))) by (subst L; reflexivity). rewrite HL.
  pose proof Hl as Hl'. subst L. cbn [Repr] in Hl'. destruct Hl' as (Hli & _).
  eapply spine_step; [exact Hi|reflexivity|exact Hli|reflexivity|].
  apply (IHl h (Some i)); [exact Hl|cbn; discriminate|reflexivity].
Qed.

(* the cells at the bottom of the left spine *)
Lemma spine_bottom : forall v h p, distinct v -> Repr h p v -> child v (-1) <> E ->
  exists cQ cY, h (min_parent v) = Some cQ /\ cl cQ = Some (min_id v) /\ h (min_id v) = Some cY /\ cl cY = None /\
    cr cY = root_id (min_right v) /\ min_parent v <> min_id v /\ root_id v <> Some (min_id v) /\
    (forall x, root_id (min_right v) = Some x -> x <> min_parent v /\ x <> min_id v /\ root_id v <> Some x /\ exists c, h x = Some c).
Proof.
  induction v as [|vl IHl k i f vr _]; intros h p Hd Hr Hne; [cbn in Hne; congruence|].
  cbn [child Z.ltb Z.compare] in Hne. destruct vl as [|vll lk li lf vlr]; [congruence|].
  cbn [Repr] in Hr. destruct Hr as (Hi & Hl & _).
  cbn [distinct] in Hd. destruct Hd as (H1 & _ & _ & HdL & _).
  destruct vll as [|vlll llk lli llf vllr].
  - cbn [min_parent min_id min_right root_id] in *. cbn [Repr] in Hl. destruct Hl as (Hli & _ & Hlr).
    cbn [distinct has] in HdL. destruct HdL as (_ & H5 & _ & _ & _).
    do 2 eexists. split; [exact Hi|]. split; [reflexivity|]. split; [exact Hli|]. split; [reflexivity|]. split; [reflexivity|].
    assert (Hil : i <> li) by (intros ->; apply H1; cbn; auto).
    split; [exact Hil|]. split; [congruence|]. intros x Hx. pose proof (root_has _ _ Hx) as Hhx.
    destruct (Repr_root _ _ _ _ Hlr Hx) as (c & Hc & _).
    split; [intros ->; apply H1; cbn; auto|]. split; [intros ->; contradiction|]. split; [|eauto].
    intros [= ->]. apply H1. cbn; auto.
  - set (L := T (T vlll llk lli llf vllr) lk li lf vlr) in *.
    change (min_parent (T L k i f vr)) with (min_parent L). change (min_id (T L k i f vr)) with (min_id L).
    change (min_right (T L k i f vr)) with (min_right L). cbn [root_id].
    destruct (IHl h (Some i) HdL Hl) as (cQ & cY & HQ & HQl & HY & HYl & HYr & Hqy & Hry & Hyr); [subst L; cbn; discriminate|].
    exists cQ, cY. repeat (split; [assumption|]).
    assert (Hmin : has L (min_id L)) by (apply min_id_has; subst L; discriminate).
    split; [intros [= ->]; contradiction|].
    intros x Hx. destruct (Hyr x Hx) as (Ha & Hb & Hc & Hd). repeat (split; [assumption|]). split; [|exact Hd].
    intros [= ->]. apply H1. apply min_right_has. apply root_has. exact Hx.
Qed.

Lemma deep_cells_y : forall st sl Q ym cX cQ cY,
  deep_cells st sl Q ym cX cQ cY ym = Some (mkC (cl cX) (cr cX) (cp cX) (cf cX)).
Proof. intros. unfold deep_cells. apply upd_same. Qed.

Lemma deep_cells_other : forall st sl Q ym cX cQ cY j, j <> ym -> cl cX <> Some j -> cr cX <> Some j -> cr cY <> Some j -> j <> Q ->
  deep_cells st sl Q ym cX cQ cY j = hp (slot_set st sl (Some ym)) j.
Proof. intros. unfold deep_cells. rewrite upd_other, !reparent_other, upd_other by assumption. reflexivity. Qed.

Lemma deep_cells_l : forall st sl Q ym cX cQ cY l0 cL, l0 <> ym -> cl cX = Some l0 -> cr cX <> Some l0 -> cr cY <> Some l0 -> l0 <> Q ->
  slot_parent sl <> Some l0 -> hp st l0 = Some cL ->
  deep_cells st sl Q ym cX cQ cY l0 = Some (with_p (Some ym) cL).
Proof.
  intros st sl Q ym cX cQ cY l0 cL H1 H2 H3 H4 H5 H6 H7. unfold deep_cells. rewrite upd_other by assumption. rewrite H2.
  apply reparent_same. rewrite !reparent_other, upd_other, hp_slot_set_other by assumption. exact H7.
Qed.

Lemma deep_cells_r : forall st sl Q ym cX cQ cY r0 cR, r0 <> ym -> cl cX <> Some r0 -> cr cX = Some r0 -> cr cY <> Some r0 -> r0 <> Q ->
  slot_parent sl <> Some r0 -> hp st r0 = Some cR ->
  deep_cells st sl Q ym cX cQ cY r0 = Some (with_p (Some ym) cR).
Proof.
  intros st sl Q ym cX cQ cY r0 cR H1 H2 H3 H4 H5 H6 H7. unfold deep_cells. rewrite upd_other, reparent_other by assumption. rewrite H3.
  apply reparent_same. rewrite reparent_other, upd_other, hp_slot_set_other by assumption. exact H7.
Qed.

Lemma deep_cells_yr : forall st sl Q ym cX cQ cY x c, x <> ym -> cl cX <> Some x -> cr cX <> Some x -> cr cY = Some x -> x <> Q ->
  slot_parent sl <> Some x -> hp st x = Some c ->
  deep_cells st sl Q ym cX cQ cY x = Some (with_p (Some Q) c).
Proof.
  intros st sl Q ym cX cQ cY x c H1 H2 H3 H4 H5 H6 H7. unfold deep_cells. rewrite upd_other, !reparent_other by assumption. rewrite H4.
  apply reparent_same. rewrite upd_other, hp_slot_set_other by assumption. exact H7.
Qed.

Lemma deep_cells_q : forall st sl Q ym cX cQ cY, Q <> ym -> cl cX <> Some Q -> cr cY <> Some Q ->
  deep_cells st sl Q ym cX cQ cY Q =
  Some (if oid_eqb (Some Q) (cr cX) then with_p (Some ym) (with_l (cr cY) cQ) else with_l (cr cY) cQ).
Proof.
  intros st sl Q ym cX cQ cY H1 H2 H3. unfold deep_cells. rewrite upd_other, reparent_other by assumption.
  destruct (oid_eqb (Some Q) (cr cX)) eqn:Eo.
  - apply oid_eqb_eq in Eo. rewrite <- Eo. apply reparent_same. rewrite reparent_other by assumption. apply upd_same.
  - assert (H4 : cr cX <> Some Q) by (intros Heq; rewrite Heq, oid_eqb_refl in Eo; discriminate).
    rewrite !reparent_other by assumption. apply upd_same.
Qed.

Lemma deep_pre : forall st sl l kx ix f r,
  Hangs st sl (T l kx ix f r) -> l <> E -> child r (-1) <> E -> -1 <= f <= 1 ->
  exists l0 r0 cX cQ cY cL, root_id l = Some l0 /\ root_id r = Some r0 /\ cr cY = root_id (min_right r) /\
    DeepPre st sl ix (min_parent r) (min_id r) l0 r0 cX cQ cY cL /\
    Spine (hp st) r0 (min_parent r) (pred (lspine r)).
Proof.
  intros st sl l kx ix f r (Hd & Hq & Hr & Hsl) Hl Hne Hf.
  destruct l as [|ll lk l0 lf lr]; [congruence|].
  destruct r as [|rl rk r0 rf rr] eqn:Er; [cbn in Hne; congruence|]. rewrite <- Er in *.
  assert (Hr0 : root_id r = Some r0) by (rewrite Er; reflexivity).
  cbn [Repr] in Hr. destruct Hr as (Hx & (Hl0 & _ & _) & Hrr).
  cbn [distinct] in Hd. destruct Hd as (H1 & H2 & H3 & _ & Hdr).
  destruct (spine_bottom r (hp st) (Some ix) Hdr Hrr Hne) as (cQ & cY & HQ & HQl & HY & HYl & HYr & Hqy & Hry & Hyr).
  pose proof (min_parent_has r Hne) as HQin.
  assert (Hmin : has r (min_id r)) by (apply min_id_has; rewrite Er; discriminate).
  assert (Hr0in : has r r0) by (apply root_has; exact Hr0).
  assert (Hl0in : has (T ll lk l0 lf lr) l0) by (cbn; auto).
  assert (Hq' : forall j, has (T (T ll lk l0 lf lr) kx ix f r) j -> slot_parent sl <> Some j) by (intros j; apply q_out; exact Hq).
  exists l0, r0. do 4 eexists. split; [reflexivity|]. split; [exact Hr0|]. split; [exact HYr|]. split.
  - constructor; try eassumption; try reflexivity; try exact Hf.
    + intros ->. contradiction.
    + intros ->. contradiction.
    + intros ->. apply H1. exact Hl0in.
    + intros Heq. apply (H3 l0); [exact Hl0in|rewrite <- Heq; exact HQin].
    + intros Heq. apply (H3 l0); [exact Hl0in|rewrite <- Heq; exact Hmin].
    + intros ->. contradiction.
    + congruence.
    + intros ->. apply (H3 r0); assumption.
    + intros Hne'. destruct (Repr_root _ _ _ _ Hrr Hr0) as (c & Hc & _). eauto.
    + apply Hq'. cbn; auto.
    + apply Hq'. cbn [has]. auto.
    + apply Hq'. cbn [has]. auto.
    + apply Hq'. cbn [has]. auto.
    + apply Hq'. cbn [has]. auto.
    + intros x Hxr. rewrite HYr in Hxr. destruct (Hyr x Hxr) as (Ha & Hb & Hc & Hd').
      assert (Hxin : has r x) by (apply min_right_has; apply root_has; exact Hxr).
      split; [intros ->; contradiction|]. split; [exact Ha|]. split; [exact Hb|].
      split; [intros ->; apply (H3 l0); assumption|].
      split; [congruence|]. split; [apply Hq'; cbn [has]; auto|exact Hd'].
  - apply (spine_of_tree r (hp st) (Some ix) r0 Hrr Hne Hr0).
Qed.

Lemma with_lp_comm : forall a b c, with_p a (with_l b c) = with_l b (with_p a c).
Proof. reflexivity. Qed.

Lemma deep_post : forall st sl l kx ix f r l0 r0 cX cQ cY cL st',
  Hangs st sl (T l kx ix f r) -> child r (-1) <> E -> root_id l = Some l0 -> root_id r = Some r0 ->
  cr cY = root_id (min_right r) ->
  DeepPre st sl ix (min_parent r) (min_id r) l0 r0 cX cQ cY cL -> DeepPost st sl (min_parent r) (min_id r) cX cQ cY st' ->
  Repr (hp st') (slot_parent sl) (splice l f r) /\ agree_outside (T l kx ix f r) st' (slot_set st sl (Some (min_id r))).
Proof.
  intros st sl l kx ix f r l0 r0 cX cQ cY cL st' (Hd & Hq & Hr & Hsl) Hne Hl0 Hr0 HYr Pre (Hroot & Hcells).
  destruct Pre as [Hxq Hxy Hqy Hxl Hql Hyl Hxr Hyr0 Hlr Hx HQ HY HL HR0 Hxleft Hxright Hqleft Hyleft Hpar _ Hsx Hsq Hsy Hsl0 Hsr Hyright _].
  set (Q := min_parent r) in *. set (ym := min_id r) in *.
  cbn [Repr] in Hr. destruct Hr as (Hx' & Hrl & Hrr).
  rewrite Hx' in Hx. injection Hx as <-. cbn [cl cr cp cf] in *.
  cbn [distinct] in Hd. destruct Hd as (H1 & H2 & H3 & Hdl & Hdr).
  pose proof (min_parent_has r Hne) as HQin. fold Q in HQin.
  assert (Hrne : r <> E) by (intros ->; discriminate).
  assert (Hmin : has r ym) by (apply min_id_has; exact Hrne).
  assert (Hr0in : has r r0) by (apply root_has; exact Hr0).
  assert (Hl0in : has l l0) by (apply root_has; exact Hl0).
  assert (Hyrin : forall x, cr cY = Some x -> has r x).
  { intros x Hx. rewrite HYr in Hx. apply min_right_has. apply root_has. exact Hx. }
  assert (Hq' : forall j, has (T l kx ix f r) j -> slot_parent sl <> Some j) by (intros j; apply q_out; exact Hq).
  assert (HYl0 : cr cY <> Some l0) by (intros Heq; apply (H3 l0); [exact Hl0in|exact (Hyrin _ Heq)]).
  assert (HYr0 : cr cY <> Some r0) by (intros Heq; destruct (Hyright r0 Heq) as (_ & _ & _ & _ & Hbad & _); congruence).
  assert (HYQ : cr cY <> Some Q) by (intros Heq; destruct (Hyright Q Heq) as (_ & Hbad & _); congruence).
  assert (HlQ : root_id l <> Some Q) by (rewrite Hl0; intros [= Heq]; apply (H3 Q); [rewrite <- Heq; exact Hl0in|exact HQin]).
  (* a node that is none of the cells the splice writes *)
  assert (Hother : forall j, j <> ym -> j <> l0 -> j <> r0 -> cr cY <> Some j -> j <> Q -> slot_parent sl <> Some j ->
            hp st' j = hp st j).
  { intros j A1 A2 A3 A4 A5 A6. rewrite Hcells, deep_cells_other; cbn [cl cr]; try assumption; try congruence.
    apply hp_slot_set_other. exact A6. }
  split.
  - unfold splice. fold ym. cbn [Repr]. split; [|split].
    + rewrite Hcells, deep_cells_y. cbn [cl cr cp cf]. f_equal. f_equal.
      destruct r as [|rl rk ri rf rr]; [congruence|]. cbn [child Z.ltb Z.compare] in Hne. symmetry. apply cut_root. exact Hne.
    + apply (Repr_reparent l (hp st) _ (Some ix) (Some ym) Hdl Hrl).
      * intros x Hx. rewrite Hl0 in Hx. injection Hx as <-. exists cL. split; [exact HL|].
        rewrite Hcells. apply deep_cells_l; cbn [cl cr]; try assumption; congruence.
      * intros j Hj Hne'. apply Hother.
        -- intros ->. apply (H3 ym); assumption.
        -- intros ->. congruence.
        -- intros ->. apply (H3 r0); assumption.
        -- intros Heq. apply (H3 j); [exact Hj|exact (Hyrin _ Heq)].
        -- intros ->. apply (H3 Q); assumption.
        -- apply Hq'. cbn [has]. auto.
    + apply (Repr_cut r (hp st) (hp st') (Some ix) (Some ym) Hdr Hrr Hne); fold Q; fold ym; rewrite <- ?HYr.
      * intros c Hc. rewrite HQ in Hc. injection Hc as <-. rewrite Hcells, deep_cells_q; cbn [cl cr]; try assumption.
        rewrite Hr0. destruct (oid_eqb (Some Q) (Some r0)); reflexivity.
      * intros i c Hi Hiq Hc. rewrite Hr0 in Hi. injection Hi as <-.
        rewrite Hcells. apply deep_cells_r; cbn [cl cr]; try assumption; congruence.
      * intros x c Hx Hc. destruct (Hyright x Hx) as (A1 & A2 & A3 & A4 & A5 & A6 & _).
        rewrite Hcells. apply deep_cells_yr; cbn [cl cr]; try assumption; congruence.
      * intros j Hj A1 A2 A3 A4. apply Hother; try assumption.
        -- intros ->. apply (H3 l0); assumption.
        -- congruence.
        -- apply Hq'. cbn [has]. auto.
  - split; [exact Hroot|]. intros j Hj. rewrite Hcells. cbn [has] in Hj. apply deep_cells_other; cbn [cl cr].
    + intros ->. tauto.
    + rewrite Hl0. intros [= ->]. tauto.
    + rewrite Hr0. intros [= ->]. tauto.
    + intros Heq. pose proof (Hyrin _ Heq). tauto.
    + intros ->. tauto.
Qed.

(* ================================================================== Part 10: a_avl_remove *)

(* ---- slots after an operation that left everything outside a set of nodes U as [slot_set st sl v] has it *)
Lemma slot_at_after : forall st st0 sl (U : Z -> Prop) v0 v,
  slot_at st sl v0 -> (forall q, slot_parent sl = Some q -> ~ U q) ->
  rootp st0 = rootp (slot_set st sl v) -> (forall j, ~ U j -> hp st0 j = hp (slot_set st sl v) j) ->
  (forall q c, sl = SRight q -> hp st q = Some c -> cl c <> v) ->
  slot_at st0 sl v.
Proof.
  intros st st0 [|q|q] U v0 v Hsl Hq Hr Hfr Hcl; cbn [slot_at slot_parent slot_set] in *.
  - rewrite Hr. reflexivity.
  - destruct Hsl as (c & Hc & _). rewrite (Hfr q (Hq q eq_refl)), Hc. cbn [hp]. rewrite upd_same. eexists. split; reflexivity.
  - destruct Hsl as (c & Hc & _). rewrite (Hfr q (Hq q eq_refl)), Hc. cbn [hp]. rewrite upd_same. eexists. split; [reflexivity|].
    cbn [cr cl with_r]. split; [reflexivity|]. exact (Hcl q c eq_refl Hc).
Qed.

Lemma slot_set_after : forall st st0 sl (U : Z -> Prop) v v',
  (forall q, slot_parent sl = Some q -> ~ U q) ->
  rootp st0 = rootp (slot_set st sl v) -> (forall j, ~ U j -> hp st0 j = hp (slot_set st sl v) j) ->
  rootp (slot_set st0 sl v') = rootp (slot_set st sl v') /\
  (forall j, ~ U j -> hp (slot_set st0 sl v') j = hp (slot_set st sl v') j).
Proof.
  intros st st0 [|q|q] U v v' Hq Hr Hfr; cbn [slot_parent slot_set] in *.
  - split; [reflexivity|]. intros j Hj. cbn [hp]. exact (Hfr j Hj).
  - pose proof (Hfr q (Hq q eq_refl)) as Hqc. destruct (hp st q) as [c|] eqn:Hc; cbn [hp rootp] in *.
    + rewrite upd_same in Hqc. rewrite Hqc. cbn [hp rootp]. split; [exact Hr|]. intros j Hj. unfold upd.
      destruct (Z.eqb_spec j q); [reflexivity|]. rewrite (Hfr j Hj). apply upd_other. exact n.
    + rewrite Hqc, Hc. split; [exact Hr|]. intros j Hj. exact (Hfr j Hj).
  - pose proof (Hfr q (Hq q eq_refl)) as Hqc. destruct (hp st q) as [c|] eqn:Hc; cbn [hp rootp] in *.
    + rewrite upd_same in Hqc. rewrite Hqc. cbn [hp rootp]. split; [exact Hr|]. intros j Hj. unfold upd.
      destruct (Z.eqb_spec j q); [reflexivity|]. rewrite (Hfr j Hj). apply upd_other. exact n.
    + rewrite Hqc, Hc. split; [exact Hr|]. intros j Hj. exact (Hfr j Hj).
Qed.

Lemma slot_clean_after : forall st st0 sl (U : Z -> Prop) v P,
  slot_clean st sl P -> (forall q, slot_parent sl = Some q -> ~ U q) ->
  (forall j, ~ U j -> hp st0 j = hp (slot_set st sl v) j) -> slot_clean st0 sl P.
Proof.
  intros st st0 [|q|q] U v P Hc Hq Hfr; cbn [slot_clean slot_parent slot_set] in *; [exact I|exact I|].
  intros c j Hc0 Hl. rewrite (Hfr q (Hq q eq_refl)) in Hc0. destruct (hp st q) as [c1|] eqn:Hc1; cbn [hp] in Hc0.
  - rewrite upd_same in Hc0. injection Hc0 as <-. cbn [cl with_r] in Hl. exact (Hc c1 j eq_refl Hl).
  - rewrite Hc1 in Hc0. discriminate.
Qed.

Lemma slot_clean_sub : forall st sl P P', slot_clean st sl P -> (forall j, has P' j -> has P j) -> slot_clean st sl P'.
Proof. intros st [|q|q] P P' H Hs; cbn [slot_clean] in *; auto. intros c j Hc Hl Hh. exact (H c j Hc Hl (Hs j Hh)). Qed.

(* the parent's tree after the retrace below a child, the heap below that child having been a different tree before *)
Lemma Repr_above_left : forall st st1 p (U : Z -> Prop) l' k i f r c,
  hp st i = Some c -> cr c = root_id r -> cp c = p -> cf c = f -> Repr (hp st) (Some i) r ->
  ~ U i -> (forall j, has r j -> ~ U j) -> ~ has r i ->
  Repr (hp st1) (Some i) l' -> (forall j, ~ U j -> hp st1 j = hp (slot_set st (SLeft i) (root_id l')) j) ->
  Repr (hp st1) p (T l' k i f r).
Proof.
  intros st st1 p U l' k i f r c Hi Hcr Hcp Hcf Hr HiU HrU Hir Hl' Hag. cbn [Repr]. split; [|split; [exact Hl'|]].
  - rewrite (Hag i HiU). cbn [slot_set]. rewrite Hi. cbn [hp]. rewrite upd_same. destruct c; cbn in *. subst. reflexivity.
  - apply (Repr_ext r (hp st)); [|exact Hr]. intros j Hj. rewrite Hag by (apply HrU; exact Hj).
    apply hp_slot_set_other. cbn. intros [= ->]. contradiction.
Qed.

Lemma Repr_above_right : forall st st1 p (U : Z -> Prop) r' k i f l c,
  hp st i = Some c -> cl c = root_id l -> cp c = p -> cf c = f -> Repr (hp st) (Some i) l ->
  ~ U i -> (forall j, has l j -> ~ U j) -> ~ has l i ->
  Repr (hp st1) (Some i) r' -> (forall j, ~ U j -> hp st1 j = hp (slot_set st (SRight i) (root_id r')) j) ->
  Repr (hp st1) p (T l k i f r').
Proof.
  intros st st1 p U r' k i f l c Hi Hcl Hcp Hcf Hl HiU HlU Hil Hr' Hag. cbn [Repr]. split; [|split; [|exact Hr']].
  - rewrite (Hag i HiU). cbn [slot_set]. rewrite Hi. cbn [hp]. rewrite upd_same. destruct c; cbn in *. subst. reflexivity.
  - apply (Repr_ext l (hp st)); [|exact Hl]. intros j Hj. rewrite Hag by (apply HlU; exact Hj).
    apply hp_slot_set_other. cbn. intros [= ->]. contradiction.
Qed.


(* ---- nodes of the model's results *)
Lemma cut_has_iff : forall v j, distinct v -> v <> E -> (has (cut v) j <-> has v j /\ j <> min_id v).
Proof.
  induction v as [|l IHl k i f r _]; intros j Hd Hne; [congruence|].
  cbn [distinct] in Hd. destruct Hd as (H1 & H2 & H3 & H4 & H5). cbn [cut min_id]. destruct l as [|ll lk li lf lr].
  - cbn [has]. split; [intros H; split; [tauto|intros ->; contradiction]|tauto].
  - assert (Hm : has (T ll lk li lf lr) (min_id (T ll lk li lf lr))) by (apply min_id_has; discriminate).
    set (L := T ll lk li lf lr) in *. change (has (T (cut L) k i f r) j <-> has (T L k i f r) j /\ j <> min_id L).
    cbn [has]. rewrite (IHl j H4) by (subst L; discriminate). split.
    + intros [Hj|[(Hl & Hn)|Hr]].
      * split; [left; exact Hj|]. intros Heq. apply H1. rewrite <- Hj, Heq. exact Hm.
      * split; [right; left; exact Hl|exact Hn].
      * split; [right; right; exact Hr|]. intros Heq. rewrite Heq in Hr. exact (H3 _ Hm Hr).
    + intros ([Hj|[Hl|Hr]] & Hn); [left; exact Hj|right; left; split; assumption|right; right; exact Hr].
Qed.

Lemma rem_min_min : forall t t' sh y tr, rem_min t = Some (t', sh, y, tr) -> y = (min_key t, min_id t).
Proof.
  induction t as [|l IHl k i f r _]; intros t' sh y tr H; [discriminate|]. cbn [rem_min min_key min_id] in *.
  destruct l as [|ll lk li lf lr]; [injection H as _ _ <- _; reflexivity|].
  destruct (rem_min (T ll lk li lf lr)) as [[[[l' shl] y'] trl]|] eqn:El; [|discriminate].
  pose proof (IHl _ _ _ _ eq_refl) as ->. destruct shl.
  - destruct (handle_shrink 1 (T l' k i f r)) as [[[p' stop] tg]|]; [|discriminate]. injection H as _ _ <- _. reflexivity.
  - injection H as _ _ <- _. reflexivity.
Qed.

Lemma rem_min_nodes : forall t t' sh y tr, Balanced t -> t <> E -> distinct t -> rem_min t = Some (t', sh, y, tr) ->
  Balanced t' /\ (forall j, has t' j -> has (cut t) j) /\ distinct t'.
Proof.
  intros t t' sh y tr Bt Hne Hd H. destruct (rem_min_spec t Bt Hne) as (t2 & sh2 & y2 & tr2 & H2 & B2 & Hel & _).
  rewrite H in H2. injection H2 as <- <- <- <-. pose proof (rem_min_min _ _ _ _ _ H) as Hy.
  assert (Hids : ids t = min_id t :: ids t') by (unfold ids; rewrite Hel, Hy; reflexivity).
  pose proof (proj1 (distinct_ids t) Hd) as Hn. rewrite Hids in Hn. inversion Hn as [|? ? Hnin Hn']; subst.
  split; [exact B2|]. split; [|apply distinct_ids; exact Hn'].
  intros j Hj. apply cut_has_iff; [exact Hd|exact Hne|]. apply has_ids in Hj. split.
  - apply has_ids. rewrite Hids. cbn; auto.
  - intros ->. contradiction.
Qed.

Lemma slot_clean_agree : forall st st1 sl P, slot_clean st sl P ->
  (forall q, slot_parent sl = Some q -> hp st1 q = hp st q) -> slot_clean st1 sl P.
Proof.
  intros st st1 [|q|q] P H Hq; cbn [slot_clean slot_parent] in *; auto. intros c j Hc. rewrite (Hq q eq_refl) in Hc. exact (H c j Hc).
Qed.

Lemma balanced_sub : forall l k i f r, Balanced (T l k i f r) -> Balanced l /\ Balanced r /\ -1 <= f <= 1.
Proof. intros l k i f r H. cbn [Balanced] in H. tauto. Qed.


(* iterations of the retrace loop of a_avl_remove below and at the root of t, the node with key k being removed *)
Fixpoint rdepth (k : Z) (t : tree) : nat :=
  match t with
  | E => O
  | T l k' _ _ r =>
    match Z.compare k k' with
    | Lt => S (rdepth k l)
    | Gt => S (rdepth k r)
    | Eq => match l, r with T _ _ _ _ _, T _ _ _ _ _ => S (lspine r) | _, _ => O end
    end
  end.

Lemma lspine_height : forall t, t <> E -> Z.of_nat (lspine t) + 1 <= height t.
Proof.
  induction t as [|l IHl k i f r _]; intros H; [congruence|]. cbn [lspine height].
  pose proof (height_nonneg r). destruct l as [|ll lk li lf lr]; [cbn [height]; lia|].
  assert (Hl : T ll lk li lf lr <> E) by discriminate. specialize (IHl Hl). lia.
Qed.

Lemma rdepth_height : forall k t, Z.of_nat (rdepth k t) <= height t.
Proof.
  induction t as [|l IHl k' i f r IHr]; [cbn; lia|]. cbn [rdepth height].
  pose proof (height_nonneg l). pose proof (height_nonneg r).
  destruct (k ?= k'); try lia. destruct l as [|? ? ? ? ?]; [lia|]. destruct r as [|rl rk ri rf rr]; [lia|].
  assert (Hr : T rl rk ri rf rr <> E) by discriminate. pose proof (lspine_height _ Hr). lia.
Qed.

Lemma rem_nodes : forall k t t' sh rid tr, Balanced t -> Bst t -> distinct t -> rem k t = ROk t' sh rid tr ->
  Balanced t' /\ (forall j, has t' j -> has t j) /\ distinct t'.
Proof.
  intros k t t' sh rid tr Bt St Hd H. pose proof (rem_spec k t Bt St) as Hs. rewrite H in Hs. destruct Hs as (B' & _ & Hel & _).
  split; [exact B'|]. split.
  - intros j Hj. apply has_ids in Hj. apply has_ids. unfold ids in *. rewrite Hel in Hj.
    apply in_map_iff in Hj. destruct Hj as ([a b] & <- & Hin). apply ldelete_In in Hin. apply in_map_iff. exists (a, b). auto.
  - apply distinct_ids. unfold ids. rewrite Hel. apply ldelete_nodup. apply distinct_ids. exact Hd.
Qed.

Section Remove.
  (* a_avl_handle_shrink and a_avl_handle_remove as the generated module has them; only their tie theorems are used *)
  Variable hs : state -> option Z -> Z -> Z -> option (option Z * Z * state).
  Variable hr : nat -> state -> option Z -> Z -> option (option Z * Z * state).

  (* hand models of the retrace loop of a_avl_remove and of the function *)
  Fixpoint m_remove_loop (fuel : nat) (st : state) (lf : Z) (p : option Z) {struct fuel} : option state :=
    match fuel with
    | O => None
    | S n =>
      if lf =? 0
      then bind (hs st p (-1) lf) (fun '(p', lf', st') => if nonnull p' then m_remove_loop n st' lf' p' else Some st')
      else bind (hs st p 1 lf) (fun '(p', lf', st') => if nonnull p' then m_remove_loop n st' lf' p' else Some st')
    end.

  (* the node misses a child: its other child (or null) takes its place *)
  Definition m_unlink (fuel : nat) (st : state) (node child : option Z) : option state :=
    bind (m_parent st node) (fun p =>
    if nonnull p
    then
      bind (rd st cl p) (fun t =>
      if oid_eqb t node
      then bind (wr st p (with_l child)) (fun st1 =>
           if nonnull child then bind (m_set_parent st1 child p) (fun st2 => m_remove_loop fuel st2 1 p)
           else m_remove_loop fuel st1 1 p)
      else bind (wr st p (with_r child)) (fun st1 =>
           if nonnull child then bind (m_set_parent st1 child p) (fun st2 => m_remove_loop fuel st2 0 p)
           else m_remove_loop fuel st1 0 p))
    else
      if nonnull child then bind (m_set_parent st child p) (fun st1 => Some (set_root st1 child))
      else Some (set_root st child)).

  Definition m_remove (fuel : nat) (st : state) (node : option Z) : option state :=
    bind (rd st cl node) (fun a =>
    bind (rd st cr node) (fun b =>
    if nonnull a && nonnull b
    then bind (hr fuel st node 0) (fun '(p, lf, st1) => m_remove_loop fuel st1 lf p)
    else m_unlink fuel st node (if nonnull a then a else b))).

  (* where the retrace continues after a subtree below the slot sl has shrunk *)
  Definition cont (n : nat) (st1 : state) (sl : slot) : option state :=
    match sl with
    | SRoot => Some st1
    | SLeft q => m_remove_loop n st1 1 (Some q)
    | SRight q => m_remove_loop n st1 0 (Some q)
    end.

  Hypothesis hs_spec : forall st sl P s lf0 P' stop tg,
    (s = 1 \/ s = -1) -> NoDup (ids P) -> (forall q, slot_parent sl = Some q -> ~ In q (ids P)) ->
    Repr (hp st) (slot_parent sl) P -> slot_at st sl (root_id P) -> slot_clean st sl P -> frange P ->
    handle_shrink s P = Some (P', stop, tg) ->
    exists st', hs st (root_id P) s lf0 =
        Some (if stop then (None, lf0, st') else (slot_parent sl, slot_flag sl lf0, st')) /\
      Repr (hp st') (slot_parent sl) P' /\
      rootp st' = rootp (slot_set st sl (root_id P')) /\
      (forall j, ~ In j (ids P) -> hp st' j = hp (slot_set st sl (root_id P')) j).

  (* one iteration of the loop at the root i of P, entered with the flag that goes with the sign *)
  Lemma shrink_iter : forall st sl P i s lf P' stop tg,
    (s = 1 /\ lf = 1 \/ s = -1 /\ lf = 0) -> root_id P = Some i ->
    distinct P -> (forall q, slot_parent sl = Some q -> ~ has P q) ->
    Repr (hp st) (slot_parent sl) P -> slot_at st sl (Some i) -> slot_clean st sl P -> frange P ->
    handle_shrink s P = Some (P', stop, tg) ->
    exists st2, Repr (hp st2) (slot_parent sl) P' /\ rootp st2 = rootp (slot_set st sl (root_id P')) /\
      (forall j, ~ has P j -> hp st2 j = hp (slot_set st sl (root_id P')) j) /\
      forall n, m_remove_loop (S n) st lf (Some i) = if stop then Some st2 else cont n st2 sl.
  Proof.
    intros st sl P i s lf P' stop tg Hs Hi Hd Hq Hr Hsl Hcl Hf Hg.
    assert (Hn : NoDup (ids P)) by (apply distinct_ids; exact Hd).
    assert (Hq' : forall q, slot_parent sl = Some q -> ~ In q (ids P)).
    { intros q Hq0 Hin. apply (Hq q Hq0). apply has_ids. exact Hin. }
    assert (Hs' : s = 1 \/ s = -1) by tauto.
    rewrite <- Hi in Hsl.
    destruct (hs_spec st sl P s lf P' stop tg Hs' Hn Hq' Hr Hsl Hcl Hf Hg) as (st2 & Hrun & HR & Hroot & Hfr).
    rewrite Hi in Hrun.
    exists st2. split; [exact HR|]. split; [exact Hroot|]. split; [intros j Hj; apply Hfr; rewrite <- has_ids; exact Hj|].
    intros n. cbn [m_remove_loop].
    destruct Hs as [(-> & ->)|(-> & ->)]; cbn [Z.eqb]; rewrite Hrun, bind_some; destruct stop; cbn [nonnull]; try reflexivity;
      destruct sl as [|q|q]; reflexivity.
  Qed.

  (* the retrace along the left spine of a subtree v out of which the leftmost node has been cut: the loop entered at the
     parent of that node with *left = 1 against AvlDefs.rem_min *)
  Lemma spine_climb : forall v, child v (-1) <> E -> forall st sl v' sh y tr,
    Balanced v -> distinct v -> (forall q, slot_parent sl = Some q -> ~ has (cut v) q) ->
    Repr (hp st) (slot_parent sl) (cut v) -> slot_at st sl (root_id v) -> slot_clean st sl (cut v) ->
    rem_min v = Some (v', sh, y, tr) ->
    exists st1, Repr (hp st1) (slot_parent sl) v' /\ rootp st1 = rootp (slot_set st sl (root_id v')) /\
      (forall j, ~ has (cut v) j -> hp st1 j = hp (slot_set st sl (root_id v')) j) /\
      forall n, m_remove_loop (lspine v + n) st 1 (Some (min_parent v)) = if sh then cont n st1 sl else Some st1.
  Proof.
    induction v as [|vl IHl k i f vr _]; intros Hne st sl v' sh y tr Bv Hd Hq Hr Hsl Hcl Hrm; [cbn in Hne; congruence|].
    cbn [child Z.ltb Z.compare] in Hne. destruct vl as [|vll lk li lf vlr] eqn:Evl; [congruence|]. rewrite <- Evl in *.
    destruct (balanced_sub _ _ _ _ _ Bv) as (Bl & Br & Hfi).
    assert (Hvlne : vl <> E) by (rewrite Evl; discriminate).
    pose proof Hd as Hd0. cbn [distinct] in Hd0. destruct Hd0 as (H1 & H2 & H3 & Hdl & Hdr).
    cbn [root_id] in Hsl. destruct (slot_set_same st sl (Some i) Hsl) as (Hss1 & Hss2).
    assert (Hcut : cut (T vl k i f vr) = T (cut vl) k i f vr) by (rewrite Evl; reflexivity).
    rewrite Hcut in Hq, Hr, Hcl |- *.
    cbn [rem_min] in Hrm. rewrite Evl in Hrm. rewrite <- Evl in Hrm.
    destruct (rem_min vl) as [[[[l' shl] yl] trl]|] eqn:Erl; [|discriminate].
    destruct (rem_min_nodes _ _ _ _ _ Bl Hvlne Hdl Erl) as (Bl' & Hsub & Hdl').
    pose proof Hr as Hr0. cbn [Repr] in Hr0. destruct Hr0 as (Hi & Hrcl & Hrr).
    assert (Hcutsub : forall j, has (cut vl) j -> has vl j) by (intros j; apply cut_has).
    (* the state and the tree at this node once the retrace below is done: P = T l' k i f vr laid out in st1 *)
    assert (Hbelow : exists st1, Repr (hp st1) (slot_parent sl) (T l' k i f vr) /\ rootp st1 = rootp st /\
              (forall j, ~ has (cut vl) j -> j <> i -> hp st1 j = hp st j) /\
              forall n, m_remove_loop (lspine (T vl k i f vr) + n) st 1 (Some (min_parent (T vl k i f vr))) =
                        if shl then m_remove_loop (S n) st1 1 (Some i) else Some st1).
    { destruct vll as [|vlll llk lli llf vllr] eqn:Evll.
      - (* the left child is the leftmost node: nothing below *)
        rewrite Evl in Erl. cbn [rem_min] in Erl. injection Erl as <- <- <- <-.
        exists st. rewrite Evl in Hr |- *. cbn [cut lspine min_parent Nat.add] in *.
        split; [exact Hr|]. split; [reflexivity|]. split; [reflexivity|]. reflexivity.
      - assert (Hne' : child vl (-1) <> E) by (rewrite Evl; cbn; discriminate).
        assert (Hq1 : forall q, slot_parent (SLeft i) = Some q -> ~ has (cut vl) q).
        { cbn. intros q [= <-] Hh. apply H1. apply Hcutsub. exact Hh. }
        assert (Hsl1 : slot_at st (SLeft i) (root_id vl)).
        { cbn [slot_at]. eexists. split; [exact Hi|]. cbn [cl]. rewrite Evl. reflexivity. }
        destruct (IHl Hne' st (SLeft i) l' shl yl trl Bl Hdl Hq1 Hrcl Hsl1 I eq_refl) as (st1 & HR1 & Hroot1 & Hfr1 & Heq1).
        rewrite rootp_slot_set_left in Hroot1.
        exists st1. split; [|split; [exact Hroot1|split]].
        + apply (Repr_above_left st st1 _ (has (cut vl)) l' k i f vr _ Hi eq_refl eq_refl eq_refl Hrr); try assumption.
          * intros Hh. apply H1. apply Hcutsub. exact Hh.
          * intros j Hj Hh. apply (H3 j); [apply Hcutsub; exact Hh|exact Hj].
        + intros j Hj Hji. rewrite Hfr1 by exact Hj. apply hp_slot_set_other. cbn. congruence.
        + intros n. assert (Hls : lspine (T vl k i f vr) = S (lspine vl)) by (rewrite Evl; reflexivity).
          assert (Hmp : min_parent (T vl k i f vr) = min_parent vl) by (rewrite Evl; reflexivity).
          rewrite Hls, Hmp. replace (S (lspine vl) + n)%nat with (lspine vl + S n)%nat by lia. rewrite Heq1. reflexivity. }
    destruct Hbelow as (st1 & HRP & Hroot1 & Hsame & Heq1).
    assert (Hqs : forall q, slot_parent sl = Some q -> hp st1 q = hp st q).
    { intros q Hq0. pose proof (Hq q Hq0) as Hnq. cbn [has] in Hnq. apply Hsame; [tauto|]. intros ->. tauto. }
    destruct shl.
    - destruct (handle_shrink 1 (T l' k i f vr)) as [[[p' stop] tg]|] eqn:Ehs; [|discriminate]. injection Hrm as <- <- _ _.
      assert (HdP : distinct (T l' k i f vr)).
      { cbn [distinct]. split; [|split; [exact H2|split; [|split; assumption]]].
        - intros Hh. apply H1. apply Hcutsub. apply Hsub. exact Hh.
        - intros j Hj Hj'. apply (H3 j); [apply Hcutsub; apply Hsub; exact Hj|exact Hj']. }
      assert (HPsub : forall j, has (T l' k i f vr) j -> has (T (cut vl) k i f vr) j).
      { intros j Hj. cbn [has] in *. destruct Hj as [->|[Hj|Hj]]; auto. }
      assert (HqP : forall q, slot_parent sl = Some q -> ~ has (T l' k i f vr) q).
      { intros q Hq0 Hh. exact (Hq q Hq0 (HPsub q Hh)). }
      assert (HfP : frange (T l' k i f vr)) by (cbn [frange]; split; [exact Hfi|split; apply balanced_frange; assumption]).
      pose proof (slot_at_agree st st1 sl (Some i) Hsl Hroot1 Hqs) as Hsl'.
      pose proof (slot_clean_sub _ _ _ _ (slot_clean_agree st st1 sl _ Hcl Hqs) HPsub) as Hcl'.
      destruct (shrink_iter st1 sl (T l' k i f vr) i 1 1 p' stop tg (or_introl (conj eq_refl eq_refl)) eq_refl HdP HqP HRP Hsl' Hcl' HfP Ehs)
        as (st2 & HR2 & Hroot2 & Hfr2 & Heq2).
      destruct (slot_set_agree st1 st sl (root_id p') Hroot1 Hqs) as (Hsa1 & Hsa2).
      exists st2. split; [exact HR2|]. split; [congruence|]. split.
      + intros j Hj. rewrite Hfr2 by (intros Hh; apply Hj; apply HPsub; exact Hh). apply Hsa2. cbn [has] in Hj. apply Hsame; tauto.
      + intros n. rewrite Heq1, Heq2. destruct stop; reflexivity.
    - injection Hrm as <- <- _ _. exists st1. split; [exact HRP|]. cbn [root_id]. split; [congruence|]. split.
      + intros j Hj. cbn [has] in Hj. rewrite Hss2. apply Hsame; tauto.
      + intros n. rewrite Heq1. reflexivity.
  Qed.

  (* the node i misses a child: its other child c (or nothing) takes its place in the slot *)
  Lemma unlink_spec : forall st sl i ci c,
    hp st i = Some ci -> cp ci = slot_parent sl -> slot_at st sl (Some i) ->
    slot_parent sl <> Some i -> (forall q, slot_parent sl = Some q -> ~ has c q) -> ~ has c i ->
    distinct c -> Repr (hp st) (Some i) c ->
    exists st1, Repr (hp st1) (slot_parent sl) c /\ rootp st1 = rootp (slot_set st sl (root_id c)) /\
      (forall j, j <> i -> ~ has c j -> hp st1 j = hp (slot_set st sl (root_id c)) j) /\
      forall fuel, m_unlink fuel st (Some i) (root_id c) = cont fuel st1 sl.
  Proof.
    intros st sl i ci c Hi Hp Hsl Hqi Hq Hic Hd Hr.
    assert (Hhead : forall fuel child, m_unlink fuel st (Some i) child =
      (fun p => if nonnull p
        then bind (rd st cl p) (fun t =>
          if oid_eqb t (Some i)
          then bind (wr st p (with_l child)) (fun st1 =>
               if nonnull child then bind (m_set_parent st1 child p) (fun st2 => m_remove_loop fuel st2 1 p)
               else m_remove_loop fuel st1 1 p)
          else bind (wr st p (with_r child)) (fun st1 =>
               if nonnull child then bind (m_set_parent st1 child p) (fun st2 => m_remove_loop fuel st2 0 p)
               else m_remove_loop fuel st1 0 p))
        else if nonnull child then bind (m_set_parent st child p) (fun st1 => Some (set_root st1 child))
             else Some (set_root st child)) (slot_parent sl)).
    { intros fuel child. unfold m_unlink, m_parent. rewrite (bind_rd _ _ _ _ _ _ _ Hi), Hp. reflexivity. }
    destruct c as [|cl0 ck x cf0 cr0].
    - (* no child *)
      cbn [root_id]. exists (slot_set st sl None). split; [exact I|]. split; [reflexivity|]. split; [reflexivity|].
      intros fuel. rewrite Hhead. cbv beta. destruct sl as [|q|q]; cbn [slot_parent nonnull slot_at slot_set cont] in *.
      + reflexivity.
      + destruct Hsl as (cq & Hcq & Hl). rewrite (bind_rd _ _ _ _ _ _ _ Hcq), Hl, oid_eqb_refl.
        rewrite (bind_wr _ _ _ _ _ _ Hcq), Hcq. reflexivity.
      + destruct Hsl as (cq & Hcq & _ & Hl). rewrite (bind_rd _ _ _ _ _ _ _ Hcq).
        destruct (oid_eqb (cl cq) (Some i)) eqn:Eo; [apply oid_eqb_eq in Eo; contradiction|].
        rewrite (bind_wr _ _ _ _ _ _ Hcq), Hcq. reflexivity.
    - (* one child, root x *)
      cbn [root_id nonnull]. pose proof Hr as Hr0. cbn [Repr] in Hr0. destruct Hr0 as (Hx & _ & _).
      assert (Hxi : x <> i) by (intros ->; apply Hic; cbn; auto).
      assert (Hqx : slot_parent sl <> Some x) by (intros Heq; apply (Hq x Heq); cbn; auto).
      set (st0 := slot_set st sl (Some x)).
      assert (Hx0 : hp st0 x = Some {| cl := root_id cl0; cr := root_id cr0; cp := Some i; cf := cf0 |}).
      { unfold st0. rewrite hp_slot_set_other by exact Hqx. exact Hx. }
      exists (mkS (upd (hp st0) x (with_p (slot_parent sl) {| cl := root_id cl0; cr := root_id cr0; cp := Some i; cf := cf0 |})) (rootp st0)).
      cbn [hp rootp]. split; [|split; [reflexivity|split]].
      + apply (Repr_reparent (T cl0 ck x cf0 cr0) (hp st) _ (Some i) _ Hd Hr).
        * intros y Hy. cbn in Hy. injection Hy as <-. eexists. split; [exact Hx|]. apply upd_same.
        * intros j Hj Hne. rewrite upd_other by (intros ->; apply Hne; reflexivity). unfold st0. apply hp_slot_set_other.
          intros Heq. exact (Hq j Heq Hj).
      + intros j Hji Hj. apply upd_other. intros ->. apply Hj. cbn; auto.
      + intros fuel. rewrite Hhead. cbv beta. unfold m_set_parent. destruct sl as [|q|q]; cbn [slot_parent nonnull slot_at slot_set cont] in *.
        * rewrite (bind_wr _ _ _ _ _ _ Hx). reflexivity.
        * destruct Hsl as (cq & Hcq & Hl). rewrite (bind_rd _ _ _ _ _ _ _ Hcq), Hl, oid_eqb_refl.
          rewrite (bind_wr _ _ _ _ _ _ Hcq). unfold st0 in *. cbn [slot_set] in *. rewrite Hcq in *.
          rewrite (bind_wr _ _ _ _ _ _ Hx0). reflexivity.
        * destruct Hsl as (cq & Hcq & _ & Hl). rewrite (bind_rd _ _ _ _ _ _ _ Hcq).
          destruct (oid_eqb (cl cq) (Some i)) eqn:Eo; [apply oid_eqb_eq in Eo; contradiction|].
          rewrite (bind_wr _ _ _ _ _ _ Hcq). unfold st0 in *. cbn [slot_set] in *. rewrite Hcq in *.
          rewrite (bind_wr _ _ _ _ _ _ Hx0). reflexivity.
  Qed.

  Hypothesis hr_spec : forall st sl l kx ix f r lf0,
    NoDup (ids (T l kx ix f r)) -> (forall q, slot_parent sl = Some q -> ~ In q (ids (T l kx ix f r))) ->
    Repr (hp st) (slot_parent sl) (T l kx ix f r) -> slot_at st sl (Some ix) ->
    l <> E -> r <> E -> -1 <= f <= 1 ->
    exists st', (forall fuel, (lspine r <= fuel)%nat -> hr fuel st (Some ix) lf0 =
        Some (match child r (-1) with E => (Some (min_id r), 0, st') | T _ _ _ _ _ => (Some (min_parent r), 1, st') end)) /\
      Repr (hp st') (slot_parent sl) (splice l f r) /\
      rootp st' = rootp (slot_set st sl (Some (min_id r))) /\
      (forall j, ~ In j (ids (T l kx ix f r)) -> hp st' j = hp (slot_set st sl (Some (min_id r))) j).

  (* the retrace at a node P = T l' k i f r whose subtree on side s has shrunk, in a state st1 that differs from st only inside
     a set U of nodes below this node; frames are brought back to st *)
  Lemma shrink_above : forall st st1 sl (W : tree) P i s lf P' stop tg,
    (s = 1 /\ lf = 1 \/ s = -1 /\ lf = 0) -> root_id P = Some i ->
    rootp st1 = rootp st -> (forall j, ~ has W j -> hp st1 j = hp st j) ->
    (forall j, has P j -> has W j) -> (forall q, slot_parent sl = Some q -> ~ has W q) ->
    distinct P -> Repr (hp st1) (slot_parent sl) P -> slot_at st sl (Some i) -> slot_clean st sl W -> frange P ->
    handle_shrink s P = Some (P', stop, tg) ->
    exists st2, Repr (hp st2) (slot_parent sl) P' /\ rootp st2 = rootp (slot_set st sl (root_id P')) /\
      (forall j, ~ has W j -> hp st2 j = hp (slot_set st sl (root_id P')) j) /\
      forall n, m_remove_loop (S n) st1 lf (Some i) = if stop then Some st2 else cont n st2 sl.
  Proof.
    intros st st1 sl W P i s lf P' stop tg Hs Hi Hroot Hsame HPW Hq Hd HR Hsl Hcl Hf Hg.
    assert (Hqs : forall q, slot_parent sl = Some q -> hp st1 q = hp st q) by (intros q Hq0; apply Hsame; exact (Hq q Hq0)).
    assert (HqP : forall q, slot_parent sl = Some q -> ~ has P q) by (intros q Hq0 Hh; exact (Hq q Hq0 (HPW q Hh))).
    pose proof (slot_at_agree st st1 sl (Some i) Hsl Hroot Hqs) as Hsl'.
    pose proof (slot_clean_sub _ _ _ _ (slot_clean_agree st st1 sl _ Hcl Hqs) HPW) as Hcl'.
    destruct (shrink_iter st1 sl P i s lf P' stop tg Hs Hi Hd HqP HR Hsl' Hcl' Hf Hg) as (st2 & HR2 & Hroot2 & Hfr2 & Heq2).
    destruct (slot_set_agree st1 st sl (root_id P') Hroot Hqs) as (Hsa1 & Hsa2).
    exists st2. split; [exact HR2|]. split; [congruence|]. split; [|exact Heq2].
    intros j Hj. rewrite Hfr2 by (intros Hh; exact (Hj (HPW j Hh))). apply Hsa2. apply Hsame. exact Hj.
  Qed.

  (* The retrace below and at a subtree u that contains the node being removed (key k), against AvlDefs.rem: a_avl_remove
     started at that node either finishes inside u (the model's `shrunk` flag is false) or leaves the loop about to run at the
     parent cell of the slot with the flag that says which child u' is; u' is laid out below the slot and nothing outside the
     nodes of u has changed except the slot. *)
  Lemma remove_climb : forall k u u' sh rid tr st sl,
    Balanced u -> Bst u -> distinct u -> (forall q, slot_parent sl = Some q -> ~ has u q) ->
    Repr (hp st) (slot_parent sl) u -> slot_at st sl (root_id u) -> slot_clean st sl u ->
    rem k u = ROk u' sh rid tr ->
    exists st1, Repr (hp st1) (slot_parent sl) u' /\ rootp st1 = rootp (slot_set st sl (root_id u')) /\
      (forall j, ~ has u j -> hp st1 j = hp (slot_set st sl (root_id u')) j) /\
      forall n, m_remove (rdepth k u + n) st (Some rid) = if sh then cont n st1 sl else Some st1.
  Proof.
    intros k. induction u as [|l IHl k' i f r IHr]; intros u' sh rid tr st sl Bu Su Hd Hq Hr Hsl Hcl Hrem; [discriminate|].
    destruct (balanced_sub _ _ _ _ _ Bu) as (Bl & Br & Hfi).
    destruct (sorted_node _ _ _ _ _ Su) as (Sl & Sr & _).
    pose proof Hd as Hd0. cbn [distinct] in Hd0. destruct Hd0 as (H1 & H2 & H3 & Hdl & Hdr).
    pose proof Hr as Hr0. cbn [Repr] in Hr0. destruct Hr0 as (Hi & Hrl & Hrr).
    cbn [root_id] in Hsl. destruct (slot_set_same st sl (Some i) Hsl) as (Hss1 & Hss2).
    assert (Hfu : frange (T l k' i f r)) by (apply balanced_frange; exact Bu).
    cbn [rem rdepth] in Hrem |- *. destruct (k ?= k') eqn:Hc.
    - (* the node to remove is the root of u *)
      destruct l as [|ll lk li lf lr] eqn:El; destruct r as [|rl rk ri rf rr] eqn:Er.
      + (* leaf *)
        injection Hrem as <- <- <- _.
        destruct (unlink_spec st sl i _ E Hi eq_refl Hsl) as (st1 & HR1 & Hroot1 & Hfr1 & Heq1); try (cbn; auto; fail).
        { intros Heq. apply (Hq i Heq). cbn; auto. }
        exists st1. split; [exact HR1|]. split; [exact Hroot1|]. split.
        * intros j Hj. apply Hfr1; [intros ->; apply Hj; cbn; auto|cbn; auto].
        * intros n. cbn [Nat.add]. unfold m_remove. rewrite !(bind_rd _ _ _ _ _ _ _ Hi). cbn [cl cr root_id nonnull andb]. apply Heq1.
      + (* only a right child *)
        injection Hrem as <- <- <- _. rewrite <- Er in *.
        destruct (unlink_spec st sl i _ r Hi eq_refl Hsl) as (st1 & HR1 & Hroot1 & Hfr1 & Heq1); try assumption.
        { intros Heq. apply (Hq i Heq). cbn; auto. }
        { intros q Hq0 Hh. apply (Hq q Hq0). cbn [has]. auto. }
        exists st1. split; [exact HR1|]. split; [exact Hroot1|]. split.
        * intros j Hj. apply Hfr1; [intros ->; apply Hj; cbn; auto|intros Hh; apply Hj; cbn [has]; auto].
        * intros n. cbn [Nat.add]. unfold m_remove. rewrite !(bind_rd _ _ _ _ _ _ _ Hi). cbn [cl cr root_id nonnull andb]. apply Heq1.
      + (* only a left child *)
        injection Hrem as <- <- <- _. rewrite <- El in *.
        destruct (unlink_spec st sl i _ l Hi eq_refl Hsl) as (st1 & HR1 & Hroot1 & Hfr1 & Heq1); try assumption.
        { intros Heq. apply (Hq i Heq). cbn; auto. }
        { intros q Hq0 Hh. apply (Hq q Hq0). cbn [has]. auto. }
        exists st1. split; [exact HR1|]. split; [exact Hroot1|]. split.
        * intros j Hj. apply Hfr1; [intros ->; apply Hj; cbn; auto|intros Hh; apply Hj; cbn [has]; auto].
        * intros n. cbn [Nat.add]. unfold m_remove. rewrite !(bind_rd _ _ _ _ _ _ _ Hi).
          assert (Hnl : nonnull (root_id l) = true) by (rewrite El; reflexivity).
          cbn [cl cr root_id]. rewrite Hnl. cbn [nonnull andb]. apply Heq1.
      + (* two children: the successor splice, then the retrace from where the successor was *)
        rewrite <- El, <- Er in *.
        assert (Hlne : l <> E) by (rewrite El; discriminate). assert (Hrne : r <> E) by (rewrite Er; discriminate).
        set (X := T l k' i f r) in *.
        assert (Hn : NoDup (ids X)) by (apply distinct_ids; exact Hd).
        assert (HqI : forall q, slot_parent sl = Some q -> ~ In q (ids X)).
        { intros q Hq0 Hin. apply (Hq q Hq0). apply has_ids. exact Hin. }
        destruct (hr_spec st sl l k' i f r 0 Hn HqI Hr Hsl Hlne Hrne Hfi) as (st0 & Hrun0 & HR0 & Hroot0 & Hfr0I).
        assert (Hfr0 : forall j, ~ has X j -> hp st0 j = hp (slot_set st sl (Some (min_id r))) j).
        { intros j Hj. apply Hfr0I. rewrite <- has_ids. exact Hj. }
        set (ym := min_id r) in *.
        assert (Hymr : has r ym) by (apply min_id_has; exact Hrne).
        assert (HymX : has X ym) by (unfold X; cbn [has]; auto).
        assert (Hslot0 : slot_at st0 sl (Some ym)).
        { apply (slot_at_after st st0 sl (has X) (Some i) (Some ym) Hsl Hq Hroot0 Hfr0).
          intros q c -> Hcq Heq. exact (Hcl c ym Hcq Heq HymX). }
        pose proof (slot_clean_after st st0 sl (has X) (Some ym) X Hcl Hq Hfr0) as Hclean0.
        assert (Hhead : forall n, m_remove (S (lspine r) + n) st (Some i) =
                  bind (hr (S (lspine r) + n) st (Some i) 0) (fun '(p, lf, st1) => m_remove_loop (S (lspine r) + n) st1 lf p)).
        { intros n. unfold m_remove. rewrite !(bind_rd _ _ _ _ _ _ _ Hi). cbn [cl cr].
          assert (Hnl : nonnull (root_id l) = true) by (rewrite El; reflexivity).
          assert (Hnr : nonnull (root_id r) = true) by (rewrite Er; reflexivity). rewrite Hnl, Hnr. reflexivity. }
        unfold handle_remove in Hrem. rewrite Er in Hrem. rewrite <- Er in Hrem.
        destruct rl as [|a1 a2 a3 a4 a5] eqn:Erl.
        * (* the successor is the right child *)
          unfold splice in HR0. assert (Hcut : cut r = rr /\ min_key r = rk /\ ym = ri) by (unfold ym; rewrite Er; auto).
          destruct Hcut as (Hcut & Hmk & Hym). rewrite Hcut, Hmk in HR0. fold ym in HR0. rewrite Hym in *.
          unfold shrink_step in Hrem.
          destruct (handle_shrink (-1) (T l rk ri f rr)) as [[[p' stop] tg]|] eqn:Ehs; [|discriminate]. injection Hrem as <- <- <- _.
          assert (HPX : forall j, has (T l rk ri f rr) j -> has X j).
          { intros j Hj. unfold X. rewrite Er. cbn [has] in *. tauto. }
          assert (HdP : distinct (T l rk ri f rr)).
          { rewrite Er in H2, H3, Hdr. cbn [distinct has] in *. destruct Hdr as (_ & Hb & _ & _ & Hdrr). repeat split; auto.
            - intros Hh. apply (H3 ri); auto.
            - intros j Hj Hj'. apply (H3 j); auto. }
          assert (HfP : frange (T l rk ri f rr)).
          { cbn [frange]. split; [exact Hfi|]. split; [apply balanced_frange; exact Bl|].
            rewrite Er in Br. destruct (balanced_sub _ _ _ _ _ Br) as (_ & Brr & _). apply balanced_frange. exact Brr. }
          assert (HqP : forall q, slot_parent sl = Some q -> ~ has (T l rk ri f rr) q) by (intros q Hq0 Hh; exact (Hq q Hq0 (HPX q Hh))).
          destruct (shrink_iter st0 sl (T l rk ri f rr) ri (-1) 0 p' stop tg (or_intror (conj eq_refl eq_refl)) eq_refl HdP HqP HR0 Hslot0
                      (slot_clean_sub _ _ _ _ Hclean0 HPX) HfP Ehs) as (st2 & HR2 & Hroot2 & Hfr2 & Heq2).
          destruct (slot_set_after st st0 sl (has X) (Some ri) (root_id p') Hq Hroot0 Hfr0) as (Hsa1 & Hsa2).
          exists st2. split; [exact HR2|]. split; [congruence|]. split.
          -- intros j Hj. rewrite Hfr2 by (intros Hh; exact (Hj (HPX j Hh))). apply Hsa2. exact Hj.
          -- intros n. rewrite Hhead, (Hrun0 (S (lspine r) + n)%nat ltac:(lia)). rewrite Er. cbn [child Z.ltb Z.compare lspine Nat.add]. rewrite bind_some.
             rewrite Heq2. destruct stop; reflexivity.
        * (* the successor is deeper *)
          rewrite <- Erl in *.
          assert (Hne : child r (-1) <> E) by (rewrite Er, Erl; cbn; discriminate).
          destruct (rem_min r) as [[[[r' shr] [ky' iy']] trr]|] eqn:Erm; [|discriminate].
          pose proof (rem_min_min _ _ _ _ _ Erm) as Hy. injection Hy as -> ->. fold ym in Hrem.
          destruct (rem_min_nodes _ _ _ _ _ Br Hrne Hdr Erm) as (Br' & Hsub & Hdr').
          assert (Hcutsub : forall j, has (cut r) j -> has r j) by (intros j; apply cut_has).
          assert (Hymcut : ~ has (cut r) ym) by (intros Hh; apply (cut_has_iff r ym Hdr Hrne) in Hh; tauto).
          unfold splice in HR0. fold ym in HR0. pose proof HR0 as HR0'. cbn [Repr] in HR0'. destruct HR0' as (Hym0 & HRl0 & HRcut).
          assert (Hrootcut : root_id (cut r) = root_id r).
          { rewrite Er. rewrite Er in Hne. cbn [child Z.ltb Z.compare] in Hne. cbn [root_id]. apply cut_root. exact Hne. }
          assert (Hq2 : forall q, slot_parent (SRight ym) = Some q -> ~ has (cut r) q) by (cbn; intros q [= <-]; exact Hymcut).
          assert (Hsl2 : slot_at st0 (SRight ym) (root_id r)).
          { cbn [slot_at]. eexists. split; [exact Hym0|]. cbn [cl cr]. split; [exact Hrootcut|].
            intros Heq. rewrite Er in Heq. destruct l as [|? ? l0 ? ?]; [congruence|]. cbn [root_id] in Heq. injection Heq as ->.
            apply (H3 ri); [cbn; auto|rewrite Er; cbn; auto]. }
          assert (Hcl2 : slot_clean st0 (SRight ym) (cut r)).
          { cbn [slot_clean]. intros c j Hcq Hlj Hh. rewrite Hym0 in Hcq. injection Hcq as <-. cbn [cl] in Hlj.
            apply (H3 j); [apply root_has; exact Hlj|apply Hcutsub; exact Hh]. }
          destruct (spine_climb r Hne st0 (SRight ym) r' shr _ trr Br Hdr Hq2 HRcut Hsl2 Hcl2 Erm) as (st1 & HR1 & Hroot1 & Hfr1 & Heq1).
          rewrite rootp_slot_set_right in Hroot1.
          assert (HRP : Repr (hp st1) (slot_parent sl) (T l (min_key r) ym f r')).
          { apply (Repr_above_right st0 st1 _ (has (cut r)) r' (min_key r) ym f l _ Hym0 eq_refl eq_refl eq_refl HRl0 Hymcut); try assumption.
            - intros j Hj Hh. apply (H3 j); [exact Hj|apply Hcutsub; exact Hh].
            - intros Hh. apply (H3 ym); assumption. }
          assert (Hsame : forall j, ~ has (cut r) j -> j <> ym -> hp st1 j = hp st0 j).
          { intros j Hj Hjy. rewrite Hfr1 by exact Hj. apply hp_slot_set_other. cbn. congruence. }
          assert (HsameX : forall j, ~ has X j -> hp st1 j = hp st0 j).
          { intros j Hj. apply Hsame; [intros Hh; apply Hj; unfold X; cbn [has]; auto|intros ->; contradiction]. }
          assert (Hqs : forall q, slot_parent sl = Some q -> hp st1 q = hp st0 q) by (intros q Hq0; apply HsameX; exact (Hq q Hq0)).
          assert (HPX : forall j, has (T l (min_key r) ym f r') j -> has X j).
          { intros j Hj. unfold X. cbn [has] in *. destruct Hj as [->|[Hj|Hj]]; auto. }
          assert (Hfuel : forall n, (S (lspine r) + n = lspine r + S n)%nat) by (intros; lia).
          assert (Hrunq : forall n, m_remove (S (lspine r) + n) st (Some i) = m_remove_loop (lspine r + S n) st0 1 (Some (min_parent r))).
          { intros n. rewrite Hhead, (Hrun0 (S (lspine r) + n)%nat ltac:(lia)).
            destruct (child r (-1)) as [|? ? ? ? ?] eqn:Ech; [congruence|]. rewrite bind_some, Hfuel. reflexivity. }
          destruct shr.
          -- unfold shrink_step in Hrem.
             destruct (handle_shrink (-1) (T l (min_key r) ym f r')) as [[[p' stop] tg]|] eqn:Ehs; [|discriminate]. injection Hrem as <- <- <- _.
             assert (HdP : distinct (T l (min_key r) ym f r')).
             { cbn [distinct]. split; [intros Hh; apply (H3 ym); assumption|]. split; [intros Hh; apply Hymcut; apply Hsub; exact Hh|].
               split; [intros j Hj Hj'; apply (H3 j); [exact Hj|apply Hcutsub; apply Hsub; exact Hj']|]. split; assumption. }
             assert (HfP : frange (T l (min_key r) ym f r')).
             { cbn [frange]. split; [exact Hfi|]. split; apply balanced_frange; assumption. }
             assert (HqP : forall q, slot_parent sl = Some q -> ~ has (T l (min_key r) ym f r') q) by (intros q Hq0 Hh; exact (Hq q Hq0 (HPX q Hh))).
             pose proof (slot_at_agree st0 st1 sl (Some ym) Hslot0 Hroot1 Hqs) as Hsl'.
             pose proof (slot_clean_sub _ _ _ _ (slot_clean_agree st0 st1 sl _ Hclean0 Hqs) HPX) as Hcl'.
             destruct (shrink_iter st1 sl (T l (min_key r) ym f r') ym (-1) 0 p' stop tg (or_intror (conj eq_refl eq_refl)) eq_refl HdP HqP HRP Hsl' Hcl' HfP Ehs)
               as (st2 & HR2 & Hroot2 & Hfr2 & Heq2).
             destruct (slot_set_agree st1 st0 sl (root_id p') Hroot1 Hqs) as (Hsb1 & Hsb2).
             destruct (slot_set_after st st0 sl (has X) (Some ym) (root_id p') Hq Hroot0 Hfr0) as (Hsa1 & Hsa2).
             exists st2. split; [exact HR2|]. split; [congruence|]. split.
             ++ intros j Hj. rewrite Hfr2 by (intros Hh; exact (Hj (HPX j Hh))). rewrite Hsb2 by (apply HsameX; exact Hj). apply Hsa2. exact Hj.
             ++ intros n. rewrite Hrunq, Heq1. cbn [cont]. rewrite Heq2. destruct stop; reflexivity.
          -- injection Hrem as <- <- <- _. exists st1. split; [exact HRP|]. cbn [root_id]. split; [congruence|]. split.
             ++ intros j Hj. rewrite (HsameX j Hj). apply Hfr0. exact Hj.
             ++ intros n. rewrite Hrunq, Heq1. reflexivity.
    - (* the node is in the left subtree *)
      destruct (rem k l) as [|l' shl rid' trl|] eqn:Erl; try discriminate.
      destruct (rem_nodes _ _ _ _ _ _ Bl Sl Hdl Erl) as (Bl' & Hsub & Hdl').
      assert (Hq1 : forall q, slot_parent (SLeft i) = Some q -> ~ has l q) by (cbn; intros q [= <-]; exact H1).
      assert (Hsl1 : slot_at st (SLeft i) (root_id l)) by (cbn [slot_at]; eexists; split; [exact Hi|reflexivity]).
      destruct (IHl l' shl rid' trl st (SLeft i) Bl Sl Hdl Hq1 Hrl Hsl1 I eq_refl) as (st1 & HR1 & Hroot1 & Hfr1 & Heq1).
      rewrite rootp_slot_set_left in Hroot1.
      assert (HRP : Repr (hp st1) (slot_parent sl) (T l' k' i f r)).
      { apply (Repr_above_left st st1 _ (has l) l' k' i f r _ Hi eq_refl eq_refl eq_refl Hrr H1); try assumption.
        intros j Hj Hh. exact (H3 j Hh Hj). }
      assert (Hsame : forall j, ~ has (T l k' i f r) j -> hp st1 j = hp st j).
      { intros j Hj. cbn [has] in Hj. rewrite Hfr1 by tauto. apply hp_slot_set_other. cbn. intros [= ->]. tauto. }
      assert (Hfuel : forall n, (S (rdepth k l) + n = rdepth k l + S n)%nat) by (intros; lia).
      destruct shl.
      + unfold shrink_step in Hrem.
        destruct (handle_shrink 1 (T l' k' i f r)) as [[[p' stop] tg]|] eqn:Ehs; [|discriminate]. injection Hrem as <- <- <- _.
        assert (HPW : forall j, has (T l' k' i f r) j -> has (T l k' i f r) j).
        { intros j Hj. cbn [has] in *. destruct Hj as [->|[Hj|Hj]]; auto. }
        assert (HdP : distinct (T l' k' i f r)).
        { cbn [distinct]. split; [intros Hh; apply H1; apply Hsub; exact Hh|]. split; [exact H2|].
          split; [intros j Hj Hj'; apply (H3 j); [apply Hsub; exact Hj|exact Hj']|]. split; assumption. }
        assert (HfP : frange (T l' k' i f r)) by (cbn [frange]; split; [exact Hfi|split; apply balanced_frange; assumption]).
        destruct (shrink_above st st1 sl (T l k' i f r) (T l' k' i f r) i 1 1 p' stop tg (or_introl (conj eq_refl eq_refl)) eq_refl
                    Hroot1 Hsame HPW Hq HdP HRP Hsl Hcl HfP Ehs) as (st2 & HR2 & Hroot2 & Hfr2 & Heq2).
        exists st2. split; [exact HR2|]. split; [exact Hroot2|]. split; [exact Hfr2|].
        intros n. rewrite Hfuel, Heq1. cbn [cont]. rewrite Heq2. destruct stop; reflexivity.
      + injection Hrem as <- <- <- _. exists st1. split; [exact HRP|]. cbn [root_id]. split; [congruence|]. split.
        * intros j Hj. rewrite Hss2. apply Hsame. exact Hj.
        * intros n. rewrite Hfuel, Heq1. reflexivity.
    - (* the node is in the right subtree *)
      destruct (rem k r) as [|r' shr rid' trr|] eqn:Err; try discriminate.
      destruct (rem_nodes _ _ _ _ _ _ Br Sr Hdr Err) as (Br' & Hsub & Hdr').
      assert (Hrne : r <> E) by (intros ->; discriminate).
      assert (Hq1 : forall q, slot_parent (SRight i) = Some q -> ~ has r q) by (cbn; intros q [= <-]; exact H2).
      assert (Hsl1 : slot_at st (SRight i) (root_id r)).
      { cbn [slot_at]. eexists. split; [exact Hi|]. cbn [cl cr]. split; [reflexivity|].
        intros Heq. destruct r as [|? ? y ? ?]; [congruence|]. cbn [root_id] in Heq. apply (H3 y); [apply root_has; exact Heq|cbn; auto]. }
      assert (Hcl1 : slot_clean st (SRight i) r).
      { cbn [slot_clean]. intros c j Hcq Hlj Hh. rewrite Hi in Hcq. injection Hcq as <-. cbn [cl] in Hlj.
        apply (H3 j); [apply root_has; exact Hlj|exact Hh]. }
      destruct (IHr r' shr rid' trr st (SRight i) Br Sr Hdr Hq1 Hrr Hsl1 Hcl1 eq_refl) as (st1 & HR1 & Hroot1 & Hfr1 & Heq1).
      rewrite rootp_slot_set_right in Hroot1.
      assert (HRP : Repr (hp st1) (slot_parent sl) (T l k' i f r')).
      { apply (Repr_above_right st st1 _ (has r) r' k' i f l _ Hi eq_refl eq_refl eq_refl Hrl H2); try assumption;
          try (intros j Hj Hh; exact (H3 j Hj Hh)). }
      assert (Hsame : forall j, ~ has (T l k' i f r) j -> hp st1 j = hp st j).
      { intros j Hj. cbn [has] in Hj. rewrite Hfr1 by tauto. apply hp_slot_set_other. cbn. intros [= ->]. tauto. }
      assert (Hfuel : forall n, (S (rdepth k r) + n = rdepth k r + S n)%nat) by (intros; lia).
      destruct shr.
      + unfold shrink_step in Hrem.
        destruct (handle_shrink (-1) (T l k' i f r')) as [[[p' stop] tg]|] eqn:Ehs; [|discriminate]. injection Hrem as <- <- <- _.
        assert (HPW : forall j, has (T l k' i f r') j -> has (T l k' i f r) j).
        { intros j Hj. cbn [has] in *. destruct Hj as [->|[Hj|Hj]]; auto. }
        assert (HdP : distinct (T l k' i f r')).
        { cbn [distinct]. split; [exact H1|]. split; [intros Hh; apply H2; apply Hsub; exact Hh|].
          split; [intros j Hj Hj'; apply (H3 j); [exact Hj|apply Hsub; exact Hj']|]. split; assumption. }
        assert (HfP : frange (T l k' i f r')) by (cbn [frange]; split; [exact Hfi|split; apply balanced_frange; assumption]).
        destruct (shrink_above st st1 sl (T l k' i f r) (T l k' i f r') i (-1) 0 p' stop tg (or_intror (conj eq_refl eq_refl)) eq_refl
                    Hroot1 Hsame HPW Hq HdP HRP Hsl Hcl HfP Ehs) as (st2 & HR2 & Hroot2 & Hfr2 & Heq2).
        exists st2. split; [exact HR2|]. split; [exact Hroot2|]. split; [exact Hfr2|].
        intros n. rewrite Hfuel, Heq1. cbn [cont]. rewrite Heq2. destruct stop; reflexivity.
      + injection Hrem as <- <- <- _. exists st1. split; [exact HRP|]. cbn [root_id]. split; [congruence|]. split.
        * intros j Hj. rewrite Hss2. apply Hsame. exact Hj.
        * intros n. rewrite Hfuel, Heq1. reflexivity.
  Qed.

  (* a_avl_remove implements AvlDefs.rem: t is any balanced search tree laid out in the heap (root slot), the model removes the
     node rid that holds key k; fuel >= the number of loop iterations (at most the height).  The model of the function, started
     at that node, returns a heap that lays out the tree the model's recursive removal returns; cells outside t are untouched. *)
  Theorem m_remove_refines : forall k t t' sh rid tr st fuel,
    Balanced t -> Bst t -> NoDup (ids t) -> rem k t = ROk t' sh rid tr ->
    Repr (hp st) None t -> rootp st = root_id t -> (rdepth k t <= fuel)%nat ->
    exists st', m_remove fuel st (Some rid) = Some st' /\ Repr (hp st') None t' /\ rootp st' = root_id t' /\
      (forall j, ~ In j (ids t) -> hp st' j = hp st j).
  Proof.
    intros k t t' sh rid tr st fuel Bt St Hn Hrem Hr Hroot Hfuel.
    apply distinct_ids in Hn.
    assert (Hq : forall q, slot_parent SRoot = Some q -> ~ has t q) by (cbn; discriminate).
    destruct (remove_climb k t t' sh rid tr st SRoot Bt St Hn Hq Hr Hroot I Hrem) as (st1 & HR & Hroot1 & Hfr & Heq).
    exists st1. split; [|split; [exact HR|split; [exact Hroot1|]]].
    - replace fuel with (rdepth k t + (fuel - rdepth k t))%nat by lia. rewrite Heq. destruct sh; reflexivity.
    - intros j Hj. apply Hfr. rewrite has_ids. exact Hj.
  Qed.
End Remove.
