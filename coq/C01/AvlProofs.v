(* C01 -- proofs about the model in AvlDefs.v.
   Part 1: vocabulary (sorted association lists, Bst, Balanced), the per-node lemmas for
   handle_growth / link_adjust / handle_shrink (both signs), then ins / rem_min / rem by induction
   on the tree.  Histories, the abstract map and heap_of are in AvlHistory.v / AvlHeap.v. *)
From Coq Require Import ZArith List Bool Lia.
From LibaV Require Import C01.AvlDefs.
Import ListNotations.
Local Open Scope Z_scope.

(* ------------------------------------------------------------------ sorted association lists *)

Fixpoint sorted (xs : list (Z * Z)) : Prop :=
  match xs with
  | [] => True
  | x :: r => (forall y, In y r -> fst x < fst y) /\ sorted r
  end.

Lemma sorted_app : forall xs ys,
  sorted (xs ++ ys) <-> sorted xs /\ sorted ys /\ (forall x y, In x xs -> In y ys -> fst x < fst y).
Proof.
  induction xs as [|a xs IH]; intros ys; cbn [app sorted].
  - split; [intros H; repeat split; auto; intros x y []| tauto].
  - rewrite IH. split.
    + intros [H1 [H2 [H3 H4]]]. repeat split; auto.
      * intros y Hy. apply H1. apply in_or_app. auto.
      * intros x y [<-|Hx] Hy; [apply H1; apply in_or_app; auto | auto].
    + intros [[H1 H2] [H3 H4]]. repeat split; auto.
      * intros y Hy. apply in_app_or in Hy. destruct Hy; [auto | apply H4; cbn; auto].
      * intros x y Hx Hy. apply H4; cbn; auto.
Qed.

(* the abstract operations on a sorted association list (key, id) *)
Fixpoint linsert (k id : Z) (xs : list (Z * Z)) : list (Z * Z) :=
  match xs with
  | [] => [(k, id)]
  | (k', i') :: r =>
    match k ?= k' with
    | Lt => (k, id) :: xs
    | Eq => xs
    | Gt => (k', i') :: linsert k id r
    end
  end.

Fixpoint ldelete (k : Z) (xs : list (Z * Z)) : list (Z * Z) :=
  match xs with
  | [] => []
  | (k', i') :: r =>
    match k ?= k' with
    | Lt => xs
    | Eq => r
    | Gt => (k', i') :: ldelete k r
    end
  end.

Fixpoint lfind (k : Z) (xs : list (Z * Z)) : option Z :=
  match xs with
  | [] => None
  | (k', i') :: r =>
    match k ?= k' with
    | Lt => None
    | Eq => Some i'
    | Gt => lfind k r
    end
  end.

Ltac cmp_cases k k' :=
  let H := fresh "Hc" in
  destruct (Z.compare_spec k k') as [H|H|H].

Lemma linsert_app_lt : forall k id a ai xs ys, k < a ->
  linsert k id (xs ++ (a, ai) :: ys) = linsert k id xs ++ (a, ai) :: ys.
Proof.
  induction xs as [|[b bi] xs IH]; intros ys Hk; cbn [app linsert].
  - cmp_cases k a; try lia. reflexivity.
  - cmp_cases k b; try reflexivity. rewrite IH by assumption. reflexivity.
Qed.

Lemma linsert_app_gt : forall k id a ai xs ys, a < k -> sorted (xs ++ (a, ai) :: ys) ->
  linsert k id (xs ++ (a, ai) :: ys) = xs ++ (a, ai) :: linsert k id ys.
Proof.
  induction xs as [|[b bi] xs IH]; intros ys Hk Hs; cbn [app linsert].
  - cmp_cases k a; try lia. reflexivity.
  - cbn [app sorted] in Hs. destruct Hs as [Hb Hs].
    assert (b < a) by (apply (Hb (a, ai)); apply in_or_app; cbn; auto).
    cmp_cases k b; try lia. rewrite IH by assumption. reflexivity.
Qed.

Lemma linsert_app_eq : forall id a ai xs ys, sorted (xs ++ (a, ai) :: ys) ->
  linsert a id (xs ++ (a, ai) :: ys) = xs ++ (a, ai) :: ys.
Proof.
  induction xs as [|[b bi] xs IH]; intros ys Hs; cbn [app linsert].
  - cmp_cases a a; try lia. reflexivity.
  - cbn [app sorted] in Hs. destruct Hs as [Hb Hs].
    assert (b < a) by (apply (Hb (a, ai)); apply in_or_app; cbn; auto).
    cmp_cases a b; try lia. rewrite IH by assumption. reflexivity.
Qed.

Lemma ldelete_app_lt : forall k a ai xs ys, k < a ->
  ldelete k (xs ++ (a, ai) :: ys) = ldelete k xs ++ (a, ai) :: ys.
Proof.
  induction xs as [|[b bi] xs IH]; intros ys Hk; cbn [app ldelete].
  - cmp_cases k a; try lia. reflexivity.
  - cmp_cases k b; try reflexivity. rewrite IH by assumption. reflexivity.
Qed.

Lemma ldelete_app_gt : forall k a ai xs ys, a < k -> sorted (xs ++ (a, ai) :: ys) ->
  ldelete k (xs ++ (a, ai) :: ys) = xs ++ (a, ai) :: ldelete k ys.
Proof.
  induction xs as [|[b bi] xs IH]; intros ys Hk Hs; cbn [app ldelete].
  - cmp_cases k a; try lia. reflexivity.
  - cbn [app sorted] in Hs. destruct Hs as [Hb Hs].
    assert (b < a) by (apply (Hb (a, ai)); apply in_or_app; cbn; auto).
    cmp_cases k b; try lia. rewrite IH by assumption. reflexivity.
Qed.

Lemma ldelete_app_eq : forall a ai xs ys, sorted (xs ++ (a, ai) :: ys) ->
  ldelete a (xs ++ (a, ai) :: ys) = xs ++ ys.
Proof.
  induction xs as [|[b bi] xs IH]; intros ys Hs; cbn [app ldelete].
  - cmp_cases a a; try lia. reflexivity.
  - cbn [app sorted] in Hs. destruct Hs as [Hb Hs].
    assert (b < a) by (apply (Hb (a, ai)); apply in_or_app; cbn; auto).
    cmp_cases a b; try lia. rewrite IH by assumption. reflexivity.
Qed.

Lemma lfind_app_lt : forall k a ai xs ys, k < a ->
  lfind k (xs ++ (a, ai) :: ys) = lfind k xs.
Proof.
  induction xs as [|[b bi] xs IH]; intros ys Hk; cbn [app lfind].
  - cmp_cases k a; try lia. reflexivity.
  - cmp_cases k b; try reflexivity. apply IH. assumption.
Qed.

Lemma lfind_app_gt : forall k a ai xs ys, a < k -> sorted (xs ++ (a, ai) :: ys) ->
  lfind k (xs ++ (a, ai) :: ys) = lfind k ys.
Proof.
  induction xs as [|[b bi] xs IH]; intros ys Hk Hs; cbn [app lfind].
  - cmp_cases k a; try lia. reflexivity.
  - cbn [app sorted] in Hs. destruct Hs as [Hb Hs].
    assert (b < a) by (apply (Hb (a, ai)); apply in_or_app; cbn; auto).
    cmp_cases k b; try lia. apply IH; assumption.
Qed.

Lemma lfind_app_eq : forall a ai xs ys, sorted (xs ++ (a, ai) :: ys) ->
  lfind a (xs ++ (a, ai) :: ys) = Some ai.
Proof.
  induction xs as [|[b bi] xs IH]; intros ys Hs; cbn [app lfind].
  - cmp_cases a a; try lia. reflexivity.
  - cbn [app sorted] in Hs. destruct Hs as [Hb Hs].
    assert (b < a) by (apply (Hb (a, ai)); apply in_or_app; cbn; auto).
    cmp_cases a b; try lia. apply IH; assumption.
Qed.

(* the list operations are a finite map *)
Lemma lfind_In : forall k i xs, sorted xs -> (lfind k xs = Some i <-> In (k, i) xs).
Proof.
  induction xs as [|[b bi] xs IH]; intros Hs; cbn [lfind In].
  - split; [discriminate | tauto].
  - cbn [sorted] in Hs. destruct Hs as [Hb Hs]. specialize (IH Hs).
    cmp_cases k b.
    + subst b. split.
      * intros [= ->]. auto.
      * intros [[= ->]|Hin]; [reflexivity|]. apply Hb in Hin. cbn in Hin. lia.
    + split; [discriminate|]. intros [[= -> ->]|Hin]; [lia|]. apply Hb in Hin. cbn in Hin. lia.
    + rewrite IH. split; [auto|]. intros [[= -> ->]|Hin]; [lia | assumption].
Qed.

Lemma linsert_sorted : forall k id xs, sorted xs -> sorted (linsert k id xs).
Proof.
  induction xs as [|[b bi] xs IH]; intros Hs; cbn [linsert].
  - cbn. split; [intros y []|exact I].
  - pose proof Hs as Hs0. cbn [sorted] in Hs. destruct Hs as [Hb Hs]. specialize (IH Hs).
    cmp_cases k b.
    + exact Hs0.
    + cbn [sorted]. split; [|exact Hs0].
      intros y [<-|Hin]; cbn [fst]; [lia|]. apply Hb in Hin. cbn [fst] in Hin. lia.
    + cbn [sorted]. split; [|exact IH].
      intros y Hin. cbn [fst].
      assert (Hy : y = (k, id) \/ In y xs).
      { clear - Hin. induction xs as [|[c ci] xs IHx]; cbn [linsert In] in Hin.
        - destruct Hin as [<-|[]]. auto.
        - destruct (k ?= c); cbn [In] in *.
          + auto.
          + destruct Hin as [<-|Hin]; auto.
          + destruct Hin as [<-|Hin]; auto. destruct (IHx Hin); auto. }
      destruct Hy as [->|Hy]; [cbn; lia|]. apply Hb in Hy. exact Hy.
Qed.

Lemma ldelete_In : forall k xs y, In y (ldelete k xs) -> In y xs.
Proof.
  induction xs as [|[c ci] xs IH]; intros y Hin; cbn [ldelete In] in *.
  - exact Hin.
  - destruct (k ?= c); cbn [In] in *; auto. destruct Hin; auto.
Qed.

Lemma ldelete_sorted : forall k xs, sorted xs -> sorted (ldelete k xs).
Proof.
  induction xs as [|[b bi] xs IH]; intros Hs; cbn [ldelete].
  - exact I.
  - pose proof Hs as Hs0. cbn [sorted] in Hs. destruct Hs as [Hb Hs]. specialize (IH Hs).
    cmp_cases k b; auto.
    cbn [sorted]. split; [|exact IH]. intros y Hin. apply Hb. eapply ldelete_In. exact Hin.
Qed.

Ltac cc :=
  repeat (cbn [lfind linsert ldelete];
          match goal with
          | |- context [Z.compare ?a ?b] => destruct (Z.compare_spec a b); try lia; subst
          | |- context [Z.eqb ?a ?b] => destruct (Z.eqb_spec a b); try lia; subst
          end);
  try reflexivity.

Lemma lfind_linsert : forall k id x xs, sorted xs ->
  lfind x (linsert k id xs) =
  if x =? k then match lfind k xs with Some d => Some d | None => Some id end else lfind x xs.
Proof.
  induction xs as [|[b bi] xs IH]; intros Hs.
  - cc.
  - cbn [sorted] in Hs. destruct Hs as [Hb Hs]. specialize (IH Hs).
    cbn [linsert]. cmp_cases k b.
    + subst b. cc.
    + cc.
    + cbn [lfind]. cmp_cases x b.
      * subst b. cc.
      * cc.
      * rewrite IH. cc.
Qed.

Lemma lfind_none_lt : forall k xs, (forall y, In y xs -> k < fst y) -> lfind k xs = None.
Proof.
  intros k [|[b bi] xs] H; cbn [lfind]; [reflexivity|].
  specialize (H (b, bi) (or_introl eq_refl)). cbn in H. cmp_cases k b; try lia. reflexivity.
Qed.

Lemma lfind_ldelete : forall k x xs, sorted xs ->
  lfind x (ldelete k xs) = if x =? k then None else lfind x xs.
Proof.
  induction xs as [|[b bi] xs IH]; intros Hs.
  - cc.
  - cbn [sorted] in Hs. destruct Hs as [Hb Hs]. specialize (IH Hs).
    cbn [ldelete]. cmp_cases k b.
    + subst b. cbn [lfind]. cmp_cases x k.
      * subst x. rewrite Z.eqb_refl. apply lfind_none_lt. exact Hb.
      * cc. apply lfind_none_lt. intros y Hy. apply Hb in Hy. cbn in Hy. lia.
      * cc.
    + cc.
    + cbn [lfind]. cmp_cases x b.
      * subst b. cc.
      * cc.
      * rewrite IH. cc.
Qed.

(* ------------------------------------------------------------------ tree invariants *)

Definition Bst (t : tree) : Prop := sorted (elements t).

Fixpoint Balanced (t : tree) : Prop :=
  match t with
  | E => True
  | T l _ _ f r => Balanced l /\ Balanced r /\ f = height r - height l /\ -1 <= f <= 1
  end.

Definition factor (t : tree) : Z := match t with E => 0 | T _ _ _ f _ => f end.

Lemma height_nonneg : forall t, 0 <= height t.
Proof. induction t; cbn [height]; lia. Qed.

Lemma balancedb_spec : forall t, balancedb t = true <-> Balanced t.
Proof.
  induction t as [|l IHl k i f r IHr]; cbn [balancedb Balanced]; [tauto|].
  rewrite !andb_true_iff, IHl, IHr, Z.eqb_eq, !Z.leb_le. tauto.
Qed.

Ltac hnn :=
  repeat match goal with
         | t : tree |- _ =>
           lazymatch goal with
           | _ : 0 <= height t |- _ => fail
           | _ => pose proof (height_nonneg t)
           end
         end.

(* resolve every boolean comparison in the goal, discarding impossible branches with lia *)
Ltac bstep :=
  match goal with
  | |- context [?a >? ?b] => rewrite (Z.gtb_ltb a b)
  | |- context [?a >=? ?b] => rewrite (Z.geb_leb a b)
  | |- context [?a =? ?b] => destruct (Z.eqb_spec a b); try lia
  | |- context [?a <? ?b] => destruct (Z.ltb_spec a b); try lia
  | |- context [?a <=? ?b] => destruct (Z.leb_spec a b); try lia
  end.

Ltac crunch :=
  repeat (cbv beta iota zeta; cbn [andb negb]; bstep).

Ltac unf :=
  cbv beta iota zeta delta [handle_growth handle_shrink link_adjust growth_step shrink_step
                            add_factor set_factor child set_child rotate rotate2 leaf].

(* closing tactic for the per-node lemmas: exhibits the result and proves the arithmetic facts *)
Ltac finish_node :=
  cbv beta iota zeta;
  do 3 eexists; split; [reflexivity|];
  cbn [Balanced height elements factor];
  repeat split; try lia; try assumption; try discriminate;
  try (repeat (rewrite <- app_assoc; cbn [app]); reflexivity).

(* ------------------------------------------------------------------ handle_growth *)

(* right child grew by one (sign +1): the stored factor f is the OLD difference *)
Lemma growth_pos : forall l k i f r,
  Balanced l -> Balanced r -> f = height r - 1 - height l -> -1 <= f <= 1 ->
  (f = 1 -> factor r <> 0) ->
  exists p' ok tg,
    handle_growth 1 (T l k i f r) = Some (p', ok, tg) /\
    Balanced p' /\
    elements p' = elements (T l k i f r) /\
    height p' = 1 + Z.max (height l) (height r - 1) + (if ok then 0 else 1) /\
    (ok = false -> factor p' <> 0) /\ p' <> E.
Proof.
  intros l k i f r Bl Br Hf Hr Hn.
  assert (Hc : f = -1 \/ f = 0 \/ f = 1) by lia.
  destruct Hc as [Hc|[Hc|Hc]]; rewrite Hc in *; clear Hc.
  - unf. crunch. hnn. finish_node.
  - unf. crunch. hnn. finish_node.
  - specialize (Hn eq_refl).
    destruct r as [|rl rk ri rf rr]; [cbn [height] in *; hnn; lia|].
    cbn [factor] in Hn. cbn [Balanced] in Br. destruct Br as [Brl [Brr [Hrf Hrr]]].
    cbn [height] in Hf.
    assert (Hd : rf = 1 \/ rf = -1) by lia. destruct Hd; subst rf.
    + unf. crunch. hnn. finish_node.
    + destruct rl as [|el ek ei ef er]; [cbn [height] in *; hnn; lia|].
      cbn [Balanced] in Brl. destruct Brl as [Bel [Ber [Hef Her]]].
      cbn [height] in *.
      unf. crunch; hnn; finish_node.
Qed.

(* left child grew by one (sign -1) *)
Lemma growth_neg : forall l k i f r,
  Balanced l -> Balanced r -> f = height r - (height l - 1) -> -1 <= f <= 1 ->
  (f = -1 -> factor l <> 0) ->
  exists p' ok tg,
    handle_growth (-1) (T l k i f r) = Some (p', ok, tg) /\
    Balanced p' /\
    elements p' = elements (T l k i f r) /\
    height p' = 1 + Z.max (height l - 1) (height r) + (if ok then 0 else 1) /\
    (ok = false -> factor p' <> 0) /\ p' <> E.
Proof.
  intros l k i f r Bl Br Hf Hr Hn.
  assert (Hc : f = -1 \/ f = 0 \/ f = 1) by lia.
  destruct Hc as [Hc|[Hc|Hc]]; rewrite Hc in *; clear Hc.
  - specialize (Hn eq_refl).
    destruct l as [|ll lk li lf lr]; [cbn [height] in *; hnn; lia|].
    cbn [factor] in Hn. cbn [Balanced] in Bl. destruct Bl as [Bll [Blr [Hlf Hlr]]].
    cbn [height] in Hf.
    assert (Hd : lf = -1 \/ lf = 1) by lia. destruct Hd; subst lf.
    + unf. crunch. hnn. finish_node.
    + destruct lr as [|el ek ei ef er]; [cbn [height] in *; hnn; lia|].
      cbn [Balanced] in Blr. destruct Blr as [Bel [Ber [Hef Her]]].
      cbn [height] in *.
      unf. crunch; hnn; finish_node.
  - unf. crunch. hnn. finish_node.
  - unf. crunch. hnn. finish_node.
Qed.

(* ------------------------------------------------------------------ first level of insert_adjust *)

Lemma link_pos : forall l k i f a ai,
  Balanced l -> f = 0 - height l -> -1 <= f <= 1 ->
  exists p' grew tr,
    link_adjust 1 (T l k i f (leaf a ai)) = IOk p' grew tr /\
    Balanced p' /\
    elements p' = elements l ++ (k, i) :: [(a, ai)] /\
    height p' = 1 + height l + (if grew then 1 else 0) /\
    (grew = true -> factor p' <> 0) /\ p' <> E.
Proof.
  intros l k i f a ai Bl Hf Hr.
  assert (Hc : f = -1 \/ f = 0 \/ f = 1) by lia.
  destruct Hc as [Hc|[Hc|Hc]]; rewrite Hc in *; clear Hc; hnn; try lia.
  - unf. crunch. finish_node.
  - unf. crunch. finish_node.
Qed.

Lemma link_neg : forall r k i f a ai,
  Balanced r -> f = height r - 0 -> -1 <= f <= 1 ->
  exists p' grew tr,
    link_adjust (-1) (T (leaf a ai) k i f r) = IOk p' grew tr /\
    Balanced p' /\
    elements p' = (a, ai) :: (k, i) :: elements r /\
    height p' = 1 + height r + (if grew then 1 else 0) /\
    (grew = true -> factor p' <> 0) /\ p' <> E.
Proof.
  intros r k i f a ai Br Hf Hr.
  assert (Hc : f = -1 \/ f = 0 \/ f = 1) by lia.
  destruct Hc as [Hc|[Hc|Hc]]; rewrite Hc in *; clear Hc; hnn; try lia.
  - unf. crunch. finish_node.
  - unf. crunch. finish_node.
Qed.

(* ------------------------------------------------------------------ handle_shrink *)

(* left subtree shrank by one (sign +1) *)
Lemma shrink_pos : forall l k i f r,
  Balanced l -> Balanced r -> f = height r - (height l + 1) -> -1 <= f <= 1 ->
  exists p' stop tg,
    handle_shrink 1 (T l k i f r) = Some (p', stop, tg) /\
    Balanced p' /\
    elements p' = elements (T l k i f r) /\
    height p' = 1 + Z.max (height l + 1) (height r) - (if stop then 0 else 1).
Proof.
  intros l k i f r Bl Br Hf Hr.
  assert (Hc : f = -1 \/ f = 0 \/ f = 1) by lia.
  destruct Hc as [Hc|[Hc|Hc]]; rewrite Hc in *; clear Hc.
  - unf. crunch. hnn. finish_node.
  - unf. crunch. hnn. finish_node.
  - destruct r as [|rl rk ri rf rr]; [cbn [height] in *; hnn; lia|].
    cbn [Balanced] in Br. destruct Br as [Brl [Brr [Hrf Hrr]]].
    cbn [height] in Hf.
    assert (Hd : rf = 1 \/ rf = 0 \/ rf = -1) by lia. destruct Hd as [Hd|[Hd|Hd]]; rewrite Hd in *; clear Hd.
    + unf. crunch. hnn. finish_node.
    + unf. crunch. hnn. finish_node.
    + destruct rl as [|el ek ei ef er]; [cbn [height] in *; hnn; lia|].
      cbn [Balanced] in Brl. destruct Brl as [Bel [Ber [Hef Her]]].
      cbn [height] in *.
      unf. crunch; hnn; finish_node.
Qed.

(* right subtree shrank by one (sign -1) *)
Lemma shrink_neg : forall l k i f r,
  Balanced l -> Balanced r -> f = height r + 1 - height l -> -1 <= f <= 1 ->
  exists p' stop tg,
    handle_shrink (-1) (T l k i f r) = Some (p', stop, tg) /\
    Balanced p' /\
    elements p' = elements (T l k i f r) /\
    height p' = 1 + Z.max (height l) (height r + 1) - (if stop then 0 else 1).
Proof.
  intros l k i f r Bl Br Hf Hr.
  assert (Hc : f = -1 \/ f = 0 \/ f = 1) by lia.
  destruct Hc as [Hc|[Hc|Hc]]; rewrite Hc in *; clear Hc.
  - destruct l as [|ll lk li lf lr]; [cbn [height] in *; hnn; lia|].
    cbn [Balanced] in Bl. destruct Bl as [Bll [Blr [Hlf Hlr]]].
    cbn [height] in Hf.
    assert (Hd : lf = -1 \/ lf = 0 \/ lf = 1) by lia. destruct Hd as [Hd|[Hd|Hd]]; rewrite Hd in *; clear Hd.
    + unf. crunch. hnn. finish_node.
    + unf. crunch. hnn. finish_node.
    + destruct lr as [|el ek ei ef er]; [cbn [height] in *; hnn; lia|].
      cbn [Balanced] in Blr. destruct Blr as [Bel [Ber [Hef Her]]].
      cbn [height] in *.
      unf. crunch; hnn; finish_node.
  - unf. crunch. hnn. finish_node.
  - unf. crunch. hnn. finish_node.
Qed.

(* ------------------------------------------------------------------ ins *)

Lemma sorted_node : forall l k i f r, Bst (T l k i f r) ->
  Bst l /\ Bst r /\ sorted (elements l ++ (k, i) :: elements r).
Proof.
  unfold Bst. cbn [elements]. intros l k i f r H. pose proof H as H0.
  apply sorted_app in H. destruct H as [Hl [Hr _]]. cbn [sorted] in Hr. tauto.
Qed.

Lemma ins_spec : forall k id t, Balanced t -> Bst t ->
  match ins k id t with
  | IDup d => lfind k (elements t) = Some d
  | IErr => False
  | IOk t' grew tr =>
    Balanced t' /\ elements t' = linsert k id (elements t) /\ lfind k (elements t) = None /\
    (t <> E -> height t' = height t + (if grew then 1 else 0)) /\
    (grew = true -> factor t' <> 0) /\ t' <> E
  end.
Proof.
  intros k id. induction t as [|l IHl k' id' f r IHr]; intros Bt St.
  - cbn [ins Balanced elements linsert lfind height factor]. unfold leaf. cbn [Balanced elements linsert lfind height factor].
    repeat split; try lia; try congruence; try discriminate.
  - destruct (sorted_node _ _ _ _ _ St) as [Sl [Sr Ss]].
    cbn [Balanced] in Bt. destruct Bt as [Bl [Br [Hf Hr]]].
    cbn [ins elements height]. cmp_cases k k'.
    + subst k'. apply lfind_app_eq. exact Ss.
    + (* left *)
      rewrite linsert_app_lt, lfind_app_lt by assumption.
      destruct l as [|ll lk li lf lr].
      * destruct (link_neg r k' id' f k id Br) as [p' [grew [tr [Heq [Bp [Ep [Hp [Fp Np]]]]]]]]; try (cbn [height] in *; lia).
        rewrite Heq. cbn [elements linsert lfind app]. cbn [height] in *. hnn.
        repeat split; try assumption; try lia; try (intros _; destruct grew; lia).
      * specialize (IHl Bl Sl).
        remember (T ll lk li lf lr) as l eqn:El.
        destruct (ins k id l) as [d|l' grew tr|]; [exact IHl | | exact IHl].
        destruct IHl as [Bl' [El' [Fl' [Hl' [Gl' Nl']]]]].
        assert (Hne : l <> E) by (subst l; discriminate). specialize (Hl' Hne).
        destruct grew.
        -- destruct (growth_neg l' k' id' f r Bl' Br) as [p' [ok [tg [Heq [Bp [Ep [Hp [Fp Np]]]]]]]]; try lia; try (intros _; apply Gl'; reflexivity).
           unfold growth_step. rewrite Heq. cbn [elements] in Ep. rewrite Ep, El'.
           hnn. repeat split; try assumption; try reflexivity.
           ++ intros _. destruct ok; cbn [negb]; lia.
           ++ destruct ok; cbn [negb]; [discriminate | intros _; apply Fp; reflexivity].
        -- cbn [Balanced elements height factor]. rewrite El'. hnn.
           repeat split; try assumption; try reflexivity; try lia; try discriminate.
    + (* right *)
      rewrite linsert_app_gt, lfind_app_gt by assumption.
      destruct r as [|rl rk ri rf rr].
      * destruct (link_pos l k' id' f k id Bl) as [p' [grew [tr [Heq [Bp [Ep [Hp [Fp Np]]]]]]]]; try (cbn [height] in *; lia).
        rewrite Heq. cbn [elements linsert lfind app]. cbn [height] in *. hnn.
        repeat split; try assumption; try lia; try (intros _; destruct grew; lia).
      * specialize (IHr Br Sr).
        remember (T rl rk ri rf rr) as r eqn:Er.
        destruct (ins k id r) as [d|r' grew tr|]; [exact IHr | | exact IHr].
        destruct IHr as [Br' [Er' [Fr' [Hr' [Gr' Nr']]]]].
        assert (Hne : r <> E) by (subst r; discriminate). specialize (Hr' Hne).
        destruct grew.
        -- destruct (growth_pos l k' id' f r' Bl Br') as [p' [ok [tg [Heq [Bp [Ep [Hp [Fp Np]]]]]]]]; try lia; try (intros _; apply Gr'; reflexivity).
           unfold growth_step. rewrite Heq. cbn [elements] in Ep. rewrite Ep, Er'.
           hnn. repeat split; try assumption; try reflexivity.
           ++ intros _. destruct ok; cbn [negb]; lia.
           ++ destruct ok; cbn [negb]; [discriminate | intros _; apply Fp; reflexivity].
        -- cbn [Balanced elements height factor]. rewrite Er'. hnn.
           repeat split; try assumption; try reflexivity; try lia; try discriminate.
Qed.

(* ------------------------------------------------------------------ rem_min / handle_remove / rem *)

Lemma rem_min_spec : forall t, Balanced t -> t <> E ->
  exists t' sh y tr,
    rem_min t = Some (t', sh, y, tr) /\ Balanced t' /\
    elements t = y :: elements t' /\
    height t' = height t - (if sh then 1 else 0).
Proof.
  induction t as [|l IHl k i f r _]; intros Bt Ne; [congruence|].
  cbn [Balanced] in Bt. destruct Bt as [Bl [Br [Hf Hr]]].
  cbn [rem_min]. destruct l as [|ll lk li lf lr].
  - exists r, true, (k, i), []. cbn [elements height app] in *. hnn. repeat split; try assumption; lia.
  - remember (T ll lk li lf lr) as l eqn:El.
    assert (Hne : l <> E) by (subst l; discriminate).
    destruct (IHl Bl Hne) as [l' [sh [y [tr [Heq [Bl' [El' Hl']]]]]]].
    rewrite Heq. destruct sh.
    + destruct (shrink_pos l' k i f r Bl' Br) as [p' [stop [tg [Hs [Bp [Ep Hp]]]]]]; try lia.
      rewrite Hs. exists p', (negb stop), y, (tg :: tr).
      cbn [elements height] in *. rewrite Ep, El'. hnn.
      repeat split; try assumption; try reflexivity. destruct stop; cbn [negb]; lia.
    + exists (T l' k i f r), false, y, tr.
      cbn [elements height Balanced] in *. rewrite El'. hnn.
      repeat split; try assumption; try reflexivity; lia.
Qed.

Lemma handle_remove_spec : forall l k idx f r,
  Balanced (T l k idx f r) -> r <> E ->
  exists t' sh tr,
    handle_remove l idx f r = ROk t' sh idx tr /\ Balanced t' /\
    elements t' = elements l ++ elements r /\
    height t' = height (T l k idx f r) - (if sh then 1 else 0).
Proof.
  intros l k idx f r Bt Ne.
  cbn [Balanced] in Bt. destruct Bt as [Bl [Br [Hf Hr]]].
  destruct r as [|yl ky iy yf yr]; [congruence|].
  unfold handle_remove. destruct yl as [|a1 a2 a3 a4 a5].
  - cbn [Balanced] in Br. destruct Br as [_ [Byr [Hyf Hyr]]].
    cbn [height] in *.
    destruct (shrink_neg l ky iy f yr Bl Byr) as [p' [stop [tg [Hs [Bp [Ep Hp]]]]]]; try (hnn; lia).
    unfold shrink_step. rewrite Hs. do 3 eexists. split; [reflexivity|].
    cbn [elements app] in *. hnn. repeat split; try assumption.
    destruct stop; cbn [negb]; lia.
  - remember (T (T a1 a2 a3 a4 a5) ky iy yf yr) as r eqn:Er.
    destruct (rem_min_spec r Br Ne) as [r' [sh [[ky' iy'] [tr [Heq [Br' [Er' Hr']]]]]]].
    rewrite Heq. destruct sh.
    + destruct (shrink_neg l ky' iy' f r' Bl Br') as [p' [stop [tg [Hs [Bp [Ep Hp]]]]]]; try lia.
      unfold shrink_step. rewrite Hs. do 3 eexists. split; [reflexivity|].
      cbn [elements height] in *. rewrite Er'. hnn. repeat split; try assumption.
      destruct stop; cbn [negb]; lia.
    + do 3 eexists. split; [reflexivity|].
      cbn [elements height Balanced] in *. rewrite Er'. hnn.
      repeat split; try assumption; try reflexivity; lia.
Qed.

Lemma rem_spec : forall k t, Balanced t -> Bst t ->
  match rem k t with
  | RAbsent => lfind k (elements t) = None
  | RErr => False
  | ROk t' sh rid tr =>
    Balanced t' /\ lfind k (elements t) = Some rid /\
    elements t' = ldelete k (elements t) /\
    height t' = height t - (if sh then 1 else 0)
  end.
Proof.
  intros k. induction t as [|l IHl k' id' f r IHr]; intros Bt St.
  - reflexivity.
  - destruct (sorted_node _ _ _ _ _ St) as [Sl [Sr Ss]].
    pose proof Bt as Bt0.
    cbn [Balanced] in Bt. destruct Bt as [Bl [Br [Hf Hr]]].
    cbn [rem elements height]. cmp_cases k k'.
    + subst k'. rewrite lfind_app_eq, ldelete_app_eq by assumption.
      destruct l as [|ll lk li lf lr]; destruct r as [|rl rk ri rf rr].
      * cbn [Balanced elements height app]. repeat split; lia.
      * cbn [elements app]. split; [exact Br|]. cbn [height] in *. hnn. repeat split; lia.
      * rewrite app_nil_r. split; [exact Bl|]. cbn [height] in *. hnn. repeat split; lia.
      * remember (T ll lk li lf lr) as l. remember (T rl rk ri rf rr) as r.
        assert (Hne : r <> E) by (subst r; discriminate).
        destruct (handle_remove_spec l k id' f r Bt0 Hne) as [t' [sh [tr [Heq [Bt' [Et' Ht']]]]]].
        rewrite Heq. cbn [height] in Ht'. repeat split; assumption.
    + rewrite lfind_app_lt, ldelete_app_lt by assumption.
      specialize (IHl Bl Sl).
      destruct (rem k l) as [|l' sh rid tr|]; [exact IHl | | exact IHl].
      destruct IHl as [Bl' [Fl' [El' Hl']]].
      destruct sh.
      * destruct (shrink_pos l' k' id' f r Bl' Br) as [p' [stop [tg [Hs [Bp [Ep Hp]]]]]]; try lia.
        unfold shrink_step. rewrite Hs. cbn [elements] in Ep. rewrite Ep, El'. hnn.
        repeat split; try assumption. destruct stop; cbn [negb]; lia.
      * cbn [Balanced elements height]. rewrite El'. hnn.
        repeat split; try assumption; try reflexivity; lia.
    + rewrite lfind_app_gt, ldelete_app_gt by assumption.
      specialize (IHr Br Sr).
      destruct (rem k r) as [|r' sh rid tr|]; [exact IHr | | exact IHr].
      destruct IHr as [Br' [Fr' [Er' Hr']]].
      destruct sh.
      * destruct (shrink_neg l k' id' f r' Bl Br') as [p' [stop [tg [Hs [Bp [Ep Hp]]]]]]; try lia.
        unfold shrink_step. rewrite Hs. cbn [elements] in Ep. rewrite Ep, Er'. hnn.
        repeat split; try assumption. destruct stop; cbn [negb]; lia.
      * cbn [Balanced elements height]. rewrite Er'. hnn.
        repeat split; try assumption; try reflexivity; lia.
Qed.

Lemma search_spec : forall k t, Bst t -> search k t = lfind k (elements t).
Proof.
  intros k. induction t as [|l IHl k' id' f r IHr]; intros St; [reflexivity|].
  destruct (sorted_node _ _ _ _ _ St) as [Sl [Sr Ss]].
  cbn [search elements]. cmp_cases k k'.
  - subst k'. symmetry. apply lfind_app_eq. exact Ss.
  - rewrite lfind_app_lt by assumption. apply IHl. exact Sl.
  - rewrite lfind_app_gt by assumption. apply IHr. exact Sr.
Qed.
