(* C01 -- the canonical pointer structure heap_of (what the C harness dumps): with distinct node ids
   it represents the tree, every child's parent field is its parent, the root's parent field is null,
   and every non-root node is the left or right child of the node its parent field names.
   Also: the AVL height bound (sanity check that Balanced is the real AVL condition). *)
From Coq Require Import ZArith List Bool Lia.
From LibaV Require Import C01.AvlDefs C01.AvlProofs C01.AvlHistory.
Import ListNotations.
Local Open Scope Z_scope.

Lemma nodup_app : forall (xs ys : list Z),
  NoDup (xs ++ ys) <-> NoDup xs /\ NoDup ys /\ (forall x, In x xs -> In x ys -> False).
Proof.
  induction xs as [|a xs IH]; intros ys; cbn [app].
  - split.
    + intros H. split; [constructor|]. split; [exact H|]. intros x [].
    + intros [_ [H _]]. exact H.
  - split.
    + intros H. inversion H as [|? ? Ha Hn]; subst. apply IH in Hn. destruct Hn as [H1 [H2 H3]].
      repeat split; auto.
      * constructor; auto. intros Hin. apply Ha. apply in_or_app. auto.
      * intros x [<-|Hx] Hy; [apply Ha; apply in_or_app; auto | eauto].
    + intros [H1 [H2 H3]]. inversion H1 as [|? ? Ha Hn]; subst. constructor.
      * intros Hin. apply in_app_or in Hin. destruct Hin; [auto | apply (H3 a); cbn; auto].
      * apply IH. repeat split; auto. intros x Hx Hy. apply (H3 x); cbn; auto.
Qed.

Lemma ids_node : forall l k i f r, ids (T l k i f r) = ids l ++ i :: ids r.
Proof. intros. unfold ids. cbn [elements]. rewrite map_app. reflexivity. Qed.

Lemma heap_ids_in : forall t p i, In i (map fst (heap_of p t)) <-> In i (ids t).
Proof.
  induction t as [|l IHl k i0 f r IHr]; intros p i; [cbn; tauto|].
  rewrite ids_node. cbn [heap_of map fst In]. rewrite map_app, !in_app_iff. cbn [In].
  rewrite IHl, IHr. tauto.
Qed.

Lemma heap_nodup : forall t p, NoDup (ids t) -> NoDup (map fst (heap_of p t)).
Proof.
  induction t as [|l IHl k i0 f r IHr]; intros p Hn; [constructor|].
  rewrite ids_node in Hn. apply nodup_app in Hn. destruct Hn as [Hl [Hr Hd]].
  inversion Hr as [|? ? Hi Hr']; subst.
  cbn [heap_of map fst]. rewrite map_app. constructor.
  - rewrite in_app_iff, !heap_ids_in. intros [H|H]; [apply (Hd i0); cbn; auto | auto].
  - apply nodup_app. repeat split; auto.
    intros x Hx Hy. rewrite heap_ids_in in Hx, Hy. apply (Hd x); cbn; auto.
Qed.

Lemma lookup_In : forall h i c, NoDup (map fst h) -> (lookup h i = Some c <-> In (i, c) h).
Proof.
  induction h as [|[j cj] h IH]; intros i c Hn; cbn [lookup In].
  - split; [discriminate | tauto].
  - cbn [map fst] in Hn. inversion Hn as [|? ? Hj Hn']; subst.
    destruct (Z.eqb_spec i j).
    + subst j. split.
      * intros [= ->]. auto.
      * intros [[= ->]|Hin]; [reflexivity|]. exfalso. apply Hj. apply in_map_iff. exists (i, c). auto.
    + rewrite IH by exact Hn'. split; [auto|]. intros [[= -> ->]|Hin]; [congruence | exact Hin].
Qed.

(* children: the cell a left/right link names has its parent field pointing back *)
Lemma heap_child_links : forall t p i c, In (i, c) (heap_of p t) ->
  (forall j, c_left c = Some j -> exists c', In (j, c') (heap_of p t) /\ c_parent c' = Some i) /\
  (forall j, c_right c = Some j -> exists c', In (j, c') (heap_of p t) /\ c_parent c' = Some i).
Proof.
  induction t as [|l IHl k i0 f r IHr]; intros p i c Hin; [destruct Hin|].
  cbn [heap_of In] in Hin. destruct Hin as [Heq|Hin].
  - injection Heq as <- <-. cbn [c_left c_right]. split; intros j Hj.
    + destruct l as [|ll lk li lf lr]; [discriminate|]. cbn [root_id] in Hj. injection Hj as <-.
      eexists. split; [cbn [heap_of In]; right; apply in_or_app; left; cbn [heap_of In]; left; reflexivity|reflexivity].
    + destruct r as [|rl rk ri rf rr]; [discriminate|]. cbn [root_id] in Hj. injection Hj as <-.
      eexists. split; [cbn [heap_of In]; right; apply in_or_app; right; cbn [heap_of In]; left; reflexivity|reflexivity].
  - apply in_app_or in Hin. destruct Hin as [Hin|Hin].
    + destruct (IHl _ _ _ Hin) as [H1 H2]. split; intros j Hj.
      * destruct (H1 j Hj) as [c' [Hc' Hp]]. exists c'. split; [cbn [heap_of In]; right; apply in_or_app; auto|exact Hp].
      * destruct (H2 j Hj) as [c' [Hc' Hp]]. exists c'. split; [cbn [heap_of In]; right; apply in_or_app; auto|exact Hp].
    + destruct (IHr _ _ _ Hin) as [H1 H2]. split; intros j Hj.
      * destruct (H1 j Hj) as [c' [Hc' Hp]]. exists c'. split; [cbn [heap_of In]; right; apply in_or_app; auto|exact Hp].
      * destruct (H2 j Hj) as [c' [Hc' Hp]]. exists c'. split; [cbn [heap_of In]; right; apply in_or_app; auto|exact Hp].
Qed.

(* parent: either the node is the subtree root (parent field = p) or its parent field names a cell
   of the heap that has it as left or right child *)
Lemma heap_parent_links : forall t p i c, In (i, c) (heap_of p t) ->
  (c_parent c = p /\ root_id t = Some i) \/
  (exists q cq, c_parent c = Some q /\ In (q, cq) (heap_of p t) /\ (c_left cq = Some i \/ c_right cq = Some i)).
Proof.
  induction t as [|l IHl k i0 f r IHr]; intros p i c Hin; [destruct Hin|].
  cbn [heap_of In] in Hin. destruct Hin as [Heq|Hin].
  - injection Heq as <- <-. left. cbn. auto.
  - right. apply in_app_or in Hin. destruct Hin as [Hin|Hin].
    + destruct (IHl _ _ _ Hin) as [[Hp Hroot]|[q [cq [Hp [Hq Hlr]]]]].
      * eexists i0, _. split; [exact Hp|]. split; [cbn [heap_of In]; left; reflexivity|]. cbn [c_left]. auto.
      * exists q, cq. split; [exact Hp|]. split; [cbn [heap_of In]; right; apply in_or_app; auto|exact Hlr].
    + destruct (IHr _ _ _ Hin) as [[Hp Hroot]|[q [cq [Hp [Hq Hlr]]]]].
      * eexists i0, _. split; [exact Hp|]. split; [cbn [heap_of In]; left; reflexivity|]. cbn [c_right]. auto.
      * exists q, cq. split; [exact Hp|]. split; [cbn [heap_of In]; right; apply in_or_app; auto|exact Hlr].
Qed.

(* heap h represents tree t hanging below parent p *)
Inductive Repr (h : list (Z * cell)) : option Z -> tree -> Prop :=
| Repr_E : forall p, Repr h p E
| Repr_T : forall p l k i f r,
    lookup h i = Some (mkcell k (root_id l) (root_id r) p f) ->
    Repr h (Some i) l -> Repr h (Some i) r -> Repr h p (T l k i f r).

Lemma repr_sub : forall h, NoDup (map fst h) ->
  forall t p, (forall x, In x (heap_of p t) -> In x h) -> Repr h p t.
Proof.
  intros h Hn. induction t as [|l IHl k i f r IHr]; intros p Hsub; constructor.
  - apply lookup_In; [exact Hn|]. apply Hsub. cbn [heap_of In]. auto.
  - apply IHl. intros x Hx. apply Hsub. cbn [heap_of In]. right. apply in_or_app. auto.
  - apply IHr. intros x Hx. apply Hsub. cbn [heap_of In]. right. apply in_or_app. auto.
Qed.

(* C01 clause 4 *)
Lemma heap_of_parent_links_proof : forall t, NoDup (ids t) ->
  let h := heap_of None t in
  Repr h None t /\
  (forall i c, lookup h i = Some c ->
     (forall j, c_left c = Some j -> exists c', lookup h j = Some c' /\ c_parent c' = Some i) /\
     (forall j, c_right c = Some j -> exists c', lookup h j = Some c' /\ c_parent c' = Some i) /\
     (c_parent c = None <-> root_id t = Some i) /\
     (forall q, c_parent c = Some q ->
        exists cq, lookup h q = Some cq /\ (c_left cq = Some i \/ c_right cq = Some i))) /\
  (forall i, In i (ids t) <-> exists c, lookup h i = Some c).
Proof.
  intros t Hn h. pose proof (heap_nodup t None Hn) as Hh. fold h in Hh.
  split; [apply repr_sub; auto|]. split.
  - intros i c Hl. apply lookup_In in Hl; [|exact Hh].
    destruct (heap_child_links t None i c Hl) as [H1 H2].
    repeat split.
    + intros j Hj. destruct (H1 j Hj) as [c' [Hc' Hp]]. exists c'. split; [apply lookup_In; assumption|exact Hp].
    + intros j Hj. destruct (H2 j Hj) as [c' [Hc' Hp]]. exists c'. split; [apply lookup_In; assumption|exact Hp].
    + intros Hp. destruct (heap_parent_links t None i c Hl) as [[_ Hroot]|[q [cq [Hq _]]]]; [exact Hroot | congruence].
    + intros Hroot. destruct t as [|l k i0 f r]; [discriminate|]. cbn [root_id] in Hroot. injection Hroot as ->.
      assert (Hhead : In (i, mkcell k (root_id l) (root_id r) None f) h) by (cbn; auto).
      apply lookup_In in Hhead; [|exact Hh]. apply lookup_In in Hl; [|exact Hh].
      rewrite Hl in Hhead. injection Hhead as ->. reflexivity.
    + intros q Hq. destruct (heap_parent_links t None i c Hl) as [[Hp _]|[q' [cq [Hq' [Hin Hlr]]]]]; [congruence|].
      rewrite Hq in Hq'. injection Hq' as <-. exists cq. split; [apply lookup_In; assumption|exact Hlr].
  - intros i. rewrite <- (heap_ids_in t None i). fold h. split.
    + intros Hin. apply in_map_iff in Hin. destruct Hin as [[j c] [Hj Hin]]. cbn [fst] in Hj. subst j.
      exists c. apply lookup_In; assumption.
    + intros [c Hl]. apply lookup_In in Hl; [|exact Hh]. apply in_map_iff. exists (i, c). auto.
Qed.

(* over histories whose inserted node ids are fresh, every reachable heap is well linked *)
Lemma heap_links_reachable_proof : forall ops t obs,
  fresh_ids ops [] -> run ops E = Some (t, obs) ->
  let h := heap_of None t in
  Repr h None t /\
  (forall i c, lookup h i = Some c ->
     (forall j, c_left c = Some j -> exists c', lookup h j = Some c' /\ c_parent c' = Some i) /\
     (forall j, c_right c = Some j -> exists c', lookup h j = Some c' /\ c_parent c' = Some i) /\
     (c_parent c = None <-> root_id t = Some i) /\
     (forall q, c_parent c = Some q ->
        exists cq, lookup h q = Some cq /\ (c_left cq = Some i \/ c_right cq = Some i))) /\
  (forall i, In i (ids t) <-> exists c, lookup h i = Some c).
Proof.
  intros ops t obs Hf Hr. apply heap_of_parent_links_proof. eapply run_nodup_empty; eauto.
Qed.

(* ------------------------------------------------------------------ height bound *)

Lemma avl_size_lower : forall t, Balanced t -> 2 ^ (height t / 2) <= size t + 1.
Proof.
  induction t as [|l IHl k i f r IHr]; intros Bt.
  - cbn. lia.
  - cbn [Balanced] in Bt. destruct Bt as [Bl [Br [Hf Hr]]].
    specialize (IHl Bl). specialize (IHr Br). cbn [height size].
    pose proof (height_nonneg l). pose proof (height_nonneg r).
    set (h := 1 + Z.max (height l) (height r)).
    assert (Hl : (h - 2) / 2 <= height l / 2) by (apply Z.div_le_mono; lia).
    assert (Hr' : (h - 2) / 2 <= height r / 2) by (apply Z.div_le_mono; lia).
    assert (Hh : h / 2 = (h - 2) / 2 + 1).
    { replace h with ((h - 2) + 1 * 2) at 1 by lia. rewrite Z.div_add by lia. reflexivity. }
    assert (H0h : 0 <= (h - 2) / 2 \/ h = 1).
    { destruct (Z.eq_dec h 1); [auto|left]. apply Z.div_pos; lia. }
    destruct H0h as [H0h|H1].
    + rewrite Hh, Z.pow_add_r by lia. change (2 ^ 1) with 2.
      assert (2 ^ ((h - 2) / 2) <= 2 ^ (height l / 2)) by (apply Z.pow_le_mono_r; lia).
      assert (2 ^ ((h - 2) / 2) <= 2 ^ (height r / 2)) by (apply Z.pow_le_mono_r; lia).
      lia.
    + rewrite H1. change (2 ^ (1 / 2)) with 1.
      assert (0 <= size l) by (clear; induction l; cbn [size]; lia).
      assert (0 <= size r) by (clear; induction r; cbn [size]; lia).
      lia.
Qed.

Lemma size_nonneg : forall t, 0 <= size t.
Proof. induction t; cbn [size]; lia. Qed.

Lemma avl_height_log_proof : forall t, Balanced t -> height t <= 2 * Z.log2 (size t + 1) + 1.
Proof.
  intros t Bt. pose proof (avl_size_lower t Bt) as H. pose proof (size_nonneg t) as Hs.
  apply Z.log2_le_pow2 in H; [|lia].
  pose proof (Z.div_mod (height t) 2 ltac:(lia)) as Hd.
  pose proof (Z.mod_pos_bound (height t) 2 ltac:(lia)) as Hm. lia.
Qed.
