(* C01 -- histories: every state reachable from the empty tree by insert / remove / search is a
   balanced search tree, no model error is reachable, and the tree refines the abstract finite map
   key -> id ("exactly the elements inserted and not yet removed"), including all returned pointers. *)
From Coq Require Import ZArith List Bool Lia.
From LibaV Require Import C01.AvlDefs C01.AvlProofs.
Import ListNotations.
Local Open Scope Z_scope.

(* ------------------------------------------------------------------ the abstract container *)

Definition amap := Z -> option Z.              (* key -> id of the resident element *)
Definition aempty : amap := fun _ => None.

Definition a_step (m : amap) (o : op) : amap * option Z :=
  match o with
  | Ins k id =>
    match m k with
    | Some d => (m, Some d)                                       (* resident returned, nothing changes *)
    | None => (fun x => if x =? k then Some id else m x, None)
    end
  | Rem k => (fun x => if x =? k then None else m x, m k)
  | Find k => (m, m k)
  end.

Fixpoint a_run (ops : list op) (m : amap) : amap * list (option Z) :=
  match ops with
  | [] => (m, [])
  | o :: rest =>
    let (m', ret) := a_step m o in
    let (m'', obs) := a_run rest m' in
    (m'', ret :: obs)
  end.

Definition Inv (t : tree) : Prop := Balanced t /\ Bst t.
Definition Refines (t : tree) (m : amap) : Prop := forall k, lfind k (elements t) = m k.

Definition reachable (t : tree) : Prop := exists ops obs, run ops E = Some (t, obs).

(* ------------------------------------------------------------------ one API call *)

Lemma step_spec : forall t m o, Inv t -> Refines t m ->
  exists t' ret tr,
    step t o = Some (t', ret, tr) /\ Inv t' /\
    ret = snd (a_step m o) /\ Refines t' (fst (a_step m o)).
Proof.
  intros t m o [Bt St] Rf. destruct o as [k id|k|k]; cbn [step a_step].
  - pose proof (ins_spec k id t Bt St) as H. rewrite <- (Rf k).
    destruct (ins k id t) as [d|t' grew tr|]; [| |contradiction].
    + rewrite H. exists t, (Some d), [TDup]. cbn [fst snd]. repeat split; assumption.
    + destruct H as [Bt' [Et' [Fn _]]]. rewrite Fn.
      exists t', None, tr. cbn [fst snd]. repeat split; try assumption.
      * unfold Bst. rewrite Et'. apply linsert_sorted. exact St.
      * intros x. rewrite Et', lfind_linsert by exact St. rewrite Fn, <- (Rf x). reflexivity.
  - pose proof (rem_spec k t Bt St) as H. rewrite <- (Rf k).
    destruct (rem k t) as [|t' sh rid tr|]; [| |contradiction].
    + rewrite H. exists t, None, [TAbsent]. cbn [fst snd]. repeat split; try assumption.
      intros x. destruct (Z.eqb_spec x k); [subst x; exact H | apply Rf].
    + destruct H as [Bt' [Fn [Et' _]]]. rewrite Fn.
      exists t', (Some rid), tr. cbn [fst snd]. repeat split; try assumption.
      * unfold Bst. rewrite Et'. apply ldelete_sorted. exact St.
      * intros x. rewrite Et', lfind_ldelete by exact St. rewrite <- (Rf x). reflexivity.
  - exists t, (search k t), []. cbn [fst snd]. repeat split; try assumption.
    rewrite search_spec by exact St. apply Rf.
Qed.

Lemma run_spec : forall ops t m, Inv t -> Refines t m ->
  exists t' obs,
    run ops t = Some (t', obs) /\ Inv t' /\
    obs = snd (a_run ops m) /\ Refines t' (fst (a_run ops m)).
Proof.
  induction ops as [|o rest IH]; intros t m It Rf; cbn [run a_run].
  - exists t, []. cbn [fst snd]. repeat split; try assumption; apply It.
  - destruct (step_spec t m o It Rf) as [t1 [ret [tr [Hs [It1 [Hret Rf1]]]]]].
    rewrite Hs. destruct (a_step m o) as [m1 ret1]. cbn [fst snd] in *. subst ret1.
    destruct (IH t1 m1 It1 Rf1) as [t2 [obs [Hr [It2 [Hobs Rf2]]]]].
    rewrite Hr. destruct (a_run rest m1) as [m2 obs2]. cbn [fst snd] in *. subst obs2.
    exists t2, (ret :: obs). repeat split; try assumption; apply It2.
Qed.

Lemma inv_empty : Inv E.
Proof. split; exact I. Qed.

Lemma refines_empty : Refines E aempty.
Proof. intros k. reflexivity. Qed.

(* C01 clause 1: no error, BST, balanced with exact stored factors -- for every history *)
Lemma avl_inv_reachable_proof : forall ops,
  exists t obs, run ops E = Some (t, obs) /\ Bst t /\ Balanced t.
Proof.
  intros ops. destruct (run_spec ops E aempty inv_empty refines_empty) as [t [obs [Hr [[Bt St] _]]]].
  exists t, obs. auto.
Qed.

Lemma reachable_inv : forall t, reachable t -> Bst t /\ Balanced t.
Proof.
  intros t [ops [obs Hr]].
  destruct (avl_inv_reachable_proof ops) as [t' [obs' [Hr' [St Bt]]]].
  rewrite Hr in Hr'. injection Hr' as <- <-. auto.
Qed.

(* C01 clause 2: set refinement, all returned pointers, membership, search *)
Lemma avl_refines_set_proof : forall ops,
  exists t obs,
    run ops E = Some (t, obs) /\
    obs = snd (a_run ops aempty) /\
    sorted (elements t) /\
    (forall k i, In (k, i) (elements t) <-> fst (a_run ops aempty) k = Some i) /\
    (forall k, search k t = fst (a_run ops aempty) k).
Proof.
  intros ops. destruct (run_spec ops E aempty inv_empty refines_empty) as [t [obs [Hr [[Bt St] [Ho Rf]]]]].
  exists t, obs. repeat split; try assumption.
  - intros H. rewrite <- (Rf k). apply lfind_In; assumption.
  - intros H. rewrite <- (Rf k) in H. apply lfind_In in H; assumption.
  - intros k. rewrite search_spec by exact St. apply Rf.
Qed.

(* C01 clause 3: inserting a resident key returns the resident and leaves the tree EQUAL to the old
   one; inserting an absent key returns NULL and adds exactly that element; remove deletes exactly the
   key's element and returns it; remove of an absent key changes nothing. *)
Lemma avl_insert_cases_proof : forall t k id, reachable t ->
  match search k t with
  | Some d => step t (Ins k id) = Some (t, Some d, [TDup])
  | None => exists t' tr, step t (Ins k id) = Some (t', None, tr) /\
                          elements t' = linsert k id (elements t) /\
                          (forall x, In x (elements t') <-> x = (k, id) \/ In x (elements t))
  end.
Proof.
  intros t k id Hr. destruct (reachable_inv t Hr) as [St Bt].
  rewrite search_spec by exact St. cbn [step].
  pose proof (ins_spec k id t Bt St) as H.
  destruct (ins k id t) as [d|t' grew tr|]; [| |contradiction].
  - rewrite H. reflexivity.
  - destruct H as [Bt' [Et' [Fn _]]]. rewrite Fn. exists t', tr. repeat split; try assumption.
    + intros Hin. rewrite Et' in Hin.
      assert (St' : sorted (linsert k id (elements t))) by (apply linsert_sorted; exact St).
      destruct x as [xk xi]. apply lfind_In in Hin; [|exact St'].
      rewrite lfind_linsert in Hin by exact St. rewrite Fn in Hin.
      destruct (Z.eqb_spec xk k).
      * left. congruence.
      * right. apply lfind_In; assumption.
    + intros Hin. rewrite Et'.
      assert (St' : sorted (linsert k id (elements t))) by (apply linsert_sorted; exact St).
      destruct x as [xk xi]. apply lfind_In; [exact St'|].
      rewrite lfind_linsert by exact St. rewrite Fn.
      destruct Hin as [[= -> ->]|Hin].
      * rewrite Z.eqb_refl. reflexivity.
      * apply lfind_In in Hin; [|exact St]. destruct (Z.eqb_spec xk k); [congruence|exact Hin].
Qed.

Lemma avl_remove_cases_proof : forall t k, reachable t ->
  match search k t with
  | Some d => exists t' tr, step t (Rem k) = Some (t', Some d, tr) /\
                            elements t' = ldelete k (elements t) /\
                            (forall x, In x (elements t') <-> In x (elements t) /\ fst x <> k)
  | None => step t (Rem k) = Some (t, None, [TAbsent])
  end.
Proof.
  intros t k Hr. destruct (reachable_inv t Hr) as [St Bt].
  rewrite search_spec by exact St. cbn [step].
  pose proof (rem_spec k t Bt St) as H.
  destruct (rem k t) as [|t' sh rid tr|]; [| |contradiction].
  - rewrite H. reflexivity.
  - destruct H as [Bt' [Fn [Et' _]]]. rewrite Fn. exists t', tr. repeat split; try assumption.
    + rewrite Et' in H. eapply ldelete_In. exact H.
    + rewrite Et' in H. destruct x as [xk xi].
      assert (St' : sorted (ldelete k (elements t))) by (apply ldelete_sorted; exact St).
      apply lfind_In in H; [|exact St']. rewrite lfind_ldelete in H by exact St.
      cbn [fst]. destruct (Z.eqb_spec xk k); [discriminate | assumption].
    + intros [Hin Hne]. rewrite Et'. destruct x as [xk xi]. cbn [fst] in Hne.
      assert (St' : sorted (ldelete k (elements t))) by (apply ldelete_sorted; exact St).
      apply lfind_In; [exact St'|]. rewrite lfind_ldelete by exact St.
      destruct (Z.eqb_spec xk k); [contradiction|]. apply lfind_In; assumption.
Qed.

(* search finds an element exactly when it is present *)
Lemma avl_search_iff_proof : forall t k i, reachable t ->
  (search k t = Some i <-> In (k, i) (elements t)).
Proof.
  intros t k i Hr. destruct (reachable_inv t Hr) as [St Bt].
  rewrite search_spec by exact St. apply lfind_In. exact St.
Qed.

(* ------------------------------------------------------------------ node identities stay distinct *)

Definition ids (t : tree) : list Z := map snd (elements t).

Fixpoint fresh_ids (ops : list op) (used : list Z) : Prop :=
  match ops with
  | [] => True
  | Ins _ id :: rest => ~ In id used /\ fresh_ids rest (id :: used)
  | _ :: rest => fresh_ids rest used
  end.

Lemma linsert_ids : forall k id xs y, In y (map snd (linsert k id xs)) -> y = id \/ In y (map snd xs).
Proof.
  induction xs as [|[b bi] xs IH]; intros y Hin; cbn [linsert map snd In] in *.
  - destruct Hin as [<-|[]]. auto.
  - destruct (k ?= b); cbn [map snd In] in *.
    + auto.
    + destruct Hin as [<-|Hin]; auto.
    + destruct Hin as [<-|Hin]; auto. destruct (IH y Hin); auto.
Qed.

Lemma linsert_nodup : forall k id xs, NoDup (map snd xs) -> ~ In id (map snd xs) ->
  NoDup (map snd (linsert k id xs)).
Proof.
  induction xs as [|[b bi] xs IH]; intros Hn Hid; cbn [linsert map snd] in *.
  - constructor; [intros []|constructor].
  - destruct (k ?= b); cbn [map snd] in *.
    + exact Hn.
    + constructor; assumption.
    + inversion Hn as [|? ? Hb Hn']; subst. constructor.
      * intros Hin. apply linsert_ids in Hin. cbn [In] in Hid. destruct Hin as [->|Hin]; [apply Hid; auto | auto].
      * apply IH; [exact Hn'|]. intros Hin. apply Hid. cbn [In]. auto.
Qed.

Lemma ldelete_nodup : forall k xs, NoDup (map snd xs) -> NoDup (map snd (ldelete k xs)).
Proof.
  induction xs as [|[b bi] xs IH]; intros Hn; cbn [ldelete map snd] in *; [exact Hn|].
  inversion Hn as [|? ? Hb Hn']; subst.
  destruct (k ?= b); cbn [map snd]; auto.
  constructor; [|auto]. intros Hin. apply Hb.
  apply in_map_iff in Hin. destruct Hin as [[xk xi] [<- Hin]]. apply ldelete_In in Hin.
  apply in_map_iff. exists (xk, xi). auto.
Qed.

Lemma run_nodup : forall ops t used obs t',
  Inv t -> NoDup (ids t) -> (forall i, In i (ids t) -> In i used) -> fresh_ids ops used ->
  run ops t = Some (t', obs) -> NoDup (ids t').
Proof.
  induction ops as [|o rest IH]; intros t used obs t' It Hn Hsub Hf Hr; cbn [run] in Hr.
  - injection Hr as <- <-. exact Hn.
  - destruct It as [Bt St].
    destruct (step t o) as [[[t1 ret] tr]|] eqn:Hs; [|discriminate].
    destruct (run rest t1) as [[t2 obs2]|] eqn:Hr2; [|discriminate].
    injection Hr as <- <-.
    destruct o as [k id|k|k]; cbn [step fresh_ids] in *.
    + destruct Hf as [Hfr Hf].
      pose proof (ins_spec k id t Bt St) as H.
      destruct (ins k id t) as [d|t1' grew tr'|]; [| |discriminate].
      * injection Hs as <- <- <-.
        eapply (IH t (id :: used)); eauto; [split; assumption|]. intros i Hi. right. auto.
      * injection Hs as <- <- <-. destruct H as [Bt' [Et' [Fn _]]].
        eapply (IH t1' (id :: used)); eauto.
        -- split; [assumption|]. unfold Bst. rewrite Et'. apply linsert_sorted. exact St.
        -- unfold ids. rewrite Et'. apply linsert_nodup; [exact Hn|]. intros Hin. apply Hfr. apply Hsub. exact Hin.
        -- intros i Hi. unfold ids in Hi. rewrite Et' in Hi. apply linsert_ids in Hi.
           destruct Hi as [->|Hi]; [left; reflexivity | right; apply Hsub; exact Hi].
    + pose proof (rem_spec k t Bt St) as H.
      destruct (rem k t) as [|t1' sh rid tr'|]; [| |discriminate].
      * injection Hs as <- <- <-. eapply (IH t used); eauto. split; assumption.
      * injection Hs as <- <- <-. destruct H as [Bt' [Fn [Et' _]]].
        eapply (IH t1' used); eauto.
        -- split; [assumption|]. unfold Bst. rewrite Et'. apply ldelete_sorted. exact St.
        -- unfold ids. rewrite Et'. apply ldelete_nodup. exact Hn.
        -- intros i Hi. apply Hsub. unfold ids in *. rewrite Et' in Hi.
           apply in_map_iff in Hi. destruct Hi as [[xk xi] [<- Hi]]. apply ldelete_In in Hi.
           apply in_map_iff. exists (xk, xi). auto.
    + injection Hs as <- <- <-. eapply (IH t used); eauto. split; assumption.
Qed.

Lemma run_nodup_empty : forall ops t obs,
  fresh_ids ops [] -> run ops E = Some (t, obs) -> NoDup (ids t).
Proof.
  intros ops t obs Hf Hr.
  exact (run_nodup ops E [] obs t inv_empty (NoDup_nil Z) (fun i (H : In i []) => match H with end) Hf Hr).
Qed.
