(* C01 extraction: the model's own definitions, ExtrOcamlBasic only. *)
Require Extraction.
Require Import ExtrOcamlBasic.
From LibaV Require Import C01.AvlDefs.
Extraction "C01/extracted/avl_model.ml" step heap_of root_id elements height balancedb sortedb.
