(* C01 -- "the code only compares keys, so only their relative order matters":
   relabelling the keys of a whole history by any order-preserving map f relabels the keys of the
   resulting tree and changes nothing else (shape, node ids, stored factors, every returned pointer,
   even the cases fired).  Hence theorems over Z keys cover every totally ordered finite key set
   (it embeds in Z). *)
From Coq Require Import ZArith List Bool Lia.
From LibaV Require Import C01.AvlDefs.
Import ListNotations.
Local Open Scope Z_scope.

Fixpoint mapk (f : Z -> Z) (t : tree) : tree :=
  match t with
  | E => E
  | T l k i b r => T (mapk f l) (f k) i b (mapk f r)
  end.

Definition op_mapk (f : Z -> Z) (o : op) : op :=
  match o with
  | Ins k id => Ins (f k) id
  | Rem k => Rem (f k)
  | Find k => Find (f k)
  end.

Definition order_preserving (f : Z -> Z) : Prop := forall a b, (f a ?= f b) = (a ?= b).

Section Relabel.
Variable f : Z -> Z.
Hypothesis Hf : order_preserving f.

Lemma child_mapk : forall t s, child (mapk f t) s = mapk f (child t s).
Proof. intros [|l k i b r] s; cbn [mapk child]; [reflexivity|]. destruct (s <? 0); reflexivity. Qed.

Lemma set_child_mapk : forall t c s, set_child (mapk f t) (mapk f c) s = mapk f (set_child t c s).
Proof. intros [|l k i b r] c s; cbn [mapk set_child]; [reflexivity|]. destruct (s <? 0); reflexivity. Qed.

Lemma set_factor_mapk : forall t b, set_factor (mapk f t) b = mapk f (set_factor t b).
Proof. intros [|l k i b0 r] b; reflexivity. Qed.

Lemma add_factor_mapk : forall t a, add_factor (mapk f t) a = option_map (mapk f) (add_factor t a).
Proof.
  intros [|l k i b r] a; cbn [mapk add_factor]; [reflexivity|].
  destruct ((-1 <=? b + a) && (b + a <=? 1)); reflexivity.
Qed.

Lemma mapk_E : forall t, mapk f t = E <-> t = E.
Proof. intros [|]; cbn; split; congruence. Qed.

Lemma rotate_mapk : forall A s, rotate (mapk f A) s = option_map (mapk f) (rotate A s).
Proof.
  intros A s. unfold rotate. destruct A as [|l k i b r]; [reflexivity|].
  change (T (mapk f l) (f k) i b (mapk f r)) with (mapk f (T l k i b r)).
  set (A := T l k i b r). cbn [mapk]. fold A. fold (mapk f A).
  change (T (mapk f l) (f k) i b (mapk f r)) with (mapk f A).
  rewrite child_mapk. destruct (child A (- s)) as [|bl bk bi bb br] eqn:EB; [reflexivity|].
  cbn [mapk option_map].
  change (T (mapk f bl) (f bk) bi bb (mapk f br)) with (mapk f (T bl bk bi bb br)).
  rewrite child_mapk, set_child_mapk, set_child_mapk. reflexivity.
Qed.

Lemma rotate2_mapk : forall A s,
  rotate2 (mapk f A) s = option_map (fun '(t, e) => (mapk f t, e)) (rotate2 A s).
Proof.
  intros A s. unfold rotate2. destruct A as [|l k i b r]; [reflexivity|].
  set (A := T l k i b r). cbn [mapk]. 
  change (T (mapk f l) (f k) i b (mapk f r)) with (mapk f A).
  rewrite child_mapk. destruct (child A (- s)) as [|bl bk bi bb br] eqn:EB; [reflexivity|].
  cbn [mapk].
  change (T (mapk f bl) (f bk) bi bb (mapk f br)) with (mapk f (T bl bk bi bb br)).
  set (B := T bl bk bi bb br).
  rewrite child_mapk. destruct (child B s) as [|el ek ei e er] eqn:EE; [reflexivity|].
  cbn [mapk option_map].
  change (T (mapk f el) (f ek) ei e (mapk f er)) with (mapk f (T el ek ei e er)).
  rewrite !child_mapk, !set_child_mapk, !set_factor_mapk, !set_child_mapk, set_factor_mapk.
  reflexivity.
Qed.

Definition map_node (r : option (tree * bool * tag)) : option (tree * bool * tag) :=
  option_map (fun '(t, b, g) => (mapk f t, b, g)) r.

Lemma handle_growth_mapk : forall s p, handle_growth s (mapk f p) = map_node (handle_growth s p).
Proof.
  intros s p. unfold handle_growth. destruct p as [|l k i b r]; [reflexivity|].
  cbn [mapk]. cbv beta iota.
  change (T (mapk f l) (f k) i b (mapk f r)) with (mapk f (T l k i b r)).
  set (P := T l k i b r).
  rewrite add_factor_mapk.
  destruct (b =? 0); [destruct (add_factor P s); reflexivity|].
  destruct (b + s =? 0); [destruct (add_factor P s); reflexivity|].
  rewrite child_mapk. destruct (child P s) as [|nl nk ni fn nr]; [reflexivity|].
  cbn [mapk]. destruct (s * fn >? 0).
  - rewrite rotate_mapk. destruct (rotate P (- s)) as [b0|]; [|reflexivity].
    cbn [option_map]. rewrite child_mapk, add_factor_mapk.
    destruct (add_factor (child b0 (- s)) (- s)) as [a'|]; [|reflexivity].
    cbn [option_map]. rewrite set_child_mapk, add_factor_mapk.
    destruct (add_factor (set_child b0 a' (- s)) (- s)); reflexivity.
  - rewrite rotate2_mapk. destruct (rotate2 P (- s)) as [[e' e]|]; reflexivity.
Qed.

Lemma handle_shrink_mapk : forall s p, handle_shrink s (mapk f p) = map_node (handle_shrink s p).
Proof.
  intros s p. unfold handle_shrink. destruct p as [|l k i b r]; [reflexivity|].
  cbn [mapk]. cbv beta iota.
  change (T (mapk f l) (f k) i b (mapk f r)) with (mapk f (T l k i b r)).
  set (P := T l k i b r).
  rewrite add_factor_mapk.
  destruct (b =? 0); [destruct (add_factor P s); reflexivity|].
  destruct (b + s =? 0); [destruct (add_factor P s); reflexivity|].
  rewrite child_mapk. destruct (child P s) as [|nl nk ni fn nr]; [reflexivity|].
  cbn [mapk]. destruct (s * fn >=? 0).
  - rewrite rotate_mapk. destruct (rotate P (- s)) as [b0|]; [|reflexivity].
    cbn [option_map]. destruct b0 as [|b1 b2 b3 fb b5]; [reflexivity|].
    cbn [mapk]. cbv beta iota.
    change (T (mapk f b1) (f b2) b3 fb (mapk f b5)) with (mapk f (T b1 b2 b3 fb b5)).
    set (B0 := T b1 b2 b3 fb b5).
    destruct (fb =? 0).
    + rewrite add_factor_mapk. destruct (add_factor B0 (- s)); reflexivity.
    + rewrite child_mapk, add_factor_mapk.
      destruct (add_factor (child B0 (- s)) (- s)) as [a'|]; [|reflexivity].
      cbn [option_map]. rewrite set_child_mapk, add_factor_mapk.
      destruct (add_factor (set_child B0 a' (- s)) (- s)); reflexivity.
  - rewrite rotate2_mapk. destruct (rotate2 P (- s)) as [[e' e]|]; reflexivity.
Qed.

Definition map_ires (r : ires) : ires :=
  match r with
  | IDup d => IDup d
  | IOk t g tr => IOk (mapk f t) g tr
  | IErr => IErr
  end.

Lemma link_adjust_mapk : forall s p, link_adjust s (mapk f p) = map_ires (link_adjust s p).
Proof.
  intros s p. unfold link_adjust. rewrite add_factor_mapk.
  destruct (add_factor p s) as [[|l k i b r]|]; cbn [option_map mapk map_ires]; try reflexivity.
  destruct (b =? 0); reflexivity.
Qed.

Lemma growth_step_mapk : forall s p tr, growth_step s (mapk f p) tr = map_ires (growth_step s p tr).
Proof.
  intros s p tr. unfold growth_step. rewrite handle_growth_mapk.
  destruct (handle_growth s p) as [[[p' ok] tg]|]; reflexivity.
Qed.

Lemma ins_mapk : forall k id t, ins (f k) id (mapk f t) = map_ires (ins k id t).
Proof.
  intros k id. induction t as [|l IHl k' id' b r IHr]; [reflexivity|].
  cbn [mapk ins]. rewrite Hf. destruct (k ?= k').
  - reflexivity.
  - destruct l as [|l1 l2 l3 l4 l5].
    + cbn [mapk]. change (T (leaf (f k) id) (f k') id' b (mapk f r)) with (mapk f (T (leaf k id) k' id' b r)).
      apply link_adjust_mapk.
    + set (L := T l1 l2 l3 l4 l5) in *. 
      replace (mapk f L) with (T (mapk f l1) (f l2) l3 l4 (mapk f l5)) at 1 by reflexivity.
      cbv iota. rewrite IHl. destruct (ins k id L) as [d|l' g tr|]; cbn [map_ires]; try reflexivity.
      destruct g; [|reflexivity].
      change (T (mapk f l') (f k') id' b (mapk f r)) with (mapk f (T l' k' id' b r)).
      apply growth_step_mapk.
  - destruct r as [|r1 r2 r3 r4 r5].
    + cbn [mapk]. change (T (mapk f l) (f k') id' b (leaf (f k) id)) with (mapk f (T l k' id' b (leaf k id))).
      apply link_adjust_mapk.
    + set (R := T r1 r2 r3 r4 r5) in *.
      replace (mapk f R) with (T (mapk f r1) (f r2) r3 r4 (mapk f r5)) at 1 by reflexivity.
      cbv iota. rewrite IHr. destruct (ins k id R) as [d|r' g tr|]; cbn [map_ires]; try reflexivity.
      destruct g; [|reflexivity].
      change (T (mapk f l) (f k') id' b (mapk f r')) with (mapk f (T l k' id' b r')).
      apply growth_step_mapk.
Qed.

Lemma search_mapk : forall k t, search (f k) (mapk f t) = search k t.
Proof.
  intros k. induction t as [|l IHl k' id' b r IHr]; [reflexivity|].
  cbn [mapk search]. rewrite Hf. destruct (k ?= k'); auto.
Qed.

Definition map_rmin (r : option (tree * bool * (Z * Z) * list tag)) :=
  option_map (fun '(t, sh, (k, i), tr) => (mapk f t, sh, (f k, i), tr)) r.

Lemma rem_min_mapk : forall t, rem_min (mapk f t) = map_rmin (rem_min t).
Proof.
  induction t as [|l IHl k i b r _]; [reflexivity|].
  cbn [mapk rem_min]. destruct l as [|l1 l2 l3 l4 l5]; [reflexivity|].
  set (L := T l1 l2 l3 l4 l5) in *.
  replace (mapk f L) with (T (mapk f l1) (f l2) l3 l4 (mapk f l5)) at 1 by reflexivity.
  cbv iota. rewrite IHl. destruct (rem_min L) as [[[[l' sh] [yk yi]] tr]|]; [|reflexivity].
  cbn [map_rmin option_map]. destruct sh; [|reflexivity].
  change (T (mapk f l') (f k) i b (mapk f r)) with (mapk f (T l' k i b r)).
  rewrite handle_shrink_mapk. destruct (handle_shrink 1 (T l' k i b r)) as [[[p' stop] tg]|]; reflexivity.
Qed.

Definition map_rres (r : rres) : rres :=
  match r with
  | RAbsent => RAbsent
  | ROk t sh rid tr => ROk (mapk f t) sh rid tr
  | RErr => RErr
  end.

Lemma shrink_step_mapk : forall s p rid tr,
  shrink_step s (mapk f p) rid tr = map_rres (shrink_step s p rid tr).
Proof.
  intros. unfold shrink_step. rewrite handle_shrink_mapk.
  destruct (handle_shrink s p) as [[[p' stop] tg]|]; reflexivity.
Qed.

Lemma handle_remove_mapk : forall l idx b r,
  handle_remove (mapk f l) idx b (mapk f r) = map_rres (handle_remove l idx b r).
Proof.
  intros l idx b r. unfold handle_remove. destruct r as [|yl ky iy yb yr]; [reflexivity|].
  set (R := T yl ky iy yb yr).
  replace (mapk f R) with (T (mapk f yl) (f ky) iy yb (mapk f yr)) at 1 by reflexivity.
  cbv iota. destruct yl as [|y1 y2 y3 y4 y5].
  - cbn [mapk]. change (T (mapk f l) (f ky) iy b (mapk f yr)) with (mapk f (T l ky iy b yr)).
    apply shrink_step_mapk.
  - replace (mapk f (T y1 y2 y3 y4 y5)) with (T (mapk f y1) (f y2) y3 y4 (mapk f y5)) by reflexivity.
    cbv iota.
    change (T (T (mapk f y1) (f y2) y3 y4 (mapk f y5)) (f ky) iy yb (mapk f yr)) with (mapk f R).
    rewrite rem_min_mapk. destruct (rem_min R) as [[[[r' sh] [yk yi]] tr]|]; [|reflexivity].
    cbn [map_rmin option_map]. destruct sh; [|reflexivity].
    change (T (mapk f l) (f yk) yi b (mapk f r')) with (mapk f (T l yk yi b r')).
    apply shrink_step_mapk.
Qed.

Lemma rem_mapk : forall k t, rem (f k) (mapk f t) = map_rres (rem k t).
Proof.
  intros k. induction t as [|l IHl k' id' b r IHr]; [reflexivity|].
  cbn [mapk rem]. rewrite Hf. destruct (k ?= k').
  - destruct l as [|l1 l2 l3 l4 l5]; destruct r as [|r1 r2 r3 r4 r5]; try reflexivity.
    set (L := T l1 l2 l3 l4 l5). set (R := T r1 r2 r3 r4 r5).
    change (T (mapk f l1) (f l2) l3 l4 (mapk f l5)) with (mapk f L).
    change (T (mapk f r1) (f r2) r3 r4 (mapk f r5)) with (mapk f R).
    replace (mapk f L) with (T (mapk f l1) (f l2) l3 l4 (mapk f l5)) at 1 by reflexivity.
    replace (mapk f R) with (T (mapk f r1) (f r2) r3 r4 (mapk f r5)) at 1 by reflexivity.
    cbv iota. apply handle_remove_mapk.
  - rewrite IHl. destruct (rem k l) as [|l' sh rid tr|]; cbn [map_rres]; try reflexivity.
    destruct sh; [|reflexivity].
    change (T (mapk f l') (f k') id' b (mapk f r)) with (mapk f (T l' k' id' b r)).
    apply shrink_step_mapk.
  - rewrite IHr. destruct (rem k r) as [|r' sh rid tr|]; cbn [map_rres]; try reflexivity.
    destruct sh; [|reflexivity].
    change (T (mapk f l) (f k') id' b (mapk f r')) with (mapk f (T l k' id' b r')).
    apply shrink_step_mapk.
Qed.

Lemma step_mapk : forall t o,
  step (mapk f t) (op_mapk f o) = option_map (fun '(t', ret, tr) => (mapk f t', ret, tr)) (step t o).
Proof.
  intros t [k id|k|k]; cbn [op_mapk step].
  - rewrite ins_mapk. destruct (ins k id t); reflexivity.
  - rewrite rem_mapk. destruct (rem k t); reflexivity.
  - rewrite search_mapk. reflexivity.
Qed.

Lemma run_mapk : forall ops t,
  run (map (op_mapk f) ops) (mapk f t) = option_map (fun '(t', obs) => (mapk f t', obs)) (run ops t).
Proof.
  induction ops as [|o rest IH]; intros t; cbn [map run]; [reflexivity|].
  rewrite step_mapk. destruct (step t o) as [[[t1 ret] tr]|]; [|reflexivity].
  cbn [option_map]. rewrite IH. destruct (run rest t1) as [[t2 obs]|]; reflexivity.
Qed.

End Relabel.

Lemma avl_order_only_proof : forall f, order_preserving f -> forall ops,
  run (map (op_mapk f) ops) E = option_map (fun '(t, obs) => (mapk f t, obs)) (run ops E).
Proof. intros f Hf ops. exact (run_mapk f Hf ops E). Qed.

(* non-vacuity: an order-preserving relabelling that is not the identity *)
Example ex_order_preserving : order_preserving (fun k => 3 * k - 1000).
Proof. intros a b. destruct (Z.compare_spec a b); [subst; apply Z.compare_refl | apply Z.compare_lt_iff; lia | apply Z.compare_gt_iff; lia]. Qed.
