(* C01 -- the pointer level of src/avl.c.

   Part 1: the vocabulary of the heap programs that tools/c2avl.py generates from the C on every run (module Gen.AvlGen):
           cells, the state (heap + root slot), checked reads and writes.
   Part 2: the packed word  parent_ = parent | (factor + 1): the arithmetic facts behind the translator's recognition of
           the five uses of the word (64-bit words, 4-aligned pointers).
   Part 3: [Repr]: a tree of AvlDefs.v laid out in a heap; slots (where a subtree hangs); frame lemmas.
   Part 4: the cell-level descriptions of a single and a double rotation ([rot_cells], [rot2_cells]) and the proof that a
           state matching them represents AvlDefs.rotate / AvlDefs.rotate2 of the tree that was there (with its frame).
   Part 5: balance factors: a_avl_set_factor on the root / a child of a laid-out tree; what a_avl_handle_growth needs.
   Part 6: a_avl_insert_adjust: hand model of the function and of its loop over an abstract a_avl_handle_growth, and the
           proof (by induction on the tree, the loop running bottom-up against the model's recursion) that it turns the
           layout of the tree with the new leaf linked into the layout of AvlDefs.ins's result.
   Part 7: the canonical heap AvlDefs.heap_of (what the correspondence run compares with the C) satisfies [Repr].
   The ties themselves - generated code = these descriptions, for every heap - are in harness/C01/TieAvl.v, re-proved
   against the regenerated module on every run.  This file does not depend on the C. *)
From Coq Require Import ZArith List Bool Lia.
From LibaV Require Import C01.AvlDefs C01.AvlProofs C01.AvlHistory.
Import ListNotations.
Local Open Scope Z_scope.

(* ================================================================== Part 1: vocabulary *)

(* a node object: left, right, parent (None = null) and the balance factor *)
Record pcell : Type := mkC { cl : option Z; cr : option Z; cp : option Z; cf : Z }.

(* the heap (None = not allocated) and the one cell of the tree object, root->node *)
Record state : Type := mkS { hp : Z -> option pcell; rootp : option Z }.

Definition bind {A B : Type} (r : option A) (k : A -> option B) : option B :=
  match r with Some a => k a | None => None end.

Definition upd (h : Z -> option pcell) (i : Z) (c : pcell) : Z -> option pcell :=
  fun j => if j =? i then Some c else h j.

(* checked read of a field: None through a null or unallocated pointer *)
Definition rd {A : Type} (st : state) (F : pcell -> A) (p : option Z) : option A :=
  match p with
  | None => None
  | Some x => match hp st x with None => None | Some c => Some (F c) end
  end.

(* checked update of a cell *)
Definition wr (st : state) (p : option Z) (g : pcell -> pcell) : option state :=
  match p with
  | None => None
  | Some x => match hp st x with None => None | Some c => Some (mkS (upd (hp st) x (g c)) (rootp st)) end
  end.

Definition with_l (v : option Z) (c : pcell) : pcell := mkC v (cr c) (cp c) (cf c).
Definition with_r (v : option Z) (c : pcell) : pcell := mkC (cl c) v (cp c) (cf c).
Definition with_p (v : option Z) (c : pcell) : pcell := mkC (cl c) (cr c) v (cf c).
Definition with_f (f : Z) (c : pcell) : pcell := mkC (cl c) (cr c) (cp c) f.

Definition wr_l (st : state) (p v : option Z) : option state := wr st p (with_l v).
Definition wr_r (st : state) (p v : option Z) : option state := wr st p (with_r v).
Definition wr_p (st : state) (p v : option Z) : option state := wr st p (with_p v).

(* a stored balance factor must be -1, 0 or 1 (AvlDefs.add_factor's error; in the packed layout anything else is the
   undefined code 3 or damages the pointer bits) *)
Definition factor_ok (f : Z) : bool := (-1 <=? f) && (f <=? 1).
Definition wr_f (st : state) (p : option Z) (f : Z) : option state :=
  if factor_ok f then wr st p (with_f f) else None.

Definition set_root (st : state) (v : option Z) : state := mkS (hp st) v.
Definition nonnull (p : option Z) : bool := match p with Some _ => true | None => false end.
Definition oid_eqb (p q : option Z) : bool :=
  match p, q with
  | None, None => true
  | Some x, Some y => x =? y
  | _, _ => false
  end.

(* field selection / update by sign, as a_avl_child / a_avl_set_child do it *)
Definition sel (s : Z) (c : pcell) : option Z := if s <? 0 then cl c else cr c.
Definition with_sel (s : Z) (v : option Z) (c : pcell) : pcell := if s <? 0 then with_l v c else with_r v c.

(* ---- hand models of the helpers (the generated helpers are proved equal to these for every state and argument) *)
Definition m_parent (st : state) (x : option Z) : option (option Z) := rd st cp x.
Definition m_factor (st : state) (x : option Z) : option Z := rd st cf x.
Definition m_child (st : state) (x : option Z) (s : Z) : option (option Z) := rd st (sel s) x.
Definition m_set_child (st : state) (x v : option Z) (s : Z) : option state := wr st x (with_sel s v).
Definition m_set_parent (st : state) (x v : option Z) : option state := wr st x (with_p v).
Definition m_set_parent_factor (st : state) (x v : option Z) (f : Z) : option state :=
  if factor_ok f then wr st x (fun c => with_f f (with_p v c)) else None.
Definition m_add_factor (st : state) (x : option Z) (amount : Z) : option state :=
  match rd st cf x with
  | None => None
  | Some f => if factor_ok (f + amount) then wr st x (with_f (f + amount)) else None
  end.
Definition m_new_child (st : state) (parent old new : option Z) : option state :=
  match parent with
  | None => Some (mkS (hp st) new)
  | Some q =>
    match hp st q with
    | None => None
    | Some c => if oid_eqb (cl c) old then Some (mkS (upd (hp st) q (with_l new c)) (rootp st))
                else Some (mkS (upd (hp st) q (with_r new c)) (rootp st))
    end
  end.

(* ---- basic facts *)
Lemma upd_same : forall h i c, upd h i c i = Some c.
Proof. intros. unfold upd. rewrite Z.eqb_refl. reflexivity. Qed.

Lemma upd_other : forall h i c j, j <> i -> upd h i c j = h j.
Proof. intros h i c j H. unfold upd. destruct (Z.eqb_spec j i); [contradiction|reflexivity]. Qed.

Lemma bind_rd : forall (A B : Type) st (F : pcell -> A) x c (K : A -> option B),
  hp st x = Some c -> bind (rd st F (Some x)) K = K (F c).
Proof. intros A B st F x c K H. unfold bind, rd. rewrite H. reflexivity. Qed.

Lemma bind_wr : forall (B : Type) st g x c (K : state -> option B),
  hp st x = Some c -> bind (wr st (Some x) g) K = K (mkS (upd (hp st) x (g c)) (rootp st)).
Proof. intros B st g x c K H. unfold bind, wr. rewrite H. reflexivity. Qed.

Lemma bind_assoc : forall (A B C : Type) (r : option A) (f : A -> option B) (g : B -> option C),
  bind (bind r f) g = bind r (fun x => bind (f x) g).
Proof. intros A B C [a|] f g; reflexivity. Qed.

Lemma bind_some : forall (A B : Type) (a : A) (K : A -> option B), bind (Some a) K = K a.
Proof. reflexivity. Qed.

Lemma bind_wr_f : forall (B : Type) st f x c (K : state -> option B),
  (-1 <=? f) && (f <=? 1) = true -> hp st x = Some c ->
  bind (wr_f st (Some x) f) K = K (mkS (upd (hp st) x (with_f f c)) (rootp st)).
Proof. intros B st f x c K Hf H. unfold wr_f, factor_ok. rewrite Hf. apply bind_wr. exact H. Qed.

Lemma oid_eqb_refl : forall p, oid_eqb p p = true.
Proof. destruct p; cbn; [apply Z.eqb_refl|reflexivity]. Qed.

Lemma oid_eqb_eq : forall p q, oid_eqb p q = true <-> p = q.
Proof.
  destruct p, q; cbn; split; intros H; try discriminate; try reflexivity.
  - apply Z.eqb_eq in H. congruence.
  - injection H as ->. apply Z.eqb_refl.
Qed.

(* states that hold the same cells (the heap is a function: two orders of writing give equal functions only pointwise) *)
Definition steq (s1 s2 : state) : Prop := rootp s1 = rootp s2 /\ forall j, hp s1 j = hp s2 j.
Definition osteq (r1 r2 : option state) : Prop :=
  match r1, r2 with
  | Some s1, Some s2 => steq s1 s2
  | None, None => True
  | _, _ => False
  end.

(* ================================================================== Part 2: the packed word *)

(* The word parent_ of a node with parent pointer p (an address: 0 <= p < 2^64, a multiple of 4, 0 = null) and tag
   t = factor + 1 (0..2; 3 is the undefined code) is p + t.  C's operations on a_uptr (unsigned, 64 bits): x & y = Z.land,
   x | y = Z.lor, ~x = 2^64 - 1 - x, x + y = (x + y) mod 2^64, (a_uptr)i for an int i = i mod 2^64. *)
Section PackedWord.
  Let W : Z := 2 ^ 64.

  Lemma pw_tag : forall p t, p mod 4 = 0 -> 0 <= p -> 0 <= t < 4 -> Z.land (p + t) 3 = t.
  Proof.
    intros p t Hp H0 Ht. change 3 with (Z.ones 2). rewrite Z.land_ones by lia. change (2 ^ 2) with 4.
    rewrite Z.add_mod, Hp by lia. cbn [Z.add]. rewrite Z.mod_mod by lia. apply Z.mod_small. lia.
  Qed.

  Lemma land_split : forall w, 0 <= w < W -> Z.land w (W - 1 - 3) + Z.land w 3 = w.
  Proof.
    intros w Hw.
    assert (Hd : Z.land (Z.land w (W - 1 - 3)) (Z.land w 3) = 0).
    { rewrite (Z.land_comm w 3), Z.land_assoc, <- (Z.land_assoc w). change (Z.land (W - 1 - 3) 3) with 0.
      rewrite Z.land_0_r. apply Z.land_0_l. }
    rewrite (Z.add_nocarry_lxor _ _ Hd), (Z.lxor_lor _ _ Hd), <- Z.land_lor_distr_r.
    change (Z.lor (W - 1 - 3) 3) with (Z.ones 64). rewrite Z.land_ones by lia. apply Z.mod_small. exact Hw.
  Qed.

  (* (a_avl_node * )(w & ~(a_uptr)3) *)
  Lemma pw_parent : forall p t, p mod 4 = 0 -> 0 <= p -> 0 <= t < 4 -> p + t < W -> Z.land (p + t) (W - 1 - 3) = p.
  Proof.
    intros p t Hp H0 Ht Hw. pose proof (land_split (p + t) ltac:(lia)) as H. rewrite pw_tag in H by assumption. lia.
  Qed.

  (* (a_uptr)parent | (a_uptr)(factor + 1) *)
  Lemma pw_make : forall p t, p mod 4 = 0 -> 0 <= p -> 0 <= t < 4 -> Z.lor p t = p + t.
  Proof.
    intros p t Hp H0 Ht.
    assert (Hd : Z.land p t = 0).
    { replace t with (Z.land t 3) by (change 3 with (Z.ones 2); rewrite Z.land_ones by lia; apply Z.mod_small; change (2 ^ 2) with 4; lia).
      rewrite (Z.land_comm t 3), Z.land_assoc. replace (Z.land p 3) with 0; [apply Z.land_0_l|].
      change 3 with (Z.ones 2). rewrite Z.land_ones by lia. change (2 ^ 2) with 4. lia. }
    rewrite (Z.add_nocarry_lxor _ _ Hd), (Z.lxor_lor _ _ Hd). reflexivity.
  Qed.

  (* (a_uptr)parent | (w & 3): the new pointer with the old tag *)
  Lemma pw_set_parent : forall p' p t, p' mod 4 = 0 -> 0 <= p' -> p mod 4 = 0 -> 0 <= p -> 0 <= t < 4 ->
    Z.lor p' (Z.land (p + t) 3) = p' + t.
  Proof. intros. rewrite pw_tag by assumption. apply pw_make; assumption. Qed.

  (* w += (a_uptr)amount: exact on the tag, the pointer untouched, as long as the tag stays inside its two bits *)
  Lemma pw_add : forall p t a, p mod 4 = 0 -> 0 <= p -> p + 3 < W -> 0 <= t < 4 -> - W < a < W -> 0 <= t + a < 4 ->
    ((p + t) + a mod W) mod W = p + (t + a).
  Proof.
    intros p t a Hp H0 Hw Ht Ha Hta. rewrite Z.add_mod_idemp_r by (subst W; lia).
    replace (p + t + a) with (p + (t + a)) by lia. apply Z.mod_small. lia.
  Qed.

  (* ... and when it does not, the pointer bits change: the C would corrupt the parent link (the model: an error) *)
  Lemma pw_add_overflow : forall p t a, p mod 4 = 0 -> 0 <= p -> p + 3 < W -> 0 <= t < 4 -> -4 < a < 4 -> ~ (0 <= t + a < 4) ->
    Z.land (((p + t) + a mod W) mod W) (W - 1 - 3) <> p.
  Proof.
    intros p t a Hp H0 Hw Ht Ha Hta. rewrite Z.add_mod_idemp_r by (subst W; lia).
    set (w := (p + t + a) mod W).
    assert (Hwr : 0 <= w < W) by (apply Z.mod_pos_bound; subst W; lia).
    pose proof (land_split w Hwr) as Hs. intros Heq. rewrite Heq in Hs.
    assert (Hl : 0 <= Z.land w 3 < 4).
    { change 3 with (Z.ones 2). rewrite Z.land_ones by lia. apply Z.mod_pos_bound. lia. }
    (* w = p + (land w 3) with the latter in 0..3, but w = p + t + a modulo W with t + a outside 0..3 and within -3..6 *)
    pose proof (Z.div_mod (p + t + a) W ltac:(subst W; lia)) as Hdm. fold w in Hdm.
    set (q := (p + t + a) / W) in Hdm.
    assert (Hp4 : exists k, p = 4 * k) by (exists (p / 4); pose proof (Z.div_mod p 4 ltac:(lia)); lia).
    destruct Hp4 as [k Hk].
    assert (HW4 : W = 18446744073709551616) by reflexivity.
    rewrite HW4 in *. lia.
  Qed.
End PackedWord.

(* ================================================================== Part 3: trees laid out in a heap *)

(* the node ids of a tree; all distinct *)
Fixpoint has (t : tree) (j : Z) : Prop :=
  match t with
  | E => False
  | T l _ i _ r => j = i \/ has l j \/ has r j
  end.

Fixpoint distinct (t : tree) : Prop :=
  match t with
  | E => True
  | T l _ i _ r => ~ has l i /\ ~ has r i /\ (forall j, has l j -> has r j -> False) /\ distinct l /\ distinct r
  end.

Lemma ids_node : forall l k i f r, ids (T l k i f r) = ids l ++ i :: ids r.
Proof. intros. unfold ids. cbn [elements]. rewrite map_app. reflexivity. Qed.

Lemma has_ids : forall t j, has t j <-> In j (ids t).
Proof.
  induction t as [|l IHl k i f r IHr]; intros j; [cbn; tauto|].
  rewrite ids_node, in_app_iff. cbn [has In]. rewrite IHl, IHr. intuition congruence.
Qed.

Lemma nodup_app_iff : forall (xs ys : list Z),
  NoDup (xs ++ ys) <-> NoDup xs /\ NoDup ys /\ (forall x, In x xs -> In x ys -> False).
Proof.
  induction xs as [|a xs IH]; intros ys; cbn [app].
  - split; [intros H; repeat split; [constructor|exact H|intros x []] | intros [_ [H _]]; exact H].
  - split.
    + intros H. inversion H as [|? ? Ha Hn]; subst. apply IH in Hn. destruct Hn as [H1 [H2 H3]].
      repeat split; auto.
      * constructor; auto. intros Hin. apply Ha. apply in_or_app. auto.
      * intros x [<-|Hx] Hy; [apply Ha; apply in_or_app; auto | eauto].
    + intros [H1 [H2 H3]]. inversion H1 as [|? ? Ha Hn]; subst. constructor.
      * intros Hin. apply in_app_or in Hin. destruct Hin; [auto | apply (H3 a); cbn; auto].
      * apply IH. repeat split; auto. intros x Hx Hy. apply (H3 x); cbn; auto.
Qed.

Lemma distinct_ids : forall t, distinct t <-> NoDup (ids t).
Proof.
  induction t as [|l IHl k i f r IHr]; [cbn; split; [constructor|trivial]|].
  rewrite ids_node, nodup_app_iff. cbn [distinct]. rewrite IHl, IHr. split.
  - intros (H1 & H2 & H3 & H4 & H5). split; [exact H4|]. split.
    + constructor; [rewrite <- has_ids; exact H2|exact H5].
    + intros x Hx [<-|Hy]; [apply H1; apply has_ids; exact Hx | apply (H3 x); apply has_ids; assumption].
  - intros (H1 & H2 & H3). inversion H2 as [|? ? Hi Hr]; subst. split; [|split; [|split; [|split]]].
    + intros Hl. apply (H3 i); [apply has_ids; exact Hl | cbn; auto].
    + rewrite has_ids. exact Hi.
    + intros j Hj Hj'. apply (H3 j); [apply has_ids; exact Hj | cbn; right; apply has_ids; exact Hj'].
    + exact H1.
    + exact Hr.
Qed.

(* [Repr h p t]: tree t is laid out in heap h, its root's parent field being p.  Keys live in the user's enclosing
   structure, not in the node object: the heap says nothing about them. *)
Fixpoint Repr (h : Z -> option pcell) (p : option Z) (t : tree) : Prop :=
  match t with
  | E => True
  | T l _ i f r => h i = Some (mkC (root_id l) (root_id r) p f) /\ Repr h (Some i) l /\ Repr h (Some i) r
  end.

(* frame: the representation depends on the cells of the tree's own nodes only *)
Lemma Repr_ext : forall t h h' p, (forall j, has t j -> h' j = h j) -> Repr h p t -> Repr h' p t.
Proof.
  induction t as [|l IHl k i f r IHr]; intros h h' p Hx Hr; [exact I|].
  cbn [Repr] in *. destruct Hr as (Hi & Hl & Hr). repeat split.
  - rewrite Hx by (cbn; auto). exact Hi.
  - apply (IHl h); [intros j Hj; apply Hx; cbn; auto | exact Hl].
  - apply (IHr h); [intros j Hj; apply Hx; cbn; auto | exact Hr].
Qed.

(* re-parenting: only the root cell mentions the parent *)
Lemma Repr_reparent : forall t h h' p p', distinct t -> Repr h p t ->
  (forall i, root_id t = Some i -> exists c, h i = Some c /\ h' i = Some (with_p p' c)) ->
  (forall j, has t j -> root_id t <> Some j -> h' j = h j) ->
  Repr h' p' t.
Proof.
  intros [|l k i f r] h h' p p' Hd Hr Hroot Hrest; [exact I|].
  cbn [Repr distinct] in *. destruct Hr as (Hi & Hl & Hr). destruct Hd as (Hil & Hir & _ & _ & _).
  destruct (Hroot i eq_refl) as (c & Hc & Hc'). rewrite Hi in Hc. injection Hc as <-.
  repeat split.
  - exact Hc'.
  - apply (Repr_ext l h); [|exact Hl]. intros j Hj. apply Hrest; [cbn; auto|]. cbn. intros [= ->]. contradiction.
  - apply (Repr_ext r h); [|exact Hr]. intros j Hj. apply Hrest; [cbn; auto|]. cbn. intros [= ->]. contradiction.
Qed.

Lemma Repr_root : forall h p t i, Repr h p t -> root_id t = Some i -> exists c, h i = Some c /\ cp c = p.
Proof.
  intros h p [|l k i0 f r] i Hr Hi; [discriminate|]. cbn in Hi. injection Hi as ->.
  cbn [Repr] in Hr. destruct Hr as (Hi & _). eexists. split; [exact Hi|reflexivity].
Qed.

Lemma root_has : forall t i, root_id t = Some i -> has t i.
Proof. intros [|l k i0 f r] i H; [discriminate|]. cbn in *. left. congruence. Qed.

(* ---- slots: where a subtree hangs - the root slot of the tree object or a child field of a parent cell *)
Inductive slot : Type := SRoot | SLeft (q : Z) | SRight (q : Z).

Definition slot_parent (sl : slot) : option Z :=
  match sl with SRoot => None | SLeft q => Some q | SRight q => Some q end.

(* the slot holds v.  a_avl_new_child finds the field to overwrite by testing `parent->left == node` first: for a right
   slot the left field must hold something else (true in a tree: v is non-null and the children of a node are distinct) *)
Definition slot_at (st : state) (sl : slot) (v : option Z) : Prop :=
  match sl with
  | SRoot => rootp st = v
  | SLeft q => exists c, hp st q = Some c /\ cl c = v
  | SRight q => exists c, hp st q = Some c /\ cr c = v /\ cl c <> v
  end.

Definition slot_set (st : state) (sl : slot) (v : option Z) : state :=
  match sl with
  | SRoot => mkS (hp st) v
  | SLeft q => match hp st q with Some c => mkS (upd (hp st) q (with_l v c)) (rootp st) | None => st end
  | SRight q => match hp st q with Some c => mkS (upd (hp st) q (with_r v c)) (rootp st) | None => st end
  end.

(* what a_avl_new_child does to a slot *)
Lemma m_new_child_slot : forall st sl old v, slot_at st sl old -> m_new_child st (slot_parent sl) old v = Some (slot_set st sl v).
Proof.
  intros st [|q|q] old v H; cbn [slot_at slot_parent m_new_child slot_set] in *.
  - reflexivity.
  - destruct H as (c & Hc & Hl). rewrite Hc, Hl, oid_eqb_refl. reflexivity.
  - destruct H as (c & Hc & Hr & Hl). rewrite Hc.
    destruct (oid_eqb (cl c) old) eqn:Eo; [apply oid_eqb_eq in Eo; contradiction|reflexivity].
Qed.

(* a write elsewhere leaves the slot alone and commutes with setting it *)
Lemma slot_at_upd : forall h r sl v x c, slot_parent sl <> Some x -> slot_at (mkS h r) sl v -> slot_at (mkS (upd h x c) r) sl v.
Proof.
  intros h r [|q|q] v x c Hq H; cbn [slot_at slot_parent hp rootp] in *; [exact H| |];
    (rewrite upd_other by congruence; exact H).
Qed.

Lemma hp_slot_set_upd : forall h r sl v x c j, slot_parent sl <> Some x ->
  hp (slot_set (mkS (upd h x c) r) sl v) j = upd (hp (slot_set (mkS h r) sl v)) x c j.
Proof.
  intros h r [|q|q] v x c j Hq; cbn [slot_set slot_parent hp rootp] in *; [reflexivity| |];
    (rewrite upd_other by congruence; destruct (h q) as [cq|]; cbn [hp]; [|reflexivity];
     unfold upd; destruct (Z.eqb_spec j q), (Z.eqb_spec j x); try reflexivity; congruence).
Qed.

Lemma hp_slot_set_upd_if : forall h r sl v x c j, slot_parent sl <> Some x ->
  hp (slot_set (mkS (upd h x c) r) sl v) j = if j =? x then Some c else hp (slot_set (mkS h r) sl v) j.
Proof. intros. rewrite hp_slot_set_upd by assumption. reflexivity. Qed.

Lemma hp_slot_set_upd_if' : forall h r sl v x c j, slot_parent sl <> Some x ->
  hp (slot_set (mkS (fun j' => if j' =? x then Some c else h j') r) sl v) j = if j =? x then Some c else hp (slot_set (mkS h r) sl v) j.
Proof. exact hp_slot_set_upd_if. Qed.

Lemma rootp_slot_set_upd : forall h r sl v x c, rootp (slot_set (mkS (upd h x c) r) sl v) = rootp (slot_set (mkS h r) sl v).
Proof.
  intros h r [|q|q] v x c; cbn [slot_set hp rootp]; [reflexivity| |];
    (unfold upd at 1; destruct (Z.eqb_spec q x); [subst; destruct (h x)|destruct (h q)]; reflexivity).
Qed.

Lemma hp_slot_set_other : forall st sl v j, slot_parent sl <> Some j -> hp (slot_set st sl v) j = hp st j.
Proof.
  intros st [|q|q] v j Hq; cbn [slot_set slot_parent] in *; [reflexivity| |];
    (destruct (hp st q); cbn [hp]; [apply upd_other; congruence|reflexivity]).
Qed.

(* two states agree outside a set of nodes *)
Definition agree_outside (t : tree) (s1 s2 : state) : Prop :=
  rootp s1 = rootp s2 /\ forall j, ~ has t j -> hp s1 j = hp s2 j.

(* ================================================================== Part 4: the rotations, cell by cell *)

Definition reparent (x p : option Z) (h : Z -> option pcell) : Z -> option pcell :=
  match x with
  | None => h
  | Some e => match h e with Some c => upd h e (with_p p c) | None => h end
  end.

Lemma reparent_other : forall x p h j, x <> Some j -> reparent x p h j = h j.
Proof.
  intros [e|] p h j H; cbn [reparent]; [|reflexivity].
  destruct (h e); [apply upd_other; congruence|reflexivity].
Qed.

Lemma reparent_same : forall e p h c, h e = Some c -> reparent (Some e) p h e = Some (with_p p c).
Proof. intros e p h c H. cbn [reparent]. rewrite H. apply upd_same. Qed.

(* ---------------------------------------------------------------- single rotation
   a_avl_rotate(root, A, s) with B = child(A, -s), E = child(B, s):
     A: child(-s) := E, parent := B;   B: child(s) := A, parent := A's old parent;   E (if any): parent := A;
     the slot A hung from := B. *)
Definition rot_cells (st : state) (sl : slot) (a b : Z) (ca cb : pcell) (s : Z) : Z -> option pcell :=
  upd (upd (reparent (sel s cb) (Some a) (hp (slot_set st sl (Some b))))
           a (with_sel (- s) (sel s cb) (with_p (Some b) ca)))
      b (with_sel s (Some a) (with_p (cp ca) cb)).

(* what the code needs to know about the heap: the cells it touches *)
Record RotPre (st : state) (sl : slot) (a b : Z) (ca cb : pcell) (s : Z) : Prop := mkRotPre {
  rp_ab : a <> b;
  rp_a : hp st a = Some ca;
  rp_b : hp st b = Some cb;
  rp_child : sel (- s) ca = Some b;
  rp_par : cp ca = slot_parent sl;
  rp_slot : slot_at st sl (Some a);
  rp_qa : slot_parent sl <> Some a;
  rp_qb : slot_parent sl <> Some b;
  rp_e : forall e, sel s cb = Some e -> e <> a /\ e <> b /\ slot_parent sl <> Some e /\ exists ce, hp st e = Some ce }.

Definition RotPost (st : state) (sl : slot) (a b : Z) (ca cb : pcell) (s : Z) (st' : state) : Prop :=
  rootp st' = rootp (slot_set st sl (Some b)) /\ forall j, hp st' j = rot_cells st sl a b ca cb s j.

Lemma rot_cells_a : forall st sl a b ca cb s, a <> b ->
  rot_cells st sl a b ca cb s a = Some (with_sel (- s) (sel s cb) (with_p (Some b) ca)).
Proof. intros. unfold rot_cells. rewrite upd_other by assumption. apply upd_same. Qed.

Lemma rot_cells_b : forall st sl a b ca cb s,
  rot_cells st sl a b ca cb s b = Some (with_sel s (Some a) (with_p (cp ca) cb)).
Proof. intros. unfold rot_cells. apply upd_same. Qed.

Lemma rot_cells_e : forall st sl a b ca cb s e ce, e <> a -> e <> b -> slot_parent sl <> Some e ->
  sel s cb = Some e -> hp st e = Some ce ->
  rot_cells st sl a b ca cb s e = Some (with_p (Some a) ce).
Proof.
  intros st sl a b ca cb s e ce Ha Hb Hq He Hce. unfold rot_cells. rewrite !upd_other by assumption.
  rewrite He. apply reparent_same. rewrite hp_slot_set_other by assumption. exact Hce.
Qed.

Lemma rot_cells_other : forall st sl a b ca cb s j, j <> a -> j <> b -> sel s cb <> Some j ->
  rot_cells st sl a b ca cb s j = hp (slot_set st sl (Some b)) j.
Proof. intros. unfold rot_cells. rewrite !upd_other by assumption. apply reparent_other. assumption. Qed.

(* the hypotheses of the rotation theorems, at tree level *)
Definition Hangs (st : state) (sl : slot) (A : tree) : Prop :=
  distinct A /\ (forall q, slot_parent sl = Some q -> ~ has A q) /\
  Repr (hp st) (slot_parent sl) A /\ slot_at st sl (root_id A).

Lemma rotate_pre : forall st sl A s A',
  (s = 1 \/ s = -1) -> Hangs st sl A -> rotate A s = Some A' ->
  exists a b ca cb, root_id A = Some a /\ root_id A' = Some b /\ RotPre st sl a b ca cb s.
Proof.
  intros st sl A s A' Hs (Hd & Hq & Hr & Hsl) Hrot.
  destruct A as [|l k a f r]; [discriminate|].
  destruct Hs; subst s; cbn [rotate child Z.opp Z.ltb Z.compare Pos.compare] in Hrot.
  - (* s = 1: B is the left child *)
    destruct l as [|bl bk b bf br]; [discriminate|]. injection Hrot as <-.
    cbn [Repr] in Hr. destruct Hr as (Ha & (Hb & Hbl & Hbr) & Hrr).
    cbn [distinct has] in Hd. destruct Hd as (Hal & Har & Hlr & (Hbbl & Hbbr & Hblbr & Hdbl & Hdbr) & Hdr).
    exists a, b, (mkC (Some b) (root_id r) (slot_parent sl) f), (mkC (root_id bl) (root_id br) (Some a) bf).
    split; [reflexivity|]. split; [reflexivity|].
    assert (Hab : a <> b) by (intros ->; apply Hal; auto).
    constructor; try assumption; try reflexivity.
    + destruct (slot_parent sl) as [q|] eqn:Eq; [|discriminate]. intros [= ->]. apply (Hq a eq_refl). cbn; auto.
    + destruct (slot_parent sl) as [q|] eqn:Eq; [|discriminate]. intros [= ->]. apply (Hq b eq_refl). cbn; auto.
    + intros e He. cbn in He. pose proof (root_has _ _ He) as Hhe.
      destruct (Repr_root _ _ _ _ Hbr He) as (ce & Hce & _).
      split; [intros ->; apply Hal; cbn; auto|]. split; [intros ->; contradiction|].
      split; [|eauto]. destruct (slot_parent sl) as [q|] eqn:Eq; [|discriminate]. intros [= ->].
      apply (Hq e eq_refl). cbn; auto.
  - (* s = -1: B is the right child *)
    destruct r as [|bl bk b bf br]; [discriminate|]. injection Hrot as <-.
    cbn [Repr] in Hr. destruct Hr as (Ha & Hll & (Hb & Hbl & Hbr)).
    cbn [distinct has] in Hd. destruct Hd as (Hal & Har & Hlr & Hdl & (Hbbl & Hbbr & Hblbr & Hdbl & Hdbr)).
    exists a, b, (mkC (root_id l) (Some b) (slot_parent sl) f), (mkC (root_id bl) (root_id br) (Some a) bf).
    split; [reflexivity|]. split; [reflexivity|].
    assert (Hab : a <> b) by (intros ->; apply Har; auto).
    constructor; try assumption; try reflexivity.
    + destruct (slot_parent sl) as [q|] eqn:Eq; [|discriminate]. intros [= ->]. apply (Hq a eq_refl). cbn; auto.
    + destruct (slot_parent sl) as [q|] eqn:Eq; [|discriminate]. intros [= ->]. apply (Hq b eq_refl). cbn; auto.
    + intros e He. cbn in He. pose proof (root_has _ _ He) as Hhe.
      destruct (Repr_root _ _ _ _ Hbl He) as (ce & Hce & _).
      split; [intros ->; apply Har; cbn; auto|]. split; [intros ->; contradiction|].
      split; [|eauto]. destruct (slot_parent sl) as [q|] eqn:Eq; [|discriminate]. intros [= ->].
      apply (Hq e eq_refl). cbn; auto.
Qed.

(* membership goals from the distinctness facts in the context *)
Ltac dj :=
  solve [ cbn [has] in *; intuition (subst; eauto 10; congruence)
        | cbn [has] in *; let X := fresh in intros X; try (apply root_has in X); intuition (subst; eauto 10; congruence) ].

Lemma q_out : forall sl A j, (forall q, slot_parent sl = Some q -> ~ has A q) -> has A j -> slot_parent sl <> Some j.
Proof. intros sl A j Hq Hj Heq. exact (Hq j Heq Hj). Qed.

Lemma rotate_post : forall st sl A s A' a b ca cb st',
  (s = 1 \/ s = -1) -> Hangs st sl A -> rotate A s = Some A' -> root_id A = Some a ->
  RotPre st sl a b ca cb s -> RotPost st sl a b ca cb s st' ->
  Repr (hp st') (slot_parent sl) A' /\ agree_outside A st' (slot_set st sl (root_id A')).
Proof.
  intros st sl A s A' a b ca cb st' Hs (Hd & Hq & Hr & Hsl) Hrot Hra Pre (Hroot & Hcells).
  destruct A as [|l k a0 f r]; [discriminate|]. cbn in Hra. injection Hra as ->.
  destruct Pre as [Hab Hca Hcb Hch _ _ Hqa Hqb He].
  destruct Hs; subst s; cbn [rotate child Z.opp Z.ltb Z.compare Pos.compare] in Hrot.
  - destruct l as [|bl bk b0 bf br]; [discriminate|]. injection Hrot as <-.
    cbn [Repr] in Hr. destruct Hr as (Ha & (Hb & Hbl & Hbr) & Hrr).
    rewrite Ha in Hca. injection Hca as <-. cbn in Hch. injection Hch as ->.
    rewrite Hb in Hcb. injection Hcb as <-.
    cbn [distinct] in Hd. destruct Hd as (Hal & Har & Hlr & (Hbbl & Hbbr & Hblbr & Hdbl & Hdbr) & Hdr).
    assert (Hq' : forall j, has (T (T bl bk b bf br) k a f r) j -> slot_parent sl <> Some j) by (intros j; apply q_out; exact Hq).
    split.
    + cbn [Repr]. repeat split.
      * rewrite Hcells, rot_cells_b. reflexivity.
      * apply (Repr_ext bl (hp st)); [|exact Hbl]. intros j Hj.
        rewrite Hcells, rot_cells_other, hp_slot_set_other; [reflexivity|apply Hq'; dj|dj|dj|cbn; dj].
      * rewrite Hcells, rot_cells_a by exact Hab. reflexivity.
      * apply (Repr_reparent br (hp st) _ (Some b)); [exact Hdbr|exact Hbr| |].
        -- intros e Hre. destruct (Repr_root _ _ _ _ Hbr Hre) as (ce & Hce & _). exists ce. split; [exact Hce|].
           pose proof (root_has _ _ Hre) as Hhe.
           rewrite Hcells. apply rot_cells_e; [dj|dj|apply Hq'; dj|exact Hre|exact Hce].
        -- intros j Hj Hne. rewrite Hcells, rot_cells_other, hp_slot_set_other; [reflexivity|apply Hq'; dj|dj|dj|exact Hne].
      * apply (Repr_ext r (hp st)); [|exact Hrr]. intros j Hj.
        rewrite Hcells, rot_cells_other, hp_slot_set_other; [reflexivity|apply Hq'; dj|dj|dj|cbn; dj].
    + split; [exact Hroot|]. intros j Hj. rewrite Hcells. apply rot_cells_other; [dj|dj|cbn; dj].
  - destruct r as [|bl bk b0 bf br]; [discriminate|]. injection Hrot as <-.
    cbn [Repr] in Hr. destruct Hr as (Ha & Hll & (Hb & Hbl & Hbr)).
    rewrite Ha in Hca. injection Hca as <-. cbn in Hch. injection Hch as ->.
    rewrite Hb in Hcb. injection Hcb as <-.
    cbn [distinct] in Hd. destruct Hd as (Hal & Har & Hlr & Hdl & (Hbbl & Hbbr & Hblbr & Hdbl & Hdbr)).
    assert (Hq' : forall j, has (T l k a f (T bl bk b bf br)) j -> slot_parent sl <> Some j) by (intros j; apply q_out; exact Hq).
    split.
    + cbn [Repr]. repeat split.
      * rewrite Hcells, rot_cells_b. reflexivity.
      * rewrite Hcells, rot_cells_a by exact Hab. reflexivity.
      * apply (Repr_ext l (hp st)); [|exact Hll]. intros j Hj.
        rewrite Hcells, rot_cells_other, hp_slot_set_other; [reflexivity|apply Hq'; dj|dj|dj|cbn; dj].
      * apply (Repr_reparent bl (hp st) _ (Some b)); [exact Hdbl|exact Hbl| |].
        -- intros e Hre. destruct (Repr_root _ _ _ _ Hbl Hre) as (ce & Hce & _). exists ce. split; [exact Hce|].
           pose proof (root_has _ _ Hre) as Hhe.
           rewrite Hcells. apply rot_cells_e; [dj|dj|apply Hq'; dj|exact Hre|exact Hce].
        -- intros j Hj Hne. rewrite Hcells, rot_cells_other, hp_slot_set_other; [reflexivity|apply Hq'; dj|dj|dj|exact Hne].
      * apply (Repr_ext br (hp st)); [|exact Hbr]. intros j Hj.
        rewrite Hcells, rot_cells_other, hp_slot_set_other; [reflexivity|apply Hq'; dj|dj|dj|cbn; dj].
    + split; [exact Hroot|]. intros j Hj. rewrite Hcells. apply rot_cells_other; [dj|dj|cbn; dj].
Qed.

Lemma reparent_some : forall e p h c, h e = Some c -> reparent (Some e) p h = upd h e (with_p p c).
Proof. intros e p h c H. cbn [reparent]. rewrite H. reflexivity. Qed.

(* the nodes of a rotated tree are the nodes of the tree *)
Lemma rotate_nodes : forall A s A', (s = 1 \/ s = -1) -> rotate A s = Some A' ->
  (forall j, has A' j <-> has A j) /\ (distinct A -> distinct A').
Proof.
  intros [|l k a f r] s A' Hs H; [discriminate|].
  destruct Hs; subst s; cbn [rotate child set_child Z.opp Z.ltb Z.compare Pos.compare] in H.
  - destruct l as [|bl bk b bf br]; [discriminate|]. cbn [child set_child Z.opp Z.ltb Z.compare Pos.compare] in H. injection H as <-.
    split; [intros j; cbn [has]; tauto|]. cbn [distinct has]. intros (H1 & H2 & H3 & (H4 & H5 & H6 & H7 & H8) & H9).
    repeat split; auto; try tauto.
    + intros [->|[Hx|Hx]]; [tauto|tauto|]. apply (H3 b); tauto.
    + intros j Hj [->|[Hx|Hx]]; [tauto|eauto|]. apply (H3 j); tauto.
    + intros j Hj Hj'. apply (H3 j); tauto.
  - destruct r as [|bl bk b bf br]; [discriminate|]. cbn [child set_child Z.opp Z.ltb Z.compare Pos.compare] in H. injection H as <-.
    split; [intros j; cbn [has]; tauto|]. cbn [distinct has]. intros (H1 & H2 & H3 & H9 & (H4 & H5 & H6 & H7 & H8)).
    repeat split; auto; try tauto.
    + intros [->|[Hx|Hx]]; [tauto| |tauto]. apply (H3 b); tauto.
    + intros j [->|[Hx|Hx]] Hj; [tauto| |eauto]. apply (H3 j); tauto.
    + intros j Hj Hj'. apply (H3 j); tauto.
Qed.

(* ---------------------------------------------------------------- double rotation
   a_avl_rotate2(root, B, A, s) with B = child(A, -s), E = child(B, s), F = child(E, -s), G = child(E, s), e = factor(E):
     A: child(-s) := G, parent := E, factor := (s * e >= 0 ? 0 : -e);
     B: child(s) := F,  parent := E, factor := (s * e <= 0 ? 0 : -e);
     E: child(s) := A, child(-s) := B, parent := A's old parent, factor := 0;
     F (if any): parent := B;  G (if any): parent := A;  the slot A hung from := E. *)
Definition rot2_fa (s e : Z) : Z := if s * e >=? 0 then 0 else - e.
Definition rot2_fb (s e : Z) : Z := if s * e <=? 0 then 0 else - e.

Definition rot2_cells (st : state) (sl : slot) (a b e : Z) (ca cb ce : pcell) (s : Z) : Z -> option pcell :=
  upd (upd (upd (reparent (sel (- s) ce) (Some b) (reparent (sel s ce) (Some a) (hp (slot_set st sl (Some e)))))
                a (with_f (rot2_fa s (cf ce)) (with_p (Some e) (with_sel (- s) (sel s ce) ca))))
           b (with_f (rot2_fb s (cf ce)) (with_p (Some e) (with_sel s (sel (- s) ce) cb))))
      e (with_f 0 (with_p (cp ca) (with_sel (- s) (Some b) (with_sel s (Some a) ce)))).

Record Rot2Pre (st : state) (sl : slot) (a b e : Z) (ca cb ce : pcell) (s : Z) : Prop := mkRot2Pre {
  r2_ab : a <> b; r2_ae : a <> e; r2_be : b <> e;
  r2_a : hp st a = Some ca; r2_b : hp st b = Some cb; r2_e : hp st e = Some ce;
  r2_childa : sel (- s) ca = Some b;
  r2_childb : sel s cb = Some e;
  r2_par : cp ca = slot_parent sl;
  r2_slot : slot_at st sl (Some a);
  r2_qa : slot_parent sl <> Some a; r2_qb : slot_parent sl <> Some b; r2_qe : slot_parent sl <> Some e;
  r2_fe : -1 <= cf ce <= 1;
  r2_f : forall x, sel (- s) ce = Some x -> x <> a /\ x <> b /\ x <> e /\ slot_parent sl <> Some x /\ exists c, hp st x = Some c;
  r2_g : forall x, sel s ce = Some x -> x <> a /\ x <> b /\ x <> e /\ slot_parent sl <> Some x /\ exists c, hp st x = Some c;
  r2_fg : forall x y, sel (- s) ce = Some x -> sel s ce = Some y -> x <> y }.

Definition Rot2Post (st : state) (sl : slot) (a b e : Z) (ca cb ce : pcell) (s : Z) (st' : state) : Prop :=
  rootp st' = rootp (slot_set st sl (Some e)) /\ forall j, hp st' j = rot2_cells st sl a b e ca cb ce s j.

Lemma factor_ok_iff : forall f, factor_ok f = true <-> -1 <= f <= 1.
Proof. intros f. unfold factor_ok. rewrite andb_true_iff, !Z.leb_le. tauto. Qed.

Lemma rot2_cells_e : forall st sl a b e ca cb ce s,
  rot2_cells st sl a b e ca cb ce s e = Some (with_f 0 (with_p (cp ca) (with_sel (- s) (Some b) (with_sel s (Some a) ce)))).
Proof. intros. unfold rot2_cells. apply upd_same. Qed.

Lemma rot2_cells_b : forall st sl a b e ca cb ce s, b <> e ->
  rot2_cells st sl a b e ca cb ce s b = Some (with_f (rot2_fb s (cf ce)) (with_p (Some e) (with_sel s (sel (- s) ce) cb))).
Proof. intros. unfold rot2_cells. rewrite upd_other by assumption. apply upd_same. Qed.

Lemma rot2_cells_a : forall st sl a b e ca cb ce s, a <> b -> a <> e ->
  rot2_cells st sl a b e ca cb ce s a = Some (with_f (rot2_fa s (cf ce)) (with_p (Some e) (with_sel (- s) (sel s ce) ca))).
Proof. intros. unfold rot2_cells. rewrite !upd_other by assumption. apply upd_same. Qed.

Lemma rot2_cells_f : forall st sl a b e ca cb ce s x c, x <> a -> x <> b -> x <> e -> slot_parent sl <> Some x ->
  sel (- s) ce = Some x -> sel s ce <> Some x -> hp st x = Some c ->
  rot2_cells st sl a b e ca cb ce s x = Some (with_p (Some b) c).
Proof.
  intros st sl a b e ca cb ce s x c Ha Hb He Hq Hf Hg Hc. unfold rot2_cells. rewrite !upd_other by assumption.
  rewrite Hf. apply reparent_same. rewrite reparent_other by assumption. rewrite hp_slot_set_other by assumption. exact Hc.
Qed.

Lemma rot2_cells_g : forall st sl a b e ca cb ce s x c, x <> a -> x <> b -> x <> e -> slot_parent sl <> Some x ->
  sel s ce = Some x -> sel (- s) ce <> Some x -> hp st x = Some c ->
  rot2_cells st sl a b e ca cb ce s x = Some (with_p (Some a) c).
Proof.
  intros st sl a b e ca cb ce s x c Ha Hb He Hq Hg Hf Hc. unfold rot2_cells. rewrite !upd_other by assumption.
  rewrite reparent_other by assumption. rewrite Hg. apply reparent_same. rewrite hp_slot_set_other by assumption. exact Hc.
Qed.

Lemma rot2_cells_other : forall st sl a b e ca cb ce s j, j <> a -> j <> b -> j <> e ->
  sel (- s) ce <> Some j -> sel s ce <> Some j ->
  rot2_cells st sl a b e ca cb ce s j = hp (slot_set st sl (Some e)) j.
Proof. intros. unfold rot2_cells. rewrite !upd_other by assumption. rewrite !reparent_other by assumption. reflexivity. Qed.

Ltac qne Hq := let q := fresh "q" in let Eq := fresh "Eq" in
  destruct (slot_parent _) as [q|] eqn:Eq; [|discriminate]; intros [= ->]; apply (Hq _ eq_refl); cbn [has]; tauto.

Lemma rotate2_pre : forall st sl A s A' ef,
  (s = 1 \/ s = -1) -> Hangs st sl A -> rotate2 A s = Some (A', ef) -> -1 <= ef <= 1 ->
  exists a b e ca cb ce, root_id A = Some a /\ root_id (child A (- s)) = Some b /\ root_id A' = Some e /\
    Rot2Pre st sl a b e ca cb ce s.
Proof.
  intros st sl A s A' ef Hs (Hd & Hq & Hr & Hsl) Hrot Hef.
  destruct A as [|l k a f r]; [discriminate|].
  destruct Hs; subst s; cbn [rotate2 child Z.opp Z.ltb Z.compare Pos.compare] in Hrot |- *.
  - destruct l as [|bl bk b bf br]; [discriminate|]. cbn [child Z.ltb Z.compare Pos.compare] in Hrot.
    destruct br as [|el ek e ef0 er]; [discriminate|]. injection Hrot as <- <-.
    cbn [Repr] in Hr. destruct Hr as (Ha & (Hb & Hbl & (He & Hel & Her)) & Hrr).
    cbn [distinct has] in Hd.
    destruct Hd as (Hal & Har & Hlr & (Hbbl & Hbbr & Hblbr & Hdbl & (Heel & Heer & Helr & Hdel & Hder)) & Hdr).
    exists a, b, e, (mkC (Some b) (root_id r) (slot_parent sl) f), (mkC (root_id bl) (Some e) (Some a) bf),
      (mkC (root_id el) (root_id er) (Some b) ef0).
    split; [reflexivity|]. split; [reflexivity|]. split; [reflexivity|].
    assert (Hab : a <> b) by (intros ->; tauto).
    assert (Hae : a <> e) by (intros ->; tauto).
    assert (Hbe : b <> e) by (intros ->; tauto).
    constructor; try assumption; try reflexivity.
    + qne Hq.
    + qne Hq.
    + qne Hq.
    + intros x Hx. cbn in Hx. pose proof (root_has _ _ Hx) as Hhx. destruct (Repr_root _ _ _ _ Hel Hx) as (c & Hc & _).
      split; [intros ->; tauto|]. split; [intros ->; tauto|]. split; [intros ->; tauto|]. split; [|eauto]. qne Hq.
    + intros x Hx. cbn in Hx. pose proof (root_has _ _ Hx) as Hhx. destruct (Repr_root _ _ _ _ Her Hx) as (c & Hc & _).
      split; [intros ->; tauto|]. split; [intros ->; tauto|]. split; [intros ->; tauto|]. split; [|eauto]. qne Hq.
    + intros x y Hx Hy. cbn in Hx, Hy. apply root_has in Hx, Hy. intros ->. eauto.
  - destruct r as [|bl bk b bf br]; [discriminate|]. cbn [child Z.ltb Z.compare Pos.compare] in Hrot.
    destruct bl as [|el ek e ef0 er]; [discriminate|]. injection Hrot as <- <-.
    cbn [Repr] in Hr. destruct Hr as (Ha & Hll & (Hb & (He & Hel & Her) & Hbr)).
    cbn [distinct has] in Hd.
    destruct Hd as (Hal & Har & Hlr & Hdl & (Hbbl & Hbbr & Hblbr & (Heel & Heer & Helr & Hdel & Hder) & Hdbr)).
    exists a, b, e, (mkC (root_id l) (Some b) (slot_parent sl) f), (mkC (Some e) (root_id br) (Some a) bf),
      (mkC (root_id el) (root_id er) (Some b) ef0).
    split; [reflexivity|]. split; [reflexivity|]. split; [reflexivity|].
    assert (Hab : a <> b) by (intros ->; tauto).
    assert (Hae : a <> e) by (intros ->; tauto).
    assert (Hbe : b <> e) by (intros ->; tauto).
    constructor; try assumption; try reflexivity.
    + qne Hq.
    + qne Hq.
    + qne Hq.
    + intros x Hx. cbn in Hx. pose proof (root_has _ _ Hx) as Hhx. destruct (Repr_root _ _ _ _ Her Hx) as (c & Hc & _).
      split; [intros ->; tauto|]. split; [intros ->; tauto|]. split; [intros ->; tauto|]. split; [|eauto]. qne Hq.
    + intros x Hx. cbn in Hx. pose proof (root_has _ _ Hx) as Hhx. destruct (Repr_root _ _ _ _ Hel Hx) as (c & Hc & _).
      split; [intros ->; tauto|]. split; [intros ->; tauto|]. split; [intros ->; tauto|]. split; [|eauto]. qne Hq.
    + intros x y Hx Hy. cbn in Hx, Hy. apply root_has in Hx, Hy. intros ->. eauto.
Qed.

Lemma rotate2_post : forall st sl A s A' ef a b e ca cb ce st',
  (s = 1 \/ s = -1) -> Hangs st sl A -> rotate2 A s = Some (A', ef) -> root_id A = Some a ->
  Rot2Pre st sl a b e ca cb ce s -> Rot2Post st sl a b e ca cb ce s st' ->
  Repr (hp st') (slot_parent sl) A' /\ agree_outside A st' (slot_set st sl (root_id A')).
Proof.
  intros st sl A s A' ef a b e ca cb ce st' Hs (Hd & Hq & Hr & Hsl) Hrot Hra Pre (Hroot & Hcells).
  destruct A as [|l k a0 f r]; [discriminate|]. cbn in Hra. injection Hra as ->.
  destruct Pre as [Hab Hae Hbe Hca Hcb Hce Hcha Hchb _ _ Hqa Hqb Hqe _ _ _ _].
  destruct Hs; subst s; cbn [rotate2 child Z.opp Z.ltb Z.compare Pos.compare] in Hrot.
  - destruct l as [|bl bk b0 bf br]; [discriminate|]. cbn [child Z.ltb Z.compare Pos.compare] in Hrot.
    destruct br as [|el ek e0 ef0 er]; [discriminate|]. injection Hrot as <- <-.
    cbn [Repr] in Hr. destruct Hr as (Ha & (Hb & Hbl & (He & Hel & Her)) & Hrr).
    rewrite Ha in Hca. injection Hca as <-. cbn in Hcha. injection Hcha as ->.
    rewrite Hb in Hcb. injection Hcb as <-. cbn in Hchb. injection Hchb as ->.
    rewrite He in Hce. injection Hce as <-.
    cbn [distinct] in Hd.
    destruct Hd as (Hal & Har & Hlr & (Hbbl & Hbbr & Hblbr & Hdbl & (Heel & Heer & Helr & Hdel & Hder)) & Hdr).
    assert (Hq' : forall j, has (T (T bl bk b bf (T el ek e ef0 er)) k a f r) j -> slot_parent sl <> Some j)
      by (intros j; apply q_out; exact Hq).
    split.
    + cbn [Repr set_factor set_child child Z.opp Z.ltb Z.compare Pos.compare]. repeat split.
      * rewrite Hcells, rot2_cells_e. reflexivity.
      * rewrite Hcells, rot2_cells_b by exact Hbe. reflexivity.
      * apply (Repr_ext bl (hp st)); [|exact Hbl]. intros j Hj.
        rewrite Hcells, rot2_cells_other, hp_slot_set_other; [reflexivity|apply Hq'; dj|dj|dj|dj|cbn; dj|cbn; dj].
      * apply (Repr_reparent el (hp st) _ (Some e)); [exact Hdel|exact Hel| |].
        -- intros x Hx. destruct (Repr_root _ _ _ _ Hel Hx) as (c & Hc & _). exists c. split; [exact Hc|].
           pose proof (root_has _ _ Hx) as Hhx.
           rewrite Hcells. apply rot2_cells_f; [dj|dj|dj|apply Hq'; dj|exact Hx|cbn; dj|exact Hc].
        -- intros j Hj Hne.
           rewrite Hcells, rot2_cells_other, hp_slot_set_other; [reflexivity|apply Hq'; dj|dj|dj|dj|exact Hne|cbn; dj].
      * rewrite Hcells, rot2_cells_a by assumption. reflexivity.
      * apply (Repr_reparent er (hp st) _ (Some e)); [exact Hder|exact Her| |].
        -- intros x Hx. destruct (Repr_root _ _ _ _ Her Hx) as (c & Hc & _). exists c. split; [exact Hc|].
           pose proof (root_has _ _ Hx) as Hhx.
           rewrite Hcells. apply rot2_cells_g; [dj|dj|dj|apply Hq'; dj|exact Hx|cbn; dj|exact Hc].
        -- intros j Hj Hne.
           rewrite Hcells, rot2_cells_other, hp_slot_set_other; [reflexivity|apply Hq'; dj|dj|dj|dj|cbn; dj|exact Hne].
      * apply (Repr_ext r (hp st)); [|exact Hrr]. intros j Hj.
        rewrite Hcells, rot2_cells_other, hp_slot_set_other; [reflexivity|apply Hq'; dj|dj|dj|dj|cbn; dj|cbn; dj].
    + split; [exact Hroot|]. intros j Hj. rewrite Hcells. apply rot2_cells_other; [dj|dj|dj|cbn; dj|cbn; dj].
  - destruct r as [|bl bk b0 bf br]; [discriminate|]. cbn [child Z.ltb Z.compare Pos.compare] in Hrot.
    destruct bl as [|el ek e0 ef0 er]; [discriminate|]. injection Hrot as <- <-.
    cbn [Repr] in Hr. destruct Hr as (Ha & Hll & (Hb & (He & Hel & Her) & Hbr)).
    rewrite Ha in Hca. injection Hca as <-. cbn in Hcha. injection Hcha as ->.
    rewrite Hb in Hcb. injection Hcb as <-. cbn in Hchb. injection Hchb as ->.
    rewrite He in Hce. injection Hce as <-.
    cbn [distinct] in Hd.
    destruct Hd as (Hal & Har & Hlr & Hdl & (Hbbl & Hbbr & Hblbr & (Heel & Heer & Helr & Hdel & Hder) & Hdbr)).
    assert (Hq' : forall j, has (T l k a f (T (T el ek e ef0 er) bk b bf br)) j -> slot_parent sl <> Some j)
      by (intros j; apply q_out; exact Hq).
    split.
    + cbn [Repr set_factor set_child child Z.opp Z.ltb Z.compare Pos.compare]. repeat split.
      * rewrite Hcells, rot2_cells_e. reflexivity.
      * rewrite Hcells, rot2_cells_a by assumption. reflexivity.
      * apply (Repr_ext l (hp st)); [|exact Hll]. intros j Hj.
        rewrite Hcells, rot2_cells_other, hp_slot_set_other; [reflexivity|apply Hq'; dj|dj|dj|dj|cbn; dj|cbn; dj].
      * apply (Repr_reparent el (hp st) _ (Some e)); [exact Hdel|exact Hel| |].
        -- intros x Hx. destruct (Repr_root _ _ _ _ Hel Hx) as (c & Hc & _). exists c. split; [exact Hc|].
           pose proof (root_has _ _ Hx) as Hhx.
           rewrite Hcells. apply rot2_cells_g; [dj|dj|dj|apply Hq'; dj|exact Hx|cbn; dj|exact Hc].
        -- intros j Hj Hne.
           rewrite Hcells, rot2_cells_other, hp_slot_set_other; [reflexivity|apply Hq'; dj|dj|dj|dj|cbn; dj|exact Hne].
      * rewrite Hcells, rot2_cells_b by exact Hbe. reflexivity.
      * apply (Repr_reparent er (hp st) _ (Some e)); [exact Hder|exact Her| |].
        -- intros x Hx. destruct (Repr_root _ _ _ _ Her Hx) as (c & Hc & _). exists c. split; [exact Hc|].
           pose proof (root_has _ _ Hx) as Hhx.
           rewrite Hcells. apply rot2_cells_f; [dj|dj|dj|apply Hq'; dj|exact Hx|cbn; dj|exact Hc].
        -- intros j Hj Hne.
           rewrite Hcells, rot2_cells_other, hp_slot_set_other; [reflexivity|apply Hq'; dj|dj|dj|dj|exact Hne|cbn; dj].
      * apply (Repr_ext br (hp st)); [|exact Hbr]. intros j Hj.
        rewrite Hcells, rot2_cells_other, hp_slot_set_other; [reflexivity|apply Hq'; dj|dj|dj|dj|cbn; dj|cbn; dj].
    + split; [exact Hroot|]. intros j Hj. rewrite Hcells. apply rot2_cells_other; [dj|dj|dj|cbn; dj|cbn; dj].
Qed.

(* ================================================================== Part 5: balance factors; a_avl_handle_growth *)

(* every stored factor is one of -1, 0, 1 (part of AvlProofs.Balanced) *)
Fixpoint frange (t : tree) : Prop :=
  match t with
  | E => True
  | T l _ _ f r => -1 <= f <= 1 /\ frange l /\ frange r
  end.

(* setting a slot to what it holds changes nothing *)
Lemma slot_set_same : forall st sl v, slot_at st sl v ->
  rootp (slot_set st sl v) = rootp st /\ forall j, hp (slot_set st sl v) j = hp st j.
Proof.
  intros [h r] [|q|q] v H; cbn [slot_at slot_set hp rootp] in *.
  - subst. split; reflexivity.
  - destruct H as (c & Hc & Hl). rewrite Hc. cbn [hp rootp]. split; [reflexivity|]. intros j. unfold upd.
    destruct (Z.eqb_spec j q); [|reflexivity]. subst. rewrite Hc. destruct c; cbn in *. subst. reflexivity.
  - destruct H as (c & Hc & Hr & _). rewrite Hc. cbn [hp rootp]. split; [reflexivity|]. intros j. unfold upd.
    destruct (Z.eqb_spec j q); [|reflexivity]. subst. rewrite Hc. destruct c; cbn in *. subst. reflexivity.
Qed.

(* a_avl_set_factor on the root of a laid-out tree = AvlDefs.add_factor *)
Lemma add_factor_root : forall st p l k i f r amt t',
  Repr (hp st) p (T l k i f r) -> ~ has l i -> ~ has r i ->
  add_factor (T l k i f r) amt = Some t' ->
  exists st', m_add_factor st (Some i) amt = Some st' /\ Repr (hp st') p t' /\ rootp st' = rootp st /\
    (forall j, j <> i -> hp st' j = hp st j).
Proof.
  intros st p l k i f r amt t' Hr Hl Hrr Ha. cbn [add_factor] in Ha. cbn [Repr] in Hr. destruct Hr as (Hi & Hrl & Hrr').
  unfold m_add_factor, rd, wr, factor_ok. rewrite Hi. cbn [cf].
  destruct ((-1 <=? f + amt) && (f + amt <=? 1)); [|discriminate]. injection Ha as <-.
  eexists. split; [reflexivity|]. cbn [hp rootp Repr]. split; [|split; [reflexivity|intros j Hj; apply upd_other; exact Hj]].
  split; [rewrite upd_same; reflexivity|]. split.
  - apply (Repr_ext l (hp st)); [|exact Hrl]. intros j Hj. apply upd_other. intros ->. contradiction.
  - apply (Repr_ext r (hp st)); [|exact Hrr']. intros j Hj. apply upd_other. intros ->. contradiction.
Qed.

Lemma add_factor_root_id : forall t amt t', add_factor t amt = Some t' -> root_id t' = root_id t.
Proof.
  intros [|l k i f r] amt t' H; [discriminate|]. cbn [add_factor] in H.
  destruct ((-1 <=? f + amt) && (f + amt <=? 1)); [|discriminate]. injection H as <-. reflexivity.
Qed.

(* ... and on a child of the root *)
Lemma add_factor_child : forall st p b side amt c',
  Repr (hp st) p b -> distinct b -> add_factor (child b side) amt = Some c' ->
  exists st', m_add_factor st (root_id (child b side)) amt = Some st' /\ Repr (hp st') p (set_child b c' side) /\
    rootp st' = rootp st /\ (forall j, Some j <> root_id (child b side) -> hp st' j = hp st j).
Proof.
  intros st p [|l k i f r] side amt c' Hr Hd Ha; [discriminate|].
  cbn [Repr] in Hr. destruct Hr as (Hi & Hrl & Hrr). cbn [distinct] in Hd. destruct Hd as (Hil & Hir & Hlr & Hdl & Hdr).
  cbn [child set_child] in *. destruct (side <? 0).
  - destruct l as [|ll lk li lf lr]; [discriminate|]. cbn [distinct] in Hdl. destruct Hdl as (H1 & H2 & _).
    destruct (add_factor_root st (Some i) ll lk li lf lr amt c' Hrl H1 H2 Ha) as (st' & Hrun & HR & Hroot & Hfr).
    exists st'. cbn [root_id]. split; [exact Hrun|]. split; [|split; [exact Hroot|]].
    + cbn [Repr]. rewrite (add_factor_root_id _ _ _ Ha). cbn [root_id]. split; [|split; [exact HR|]].
      * rewrite Hfr; [exact Hi|]. intros ->. apply Hil. cbn; auto.
      * apply (Repr_ext r (hp st)); [|exact Hrr]. intros j Hj. apply Hfr. intros ->. apply (Hlr li); cbn; auto.
    + intros j Hj. apply Hfr. congruence.
  - destruct r as [|rl rk ri rf rr]; [discriminate|]. cbn [distinct] in Hdr. destruct Hdr as (H1 & H2 & _).
    destruct (add_factor_root st (Some i) rl rk ri rf rr amt c' Hrr H1 H2 Ha) as (st' & Hrun & HR & Hroot & Hfr).
    exists st'. cbn [root_id]. split; [exact Hrun|]. split; [|split; [exact Hroot|]].
    + cbn [Repr]. rewrite (add_factor_root_id _ _ _ Ha). cbn [root_id]. split; [|split; [|exact HR]].
      * rewrite Hfr; [exact Hi|]. intros ->. apply Hir. cbn; auto.
      * apply (Repr_ext l (hp st)); [|exact Hrl]. intros j Hj. apply Hfr. intros ->. apply (Hlr ri); cbn; auto.
    + intros j Hj. apply Hfr. congruence.
Qed.

Lemma child_has : forall t s j, has (child t s) j -> has t j.
Proof. intros [|l k i f r] s j H; [exact H|]. cbn [child] in H. cbn [has]. destruct (s <? 0); auto. Qed.

Lemma Repr_factor : forall h p t i, Repr h p t -> root_id t = Some i ->
  exists c, h i = Some c /\ match t with E => True | T _ _ _ f _ => cf c = f end.
Proof.
  intros h p [|l k i0 f r] i Hr Hi; [discriminate|]. cbn in Hi. injection Hi as ->. cbn [Repr] in Hr. destruct Hr as (Hi & _).
  eexists. split; [exact Hi|reflexivity].
Qed.

Lemma Repr_child : forall h p l k i f r s, Repr h p (T l k i f r) -> Repr h (Some i) (child (T l k i f r) s).
Proof. intros h p l k i f r s (_ & Hl & Hr). cbn [child]. destruct (s <? 0); assumption. Qed.

Lemma frange_child : forall t s, frange t -> frange (child t s).
Proof. intros [|l k i f r] s H; [exact I|]. cbn [child]. destruct H as (_ & Hl & Hr). destruct (s <? 0); assumption. Qed.

Lemma rotate2_factor_range : forall A s A' e, frange A -> rotate2 A s = Some (A', e) -> -1 <= e <= 1.
Proof.
  intros A s A' e Hf H. destruct A as [|l k a f r]; [discriminate|]. unfold rotate2 in H.
  pose proof (frange_child _ s (frange_child _ (- s) Hf)) as He.
  destruct (child (T l k a f r) (- s)) as [|bl bk b bf br]; [discriminate|].
  destruct (child (T bl bk b bf br) s) as [|el ek x ef er]; [discriminate|].
  injection H as _ <-. cbn [frange] in He. tauto.
Qed.

(* after a single rotation by s the old root is the child on side s of the new root, which was the child on side -s *)
Lemma rotate_roots : forall A s b, (s = 1 \/ s = -1) -> rotate A s = Some b ->
  root_id (child b s) = root_id A /\ root_id b = root_id (child A (- s)).
Proof.
  intros [|l k a f r] s b Hs H; [discriminate|].
  destruct Hs; subst s; cbn [rotate child Z.opp Z.ltb Z.compare Pos.compare] in H |- *.
  - destruct l as [|bl bk b0 bf br]; [discriminate|]. cbn [child set_child Z.ltb Z.compare Pos.compare] in H.
    injection H as <-. split; reflexivity.
  - destruct r as [|bl bk b0 bf br]; [discriminate|]. cbn [child set_child Z.ltb Z.compare Pos.compare] in H.
    injection H as <-. split; reflexivity.
Qed.

(* the two a_avl_set_factor calls after the single rotation of a_avl_handle_growth: first the child on one side, then the
   root *)
Lemma growth_fix : forall st p b side amt a' amt2 b',
  Repr (hp st) p b -> distinct b ->
  add_factor (child b side) amt = Some a' -> add_factor (set_child b a' side) amt2 = Some b' ->
  exists st2 st', m_add_factor st (root_id (child b side)) amt = Some st2 /\ m_add_factor st2 (root_id b) amt2 = Some st' /\
    Repr (hp st') p b' /\ root_id b' = root_id b /\ rootp st' = rootp st /\ (forall j, ~ has b j -> hp st' j = hp st j).
Proof.
  intros st p b side amt a' amt2 b' Hr Hd Ha Hb.
  destruct (add_factor_child st p b side amt a' Hr Hd Ha) as (st2 & Hrun2 & HR2 & Hroot2 & Hfr2).
  exists st2.
  destruct b as [|l k i f r]; [discriminate|]. cbn [root_id].
  assert (Hl : ~ has (match set_child (T l k i f r) a' side with T l' _ _ _ _ => l' | E => E end) i /\
               ~ has (match set_child (T l k i f r) a' side with T _ _ _ _ r' => r' | E => E end) i).
  { cbn [distinct] in Hd. destruct Hd as (Hil & Hir & Hlr & Hdl & Hdr). cbn [set_child child] in *. destruct (side <? 0).
    - split; [|exact Hir]. destruct l as [|ll lk li lf lr]; [discriminate|]. cbn [add_factor] in Ha.
      destruct ((-1 <=? lf + amt) && (lf + amt <=? 1)); [|discriminate]. injection Ha as <-. exact Hil.
    - split; [exact Hil|]. destruct r as [|rl rk ri rf rr]; [discriminate|]. cbn [add_factor] in Ha.
      destruct ((-1 <=? rf + amt) && (rf + amt <=? 1)); [|discriminate]. injection Ha as <-. exact Hir. }
  assert (Hshape : exists l' r', set_child (T l k i f r) a' side = T l' k i f r').
  { cbn [set_child]. destruct (side <? 0); eauto. }
  destruct Hshape as (l' & r' & Hs). rewrite Hs in *. destruct Hl as (Hl1 & Hl2).
  destruct (add_factor_root st2 p l' k i f r' amt2 b' HR2 Hl1 Hl2 Hb) as (st3 & Hrun3 & HR3 & Hroot3 & Hfr3).
  exists st3. split; [exact Hrun2|]. split; [exact Hrun3|]. split; [exact HR3|].
  split; [rewrite (add_factor_root_id _ _ _ Hb); reflexivity|]. split; [congruence|].
  intros j Hj. rewrite Hfr3 by (intros ->; apply Hj; cbn; auto). apply Hfr2.
  intros Heq. apply Hj. apply (child_has _ side). apply root_has. symmetry. exact Heq.
Qed.

(* ================================================================== Part 6: a_avl_insert_adjust *)

(* the tree a_avl_insert hands to a_avl_insert_adjust: the new leaf linked at its search position, nothing re-balanced *)
Fixpoint link (k id : Z) (t : tree) : tree :=
  match t with
  | E => leaf k id
  | T l k' i f r =>
    match k ?= k' with
    | Lt => T (link k id l) k' i f r
    | Gt => T l k' i f (link k id r)
    | Eq => t
    end
  end.

(* number of nodes of t on the search path of k *)
Fixpoint depth (k : Z) (t : tree) : nat :=
  match t with
  | E => O
  | T l k' _ _ r => S (match Z.compare k k' with Lt => depth k l | Gt => depth k r | Eq => O end)
  end.

Lemma depth_height : forall k t, Z.of_nat (depth k t) <= height t.
Proof.
  induction t as [|l IHl k' i f r IHr]; [cbn; lia|]. cbn [depth height].
  pose proof (height_nonneg l). pose proof (height_nonneg r).
  destruct (k ?= k'); lia.
Qed.

Lemma link_root : forall k id t, t <> E -> root_id (link k id t) = root_id t.
Proof. intros k id [|l k' i f r] H; [congruence|]. cbn [link]. destruct (k ?= k'); reflexivity. Qed.

(* inversion of one level of AvlDefs.ins *)
Lemma ins_node_inv : forall k id l k' i f r u' g tr, ins k id (T l k' i f r) = IOk u' g tr ->
  (k ?= k' = Lt /\
     ((l = E /\ link_adjust (-1) (T (leaf k id) k' i f r) = IOk u' g tr) \/
      (l <> E /\ exists l' gl trl, ins k id l = IOk l' gl trl /\
         (if gl then growth_step (-1) (T l' k' i f r) trl else IOk (T l' k' i f r) false trl) = IOk u' g tr))) \/
  (k ?= k' = Gt /\
     ((r = E /\ link_adjust 1 (T l k' i f (leaf k id)) = IOk u' g tr) \/
      (r <> E /\ exists r' gr trr, ins k id r = IOk r' gr trr /\
         (if gr then growth_step 1 (T l k' i f r') trr else IOk (T l k' i f r') false trr) = IOk u' g tr))).
Proof.
  intros k id l k' i f r u' g tr H. cbn [ins] in H. destruct (k ?= k'); [discriminate| |].
  - left. split; [reflexivity|]. destruct l as [|ll lk li lf lr]; [left; auto|right]. split; [discriminate|].
    destruct (ins k id (T ll lk li lf lr)) as [d|l' gl trl|]; try discriminate. eauto.
  - right. split; [reflexivity|]. destruct r as [|rl rk ri rf rr]; [left; auto|right]. split; [discriminate|].
    destruct (ins k id (T rl rk ri rf rr)) as [d|r' gr trr|]; try discriminate. eauto.
Qed.

Lemma link_has : forall k id t t' g tr, ins k id t = IOk t' g tr -> forall j, has (link k id t) j <-> j = id \/ has t j.
Proof.
  induction t as [|l IHl k' i f r IHr]; intros t' g tr H j.
  - cbn. tauto.
  - destruct (ins_node_inv _ _ _ _ _ _ _ _ _ _ H) as [(Hc & Hl)|(Hc & Hr)]; cbn [link]; rewrite Hc; cbn [has].
    + destruct Hl as [(-> & _)|(_ & l' & gl & trl & Hi & _)]; [cbn; tauto|]. rewrite (IHl _ _ _ Hi). tauto.
    + destruct Hr as [(-> & _)|(_ & r' & gr & trr & Hi & _)]; [cbn; tauto|]. rewrite (IHr _ _ _ Hi). tauto.
Qed.

Lemma link_distinct : forall k id t t' g tr, ins k id t = IOk t' g tr -> distinct (link k id t) -> distinct t /\ ~ has t id.
Proof.
  induction t as [|l IHl k' i f r IHr]; intros t' g tr H Hd.
  - cbn. tauto.
  - destruct (ins_node_inv _ _ _ _ _ _ _ _ _ _ H) as [(Hc & Hl)|(Hc & Hr)]; cbn [link] in Hd; rewrite Hc in Hd;
      cbn [distinct has] in *; destruct Hd as (H1 & H2 & H3 & H4 & H5).
    + destruct Hl as [(-> & _)|(_ & l' & gl & trl & Hi & _)].
      * cbn in *. repeat split; auto. intros [->|[[]|Hr]]; [tauto|]. apply (H3 id); auto.
      * destruct (IHl _ _ _ Hi H4) as (Hdl & Hil). pose proof (link_has _ _ _ _ _ _ Hi) as Hh.
        repeat split; auto.
        -- intros Hx. apply H1. apply Hh. auto.
        -- intros j Hj Hj'. apply (H3 j); [apply Hh; auto|exact Hj'].
        -- intros [->|[Hx|Hx]]; [apply H1; apply Hh; auto|contradiction|]. apply (H3 id); [apply Hh; auto|exact Hx].
    + destruct Hr as [(-> & _)|(_ & r' & gr & trr & Hi & _)].
      * cbn in *. repeat split; auto. intros [->|[Hl|[]]]; [tauto|]. apply (H3 id); auto.
      * destruct (IHr _ _ _ Hi H5) as (Hdr & Hir). pose proof (link_has _ _ _ _ _ _ Hi) as Hh.
        repeat split; auto.
        -- intros Hx. apply H2. apply Hh. auto.
        -- intros j Hj Hj'. apply (H3 j); [exact Hj|apply Hh; auto].
        -- intros [->|[Hx|Hx]]; [apply H2; apply Hh; auto| |contradiction]. apply (H3 id); [exact Hx|apply Hh; auto].
Qed.

Lemma balanced_frange : forall t, Balanced t -> frange t.
Proof. induction t as [|l IHl k i f r IHr]; [trivial|]. cbn [Balanced frange]. tauto. Qed.

(* what AvlProofs.ins_spec says about the nodes of the result *)
Lemma ins_nodes : forall k id t t' g tr, Balanced t -> Bst t -> ins k id t = IOk t' g tr -> distinct t -> ~ has t id ->
  Balanced t' /\ t' <> E /\ distinct t' /\ (forall j, has t' j -> j = id \/ has t j).
Proof.
  intros k id t t' g tr Bt St H Hd Hid. pose proof (ins_spec k id t Bt St) as Hs. rewrite H in Hs.
  destruct Hs as (B' & Hel & _ & _ & _ & Hne). split; [exact B'|]. split; [exact Hne|]. split.
  - apply distinct_ids. unfold ids. rewrite Hel. apply linsert_nodup; [apply distinct_ids; exact Hd|].
    intros Hin. apply Hid. apply has_ids. exact Hin.
  - intros j Hj. apply has_ids in Hj. unfold ids in Hj. rewrite Hel in Hj. apply linsert_ids in Hj.
    destruct Hj as [->|Hj]; [auto|right; apply has_ids; exact Hj].
Qed.

Lemma handle_growth_continue_root : forall s P P' tg, handle_growth s P = Some (P', false, tg) -> root_id P' = root_id P.
Proof.
  intros s [|l k i cur r] P' tg H; [discriminate|]. cbn [handle_growth] in H.
  destruct (cur =? 0).
  - destruct (add_factor (T l k i cur r) s) as [t|] eqn:Ea; [|discriminate]. injection H as <- _. exact (add_factor_root_id _ _ _ Ea).
  - destruct (cur + s =? 0).
    + destruct (add_factor (T l k i cur r) s); discriminate.
    + destruct (child (T l k i cur r) s) as [|? ? ? fn ?]; [discriminate|]. destruct (s * fn >? 0).
      * destruct (rotate (T l k i cur r) (- s)) as [b|]; [|discriminate].
        destruct (add_factor (child b (- s)) (- s)) as [a'|]; [|discriminate].
        destruct (add_factor (set_child b a' (- s)) (- s)); discriminate.
      * destruct (rotate2 (T l k i cur r) (- s)) as [[? ?]|]; discriminate.
Qed.

Lemma slot_set_agree : forall st1 st sl v, rootp st1 = rootp st ->
  (forall q, slot_parent sl = Some q -> hp st1 q = hp st q) ->
  rootp (slot_set st1 sl v) = rootp (slot_set st sl v) /\
  forall j, hp st1 j = hp st j -> hp (slot_set st1 sl v) j = hp (slot_set st sl v) j.
Proof.
  intros [h1 r1] [h r] [|q|q] v Hr Hq; cbn [slot_set slot_parent hp rootp] in *.
  - split; [reflexivity|auto].
  - rewrite (Hq q eq_refl). destruct (h q); cbn [hp rootp]; [|auto]. split; [exact Hr|]. intros j Hj. unfold upd.
    destruct (j =? q); [reflexivity|exact Hj].
  - rewrite (Hq q eq_refl). destruct (h q); cbn [hp rootp]; [|auto]. split; [exact Hr|]. intros j Hj. unfold upd.
    destruct (j =? q); [reflexivity|exact Hj].
Qed.

(* the heap after the retrace below a child: the parent cell holds the new child root, the rest of the parent's tree is
   untouched *)
Lemma Repr_after_left : forall st st1 p L l' k' i f r,
  Repr (hp st) p (T L k' i f r) -> ~ has L i -> (forall j, has L j -> has r j -> False) -> ~ has r i ->
  Repr (hp st1) (Some i) l' -> agree_outside L st1 (slot_set st (SLeft i) (root_id l')) ->
  Repr (hp st1) p (T l' k' i f r).
Proof.
  intros st st1 p L l' k' i f r (Hi & _ & Hr) HiL HLr Hir Hl' (_ & Hag). cbn [Repr]. split; [|split; [exact Hl'|]].
  - rewrite (Hag i HiL). cbn [slot_set]. rewrite Hi. cbn [hp]. rewrite upd_same. reflexivity.
  - apply (Repr_ext r (hp st)); [|exact Hr]. intros j Hj. rewrite Hag by (intros HjL; exact (HLr j HjL Hj)).
    apply hp_slot_set_other. cbn. intros [= ->]. contradiction.
Qed.

Lemma Repr_after_right : forall st st1 p R r' k' i f l,
  Repr (hp st) p (T l k' i f R) -> ~ has R i -> (forall j, has l j -> has R j -> False) -> ~ has l i ->
  Repr (hp st1) (Some i) r' -> agree_outside R st1 (slot_set st (SRight i) (root_id r')) ->
  Repr (hp st1) p (T l k' i f r').
Proof.
  intros st st1 p R r' k' i f l (Hi & Hl & _) HiR HlR Hil Hr' (_ & Hag). cbn [Repr]. split; [|split; [|exact Hr']].
  - rewrite (Hag i HiR). cbn [slot_set]. rewrite Hi. cbn [hp]. rewrite upd_same. reflexivity.
  - apply (Repr_ext l (hp st)); [|exact Hl]. intros j Hj. rewrite Hag by (intros HjR; exact (HlR j Hj HjR)).
    apply hp_slot_set_other. cbn. intros [= ->]. contradiction.
Qed.


Lemma depth_pos : forall k t, t <> E -> depth k t = S (pred (depth k t)).
Proof. intros k [|l k' i f r] H; [congruence|reflexivity]. Qed.

Lemma rootp_slot_set_left : forall st i v, rootp (slot_set st (SLeft i) v) = rootp st.
Proof. intros st i v. cbn [slot_set]. destruct (hp st i); reflexivity. Qed.

Lemma rootp_slot_set_right : forall st i v, rootp (slot_set st (SRight i) v) = rootp st.
Proof. intros st i v. cbn [slot_set]. destruct (hp st i); reflexivity. Qed.

Lemma slot_at_agree : forall st st1 sl v, slot_at st sl v -> rootp st1 = rootp st ->
  (forall q, slot_parent sl = Some q -> hp st1 q = hp st q) -> slot_at st1 sl v.
Proof.
  intros st st1 [|q|q] v H Hr Hq; cbn [slot_at slot_parent] in *; [congruence| |]; rewrite (Hq q eq_refl); exact H.
Qed.

Section InsertAdjust.
  (* a_avl_handle_growth as the generated module has it; all that is used of it is its tie theorem *)
  Variable hg : state -> option Z -> option Z -> Z -> option (Z * state).

  (* hand models of the loop of a_avl_insert_adjust and of the function (first level, then the loop): one unit of fuel per
     iteration *)
  Fixpoint m_adjust_loop (fuel : nat) (st : state) (x : option Z) {struct fuel} : option state :=
    match fuel with
    | O => None
    | S n =>
      bind (m_parent st x) (fun p =>
      if nonnull p
      then
        bind (rd st cl p) (fun t =>
        if oid_eqb t x
        then bind (hg st p x (-1)) (fun '(ok, st') => if ok =? 0 then m_adjust_loop n st' p else Some st')
        else bind (hg st p x 1) (fun '(ok, st') => if ok =? 0 then m_adjust_loop n st' p else Some st'))
      else Some st)
    end.

  Definition m_insert_adjust (fuel : nat) (st : state) (x : option Z) : option state :=
    bind (m_parent st x) (fun p =>
    if nonnull p
    then
      bind (rd st cl p) (fun t =>
      if oid_eqb t x
      then bind (m_add_factor st p (-1)) (fun st1 =>
           bind (m_factor st1 p) (fun f => if f =? 0 then Some st1 else m_adjust_loop fuel st1 p))
      else bind (m_add_factor st p 1) (fun st1 =>
           bind (m_factor st1 p) (fun f => if f =? 0 then Some st1 else m_adjust_loop fuel st1 p)))
    else Some st).

  Hypothesis hg_spec : forall st sl P s P' done tg,
    (s = 1 \/ s = -1) -> NoDup (ids P) -> (forall q, slot_parent sl = Some q -> ~ In q (ids P)) ->
    Repr (hp st) (slot_parent sl) P -> slot_at st sl (root_id P) -> frange P ->
    handle_growth s P = Some (P', done, tg) ->
    exists st', hg st (root_id P) (root_id (child P s)) s = Some ((if done then 1 else 0), st') /\
      Repr (hp st') (slot_parent sl) P' /\
      rootp st' = rootp (slot_set st sl (root_id P')) /\
      (forall j, ~ In j (ids P) -> hp st' j = hp (slot_set st sl (root_id P')) j).

  (* one iteration of the loop, entered with the root x of the child on side s of P (whose subtree has grown) *)
  Lemma loop_iter : forall st sl l k' i f r s P' ok tg x,
    (s = 1 \/ s = -1) ->
    distinct (T l k' i f r) -> (forall q, slot_parent sl = Some q -> ~ has (T l k' i f r) q) ->
    Repr (hp st) (slot_parent sl) (T l k' i f r) -> slot_at st sl (Some i) -> frange (T l k' i f r) ->
    root_id (child (T l k' i f r) s) = Some x ->
    handle_growth s (T l k' i f r) = Some (P', ok, tg) ->
    exists st2, Repr (hp st2) (slot_parent sl) P' /\ rootp st2 = rootp (slot_set st sl (root_id P')) /\
      (forall j, ~ has (T l k' i f r) j -> hp st2 j = hp (slot_set st sl (root_id P')) j) /\
      forall n, m_adjust_loop (S n) st (Some x) = if ok then Some st2 else m_adjust_loop n st2 (Some i).
  Proof.
    intros st sl l k' i f r s P' ok tg x Hs Hd Hq Hr Hsl Hf Hx Hg.
    assert (Hn : NoDup (ids (T l k' i f r))) by (apply distinct_ids; exact Hd).
    assert (Hq' : forall q, slot_parent sl = Some q -> ~ In q (ids (T l k' i f r))).
    { intros q Hq0 Hin. apply (Hq q Hq0). apply has_ids. exact Hin. }
    destruct (hg_spec st sl _ s P' ok tg Hs Hn Hq' Hr Hsl Hf Hg) as (st2 & Hrun & HR & Hroot & Hfr).
    rewrite Hx in Hrun. cbn [root_id] in Hrun.
    exists st2. split; [exact HR|]. split; [exact Hroot|]. split; [intros j Hj; apply Hfr; rewrite <- has_ids; exact Hj|].
    intros n. cbn [m_adjust_loop]. unfold m_parent.
    pose proof (Repr_child _ _ l k' i f r s Hr) as Hrc.
    destruct (Repr_root _ _ _ _ Hrc Hx) as (cx & Hcx & Hpx).
    rewrite (bind_rd _ _ _ _ _ _ _ Hcx), Hpx. cbn [nonnull].
    pose proof Hr as Hr0. cbn [Repr] in Hr0. destruct Hr0 as (Hi & _ & _).
    rewrite (bind_rd _ _ _ _ _ _ _ Hi). cbn [cl].
    cbn [distinct] in Hd. destruct Hd as (_ & _ & Hlr & _ & _).
    destruct Hs; subst s; cbn [child Z.ltb Z.compare Pos.compare] in Hx.
    - (* right child *)
      destruct (oid_eqb (root_id l) (Some x)) eqn:Eo.
      + apply oid_eqb_eq in Eo. exfalso. apply (Hlr x); apply root_has; assumption.
      + rewrite Hrun, bind_some. destruct ok; reflexivity.
    - rewrite Hx, oid_eqb_refl, Hrun, bind_some. destruct ok; reflexivity.
  Qed.

  (* The retrace below and at a subtree u that contains the search position of k: with the leaf linked (link k id u laid out
     below the slot), a_avl_insert_adjust started at the leaf either finishes inside u (the model's `grew` flag is false) or
     arrives at the loop with the root of the re-balanced u' as the node that has grown, having spent depth - 1 iterations;
     in both cases u' is laid out below the slot and nothing outside the nodes of u and the leaf has changed. *)
  Lemma climb : forall k id u u' g tr st sl,
    u <> E -> Balanced u -> Bst u -> ins k id u = IOk u' g tr ->
    distinct (link k id u) -> (forall q, slot_parent sl = Some q -> ~ has (link k id u) q) ->
    Repr (hp st) (slot_parent sl) (link k id u) -> slot_at st sl (root_id u) ->
    exists st1, Repr (hp st1) (slot_parent sl) u' /\ agree_outside (link k id u) st1 (slot_set st sl (root_id u')) /\
      forall n, m_insert_adjust (pred (depth k u) + n) st (Some id) = if g then m_adjust_loop n st1 (root_id u') else Some st1.
  Proof.
    intros k id. induction u as [|l IHl k' i f r IHr]; intros u' g tr st sl Hne Bu Su Hins Hd Hq Hr Hsl; [congruence|].
    cbn [Balanced] in Bu. destruct Bu as (Bl & Br & _ & Hfi).
    destruct (sorted_node _ _ _ _ _ Su) as (Sl & Sr & _).
    cbn [root_id] in Hsl. destruct (slot_set_same st sl (Some i) Hsl) as (Hss1 & Hss2).
    destruct (ins_node_inv _ _ _ _ _ _ _ _ _ _ Hins) as [(Hc & Hcase)|(Hc & Hcase)];
      cbn [link depth] in *; rewrite Hc in *; cbn [pred].
    - (* the search position is in the left subtree *)
      cbn [distinct] in Hd. destruct Hd as (H1 & H2 & H3 & H4 & H5).
      destruct Hcase as [(-> & Hla)|(Hlne & l' & gl & trl & Hil & Hstep)].
      + (* the leaf is the left child *)
        cbn [link leaf] in *. pose proof Hr as Hr0. cbn [Repr root_id] in Hr0. destruct Hr0 as (Hi & (Hid & _ & _) & Hrr).
        unfold link_adjust in Hla.
        destruct (add_factor (T (leaf k id) k' i f r) (-1)) as [p'|] eqn:Ea; [|discriminate]. unfold leaf in Ea.
        destruct (add_factor_root st _ _ k' i f r (-1) p' Hr H1 H2 Ea) as (st1 & Hrun & HR & Hroot & Hfr).
        cbn [add_factor] in Ea. destruct ((-1 <=? f + -1) && (f + -1 <=? 1)); [|discriminate]. injection Ea as <-.
        assert (Hu : u' = T (T E k id 0 E) k' i (f + -1) r /\ g = negb (f + -1 =? 0)).
        { destruct (f + -1 =? 0); injection Hla as <- <- _; auto. }
        destruct Hu as (-> & ->). exists st1. split; [exact HR|]. split.
        * cbn [root_id]. split; [congruence|]. intros j Hj. rewrite Hss2. apply Hfr. intros ->. apply Hj. cbn; auto.
        * intros n. cbn [depth pred Nat.add]. unfold m_insert_adjust, m_parent.
          rewrite (bind_rd _ _ _ _ _ _ _ Hid). cbn [cp nonnull]. rewrite (bind_rd _ _ _ _ _ _ _ Hi). cbn [cl].
          rewrite oid_eqb_refl, Hrun, bind_some. unfold m_factor.
          cbn [Repr] in HR. destruct HR as (Hi1 & _). rewrite (bind_rd _ _ _ _ _ _ _ Hi1). cbn [cf root_id].
          destruct (f + -1 =? 0); reflexivity.
      + (* the leaf is deeper: the retrace below l first *)
        pose proof Hr as Hr0. cbn [Repr] in Hr0. destruct Hr0 as (Hi & Hrl & Hrr).
        destruct (link_distinct _ _ _ _ _ _ Hil H4) as (Hdl & Hidl).
        destruct (ins_nodes _ _ _ _ _ _ Bl Sl Hil Hdl Hidl) as (Bl' & Hl'ne & Hdl' & Hsub).
        pose proof (link_has _ _ _ _ _ _ Hil) as Hlh.
        assert (Hsub' : forall j, has l' j -> has (link k id l) j) by (intros j Hj; apply Hlh; apply Hsub; exact Hj).
        assert (Hsl1 : slot_at st (SLeft i) (root_id l)).
        { cbn [slot_at]. eexists. split; [exact Hi|]. cbn [cl]. apply link_root. exact Hlne. }
        assert (Hq1 : forall q, slot_parent (SLeft i) = Some q -> ~ has (link k id l) q) by (cbn; intros q [= <-]; exact H1).
        destruct (IHl l' gl trl st (SLeft i) Hlne Bl Sl Hil H4 Hq1 Hrl Hsl1) as (st1 & HR1 & Hag1 & Heq1).
        pose proof (Repr_after_left st st1 _ _ l' k' i f r Hr H1 H3 H2 HR1 Hag1) as HRP.
        destruct Hag1 as (Hag1r & Hag1h). rewrite rootp_slot_set_left in Hag1r.
        assert (Hsame : forall j, ~ has (link k id l) j -> j <> i -> hp st1 j = hp st j).
        { intros j Hj Hji. rewrite Hag1h by exact Hj. apply hp_slot_set_other. cbn. congruence. }
        assert (Hqs : forall q, slot_parent sl = Some q -> hp st1 q = hp st q).
        { intros q Hq0. pose proof (Hq q Hq0) as Hnq. cbn [has] in Hnq. apply Hsame; [tauto|]. intros ->. tauto. }
        assert (Hfuel : forall n, (depth k l + n = pred (depth k l) + S n)%nat).
        { intros n. rewrite (depth_pos k l Hlne) at 1. cbn [pred]. lia. }
        destruct gl. all: revgoals.
        * (* the growth stopped below *)
          injection Hstep as <- <- _. exists st1. split; [exact HRP|]. split.
          -- cbn [root_id]. split; [congruence|]. intros j Hj. cbn [has] in Hj. rewrite Hss2. apply Hsame; tauto.
          -- intros n. rewrite Hfuel. apply Heq1.
        * (* one iteration of the loop at this node *)
          unfold growth_step in Hstep.
          destruct (handle_growth (-1) (T l' k' i f r)) as [[[P' ok] tg]|] eqn:Ehg; [|discriminate]. injection Hstep as <- <- _.
          destruct l' as [|ll lk x lf lr] eqn:El'; [congruence|]. rewrite <- El' in *.
          assert (Hx : root_id (child (T l' k' i f r) (-1)) = Some x) by (rewrite El'; reflexivity).
          assert (HdP : distinct (T l' k' i f r)).
          { cbn [distinct]. repeat split; auto. intros j Hj Hj'. apply (H3 j); auto. }
          assert (HqP : forall q, slot_parent sl = Some q -> ~ has (T l' k' i f r) q).
          { intros q Hq0 Hh. apply (Hq q Hq0). cbn [has] in *. destruct Hh as [->|[Hh|Hh]]; auto. }
          assert (HfP : frange (T l' k' i f r)).
          { cbn [frange]. split; [exact Hfi|]. split; apply balanced_frange; assumption. }
          pose proof (slot_at_agree st st1 sl (Some i) Hsl Hag1r Hqs) as Hsl'.
          destruct (loop_iter st1 sl l' k' i f r (-1) P' ok tg x (or_intror eq_refl) HdP HqP HRP Hsl' HfP Hx Ehg)
            as (st2 & HR2 & Hroot2 & Hfr2 & Heq2).
          destruct (slot_set_agree st1 st sl (root_id P') Hag1r Hqs) as (Hsa1 & Hsa2).
          exists st2. split; [exact HR2|]. split.
          -- split; [congruence|]. intros j Hj. cbn [has] in Hj.
             rewrite Hfr2 by (cbn [has]; intros [->|[Hh|Hh]]; [tauto|apply Hj; auto|tauto]).
             apply Hsa2. apply Hsame; tauto.
          -- intros n. rewrite Hfuel, Heq1. rewrite El' at 1. cbn [root_id]. rewrite Heq2.
             destruct ok; cbn [negb]; [reflexivity|].
             rewrite (handle_growth_continue_root _ _ _ _ Ehg). reflexivity.
    - (* the search position is in the right subtree *)
      cbn [distinct] in Hd. destruct Hd as (H1 & H2 & H3 & H4 & H5).
      destruct Hcase as [(-> & Hla)|(Hrne & r' & gr & trr & Hir & Hstep)].
      + cbn [link leaf] in *. pose proof Hr as Hr0. cbn [Repr root_id] in Hr0. destruct Hr0 as (Hi & Hrl & (Hid & _ & _)).
        unfold link_adjust in Hla.
        destruct (add_factor (T l k' i f (leaf k id)) 1) as [p'|] eqn:Ea; [|discriminate]. unfold leaf in Ea.
        destruct (add_factor_root st _ _ k' i f _ 1 p' Hr H1 H2 Ea) as (st1 & Hrun & HR & Hroot & Hfr).
        cbn [add_factor] in Ea. destruct ((-1 <=? f + 1) && (f + 1 <=? 1)); [|discriminate]. injection Ea as <-.
        assert (Hu : u' = T l k' i (f + 1) (T E k id 0 E) /\ g = negb (f + 1 =? 0)).
        { destruct (f + 1 =? 0); injection Hla as <- <- _; auto. }
        destruct Hu as (-> & ->). exists st1. split; [exact HR|]. split.
        * cbn [root_id]. split; [congruence|]. intros j Hj. rewrite Hss2. apply Hfr. intros ->. apply Hj. cbn; auto.
        * intros n. cbn [depth pred Nat.add]. unfold m_insert_adjust, m_parent.
          rewrite (bind_rd _ _ _ _ _ _ _ Hid). cbn [cp nonnull]. rewrite (bind_rd _ _ _ _ _ _ _ Hi). cbn [cl].
          destruct (oid_eqb (root_id l) (Some id)) eqn:Eo.
          { apply oid_eqb_eq in Eo. exfalso. apply (H3 id); [apply root_has; exact Eo|cbn; auto]. }
          rewrite Hrun, bind_some. unfold m_factor.
          cbn [Repr] in HR. destruct HR as (Hi1 & _). rewrite (bind_rd _ _ _ _ _ _ _ Hi1). cbn [cf root_id].
          destruct (f + 1 =? 0); reflexivity.
      + pose proof Hr as Hr0. cbn [Repr] in Hr0. destruct Hr0 as (Hi & Hrl & Hrr).
        destruct (link_distinct _ _ _ _ _ _ Hir H5) as (Hdr & Hidr).
        destruct (ins_nodes _ _ _ _ _ _ Br Sr Hir Hdr Hidr) as (Br' & Hr'ne & Hdr' & Hsub).
        pose proof (link_has _ _ _ _ _ _ Hir) as Hlh.
        assert (Hsub' : forall j, has r' j -> has (link k id r) j) by (intros j Hj; apply Hlh; apply Hsub; exact Hj).
        assert (Hsl1 : slot_at st (SRight i) (root_id r)).
        { cbn [slot_at]. eexists. split; [exact Hi|]. cbn [cl cr]. split; [apply link_root; exact Hrne|].
          intros Heq. destruct r as [|rl rk y rf rr]; [congruence|]. cbn [root_id] in Heq.
          apply (H3 y); [apply root_has; exact Heq|]. apply Hlh. right. cbn; auto. }
        assert (Hq1 : forall q, slot_parent (SRight i) = Some q -> ~ has (link k id r) q) by (cbn; intros q [= <-]; exact H2).
        destruct (IHr r' gr trr st (SRight i) Hrne Br Sr Hir H5 Hq1 Hrr Hsl1) as (st1 & HR1 & Hag1 & Heq1).
        pose proof (Repr_after_right st st1 _ _ r' k' i f l Hr H2 H3 H1 HR1 Hag1) as HRP.
        destruct Hag1 as (Hag1r & Hag1h). rewrite rootp_slot_set_right in Hag1r.
        assert (Hsame : forall j, ~ has (link k id r) j -> j <> i -> hp st1 j = hp st j).
        { intros j Hj Hji. rewrite Hag1h by exact Hj. apply hp_slot_set_other. cbn. congruence. }
        assert (Hqs : forall q, slot_parent sl = Some q -> hp st1 q = hp st q).
        { intros q Hq0. pose proof (Hq q Hq0) as Hnq. cbn [has] in Hnq. apply Hsame; [tauto|]. intros ->. tauto. }
        assert (Hfuel : forall n, (depth k r + n = pred (depth k r) + S n)%nat).
        { intros n. rewrite (depth_pos k r Hrne) at 1. cbn [pred]. lia. }
        destruct gr. all: revgoals.
        * injection Hstep as <- <- _. exists st1. split; [exact HRP|]. split.
          -- cbn [root_id]. split; [congruence|]. intros j Hj. cbn [has] in Hj. rewrite Hss2. apply Hsame; tauto.
          -- intros n. rewrite Hfuel. apply Heq1.
        * unfold growth_step in Hstep.
          destruct (handle_growth 1 (T l k' i f r')) as [[[P' ok] tg]|] eqn:Ehg; [|discriminate]. injection Hstep as <- <- _.
          destruct r' as [|rl rk x rf rr] eqn:Er'; [congruence|]. rewrite <- Er' in *.
          assert (Hx : root_id (child (T l k' i f r') 1) = Some x) by (rewrite Er'; reflexivity).
          assert (HdP : distinct (T l k' i f r')).
          { cbn [distinct]. repeat split; auto. intros j Hj Hj'. apply (H3 j); auto. }
          assert (HqP : forall q, slot_parent sl = Some q -> ~ has (T l k' i f r') q).
          { intros q Hq0 Hh. apply (Hq q Hq0). cbn [has] in *. destruct Hh as [->|[Hh|Hh]]; auto. }
          assert (HfP : frange (T l k' i f r')).
          { cbn [frange]. split; [exact Hfi|]. split; apply balanced_frange; assumption. }
          pose proof (slot_at_agree st st1 sl (Some i) Hsl Hag1r Hqs) as Hsl'.
          destruct (loop_iter st1 sl l k' i f r' 1 P' ok tg x (or_introl eq_refl) HdP HqP HRP Hsl' HfP Hx Ehg)
            as (st2 & HR2 & Hroot2 & Hfr2 & Heq2).
          destruct (slot_set_agree st1 st sl (root_id P') Hag1r Hqs) as (Hsa1 & Hsa2).
          exists st2. split; [exact HR2|]. split.
          -- split; [congruence|]. intros j Hj. cbn [has] in Hj.
             rewrite Hfr2 by (cbn [has]; intros [->|[Hh|Hh]]; [tauto|tauto|apply Hj; auto]).
             apply Hsa2. apply Hsame; tauto.
          -- intros n. rewrite Hfuel, Heq1. rewrite Er' at 1. cbn [root_id]. rewrite Heq2.
             destruct ok; cbn [negb]; [reflexivity|].
             rewrite (handle_growth_continue_root _ _ _ _ Ehg). reflexivity.
  Qed.

  (* a_avl_insert_adjust implements the retrace of AvlDefs.ins: t is any balanced search tree, the heap lays out t with the
     new leaf linked at its search position (what a_avl_insert's descent and a_avl_init leave), fuel >= the number of nodes on
     the search path (<= height t).  The model of the function succeeds; the heap it returns lays out the tree the model's
     recursive insertion returns; no cell other than the nodes of t and the leaf is touched. *)
  Theorem m_insert_adjust_refines : forall k id t t' g tr st fuel,
    Balanced t -> Bst t -> NoDup (ids (link k id t)) ->
    ins k id t = IOk t' g tr ->
    Repr (hp st) None (link k id t) -> rootp st = root_id (link k id t) ->
    (depth k t <= fuel)%nat ->
    exists st', m_insert_adjust fuel st (Some id) = Some st' /\ Repr (hp st') None t' /\ rootp st' = root_id t' /\
      (forall j, j <> id -> ~ In j (ids t) -> hp st' j = hp st j).
  Proof.
    intros k id t t' g tr st fuel Bt St Hn Hins Hr Hroot Hfuel.
    destruct t as [|l k' i f r].
    - cbn [ins] in Hins. injection Hins as <- <- _. cbn [link] in *. unfold leaf in *. cbn [Repr root_id] in *.
      destruct Hr as (Hid & _ & _). exists st. split; [|split; [cbn [Repr]; auto|split; [exact Hroot|reflexivity]]].
      unfold m_insert_adjust, m_parent. rewrite (bind_rd _ _ _ _ _ _ _ Hid). reflexivity.
    - assert (Hne : T l k' i f r <> E) by discriminate.
      apply distinct_ids in Hn.
      assert (Hsl : slot_at st SRoot (root_id (T l k' i f r))) by (cbn [slot_at]; rewrite Hroot; apply link_root; exact Hne).
      assert (Hq : forall q, slot_parent SRoot = Some q -> ~ has (link k id (T l k' i f r)) q) by (cbn; discriminate).
      destruct (climb k id _ t' g tr st SRoot Hne Bt St Hins Hn Hq Hr Hsl) as (st1 & HR & (Hag1 & Hag2) & Heq).
      pose proof (link_has _ _ _ _ _ _ Hins) as Hlh.
      exists st1. split; [|split; [exact HR|split; [exact Hag1|]]].
      + rewrite (depth_pos k _ Hne) in Hfuel.
        replace fuel with (pred (depth k (T l k' i f r)) + S (fuel - S (pred (depth k (T l k' i f r)))))%nat by lia.
        rewrite Heq. destruct g; [|reflexivity].
        destruct (ins_nodes _ _ _ _ _ _ Bt St Hins) as (_ & Hne' & _).
        { exact (proj1 (link_distinct _ _ _ _ _ _ Hins Hn)). }
        { exact (proj2 (link_distinct _ _ _ _ _ _ Hins Hn)). }
        destruct t' as [|l' k'' x f' r']; [congruence|]. cbn [Repr root_id] in *. destruct HR as (Hx & _).
        cbn [m_adjust_loop]. unfold m_parent. rewrite (bind_rd _ _ _ _ _ _ _ Hx). reflexivity.
      + intros j Hj Hnj. rewrite Hag2; [reflexivity|]. intros Hh. apply Hlh in Hh. destruct Hh as [->|Hh]; [congruence|].
        apply Hnj. apply has_ids. exact Hh.
  Qed.
End InsertAdjust.

From LibaV Require C01.AvlHeap.

(* ================================================================== Part 7: the canonical heap of AvlDefs.heap_of is such a layout *)

(* the pointer part of a record of AvlDefs.heap_of (what the correspondence run compares with the C after every operation) *)
Definition strip (c : cell) : pcell := mkC (c_left c) (c_right c) (c_parent c) (c_factor c).
Definition heap_fn (h : list (Z * cell)) : Z -> option pcell := fun i => option_map strip (lookup h i).

Lemma Repr_of_list : forall h p t, AvlHeap.Repr h p t -> Repr (heap_fn h) p t.
Proof.
  intros h p t H. induction H as [p|p l k i f r Hl _ IHl _ IHr]; [exact I|].
  cbn [Repr]. split; [|split; assumption]. unfold heap_fn. rewrite Hl. reflexivity.
Qed.

Lemma Repr_heap_of : forall t, NoDup (ids t) -> Repr (heap_fn (heap_of None t)) None t.
Proof.
  intros t Hn. apply Repr_of_list. apply AvlHeap.repr_sub; [apply AvlHeap.heap_nodup; exact Hn|auto].
Qed.
