(* C17 -- CRC and hash routines equal their definitions and compose over concatenation.
   Statements only; proofs are in C17/*Proofs.v, non-vacuity examples in C17/CrcExamples.v.

   Vocabulary (coq/C17/CrcDefs.v):
     width = W8|W16|W32|W64, bits k = 8|16|32|64
     a_crc_m_init / a_crc_l_init k poly   : the 256-entry table built by a_crc<N>m_init / a_crc<N>l_init
     a_crc_m / a_crc_l k table data value : a_crc8 / a_crc<N>m / a_crc<N>l  (option: table reads are bounds-checked)
     a_rev k                              : a_u<N>_rev
     crc_bits_m w poly data v             : bit-serial division, one message bit per clock, MSB first
     crc_bits_l k poly data v             : the same LSB first with the mirrored generator bitrev poly
     bitrev n x                           : bit i of the result = bit n-1-i of x
     clmul, msg_poly                      : GF(2)[x] product, message as a polynomial
     hash_len mul / hash_str_ptr mul      : a_hash_{bkdr,sdbm}_ / a_hash_{bkdr,sdbm} with mul = 131 / 65599
     bytes data  = every element < 256 ;  nul_free s = no element is 0                              *)
From Coq Require Import NArith List.
From LibaV Require Import C17.CrcDefs C17.RevProofs C17.MainProofs C17.CrcExamples.
Import ListNotations.
Local Open Scope N_scope.

(* ---- a_u8_rev .. a_u64_rev are the bit mirror, for every word of the width ---- *)
Theorem rev_is_bit_mirror : forall k x i, x < 2 ^ bits k -> i < bits k ->
  N.testbit (a_rev k x) i = N.testbit x (bits k - 1 - i).
Proof. exact a_rev_testbit. Qed.
Print Assumptions rev_is_bit_mirror.

Theorem rev_eq_bitrev : forall k x, x < 2 ^ bits k -> a_rev k x = bitrev (nbits k) x.
Proof. exact a_rev_spec. Qed.
Print Assumptions rev_eq_bitrev.

Theorem rev_involutive : forall k x, x < 2 ^ bits k -> a_rev k (a_rev k x) = x.
Proof. exact a_rev_involutive. Qed.
Print Assumptions rev_involutive.

(* ---- table entries: entry c is the bit-serial CRC of the one-byte message c from value 0 ---- *)
Theorem crc_table_entry_m : forall k poly c, poly < 2 ^ bits k -> c < 256 ->
  tab_get (a_crc_m_init k poly) c = Some (crc_bits_m (bits k) poly [c] 0).
Proof. exact table_entry_m. Qed.
Print Assumptions crc_table_entry_m.

Theorem crc_table_entry_l : forall k poly c, poly < 2 ^ bits k -> c < 256 ->
  tab_get (a_crc_l_init k poly) c = Some (crc_bits_l k poly [c] 0).
Proof. exact table_entry_l. Qed.
Print Assumptions crc_table_entry_l.

(* ---- table-driven CRC = bit-by-bit division, every width / polynomial / initial value / message ---- *)
Theorem crc_table_eq_bits_m : forall k poly data init,
  poly < 2 ^ bits k -> init < 2 ^ bits k -> bytes data ->
  a_crc_m k (a_crc_m_init k poly) data init = Some (crc_bits_m (bits k) poly data init).
Proof. exact MainProofs.crc_table_eq_bits_m. Qed.
Print Assumptions crc_table_eq_bits_m.

Theorem crc_table_eq_bits_l : forall k poly data init,
  poly < 2 ^ bits k -> init < 2 ^ bits k -> bytes data ->
  a_crc_l k (a_crc_l_init k poly) data init = Some (crc_bits_l k poly data init).
Proof. exact MainProofs.crc_table_eq_bits_l. Qed.
Print Assumptions crc_table_eq_bits_l.

(* ---- the bit-serial register computes the remainder of the polynomial division:
        init*x^(8n) + M(x)*x^w = q*(x^w + poly) + crc,  deg crc < w ---- *)
Theorem crc_bits_m_remainder : forall w poly data init,
  1 <= w -> poly < 2 ^ w -> init < 2 ^ w -> bytes data ->
  crc_bits_m w poly data init < 2 ^ w /\
  exists q,
    N.lxor (N.shiftl init (8 * N.of_nat (length data))) (N.shiftl (msg_poly data) w) =
    N.lxor (clmul q (N.lor (2 ^ w) poly)) (crc_bits_m w poly data init).
Proof. exact MainProofs.crc_bits_m_remainder. Qed.
Print Assumptions crc_bits_m_remainder.

Theorem crc_m_is_remainder : forall k poly data init,
  poly < 2 ^ bits k -> init < 2 ^ bits k -> bytes data ->
  exists r q, a_crc_m k (a_crc_m_init k poly) data init = Some r /\ r < 2 ^ bits k /\
    N.lxor (N.shiftl init (8 * N.of_nat (length data))) (N.shiftl (msg_poly data) (bits k)) =
    N.lxor (clmul q (N.lor (2 ^ bits k) poly)) r.
Proof. exact MainProofs.crc_m_is_remainder. Qed.
Print Assumptions crc_m_is_remainder.

(* ---- the two bit orders are related by bit reflection of polynomial, data and value ---- *)
Theorem crc_reflect : forall k poly data init,
  poly < 2 ^ bits k -> init < 2 ^ bits k -> bytes data ->
  a_crc_l k (a_crc_l_init k poly) data init =
  option_map (bitrev (nbits k))
    (a_crc_m k (a_crc_m_init k poly) (map (bitrev 8) data) (bitrev (nbits k) init)).
Proof. exact MainProofs.crc_reflect. Qed.
Print Assumptions crc_reflect.

(* the same, with the library's own a_u<N>_rev / a_u8_rev doing the reflecting *)
Theorem crc_reflect_c : forall k poly data init,
  poly < 2 ^ bits k -> init < 2 ^ bits k -> bytes data ->
  a_crc_l k (a_crc_l_init k poly) data init =
  option_map (a_rev k) (a_crc_m k (a_crc_m_init k poly) (map a_u8_rev data) (a_rev k init)).
Proof. exact MainProofs.crc_reflect_c. Qed.
Print Assumptions crc_reflect_c.

(* the reference registers themselves are mirror images (no table involved) *)
Theorem crc_bits_reflect : forall k poly data v,
  crc_bits_l k poly data (bitrev (nbits k) v) =
  bitrev (nbits k) (crc_bits_m (bits k) poly (map (bitrev 8) data) v).
Proof. exact CrcProofs.crc_bits_reflect. Qed.
Print Assumptions crc_bits_reflect.

(* ---- feeding a message in pieces with the running value carried over: every split point,
        any table, any value ---- *)
Theorem crc_concat_m : forall k table a b v,
  a_crc_m k table (a ++ b) v = obind (a_crc_m k table a v) (a_crc_m k table b).
Proof. exact MainProofs.crc_concat_m. Qed.
Print Assumptions crc_concat_m.

Theorem crc_concat_l : forall k table a b v,
  a_crc_l k table (a ++ b) v = obind (a_crc_l k table a v) (a_crc_l k table b).
Proof. exact MainProofs.crc_concat_l. Qed.
Print Assumptions crc_concat_l.

Theorem crc_split_m : forall k table data n v,
  a_crc_m k table data v = obind (a_crc_m k table (firstn n data) v) (a_crc_m k table (skipn n data)).
Proof. exact MainProofs.crc_split_m. Qed.
Print Assumptions crc_split_m.

Theorem crc_split_l : forall k table data n v,
  a_crc_l k table data v = obind (a_crc_l k table (firstn n data) v) (a_crc_l k table (skipn n data)).
Proof. exact MainProofs.crc_split_l. Qed.
Print Assumptions crc_split_l.

(* with a generated table no read fails, the carried value stays a w-bit word *)
Theorem crc_chunked_m : forall k poly a b init,
  poly < 2 ^ bits k -> init < 2 ^ bits k -> bytes a -> bytes b ->
  exists v1 v2, a_crc_m k (a_crc_m_init k poly) a init = Some v1 /\ v1 < 2 ^ bits k /\
                a_crc_m k (a_crc_m_init k poly) b v1 = Some v2 /\
                a_crc_m k (a_crc_m_init k poly) (a ++ b) init = Some v2.
Proof. exact MainProofs.crc_chunked_m. Qed.
Print Assumptions crc_chunked_m.

Theorem crc_chunked_l : forall k poly a b init,
  poly < 2 ^ bits k -> init < 2 ^ bits k -> bytes a -> bytes b ->
  exists v1 v2, a_crc_l k (a_crc_l_init k poly) a init = Some v1 /\ v1 < 2 ^ bits k /\
                a_crc_l k (a_crc_l_init k poly) b v1 = Some v2 /\
                a_crc_l k (a_crc_l_init k poly) (a ++ b) init = Some v2.
Proof. exact MainProofs.crc_chunked_l. Qed.
Print Assumptions crc_chunked_l.

(* ---- hashes (mul = BKDR 131 or SDBM 65599, or any multiplier) ---- *)
Theorem hash_concat : forall mul a b v,
  hash_len mul (a ++ b) v = hash_len mul b (hash_len mul a v).
Proof. exact MainProofs.hash_concat. Qed.
Print Assumptions hash_concat.

Theorem hash_split : forall mul s n v,
  hash_len mul s v = hash_len mul (skipn n s) (hash_len mul (firstn n s) v).
Proof. exact MainProofs.hash_split. Qed.
Print Assumptions hash_split.

(* string form = length form on the bytes before the terminator, whatever follows it *)
Theorem hash_str_eq_len : forall mul s rest v, nul_free s ->
  hash_str_ptr mul (Some (s ++ 0 :: rest)) v = Some (hash_len mul s v).
Proof. exact MainProofs.hash_str_eq_len. Qed.
Print Assumptions hash_str_eq_len.

Theorem hash_str_chunked : forall mul a b rest v, nul_free a -> nul_free b ->
  hash_str_ptr mul (Some ((a ++ b) ++ 0 :: rest)) v =
  hash_str_ptr mul (Some (b ++ 0 :: rest)) (hash_len mul a v).
Proof. exact MainProofs.hash_str_chunked. Qed.
Print Assumptions hash_str_chunked.

Theorem hash_null : forall mul v, hash_str_ptr mul None v = Some v.
Proof. exact MainProofs.hash_null. Qed.
Print Assumptions hash_null.

(* closed form: v*mul^n + sum s_i*mul^(n-1-i)  (mod 2^32) *)
Theorem hash_len_closed : forall mul s v, v < 2 ^ 32 ->
  hash_len mul s v = (v * mul ^ N.of_nat (length s) + hash_sum mul s) mod 2 ^ 32.
Proof. exact MainProofs.hash_len_closed. Qed.
Print Assumptions hash_len_closed.
