(* C17 -- property theorems (statements only; proofs are in C17/*Proofs.v). *)
From Coq Require Import NArith List.
From LibaV Require Import C17.CrcDefs C17.CrcProofs.
Import ListNotations.
Local Open Scope N_scope.

Theorem crc_loop_concat : forall upd a b v,
  crc_loop upd (a ++ b) v = obind (crc_loop upd a v) (crc_loop upd b).
Proof. exact crc_loop_app. Qed.
Print Assumptions crc_loop_concat.
