(* C18 -- UTF-8 codec (src/utf.c): property theorems over the model coq/C18/UtfDefs.v.
   Nothing here but statements closed by `exact`; proofs are in coq/C18/*.v.
   The vocabulary (model functions, utf8_len / utf8_table / spec_decode / nlead / take_conts,
   bytes_ok, walk, valid_cp, encode_all) is all defined in coq/C18/UtfDefs.v.
   Conventions: bytes are N (bytes_ok s: every element < 256); `decode s num want` is a_utf_decode
   on memory s with exactly num bytes made available (every read goes through a checked accessor:
   DOver = a byte at index >= num was read); `want` = (val != NULL); DRet r v: return value r,
   v = Some c iff *val = c was stored. *)
From Coq Require Import NArith List.
From LibaV Require Import C18.UtfDefs C18.UtfDecProofs C18.UtfDecTheorems C18.UtfRoundTrip
  C18.UtfLenProofs C18.UtfLen2Proofs C18.UtfMain.
Import ListNotations.
Local Open Scope N_scope.

(* 1. every code point 1 .. 2^31-1 is encoded into the number of bytes the table prescribes (both
      with buf == NULL and with a buffer), the bytes are the table's, cells behind them are untouched *)
Theorem C18_encode_length : forall x l,
  0 < x < 2147483648 -> utf8_len x <= N.of_nat (length l) ->
  a_utf_encode x None = ERet (utf8_len x) None /\
  a_utf_encode x (Some l) =
    ERet (utf8_len x) (Some (map Some (utf8_table x) ++ skipn (N.to_nat (utf8_len x)) l)) /\
  N.of_nat (length (utf8_table x)) = utf8_len x.
Proof. exact main_encode_length. Qed.
Print Assumptions C18_encode_length.

(* 2. decoding those bytes (followed by anything, any stated length covering them) returns the same
      length and the same code point *)
Theorem C18_decode_encode : forall x rest num want,
  0 < x < 2147483648 -> bytes_ok rest ->
  utf8_len x <= num <= N.of_nat (length (utf8_table x ++ rest)) ->
  decode (utf8_table x ++ rest) num want = DRet (utf8_len x) (if want then Some x else None).
Proof. exact decode_encode. Qed.
Print Assumptions C18_decode_encode.

(* 3. decoding any proper prefix reports failure (and stores nothing), whatever follows in memory *)
Theorem C18_decode_prefix_fails : forall x s num want,
  0 < x < 2147483648 -> num < utf8_len x ->
  num <= N.of_nat (length s) -> bytes_ok s ->
  firstn (N.to_nat num) s = firstn (N.to_nat num) (utf8_table x) ->
  decode s num want = DRet 0 None.
Proof. exact decode_prefix_fails. Qed.
Print Assumptions C18_decode_prefix_fails.

(* 4. for arbitrary byte input the decoder never reads beyond the stated length: no checked read
      fails, fuel never runs out, and the result is a function of the first num bytes only *)
Theorem C18_decode_no_overread : forall s num want,
  num <= N.of_nat (length s) -> bytes_ok s ->
  (exists r v, decode s num want = DRet r v) /\
  (forall s', num <= N.of_nat (length s') -> bytes_ok s' ->
     firstn (N.to_nat num) s' = firstn (N.to_nat num) s ->
     decode s' num want = decode s num want).
Proof. exact main_decode_no_overread. Qed.
Print Assumptions C18_decode_no_overread.

(* 5. never reports more bytes than are available *)
Theorem C18_decode_len_le_num : forall s num want r v,
  num <= N.of_nat (length s) -> bytes_ok s ->
  decode s num want = DRet r v -> r <= num /\ r <= 6.
Proof. exact decode_len_le_num. Qed.
Print Assumptions C18_decode_len_le_num.

(* 6. a multi-byte sequence is accepted only if all its trailing bytes are continuation bytes *)
Theorem C18_decode_accepts_only_continuations : forall s num want r v,
  num <= N.of_nat (length s) -> bytes_ok s ->
  decode s num want = DRet r v -> 2 <= r ->
  (exists b, nth_error s 0 = Some b /\ 192 <= b < 254 /\ nlead b + 1 = r) /\
  (forall i, 1 <= i < r -> exists c, nth_error s (N.to_nat i) = Some c /\ 128 <= c < 192).
Proof. exact decode_accepts_only_continuations. Qed.
Print Assumptions C18_decode_accepts_only_continuations.

(* 7. the val == NULL branch (used by a_utf_length) reports the same length as the val branch *)
Theorem C18_decode_null_same_length : forall s num r v,
  num <= N.of_nat (length s) -> bytes_ok s ->
  decode s num true = DRet r v -> decode s num false = DRet r None.
Proof. exact decode_want_irrelevant. Qed.
Print Assumptions C18_decode_null_same_length.

(* 8. a_utf_length: count and *stop are those of the walk that advances by exactly the lengths the
      decoder reports and ends at the first position where it reports 0 (see C18_decode_zero) *)
Theorem C18_length_advances : forall s num w,
  num <= N.of_nat (length s) -> num < SZ -> bytes_ok s ->
  exists c k,
    a_utf_length s num w = NRet c (if w then Some k else None) /\
    walk s num c k /\ k <= num /\ c <= k.
Proof. exact length_advances. Qed.
Print Assumptions C18_length_advances.

Theorem C18_decode_zero : forall s num v,
  num <= N.of_nat (length s) -> bytes_ok s ->
  decode s num false = DRet 0 v ->
  num = 0 \/ nth_error s 0 = Some 0 \/
  exists b, nth_error s 0 = Some b /\ 128 <= b < 256 /\
            take_conts (N.to_nat (nlead b)) (firstn (N.to_nat (N.min num 6) - 1) (tl s)) 0 = None.
Proof. exact decode_zero_cases. Qed.
Print Assumptions C18_decode_zero.

(* 9. complete characterisation: the model of the C decoder is the declarative decoder *)
Theorem C18_decode_exact : forall s num want,
  num <= N.of_nat (length s) -> bytes_ok s ->
  decode s num want = DRet (fst (spec_decode s num want)) (snd (spec_decode s num want)).
Proof. exact decode_eq_spec. Qed.
Print Assumptions C18_decode_exact.

(* 10. over-long lead bytes 0xFE / 0xFF are always rejected; a stray continuation byte in lead
       position is taken as a ONE-byte character (the statement's clauses do not exclude that) *)
Theorem C18_decode_FE_FF_rejected : forall s num want b,
  num <= N.of_nat (length s) -> bytes_ok s ->
  nth_error s 0 = Some b -> 254 <= b ->
  decode s num want = DRet 0 None.
Proof. exact decode_FE_FF_rejected. Qed.
Print Assumptions C18_decode_FE_FF_rejected.

Theorem C18_decode_stray_continuation : forall s num b,
  1 <= num <= N.of_nat (length s) -> bytes_ok s ->
  nth_error s 0 = Some b -> 128 <= b < 192 ->
  decode s num true = DRet 1 (Some (b mod 64)).
Proof. exact decode_stray_continuation. Qed.
Print Assumptions C18_decode_stray_continuation.

(* 11. the model's store check is live: a buffer shorter than the reported length is flagged *)
Theorem C18_encode_overwrite_detected : forall x l,
  0 < x < 2147483648 -> N.of_nat (length l) < utf8_len x -> a_utf_encode x (Some l) = EOver.
Proof. exact main_encode_overwrite_detected. Qed.
Print Assumptions C18_encode_overwrite_detected.

(* 12. on a well-formed string (the concatenated encodings of any code points 1 .. 2^31-1) both
       counters return the number of code points and a_utf_length consumes the whole string *)
Theorem C18_length_on_encoded : forall xs w,
  Forall valid_cp xs -> N.of_nat (length (encode_all xs)) < SZ ->
  a_utf_length (encode_all xs) (N.of_nat (length (encode_all xs))) w =
  NRet (N.of_nat (length xs)) (if w then Some (N.of_nat (length (encode_all xs))) else None).
Proof. exact length_on_encoded. Qed.
Print Assumptions C18_length_on_encoded.

Theorem C18_length__on_encoded : forall xs,
  Forall valid_cp xs -> N.of_nat (length (encode_all xs)) < SZ ->
  a_utf_length_ (encode_all xs) (N.of_nat (length (encode_all xs))) = NRet (N.of_nat (length xs)) None.
Proof. exact length__on_encoded. Qed.
Print Assumptions C18_length__on_encoded.

(* 13. a_utf_length_ (non-validating) never reads a byte at an index >= num, for any byte string *)
Theorem C18_length__no_overread : forall s num,
  num <= N.of_nat (length s) -> exists l, a_utf_length_ s num = NRet l None.
Proof. exact length__no_overread. Qed.
Print Assumptions C18_length__no_overread.
