(* placeholder while the pipeline is brought up; replaced by the real statements *)
From Coq Require Import ZArith List.
From LibaV Require Import C02.RbtDefs.
Theorem rb_find_empty : forall k, find k E = None.
Proof. exact (fun k => eq_refl). Qed.
Print Assumptions rb_find_empty.
