(* Property C02 - red-black tree (src/rbt.c, include/a/rbt.h).
   "After every insert or remove, in any interleaving, the red-black container holds exactly the elements
    inserted and not yet removed as a binary search tree whose root is black, in which no red node has a
    red child, every path from the root to a missing child crosses the same number of black nodes, and
    parent links agree with child links.  Duplicate insertion returns the resident element unchanged and
    lookup finds an element exactly when it is present."

   Model: coq/C02/RbtDefs.v (run / step / insert / remove / find / heap_of).  Vocabulary: coq/C02/RbtSpec.v
   (RB, no_red_red, equal_black_paths, BST, amap / astep / arun, holds, reachable, links_consistent).
   Non-vacuity examples: coq/C02/RbtExamples.v.  All theorems are for every finite history / every tree;
   nothing is bounded. *)
From Coq Require Import ZArith List.
From LibaV Require Import C02.RbtDefs C02.RbtSpec C02.RbtInvProofs C02.RbtSetProofs C02.RbtHeapProofs
  C02.RbtMainProofs C02.RbtExamples.
Import ListNotations.

(* root black /\ no red node has a red child /\ all root-to-missing-child paths cross equally many black
   nodes /\ binary search tree, after every operation of every history *)
Theorem rb_inv_reachable :
  forall (ops : list op) (t : tree) (rs : list ret), run E ops = (t, rs) -> RB t.
Proof. exact rb_inv_reachable_lemma. Qed.
Print Assumptions rb_inv_reachable.

(* the container holds exactly the abstract contents (a map key -> node identity evolving by astep);
   all return values (inserted / duplicate resident / removed node / found node / none) are the abstract
   ones; lookup answers exactly the abstract map; the in-order listing is strictly increasing *)
Theorem rb_refines_set :
  forall (ops : list op) (t : tree) (rs : list ret),
    run E ops = (t, rs) ->
    rs = snd (arun aempty ops) /\
    holds t (fst (arun aempty ops)) /\
    (forall k, find k t = fst (arun aempty ops) k) /\
    sorted (elems t).
Proof. exact rb_refines_set_lemma. Qed.
Print Assumptions rb_refines_set.

(* duplicate insertion: the resident is returned, the tree is the same tree; and the returned node is
   the one carrying the key *)
Theorem rb_duplicate_insert_unchanged :
  forall t k i t' j tg,
    step t (OpInsert k i) = (t', RetDup j, tg) -> t' = t /\ insert k i t = InsertDup j.
Proof. exact rb_dup_lemma. Qed.
Print Assumptions rb_duplicate_insert_unchanged.

Theorem rb_duplicate_insert_resident :
  forall t k i j,
    reachable t -> insert k i t = InsertDup j -> In (k, j) (elems t) /\ find k t = Some j.
Proof. exact rb_dup_resident_lemma. Qed.
Print Assumptions rb_duplicate_insert_resident.

(* parent links agree with child links: for EVERY tree with pairwise distinct node identities ... *)
Theorem heap_of_parent_links :
  forall t : tree, NoDup (ids t) -> links_consistent (root_id t) (heap_of t).
Proof. exact heap_of_parent_links_lemma. Qed.
Print Assumptions heap_of_parent_links.

(* ... in particular after every history that never inserts a node that is currently linked *)
Theorem rb_parent_links_reachable :
  forall (ops : list op) (t : tree) (rs : list ret),
    fresh_run E ops = true -> run E ops = (t, rs) ->
    links_consistent (root_id t) (heap_of t).
Proof. exact rb_parent_links_lemma. Qed.
Print Assumptions rb_parent_links_reachable.

(* the model never takes a path on which the C dereferences NULL or violates an A_ASSUME *)
Theorem rb_no_fault :
  forall (ops : list op) (t : tree) (rs : list ret), run E ops = (t, rs) -> ~ In RetFault rs.
Proof. exact rb_no_fault_lemma. Qed.
Print Assumptions rb_no_fault.

Theorem rb_assume_facts :
  forall (t : tree) (x : Z),
    reachable t ->
    remove x t <> RemoveFault /\
    (forall xi, insert x xi t <> InsertFault) /\
    (forall j t' tg, remove x t = RemoveOk j t' tg -> ~ In TF_null_mirror tg).
Proof. exact rb_assume_lemma. Qed.
Print Assumptions rb_assume_facts.

(* the A_ASSUME hints of a_rbt_remove_adjust as facts about a deficient position: the sibling of a
   subtree lacking one black node is not null (rbt.c:239, :339); a red sibling has two non-null
   children (rbt.c:250, :344) *)
Theorem rb_assume_sibling_nonnull :
  forall n s : tree, S (bh n) = bh s -> s <> E.
Proof. exact assume_sibling_nonnull. Qed.
Print Assumptions rb_assume_sibling_nonnull.

Theorem rb_assume_red_sibling_children_nonnull :
  forall n sl sk si sr,
    rbwf (T Red sl sk si sr) -> S (bh n) = bh (T Red sl sk si sr) -> sl <> E /\ sr <> E.
Proof. exact assume_red_sibling_children_nonnull. Qed.
Print Assumptions rb_assume_red_sibling_children_nonnull.

(* the removal invariant, per subtree: a deficit status means "valid, black height one less" *)
Theorem rb_removal_invariant :
  forall x t,
    rbwf t ->
    match del x t with
    | DelAbsent => True
    | DelRes _ t' st tg =>
        match st with
        | DNone => rbwf t' /\ bh t' = bh t /\ (col t = Black -> col t' = Black)
        | DNull => t' = E /\ bh t = 1%nat
        | DNode => rbwf t' /\ S (bh t') = bh t /\ col t' = Black
        | DFault => False
        end /\ ~ In TF_null_mirror tg
    end.
Proof. exact del_inv_holds. Qed.
Print Assumptions rb_removal_invariant.

(* the local invariant used in the proofs is exactly the worded one *)
Theorem rb_local_invariant_is_worded :
  forall t, rbwf t <-> no_red_red t /\ equal_black_paths t.
Proof. exact rbwf_iff_worded. Qed.
Print Assumptions rb_local_invariant_is_worded.

(* sanity: these are the real red-black conditions - they force logarithmic height *)
Theorem rb_height_log :
  forall (ops : list op) (t : tree) (rs : list ret),
    run E ops = (t, rs) -> (height t <= 2 * Nat.log2 (size t + 1))%nat.
Proof. exact rb_height_log_reachable. Qed.
Print Assumptions rb_height_log.
