(** * C04 — the abstract sequence, the representation invariant and the specification relation

    NO proofs in this file.  [abs] maps a container state to the abstract sequence it represents;
    [op_spec] says, for every operation, what the abstract sequence, the result value, the returned
    pointer and the destructor calls must be. *)
From Coq Require Import NArith List Bool Sorting.Sorted Sorting.Permutation.
From LibaV Require Import C04.VecDefs.
Import ListNotations.
Local Open Scope N_scope.

(** ** abstraction and invariant *)
Definition abs (a : arr) : list elem := firstn (N.to_nat (a_num a)) (a_sl a).

Definition elem_ok (siz : N) (e : elem) : Prop := length e = N.to_nat siz.

Record arr_inv (a : arr) : Prop := mk_arr_inv {
  inv_siz : 0 < a_siz a;                                  (* element size at least one *)
  inv_num : a_num a <= a_mem a;                           (* count never exceeds capacity *)
  inv_len : nlen (a_sl a) = a_mem a;                      (* capacity is the storage really owned *)
  inv_bytes : a_siz a * a_mem a < HALF;                   (* its size in bytes fits a_diff *)
  inv_elem : Forall (elem_ok (a_siz a)) (a_sl a)          (* every slot has siz bytes *)
}.

Definition vec_inv (v : vec) : Prop :=
  arr_inv (v_arr v) /\ (v_ptr v = None -> a_mem (v_arr v) = 0).
Definition buf_inv (b : buf) : Prop := arr_inv (b_arr b) /\ BUF_HDR + a_siz (b_arr b) * a_mem (b_arr b) < HALF.

(** a pointer [off] (bytes from the base) designates slot [k] of the owned storage *)
Definition slot_ptr (siz mem k off : N) : Prop := off = siz * k /\ k < mem.

(** ** the abstract sequence operations *)
Section Spec.
  Variable cmp : elem -> elem -> comparison.
  Notation gtb := (gtb cmp).

  Definition le (a b : elem) : Prop := gtb a b = false.      (* "a does not go after b" *)
  Definition sorted (l : list elem) : Prop := StronglySorted le l.

  Definition clampn (l : list elem) (idx : N) : nat := N.to_nat (N.min idx (nlen l)).
  Definition sp_insert (l : list elem) (idx : N) (v : elem) : list elem :=
    firstn (clampn l idx) l ++ v :: skipn (clampn l idx) l.
  Definition sp_store (l : list elem) (idx : N) (vs : list elem) : list elem :=
    firstn (clampn l idx) l ++ vs ++ skipn (clampn l idx) l.
  (* position removed by remove(idx) on a non-empty sequence: idx, or the last one *)
  Definition rm_pos (l : list elem) (idx : N) : nat := N.to_nat (N.min idx (nlen l - 1)).
  Definition sp_remove (l : list elem) (idx : N) : list elem :=
    firstn (rm_pos l idx) l ++ skipn (S (rm_pos l idx)) l.
  Definition sp_removed (l : list elem) (idx : N) : elem := nth (rm_pos l idx) l [].
  (* erase(idx, cnt), idx < length: the elements idx .. idx+cnt-1, clamped at the end (no wrap) *)
  Definition er_end (l : list elem) (idx cnt : N) : nat := N.to_nat (N.min (idx + cnt) (nlen l)).
  Definition sp_erase (l : list elem) (idx cnt : N) : list elem :=
    firstn (N.to_nat idx) l ++ skipn (er_end l idx cnt) l.
  Definition sp_erased (l : list elem) (idx cnt : N) : list elem :=
    firstn (er_end l idx cnt - N.to_nat idx)%nat (skipn (N.to_nat idx) l).
  Definition sp_setn (l : list elem) (n : N) (fill : elem) : list elem :=
    firstn (N.to_nat n) l ++ repeat fill (N.to_nat n - length l)%nat.

  Fixpoint takewhile (f : elem -> bool) (l : list elem) : list elem :=
    match l with [] => [] | x :: t => if f x then x :: takewhile f t else [] end.
  (* sort_fore: the head moves behind every leading element of the rest that it goes after *)
  Definition sp_sort_fore (l : list elem) : list elem :=
    match l with
    | [] => []
    | x :: t => let i := length (takewhile (fun y => gtb x y) t) in firstn i t ++ x :: skipn i t
    end.
  (* sort_back: the last element moves before every trailing element that goes after it *)
  Definition sp_sort_back (l : list elem) : list elem :=
    match rev l with
    | [] => []
    | x :: rt => let i := (length rt - length (takewhile (fun y => gtb y x) rt))%nat in
                 firstn i (rev rt) ++ x :: skipn i (rev rt)
    end.
  (* push_sort: upper bound — behind every element that does not go after the key *)
  Definition ub_pos (l : list elem) (key : elem) : nat :=
    (length l - length (takewhile (fun y => gtb y key) (rev l)))%nat.
  Definition sp_push_sort (l : list elem) (key : elem) : list elem :=
    firstn (ub_pos l key) l ++ key :: skipn (ub_pos l key) l.

  Definition sp_find (l : list elem) (key : elem) : option elem :=
    find (fun e => match cmp key e with Eq => true | _ => false end) l.

  (** ** the specification relation
      [k]: vector (grows, may report A_OMEMORY) or buffer (refuses).  [mem]/[mem']: capacity before
      and after.  The operation may fail only when the capacity did not suffice. *)
  Inductive kind := KVec | KBuf.

  Definition same (siz siz' : N) (l l' d : list elem) : Prop := siz' = siz /\ l' = l /\ d = [].
  Definition null_ptr (r : ret) : Prop := r = RPtr None None.

  Definition elem_at (l : list elem) (k : N) : option elem :=
    if k <? nlen l then Some (nth (N.to_nat k) l []) else None.

  (* capacity: the vector may only grow, the buffer keeps its capacity *)
  Definition grows (k : kind) (mem mem' : N) : Prop :=
    match k with KVec => mem <= mem' | KBuf => mem' = mem end.

  Definition ptr_spec (siz mem' : N) (l : list elem) (r : ret) (k : option N) : Prop :=
    match k with
    | None => null_ptr r
    | Some k => exists off, r = RPtr (Some off) (elem_at l k) /\ slot_ptr siz mem' k off
    end.

  Definition op_spec (k : kind) (siz mem : N) (l : list elem) (o : op)
             (r : ret) (d : list elem) (siz' mem' : N) (l' : list elem) : Prop :=
    match o with
    | OSetm m =>
        match k with
        | KVec => (r = RInt A_SUCCESS /\ m <= mem' /\ grows k mem mem' /\ same siz siz' l l' d)
                  \/ (r = RInt A_OMEMORY /\ mem < m /\ mem' = mem /\ same siz siz' l l' d)
        | KBuf => (r = RInt A_SUCCESS /\ mem' = m /\ siz' = siz /\ d = [] /\ l' = firstn (N.to_nat m) l)
                  \/ (r = RInt A_OMEMORY /\ mem' = mem /\ same siz siz' l l' d)
        end
    | OSetn n dt fill =>
        match k with
        | KVec => (r = RInt A_SUCCESS /\ n <= mem' /\ siz' = siz
                   /\ l' = sp_setn l n (fit siz fill)
                   /\ d = if dt then rev (skipn (N.to_nat n) l) else [])
                  \/ (r = RInt A_OMEMORY /\ mem < n /\ mem' = mem /\ same siz siz' l l' d)
        | KBuf => r = RVoid /\ mem' = mem /\ siz' = siz
                  /\ l' = sp_setn l (N.min n mem) (fit siz fill)
                  /\ d = if dt then rev (skipn (N.to_nat n) l) else []
        end
    | OSetz z dt =>
        r = RVoid /\ siz' = (if z =? 0 then 1 else z) /\ l' = []
        /\ mem' = mem * siz / siz' /\ d = if dt then rev l else []
    | OSort => r = RVoid /\ mem' = mem /\ siz' = siz /\ d = [] /\ l' = isort cmp l
    | OSortFore =>
        r = RVoid /\ mem' = mem /\ siz' = siz /\ d = [] /\ Permutation l l'
        /\ ((nlen l = mem \/ sorted (tl l)) -> l' = sp_sort_fore l)
    | OSortBack =>
        r = RVoid /\ mem' = mem /\ siz' = siz /\ d = [] /\ Permutation l l'
        /\ ((nlen l = mem \/ sorted (removelast l)) -> l' = sp_sort_back l)
    | OPushSort key0 =>
        let key := fit siz key0 in
        (null_ptr r /\ mem < nlen l + 1 /\ mem' = mem /\ same siz siz' l l' d)
        \/ (exists off p, r = RPtr (Some off) (Some key) /\ slot_ptr siz mem' p off /\ p <= nlen l
                          /\ siz' = siz /\ d = [] /\ grows k mem mem'
                          /\ l' = firstn (N.to_nat p) l ++ key :: skipn (N.to_nat p) l
                          /\ (sorted l -> l' = sp_push_sort l key))
    | OSearch key => r = RFound (sp_find l (fit siz key)) /\ mem' = mem /\ same siz siz' l l' d
    | OInsert idx v =>
        (null_ptr r /\ mem < nlen l + 1 /\ mem' = mem /\ same siz siz' l l' d)
        \/ (exists off, r = RPtr (Some off) (Some (fit siz v))
                        /\ slot_ptr siz mem' (N.min idx (nlen l)) off
                        /\ siz' = siz /\ d = [] /\ grows k mem mem' /\ l' = sp_insert l idx (fit siz v))
    | OPushFore v =>
        (null_ptr r /\ mem < nlen l + 1 /\ mem' = mem /\ same siz siz' l l' d)
        \/ (exists off, r = RPtr (Some off) (Some (fit siz v)) /\ slot_ptr siz mem' 0 off
                        /\ siz' = siz /\ d = [] /\ grows k mem mem' /\ l' = fit siz v :: l)
    | OPushBack v =>
        (null_ptr r /\ mem < nlen l + 1 /\ mem' = mem /\ same siz siz' l l' d)
        \/ (exists off, r = RPtr (Some off) (Some (fit siz v)) /\ slot_ptr siz mem' (nlen l) off
                        /\ siz' = siz /\ d = [] /\ grows k mem mem' /\ l' = l ++ [fit siz v])
    | ORemove idx =>
        mem' = mem /\ siz' = siz /\ d = [] /\
        ((l = [] /\ null_ptr r /\ l' = l)
         \/ (l <> [] /\ l' = sp_remove l idx /\
             exists off p, r = RPtr (Some off) (Some (sp_removed l idx))
                           /\ slot_ptr siz mem' p off /\ nlen l' <= p))
    | OPullFore =>
        mem' = mem /\ siz' = siz /\ d = [] /\
        ((l = [] /\ null_ptr r /\ l' = l)
         \/ (l <> [] /\ l' = tl l /\
             exists off p, r = RPtr (Some off) (Some (hd [] l))
                           /\ slot_ptr siz mem' p off /\ nlen l' <= p))
    | OPullBack =>
        mem' = mem /\ siz' = siz /\ d = [] /\
        ((l = [] /\ null_ptr r /\ l' = l)
         \/ (l <> [] /\ l' = removelast l /\
             exists off p, r = RPtr (Some off) (Some (last l []))
                           /\ slot_ptr siz mem' p off /\ nlen l' <= p))
    | OStore idx vs =>
        (r = RInt (match k with KVec => A_OMEMORY | KBuf => A_OBOUNDS end)
         /\ mem < nlen l + nlen vs /\ mem' = mem /\ same siz siz' l l' d)
        \/ (r = RInt A_SUCCESS /\ siz' = siz /\ d = [] /\ grows k mem mem'
            /\ l' = sp_store l idx (map (fit siz) vs))
    | OErase idx cnt dt =>
        mem' = mem /\ siz' = siz /\
        ((idx < nlen l /\ r = RInt A_SUCCESS /\ l' = sp_erase l idx cnt
          /\ d = if dt then sp_erased l idx cnt else [])
         \/ (nlen l <= idx /\ r = RInt A_OBOUNDS /\ l' = l /\ d = []))
    | OAt idx =>
        mem' = mem /\ same siz siz' l l' d
        /\ ptr_spec siz mem' l r (if idx <? mem then Some idx else None)
    | OOf idx =>
        let p := if idx <? HALF then idx else wadd idx (nlen l) in
        mem' = mem /\ same siz siz' l l' d
        /\ ptr_spec siz mem' l r (if p <? mem then Some p else None)
    | OTop =>
        mem' = mem /\ same siz siz' l l' d
        /\ ptr_spec siz mem' l r (if nlen l =? 0 then None else Some (nlen l - 1))
    | OEnd =>
        mem' = mem /\ same siz siz' l l' d
        /\ (null_ptr r \/ r = RPtr (Some (siz * nlen l)) None)
    end.

  (** what the caller must respect (everything else is unrestricted):
      a stored array has fewer than 2^63 elements; a buffer capacity request is representable *)
  Definition op_pre (k : kind) (siz : N) (o : op) : Prop :=
    match o with
    | OStore _ vs => nlen vs < HALF
    | OSetm m => match k with KVec => True | KBuf => BUF_HDR + siz * m < HALF end
    | _ => True
    end.

  (** ** worlds (two vector handles, one buffer handle) and histories *)
  Definition ovec_inv (x : option (N * vec)) : Prop :=
    match x with Some (_, v) => vec_inv v | None => True end.
  Definition obuf_inv (x : option buf) : Prop :=
    match x with Some b => buf_inv b | None => True end.
  Definition world_inv (w : world) : Prop :=
    ovec_inv (w_v0 w) /\ ovec_inv (w_v1 w) /\ obuf_inv (w_b w).

  Definition wop_pre (w : world) (o : wop) : Prop :=
    match o with
    | WV which o' => match get_v w which with
                     | Some (_, v) => op_pre KVec (a_siz (v_arr v)) o'
                     | None => True end
    | WB o' => match w_b w with
               | Some b => op_pre KBuf (a_siz (b_arr b)) o'
               | None => True end
    | WBNew siz num => BUF_HDR + (if siz =? 0 then 1 else siz) * num < HALF
    | _ => True
    end.

  (* what a handle represents: element size, capacity, abstract sequence *)
  Definition vview (x : option (N * vec)) : option (N * N * list elem) :=
    match x with Some (_, v) => Some (a_siz (v_arr v), a_mem (v_arr v), abs (v_arr v)) | None => None end.
  Definition bview (x : option buf) : option (N * N * list elem) :=
    match x with Some b => Some (a_siz (b_arr b), a_mem (b_arr b), abs (b_arr b)) | None => None end.

  Definition view_step (k : kind) (o : op) (r : out) (before after : option (N * N * list elem)) : Prop :=
    match before, after with
    | Some (siz, mem, l), Some (siz', mem', l') =>
        op_spec k siz mem l o (o_ret r) (o_dtor r) siz' mem' l'
    | None, None => o_ret r = RVoid /\ o_dtor r = []
    | _, _ => False
    end.

  Definition wstep_post (w : world) (o : wop) (w' : world) (r : out) : Prop :=
    o_err r = None /\
    match o with
    | WV which o' =>
        view_step KVec o' r (vview (get_v w which)) (vview (get_v w' which))
        /\ get_v w' (negb which) = get_v w (negb which) /\ w_b w' = w_b w
    | WB o' =>
        view_step KBuf o' r (bview (w_b w)) (bview (w_b w'))
        /\ w_v0 w' = w_v0 w /\ w_v1 w' = w_v1 w
    | WVSwap =>
        w_b w' = w_b w /\
        ((vview (w_v0 w') = vview (w_v1 w) /\ vview (w_v1 w') = vview (w_v0 w)
          /\ w_v0 w <> None /\ w_v1 w <> None)
         \/ ((w_v0 w = None \/ w_v1 w = None) /\ w' = w))
    | WVNew which siz =>
        get_v w' (negb which) = get_v w (negb which) /\ w_b w' = w_b w /\
        (match get_v w which with
         | Some _ => w' = w
         | None => vview (get_v w' which) = None
                   \/ vview (get_v w' which) = Some ((if siz =? 0 then 1 else siz), 0, [])
         end)
    | WVDie which dt =>
        get_v w' (negb which) = get_v w (negb which) /\ w_b w' = w_b w /\ get_v w' which = None /\
        o_dtor r = match vview (get_v w which) with
                   | Some (_, _, l) => if dt then rev l else []
                   | None => [] end
    | WBNew siz num =>
        w_v0 w' = w_v0 w /\ w_v1 w' = w_v1 w /\
        (match w_b w with
         | Some _ => w' = w
         | None => bview (w_b w') = None
                   \/ bview (w_b w') = Some ((if siz =? 0 then 1 else siz), num, [])
         end)
    | WBDie dt =>
        w_v0 w' = w_v0 w /\ w_v1 w' = w_v1 w /\ w_b w' = None /\
        o_dtor r = match bview (w_b w) with
                   | Some (_, _, l) => if dt then rev l else []
                   | None => [] end
    end.

  (** every operation's precondition holds in the state in which it is executed *)
  Fixpoint hist_pre (w : world) (ops : list wop) : Prop :=
    match ops with
    | [] => True
    | o :: ops' => wop_pre w o /\ hist_pre (fst (wstep cmp w o)) ops'
    end.
  (** the history is carried out without model error, the invariant holds after every operation and
      every operation meets its specification *)
  Fixpoint hist_post (w : world) (ops : list wop) : Prop :=
    match ops with
    | [] => True
    | o :: ops' => world_inv (fst (wstep cmp w o))
                   /\ wstep_post w o (fst (wstep cmp w o)) (snd (wstep cmp w o))
                   /\ hist_post (fst (wstep cmp w o)) ops'
    end.
End Spec.
