(** * C04 — the inline accessors, the alias entry points and ctor / dtor of vec.h / buf.h

    NO proofs in this file (they are in C04/AccProofs.v).  VecDefs.v models the checked accessors
    (arr_at, arr_of, arr_top, arr_end) and the new / die pairs; this file adds what the public headers
    offer besides: the field accessors, the UNCHECKED element accessors (a_vec_at_, a_vec_top_,
    a_vec_end_, a_buf_at_, a_buf_top_), the aliases a_vec_push / a_vec_pull / a_buf_push / a_buf_pull and
    the in-place constructors / destructors a_vec_ctor, a_vec_dtor, a_buf_ctor, a_buf_dtor.
    harness/C04/drv.c calls every one of them; harness/C04/mdrv.ml runs the definitions below. *)
From Coq Require Import NArith List Bool.
From LibaV Require Import C04.VecDefs.
Import ListNotations.
Local Open Scope N_scope.

(** ** field accessors: a_vec_siz / a_vec_num / a_vec_mem (vec.h:39-51), a_buf_num / a_buf_mem /
       a_buf_siz (buf.h:38-50), a_vec_ptr (vec.h:32; None = NULL).  a_buf_ptr (buf.h:56) is ctx + 1:
       the base every buffer offset of the model is relative to. *)
Definition acc_siz (a : arr) : N := a_siz a.
Definition acc_num (a : arr) : N := a_num a.
Definition acc_mem (a : arr) : N := a_mem a.
Definition vec_acc_ptr (v : vec) : option N := v_ptr v.

(** ** unchecked element accessors: byte offset of the returned pointer from the base, computed in
       64-bit arithmetic exactly as the header does (siz * idx, siz * (num - 1), siz * num) *)
Definition arr_at_ (a : arr) (idx : N) : N := wmul (a_siz a) idx.          (* vec.h:60, buf.h:69 *)
Definition arr_top_ (a : arr) : N := wmul (a_siz a) (wsub (a_num a) 1).    (* vec.h:99, buf.h:108 *)
Definition arr_end_ (a : arr) : N := wmul (a_siz a) (a_num a).             (* vec.h:122 *)
(* a_vec_end (vec.h:134): ptr_ ? a_vec_end_(ctx) : ptr_ *)
Definition vec_end (v : vec) : option N :=
  match v_ptr v with Some _ => Some (arr_end_ (v_arr v)) | None => None end.

(** ** what harness/C04/drv.c verifies after every operation (token acc=ok), evaluated on the model's
       accessors.  The expected values on the right-hand sides are written in UNBOUNDED arithmetic:
       [acc_check] = true also says that no accessor wraps and that every pointer handed out by an
       unchecked accessor under its precondition designates a slot inside the owned storage. *)
Definition opt_eqb (x y : option N) : bool :=
  match x, y with
  | Some a, Some b => a =? b
  | None, None => true
  | _, _ => false
  end.

(* indices probed: 0, num - 1, num, mem - 1 (64-bit wrap as in the driver) *)
Definition probe_idx (a : arr) : list N := [0; wsub (a_num a) 1; a_num a; wsub (a_mem a) 1].

Definition acc_check_at (a : arr) (i : N) : bool :=
  if i <? a_mem a
  then (arr_at_ a i =? a_siz a * i) && (arr_at_ a i + a_siz a <=? a_siz a * a_mem a)
       && opt_eqb (arr_at a i) (Some (arr_at_ a i))
  else opt_eqb (arr_at a i) None.

Definition acc_check (hasptr : bool) (a : arr) : bool :=
  (acc_siz a =? a_siz a) && (acc_num a =? a_num a) && (acc_mem a =? a_mem a)
  && forallb (acc_check_at a) (probe_idx a)
  && opt_eqb (arr_at a (a_mem a)) None && opt_eqb (arr_at a (W - 1)) None
  && (if a_num a =? 0 then opt_eqb (arr_top a) None
      else (arr_top_ a =? a_siz a * (a_num a - 1)) && opt_eqb (arr_top a) (Some (arr_top_ a))
           && opt_eqb (arr_of a (W - 1)) (Some (arr_top_ a)))          (* a_vec_of(ctx, -1) *)
  && opt_eqb (arr_of a 0) (if 0 <? a_mem a then Some 0 else None)
  && (if hasptr then (arr_end_ a =? a_siz a * a_num a) && (arr_end_ a <=? a_siz a * a_mem a)
                     && (arr_end a =? arr_end_ a)
      else true).

Definition vec_acc_check (v : vec) : bool :=
  acc_check (match v_ptr v with Some _ => true | None => false end) (v_arr v)
  && opt_eqb (vec_end v) (match v_ptr v with Some _ => Some (a_siz (v_arr v) * a_num (v_arr v)) | None => None end).
Definition buf_acc_check (b : buf) : bool := acc_check true (b_arr b).

(** ** aliases: a_vec_push = a_vec_push_back, a_vec_pull = a_vec_pull_back (vec.h:376, 385);
       a_buf_push = a_buf_push_back, a_buf_pull = a_buf_pull_back (buf.h:366, 375) *)
Definition OPush (x : elem) : op := OPushBack x.
Definition OPull : op := OPullBack.

(** ** a_vec_ctor (vec.c:30-37): the fields it writes;  a_vec_new = a_alloc(sizeof(a_vec)) + a_vec_ctor *)
Definition vec_ctor (siz : N) : vec := mkVec None (mkArr (if siz =? 0 then 1 else siz) 0 0 []).
Definition vec_new_by_ctor (h : heap) (siz : N) : heap * option (N * vec) * list event :=
  let '(p, h1, ev) := a_alloc h None 32 in
  match p with
  | Some id => (h1, Some (id, vec_ctor siz), ev)
  | None => (h1, None, ev)
  end.

(** ** a_vec_dtor (vec.c:39-49): setn(0, dtor), release the storage, ptr_ = 0, siz_ = 0, mem_ = 0.
       Result: heap, the structure as it is left, destroyed elements, allocator events. *)
Definition vec_dtor (h : heap) (v : vec) (dtor : bool) : res (heap * vec * list elem * list event) :=
  d <- arr_dtor_down (v_arr v) 0 dtor ;;
  let '(_, h1, ev1) := match v_ptr v with
                       | Some p => a_alloc h (Some p) 0
                       | None => (None, h, []) end in
  Ok (h1, mkVec None (mkArr 0 0 0 []), d, ev1).
(* a_vec_die = a_vec_dtor + a_alloc(ctx, 0) *)
Definition vec_die_by_dtor (h : heap) (id : N) (v : vec) (dtor : bool) : res (heap * list elem * list event) :=
  r <- vec_dtor h v dtor ;;
  let '(h1, _, d, ev1) := r in
  let '(_, h2, ev2) := a_alloc h1 (Some id) 0 in
  Ok (h2, d, ev1 ++ ev2).

(** ** a_buf_ctor (buf.c:32-39) on a block of [BUF_HDR + siz' * num] bytes;  a_buf_new = a_alloc + a_buf_ctor *)
Definition buf_ctor (id : N) (siz num : N) : buf :=
  let siz' := if siz =? 0 then 1 else siz in
  mkBuf id (mkArr siz' 0 num (resize_slots siz' [] (wadd BUF_HDR (wmul siz' num) - BUF_HDR))).
Definition buf_new_by_ctor (h : heap) (siz num : N) : heap * option buf * list event :=
  let siz' := if siz =? 0 then 1 else siz in
  let '(p, h1, ev) := a_alloc h None (wadd BUF_HDR (wmul siz' num)) in
  match p with
  | Some id => (h1, Some (buf_ctor id siz num), ev)
  | None => (h1, None, ev)
  end.

(** ** a_buf_dtor (buf.c:41-44) = a_buf_setn(ctx, 0, dtor): count 0, size and capacity kept *)
Definition buf_dtor (b : buf) (dtor : bool) : res (buf * list elem) :=
  d <- arr_dtor_down (b_arr b) 0 dtor ;;
  let a := b_arr b in
  Ok (bwith b (mkArr (a_siz a) 0 (a_mem a) (a_sl a)), d).
Definition buf_die_by_dtor (h : heap) (b : buf) (dtor : bool) : res (heap * list elem * list event) :=
  r <- buf_dtor b dtor ;;
  let (b1, d) := r in
  let '(_, h1, ev) := a_alloc h (Some (b_blk b1)) 0 in
  Ok (h1, d, ev).

(** ** what the model driver prints for the ctor / dtor case lines: the world step is the one of
       new / die (AccProofs: the two constructions coincide), plus the structure as dtor left it *)
Definition wdtor_vec (w : world) (which : bool) (dtor : bool) : option (arr * bool) :=
  match get_v w which with
  | Some (_, v) => match vec_dtor (w_heap w) v dtor with
                   | Ok (_, v', _, _) => Some (v_arr v', match v_ptr v' with Some _ => true | None => false end)
                   | Err _ => None end
  | None => None
  end.
Definition wdtor_buf (w : world) (dtor : bool) : option (arr * bool) :=
  match w_b w with
  | Some b => match buf_dtor b dtor with
              | Ok (b', _) => Some (b_arr b', true)      (* a_buf_ptr = ctx + 1 is never NULL *)
              | Err _ => None end
  | None => None
  end.
