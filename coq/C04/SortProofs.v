(** * C04 — sorted insertion: sort_fore / sort_back (binary search + memmove, or bubbling by
      a_swap when the container is full) and push_sort *)
From Coq Require Import ZArith NArith List Bool Lia Arith Sorting.Sorted Sorting.Permutation.
From LibaV Require Import C04.VecDefs C04.VecSpec C04.ListAux C04.SwapProofs C04.ArrProofs.
Import ListNotations.

Ltac Zify.zify_post_hook ::= Z.to_euclidean_division_equations.

(** ** pure list facts about the specification functions *)
Section Order.
  Variable cmp : elem -> elem -> comparison.
  Notation gtb := (VecDefs.gtb cmp).
  Notation le := (VecSpec.le cmp).
  Notation sorted := (VecSpec.sorted cmp).

  Definition ins_at (k : nat) (x : elem) (t : list elem) : list elem := firstn k t ++ x :: skipn k t.

  Lemma ins_at_perm : forall k x t, Permutation (x :: t) (ins_at k x t).
  Proof.
    intros. unfold ins_at. rewrite <- (firstn_skipn k t) at 1. apply Permutation_middle.
  Qed.

  Lemma takewhile_len_char : forall f t k, (k <= length t)%nat ->
      (forall j, (j < k)%nat -> f (nth j t []) = true) ->
      ((k < length t)%nat -> f (nth k t []) = false) ->
      length (takewhile f t) = k.
  Proof.
    intros f t. induction t as [|y t IH]; intros k Hk Ht Hf.
    - cbn in *. lia.
    - cbn [takewhile]. destruct k as [|k].
      + assert (E : f y = false) by (apply Hf; cbn; lia). rewrite E. reflexivity.
      + assert (E : f y = true) by (apply (Ht 0%nat); lia). rewrite E. cbn [length]. f_equal. apply IH.
        * cbn in Hk. lia.
        * intros j Hj. apply (Ht (S j)). lia.
        * intro H. apply Hf. cbn. lia.
  Qed.

  Lemma takewhile_rev_len_char : forall f t k, (k <= length t)%nat ->
      (forall j, (k <= j < length t)%nat -> f (nth j t []) = true) ->
      ((0 < k)%nat -> f (nth (k - 1) t []) = false) ->
      length (takewhile f (rev t)) = (length t - k)%nat.
  Proof.
    intros f t k Hk Ht Hf. apply takewhile_len_char.
    - rewrite rev_length. lia.
    - intros j Hj. rewrite rev_nth by lia. apply Ht. lia.
    - rewrite rev_length. intro H. rewrite rev_nth by lia.
      replace (length t - S (length t - k))%nat with (k - 1)%nat by lia. apply Hf. lia.
  Qed.

  Lemma takewhile_all : forall f t, length (takewhile f t) <= length t.
  Proof. induction t; cbn; [lia|]. destruct (f a); cbn; lia. Qed.

  Lemma takewhile_true : forall f t j, (j < length (takewhile f t))%nat -> f (nth j t []) = true.
  Proof.
    induction t as [|y t IH]; intros j Hj; cbn in *; [lia|].
    destruct (f y) eqn:E; cbn in Hj; [|lia]. destruct j; [assumption|]. apply IH. lia.
  Qed.

  Lemma takewhile_stop : forall f t, (length (takewhile f t) < length t)%nat ->
      f (nth (length (takewhile f t)) t []) = false.
  Proof.
    induction t as [|y t IH]; intro H; cbn in *; [lia|].
    destruct (f y) eqn:E; cbn in *; [apply IH; lia|assumption].
  Qed.

  (** the comparator is a total preorder ("goes after" is a strict weak order) *)
  Hypothesis le_trans : forall a b c, le a b -> le b c -> le a c.
  Hypothesis le_total : forall a b, le a b \/ le b a.

  Lemma gt_le : forall a b, gtb a b = true -> le b a.
  Proof. intros a b H. destruct (le_total a b) as [L|L]; [unfold VecSpec.le in L; congruence|exact L]. Qed.

  Lemma sorted_nth : forall t a b, sorted t -> (a < b < length t)%nat -> le (nth a t []) (nth b t []).
  Proof.
    induction t as [|y t IH]; intros a b H Hab; [cbn in Hab; lia|].
    inversion H as [|? ? Hs Hall]; subst. destruct b as [|b]; [lia|]. destruct a as [|a].
    - cbn [nth]. rewrite Forall_forall in Hall. apply Hall. apply nth_In. cbn in Hab. lia.
    - cbn [nth]. apply IH; [assumption|cbn in Hab; lia].
  Qed.

  Lemma sorted_ins_at : forall k x t, sorted t -> (k <= length t)%nat ->
      (forall j, (j < k)%nat -> le (nth j t []) x) ->
      (forall j, (k <= j < length t)%nat -> le x (nth j t [])) ->
      sorted (ins_at k x t).
  Proof.
    intros k x t. revert k. induction t as [|y t IH]; intros k H Hk Hlo Hhi.
    - unfold ins_at. rewrite firstn_nil, skipn_nil. cbn. constructor; constructor.
    - inversion H as [|? ? Hs Hall]; subst. destruct k as [|k].
      + unfold ins_at. cbn [firstn skipn app]. constructor; [assumption|].
        rewrite Forall_forall. intros z Hz. destruct (In_nth _ _ [] Hz) as [j [Hj Ej]]. subst z.
        apply Hhi. split; [apply Nat.le_0_l|exact Hj].
      + unfold ins_at. cbn [firstn skipn app]. constructor.
        * apply (IH k); [assumption|cbn in Hk; lia| |].
          -- intros j Hj. apply (Hlo (S j)). lia.
          -- intros j Hj. apply (Hhi (S j)). cbn. lia.
        * fold (ins_at k x t). rewrite Forall_forall. intros z Hz.
          apply (Permutation_in _ (Permutation_sym (ins_at_perm k x t))) in Hz.
          destruct Hz as [Hz|Hz].
          -- subst z. apply (Hlo 0%nat). lia.
          -- rewrite Forall_forall in Hall. apply Hall. assumption.
  Qed.

  (** sort_fore on a sorted rest *)
  Lemma sp_sort_fore_sorted : forall l, sorted (tl l) ->
      sorted (sp_sort_fore cmp l) /\ Permutation l (sp_sort_fore cmp l).
  Proof.
    intros [|x t] H; cbn [tl sp_sort_fore] in *; [split; [constructor|constructor]|].
    set (k := length (takewhile (fun y => gtb x y) t)).
    fold (ins_at k x t). split; [|apply ins_at_perm].
    pose proof (takewhile_all (fun y => gtb x y) t) as Hk. fold k in Hk.
    apply sorted_ins_at; auto.
    - intros j Hj. apply gt_le. apply (takewhile_true (fun y => gtb x y)). exact Hj.
    - intros j Hj. assert (Hs : gtb x (nth k t []) = false)
        by (apply (takewhile_stop (fun y => gtb x y)); fold k; lia).
      destruct (Nat.eq_dec j k) as [->|Hne]; [exact Hs|].
      apply le_trans with (nth k t []); [exact Hs|]. apply sorted_nth; [assumption|lia].
  Qed.

  (** push_sort / sort_back: insertion behind the elements that do not go after the key *)
  Lemma sp_push_sort_sorted : forall l key, sorted l ->
      sorted (sp_push_sort cmp l key) /\ Permutation (key :: l) (sp_push_sort cmp l key).
  Proof.
    intros l key H. unfold sp_push_sort. set (k := ub_pos cmp l key). fold (ins_at k key l).
    split; [|apply ins_at_perm].
    set (c := length (takewhile (fun y => gtb y key) (rev l))).
    assert (Hc : (c <= length l)%nat).
    { pose proof (takewhile_all (fun y => gtb y key) (rev l)) as T. rewrite rev_length in T. exact T. }
    assert (Ek : k = (length l - c)%nat) by reflexivity.
    assert (Hhi : forall j, (k <= j < length l)%nat -> gtb (nth j l []) key = true).
    { intros j Hj.
      pose proof (takewhile_true (fun y => gtb y key) (rev l) (length l - S j)) as T.
      rewrite rev_nth in T by lia.
      replace (length l - S (length l - S j))%nat with j in T by lia. apply T. fold c. lia. }
    assert (Hstop : (0 < k)%nat -> gtb (nth (k - 1) l []) key = false).
    { intro Hp. pose proof (takewhile_stop (fun y => gtb y key) (rev l)) as T. fold c in T.
      rewrite rev_length in T. rewrite rev_nth in T by lia.
      replace (length l - S c)%nat with (k - 1)%nat in T by lia. apply T. lia. }
    apply sorted_ins_at; auto; [lia| |].
    - intros j Hj. destruct (Nat.eq_dec j (k - 1)) as [->|Hne]; [apply Hstop; lia|].
      apply le_trans with (nth (k - 1) l []); [|apply Hstop; lia].
      apply sorted_nth; [assumption|lia].
    - intros j Hj. apply gt_le. apply Hhi. exact Hj.
  Qed.

  Lemma sp_sort_back_push : forall t x, sp_sort_back cmp (t ++ [x]) = sp_push_sort cmp t x.
  Proof.
    intros. unfold sp_sort_back. rewrite rev_app_distr. cbn [rev app].
    unfold sp_push_sort, ub_pos. rewrite rev_involutive, rev_length. reflexivity.
  Qed.

  Lemma sp_sort_back_sorted : forall l, sorted (removelast l) ->
      sorted (sp_sort_back cmp l) /\ Permutation l (sp_sort_back cmp l).
  Proof.
    intros l H. destruct l as [|y l0]; [split; constructor|].
    destruct (@exists_last _ (y :: l0)) as [t [x E]]; [discriminate|].
    rewrite E in *. rewrite removelast_last in H. rewrite sp_sort_back_push.
    destruct (sp_push_sort_sorted t x H) as [S P]. split; [exact S|].
    eapply Permutation_trans; [|exact P]. apply Permutation_sym, Permutation_cons_append.
  Qed.
End Order.

(** ** moving the last element of a range to its front *)
Section Rotr.
  (** move the element at position p + m to position p *)
  Definition lrotr (p m : nat) (L : list elem) : list elem :=
    firstn p L ++ nth (p + m) L [] :: firstn m (skipn p L) ++ skipn (p + m + 1) L.

  Lemma lrotr_length : forall p m L, (p + m < length L)%nat -> length (lrotr p m L) = length L.
  Proof. intros. unfold lrotr. ne_norm. lia. Qed.

  Lemma ne_lrotr : forall p m L k, (p + m < length L)%nat ->
      nth_error (lrotr p m L) k =
      if k <? p then nth_error L k
      else if k =? p then nth_error L (p + m)
           else if k <? p + m + 1 then nth_error L (k - 1) else nth_error L k.
  Proof.
    intros. unfold lrotr. ne_norm. rewrite <- !(ne_nth L _ []) by lia. ne_split; try ne_leaf.
  Qed.

  Lemma lrotr_0 : forall p L, (p < length L)%nat -> lrotr p 0 L = L.
  Proof. intros. apply nth_error_ext; intro k. rewrite ne_lrotr by lia. ne_split; ne_leaf. Qed.

  Lemma lswap_lrotr : forall p m L, (1 <= p)%nat -> (p + m < length L)%nat ->
      lswap (p - 1) (lrotr p m L) = lrotr (p - 1) (m + 1) L.
  Proof.
    intros. apply nth_error_ext; intro k.
    rewrite ne_lswap by (rewrite lrotr_length; lia). rewrite !ne_lrotr by lia. ne_split; ne_leaf.
  Qed.

  Lemma Forall_lrotr : forall (P : elem -> Prop) p m L, (p + m < length L)%nat ->
      Forall P L -> Forall P (lrotr p m L).
  Proof.
    intros P p m L Hj H. unfold lrotr. rewrite !Forall_app. split; [auto using Forall_firstn|].
    constructor; [apply Forall_nth; [assumption|lia]|].
    rewrite Forall_app. split; auto using Forall_firstn, Forall_skipn.
  Qed.

End Rotr.

(** ** the two binary searches *)
Local Open Scope N_scope.

Section Search.
  Variable cmp : elem -> elem -> comparison.
  Notation gtb := (VecDefs.gtb cmp).
  Variables (siz : N) (sl : list elem).
  Hypothesis siz_pos : 0 < siz.
  Hypothesis bytes_ok : siz * nlen sl < HALF.

  Lemma rd : forall j, j < nlen sl -> sl_read siz sl (wmul siz j) = Ok (nth (N.to_nat j) sl []).
  Proof.
    intros j Hj. rewrite wmul_eq.
    - apply sl_read_slot; assumption.
    - pose proof (mul_le_l siz j (nlen sl)). pose proof HALF_lt_W. lia.
  Qed.

  Lemma nlen_lt_half : nlen sl < HALF.
  Proof.
    assert (1 * nlen sl <= siz * nlen sl) by (apply N.mul_le_mono_r; lia). lia.
  Qed.

  (* upper bound: first index in [i, r) whose element goes after the key *)
  Lemma ub_search_spec : forall key fuel i r,
      i <= r -> r <= nlen sl -> r - i < 2 ^ N.of_nat fuel ->
      exists k, ub_search cmp (S fuel) siz sl key i r = Ok k /\ i <= k <= r
        /\ ((forall a b, i <= a -> a <= b -> b < r ->
                         gtb (nth (N.to_nat a) sl []) key = true -> gtb (nth (N.to_nat b) sl []) key = true)
            -> (forall j, i <= j < k -> gtb (nth (N.to_nat j) sl []) key = false)
               /\ (forall j, k <= j < r -> gtb (nth (N.to_nat j) sl []) key = true)).
  Proof.
    intros key. pose proof nlen_lt_half as HL. pose proof HALF_lt_W as HW.
    induction fuel as [|f IH]; intros i r Hir Hr Hf.
    - cbn in Hf. assert (r = i) by lia. subst r. cbn [ub_search].
      rewrite N.ltb_irrefl. exists i. split; [reflexivity|]. split; [lia|]. intros _. split; intros j Hj; lia.
    - remember (S f) as f1. cbn [ub_search]. subst f1.
      destruct (N.ltb_spec i r) as [Hlt|Hge].
      + rewrite wsub_eq by lia.
        assert (Em : wadd i ((r - i) / 2) = i + (r - i) / 2) by (apply wadd_eq; lia).
        rewrite Em. set (m := i + (r - i) / 2) in *.
        assert (Hm : i <= m < r) by (unfold m; lia).
        rewrite rd by lia. cbn [bind].
        rewrite Nat2N.inj_succ, N.pow_succ_r' in Hf.
        destruct (gtb (nth (N.to_nat m) sl []) key) eqn:G.
        * destruct (IH i m) as [k [E [Hk C]]]; [lia|lia|unfold m; lia|].
          exists k. split; [exact E|]. split; [lia|]. intro Mono.
          destruct C as [C1 C2]. { intros a b Ha Hab Hb. apply Mono; lia. }
          split; [exact C1|]. intros j Hj.
          destruct (N.ltb_spec j m) as [Hjm|Hjm]; [apply C2; lia|].
          apply (Mono m j); try lia. exact G.
        * rewrite wadd_eq by lia.
          destruct (IH (m + 1) r) as [k [E [Hk C]]]; [lia|lia|unfold m; lia|].
          exists k. split; [exact E|]. split; [lia|]. intro Mono.
          destruct C as [C1 C2]. { intros a b Ha Hab Hb. apply Mono; lia. }
          split; [|exact C2]. intros j Hj.
          destruct (N.ltb_spec j (m + 1)) as [Hjm|Hjm]; [|apply C1; lia].
          destruct (gtb (nth (N.to_nat j) sl []) key) eqn:Gj; [|reflexivity].
          rewrite (Mono j m) in G; [discriminate|lia|lia|lia|exact Gj].
      + exists i. split; [reflexivity|]. split; [lia|]. intros _. split; intros j Hj; lia.
  Qed.

  (* sort_fore: last index in [b, i] whose element the head x goes after (b - 1 if none) *)
  Lemma sf_search_spec : forall x fuel b i,
      1 <= b -> b <= i + 1 -> i < nlen sl -> i + 1 - b < 2 ^ N.of_nat fuel ->
      exists k, sf_search cmp (S fuel) siz sl x b i = Ok k /\ b <= k + 1 /\ k <= i
        /\ ((forall a c, b <= a -> a <= c -> c <= i ->
                         gtb x (nth (N.to_nat c) sl []) = true -> gtb x (nth (N.to_nat a) sl []) = true)
            -> (forall j, b <= j <= k -> gtb x (nth (N.to_nat j) sl []) = true)
               /\ (forall j, k < j <= i -> gtb x (nth (N.to_nat j) sl []) = false)).
  Proof.
    intros x. pose proof nlen_lt_half as HL. pose proof HALF_lt_W as HW.
    induction fuel as [|f IH]; intros b i Hb Hbi Hi Hf.
    - cbn in Hf. assert (b = i + 1) by lia. subst b. cbn [sf_search].
      destruct (N.leb_spec (i + 1) i) as [C|_]; [lia|].
      exists i. split; [reflexivity|]. split; [lia|]. split; [lia|]. intros _. split; intros j Hj; lia.
    - remember (S f) as f1. cbn [sf_search]. subst f1.
      destruct (N.leb_spec b i) as [Hle|Hgt].
      + rewrite wsub_eq by lia.
        assert (Em : wadd b ((i - b) / 2) = b + (i - b) / 2) by (apply wadd_eq; lia).
        rewrite Em. set (m := b + (i - b) / 2) in *.
        assert (Hm : b <= m <= i) by (unfold m; lia).
        rewrite rd by lia. cbn [bind].
        rewrite Nat2N.inj_succ, N.pow_succ_r' in Hf.
        destruct (gtb x (nth (N.to_nat m) sl [])) eqn:G.
        * rewrite wadd_eq by lia.
          destruct (IH (m + 1) i) as [k [E [Hk1 [Hk2 C]]]]; [lia|lia|lia|unfold m; lia|].
          exists k. split; [exact E|]. split; [lia|]. split; [lia|]. intro Mono.
          destruct C as [C1 C2]. { intros a c Ha Hac Hc. apply Mono; lia. }
          split; [|exact C2]. intros j Hj.
          destruct (N.ltb_spec m j) as [Hjm|Hjm]; [apply C1; lia|].
          apply (Mono j m); try lia. exact G.
        * rewrite wsub_eq by lia.
          destruct (IH b (m - 1)) as [k [E [Hk1 [Hk2 C]]]]; [lia|lia|lia|unfold m; lia|].
          exists k. split; [exact E|]. split; [lia|]. split; [lia|]. intro Mono.
          destruct C as [C1 C2]. { intros a c Ha Hac Hc. apply Mono; lia. }
          split; [exact C1|]. intros j Hj.
          destruct (N.ltb_spec j m) as [Hjm|Hjm]; [apply C2; lia|].
          destruct (gtb x (nth (N.to_nat j) sl [])) eqn:Gj; [|reflexivity].
          rewrite (Mono m j) in G; [discriminate|lia|lia|lia|exact Gj].
      + exists i. split; [reflexivity|]. split; [lia|]. split; [lia|]. intros _. split; intros j Hj; lia.
  Qed.
End Search.

(** ** the two bubble loops (container exactly full) *)
Section Bubble.
  Variable cmp : elem -> elem -> comparison.
  Notation gtb := (VecDefs.gtb cmp).
  Variables (siz : N) (sl : list elem) (num : N).
  Hypothesis siz_pos : 0 < siz.
  Hypothesis bytes_ok : siz * nlen sl < HALF.
  Hypothesis elems_ok : Forall (elem_ok siz) sl.
  Hypothesis num_ok : num <= nlen sl.

  Lemma off_ok : forall k, k <= nlen sl -> siz * k < W.
  Proof. intros k Hk. pose proof (mul_le_l siz k (nlen sl) Hk). pose proof HALF_lt_W. lia. Qed.

  Lemma firstn_skipn_cons : forall (L : list elem) c j, (j < length L)%nat ->
      firstn (S c) (skipn j L) = nth j L [] :: firstn c (skipn (S j) L).
  Proof.
    intros. apply nth_error_ext; intro k. ne_norm. rewrite <- (ne_nth L j []) by lia.
    ne_split; ne_leaf.
  Qed.

  Lemma firstn_snoc : forall (L : list elem) j, (j < length L)%nat ->
      firstn (S j) L = firstn j L ++ [nth j L []].
  Proof.
    intros. apply nth_error_ext; intro k. ne_norm. rewrite <- (ne_nth L j []) by lia.
    ne_split; ne_leaf.
  Qed.

  (* sort_fore: the head x bubbles up while it goes after its right neighbour *)
  Lemma sf_bubble_spec : forall fuel j,
      j + 1 <= num -> (N.to_nat (num - j) <= fuel)%nat ->
      sf_bubble cmp fuel siz (lrot 0 (N.to_nat j) sl) (siz * j) (siz * (j + 1)) (siz * num)
      = Ok (lrot 0 (N.to_nat j + length (takewhile (fun y => gtb (nth 0 sl []) y)
                                                    (firstn (N.to_nat (num - 1 - j)) (skipn (N.to_nat j + 1) sl)))) sl).
  Proof.
    pose proof off_ok as Hoff. unfold nlen in num_ok.
    induction fuel as [|f IH]; intros j Hj Hf; [lia|].
    cbn [sf_bubble].
    destruct (N.eqb_spec (siz * (j + 1)) (siz * num)) as [E|E].
    - apply N.mul_cancel_l in E; [|lia]. replace (num - 1 - j) with 0 by lia.
      cbn [N.to_nat firstn takewhile length]. rewrite Nat.add_0_r. reflexivity.
    - assert (Hlt : j + 1 < num) by (destruct (N.eq_dec (j + 1) num); [subst; congruence|lia]).
      assert (LL : length (lrot 0 (N.to_nat j) sl) = length sl) by (apply lrot_length; lia).
      assert (NL : nlen (lrot 0 (N.to_nat j) sl) = nlen sl) by (unfold nlen; rewrite LL; reflexivity).
      rewrite !sl_read_slot by (rewrite ?NL; unfold nlen; lia). cbn [bind].
      assert (R1 : nth (N.to_nat j) (lrot 0 (N.to_nat j) sl) [] = nth 0 sl []).
      { apply nth_eq_of_ne; [lia|]. rewrite ne_lrot by lia. ne_split; ne_leaf. }
      assert (R2 : nth (N.to_nat (j + 1)) (lrot 0 (N.to_nat j) sl) [] = nth (N.to_nat j + 1) sl []).
      { apply nth_eq_of_ne; [lia|]. rewrite ne_lrot by lia. ne_split; ne_leaf. }
      rewrite R1, R2.
      replace (N.to_nat (num - 1 - j)) with (S (N.to_nat (num - 1 - (j + 1)))) by lia.
      rewrite firstn_skipn_cons by lia. cbn [takewhile].
      destruct (gtb (nth 0 sl []) (nth (N.to_nat j + 1) sl [])) eqn:G.
      + rewrite sl_swap_adj'; [|assumption|apply Forall_lrot; [lia|assumption]|rewrite NL; unfold nlen; lia].
        cbn [bind].
        replace (N.to_nat j) with (0 + N.to_nat j)%nat at 1 by lia.
        rewrite lswap_lrot by lia.
        assert (E2 : wadd (siz * (j + 1)) siz = siz * (j + 1 + 1)).
        { rewrite wadd_eq; [lia|]. pose proof (Hoff (j + 1 + 1)). unfold nlen in *. lia. }
        rewrite E2. replace (N.to_nat j + 1)%nat with (N.to_nat (j + 1)) by lia.
        rewrite IH by lia. f_equal. f_equal. cbn [length].
        replace (S (N.to_nat (j + 1))) with (N.to_nat (j + 1) + 1)%nat by lia. lia.
      + cbn [length]. rewrite Nat.add_0_r. reflexivity.
  Qed.

  (* sort_back: the last element x bubbles down while its left neighbour goes after it *)
  Lemma sb_bubble_spec : forall fuel j,
      1 <= j -> j + 1 <= num -> (N.to_nat j <= fuel)%nat ->
      let c := length (takewhile (fun y => gtb y (nth (N.to_nat (num - 1)) sl []))
                                 (rev (firstn (N.to_nat j) sl))) in
      sb_bubble cmp fuel siz (lrotr (N.to_nat j) (N.to_nat (num - 1 - j)) sl) (siz * j)
      = Ok (lrotr (N.to_nat j - c) (N.to_nat (num - 1 - j) + c) sl).
  Proof.
    pose proof off_ok as Hoff. unfold nlen in num_ok.
    induction fuel as [|f IH]; intros j Hj1 Hj Hf; [lia|].
    cbn [sb_bubble]. cbv zeta.
    assert (E1 : wsub (siz * j) siz = siz * (j - 1)).
    { assert (A1 : siz * j < W) by (apply Hoff; unfold nlen; lia).
      assert (A2 : siz * 1 <= siz * j) by (apply mul_le_l; lia).
      rewrite wsub_eq by lia. rewrite N.mul_sub_distr_l. lia. }
    rewrite E1.
    set (L := lrotr (N.to_nat j) (N.to_nat (num - 1 - j)) sl).
    assert (LL : length L = length sl) by (apply lrotr_length; lia).
    assert (NL : nlen L = nlen sl) by (unfold nlen; rewrite LL; reflexivity).
    rewrite !sl_read_slot by (rewrite ?NL; unfold nlen; lia). cbn [bind].
    assert (R1 : nth (N.to_nat (j - 1)) L [] = nth (N.to_nat j - 1) sl []).
    { apply nth_eq_of_ne; [lia|]. unfold L. rewrite ne_lrotr by lia. ne_split; ne_leaf. }
    assert (R2 : nth (N.to_nat j) L [] = nth (N.to_nat (num - 1)) sl []).
    { apply nth_eq_of_ne; [lia|]. unfold L. rewrite ne_lrotr by lia. ne_split; ne_leaf. }
    rewrite R1, R2.
    replace (N.to_nat j) with (S (N.to_nat j - 1)) at 3 4 by lia.
    rewrite firstn_snoc by lia. rewrite rev_app_distr. cbn [rev app takewhile].
    destruct (gtb (nth (N.to_nat j - 1) sl []) (nth (N.to_nat (num - 1)) sl [])) eqn:G.
    - replace (siz * j) with (siz * (j - 1 + 1)) by (f_equal; lia).
      rewrite sl_swap_adj; [|assumption|apply Forall_lrotr; [lia|assumption]|rewrite NL; unfold nlen; lia].
      cbn [bind]. unfold L. replace (N.to_nat (j - 1)) with (N.to_nat j - 1)%nat by lia.
      rewrite lswap_lrotr by lia.
      destruct (N.eqb_spec (siz * (j - 1)) 0) as [Z|Z].
      + assert (j = 1) by nia. subst j. cbn [N.to_nat Pos.to_nat Pos.iter_op Nat.add Nat.sub firstn rev takewhile length].
        f_equal.
      + assert (2 <= j) by nia.
        replace (N.to_nat j - 1)%nat with (N.to_nat (j - 1)) by lia.
        replace (N.to_nat (num - 1 - j) + 1)%nat with (N.to_nat (num - 1 - (j - 1))) by lia.
        rewrite IH by lia. cbv zeta. cbn [length]. f_equal. f_equal; lia.
    - cbn [length]. rewrite Nat.sub_0_r, Nat.add_0_r.
      replace (S (N.to_nat j - 1)) with (N.to_nat j) by lia. reflexivity.
  Qed.
End Bubble.

(** ** the three operations on the array core *)
Lemma sl_copy_at : forall siz sl D S C d s c, D = siz * d -> S = siz * s -> C = siz * c ->
    0 < siz -> s + c <= nlen sl -> d + c <= nlen sl -> (c = 0 \/ d + c <= s \/ s + c <= d) ->
    sl_copy siz sl D S C = Ok (lmove (N.to_nat d) (N.to_nat s) (N.to_nat c) sl).
Proof. intros; subst. apply sl_copy_slot; assumption. Qed.

Lemma sl_move_at : forall siz sl D S C d s c, D = siz * d -> S = siz * s -> C = siz * c ->
    0 < siz -> s + c <= nlen sl -> d + c <= nlen sl ->
    sl_move siz sl D S C = Ok (lmove (N.to_nat d) (N.to_nat s) (N.to_nat c) sl).
Proof. intros; subst. apply sl_move_slot; assumption. Qed.

Section ArrSort.
  Variable cmp : elem -> elem -> comparison.
  Notation gtb := (VecDefs.gtb cmp).
  Notation le := (VecSpec.le cmp).
  Notation sorted := (VecSpec.sorted cmp).
  Hypothesis le_trans : forall a b c, le a b -> le b c -> le a c.
  Hypothesis le_total : forall a b, le a b \/ le b a.

  Lemma abs_cons : forall a, arr_inv a -> 0 < a_num a ->
      abs a = nth 0 (a_sl a) [] :: firstn (N.to_nat (a_num a - 1)) (skipn 1 (a_sl a)).
  Proof.
    intros a I H. pose proof (inv_num a I). pose proof (sl_length_nat a I).
    unfold abs. apply nth_error_ext; intro k. ne_norm.
    rewrite <- (ne_nth (a_sl a) 0 []) by lia. ne_split; ne_leaf.
  Qed.

  Lemma abs_snoc : forall a, arr_inv a -> 0 < a_num a ->
      abs a = firstn (N.to_nat (a_num a - 1)) (a_sl a) ++ [nth (N.to_nat (a_num a - 1)) (a_sl a) []].
  Proof.
    intros a I H. pose proof (inv_num a I). pose proof (sl_length_nat a I).
    unfold abs. apply nth_error_ext; intro k. ne_norm.
    rewrite <- (ne_nth (a_sl a) _ []) by lia. ne_split; ne_leaf.
  Qed.

  Lemma sorted_le_refl : forall x, le x x.
  Proof. intro x. destruct (le_total x x); assumption. Qed.

  Lemma sorted_nth_le : forall t a b, sorted t -> (a <= b < length t)%nat -> le (nth a t []) (nth b t []).
  Proof.
    intros t a b H Hab. destruct (Nat.eq_dec a b) as [->|Hne]; [apply sorted_le_refl|].
    apply (sorted_nth cmp le_trans le_total); [assumption|lia].
  Qed.

  (* a_vec_sort_fore / a_buf_sort_fore *)
  Lemma arr_sort_fore_spec : forall a, arr_inv a ->
      exists a', arr_sort_fore cmp a = Ok a' /\ arr_inv a'
        /\ a_siz a' = a_siz a /\ a_mem a' = a_mem a /\ a_num a' = a_num a
        /\ Permutation (abs a) (abs a')
        /\ ((a_num a = a_mem a \/ sorted (tl (abs a))) -> abs a' = sp_sort_fore cmp (abs a)).
  Proof.
    intros a I.
    pose proof (inv_siz a I) as Hs. pose proof (inv_num a I) as Hn. pose proof (inv_len a I) as Hl.
    pose proof (off_lt a (a_mem a) I (N.le_refl _)) as Hb. pose proof HALF_lt_W as HW.
    pose proof (inv_elem a I) as He. pose proof (mem_lt_half a I) as Hm.
    assert (Hlen : length (a_sl a) = N.to_nat (a_mem a)) by (unfold nlen in *; lia).
    assert (Hoff : forall k, k <= a_mem a -> a_siz a * k < W).
    { intros k Hk. pose proof (mul_le_l (a_siz a) k (a_mem a) Hk). lia. }
    unfold arr_sort_fore.
    destruct (N.ltb_spec 1 (a_num a)) as [H1|H1].
    2:{ exists a. splits; auto.
        pose proof (abs_length_nat a I) as AL. intros _.
        destruct (abs a) as [|x [|y t]]; [reflexivity|reflexivity|cbn in AL; lia]. }
    assert (E0 : wmul (a_siz a) (a_num a) = a_siz a * a_num a) by (apply wmul_eq, Hoff; lia).
    rewrite E0.
    set (x := nth 0 (a_sl a) []).
    set (t := firstn (N.to_nat (a_num a - 1)) (skipn 1 (a_sl a))).
    assert (Eabs : abs a = x :: t) by (apply abs_cons; auto; lia).
    assert (Lt : length t = N.to_nat (a_num a - 1)) by (unfold t; ne_norm; lia).
    assert (Nt : forall j, (j < length t)%nat -> nth j t [] = nth (S j) (a_sl a) []).
    { intros j Hj. apply nth_eq_of_ne; [lia|]. unfold t. ne_norm. ne_split; ne_leaf. }
    destruct (N.ltb_spec (a_num a) (a_mem a)) as [Hf|Hf].
    - (* spare slot: binary search, then rotate through the scratch slot *)
      replace (sl_read (a_siz a) (a_sl a) 0) with (sl_read (a_siz a) (a_sl a) (a_siz a * 0))
        by (rewrite N.mul_0_r; reflexivity).
      rewrite sl_read_slot by lia. cbn [bind]. change (nth (N.to_nat 0) (a_sl a) []) with x.
      destruct (sf_search_spec cmp (a_siz a) (a_sl a) Hs ltac:(rewrite Hl; exact Hb) x 64 1 (a_num a - 1))
        as [k [Ek [Hk1 [Hk2 C]]]]; [lia|lia|lia|change (2 ^ N.of_nat 64) with W; lia|].
      rewrite wsub_eq by lia. change (S 64) with 65%nat in Ek. rewrite Ek. cbn [bind].
      assert (Res : exists a', (if 0 <? k
                 then sl1 <- sl_copy (a_siz a) (a_sl a) (a_siz a * a_num a) 0 (a_siz a);;
                      sl2 <- sl_move (a_siz a) sl1 0 (a_siz a) (wmul (a_siz a) k);;
                      sl3 <- sl_copy (a_siz a) sl2 (wmul (a_siz a) k) (a_siz a * a_num a) (a_siz a);;
                      Ok (mkArr (a_siz a) (a_num a) (a_mem a) sl3)
                 else Ok a) = Ok a' /\ arr_inv a' /\ a_siz a' = a_siz a /\ a_mem a' = a_mem a
                 /\ a_num a' = a_num a /\ abs a' = ins_at (N.to_nat k) x t).
      { destruct (N.ltb_spec 0 k) as [Hk|Hk].
        - assert (Ek' : wmul (a_siz a) k = a_siz a * k) by (apply wmul_eq, Hoff; lia).
          rewrite Ek'.
          rewrite (sl_copy_at _ _ _ _ _ (a_num a) 0 1) by (auto; lia). cbn [bind].
          set (l1 := lmove (N.to_nat (a_num a)) (N.to_nat 0) (N.to_nat 1) (a_sl a)).
          assert (L1 : length l1 = length (a_sl a)) by (apply lmove_length; lia).
          assert (NL1 : nlen l1 = a_mem a) by (unfold nlen; rewrite L1; exact Hl).
          rewrite (sl_move_at _ _ _ _ _ 0 1 k) by (rewrite ?NL1; auto; lia). cbn [bind].
          set (l2 := lmove (N.to_nat 0) (N.to_nat 1) (N.to_nat k) l1).
          assert (L2 : length l2 = length (a_sl a)) by (unfold l2; rewrite lmove_length; lia).
          assert (NL2 : nlen l2 = a_mem a) by (unfold nlen; rewrite L2; exact Hl).
          rewrite (sl_copy_at _ _ _ _ _ k (a_num a) 1) by (rewrite ?NL2; auto; lia). cbn [bind].
          set (l3 := lmove (N.to_nat k) (N.to_nat (a_num a)) (N.to_nat 1) l2).
          assert (L3 : length l3 = length (a_sl a)) by (unfold l3; rewrite lmove_length; lia).
          eexists. split; [reflexivity|]. splits; cbn [a_siz a_mem a_num a_sl]; auto.
          + constructor; cbn [a_siz a_mem a_num a_sl]; auto.
            * unfold nlen in *. rewrite L3. assumption.
            * unfold l3, l2, l1. repeat apply Forall_lmove. assumption.
          + unfold abs, ins_at. cbn [a_num a_sl]. unfold t, x.
            apply nth_error_ext; intro j. ne_norm. unfold l3. rewrite ne_lmove by lia.
            unfold l2. rewrite !ne_lmove by lia. unfold l1. rewrite !ne_lmove by lia.
            rewrite <- (ne_nth (a_sl a) 0 []) by lia. ne_split; ne_leaf.
        - assert (k = 0) by lia. subst k. exists a. splits; auto; try (rewrite Eabs; reflexivity). }
      destruct Res as [a' [R1 [R2 [R3 [R4 [R5 R6]]]]]].
      exists a'. splits; auto.
      + rewrite Eabs, R6. apply ins_at_perm.
      + intros [Hfull|Hsorted]; [lia|].
        rewrite R6, Eabs. cbn [sp_sort_fore]. rewrite Eabs in Hsorted. cbn [tl] in Hsorted.
        fold (ins_at (length (takewhile (fun y => gtb x y) t)) x t). f_equal.
        symmetry.
        destruct C as [C1 C2].
        { intros p c Hp Hpc Hc G.
          destruct (gtb x (nth (N.to_nat p) (a_sl a) [])) eqn:Gp; [reflexivity|exfalso].
          assert (Lpc : le (nth (N.to_nat p) (a_sl a) []) (nth (N.to_nat c) (a_sl a) [])).
          { replace (N.to_nat p) with (S (N.to_nat p - 1)) by lia.
            replace (N.to_nat c) with (S (N.to_nat c - 1)) by lia.
            rewrite <- !Nt by lia. apply sorted_nth_le; [assumption|lia]. }
          pose proof (le_trans _ _ _ Gp Lpc) as Lx. unfold VecSpec.le in Lx. congruence. }
        apply (takewhile_len_char cmp); change (@length (list byte)) with (@length elem) in *; [lia| |].
        * intros j Hj. rewrite Nt by lia. replace (S j) with (N.to_nat (N.of_nat (S j))) by lia.
          apply C1. lia.
        * intro Hj. rewrite Nt by lia. replace (S (N.to_nat k)) with (N.to_nat (k + 1)) by lia.
          apply C2. lia.
    - (* exactly full: bubble by a_swap *)
      pose proof (sf_bubble_spec cmp (a_siz a) (a_sl a) (a_num a) Hs ltac:(rewrite Hl; exact Hb) He
                                 ltac:(lia) (S (length (a_sl a))) 0 ltac:(lia) ltac:(lia)) as B.
      rewrite N.mul_0_r in B. replace (a_siz a * (0 + 1)) with (a_siz a) in B by lia.
      cbn [N.to_nat] in B. rewrite lrot_0 in B by lia. rewrite B. cbn [bind].
      replace (a_num a - 1 - 0) with (a_num a - 1) by lia. cbn [Nat.add]. fold x t.
      set (c := length (takewhile (fun y => gtb x y) t)).
      assert (Hc : (c <= length t)%nat) by (apply (takewhile_all cmp)).
      eexists. split; [reflexivity|].
      assert (L3 : length (lrot 0 c (a_sl a)) = length (a_sl a)) by (apply lrot_length; lia).
      assert (R6 : abs (mkArr (a_siz a) (a_num a) (a_mem a) (lrot 0 c (a_sl a))) = ins_at c x t).
      { unfold abs, ins_at. cbn [a_num a_sl]. unfold t, x.
        apply nth_error_ext; intro j. ne_norm. rewrite ne_lrot by lia.
        rewrite <- (ne_nth (a_sl a) 0 []) by lia. ne_split; ne_leaf. }
      splits; cbn [a_siz a_mem a_num a_sl]; auto.
      + constructor; cbn [a_siz a_mem a_num a_sl]; auto.
        * unfold nlen in *. rewrite L3. assumption.
        * apply Forall_lrot; [lia|assumption].
      + rewrite Eabs, R6. apply ins_at_perm.
      + intros _. rewrite R6, Eabs. reflexivity.
  Qed.

  (* monotonicity of "goes after the key" on a sorted prefix of the slots *)
  Lemma mono_of_sorted : forall (sl : list elem) n key,
      sorted (firstn n sl) -> (n <= length sl)%nat ->
      forall a b, (a <= b)%nat -> (b < n)%nat ->
                  gtb (nth a sl []) key = true -> gtb (nth b sl []) key = true.
  Proof.
    intros sl n key Hs Hn a b Hab Hb G.
    destruct (gtb (nth b sl []) key) eqn:Gb; [reflexivity|exfalso].
    assert (L : le (nth a sl []) (nth b sl [])).
    { assert (Ea : nth a (firstn n sl) [] = nth a sl []).
      { apply nth_eq_of_ne; [rewrite firstn_length; lia|]. ne_norm. ne_split; ne_leaf. }
      assert (Eb : nth b (firstn n sl) [] = nth b sl []).
      { apply nth_eq_of_ne; [rewrite firstn_length; lia|]. ne_norm. ne_split; ne_leaf. }
      rewrite <- Ea, <- Eb. apply sorted_nth_le; [assumption|].
      change (@length (list byte)) with (@length elem). rewrite firstn_length. lia. }
    pose proof (le_trans _ _ _ L Gb) as Lx. unfold VecSpec.le in Lx. congruence.
  Qed.

  (* the position found by the upper-bound search is the one of the specification *)
  Lemma ub_pos_char : forall (t : list elem) key k, (k <= length t)%nat ->
      (forall j, (j < k)%nat -> gtb (nth j t []) key = false) ->
      (forall j, (k <= j < length t)%nat -> gtb (nth j t []) key = true) ->
      ub_pos cmp t key = k.
  Proof.
    intros t key k Hk Hlo Hhi. unfold ub_pos.
    change (@length elem) with (@length (list byte)) in *.
    assert (E : length (takewhile (fun y => gtb y key) (rev t)) = (length t - k)%nat).
    { apply (takewhile_rev_len_char cmp (fun y => gtb y key) t k).
      - exact Hk.
      - intros j Hj. apply Hhi. exact Hj.
      - intro Hp. apply Hlo. lia. }
    match goal with |- (?a - ?b)%nat = _ => assert (E' : b = (a - k)%nat) by (exact E) end.
    rewrite E'. lia.
  Qed.

  (* a_vec_sort_back / a_buf_sort_back *)
  Lemma arr_sort_back_spec : forall a, arr_inv a ->
      exists a', arr_sort_back cmp a = Ok a' /\ arr_inv a'
        /\ a_siz a' = a_siz a /\ a_mem a' = a_mem a /\ a_num a' = a_num a
        /\ Permutation (abs a) (abs a')
        /\ ((a_num a = a_mem a \/ sorted (removelast (abs a))) -> abs a' = sp_sort_back cmp (abs a)).
  Proof.
    intros a I.
    pose proof (inv_siz a I) as Hs. pose proof (inv_num a I) as Hn. pose proof (inv_len a I) as Hl.
    pose proof (off_lt a (a_mem a) I (N.le_refl _)) as Hb. pose proof HALF_lt_W as HW.
    pose proof (inv_elem a I) as He. pose proof (mem_lt_half a I) as Hm.
    assert (Hlen : length (a_sl a) = N.to_nat (a_mem a)) by (unfold nlen in *; lia).
    assert (Hoff : forall k, k <= a_mem a -> a_siz a * k < W).
    { intros k Hk. pose proof (mul_le_l (a_siz a) k (a_mem a) Hk). lia. }
    unfold arr_sort_back.
    destruct (N.ltb_spec 1 (a_num a)) as [H1|H1].
    2:{ exists a. splits; auto.
        pose proof (abs_length_nat a I) as AL. intros _.
        destruct (abs a) as [|x [|y t]]; [reflexivity|reflexivity|cbn in AL; lia]. }
    assert (E0 : wmul (a_siz a) (a_num a) = a_siz a * a_num a) by (apply wmul_eq, Hoff; lia).
    rewrite E0.
    assert (E1 : wsub (a_siz a * a_num a) (a_siz a) = a_siz a * (a_num a - 1)).
    { assert (A1 : a_siz a * a_num a < W) by (apply Hoff; lia).
      assert (A2 : a_siz a * 1 <= a_siz a * a_num a) by (apply mul_le_l; lia).
      rewrite wsub_eq by lia. rewrite N.mul_sub_distr_l. lia. }
    rewrite E1.
    set (x := nth (N.to_nat (a_num a - 1)) (a_sl a) []).
    set (t := firstn (N.to_nat (a_num a - 1)) (a_sl a)).
    assert (Eabs : abs a = t ++ [x]) by (apply abs_snoc; auto; lia).
    assert (Lt : length t = N.to_nat (a_num a - 1)) by (unfold t; ne_norm; lia).
    assert (Nt : forall j, (j < length t)%nat -> nth j t [] = nth j (a_sl a) []).
    { intros j Hj. apply nth_eq_of_ne; [lia|]. unfold t. ne_norm. ne_split; ne_leaf. }
    assert (Esp : sp_sort_back cmp (abs a) = ins_at (ub_pos cmp t x) x t).
    { rewrite Eabs. rewrite (sp_sort_back_push cmp). reflexivity. }
    assert (Eperm : forall k, Permutation (abs a) (ins_at k x t)).
    { intro k. rewrite Eabs. eapply Permutation_trans; [|apply ins_at_perm].
      apply Permutation_sym, Permutation_cons_append. }
    destruct (N.ltb_spec (a_num a) (a_mem a)) as [Hf|Hf].
    - (* spare slot: binary search, then rotate through the scratch slot *)
      rewrite wsub_eq by lia.
      rewrite sl_read_slot by lia. cbn [bind]. fold x.
      destruct (ub_search_spec cmp (a_siz a) (a_sl a) Hs ltac:(rewrite Hl; exact Hb) x 64 0 (a_num a - 1))
        as [k [Ek [Hk C]]]; [lia|lia|change (2 ^ N.of_nat 64) with W; lia|].
      change (S 64) with 65%nat in Ek. rewrite Ek. cbn [bind].
      assert (Res : exists a', (if k <? a_num a - 1
                 then sl1 <- sl_copy (a_siz a) (a_sl a) (a_siz a * a_num a) (a_siz a * (a_num a - 1)) (a_siz a);;
                      sl2 <- sl_move (a_siz a) sl1 (wadd (wmul (a_siz a) k) (a_siz a)) (wmul (a_siz a) k)
                                     (wsub (a_siz a * (a_num a - 1)) (wmul (a_siz a) k));;
                      sl3 <- sl_copy (a_siz a) sl2 (wmul (a_siz a) k) (a_siz a * a_num a) (a_siz a);;
                      Ok (mkArr (a_siz a) (a_num a) (a_mem a) sl3)
                 else Ok a) = Ok a' /\ arr_inv a' /\ a_siz a' = a_siz a /\ a_mem a' = a_mem a
                 /\ a_num a' = a_num a /\ abs a' = ins_at (N.to_nat k) x t).
      { destruct (N.ltb_spec k (a_num a - 1)) as [Hk'|Hk'].
        - assert (Ek' : wmul (a_siz a) k = a_siz a * k) by (apply wmul_eq, Hoff; lia).
          rewrite Ek'.
          assert (E2 : wadd (a_siz a * k) (a_siz a) = a_siz a * (k + 1))
            by (rewrite wadd_eq; [lia|pose proof (Hoff (k + 1)); lia]).
          assert (E3 : wsub (a_siz a * (a_num a - 1)) (a_siz a * k) = a_siz a * (a_num a - 1 - k)).
          { assert (A1 : a_siz a * (a_num a - 1) < W) by (apply Hoff; lia).
            assert (A2 : a_siz a * k <= a_siz a * (a_num a - 1)) by (apply mul_le_l; lia).
            rewrite wsub_eq by lia. rewrite <- N.mul_sub_distr_l. reflexivity. }
          rewrite E2, E3.
          rewrite (sl_copy_at _ _ _ _ _ (a_num a) (a_num a - 1) 1) by (auto; lia). cbn [bind].
          set (l1 := lmove (N.to_nat (a_num a)) (N.to_nat (a_num a - 1)) (N.to_nat 1) (a_sl a)).
          assert (L1 : length l1 = length (a_sl a)) by (apply lmove_length; lia).
          assert (NL1 : nlen l1 = a_mem a) by (unfold nlen; rewrite L1; exact Hl).
          rewrite sl_move_slot by (rewrite ?NL1; auto; lia). cbn [bind].
          set (l2 := lmove (N.to_nat (k + 1)) (N.to_nat k) (N.to_nat (a_num a - 1 - k)) l1).
          assert (L2 : length l2 = length (a_sl a)) by (unfold l2; rewrite lmove_length; lia).
          assert (NL2 : nlen l2 = a_mem a) by (unfold nlen; rewrite L2; exact Hl).
          rewrite (sl_copy_at _ _ _ _ _ k (a_num a) 1) by (rewrite ?NL2; auto; lia). cbn [bind].
          set (l3 := lmove (N.to_nat k) (N.to_nat (a_num a)) (N.to_nat 1) l2).
          assert (L3 : length l3 = length (a_sl a)) by (unfold l3; rewrite lmove_length; lia).
          eexists. split; [reflexivity|]. splits; cbn [a_siz a_mem a_num a_sl]; auto.
          + constructor; cbn [a_siz a_mem a_num a_sl]; auto.
            * unfold nlen in *. rewrite L3. assumption.
            * unfold l3, l2, l1. repeat apply Forall_lmove. assumption.
          + unfold abs, ins_at. cbn [a_num a_sl]. unfold t, x.
            apply nth_error_ext; intro j. ne_norm. unfold l3. rewrite ne_lmove by lia.
            unfold l2. rewrite !ne_lmove by lia. unfold l1. rewrite !ne_lmove by lia.
            rewrite <- (ne_nth (a_sl a) (N.to_nat (a_num a - 1)) []) by lia. ne_split; ne_leaf.
        - assert (k = a_num a - 1) by lia. subst k. exists a. splits; auto.
          rewrite Eabs. unfold ins_at. rewrite <- Lt.
          change (@length elem) with (@length (list byte)). rewrite firstn_all, skipn_all. reflexivity. }
      destruct Res as [a' [R1 [R2 [R3 [R4 [R5 R6]]]]]].
      exists a'. splits; auto.
      + rewrite R6. apply Eperm.
      + intros [Hfull|Hsorted]; [lia|].
        rewrite R6, Esp. f_equal. symmetry.
        rewrite Eabs, removelast_last in Hsorted.
        destruct C as [C1 C2].
        { intros p c Hp Hpc Hc G.
          apply (mono_of_sorted (a_sl a) (N.to_nat (a_num a - 1)) x Hsorted ltac:(lia)
                                (N.to_nat p) (N.to_nat c)); [lia|lia|exact G]. }
        apply ub_pos_char; [lia| |].
        * intros j Hj. rewrite Nt by lia. replace j with (N.to_nat (N.of_nat j)) by lia. apply C1. lia.
        * intros j Hj. rewrite Nt by lia. replace j with (N.to_nat (N.of_nat j)) by lia. apply C2. lia.
    - (* exactly full: bubble by a_swap *)
      pose proof (sb_bubble_spec cmp (a_siz a) (a_sl a) (a_num a) Hs ltac:(rewrite Hl; exact Hb) He
                                 ltac:(lia) (S (length (a_sl a))) (a_num a - 1) ltac:(lia) ltac:(lia) ltac:(lia)) as B.
      cbv zeta in B. replace (a_num a - 1 - (a_num a - 1)) with 0 in B by lia.
      cbn [N.to_nat] in B. rewrite lrotr_0 in B by lia. rewrite B. cbn [bind]. fold x t.
      set (c := length (takewhile (fun y => gtb y x) (rev t))).
      assert (Hc : (c <= length t)%nat).
      { pose proof (takewhile_all cmp (fun y => gtb y x) (rev t)) as T. rewrite rev_length in T. exact T. }
      eexists. split; [reflexivity|]. cbn [Nat.add].
      assert (L3 : length (lrotr (N.to_nat (a_num a - 1) - c) c (a_sl a)) = length (a_sl a))
        by (apply lrotr_length; lia).
      assert (R6 : abs (mkArr (a_siz a) (a_num a) (a_mem a) (lrotr (N.to_nat (a_num a - 1) - c) c (a_sl a)))
                   = ins_at (ub_pos cmp t x) x t).
      { unfold ub_pos. fold c. unfold abs, ins_at. cbn [a_num a_sl]. rewrite Lt. unfold t, x.
        apply nth_error_ext; intro j. ne_norm. rewrite ne_lrotr by lia.
        replace (N.to_nat (a_num a - 1) - c + c)%nat with (N.to_nat (a_num a - 1)) by lia.
        rewrite <- (ne_nth (a_sl a) (N.to_nat (a_num a - 1)) []) by lia. ne_split; ne_leaf. }
      splits; cbn [a_siz a_mem a_num a_sl]; auto.
      + constructor; cbn [a_siz a_mem a_num a_sl]; auto.
        * unfold nlen in *. rewrite L3. assumption.
        * apply Forall_lrotr; [lia|assumption].
      + rewrite R6. apply Eperm.
      + intros _. rewrite R6, Esp. reflexivity.
  Qed.

  (* a_vec_push_sort / a_buf_push_sort once the capacity is there, and the caller's write *)
  Lemma arr_push_sort_put : forall a key, arr_inv a -> a_num a < a_mem a ->
      exists a2 a3 off p,
        arr_push_sort cmp a key = Ok (a2, off) /\ put a2 off key = Ok a3
        /\ arr_inv a3 /\ a_siz a3 = a_siz a /\ a_mem a3 = a_mem a /\ a_num a3 = a_num a + 1
        /\ slot_ptr (a_siz a) (a_mem a) p off /\ p <= a_num a
        /\ abs a3 = ins_at (N.to_nat p) (fit (a_siz a) key) (abs a)
        /\ (sorted (abs a) -> N.to_nat p = ub_pos cmp (abs a) key)
        /\ content_at a3 off (a_num a3) = Some (fit (a_siz a) key).
  Proof.
    intros a key I Hroom.
    pose proof (inv_siz a I) as Hs. pose proof (inv_num a I) as Hn. pose proof (inv_len a I) as Hl.
    pose proof (off_lt a (a_mem a) I (N.le_refl _)) as Hb. pose proof HALF_lt_W as HW.
    pose proof (inv_elem a I) as He. pose proof (mem_lt_half a I) as Hm.
    assert (Hlen : length (a_sl a) = N.to_nat (a_mem a)) by (unfold nlen in *; lia).
    assert (Hoff : forall k, k <= a_mem a -> a_siz a * k < W).
    { intros k Hk. pose proof (mul_le_l (a_siz a) k (a_mem a) Hk). lia. }
    unfold arr_push_sort, arr_inc. cbn [a_sl a_num a_mem a_siz].
    assert (E0 : wmul (a_siz a) (a_num a) = a_siz a * a_num a) by (apply wmul_eq, Hoff; lia).
    rewrite E0.
    destruct (ub_search_spec cmp (a_siz a) (a_sl a) Hs ltac:(rewrite Hl; exact Hb) key 64 0 (a_num a))
      as [k [Ek [Hk C]]]; [lia|lia|change (2 ^ N.of_nat 64) with W; lia|].
    change (S 64) with 65%nat in Ek. rewrite Ek. cbn [bind].
    assert (Nabs : forall j, (j < N.to_nat (a_num a))%nat -> nth j (abs a) [] = nth j (a_sl a) []).
    { intros j Hj. apply nth_eq_of_ne; [rewrite (abs_length_nat a I); lia|].
      unfold abs. ne_norm. ne_split; ne_leaf. }
    assert (Hub : sorted (abs a) -> N.to_nat k = ub_pos cmp (abs a) key).
    { intro Hsorted. symmetry. destruct C as [C1 C2].
      { intros p c Hp Hpc Hc G.
        apply (mono_of_sorted (a_sl a) (N.to_nat (a_num a)) key Hsorted ltac:(lia)
                              (N.to_nat p) (N.to_nat c)); [lia|lia|exact G]. }
      pose proof (abs_length_nat a I) as AL.
      apply ub_pos_char; [lia| |].
      - intros j Hj. rewrite Nabs by lia. replace j with (N.to_nat (N.of_nat j)) by lia. apply C1. lia.
      - intros j Hj. rewrite Nabs by lia. replace j with (N.to_nat (N.of_nat j)) by lia. apply C2. lia. }
    rewrite !(wadd_eq (a_num a) 1) by lia.
    destruct (N.ltb_spec k (a_num a)) as [Hk'|Hk'].
    - assert (Ek' : wmul (a_siz a) k = a_siz a * k) by (apply wmul_eq, Hoff; lia).
      rewrite Ek'.
      assert (E2 : wadd (a_siz a * k) (a_siz a) = a_siz a * (k + 1))
        by (rewrite wadd_eq; [lia|pose proof (Hoff (k + 1)); lia]).
      assert (E3 : wsub (a_siz a * a_num a) (a_siz a * k) = a_siz a * (a_num a - k)).
      { assert (A1 : a_siz a * a_num a < W) by (apply Hoff; lia).
        assert (A2 : a_siz a * k <= a_siz a * a_num a) by (apply mul_le_l; lia).
        rewrite wsub_eq by lia. rewrite <- N.mul_sub_distr_l. reflexivity. }
      rewrite E2, E3. rewrite sl_move_slot by lia. cbn [bind].
      set (l1 := lmove (N.to_nat (k + 1)) (N.to_nat k) (N.to_nat (a_num a - k)) (a_sl a)).
      assert (L1 : length l1 = length (a_sl a)) by (apply lmove_length; lia).
      eexists. eexists. exists (a_siz a * k), k. split; [reflexivity|].
      unfold put. cbn [a_siz a_sl a_num a_mem].
      rewrite sl_write_slot; [|lia|unfold nlen; rewrite L1; unfold nlen in Hl; lia]. cbn [bind].
      split; [reflexivity|].
      unfold slot_ptr. splits; cbn [a_siz a_mem a_num a_sl]; auto; try lia.
      + constructor; cbn [a_siz a_mem a_num a_sl]; auto.
        * lia.
        * unfold nlen in *. rewrite lupd_length by lia. rewrite L1. assumption.
        * apply Forall_lupd; [apply Forall_lmove; assumption|apply fit_ok].
      + unfold abs, ins_at. cbn [a_num a_sl].
        apply nth_error_ext; intro j. ne_norm.
        rewrite ?ne_lupd by lia. unfold l1. rewrite ?ne_lmove by lia. ne_norm. ne_split; ne_leaf.
      + unfold content_at. cbn [a_siz a_sl a_num].
        rewrite slot_of_mul by assumption.
        destruct (N.ltb_spec k (a_num a + 1)); [|lia].
        rewrite sl_read_slot; [|assumption|unfold nlen; rewrite lupd_length by lia; lia].
        f_equal. apply nth_error_nth with (d := []). rewrite ne_lupd by lia.
        rewrite Nat.eqb_refl. reflexivity.
    - assert (k = a_num a) by lia. subst k.
      eexists. eexists. exists (a_siz a * a_num a), (a_num a). split; [reflexivity|].
      unfold put. cbn [a_siz a_sl a_num a_mem].
      rewrite sl_write_slot by lia. cbn [bind].
      split; [reflexivity|].
      unfold slot_ptr. splits; cbn [a_siz a_mem a_num a_sl]; auto; try lia.
      + constructor; cbn [a_siz a_mem a_num a_sl]; auto.
        * lia.
        * unfold nlen in *. rewrite lupd_length by lia. assumption.
        * apply Forall_lupd; [assumption|apply fit_ok].
      + unfold abs, ins_at. cbn [a_num a_sl].
        apply nth_error_ext; intro j. ne_norm.
        rewrite ?ne_lupd by lia. ne_norm. ne_split; ne_leaf.
      + unfold content_at. cbn [a_siz a_sl a_num].
        rewrite slot_of_mul by assumption.
        destruct (N.ltb_spec (a_num a) (a_num a + 1)); [|lia].
        rewrite sl_read_slot; [|assumption|unfold nlen; rewrite lupd_length by lia; lia].
        f_equal. apply nth_error_nth with (d := []). rewrite ne_lupd by lia.
        rewrite Nat.eqb_refl. reflexivity.
  Qed.
End ArrSort.
