(** * C04 — non-vacuity: the hypotheses of the property theorems are satisfied by concrete,
      non-trivial states and histories *)
From Coq Require Import ZArith NArith List Bool Lia Sorting.Sorted Sorting.Permutation.
From LibaV Require Import C04.VecDefs C04.VecSpec C04.ListAux C04.ArrProofs C04.VecProofs.
Import ListNotations.
Local Open Scope N_scope.

(** a vector with a spare slot and one that is exactly full, holding the same sequence *)
Definition ex_spare : arr := mkArr 2 3 4 [[3; 0]; [1; 0]; [2; 0]; [165; 165]].
Definition ex_full : arr := mkArr 2 3 3 [[3; 0]; [1; 0]; [2; 0]].

Example ex_spare_inv : arr_inv ex_spare.
Proof.
  constructor; cbn; try (rewrite HALF_val); try lia; try reflexivity.
  repeat constructor.
Qed.

Example ex_full_inv : arr_inv ex_full.
Proof.
  constructor; cbn; try (rewrite HALF_val); try lia; try reflexivity.
  repeat constructor.
Qed.

Example ex_same_abs : abs ex_spare = abs ex_full /\ abs ex_spare <> []
                      /\ a_num ex_spare < a_mem ex_spare /\ a_num ex_full = a_mem ex_full.
Proof. cbn. repeat split; try reflexivity; discriminate. Qed.

Example ex_vec_inv : vec_inv (mkVec (Some 2) ex_spare).
Proof. split; [exact ex_spare_inv|discriminate]. Qed.

Example ex_buf_inv : buf_inv (mkBuf 1 ex_full).
Proof. split; [exact ex_full_inv|]. cbn. rewrite HALF_val. reflexivity. Qed.

(** the rest after the head / before the last is sorted under the harness comparator *)
Example ex_tail_sorted : VecSpec.sorted lex_cmp (tl (abs ex_spare)).
Proof. cbn. repeat constructor. Qed.

Definition ex_back : arr := mkArr 2 3 4 [[1; 0]; [3; 0]; [2; 0]; [165; 165]].
Example ex_back_inv : arr_inv ex_back /\ VecSpec.sorted lex_cmp (removelast (abs ex_back)).
Proof.
  split; [constructor; cbn; try (rewrite HALF_val); try lia; try reflexivity; repeat constructor|].
  cbn. repeat constructor.
Qed.

Definition ex_sorted_arr : arr := mkArr 2 3 4 [[1; 0]; [2; 0]; [2; 5]; [165; 165]].
Example ex_sorted_inv : arr_inv ex_sorted_arr /\ VecSpec.sorted lex_cmp (abs ex_sorted_arr)
                        /\ a_num ex_sorted_arr < a_mem ex_sorted_arr /\ fit (a_siz ex_sorted_arr) [2; 1] = [2; 1].
Proof.
  split; [constructor; cbn; try (rewrite HALF_val); try lia; try reflexivity; repeat constructor|].
  cbn. repeat split; repeat constructor.
Qed.

(** what the operations compute on these states (run by the kernel) *)
Example ex_remove_both_paths :
  (match arr_remove ex_spare 0 with Ok (a, _) => Some (abs a) | Err _ => None end) = Some [[1; 0]; [2; 0]]
  /\ (match arr_remove ex_full 0 with Ok (a, _) => Some (abs a) | Err _ => None end) = Some [[1; 0]; [2; 0]].
Proof. vm_compute. split; reflexivity. Qed.

Example ex_sort_fore_both_paths :
  (match arr_sort_fore lex_cmp ex_spare with Ok a => Some (abs a) | Err _ => None end)
  = Some [[1; 0]; [2; 0]; [3; 0]]
  /\ (match arr_sort_fore lex_cmp ex_full with Ok a => Some (abs a) | Err _ => None end)
     = Some [[1; 0]; [2; 0]; [3; 0]].
Proof. vm_compute. split; reflexivity. Qed.

(** a history that satisfies every operation's precondition: two vectors and a buffer, indices at
    the boundary and at SIZE_MAX, a resize above the representable capacity, a zero element size *)
Definition MAXW : N := 18446744073709551615.
Definition ex_hist : list wop :=
  [ WVNew false 4; WVNew true 0;
    WV false (OPushBack [1; 2; 3; 4]);
    WV false (OStore 0 [[5; 0; 0; 0]; [6; 0; 0; 0]; [9; 0; 0; 0]]);
    WV false (OInsert MAXW [7; 0; 0; 0]);
    WV false (ORemove MAXW);
    WV false (OErase 1 MAXW true);
    WV false (OSetn MAXW false []);
    WV false OSort; WV false (OPushSort [2; 0; 0; 0]);
    WV true (OPushBack [8]); WVSwap;
    WBNew 0 3; WB (OPushBack [7]); WB (OPushBack [3]); WB (OPushBack [5]); WB (OPushBack [1]);
    WB OSortBack; WB (ORemove 0); WB (OSetm 2); WB (OStore 1 [[4]; [4]]);
    WVDie false true; WVDie true false; WBDie true ].

Example ex_hist_pre : hist_pre lex_cmp (init_world [] 65536) ex_hist.
Proof. vm_compute. repeat split. Qed.

Example ex_hist_result :
  map o_ret (snd (run lex_cmp (init_world [] 65536) ex_hist))
  = [ RVoid; RVoid;
      RPtr (Some 0) (Some [1; 2; 3; 4]);
      RInt 0;
      RPtr (Some 16) (Some [7; 0; 0; 0]);
      RPtr (Some 16) (Some [7; 0; 0; 0]);
      RInt 0;
      RInt 4;
      RVoid; RPtr (Some 0) (Some [2; 0; 0; 0]);
      RPtr (Some 0) (Some [8]); RVoid;
      RVoid; RPtr (Some 0) (Some [7]); RPtr (Some 1) (Some [3]); RPtr (Some 2) (Some [5]); RPtr None None;
      RVoid; RPtr (Some 2) (Some [7]); RInt 0; RInt 3;
      RVoid; RVoid; RVoid ]
  /\ h_live (w_heap (fst (run lex_cmp (init_world [] 65536) ex_hist))) = [].
Proof. vm_compute. split; reflexivity. Qed.
