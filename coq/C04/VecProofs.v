(** * C04 — every operation of the vector and of the buffer refines the abstract sequence,
      for every index and count, and the invariants hold along every history *)
From Coq Require Import ZArith NArith List Bool Lia Arith Sorting.Sorted Sorting.Permutation.
From LibaV Require Import C04.VecDefs C04.VecSpec C04.ListAux C04.SwapProofs C04.ArrProofs C04.SortProofs.
Import ListNotations.
Local Open Scope N_scope.

Ltac Zify.zify_post_hook ::= Z.to_euclidean_division_equations.

(** ** growth policy of a_vec_setm (with FIX C04-5) *)
Lemma pow_fuel : HALF * 2 ^ 128 < 3 ^ 128.
Proof. rewrite HALF_val. reflexivity. Qed.

Lemma grow_loop_spec : forall mem fuel m,
    m < mem -> mem <= HALF -> mem * 2 ^ N.of_nat fuel < (m + 1) * 3 ^ N.of_nat fuel ->
    exists m', grow_loop fuel m mem = Ok m' /\ mem <= m' /\ m' < W.
Proof.
  intros mem. pose proof HALF_lt_W as HW. rewrite HALF_val, W_val in *.
  induction fuel as [|f IH]; intros m Hm Hmem Hf.
  - cbn in Hf. lia.
  - cbn [grow_loop]. cbv zeta.
    assert (E : wadd m (wadd (m / 2) 1) = m + m / 2 + 1).
    { rewrite (wadd_eq (m / 2) 1) by (rewrite W_val; lia). rewrite wadd_eq by (rewrite W_val; lia). lia. }
    rewrite E. set (m' := m + m / 2 + 1).
    destruct (N.ltb_spec m' mem) as [Hlt|Hge].
    + apply IH; [exact Hlt|exact Hmem|].
      rewrite Nat2N.inj_succ, !N.pow_succ_r' in Hf.
      set (A := 2 ^ N.of_nat f) in *. set (B := 3 ^ N.of_nat f) in *.
      assert (K : 3 * (m + 1) <= 2 * (m' + 1)) by (unfold m'; lia).
      pose proof (N.mul_le_mono_r _ _ B K) as K2. nia.
    + exists m'. split; [reflexivity|]. split; [lia|]. unfold m'. lia.
Qed.

Lemma size_up8_spec : forall m, m + 7 < W -> m <= size_up8 m /\ size_up8 m <= m + 7 /\ size_up8 m mod 8 = 0.
Proof.
  intros m H. unfold size_up8. rewrite wadd_eq by exact H.
  split; [lia|]. split; [lia|]. apply N.mod_mul. lia.
Qed.

Lemma size_down8_spec : forall n, size_down8 n <= n /\ n < size_down8 n + 8 /\ size_down8 n mod 8 = 0.
Proof. intros n. unfold size_down8. split; [lia|]. split; [lia|]. apply N.mod_mul. lia. Qed.

Lemma resize_grow : forall siz sl k, 0 < siz -> (length sl <= N.to_nat k)%nat ->
    resize_slots siz sl (siz * k) = sl ++ repeat (junk_elem siz) (N.to_nat k - length sl).
Proof.
  intros siz sl k Hs Hk. unfold resize_slots.
  replace (siz * k / siz) with k by (rewrite N.mul_comm, N.div_mul; lia).
  rewrite firstn_all2 by lia. reflexivity.
Qed.

Lemma vec_setm_spec : forall h v mem, vec_inv v ->
    exists h' v' rc ev, vec_setm h v mem = Ok (h', v', rc, ev)
      /\ ((rc = A_SUCCESS /\ vec_inv v' /\ mem <= a_mem (v_arr v')
           /\ a_mem (v_arr v) <= a_mem (v_arr v')
           /\ a_siz (v_arr v') = a_siz (v_arr v) /\ a_num (v_arr v') = a_num (v_arr v)
           /\ abs (v_arr v') = abs (v_arr v))
          \/ (rc = A_OMEMORY /\ v' = v /\ a_mem (v_arr v) < mem)).
Proof.
  intros h v mem [I Hp]. set (a := v_arr v) in *.
  pose proof (inv_siz a I) as Hs. pose proof (inv_num a I) as Hn. pose proof (inv_len a I) as Hl.
  pose proof (inv_bytes a I) as Hb. pose proof HALF_lt_W as HW.
  pose proof (inv_elem a I) as He. pose proof (mem_lt_half a I) as Hm.
  unfold vec_setm. fold a.
  destruct (N.ltb_spec (a_mem a) mem) as [Hgrow|Hok].
  2:{ exists h, v, A_SUCCESS, []. split; [reflexivity|]. left. fold a. splits; auto; try lia. split; auto. }
  set (mx := size_down8 ((HALF - 1) / a_siz a)).
  destruct (size_down8_spec ((HALF - 1) / a_siz a)) as [D1 [D2 D3]]. fold mx in D1, D2, D3.
  assert (Hmx : a_siz a * mx < HALF).
  { assert (a_siz a * ((HALF - 1) / a_siz a) <= HALF - 1) by (apply N.mul_div_le; lia).
    pose proof (mul_le_l (a_siz a) mx _ D1). rewrite HALF_val in *. lia. }
  assert (Hmx2 : mx < HALF).
  { assert (1 * mx <= a_siz a * mx) by (apply N.mul_le_mono_r; lia). lia. }
  destruct (N.ltb_spec mx mem) as [Hbig|Hfit].
  { exists h, v, A_OMEMORY, []. split; [reflexivity|]. right. auto. }
  destruct (grow_loop_spec mem 128 (a_mem a)) as [m [Eg [G1 G2]]]; [exact Hgrow|lia| |].
  { pose proof pow_fuel. change (N.of_nat 128) with 128.
    assert (mem * 2 ^ 128 <= HALF * 2 ^ 128) by (apply N.mul_le_mono_r; lia).
    assert (1 * 3 ^ 128 <= (a_mem a + 1) * 3 ^ 128) by (apply N.mul_le_mono_r; lia). lia. }
  rewrite Eg. cbn [bind].
  (* the loop ends below 3/2 * mem + 1, far from wrapping *)
  assert (G3 : m + 7 < W).
  { clear - Eg Hgrow Hfit Hmx2 HW G1. rewrite HALF_val, W_val in *.
    (* m is the first value >= mem of a sequence whose previous value was < mem *)
    assert (forall fuel m0 m1, m0 < mem -> grow_loop fuel m0 mem = Ok m1 -> m1 <= mem + mem / 2 + 1) as Hup.
    { induction fuel as [|f IH]; intros m0 m1 H0 E; [discriminate|].
      cbn [grow_loop] in E. cbv zeta in E.
      assert (E' : wadd m0 (wadd (m0 / 2) 1) = m0 + m0 / 2 + 1).
      { rewrite (wadd_eq (m0 / 2) 1) by (rewrite W_val; lia). rewrite wadd_eq by (rewrite W_val; lia). lia. }
      rewrite E' in E. destruct (N.ltb_spec (m0 + m0 / 2 + 1) mem) as [Hlt|Hge].
      - apply (IH _ _ Hlt E).
      - injection E as <-. lia. }
    pose proof (Hup _ _ _ Hgrow Eg). lia. }
  destruct (size_up8_spec m G3) as [U1 [U2 U3]].
  set (mem1 := size_up8 m) in *.
  set (mem2 := if mx <? mem1 then mx else mem1).
  assert (M2 : mem <= mem2 /\ mem2 <= mx).
  { unfold mem2. destruct (N.ltb_spec mx mem1); lia. }
  assert (Eb : wmul (a_siz a) mem2 = a_siz a * mem2).
  { apply wmul_eq. pose proof (mul_le_l (a_siz a) mem2 mx). lia. }
  rewrite Eb.
  destruct (a_alloc h (v_ptr v) (a_siz a * mem2)) as [[p h'] ev].
  destruct p as [id|].
  - eexists. eexists. eexists. eexists. split; [reflexivity|]. left.
    assert (Hlen : length (a_sl a) = N.to_nat (a_mem a)) by (unfold nlen in *; lia).
    rewrite resize_grow by lia.
    splits; cbn [v_arr v_ptr a_siz a_mem a_num a_sl]; auto; try lia.
    + split; cbn [v_arr v_ptr]; [|discriminate].
      constructor; cbn [a_siz a_mem a_num a_sl]; auto.
      * lia.
      * unfold nlen in *. rewrite app_length, repeat_length. lia.
      * pose proof (mul_le_l (a_siz a) mem2 mx). lia.
      * rewrite Forall_app. split; [assumption|apply Forall_repeat, junk_ok].
    + unfold abs. cbn [a_num a_sl]. apply nth_error_ext; intro k. ne_norm. ne_split; ne_leaf.
  - eexists. eexists. eexists. eexists. split; [reflexivity|]. right. auto.
Qed.
