(** * C04 — proofs about the model of VecDefs.v (work in progress) *)
From Coq Require Import NArith List Bool Lia.
From LibaV Require Import C04.VecDefs.
Import ListNotations.
Local Open Scope N_scope.

Lemma slot_of_mul : forall siz i, 0 < siz -> slot_of siz (siz * i) = Ok i.
Proof.
  intros siz i H. unfold slot_of.
  destruct (N.eqb_spec siz 0) as [E|E]; [lia|].
  rewrite N.mul_comm, N.mod_mul by lia. cbn [N.eqb].
  rewrite N.div_mul by lia. reflexivity.
Qed.
