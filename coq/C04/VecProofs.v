(** * C04 — every operation of the vector and of the buffer refines the abstract sequence,
      for every index and count, and the invariants hold along every history *)
From Coq Require Import ZArith NArith List Bool Lia Arith Sorting.Sorted Sorting.Permutation.
From LibaV Require Import C04.VecDefs C04.VecSpec C04.ListAux C04.SwapProofs C04.ArrProofs C04.SortProofs.
Import ListNotations.
Local Open Scope N_scope.

Ltac Zify.zify_post_hook ::= Z.to_euclidean_division_equations.

Lemma W_2HALF : W = 2 * HALF.
Proof. rewrite W_val, HALF_val. reflexivity. Qed.

(** ** growth policy of a_vec_setm (with FIX C04-5) *)
Lemma pow_fuel : HALF * 2 ^ 128 < 3 ^ 128.
Proof. rewrite HALF_val. reflexivity. Qed.

Lemma grow_loop_spec : forall mem fuel m,
    m < mem -> mem <= HALF -> mem * 2 ^ N.of_nat fuel < (m + 1) * 3 ^ N.of_nat fuel ->
    exists m', grow_loop fuel m mem = Ok m' /\ mem <= m' /\ m' < W.
Proof.
  intros mem. pose proof HALF_lt_W as HW. rewrite HALF_val, W_val in *.
  induction fuel as [|f IH]; intros m Hm Hmem Hf.
  - cbn in Hf. lia.
  - cbn [grow_loop]. cbv zeta.
    assert (E : wadd m (wadd (m / 2) 1) = m + m / 2 + 1).
    { rewrite (wadd_eq (m / 2) 1) by (rewrite W_val; lia). rewrite wadd_eq by (rewrite W_val; lia). lia. }
    rewrite E. set (m' := m + m / 2 + 1).
    destruct (N.ltb_spec m' mem) as [Hlt|Hge].
    + apply IH; [exact Hlt|exact Hmem|].
      rewrite Nat2N.inj_succ, !N.pow_succ_r' in Hf.
      set (A := 2 ^ N.of_nat f) in *. set (B := 3 ^ N.of_nat f) in *.
      assert (K : 3 * (m + 1) <= 2 * (m' + 1)) by (unfold m'; lia).
      pose proof (N.mul_le_mono_r _ _ B K) as K2. nia.
    + exists m'. split; [reflexivity|]. split; [lia|]. unfold m'. lia.
Qed.

Lemma size_up8_spec : forall m, m + 7 < W -> m <= size_up8 m /\ size_up8 m <= m + 7 /\ size_up8 m mod 8 = 0.
Proof.
  intros m H. unfold size_up8. rewrite wadd_eq by exact H.
  split; [lia|]. split; [lia|]. apply N.mod_mul. lia.
Qed.

Lemma size_down8_spec : forall n, size_down8 n <= n /\ n < size_down8 n + 8 /\ size_down8 n mod 8 = 0.
Proof. intros n. unfold size_down8. split; [lia|]. split; [lia|]. apply N.mod_mul. lia. Qed.

Lemma resize_grow : forall siz sl k, 0 < siz -> (length sl <= N.to_nat k)%nat ->
    resize_slots siz sl (siz * k) = sl ++ repeat (junk_elem siz) (N.to_nat k - length sl).
Proof.
  intros siz sl k Hs Hk. unfold resize_slots.
  replace (siz * k / siz) with k by (rewrite N.mul_comm, N.div_mul; lia).
  rewrite firstn_all2 by lia. reflexivity.
Qed.

Lemma vec_setm_spec : forall h v mem, vec_inv v ->
    exists h' v' rc ev, vec_setm h v mem = Ok (h', v', rc, ev)
      /\ ((rc = A_SUCCESS /\ vec_inv v' /\ mem <= a_mem (v_arr v')
           /\ a_mem (v_arr v) <= a_mem (v_arr v')
           /\ a_siz (v_arr v') = a_siz (v_arr v) /\ a_num (v_arr v') = a_num (v_arr v)
           /\ abs (v_arr v') = abs (v_arr v))
          \/ (rc = A_OMEMORY /\ v' = v /\ a_mem (v_arr v) < mem)).
Proof.
  intros h v mem [I Hp]. set (a := v_arr v) in *.
  pose proof (inv_siz a I) as Hs. pose proof (inv_num a I) as Hn. pose proof (inv_len a I) as Hl.
  pose proof (inv_bytes a I) as Hb. pose proof HALF_lt_W as HW.
  pose proof (inv_elem a I) as He. pose proof (mem_lt_half a I) as Hm.
  unfold vec_setm. fold a.
  destruct (N.ltb_spec (a_mem a) mem) as [Hgrow|Hok].
  2:{ exists h, v, A_SUCCESS, []. split; [reflexivity|]. left. fold a. splits; auto; try lia. split; auto. }
  set (mx := size_down8 ((HALF - 1) / a_siz a)).
  destruct (size_down8_spec ((HALF - 1) / a_siz a)) as [D1 [D2 D3]]. fold mx in D1, D2, D3.
  assert (Hmx : a_siz a * mx < HALF).
  { assert (a_siz a * ((HALF - 1) / a_siz a) <= HALF - 1) by (apply N.mul_div_le; lia).
    pose proof (mul_le_l (a_siz a) mx _ D1). rewrite HALF_val in *. lia. }
  assert (Hmx2 : mx < HALF).
  { assert (1 * mx <= a_siz a * mx) by (apply N.mul_le_mono_r; lia). lia. }
  destruct (N.ltb_spec mx mem) as [Hbig|Hfit].
  { exists h, v, A_OMEMORY, []. split; [reflexivity|]. right. auto. }
  destruct (grow_loop_spec mem 128 (a_mem a)) as [m [Eg [G1 G2]]]; [exact Hgrow|lia| |].
  { pose proof pow_fuel. change (N.of_nat 128) with 128.
    assert (mem * 2 ^ 128 <= HALF * 2 ^ 128) by (apply N.mul_le_mono_r; lia).
    assert (1 * 3 ^ 128 <= (a_mem a + 1) * 3 ^ 128) by (apply N.mul_le_mono_r; lia). lia. }
  rewrite Eg. cbn [bind].
  (* the loop ends below 3/2 * mem + 1, far from wrapping *)
  assert (G3 : m + 7 < W).
  { clear - Eg Hgrow Hfit Hmx2 HW G1. rewrite HALF_val, W_val in *.
    (* m is the first value >= mem of a sequence whose previous value was < mem *)
    assert (forall fuel m0 m1, m0 < mem -> grow_loop fuel m0 mem = Ok m1 -> m1 <= mem + mem / 2 + 1) as Hup.
    { induction fuel as [|f IH]; intros m0 m1 H0 E; [discriminate|].
      cbn [grow_loop] in E. cbv zeta in E.
      assert (E' : wadd m0 (wadd (m0 / 2) 1) = m0 + m0 / 2 + 1).
      { rewrite (wadd_eq (m0 / 2) 1) by (rewrite W_val; lia). rewrite wadd_eq by (rewrite W_val; lia). lia. }
      rewrite E' in E. destruct (N.ltb_spec (m0 + m0 / 2 + 1) mem) as [Hlt|Hge].
      - apply (IH _ _ Hlt E).
      - injection E as <-. lia. }
    pose proof (Hup _ _ _ Hgrow Eg). lia. }
  destruct (size_up8_spec m G3) as [U1 [U2 U3]].
  set (mem1 := size_up8 m) in *.
  set (mem2 := if mx <? mem1 then mx else mem1).
  assert (M2 : mem <= mem2 /\ mem2 <= mx).
  { unfold mem2. destruct (N.ltb_spec mx mem1); lia. }
  assert (Eb : wmul (a_siz a) mem2 = a_siz a * mem2).
  { apply wmul_eq. pose proof (mul_le_l (a_siz a) mem2 mx). lia. }
  rewrite Eb.
  destruct (a_alloc h (v_ptr v) (a_siz a * mem2)) as [[p h'] ev].
  destruct p as [id|].
  - eexists. eexists. eexists. eexists. split; [reflexivity|]. left.
    assert (Hlen : length (a_sl a) = N.to_nat (a_mem a)) by (unfold nlen in *; lia).
    rewrite resize_grow by lia.
    splits; cbn [v_arr v_ptr a_siz a_mem a_num a_sl]; auto; try lia.
    + split; cbn [v_arr v_ptr]; [|discriminate].
      constructor; cbn [a_siz a_mem a_num a_sl]; auto.
      * lia.
      * unfold nlen in *. rewrite app_length, repeat_length. lia.
      * pose proof (mul_le_l (a_siz a) mem2 mx). lia.
      * rewrite Forall_app. split; [assumption|apply Forall_repeat, junk_ok].
    + unfold abs. cbn [a_num a_sl]. apply nth_error_ext; intro k. ne_norm. ne_split; ne_leaf.
  - eexists. eexists. eexists. eexists. split; [reflexivity|]. right. auto.
Qed.

(** ** small facts about the specification functions *)
Lemma arr_insert_put' : forall a idx v, arr_inv a -> a_num a < a_mem a ->
    exists a2 a3 off,
      arr_insert a idx = Ok (a2, off) /\ put a2 off v = Ok a3
      /\ arr_inv a3 /\ a_siz a3 = a_siz a /\ a_mem a3 = a_mem a /\ a_num a3 = a_num a + 1
      /\ abs a3 = sp_insert (abs a) idx (fit (a_siz a) v)
      /\ slot_ptr (a_siz a) (a_mem a) (N.min idx (a_num a)) off
      /\ content_at a3 off (a_num a3) = Some (fit (a_siz a) v).
Proof.
  intros a idx v I H. destruct (arr_insert_put a idx v I H) as [a3 [off [E R]]].
  destruct (arr_insert a idx) as [[a2 off2]|e] eqn:EI; cbn [bind fst snd] in E; [|discriminate].
  destruct (put a2 off2 v) as [a3'|e] eqn:EP; cbn [bind] in E; [|discriminate].
  injection E as <- <-. exists a2, a3', off2. auto.
Qed.

Lemma arr_inc_put : forall a v, arr_inv a -> a_num a < a_mem a ->
    exists a2 a3 off,
      arr_inc a = (a2, off) /\ put a2 off v = Ok a3
      /\ arr_inv a3 /\ a_siz a3 = a_siz a /\ a_mem a3 = a_mem a /\ a_num a3 = a_num a + 1
      /\ abs a3 = abs a ++ [fit (a_siz a) v]
      /\ slot_ptr (a_siz a) (a_mem a) (a_num a) off
      /\ content_at a3 off (a_num a3) = Some (fit (a_siz a) v).
Proof.
  intros a v I H. destruct (arr_insert_put' a (a_num a) v I H) as [a2 [a3 [off [E1 [E2 [R1 [R2 [R3 [R4 [R5 [R6 R7]]]]]]]]]]].
  unfold arr_insert in E1. rewrite N.ltb_irrefl in E1.
  assert (E1' : arr_inc a = (a2, off)) by congruence.
  exists a2, a3, off. split; [exact E1'|]. split; [exact E2|]. split; [exact R1|].
  split; [exact R2|]. split; [exact R3|]. split; [exact R4|]. split; [|split; [|exact R7]].
  - rewrite R5. unfold sp_insert, clampn. rewrite (abs_length a I), N.min_id.
    rewrite <- (abs_length a I), nlen_nat.
    change (@length elem) with (@length (list byte)). rewrite firstn_all, skipn_all. reflexivity.
  - rewrite N.min_id in R6. exact R6.
Qed.

Lemma vec_inv_with : forall v a', vec_inv v -> arr_inv a' -> (a_mem (v_arr v) = 0 -> a_mem a' = 0) ->
    vec_inv (with_arr v a').
Proof. intros v a' [I P] I' H. split; cbn [with_arr v_arr v_ptr]; auto. Qed.

Lemma abs_nil_iff : forall a, arr_inv a -> (abs a = [] <-> a_num a = 0).
Proof.
  intros a I. pose proof (abs_length_nat a I) as L. split; intro H.
  - rewrite H in L. cbn in L. lia.
  - destruct (abs a); [reflexivity|cbn in L; lia].
Qed.

Lemma sp_remove_0 : forall l, l <> [] -> sp_remove l 0 = tl l /\ sp_removed l 0 = hd [] l.
Proof.
  intros l H. unfold sp_remove, sp_removed, rm_pos. rewrite N.min_0_l. cbn [N.to_nat].
  destruct l; [congruence|]. split; reflexivity.
Qed.

Lemma sp_remove_last : forall l, l <> [] -> removelast l = sp_remove l (nlen l - 1).
Proof.
  intros l H. unfold sp_remove, rm_pos. rewrite N.min_id.
  destruct (@exists_last _ l H) as [t [x E]]. subst l. rewrite removelast_last.
  unfold nlen. rewrite app_length. cbn [length].
  replace (N.to_nat (N.of_nat (length t + 1) - 1)) with (length t) by lia.
  rewrite firstn_app, Nat.sub_diag, firstn_all, firstn_O, app_nil_r.
  rewrite skipn_all2 by (rewrite app_length; cbn; lia). rewrite app_nil_r. reflexivity.
Qed.

Ltac fin := unfold same, null_ptr; splits; auto; try lia; try reflexivity.

(** ** one operation of the vector *)
Section Steps.
  Variable cmp : elem -> elem -> comparison.
  Notation le := (VecSpec.le cmp).
  Notation sorted := (VecSpec.sorted cmp).
  Hypothesis le_trans : forall a b c, le a b -> le b c -> le a c.
  Hypothesis le_total : forall a b, le a b \/ le b a.

  Definition step_post (k : kind) (a : arr) (o : op) (a' : arr) (r : out) : Prop :=
    o_err r = None /\
    op_spec cmp k (a_siz a) (a_mem a) (abs a) o (o_ret r) (o_dtor r) (a_siz a') (a_mem a') (abs a').

  Lemma ptr_none_spec : forall siz mem l, ptr_spec siz mem l (RPtr None None) None.
  Proof. intros. reflexivity. Qed.

  Ltac setm_cases h v need Iv :=
    let h1 := fresh "h1" in let v1 := fresh "v1" in let rc := fresh "rc" in let ev := fresh "ev" in
    let E := fresh "E" in
    destruct (vec_setm_spec h v need Iv)
      as [h1 [v1 [rc [ev [E [[-> [Iv1 [Hm1 [Hm2 [Hz [Hnum Habs]]]]]] | [-> [-> Hlt]]]]]]]];
    rewrite E; cbn [bind].

  Theorem vec_step_refines : forall h v o,
      vec_inv v -> op_pre KVec (a_siz (v_arr v)) o ->
      exists h' v' r, vec_step cmp h v o = Ok (h', v', r) /\ vec_inv v'
                      /\ step_post KVec (v_arr v) o (v_arr v') r.
  Proof.
    intros h v o Iv Hpre. pose proof Iv as [I Hptr]. set (a := v_arr v) in *.
    pose proof (inv_siz a I) as Hs. pose proof (inv_num a I) as Hn.
    pose proof (mem_lt_half a I) as Hmh. pose proof HALF_lt_W as HW.
    pose proof (abs_length a I) as AL. pose proof W_2HALF as HW2.
    unfold step_post.
    destruct o as [mem|n dt fill|z dt| | | |key0|key|idx x|x|x|idx| | |idx vs|idx cnt dt|idx|idx| |];
      cbn [vec_step]; fold a.
    - (* setm *)
      setm_cases h v mem Iv; try (fold a in Hm1, Hm2, Hz, Hnum, Habs); try (fold a in Hlt).
      + eexists. eexists. eexists. split; [reflexivity|]. split; [exact Iv1|]. split; [reflexivity|].
        cbn [op_spec grows o_ret o_dtor]. left. rewrite Hz, Habs. fin.
      + eexists. eexists. eexists. split; [reflexivity|]. split; [exact Iv|]. split; [reflexivity|].
        cbn [op_spec grows o_ret o_dtor]. right. fin.
    - (* setn *)
      setm_cases h v n Iv; try (fold a in Hm1, Hm2, Hz, Hnum, Habs); try (fold a in Hlt).
      + change (A_SUCCESS =? 0) with true. cbv iota.
        destruct Iv1 as [I1 P1]. set (a1 := v_arr v1) in *.
        rewrite (arr_dtor_down_spec a1 n dt I1). cbn [bind].
        destruct (arr_setn_fill a1 n fill I1 Hm1) as [a3 [E3 [I3 [Z3 [M3 A3]]]]].
        rewrite E3. cbn [bind].
        eexists. eexists. eexists. split; [reflexivity|].
        split; [apply vec_inv_with; [split; assumption|exact I3|cbn [v_arr]; fold a1; lia]|].
        split; [reflexivity|].
        cbn [op_spec grows o_ret o_dtor with_arr v_arr]. left. rewrite Z3, M3, A3, Habs, Hz. fin.
      + change (A_OMEMORY =? 0) with false. cbv iota.
        eexists. eexists. eexists. split; [reflexivity|]. split; [exact Iv|]. split; [reflexivity|].
        cbn [op_spec grows o_ret o_dtor]. right. unfold same. fin.
    - (* setz *)
      rewrite (arr_dtor_down_spec a 0 dt I). cbn [bind].
      destruct (arr_setz_spec a z I) as [I3 [Z3 [N3 [M3 A3]]]]. cbv zeta in *.
      set (a3 := arr_setz _ z) in *.
      eexists. eexists. eexists. split; [reflexivity|].
      split; [apply vec_inv_with; [exact Iv|exact I3|fold a; intro H0; rewrite M3, H0; reflexivity]|].
      split; [reflexivity|].
      cbn [op_spec grows o_ret o_dtor with_arr v_arr]. rewrite A3, M3, Z3. cbn [N.to_nat skipn]. fin.
    - (* sort *)
      destruct (arr_sort_spec cmp a I) as [a3 [E3 [I3 [Z3 [M3 A3]]]]]. rewrite E3. cbn [bind].
      eexists. eexists. eexists. split; [reflexivity|].
      split; [apply vec_inv_with; [exact Iv|exact I3|fold a; lia]|]. split; [reflexivity|].
      cbn [op_spec grows o_ret o_dtor with_arr v_arr]. fin.
    - (* sort_fore *)
      destruct (arr_sort_fore_spec cmp le_trans le_total a I) as [a3 [E3 [I3 [Z3 [M3 [N3 [P3 A3]]]]]]].
      rewrite E3. cbn [bind].
      eexists. eexists. eexists. split; [reflexivity|].
      split; [apply vec_inv_with; [exact Iv|exact I3|fold a; lia]|]. split; [reflexivity|].
      cbn [op_spec grows o_ret o_dtor with_arr v_arr]. rewrite AL. fin.
    - (* sort_back *)
      destruct (arr_sort_back_spec cmp le_trans le_total a I) as [a3 [E3 [I3 [Z3 [M3 [N3 [P3 A3]]]]]]].
      rewrite E3. cbn [bind].
      eexists. eexists. eexists. split; [reflexivity|].
      split; [apply vec_inv_with; [exact Iv|exact I3|fold a; lia]|]. split; [reflexivity|].
      cbn [op_spec grows o_ret o_dtor with_arr v_arr]. rewrite AL. fin.
    - (* push_sort *)
      cbv zeta. setm_cases h v (wadd (a_num a) 1) Iv; try (fold a in Hm1, Hm2, Hz, Hnum, Habs); try (fold a in Hlt).
      + change (A_SUCCESS =? 0) with true. cbv iota.
        destruct Iv1 as [I1 P1]. set (a1 := v_arr v1) in *.
        rewrite wadd_eq in Hm1 by lia.
        destruct (arr_push_sort_put cmp le_trans le_total a1 (fit (a_siz a) key0) I1 ltac:(lia))
          as [a2 [a3 [off [p [E1 [E2 [I3 [Z3 [M3 [N3 [SP [Hp [A3 [U3 C3]]]]]]]]]]]]]].
        rewrite E1. cbn [bind]. rewrite E2. cbn [bind].
        eexists. eexists. eexists. split; [reflexivity|].
        split; [apply vec_inv_with; [split; assumption|exact I3|cbn [v_arr]; fold a1; lia]|].
        split; [reflexivity|].
        cbn [op_spec grows o_ret o_dtor with_arr v_arr vec_ptr_ret]. right.
        rewrite C3, Hz, fit_idem. exists off, p.
        rewrite Hz in SP. rewrite Hz, fit_idem, Habs in A3. rewrite Habs in U3.
        splits; auto; try lia.
        * rewrite M3. exact SP.
        * intro Hsorted. rewrite A3. unfold sp_push_sort. rewrite <- (U3 Hsorted). reflexivity.
      + change (A_OMEMORY =? 0) with false. cbv iota.
        eexists. eexists. eexists. split; [reflexivity|]. split; [exact Iv|]. split; [reflexivity|].
        cbn [op_spec grows o_ret o_dtor]. left. rewrite wadd_eq in Hlt by lia. unfold same, null_ptr.
        rewrite AL. fin.
    - (* search *)
      rewrite (arr_search_spec cmp a _ I). cbn [bind].
      eexists. eexists. eexists. split; [reflexivity|]. split; [exact Iv|]. split; [reflexivity|].
      cbn [op_spec grows o_ret o_dtor]. unfold same. fin.
    - (* insert *)
      setm_cases h v (wadd (a_num a) 1) Iv; try (fold a in Hm1, Hm2, Hz, Hnum, Habs); try (fold a in Hlt).
      + change (A_SUCCESS =? 0) with true. cbv iota.
        destruct Iv1 as [I1 P1]. set (a1 := v_arr v1) in *.
        rewrite wadd_eq in Hm1 by lia.
        destruct (arr_insert_put' a1 idx x I1 ltac:(lia))
          as [a2 [a3 [off [E1 [E2 [I3 [Z3 [M3 [N3 [A3 [SP C3]]]]]]]]]]].
        rewrite E1. cbn [bind]. rewrite E2. cbn [bind].
        eexists. eexists. eexists. split; [reflexivity|].
        split; [apply vec_inv_with; [split; assumption|exact I3|cbn [v_arr]; fold a1; lia]|].
        split; [reflexivity|].
        cbn [op_spec grows o_ret o_dtor with_arr v_arr vec_ptr_ret]. right.
        rewrite C3, Hz. exists off. rewrite Hz, Hnum in SP. rewrite Hz, Habs in A3.
        rewrite AL, M3. splits; auto; try lia.
      + change (A_OMEMORY =? 0) with false. cbv iota.
        eexists. eexists. eexists. split; [reflexivity|]. split; [exact Iv|]. split; [reflexivity|].
        cbn [op_spec grows o_ret o_dtor]. left. rewrite wadd_eq in Hlt by lia. unfold same, null_ptr.
        rewrite AL. fin.
    - (* push_fore *)
      setm_cases h v (wadd (a_num a) 1) Iv; try (fold a in Hm1, Hm2, Hz, Hnum, Habs); try (fold a in Hlt).
      + change (A_SUCCESS =? 0) with true. cbv iota.
        destruct Iv1 as [I1 P1]. set (a1 := v_arr v1) in *.
        rewrite wadd_eq in Hm1 by lia.
        destruct (arr_insert_put' a1 0 x I1 ltac:(lia))
          as [a2 [a3 [off [E1 [E2 [I3 [Z3 [M3 [N3 [A3 [SP C3]]]]]]]]]]].
        rewrite E1. cbn [bind]. rewrite E2. cbn [bind].
        eexists. eexists. eexists. split; [reflexivity|].
        split; [apply vec_inv_with; [split; assumption|exact I3|cbn [v_arr]; fold a1; lia]|].
        split; [reflexivity|].
        cbn [op_spec grows o_ret o_dtor with_arr v_arr vec_ptr_ret]. right.
        rewrite C3, Hz. exists off. rewrite Hz, N.min_0_l in SP. rewrite Hz, Habs in A3.
        rewrite M3. splits; auto; try lia.
        rewrite A3. unfold sp_insert, clampn. rewrite N.min_0_l. reflexivity.
      + change (A_OMEMORY =? 0) with false. cbv iota.
        eexists. eexists. eexists. split; [reflexivity|]. split; [exact Iv|]. split; [reflexivity|].
        cbn [op_spec grows o_ret o_dtor]. left. rewrite wadd_eq in Hlt by lia. unfold same, null_ptr.
        rewrite AL. fin.
    - (* push_back *)
      setm_cases h v (wadd (a_num a) 1) Iv; try (fold a in Hm1, Hm2, Hz, Hnum, Habs); try (fold a in Hlt).
      + change (A_SUCCESS =? 0) with true. cbv iota.
        destruct Iv1 as [I1 P1]. set (a1 := v_arr v1) in *.
        rewrite wadd_eq in Hm1 by lia.
        destruct (arr_inc_put a1 x I1 ltac:(lia))
          as [a2 [a3 [off [E1 [E2 [I3 [Z3 [M3 [N3 [A3 [SP C3]]]]]]]]]]].
        rewrite E1. rewrite E2. cbn [bind].
        eexists. eexists. eexists. split; [reflexivity|].
        split; [apply vec_inv_with; [split; assumption|exact I3|cbn [v_arr]; fold a1; lia]|].
        split; [reflexivity|].
        cbn [op_spec grows o_ret o_dtor with_arr v_arr vec_ptr_ret]. right.
        rewrite C3, Hz. exists off. rewrite Hz, Hnum in SP. rewrite Hz, Habs in A3.
        rewrite AL, M3. splits; auto; try lia.
      + change (A_OMEMORY =? 0) with false. cbv iota.
        eexists. eexists. eexists. split; [reflexivity|]. split; [exact Iv|]. split; [reflexivity|].
        cbn [op_spec grows o_ret o_dtor]. left. rewrite wadd_eq in Hlt by lia. unfold same, null_ptr.
        rewrite AL. fin.
    - (* remove *)
      destruct (arr_remove_spec a idx I) as [a3 [o3 [E3 [I3 [Z3 [M3 R3]]]]]]. rewrite E3. cbn [bind].
      eexists. eexists. eexists. split; [reflexivity|].
      split; [apply vec_inv_with; [exact Iv|exact I3|fold a; lia]|]. split; [reflexivity|].
      cbn [op_spec grows o_ret o_dtor with_arr v_arr]. splits; auto.
      destruct R3 as [[N0 [-> ->]]|[Np [N3 [A3 [off [p [-> [SP [Hp C3]]]]]]]]].
      + left. cbn [vec_ptr_ret]. unfold null_ptr. rewrite (abs_nil_iff a I). auto.
      + right. split; [rewrite (abs_nil_iff a I); lia|]. split; [exact A3|].
        exists off, p. cbn [vec_ptr_ret]. rewrite C3, M3, (abs_length a3 I3). auto.
    - (* pull_fore *)
      destruct (arr_remove_spec a 0 I) as [a3 [o3 [E3 [I3 [Z3 [M3 R3]]]]]]. rewrite E3. cbn [bind].
      eexists. eexists. eexists. split; [reflexivity|].
      split; [apply vec_inv_with; [exact Iv|exact I3|fold a; lia]|]. split; [reflexivity|].
      cbn [op_spec grows o_ret o_dtor with_arr v_arr]. splits; auto.
      destruct R3 as [[N0 [-> ->]]|[Np [N3 [A3 [off [p [-> [SP [Hp C3]]]]]]]]].
      + left. cbn [vec_ptr_ret]. unfold null_ptr. rewrite (abs_nil_iff a I). auto.
      + right. assert (Hne : abs a <> []) by (rewrite (abs_nil_iff a I); lia).
        destruct (sp_remove_0 (abs a) Hne) as [S1 S2].
        split; [exact Hne|]. split; [rewrite A3; exact S1|].
        exists off, p. cbn [vec_ptr_ret]. rewrite C3, M3, (abs_length a3 I3), S2. auto.
    - (* pull_back *)
      destruct (arr_pull_back_spec a I) as [a3 [o3 [E3 [I3 [Z3 [M3 R3]]]]]]. rewrite E3.
      eexists. eexists. eexists. split; [reflexivity|].
      split; [apply vec_inv_with; [exact Iv|exact I3|fold a; lia]|]. split; [reflexivity|].
      cbn [op_spec grows o_ret o_dtor with_arr v_arr]. splits; auto.
      destruct R3 as [[N0 [-> ->]]|[Np [N3 [A3 [off [p [-> [SP [Hp C3]]]]]]]]].
      + left. cbn [vec_ptr_ret]. unfold null_ptr. rewrite (abs_nil_iff a I). auto.
      + right. split; [rewrite (abs_nil_iff a I); lia|]. split; [exact A3|].
        exists off, p. cbn [vec_ptr_ret]. rewrite C3, M3, (abs_length a3 I3). auto.
    - (* store *)
      cbn [op_pre] in Hpre.
      setm_cases h v (wadd (a_num a) (nlen vs)) Iv; try (fold a in Hm1, Hm2, Hz, Hnum, Habs); try (fold a in Hlt).
      + change (A_SUCCESS =? 0) with true. cbv iota.
        destruct Iv1 as [I1 P1]. set (a1 := v_arr v1) in *.
        rewrite wadd_eq in Hm1 by lia.
        destruct (arr_store_spec a1 idx vs I1 ltac:(lia)) as [a3 [E3 [I3 [Z3 [M3 A3]]]]].
        rewrite E3. cbn [bind].
        eexists. eexists. eexists. split; [reflexivity|].
        split; [apply vec_inv_with; [split; assumption|exact I3|cbn [v_arr]; fold a1; lia]|].
        split; [reflexivity|].
        cbn [op_spec grows o_ret o_dtor with_arr v_arr]. right.
        rewrite Hz, Habs in A3. rewrite M3. splits; auto; try lia.
      + change (A_OMEMORY =? 0) with false. cbv iota.
        eexists. eexists. eexists. split; [reflexivity|]. split; [exact Iv|]. split; [reflexivity|].
        cbn [op_spec grows o_ret o_dtor]. left. rewrite wadd_eq in Hlt by lia. unfold same.
        rewrite AL. fin.
    - (* erase *)
      destruct (arr_erase_spec a idx cnt dt I) as [a3 [rc [d [E3 [I3 [Z3 [M3 R3]]]]]]]. rewrite E3. cbn [bind].
      eexists. eexists. eexists. split; [reflexivity|].
      split; [apply vec_inv_with; [exact Iv|exact I3|fold a; lia]|]. split; [reflexivity|].
      cbn [op_spec grows o_ret o_dtor with_arr v_arr]. rewrite AL. splits; auto.
      destruct R3 as [[Hi [-> [A3 ->]]]|[Hi [-> [-> ->]]]]; [left|right]; auto.
    - (* at *)
      eexists. eexists. eexists. split; [reflexivity|]. split; [exact Iv|]. split; [reflexivity|].
      cbn [op_spec grows o_ret o_dtor]. unfold same, arr_at. splits; auto.
      destruct (N.ltb_spec idx (a_mem a)); [apply ptr_ret_spec; assumption|apply ptr_none_spec].
    - (* of *)
      eexists. eexists. eexists. split; [reflexivity|]. split; [exact Iv|]. split; [reflexivity|].
      cbn [op_spec grows o_ret o_dtor]. unfold same, arr_of. rewrite AL. cbv zeta. splits; auto.
      destruct (N.ltb_spec (if idx <? HALF then idx else wadd idx (a_num a)) (a_mem a));
        [apply ptr_ret_spec; assumption|apply ptr_none_spec].
    - (* top *)
      eexists. eexists. eexists. split; [reflexivity|]. split; [exact Iv|]. split; [reflexivity|].
      cbn [op_spec grows o_ret o_dtor]. unfold same, arr_top. rewrite AL. splits; auto.
      destruct (N.eqb_spec (a_num a) 0); [apply ptr_none_spec|].
      rewrite wsub_eq by lia. apply ptr_ret_spec; [assumption|lia].
    - (* end *)
      eexists. eexists. eexists. split; [reflexivity|]. split; [exact Iv|]. split; [reflexivity|].
      cbn [op_spec grows o_ret o_dtor]. unfold same, arr_end, null_ptr. rewrite AL. splits; auto.
      destruct (v_ptr v); [right|left; reflexivity].
      rewrite wmul_eq; [reflexivity|]. pose proof (off_lt a (a_num a) I Hn). lia.
  Qed.
End Steps.

(** ** the buffer *)
Lemma resize_any : forall siz sl k, 0 < siz ->
    resize_slots siz sl (siz * k) = firstn (N.to_nat k) sl ++ repeat (junk_elem siz) (N.to_nat k - length sl).
Proof.
  intros siz sl k Hs. unfold resize_slots.
  replace (siz * k / siz) with k by (rewrite N.mul_comm, N.div_mul; lia). reflexivity.
Qed.

Lemma buf_hdr_val : BUF_HDR = 24. Proof. reflexivity. Qed.

Lemma buf_new_spec : forall h siz num,
    BUF_HDR + (if siz =? 0 then 1 else siz) * num < HALF ->
    exists h' ob ev, buf_new h siz num = (h', ob, ev)
      /\ match ob with
         | None => True
         | Some b => buf_inv b /\ a_siz (b_arr b) = (if siz =? 0 then 1 else siz)
                     /\ a_mem (b_arr b) = num /\ abs (b_arr b) = []
         end.
Proof.
  intros h siz num Hpre. pose proof HALF_lt_W as HW. rewrite buf_hdr_val in *.
  unfold buf_new. set (z := if siz =? 0 then 1 else siz) in *. rewrite !buf_hdr_val.
  assert (Hz : 0 < z) by (unfold z; destruct (N.eqb_spec siz 0); lia).
  rewrite wmul_eq by lia. rewrite wadd_eq by lia.
  destruct (a_alloc h None (24 + z * num)) as [[p h'] ev].
  destruct p as [id|]; eexists; eexists; eexists; (split; [reflexivity|]); [|exact I].
  replace (24 + z * num - 24) with (z * num) by lia.
  rewrite resize_any by exact Hz. cbn [firstn length app b_arr a_siz a_mem a_num a_sl].
  rewrite firstn_nil. cbn [app]. splits; auto.
  split; cbn [b_arr a_siz a_mem a_num a_sl].
  - constructor; cbn [a_siz a_mem a_num a_sl]; auto.
    + lia.
    + unfold nlen. rewrite repeat_length. lia.
    + lia.
    + apply Forall_repeat, junk_ok.
  - rewrite buf_hdr_val. lia.
Qed.

Lemma buf_setm_spec : forall h b mem, buf_inv b -> BUF_HDR + a_siz (b_arr b) * mem < HALF ->
    exists h' b' ok ev, buf_setm h b mem = (h', b', ok, ev)
      /\ ((ok = true /\ buf_inv b' /\ a_siz (b_arr b') = a_siz (b_arr b) /\ a_mem (b_arr b') = mem
           /\ abs (b_arr b') = firstn (N.to_nat mem) (abs (b_arr b)))
          \/ (ok = false /\ b' = b)).
Proof.
  intros h b mem [I Hb] Hpre. set (a := b_arr b) in *. pose proof HALF_lt_W as HW.
  pose proof (inv_siz a I) as Hs. pose proof (inv_num a I) as Hn. pose proof (inv_len a I) as Hl.
  pose proof (inv_elem a I) as He. rewrite buf_hdr_val in *.
  unfold buf_setm. fold a. rewrite !buf_hdr_val. rewrite wmul_eq by lia. rewrite wadd_eq by lia.
  destruct (a_alloc h (Some (b_blk b)) (24 + a_siz a * mem)) as [[p h'] ev].
  destruct p as [id|]; eexists; eexists; eexists; eexists; (split; [reflexivity|]); [left|right; auto].
  replace (24 + a_siz a * mem - 24) with (a_siz a * mem) by lia.
  rewrite resize_any by exact Hs.
  assert (Hlen : length (a_sl a) = N.to_nat (a_mem a)) by (unfold nlen in *; lia).
  splits; cbn [b_arr a_siz a_mem a_num a_sl]; auto.
  - split; cbn [b_arr a_siz a_mem a_num a_sl]; [|rewrite buf_hdr_val; lia].
    constructor; cbn [a_siz a_mem a_num a_sl]; auto.
    + destruct (N.ltb_spec mem (a_num a)); lia.
    + unfold nlen. rewrite app_length, firstn_length, repeat_length. lia.
    + lia.
    + rewrite Forall_app. split; [apply Forall_firstn; assumption|apply Forall_repeat, junk_ok].
  - unfold abs. cbn [a_num a_sl].
    destruct (N.ltb_spec mem (a_num a)); apply nth_error_ext; intro k; ne_norm; ne_split; ne_leaf.
Qed.

Section BufSteps.
  Variable cmp : elem -> elem -> comparison.
  Notation le := (VecSpec.le cmp).
  Hypothesis le_trans : forall a b c, le a b -> le b c -> le a c.
  Hypothesis le_total : forall a b, le a b \/ le b a.

  Lemma buf_inv_with : forall b a', buf_inv b -> arr_inv a' -> a_siz a' = a_siz (b_arr b) ->
      a_mem a' = a_mem (b_arr b) -> buf_inv (bwith b a').
  Proof. intros b a' [I P] I' Hz Hm. split; cbn [bwith b_arr]; auto. rewrite Hz, Hm. exact P. Qed.

  Theorem buf_step_refines : forall h b o,
      buf_inv b -> op_pre KBuf (a_siz (b_arr b)) o ->
      exists h' b' r, buf_step cmp h b o = Ok (h', b', r) /\ buf_inv b'
                      /\ step_post cmp KBuf (b_arr b) o (b_arr b') r.
  Proof.
    intros h b o Ib Hpre. pose proof Ib as [I Hbytes]. set (a := b_arr b) in *.
    pose proof (inv_siz a I) as Hs. pose proof (inv_num a I) as Hn.
    pose proof (mem_lt_half a I) as Hmh. pose proof HALF_lt_W as HW.
    pose proof (abs_length a I) as AL. pose proof W_2HALF as HW2.
    unfold step_post.
    destruct o as [mem|n dt fill|z dt| | | |key0|key|idx x|x|x|idx| | |idx vs|idx cnt dt|idx|idx| |];
      cbn [buf_step]; fold a.
    - (* setm *)
      cbn [op_pre] in Hpre.
      destruct (buf_setm_spec h b mem Ib Hpre)
        as [h1 [b1 [ok [ev [E [[-> [I1 [Z1 [M1 A1]]]]|[-> ->]]]]]]]; rewrite E.
      + eexists. eexists. eexists. split; [reflexivity|]. split; [exact I1|]. split; [reflexivity|].
        cbn [op_spec grows o_ret o_dtor]. left. fold a in Z1, A1. fin.
      + eexists. eexists. eexists. split; [reflexivity|]. split; [exact Ib|]. split; [reflexivity|].
        cbn [op_spec grows o_ret o_dtor]. right. fin.
    - (* setn *)
      rewrite (arr_dtor_down_spec a n dt I). cbn [bind].
      assert (En : (if a_mem a <? n then a_mem a else n) = N.min n (a_mem a))
        by (destruct (N.ltb_spec (a_mem a) n); lia).
      rewrite En.
      destruct (arr_setn_fill a (N.min n (a_mem a)) fill I ltac:(lia)) as [a3 [E3 [I3 [Z3 [M3 A3]]]]].
      rewrite E3. cbn [bind].
      eexists. eexists. eexists. split; [reflexivity|].
      split; [apply buf_inv_with; assumption|]. split; [reflexivity|].
      cbn [op_spec grows o_ret o_dtor bwith b_arr]. fin.
    - (* setz *)
      rewrite (arr_dtor_down_spec a 0 dt I). cbn [bind].
      destruct (arr_setz_spec a z I) as [I3 [Z3 [N3 [M3 A3]]]]. cbv zeta in *.
      set (a3 := arr_setz _ z) in *.
      eexists. eexists. eexists. split; [reflexivity|].
      split.
      { split; cbn [bwith b_arr]; [exact I3|]. rewrite M3.
        assert (0 < a_siz a3) by (apply (inv_siz a3 I3)).
        assert (a_siz a3 * (a_mem a * a_siz a / a_siz a3) <= a_mem a * a_siz a) by (apply N.mul_div_le; lia).
        rewrite buf_hdr_val in *. lia. }
      split; [reflexivity|].
      cbn [op_spec grows o_ret o_dtor bwith b_arr]. rewrite A3, M3, Z3. cbn [N.to_nat skipn]. fin.
    - (* sort *)
      destruct (arr_sort_spec cmp a I) as [a3 [E3 [I3 [Z3 [M3 A3]]]]]. rewrite E3. cbn [bind].
      eexists. eexists. eexists. split; [reflexivity|].
      split; [apply buf_inv_with; assumption|]. split; [reflexivity|].
      cbn [op_spec grows o_ret o_dtor bwith b_arr]. fin.
    - (* sort_fore *)
      destruct (arr_sort_fore_spec cmp le_trans le_total a I) as [a3 [E3 [I3 [Z3 [M3 [N3 [P3 A3]]]]]]].
      rewrite E3. cbn [bind].
      eexists. eexists. eexists. split; [reflexivity|].
      split; [apply buf_inv_with; assumption|]. split; [reflexivity|].
      cbn [op_spec grows o_ret o_dtor bwith b_arr]. rewrite AL. fin.
    - (* sort_back *)
      destruct (arr_sort_back_spec cmp le_trans le_total a I) as [a3 [E3 [I3 [Z3 [M3 [N3 [P3 A3]]]]]]].
      rewrite E3. cbn [bind].
      eexists. eexists. eexists. split; [reflexivity|].
      split; [apply buf_inv_with; assumption|]. split; [reflexivity|].
      cbn [op_spec grows o_ret o_dtor bwith b_arr]. rewrite AL. fin.
    - (* push_sort *)
      cbv zeta. destruct (N.ltb_spec (a_num a) (a_mem a)) as [Hroom|Hfull].
      + destruct (arr_push_sort_put cmp le_trans le_total a (fit (a_siz a) key0) I Hroom)
          as [a2 [a3 [off [p [E1 [E2 [I3 [Z3 [M3 [N3 [SP [Hp [A3 [U3 C3]]]]]]]]]]]]]].
        rewrite E1. cbn [bind]. rewrite E2. cbn [bind].
        eexists. eexists. eexists. split; [reflexivity|].
        split; [apply buf_inv_with; assumption|]. split; [reflexivity|].
        cbn [op_spec grows o_ret o_dtor bwith b_arr vec_ptr_ret]. right.
        rewrite C3, fit_idem. exists off, p. rewrite fit_idem in A3.
        splits; auto; try lia.
        * rewrite M3. exact SP.
        * intro Hsorted. rewrite A3. unfold sp_push_sort. rewrite <- (U3 Hsorted). reflexivity.
      + eexists. eexists. eexists. split; [reflexivity|]. split; [exact Ib|]. split; [reflexivity|].
        cbn [op_spec grows o_ret o_dtor]. left. rewrite AL. fin.
    - (* search *)
      rewrite (arr_search_spec cmp a _ I). cbn [bind].
      eexists. eexists. eexists. split; [reflexivity|]. split; [exact Ib|]. split; [reflexivity|].
      cbn [op_spec grows o_ret o_dtor]. fin.
    - (* insert *)
      destruct (N.ltb_spec (a_num a) (a_mem a)) as [Hroom|Hfull].
      + destruct (arr_insert_put' a idx x I Hroom)
          as [a2 [a3 [off [E1 [E2 [I3 [Z3 [M3 [N3 [A3 [SP C3]]]]]]]]]]].
        rewrite E1. cbn [bind]. rewrite E2. cbn [bind].
        eexists. eexists. eexists. split; [reflexivity|].
        split; [apply buf_inv_with; assumption|]. split; [reflexivity|].
        cbn [op_spec grows o_ret o_dtor bwith b_arr vec_ptr_ret]. right.
        rewrite C3. exists off. rewrite AL, M3. splits; auto; try lia.
      + eexists. eexists. eexists. split; [reflexivity|]. split; [exact Ib|]. split; [reflexivity|].
        cbn [op_spec grows o_ret o_dtor]. left. rewrite AL. fin.
    - (* push_fore *)
      destruct (N.ltb_spec (a_num a) (a_mem a)) as [Hroom|Hfull].
      + destruct (arr_insert_put' a 0 x I Hroom)
          as [a2 [a3 [off [E1 [E2 [I3 [Z3 [M3 [N3 [A3 [SP C3]]]]]]]]]]].
        rewrite E1. cbn [bind]. rewrite E2. cbn [bind].
        eexists. eexists. eexists. split; [reflexivity|].
        split; [apply buf_inv_with; assumption|]. split; [reflexivity|].
        cbn [op_spec grows o_ret o_dtor bwith b_arr vec_ptr_ret]. right.
        rewrite C3. exists off. rewrite N.min_0_l in SP. rewrite M3. splits; auto; try lia.
        rewrite A3. unfold sp_insert, clampn. rewrite N.min_0_l. reflexivity.
      + eexists. eexists. eexists. split; [reflexivity|]. split; [exact Ib|]. split; [reflexivity|].
        cbn [op_spec grows o_ret o_dtor]. left. rewrite AL. fin.
    - (* push_back *)
      destruct (N.ltb_spec (a_num a) (a_mem a)) as [Hroom|Hfull].
      + destruct (arr_inc_put a x I Hroom)
          as [a2 [a3 [off [E1 [E2 [I3 [Z3 [M3 [N3 [A3 [SP C3]]]]]]]]]]].
        rewrite E1. rewrite E2. cbn [bind].
        eexists. eexists. eexists. split; [reflexivity|].
        split; [apply buf_inv_with; assumption|]. split; [reflexivity|].
        cbn [op_spec grows o_ret o_dtor bwith b_arr vec_ptr_ret]. right.
        rewrite C3. exists off. rewrite AL, M3. splits; auto; try lia.
      + eexists. eexists. eexists. split; [reflexivity|]. split; [exact Ib|]. split; [reflexivity|].
        cbn [op_spec grows o_ret o_dtor]. left. rewrite AL. fin.
    - (* remove *)
      destruct (arr_remove_spec a idx I) as [a3 [o3 [E3 [I3 [Z3 [M3 R3]]]]]]. rewrite E3. cbn [bind].
      eexists. eexists. eexists. split; [reflexivity|].
      split; [apply buf_inv_with; assumption|]. split; [reflexivity|].
      cbn [op_spec grows o_ret o_dtor bwith b_arr]. splits; auto.
      destruct R3 as [[N0 [-> ->]]|[Np [N3 [A3 [off [p [-> [SP [Hp C3]]]]]]]]].
      + left. cbn [vec_ptr_ret]. unfold null_ptr. rewrite (abs_nil_iff a I). auto.
      + right. split; [rewrite (abs_nil_iff a I); lia|]. split; [exact A3|].
        exists off, p. cbn [vec_ptr_ret]. rewrite C3, M3, (abs_length a3 I3). auto.
    - (* pull_fore *)
      destruct (arr_remove_spec a 0 I) as [a3 [o3 [E3 [I3 [Z3 [M3 R3]]]]]]. rewrite E3. cbn [bind].
      eexists. eexists. eexists. split; [reflexivity|].
      split; [apply buf_inv_with; assumption|]. split; [reflexivity|].
      cbn [op_spec grows o_ret o_dtor bwith b_arr]. splits; auto.
      destruct R3 as [[N0 [-> ->]]|[Np [N3 [A3 [off [p [-> [SP [Hp C3]]]]]]]]].
      + left. cbn [vec_ptr_ret]. unfold null_ptr. rewrite (abs_nil_iff a I). auto.
      + right. assert (Hne : abs a <> []) by (rewrite (abs_nil_iff a I); lia).
        destruct (sp_remove_0 (abs a) Hne) as [S1 S2].
        split; [exact Hne|]. split; [rewrite A3; exact S1|].
        exists off, p. cbn [vec_ptr_ret]. rewrite C3, M3, (abs_length a3 I3), S2. auto.
    - (* pull_back *)
      destruct (arr_pull_back_spec a I) as [a3 [o3 [E3 [I3 [Z3 [M3 R3]]]]]]. rewrite E3.
      eexists. eexists. eexists. split; [reflexivity|].
      split; [apply buf_inv_with; assumption|]. split; [reflexivity|].
      cbn [op_spec grows o_ret o_dtor bwith b_arr]. splits; auto.
      destruct R3 as [[N0 [-> ->]]|[Np [N3 [A3 [off [p [-> [SP [Hp C3]]]]]]]]].
      + left. cbn [vec_ptr_ret]. unfold null_ptr. rewrite (abs_nil_iff a I). auto.
      + right. split; [rewrite (abs_nil_iff a I); lia|]. split; [exact A3|].
        exists off, p. cbn [vec_ptr_ret]. rewrite C3, M3, (abs_length a3 I3). auto.
    - (* store *)
      cbn [op_pre] in Hpre. rewrite wadd_eq by lia.
      destruct (N.leb_spec (a_num a + nlen vs) (a_mem a)) as [Hroom|Hfull].
      + destruct (arr_store_spec a idx vs I Hroom) as [a3 [E3 [I3 [Z3 [M3 A3]]]]].
        rewrite E3. cbn [bind].
        eexists. eexists. eexists. split; [reflexivity|].
        split; [apply buf_inv_with; assumption|]. split; [reflexivity|].
        cbn [op_spec grows o_ret o_dtor bwith b_arr]. right. rewrite M3. fin.
      + eexists. eexists. eexists. split; [reflexivity|]. split; [exact Ib|]. split; [reflexivity|].
        cbn [op_spec grows o_ret o_dtor]. left. rewrite AL. fin.
    - (* erase *)
      destruct (arr_erase_spec a idx cnt dt I) as [a3 [rc [d [E3 [I3 [Z3 [M3 R3]]]]]]]. rewrite E3. cbn [bind].
      eexists. eexists. eexists. split; [reflexivity|].
      split; [apply buf_inv_with; assumption|]. split; [reflexivity|].
      cbn [op_spec grows o_ret o_dtor bwith b_arr]. rewrite AL. splits; auto.
      destruct R3 as [[Hi [-> [A3 ->]]]|[Hi [-> [-> ->]]]]; [left|right]; auto.
    - (* at *)
      eexists. eexists. eexists. split; [reflexivity|]. split; [exact Ib|]. split; [reflexivity|].
      cbn [op_spec grows o_ret o_dtor]. unfold same, arr_at. splits; auto.
      destruct (N.ltb_spec idx (a_mem a)); [apply ptr_ret_spec; assumption|apply ptr_none_spec].
    - (* of *)
      eexists. eexists. eexists. split; [reflexivity|]. split; [exact Ib|]. split; [reflexivity|].
      cbn [op_spec grows o_ret o_dtor]. unfold same, arr_of. rewrite AL. cbv zeta. splits; auto.
      destruct (N.ltb_spec (if idx <? HALF then idx else wadd idx (a_num a)) (a_mem a));
        [apply ptr_ret_spec; assumption|apply ptr_none_spec].
    - (* top *)
      eexists. eexists. eexists. split; [reflexivity|]. split; [exact Ib|]. split; [reflexivity|].
      cbn [op_spec grows o_ret o_dtor]. unfold same, arr_top. rewrite AL. splits; auto.
      destruct (N.eqb_spec (a_num a) 0); [apply ptr_none_spec|].
      rewrite wsub_eq by lia. apply ptr_ret_spec; [assumption|lia].
    - (* end *)
      eexists. eexists. eexists. split; [reflexivity|]. split; [exact Ib|]. split; [reflexivity|].
      cbn [op_spec grows o_ret o_dtor]. unfold same, arr_end, null_ptr. rewrite AL. splits; auto.
      right. rewrite wmul_eq; [reflexivity|]. pose proof (off_lt a (a_num a) I Hn). lia.
  Qed.
End BufSteps.

(** ** worlds and histories *)
Section Histories.
  Variable cmp : elem -> elem -> comparison.
  Notation le := (VecSpec.le cmp).
  Hypothesis le_trans : forall a b c, le a b -> le b c -> le a c.
  Hypothesis le_total : forall a b, le a b \/ le b a.

  Lemma get_set_same : forall w which h x, get_v (set_v w which h x) which = x.
  Proof. intros w [|] h x; reflexivity. Qed.
  Lemma get_set_other : forall w which h x, get_v (set_v w which h x) (negb which) = get_v w (negb which).
  Proof. intros w [|] h x; reflexivity. Qed.
  Lemma b_set : forall w which h x, w_b (set_v w which h x) = w_b w.
  Proof. intros w [|] h x; reflexivity. Qed.

  Lemma world_inv_set : forall w which h x, world_inv w -> ovec_inv x -> world_inv (set_v w which h x).
  Proof. intros w [|] h x [I0 [I1 Ib]] Ix; unfold world_inv; cbn; auto. Qed.

  Lemma world_inv_get : forall w which, world_inv w -> ovec_inv (get_v w which).
  Proof. intros w [|] [I0 [I1 Ib]]; cbn; auto. Qed.

  Lemma fresh_vec_inv : forall z, 0 < z -> vec_inv (mkVec None (mkArr z 0 0 [])).
  Proof.
    intros z Hz. split; cbn; auto. constructor; cbn; auto; try lia.
    rewrite N.mul_0_r, HALF_val. lia.
  Qed.

  Theorem wstep_ok : forall w o, world_inv w -> wop_pre w o ->
      world_inv (fst (wstep cmp w o)) /\ wstep_post cmp w o (fst (wstep cmp w o)) (snd (wstep cmp w o)).
  Proof.
    intros w o Iw Hpre. pose proof Iw as [I0 [I1 Ib]].
    destruct o as [which siz|which dt| |which o|siz num|dt|o]; cbn [wstep].
    - (* a_vec_new *)
      destruct (get_v w which) as [[id v]|] eqn:G.
      + cbn [fst snd]. split; [exact Iw|]. unfold wstep_post. cbn [absent o_err]. rewrite G. auto.
      + unfold vec_new. destruct (a_alloc (w_heap w) None 32) as [[p h1] ev]. destruct p as [id|]; cbn [fst snd].
        * assert (Hz : 0 < (if siz =? 0 then 1 else siz)) by (destruct (N.eqb_spec siz 0); lia).
          split; [apply world_inv_set; [exact Iw|apply (fresh_vec_inv _ Hz)]|].
          unfold wstep_post. cbn [o_err]. rewrite G, get_set_same, get_set_other, b_set.
          splits; auto.
        * split; [apply world_inv_set; [exact Iw|exact I]|].
          unfold wstep_post. cbn [o_err]. rewrite G, get_set_same, get_set_other, b_set.
          splits; auto.
    - (* a_vec_die *)
      destruct (get_v w which) as [[id v]|] eqn:G.
      + pose proof (world_inv_get w which Iw) as Iv. rewrite G in Iv. cbn in Iv. destruct Iv as [Ia Hp].
        unfold vec_die. rewrite (arr_dtor_down_spec (v_arr v) 0 dt Ia). cbn [bind].
        destruct (match v_ptr v with Some p => a_alloc (w_heap w) (Some p) 0 | None => (None, w_heap w, []) end)
          as [[p1 h1] ev1].
        destruct (a_alloc h1 (Some id) 0) as [[p2 h2] ev2]. cbn [fst snd].
        split; [apply world_inv_set; [exact Iw|exact I]|].
        unfold wstep_post. cbn [o_err o_dtor]. rewrite G, get_set_same, get_set_other, b_set.
        cbn [vview N.to_nat skipn]. splits; auto.
      + cbn [fst snd]. split; [exact Iw|]. unfold wstep_post. cbn [absent o_err o_dtor]. rewrite G.
        cbn [vview]. splits; auto.
    - (* a_vec_swap *)
      destruct (w_v0 w) as [[i0 x0]|] eqn:G0; [destruct (w_v1 w) as [[i1 x1]|] eqn:G1|]; cbn [fst snd].
      + split; [unfold world_inv; cbn; auto|].
        unfold wstep_post. rewrite G0, G1. cbn [o_err w_b w_v0 w_v1 vview]. splits; auto. left.
        splits; auto; discriminate.
      + split; [exact Iw|]. unfold wstep_post. cbn [absent o_err]. splits; auto.
      + split; [exact Iw|]. unfold wstep_post. cbn [absent o_err]. splits; auto.
    - (* a vector operation *)
      destruct (get_v w which) as [[id v]|] eqn:G.
      + pose proof (world_inv_get w which Iw) as Iv. rewrite G in Iv. cbn in Iv.
        cbn [wop_pre] in Hpre. rewrite G in Hpre.
        destruct (vec_step_refines cmp le_trans le_total (w_heap w) v o Iv Hpre)
          as [h1 [v1 [r [E [Iv1 [Er Sp]]]]]].
        rewrite E. cbn [fst snd].
        split; [apply world_inv_set; [exact Iw|exact Iv1]|].
        unfold wstep_post. rewrite G, get_set_same, get_set_other, b_set. cbn [vview view_step].
        splits; auto.
      + cbn [fst snd]. split; [exact Iw|]. unfold wstep_post. rewrite G. cbn [absent o_err vview view_step o_ret o_dtor].
        splits; auto.
    - (* a_buf_new *)
      destruct (w_b w) as [b|] eqn:G.
      + cbn [fst snd]. split; [exact Iw|]. unfold wstep_post. cbn [absent o_err]. rewrite G. auto.
      + cbn [wop_pre] in Hpre.
        destruct (buf_new_spec (w_heap w) siz num Hpre) as [h1 [ob [ev [E R]]]]. rewrite E. cbn [fst snd].
        split.
        * unfold world_inv. cbn [w_v0 w_v1 w_b]. splits; auto. destruct ob as [b|]; [apply R|exact I].
        * unfold wstep_post. cbn [o_err w_v0 w_v1 w_b]. rewrite G. splits; auto.
          destruct ob as [b|]; [right|left; reflexivity].
          destruct R as [_ [Z [M A]]]. cbn [bview]. rewrite Z, M, A. reflexivity.
    - (* a_buf_die *)
      destruct (w_b w) as [b|] eqn:G.
      + cbn in Ib. destruct Ib as [Ia Hb].
        unfold buf_die. rewrite (arr_dtor_down_spec (b_arr b) 0 dt Ia). cbn [bind].
        destruct (a_alloc (w_heap w) (Some (b_blk b)) 0) as [[p1 h1] ev1]. cbn [fst snd].
        split; [unfold world_inv; cbn [w_v0 w_v1 w_b]; splits; auto; exact I|].
        unfold wstep_post. cbn [o_err o_dtor w_v0 w_v1 w_b]. rewrite G.
        cbn [bview N.to_nat skipn]. splits; auto.
      + cbn [fst snd]. split; [exact Iw|]. unfold wstep_post. cbn [absent o_err o_dtor]. rewrite G.
        cbn [bview]. splits; auto.
    - (* a buffer operation *)
      destruct (w_b w) as [b|] eqn:G.
      + cbn in Ib. cbn [wop_pre] in Hpre. rewrite G in Hpre.
        destruct (buf_step_refines cmp le_trans le_total (w_heap w) b o Ib Hpre)
          as [h1 [b1 [r [E [Ib1 [Er Sp]]]]]].
        rewrite E. cbn [fst snd].
        split; [unfold world_inv; cbn [w_v0 w_v1 w_b]; splits; auto|].
        unfold wstep_post. cbn [w_v0 w_v1 w_b]. rewrite G. cbn [bview view_step]. splits; auto.
      + cbn [fst snd]. split; [exact Iw|]. unfold wstep_post. rewrite G.
        cbn [absent o_err bview view_step o_ret o_dtor]. splits; auto.
  Qed.

  Lemma init_world_inv : forall sched limit, world_inv (init_world sched limit).
  Proof. intros. unfold world_inv, init_world. cbn. auto. Qed.

  (** for every finite history, from every state satisfying the invariant *)
  Theorem history_ok : forall ops w, world_inv w -> hist_pre cmp w ops -> hist_post cmp w ops.
  Proof.
    induction ops as [|o ops IH]; intros w Iw Hpre; [exact I|].
    cbn [hist_pre] in Hpre. destruct Hpre as [Hp Hrest].
    destruct (wstep_ok w o Iw Hp) as [Iw' Post].
    cbn [hist_post]. splits; auto.
  Qed.

  (* the outputs of [run] are the step outputs: no model error along any admissible history *)
  Theorem run_no_error : forall ops w, world_inv w -> hist_pre cmp w ops ->
      Forall (fun r => o_err r = None) (snd (run cmp w ops)) /\ world_inv (fst (run cmp w ops)).
  Proof.
    induction ops as [|o ops IH]; intros w Iw Hpre; [cbn; auto|].
    cbn [hist_pre] in Hpre. destruct Hpre as [Hp Hrest].
    destruct (wstep_ok w o Iw Hp) as [Iw' [Er _]].
    cbn [run]. destruct (wstep cmp w o) as [w1 r] eqn:E. cbn [fst snd] in *.
    destruct (IH w1 Iw' Hrest) as [F Iw2].
    destruct (run cmp w1 ops) as [w2 rs]. cbn [fst snd] in *. split; [constructor; assumption|assumption].
  Qed.
End Histories.

(** ** the harness comparator (memcmp) is a total order: the order hypotheses are satisfiable *)
Lemma lex_cmp_antisym : forall a b, lex_cmp b a = CompOpp (lex_cmp a b).
Proof.
  induction a as [|x a IH]; intros [|y b]; cbn; try reflexivity.
  rewrite (N.compare_antisym x y). destruct (x ?= y); cbn; auto.
Qed.

Lemma lex_le_total : forall a b, VecSpec.le lex_cmp a b \/ VecSpec.le lex_cmp b a.
Proof.
  intros a b. unfold VecSpec.le, gtb. rewrite (lex_cmp_antisym a b).
  destruct (lex_cmp a b); cbn; auto.
Qed.

Lemma lex_ngt_trans : forall a b c, lex_cmp a b <> Gt -> lex_cmp b c <> Gt -> lex_cmp a c <> Gt.
Proof.
  induction a as [|x a IH]; intros [|y b] [|z c]; cbn; try congruence.
  destruct (N.compare_spec x y); destruct (N.compare_spec y z); destruct (N.compare_spec x z);
    subst; try lia; try congruence; eauto.
Qed.

Lemma lex_le_trans : forall a b c, VecSpec.le lex_cmp a b -> VecSpec.le lex_cmp b c -> VecSpec.le lex_cmp a c.
Proof.
  intros a b c. unfold VecSpec.le, gtb. intros H1 H2.
  pose proof (lex_ngt_trans a b c) as T.
  destruct (lex_cmp a b); destruct (lex_cmp b c); destruct (lex_cmp a c); try reflexivity;
    try discriminate; exfalso; apply T; congruence.
Qed.

(* equivalence under memcmp is identity: a sorted permutation is unique, qsort is deterministic *)
Lemma lex_cmp_eq : forall a b, lex_cmp a b = Eq -> a = b.
Proof.
  induction a as [|x a IH]; intros [|y b]; cbn; try congruence.
  destruct (N.compare_spec x y); try discriminate. intro Hx. subst. f_equal. auto.
Qed.

(** ** the qsort model yields a sorted permutation *)
Section IsortSorted.
  Variable cmp : elem -> elem -> comparison.
  Notation le := (VecSpec.le cmp).
  Notation sorted := (VecSpec.sorted cmp).
  Hypothesis le_trans : forall a b c, le a b -> le b c -> le a c.
  Hypothesis le_total : forall a b, le a b \/ le b a.

  Lemma ins_sorted_perm : forall x l, Permutation (x :: l) (ins_sorted cmp x l).
  Proof.
    induction l as [|y l IH]; cbn; [apply Permutation_refl|].
    destruct (gtb cmp y x); [apply Permutation_refl|].
    eapply Permutation_trans; [apply perm_swap|]. apply perm_skip. exact IH.
  Qed.

  Lemma ins_sorted_sorted : forall x l, sorted l -> sorted (ins_sorted cmp x l).
  Proof.
    induction l as [|y l IH]; intro H; cbn.
    - constructor; constructor.
    - inversion H as [|? ? Hs Hall]; subst.
      destruct (gtb cmp y x) eqn:G.
      + constructor; [exact H|]. constructor.
        * destruct (le_total x y) as [L|L]; [exact L|unfold VecSpec.le in L; congruence].
        * rewrite Forall_forall in *. intros z Hz. apply le_trans with y; [|auto].
          destruct (le_total x y) as [L|L]; [exact L|unfold VecSpec.le in L; congruence].
      + constructor; [apply IH; exact Hs|].
        rewrite Forall_forall in *. intros z Hz.
        apply (Permutation_in _ (Permutation_sym (ins_sorted_perm x l))) in Hz.
        destruct Hz as [<-|Hz]; [exact G|auto].
  Qed.

  Lemma isort_sorted_perm : forall l, sorted (isort cmp l) /\ Permutation l (isort cmp l).
  Proof.
    induction l as [|x l [S P]]; cbn; [split; constructor|].
    split; [apply ins_sorted_sorted; exact S|].
    eapply Permutation_trans; [apply perm_skip; exact P|apply ins_sorted_perm].
  Qed.
End IsortSorted.

(** ** corollaries stated by the design: both implementations agree, sorted inserts keep order *)
Section Corollaries.
  Variable cmp : elem -> elem -> comparison.
  Notation le := (VecSpec.le cmp).
  Notation sorted := (VecSpec.sorted cmp).
  Hypothesis le_trans : forall a b c, le a b -> le b c -> le a c.
  Hypothesis le_total : forall a b, le a b \/ le b a.

  (* remove: the scratch-slot path and the in-place rotation give the same sequence and element *)
  Theorem remove_paths_agree_lemma : forall a1 a2 idx,
      arr_inv a1 -> arr_inv a2 -> abs a1 = abs a2 -> abs a1 <> [] ->
      a_num a1 < a_mem a1 -> a_num a2 = a_mem a2 ->
      exists a1' o1 a2' o2,
        arr_remove a1 idx = Ok (a1', Some o1) /\ arr_remove a2 idx = Ok (a2', Some o2)
        /\ abs a1' = abs a2' /\ abs a1' = sp_remove (abs a1) idx
        /\ content_at a1' o1 (a_mem a1') = Some (sp_removed (abs a1) idx)
        /\ content_at a2' o2 (a_mem a2') = Some (sp_removed (abs a1) idx).
  Proof.
    intros a1 a2 idx I1 I2 E Hne _ _.
    destruct (arr_remove_spec a1 idx I1) as [a1' [o1 [E1 [_ [_ [_ R1]]]]]].
    destruct (arr_remove_spec a2 idx I2) as [a2' [o2 [E2 [_ [_ [_ R2]]]]]].
    destruct R1 as [[N1 _]|[_ [_ [A1 [off1 [p1 [-> [_ [_ C1]]]]]]]]].
    { exfalso. apply Hne. apply (abs_nil_iff a1 I1). exact N1. }
    destruct R2 as [[N2 _]|[_ [_ [A2 [off2 [p2 [-> [_ [_ C2]]]]]]]]].
    { exfalso. apply Hne. rewrite E. apply (abs_nil_iff a2 I2). exact N2. }
    exists a1', off1, a2', off2. rewrite <- E in A2, C2. splits; auto. congruence.
  Qed.

  Theorem sort_fore_sorted_lemma : forall a, arr_inv a -> sorted (tl (abs a)) ->
      exists a', arr_sort_fore cmp a = Ok a' /\ arr_inv a'
                 /\ abs a' = sp_sort_fore cmp (abs a) /\ sorted (abs a') /\ Permutation (abs a) (abs a').
  Proof.
    intros a I Hs.
    destruct (arr_sort_fore_spec cmp le_trans le_total a I) as [a' [E [I' [_ [_ [_ [P A]]]]]]].
    exists a'. rewrite (A (or_intror Hs)).
    destruct (sp_sort_fore_sorted cmp le_trans le_total (abs a) Hs) as [S P'].
    splits; auto.
  Qed.

  Theorem sort_back_sorted_lemma : forall a, arr_inv a -> sorted (removelast (abs a)) ->
      exists a', arr_sort_back cmp a = Ok a' /\ arr_inv a'
                 /\ abs a' = sp_sort_back cmp (abs a) /\ sorted (abs a') /\ Permutation (abs a) (abs a').
  Proof.
    intros a I Hs.
    destruct (arr_sort_back_spec cmp le_trans le_total a I) as [a' [E [I' [_ [_ [_ [P A]]]]]]].
    exists a'. rewrite (A (or_intror Hs)).
    destruct (sp_sort_back_sorted cmp le_trans le_total (abs a) Hs) as [S P'].
    splits; auto.
  Qed.

  Theorem push_sort_sorted_lemma : forall a key,
      arr_inv a -> a_num a < a_mem a -> sorted (abs a) -> fit (a_siz a) key = key ->
      exists a2 a3 off,
        arr_push_sort cmp a key = Ok (a2, off) /\ put a2 off key = Ok a3 /\ arr_inv a3
        /\ abs a3 = sp_push_sort cmp (abs a) key
        /\ sorted (abs a3) /\ Permutation (key :: abs a) (abs a3).
  Proof.
    intros a key I Hroom Hs Hfit.
    destruct (arr_push_sort_put cmp le_trans le_total a key I Hroom)
      as [a2 [a3 [off [p [E1 [E2 [I3 [_ [_ [_ [_ [_ [A3 [U3 _]]]]]]]]]]]]]].
    exists a2, a3, off.
    assert (A : abs a3 = sp_push_sort cmp (abs a) key).
    { rewrite A3, Hfit. unfold sp_push_sort. rewrite <- (U3 Hs). reflexivity. }
    destruct (sp_push_sort_sorted cmp le_trans le_total (abs a) key Hs) as [S P].
    rewrite A. splits; auto.
  Qed.

  (* the fixed buffer refuses what does not fit, and only that *)
  Definition room_needed (o : op) : option N :=
    match o with
    | OInsert _ _ | OPushFore _ | OPushBack _ | OPushSort _ => Some 1
    | OStore _ vs => Some (nlen vs)
    | _ => None
    end.
  Definition refusal (o : op) (r : ret) : Prop :=
    match o with OStore _ _ => r = RInt A_OBOUNDS | _ => r = RPtr None None end.

  Theorem buf_refuses_lemma : forall h b o need,
      buf_inv b -> op_pre KBuf (a_siz (b_arr b)) o -> room_needed o = Some need ->
      exists h' b' r, buf_step cmp h b o = Ok (h', b', r) /\ buf_inv b'
        /\ (a_mem (b_arr b) < a_num (b_arr b) + need ->
            refusal o (o_ret r) /\ abs (b_arr b') = abs (b_arr b) /\ a_mem (b_arr b') = a_mem (b_arr b))
        /\ (a_num (b_arr b) + need <= a_mem (b_arr b) ->
            ~ refusal o (o_ret r) /\ nlen (abs (b_arr b')) = nlen (abs (b_arr b)) + need).
  Proof.
    intros h b o need Ib Hpre Hneed.
    destruct (buf_step_refines cmp le_trans le_total h b o Ib Hpre) as [h' [b' [r [E [Ib' [Er Sp]]]]]].
    exists h', b', r. split; [exact E|]. split; [exact Ib'|].
    pose proof Ib as [I _]. pose proof Ib' as [I' _].
    pose proof (abs_length (b_arr b) I) as AL. pose proof (abs_length (b_arr b') I') as AL'.
    pose proof (inv_num (b_arr b') I') as Hn'.
    destruct o; cbn [room_needed] in Hneed; try discriminate; injection Hneed as <-;
      cbn [op_spec grows refusal] in *; rewrite AL in Sp.
    - (* push_sort *)
      destruct Sp as [[R [Hlt [M [Z [L D]]]]]|[off [p [R [SP [Hp [Z [D [M [L _]]]]]]]]]].
      + split; intro H; [rewrite L; auto|lia].
      + assert (Len : nlen (abs (b_arr b')) = a_num (b_arr b) + 1).
        { rewrite L. unfold nlen. rewrite app_length, firstn_length. cbn [length]. rewrite skipn_length.
          unfold nlen in AL. lia. }
        split; intro H; [destruct SP as [_ SP]; lia|]. split; [rewrite R; unfold null_ptr; congruence|lia].
    - (* insert *)
      destruct Sp as [[R [Hlt [M [Z [L D]]]]]|[off [R [SP [Z [D [M L]]]]]]].
      + split; intro H; [rewrite L; auto|lia].
      + assert (Len : nlen (abs (b_arr b')) = a_num (b_arr b) + 1).
        { rewrite L. unfold sp_insert, nlen. rewrite app_length, firstn_length. cbn [length]. rewrite skipn_length.
          unfold clampn, nlen in *. lia. }
        split; intro H; [destruct SP as [_ SP]; lia|]. split; [rewrite R; congruence|lia].
    - (* push_fore *)
      destruct Sp as [[R [Hlt [M [Z [L D]]]]]|[off [R [SP [Z [D [M L]]]]]]].
      + split; intro H; [rewrite L; auto|lia].
      + assert (Len : nlen (abs (b_arr b')) = a_num (b_arr b) + 1).
        { rewrite L. unfold nlen in *. cbn [length]. lia. }
        split; intro H; [lia|]. split; [rewrite R; congruence|lia].
    - (* push_back *)
      destruct Sp as [[R [Hlt [M [Z [L D]]]]]|[off [R [SP [Z [D [M L]]]]]]].
      + split; intro H; [rewrite L; auto|lia].
      + assert (Len : nlen (abs (b_arr b')) = a_num (b_arr b) + 1).
        { rewrite L. unfold nlen in *. rewrite app_length. cbn [length]. lia. }
        split; intro H; [lia|]. split; [rewrite R; congruence|lia].
    - (* store *)
      destruct Sp as [[R [Hlt [M [Z [L D]]]]]|[R [Z [D [M L]]]]].
      + split; intro H; [rewrite L; auto|lia].
      + assert (Len : nlen (abs (b_arr b')) = a_num (b_arr b) + nlen vs).
        { rewrite L. unfold sp_store, nlen. rewrite !app_length, firstn_length, map_length, skipn_length.
          unfold clampn, nlen in *. lia. }
        split; intro H; [lia|]. split; [rewrite R; unfold A_SUCCESS, A_OBOUNDS; congruence|lia].
  Qed.
End Corollaries.

(** ** the defects of the unpatched code, as statements about its guards *)
Theorem orig_remove_guard_refuted :
  exists idx num, idx < W /\ num < W /\ (wadd idx 1 <? num) = true /\ num <= idx.
Proof. exists (W - 1), 5. rewrite W_val. vm_compute. repeat split; try reflexivity; intro C; discriminate C. Qed.

Theorem fixed_remove_guard_spec : forall idx num, num < W ->
    (negb (num =? 0) && (idx <? wsub num 1) = true <-> idx + 1 < num).
Proof.
  intros idx num H. destruct (N.eqb_spec num 0) as [->|Hn]; cbn [negb andb].
  - split; [discriminate|lia].
  - rewrite wsub_eq by lia. rewrite N.ltb_lt. lia.
Qed.

Theorem orig_erase_end_refuted :
  exists idx cnt num, idx < W /\ cnt < W /\ num < W /\ idx < num
                      /\ (wadd idx cnt <? num) = true /\ num < idx + cnt.
Proof. exists 1, (W - 1), 5. rewrite W_val. vm_compute. repeat split; try reflexivity; intro C; discriminate C. Qed.

Theorem fixed_erase_end_spec : forall idx cnt num, num < W ->
    (if (idx <? num) && (cnt <? wsub num idx) then wadd idx cnt else num) = N.min (idx + cnt) (N.max idx num)
    \/ num <= idx.
Proof.
  intros idx cnt num H. destruct (N.ltb_spec idx num) as [Hi|Hi]; [left|right; exact Hi].
  cbn [andb]. rewrite wsub_eq by lia.
  destruct (N.ltb_spec cnt (num - idx)); [rewrite wadd_eq by lia|]; lia.
Qed.

(** ** further corollaries *)
Section More.
  Variable cmp : elem -> elem -> comparison.
  Notation le := (VecSpec.le cmp).
  Notation sorted := (VecSpec.sorted cmp).
  Hypothesis le_trans : forall a b c, le a b -> le b c -> le a c.
  Hypothesis le_total : forall a b, le a b \/ le b a.

  Theorem history_ok_init : forall sched limit ops,
      hist_pre cmp (init_world sched limit) ops -> hist_post cmp (init_world sched limit) ops.
  Proof. intros. apply (history_ok cmp le_trans le_total); [apply init_world_inv|assumption]. Qed.

  (* binary search + memmove (spare slot) and bubbling by a_swap (full) insert at the same place *)
  Theorem sort_paths_agree_lemma : forall a1 a2,
      arr_inv a1 -> arr_inv a2 -> abs a1 = abs a2 -> a_num a1 < a_mem a1 -> a_num a2 = a_mem a2 ->
      (sorted (tl (abs a1)) ->
       exists a1' a2', arr_sort_fore cmp a1 = Ok a1' /\ arr_sort_fore cmp a2 = Ok a2' /\ abs a1' = abs a2')
      /\ (sorted (removelast (abs a1)) ->
          exists a1' a2', arr_sort_back cmp a1 = Ok a1' /\ arr_sort_back cmp a2 = Ok a2' /\ abs a1' = abs a2').
  Proof.
    intros a1 a2 I1 I2 E _ _. split; intro Hs.
    - destruct (sort_fore_sorted_lemma cmp le_trans le_total a1 I1 Hs) as [a1' [E1 [_ [A1 _]]]].
      rewrite E in Hs.
      destruct (sort_fore_sorted_lemma cmp le_trans le_total a2 I2 Hs) as [a2' [E2 [_ [A2 _]]]].
      exists a1', a2'. splits; auto. congruence.
    - destruct (sort_back_sorted_lemma cmp le_trans le_total a1 I1 Hs) as [a1' [E1 [_ [A1 _]]]].
      rewrite E in Hs.
      destruct (sort_back_sorted_lemma cmp le_trans le_total a2 I2 Hs) as [a2' [E2 [_ [A2 _]]]].
      exists a1', a2'. splits; auto. congruence.
  Qed.

  (* every non-null element pointer returned designates a slot of the storage owned afterwards *)
  Theorem ret_ptr_inside : forall k siz mem l o r d siz' mem' l' off c,
      op_spec cmp k siz mem l o r d siz' mem' l' -> o <> OEnd -> r = RPtr (Some off) c ->
      exists p, off = siz' * p /\ p < mem'.
  Proof.
    intros k siz mem l o r d siz' mem' l' off c Sp Hne ->.
    destruct o; cbn [op_spec ptr_spec] in Sp; try congruence.
    - destruct k; destruct Sp as [[R _]|[R _]]; discriminate R.
    - destruct k; [destruct Sp as [[R _]|[R _]]; discriminate R|destruct Sp as [R _]; discriminate R].
    - destruct Sp as [R _]; discriminate R.
    - destruct Sp as [R _]; discriminate R.
    - destruct Sp as [R _]; discriminate R.
    - destruct Sp as [R _]; discriminate R.
    - destruct Sp as [[R _]|[off' [p [R [[SP1 SP2] [_ [Z _]]]]]]]; [discriminate R|].
      injection R as -> _. exists p. subst. auto.
    - destruct Sp as [R _]; discriminate R.
    - destruct Sp as [[R _]|[off' [R [[SP1 SP2] [Z _]]]]]; [discriminate R|].
      injection R as -> _. eexists. subst. eauto.
    - destruct Sp as [[R _]|[off' [R [[SP1 SP2] [Z _]]]]]; [discriminate R|].
      injection R as -> _. eexists. subst. eauto.
    - destruct Sp as [[R _]|[off' [R [[SP1 SP2] [Z _]]]]]; [discriminate R|].
      injection R as -> _. eexists. subst. eauto.
    - destruct Sp as [_ [Z [_ [[_ [R _]]|[_ [_ [off' [p [R [[SP1 SP2] _]]]]]]]]]]; [discriminate R|].
      injection R as -> _. exists p. subst. auto.
    - destruct Sp as [_ [Z [_ [[_ [R _]]|[_ [_ [off' [p [R [[SP1 SP2] _]]]]]]]]]]; [discriminate R|].
      injection R as -> _. exists p. subst. auto.
    - destruct Sp as [_ [Z [_ [[_ [R _]]|[_ [_ [off' [p [R [[SP1 SP2] _]]]]]]]]]]; [discriminate R|].
      injection R as -> _. exists p. subst. auto.
    - destruct Sp as [[R _]|[R _]]; discriminate R.
    - destruct Sp as [_ [_ [[_ [R _]]|[_ [R _]]]]]; discriminate R.
    - destruct Sp as [_ [[Z _] P]]. destruct (idx <? mem); [|discriminate P].
      destruct P as [off' [R [SP1 SP2]]]. injection R as -> _. exists idx. subst. auto.
    - destruct Sp as [_ [[Z _] P]].
      destruct ((if idx <? HALF then idx else wadd idx (nlen l)) <? mem); [|discriminate P].
      destruct P as [off' [R [SP1 SP2]]]. injection R as -> _. eexists. subst. eauto.
    - destruct Sp as [_ [[Z _] P]]. destruct (nlen l =? 0); [discriminate P|].
      destruct P as [off' [R [SP1 SP2]]]. injection R as -> _. eexists. subst. eauto.
  Qed.
End More.
