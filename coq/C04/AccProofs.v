(** * C04 — what the inline accessors, the aliases and ctor / dtor of vec.h / buf.h return
      (definitions: C04/AccDefs.v) *)
From Coq Require Import ZArith NArith List Bool Lia Arith.
From LibaV Require Import C04.VecDefs C04.VecSpec C04.ListAux C04.ArrProofs C04.VecProofs C04.VecExamples
     C04.AccDefs.
Import ListNotations.
Local Open Scope N_scope.

Ltac Zify.zify_post_hook ::= Z.to_euclidean_division_equations.

(** ** the unchecked element accessors under their documented preconditions: no 64-bit wrap, the
       pointer designates a whole slot inside the owned storage, the checked variant returns the same *)
Lemma arr_at__spec : forall a idx, arr_inv a -> idx < a_mem a ->
    arr_at_ a idx = a_siz a * idx
    /\ a_siz a * idx + a_siz a <= a_siz a * a_mem a
    /\ arr_at a idx = Some (arr_at_ a idx).
Proof.
  intros a idx I Hi.
  pose proof (off_lt a idx I (N.lt_le_incl _ _ Hi)) as Hb. pose proof HALF_lt_W as HW.
  assert (E : arr_at_ a idx = a_siz a * idx) by (unfold arr_at_; apply wmul_eq; lia).
  split; [exact E|]. split.
  - pose proof (mul_le_l (a_siz a) (idx + 1) (a_mem a)). lia.
  - unfold arr_at. destruct (N.ltb_spec idx (a_mem a)) as [_|C]; [reflexivity|lia].
Qed.

Lemma arr_at_oob : forall a idx, a_mem a <= idx -> arr_at a idx = None.
Proof. intros a idx H. unfold arr_at. destruct (N.ltb_spec idx (a_mem a)); [lia|reflexivity]. Qed.

Lemma arr_top__spec : forall a, arr_inv a -> a_num a <> 0 ->
    arr_top_ a = a_siz a * (a_num a - 1)
    /\ arr_top_ a + a_siz a = a_siz a * a_num a
    /\ arr_top_ a + a_siz a <= a_siz a * a_mem a
    /\ arr_top a = Some (arr_top_ a)
    /\ arr_of a (W - 1) = Some (arr_top_ a).
Proof.
  intros a I Hn.
  pose proof (inv_num a I) as Hnm. pose proof (mem_lt_half a I) as Hm. pose proof HALF_lt_W as HW.
  assert (Hs : wsub (a_num a) 1 = a_num a - 1) by (apply wsub_eq; lia).
  assert (Hk : a_num a - 1 <= a_mem a) by lia.
  pose proof (off_lt a (a_num a - 1) I Hk) as Hb.
  assert (E : arr_top_ a = a_siz a * (a_num a - 1)).
  { unfold arr_top_. rewrite Hs. apply wmul_eq. lia. }
  split; [exact E|].
  assert (E2 : a_siz a * (a_num a - 1) + a_siz a = a_siz a * a_num a).
  { replace (a_num a) with ((a_num a - 1) + 1) at 2 by lia. lia. }
  split; [lia|]. split; [pose proof (mul_le_l (a_siz a) (a_num a) (a_mem a) Hnm); lia|]. split.
  - unfold arr_top. destruct (N.eqb_spec (a_num a) 0) as [C|_]; [contradiction|]. reflexivity.
  - unfold arr_of.
    assert (Hh : (W - 1 <? HALF) = false) by (apply N.ltb_ge; rewrite W_val, HALF_val; lia).
    rewrite Hh.
    assert (Hw : wadd (W - 1) (a_num a) = a_num a - 1).
    { unfold wadd. replace (W - 1 + a_num a) with ((a_num a - 1) + 1 * W) by lia.
      rewrite N.mod_add by (rewrite W_val; lia). apply N.mod_small. lia. }
    rewrite Hw. destruct (N.ltb_spec (a_num a - 1) (a_mem a)) as [_|C]; [|lia].
    unfold arr_top_. rewrite Hs. reflexivity.
Qed.

Lemma arr_top_empty : forall a, a_num a = 0 -> arr_top a = None.
Proof. intros a H. unfold arr_top. rewrite H. reflexivity. Qed.

Lemma arr_end__spec : forall a, arr_inv a ->
    arr_end_ a = a_siz a * a_num a
    /\ arr_end_ a <= a_siz a * a_mem a
    /\ arr_end a = arr_end_ a.
Proof.
  intros a I. pose proof (inv_num a I) as Hnm. pose proof (off_lt a (a_num a) I Hnm) as Hb.
  pose proof HALF_lt_W as HW.
  assert (E : arr_end_ a = a_siz a * a_num a) by (unfold arr_end_; apply wmul_eq; lia).
  split; [exact E|]. split; [rewrite E; apply mul_le_l; exact Hnm|reflexivity].
Qed.

(** ** the verdict the drivers print: on every state satisfying the invariant it is "ok" *)
Lemma opt_eqb_refl : forall x, opt_eqb x x = true.
Proof. destruct x as [n|]; cbn; [apply N.eqb_refl|reflexivity]. Qed.

Lemma acc_check_at_ok : forall a i, arr_inv a -> acc_check_at a i = true.
Proof.
  intros a i I. unfold acc_check_at. destruct (N.ltb_spec i (a_mem a)) as [Hi|Hi].
  - destruct (arr_at__spec a i I Hi) as (E & Hin & Hat).
    rewrite Hat, opt_eqb_refl, E, N.eqb_refl. cbn [andb].
    rewrite andb_true_r. apply N.leb_le. exact Hin.
  - rewrite (arr_at_oob a i Hi). reflexivity.
Qed.

Lemma acc_check_ok : forall hasptr a, arr_inv a -> acc_check hasptr a = true.
Proof.
  intros hasptr a I. unfold acc_check, acc_siz, acc_num, acc_mem.
  pose proof (mem_lt_half a I) as Hm. pose proof HALF_lt_W as HW.
  rewrite !N.eqb_refl. cbn [andb].
  assert (Hf : forallb (acc_check_at a) (probe_idx a) = true).
  { apply forallb_forall. intros i _. apply acc_check_at_ok. exact I. }
  rewrite Hf. cbn [andb].
  rewrite (arr_at_oob a (a_mem a)) by lia. rewrite (arr_at_oob a (W - 1)) by lia. cbn [opt_eqb andb].
  assert (Htop : (if a_num a =? 0 then opt_eqb (arr_top a) None
                  else (arr_top_ a =? a_siz a * (a_num a - 1)) && opt_eqb (arr_top a) (Some (arr_top_ a))
                       && opt_eqb (arr_of a (W - 1)) (Some (arr_top_ a))) = true).
  { destruct (N.eqb_spec (a_num a) 0) as [Hz|Hz].
    - rewrite (arr_top_empty a Hz). reflexivity.
    - destruct (arr_top__spec a I Hz) as (E & _ & _ & Ht & Ho).
      rewrite Ht, Ho, !opt_eqb_refl, E, N.eqb_refl. reflexivity. }
  rewrite Htop. cbn [andb].
  assert (Hof : opt_eqb (arr_of a 0) (if 0 <? a_mem a then Some 0 else None) = true).
  { unfold arr_of. assert (H0 : (0 <? HALF) = true) by (apply N.ltb_lt; rewrite HALF_val; lia).
    rewrite H0. destruct (0 <? a_mem a); [|reflexivity].
    unfold wmul. rewrite N.mul_0_r. rewrite N.mod_0_l by (rewrite W_val; lia). reflexivity. }
  rewrite Hof. cbn [andb].
  destruct hasptr; [|reflexivity].
  destruct (arr_end__spec a I) as (E & Hle & He).
  rewrite (proj2 (N.eqb_eq _ _) E), (proj2 (N.leb_le _ _) Hle). cbn [andb].
  try rewrite He; try apply N.eqb_refl; reflexivity.
Qed.

Lemma vec_acc_check_ok : forall v, vec_inv v -> vec_acc_check v = true.
Proof.
  intros v [I _]. unfold vec_acc_check. rewrite (acc_check_ok _ _ I). cbn [andb].
  unfold vec_end. destruct (v_ptr v); [|reflexivity].
  destruct (arr_end__spec _ I) as (E & _ & _). rewrite E. apply opt_eqb_refl.
Qed.

Lemma buf_acc_check_ok : forall b, buf_inv b -> buf_acc_check b = true.
Proof. intros b [I _]. apply acc_check_ok. exact I. Qed.

(** ** aliases: the entry points a_vec_push / a_vec_pull / a_buf_push / a_buf_pull are push_back /
       pull_back, and therefore meet the abstract-sequence specification of those *)
Lemma alias_steps : forall cmp h v b x,
    vec_step cmp h v (OPush x) = vec_step cmp h v (OPushBack x)
    /\ vec_step cmp h v OPull = vec_step cmp h v OPullBack
    /\ buf_step cmp h b (OPush x) = buf_step cmp h b (OPushBack x)
    /\ buf_step cmp h b OPull = buf_step cmp h b OPullBack.
Proof. intros. repeat split; reflexivity. Qed.

Lemma alias_push_pull_spec : forall cmp : elem -> elem -> comparison,
    (forall a b c, le cmp a b -> le cmp b c -> le cmp a c) -> (forall a b, le cmp a b \/ le cmp b a) ->
    forall h v x, vec_inv v ->
      (exists h' v' r, vec_step cmp h v (OPush x) = Ok (h', v', r) /\ vec_inv v'
                       /\ step_post cmp KVec (v_arr v) (OPushBack x) (v_arr v') r)
      /\ (exists h' v' r, vec_step cmp h v OPull = Ok (h', v', r) /\ vec_inv v'
                          /\ step_post cmp KVec (v_arr v) OPullBack (v_arr v') r).
Proof.
  intros cmp Ht Htot h v x Iv. split.
  - exact (vec_step_refines cmp Ht Htot h v (OPushBack x) Iv I).
  - exact (vec_step_refines cmp Ht Htot h v OPullBack Iv I).
Qed.

(** ** ctor / dtor: new = a_alloc + ctor and die = dtor + a_alloc(ctx, 0) are the constructions the
       histories of the property theorems use, so building a container by hand changes nothing *)
Lemma vec_new_by_ctor_eq : forall h siz, vec_new_by_ctor h siz = vec_new h siz.
Proof. reflexivity. Qed.

Lemma buf_new_by_ctor_eq : forall h siz num, buf_new_by_ctor h siz num = buf_new h siz num.
Proof. reflexivity. Qed.

Lemma vec_die_by_dtor_eq : forall h id v dt, vec_die_by_dtor h id v dt = vec_die h id v dt.
Proof.
  intros. unfold vec_die_by_dtor, vec_die, vec_dtor.
  destruct (arr_dtor_down (v_arr v) 0 dt) as [d|e]; cbn [bind]; [|reflexivity].
  destruct (v_ptr v) as [p|].
  - destruct (a_alloc h (Some p) 0) as [[o1 h1] ev1]. cbn [bind].
    destruct (a_alloc h1 (Some id) 0) as [[o2 h2] ev2]. reflexivity.
  - cbn [bind]. destruct (a_alloc h (Some id) 0) as [[o2 h2] ev2]. reflexivity.
Qed.

Lemma buf_die_by_dtor_eq : forall h b dt, buf_die_by_dtor h b dt = buf_die h b dt.
Proof.
  intros. unfold buf_die_by_dtor, buf_die, buf_dtor.
  destruct (arr_dtor_down (b_arr b) 0 dt) as [d|e]; cbn [bind]; [|reflexivity].
  cbn [bwith b_blk]. destruct (a_alloc h (Some (b_blk b)) 0) as [[o1 h1] ev1]. reflexivity.
Qed.

Lemma vec_ctor_inv : forall siz, vec_inv (vec_ctor siz)
    /\ a_siz (v_arr (vec_ctor siz)) = (if siz =? 0 then 1 else siz)
    /\ abs (v_arr (vec_ctor siz)) = [] /\ a_mem (v_arr (vec_ctor siz)) = 0.
Proof.
  intro siz. split; [|repeat split].
  split; [|reflexivity]. unfold vec_ctor. cbn [v_arr].
  constructor; cbn [a_siz a_num a_mem a_sl].
  - destruct (N.eqb_spec siz 0); lia.
  - lia.
  - reflexivity.
  - rewrite N.mul_0_r, HALF_val. lia.
  - constructor.
Qed.

(** a_vec_dtor runs the destructor on every element (last to first), releases the storage block and
    leaves a structure with no storage, no elements and no capacity *)
Lemma vec_dtor_spec : forall h v dt, vec_inv v ->
    exists h' ev, vec_dtor h v dt = Ok (h', mkVec None (mkArr 0 0 0 []), (if dt then rev (abs (v_arr v)) else []), ev)
      /\ (h', ev) = match v_ptr v with
                    | Some p => let '(_, h1, ev1) := a_alloc h (Some p) 0 in (h1, ev1)
                    | None => (h, []) end.
Proof.
  intros h v dt [I _]. unfold vec_dtor. rewrite (arr_dtor_down_spec _ 0 dt I). cbn [bind].
  change (N.to_nat 0) with 0%nat. cbn [skipn].
  destruct (v_ptr v) as [p|].
  - destruct (a_alloc h (Some p) 0) as [[o1 h1] ev1]. exists h1, ev1. split; reflexivity.
  - exists h, []. split; reflexivity.
Qed.

(** a_buf_dtor runs the destructor on every element and keeps element size, capacity and block *)
Lemma buf_dtor_spec : forall b dt, buf_inv b ->
    exists b', buf_dtor b dt = Ok (b', (if dt then rev (abs (b_arr b)) else []))
      /\ buf_inv b' /\ b_blk b' = b_blk b /\ abs (b_arr b') = []
      /\ a_siz (b_arr b') = a_siz (b_arr b) /\ a_mem (b_arr b') = a_mem (b_arr b).
Proof.
  intros b dt [I Hb]. unfold buf_dtor. rewrite (arr_dtor_down_spec _ 0 dt I). cbn [bind].
  change (N.to_nat 0) with 0%nat. cbn [skipn].
  eexists. split; [reflexivity|]. cbn [bwith b_arr b_blk a_siz a_mem].
  split; [|repeat split].
  split; [|exact Hb]. destruct I as [I1 I2 I3 I4 I5].
  constructor; cbn [bwith b_arr a_siz a_num a_mem a_sl]; try assumption. lia.
Qed.

(** ** non-vacuity: the states of C04/VecExamples.v satisfy the hypotheses; the accessors on them *)
Example ex_acc_values :
  arr_at_ ex_spare 3 = 6 /\ arr_top_ ex_spare = 4 /\ arr_end_ ex_spare = 6
  /\ arr_at ex_spare 4 = None /\ arr_of ex_spare (W - 1) = Some 4
  /\ vec_acc_check (mkVec (Some 2) ex_spare) = true /\ buf_acc_check (mkBuf 1 ex_full) = true
  /\ vec_acc_check (vec_ctor 0) = true.
Proof. vm_compute. repeat split; reflexivity. Qed.

(** the verdict is not constantly true: a count above the capacity, or a capacity whose byte size
    wraps, is rejected (so acc=ok printed by the model driver does depend on the state) *)
Example ex_acc_check_rejects :
  acc_check true (mkArr 2 5 4 [[3; 0]; [1; 0]; [2; 0]; [165; 165]]) = false
  /\ acc_check true (mkArr 4 1 (HALF) []) = false.
Proof. vm_compute. split; reflexivity. Qed.
