(** * C04 — a_swap (src/a.c:29-40), modelled byte by byte, exchanges two disjoint blocks and,
      used on overlapping ranges as in a_vec_remove / a_buf_remove, rotates one element to the end *)
From Coq Require Import ZArith NArith List Bool Lia Arith.
From LibaV Require Import C04.VecDefs C04.VecSpec C04.ListAux.
Import ListNotations.

Ltac Zify.zify_post_hook ::= Z.to_euclidean_division_equations.

(** ** the byte loop *)
Lemma upd_lupd : forall {A} (l : list A) i x, upd l i x = lupd l i x.
Proof. reflexivity. Qed.

Lemma swap_loop_app : forall a b l r bs,
    swap_loop (a + b) l r bs = swap_loop b (l + a) (r + a) (swap_loop a l r bs).
Proof.
  induction a as [|a IH]; intros b l r bs.
  - cbn. rewrite !Nat.add_0_r. reflexivity.
  - cbn [Nat.add swap_loop]. rewrite IH. rewrite !Nat.add_succ_r. reflexivity.
Qed.

Lemma swap_loop_length : forall k l r bs, (l + k <= length bs)%nat -> (r + k <= length bs)%nat ->
    length (swap_loop k l r bs) = length bs.
Proof.
  induction k as [|k IH]; intros l r bs Hl Hr; [reflexivity|].
  cbn [swap_loop]. change (@upd byte) with (@lupd byte).
  assert (L1 : length (lupd bs l (nth r bs 0%N)) = length bs) by (apply lupd_length; lia).
  assert (L2 : length (lupd (lupd bs l (nth r bs 0%N)) r (nth l bs 0%N)) = length bs)
    by (rewrite lupd_length; lia).
  rewrite IH; lia.
Qed.

(* the loop does not care which argument is called lhs *)
Lemma swap_loop_sym : forall k l r bs, (l + k <= length bs)%nat -> (r + k <= length bs)%nat ->
    swap_loop k l r bs = swap_loop k r l bs.
Proof.
  induction k as [|k IH]; intros l r bs Hl Hr; [reflexivity|].
  cbn [swap_loop]. change (@upd byte) with (@lupd byte).
  assert (E : lupd (lupd bs l (nth r bs 0%N)) r (nth l bs 0%N)
              = lupd (lupd bs r (nth l bs 0%N)) l (nth r bs 0%N)).
  { apply nth_error_ext; intro j.
    rewrite !ne_lupd by (rewrite ?lupd_length; lia).
    destruct (Nat.eqb_spec j r); destruct (Nat.eqb_spec j l); try reflexivity.
    subst. subst. reflexivity. }
  rewrite E.
  assert (L1 : length (lupd bs r (nth l bs 0%N)) = length bs) by (apply lupd_length; lia).
  assert (L2 : length (lupd (lupd bs r (nth l bs 0%N)) l (nth r bs 0%N)) = length bs)
    by (rewrite lupd_length; lia).
  apply IH; lia.
Qed.

(* two disjoint blocks of k bytes are exchanged *)
Lemma swap_loop_blocks : forall k pre a1 mid a2 post,
    length a1 = k -> length a2 = k ->
    swap_loop k (length pre) (length pre + k + length mid) (pre ++ a1 ++ mid ++ a2 ++ post)
    = pre ++ a2 ++ mid ++ a1 ++ post.
Proof.
  induction k as [|k IH]; intros pre a1 mid a2 post H1 H2.
  - destruct a1; [|discriminate]. destruct a2; [|discriminate]. reflexivity.
  - destruct a1 as [|x a1]; [discriminate|]. destruct a2 as [|y a2]; [discriminate|].
    cbn [length] in H1, H2. injection H1 as H1. injection H2 as H2.
    cbn [swap_loop]. change (@upd byte) with (@lupd byte).
    assert (Ex : nth (length pre) (pre ++ (x :: a1) ++ mid ++ (y :: a2) ++ post) 0%N = x).
    { apply nth_middle. }
    assert (Ey : nth (length pre + S k + length mid) (pre ++ (x :: a1) ++ mid ++ (y :: a2) ++ post) 0%N = y).
    { replace (pre ++ (x :: a1) ++ mid ++ (y :: a2) ++ post)
        with ((pre ++ (x :: a1) ++ mid) ++ y :: (a2 ++ post))
        by (rewrite <- !app_assoc; reflexivity).
      replace (length pre + S k + length mid)%nat with (length (pre ++ (x :: a1) ++ mid))
        by (rewrite !app_length; cbn [length]; lia).
      apply nth_middle. }
    rewrite Ex, Ey.
    assert (E : lupd (lupd (pre ++ (x :: a1) ++ mid ++ (y :: a2) ++ post) (length pre) y)
                     (length pre + S k + length mid) x
                = (pre ++ [y]) ++ a1 ++ (mid ++ [x]) ++ a2 ++ post).
    { apply nth_error_ext; intro j.
      rewrite !ne_lupd by (rewrite ?lupd_length; rewrite ?app_length; cbn [length];
                           rewrite ?app_length; cbn [length]; lia).
      ne_norm. ne_split; ne_leaf. }
    rewrite E.
    replace (S (length pre)) with (length (pre ++ [y])) by (rewrite app_length; cbn; lia).
    replace (S (length pre + S k + length mid))
      with (length (pre ++ [y]) + k + length (mid ++ [x]))%nat
      by (rewrite !app_length; cbn [length]; lia).
    rewrite IH by assumption.
    rewrite <- !app_assoc. reflexivity.
Qed.

(** ** slots *)
Section Slots.
  Variable S : nat.                                   (* element size in bytes *)
  Notation ok := (fun e : elem => length e = S).

  (** exchange slots j and j+1 *)
  Definition lswap (j : nat) (L : list elem) : list elem :=
    firstn j L ++ nth (Datatypes.S j) L [] :: nth j L [] :: skipn (j + 2) L.
  (** rotate slot p behind the m slots that follow it *)
  Definition lrot (p m : nat) (L : list elem) : list elem :=
    firstn p L ++ firstn m (skipn (Datatypes.S p) L) ++ nth p L [] :: skipn (p + m + 1) L.

  Lemma lswap_length : forall j L, (j + 1 < length L)%nat -> length (lswap j L) = length L.
  Proof. intros. unfold lswap. ne_norm. lia. Qed.

  Lemma ne_lswap : forall j L k, (j + 1 < length L)%nat ->
      nth_error (lswap j L) k =
      if k =? j then nth_error L (j + 1) else if k =? j + 1 then nth_error L j else nth_error L k.
  Proof.
    intros. unfold lswap. ne_norm.
    rewrite <- !(ne_nth L _ []) by lia.
    ne_split; try ne_leaf.
  Qed.

  Lemma lrot_length : forall p m L, (p + m < length L)%nat -> length (lrot p m L) = length L.
  Proof. intros. unfold lrot. ne_norm. lia. Qed.

  Lemma ne_lrot : forall p m L k, (p + m < length L)%nat ->
      nth_error (lrot p m L) k =
      if k <? p then nth_error L k
      else if k <? p + m then nth_error L (k + 1)
           else if k =? p + m then nth_error L p else nth_error L k.
  Proof.
    intros. unfold lrot. ne_norm.
    rewrite <- !(ne_nth L _ []) by lia.
    ne_split; try ne_leaf.
  Qed.

  Lemma lrot_0 : forall p L, (p < length L)%nat -> lrot p 0 L = L.
  Proof.
    intros. apply nth_error_ext; intro k. rewrite ne_lrot by lia. ne_split; ne_leaf.
  Qed.

  Lemma lswap_lrot : forall p m L, (p + m + 1 < length L)%nat ->
      lswap (p + m) (lrot p m L) = lrot p (m + 1) L.
  Proof.
    intros. apply nth_error_ext; intro k.
    rewrite ne_lswap by (rewrite lrot_length; lia).
    rewrite !ne_lrot by lia. ne_split; ne_leaf.
  Qed.

  Lemma Forall_lswap : forall (P : elem -> Prop) j L, (j + 1 < length L)%nat ->
      Forall P L -> Forall P (lswap j L).
  Proof.
    intros P j L Hj H. unfold lswap. rewrite Forall_app. split; [auto using Forall_firstn|].
    constructor; [apply Forall_nth; [assumption|lia]|].
    constructor; [apply Forall_nth; [assumption|lia]|]. auto using Forall_skipn.
  Qed.

  Lemma Forall_lrot : forall (P : elem -> Prop) p m L, (p + m < length L)%nat ->
      Forall P L -> Forall P (lrot p m L).
  Proof.
    intros P p m L Hj H. unfold lrot. rewrite !Forall_app. split; [auto using Forall_firstn|].
    split; [auto using Forall_firstn, Forall_skipn|].
    constructor; [apply Forall_nth; [assumption|lia]|]. auto using Forall_skipn.
  Qed.

  Lemma concat_length_ok : forall L, Forall ok L -> length (concat L) = (S * length L)%nat.
  Proof.
    induction L as [|e L IH]; intro H; [cbn; lia|].
    inversion H; subst. cbn [concat length]. rewrite app_length, IH by assumption. lia.
  Qed.

  Lemma chunk_concat : forall L, Forall ok L -> chunk S (length L) (concat L) = L.
  Proof.
    induction L as [|e L IH]; intro H; [reflexivity|].
    inversion H; subst. cbn [length chunk concat].
    rewrite firstn_app, Nat.sub_diag, firstn_all, firstn_O, app_nil_r.
    rewrite skipn_app, Nat.sub_diag, skipn_all, skipn_O. cbn [app].
    rewrite IH by assumption. reflexivity.
  Qed.

  Lemma split_at : forall (L : list elem) j, (j + 1 < length L)%nat ->
      L = firstn j L ++ nth j L [] :: nth (Datatypes.S j) L [] :: skipn (j + 2) L.
  Proof.
    intros. apply nth_error_ext; intro k. ne_norm.
    rewrite <- !(ne_nth L _ []) by lia. ne_split; ne_leaf.
  Qed.

  (* a_swap on two adjacent slots *)
  Lemma swap_loop_adjacent : forall L j, Forall ok L -> (j + 1 < length L)%nat ->
      swap_loop S (S * j) (S * (j + 1)) (concat L) = concat (lswap j L).
  Proof.
    intros L j H Hj.
    assert (H1 : length (nth j L []) = S) by (apply (Forall_nth ok); [assumption|lia]).
    assert (H2 : length (nth (Datatypes.S j) L []) = S) by (apply (Forall_nth ok); [assumption|lia]).
    rewrite (split_at L j Hj) at 1.
    rewrite concat_app. cbn [concat].
    assert (Hp : length (concat (firstn j L)) = (S * j)%nat).
    { rewrite concat_length_ok by (apply Forall_firstn; assumption).
      rewrite firstn_length. lia. }
    pose proof (swap_loop_blocks S (concat (firstn j L)) (nth j L []) [] (nth (Datatypes.S j) L [])
                                 (concat (skipn (j + 2) L)) H1 H2) as B.
    cbn [app length] in B. rewrite Hp in B.
    replace (S * j + S + 0)%nat with (S * (j + 1))%nat in B by lia.
    rewrite B. unfold lswap. rewrite concat_app. reflexivity.
  Qed.

  (* a_swap(p, p + siz, m * siz): the overlapping use in remove rotates slot p to position p + m *)
  Lemma swap_loop_rot : forall m L p, Forall ok L -> (p + m < length L)%nat ->
      swap_loop (S * m) (S * p) (S * (p + 1)) (concat L) = concat (lrot p m L).
  Proof.
    induction m as [|m IH]; intros L p H Hp.
    - rewrite Nat.mul_0_r. cbn [swap_loop]. rewrite lrot_0 by lia. reflexivity.
    - replace (S * Datatypes.S m)%nat with (S * m + S)%nat by lia.
      rewrite swap_loop_app. rewrite IH by (assumption || lia).
      replace (S * p + S * m)%nat with (S * (p + m))%nat by lia.
      replace (S * (p + 1) + S * m)%nat with (S * (p + m + 1))%nat by lia.
      rewrite swap_loop_adjacent.
      + rewrite lswap_lrot by lia. replace (m + 1)%nat with (Datatypes.S m) by lia. reflexivity.
      + apply Forall_lrot; [lia|assumption].
      + rewrite lrot_length; lia.
  Qed.
End Slots.
