(** Extraction of the C04 model for the correspondence driver harness/C04/mdrv.ml.
    ExtrOcamlBasic only: N / positive / nat stay the extracted inductive types. *)
From LibaV Require Import C04.VecDefs C04.AccDefs.
Require Extraction.
Require Import ExtrOcamlBasic.
(* AccDefs: the accessor verdict, the alias operations and the structure left by a_vec_dtor / a_buf_dtor *)
Extraction "C04/extracted/vecmodel.ml" wstep_lex run_lex init_world
  vec_acc_check buf_acc_check OPush OPull wdtor_vec wdtor_buf.
