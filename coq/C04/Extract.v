(** Extraction of the C04 model for the correspondence driver harness/C04/mdrv.ml.
    ExtrOcamlBasic only: N / positive / nat stay the extracted inductive types. *)
From LibaV Require Import C04.VecDefs.
Require Extraction.
Require Import ExtrOcamlBasic.
Extraction "C04/extracted/vecmodel.ml" wstep_lex run_lex init_world.
