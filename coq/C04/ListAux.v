(** * C04 — list splicing by [nth_error] extensionality, and word-arithmetic helpers *)
From Coq Require Import ZArith NArith List Bool Lia Arith.
Import ListNotations.

Ltac Zify.zify_post_hook ::= Z.to_euclidean_division_equations.

Section ListAux.
  Context {A : Type}.
  Implicit Types l : list A.

  Lemma nth_error_ext : forall l1 l2, (forall k, nth_error l1 k = nth_error l2 k) -> l1 = l2.
  Proof.
    induction l1 as [|x l1 IH]; intros [|y l2] H; auto.
    - specialize (H 0%nat). discriminate.
    - specialize (H 0%nat). discriminate.
    - f_equal.
      + specialize (H 0%nat). cbn in H. congruence.
      + apply IH. intro k. apply (H (S k)).
  Qed.

  Lemma ne_app : forall l1 l2 k,
      nth_error (l1 ++ l2) k = if k <? length l1 then nth_error l1 k else nth_error l2 (k - length l1).
  Proof.
    intros. destruct (Nat.ltb_spec k (length l1)).
    - apply nth_error_app1; auto.
    - apply nth_error_app2; auto.
  Qed.

  Lemma ne_nil' : forall k, nth_error (@nil A) k = None.
  Proof. destruct k; reflexivity. Qed.

  Lemma ne_firstn : forall n l k,
      nth_error (firstn n l) k = if k <? n then nth_error l k else None.
  Proof.
    induction n as [|n IH]; intros l k.
    - cbn. destruct k; reflexivity.
    - destruct l as [|x l]; cbn [firstn].
      + rewrite ne_nil'. destruct (k <? S n); reflexivity.
      + destruct k as [|k]; [reflexivity|]. cbn [nth_error]. rewrite IH.
        change (S k <? S n) with (k <? n). reflexivity.
  Qed.

  Lemma ne_skipn : forall n l k, nth_error (skipn n l) k = nth_error l (n + k).
  Proof.
    induction n as [|n IH]; intros l k; [reflexivity|].
    destruct l as [|x l]; cbn [skipn].
    - destruct k; reflexivity.
    - apply IH.
  Qed.

  Lemma ne_cons : forall x l k,
      nth_error (x :: l) k = if k =? 0 then Some x else nth_error l (k - 1).
  Proof.
    intros. destruct k as [|k]; [reflexivity|]. cbn [Nat.eqb nth_error].
    replace (S k - 1) with k by lia. reflexivity.
  Qed.

  Lemma ne_nil : forall k, nth_error (@nil A) k = None.
  Proof. destruct k; reflexivity. Qed.

  Lemma ne_repeat : forall (x : A) n k,
      nth_error (repeat x n) k = if k <? n then Some x else None.
  Proof.
    induction n as [|n IH]; intros k; [destruct k; reflexivity|].
    destruct k as [|k]; [reflexivity|]. cbn [repeat nth_error]. rewrite IH. reflexivity.
  Qed.

  Lemma ne_none : forall l k, length l <= k -> nth_error l k = None.
  Proof. intros. apply nth_error_None. assumption. Qed.

  Lemma ne_nth : forall l k d, k < length l -> nth_error l k = Some (nth k l d).
  Proof. intros. apply nth_error_nth'. assumption. Qed.

  Lemma Forall_firstn : forall (P : A -> Prop) n l, Forall P l -> Forall P (firstn n l).
  Proof.
    induction n; intros l H; cbn; [constructor|].
    destruct l; [constructor|]. inversion H; subst. constructor; auto.
  Qed.

  Lemma Forall_skipn : forall (P : A -> Prop) n l, Forall P l -> Forall P (skipn n l).
  Proof.
    induction n; intros l H; cbn; [assumption|].
    destruct l; [constructor|]. inversion H; subst. auto.
  Qed.

  Lemma Forall_repeat : forall (P : A -> Prop) x n, P x -> Forall P (repeat x n).
  Proof. induction n; intros; cbn; constructor; auto. Qed.

  Lemma Forall_nth : forall (P : A -> Prop) l k d, Forall P l -> k < length l -> P (nth k l d).
  Proof. intros P l k d H Hk. rewrite Forall_forall in H. apply H. apply nth_In. assumption. Qed.
End ListAux.

(** [list_ext]: prove an equation between list splices position by position. *)
Ltac ne_norm :=
  repeat (rewrite ?ne_app, ?ne_firstn, ?ne_skipn, ?ne_cons, ?ne_nil, ?ne_repeat,
           ?app_length, ?firstn_length, ?skipn_length, ?repeat_length, ?rev_length, ?map_length;
          cbn [length]).

Ltac ne_leaf :=
  first [ reflexivity
        | lia
        | (f_equal; lia)
        | (rewrite ne_none by lia; reflexivity)
        | (symmetry; rewrite ne_none by lia; reflexivity)
        | (rewrite !ne_none by lia; reflexivity)
        | (symmetry; apply ne_none; lia)
        | (apply ne_none; lia) ].

(* one case split at a time, pruning impossible branches at once *)
Ltac ne_split :=
  repeat (match goal with
          | |- context [if ?a <? ?b then _ else _] => destruct (Nat.ltb_spec a b)
          | |- context [if ?a =? ?b then _ else _] => destruct (Nat.eqb_spec a b)
          end; try lia).

Ltac list_ext :=
  apply nth_error_ext; let k := fresh "k" in intro k; ne_norm; ne_split; try ne_leaf.

Section Splice.
  Context {A : Type}.
  Implicit Types l : list A.

  (** memmove of [c] slots from [s] to [d] *)
  Definition lmove (d s c : nat) l : list A := firstn d l ++ firstn c (skipn s l) ++ skipn (d + c) l.
  (** replace slot [i] *)
  Definition lupd l (i : nat) (x : A) : list A := firstn i l ++ x :: skipn (S i) l.

  Lemma lmove_length : forall d s c l, s + c <= length l -> d + c <= length l ->
      length (lmove d s c l) = length l.
  Proof. intros. unfold lmove. ne_norm. lia. Qed.

  Lemma ne_lmove : forall d s c l k, s + c <= length l -> d + c <= length l ->
      nth_error (lmove d s c l) k =
      if k <? d then nth_error l k else if k <? d + c then nth_error l (k - d + s) else nth_error l k.
  Proof. intros. unfold lmove. ne_norm. ne_split; ne_leaf. Qed.

  Lemma lupd_length : forall l i x, i < length l -> length (lupd l i x) = length l.
  Proof. intros. unfold lupd. ne_norm. lia. Qed.

  Lemma ne_lupd : forall l i x k, i < length l ->
      nth_error (lupd l i x) k = if k =? i then Some x else nth_error l k.
  Proof. intros. unfold lupd. ne_norm. ne_split; ne_leaf. Qed.

  (** overwrite the slots k .. k+|ws|-1 *)
  Definition lwrite (k : nat) (ws : list A) l : list A := firstn k l ++ ws ++ skipn (k + length ws) l.

  Lemma lwrite_length : forall k ws l, k + length ws <= length l -> length (lwrite k ws l) = length l.
  Proof. intros. unfold lwrite. ne_norm. lia. Qed.

  Lemma ne_lwrite : forall k ws l j, k + length ws <= length l ->
      nth_error (lwrite k ws l) j =
      if j <? k then nth_error l j
      else if j <? k + length ws then nth_error ws (j - k) else nth_error l j.
  Proof. intros. unfold lwrite. ne_norm. ne_split; ne_leaf. Qed.
End Splice.

Ltac splits := repeat match goal with |- _ /\ _ => split end.

(** ** machine words *)
Local Open Scope N_scope.

Lemma pow2_64 : 2 ^ 64 = 18446744073709551616.
Proof. reflexivity. Qed.
