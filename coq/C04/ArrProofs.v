(** * C04 — the array core of vec.c / buf.c refines the abstract sequence (part 1: primitives,
      insert, store, erase, resize, accessors) *)
From Coq Require Import ZArith NArith List Bool Lia Arith.
From LibaV Require Import C04.VecDefs C04.VecSpec C04.ListAux C04.SwapProofs.
Import ListNotations.
Local Open Scope N_scope.

Ltac Zify.zify_post_hook ::= Z.to_euclidean_division_equations.

(** ** machine words *)
Lemma W_val : W = 18446744073709551616. Proof. reflexivity. Qed.
Lemma HALF_val : HALF = 9223372036854775808. Proof. reflexivity. Qed.
Lemma HALF_lt_W : HALF < W. Proof. reflexivity. Qed.
Global Opaque W HALF.

Lemma wadd_eq : forall a b, a + b < W -> wadd a b = a + b.
Proof. intros. unfold wadd. apply N.mod_small. assumption. Qed.

Lemma wsub_eq : forall a b, b <= a -> a < W -> wsub a b = a - b.
Proof.
  intros a b Hb Ha. unfold wsub.
  replace (a + W - b) with ((a - b) + 1 * W) by lia.
  rewrite N.mod_add by (rewrite W_val; lia). apply N.mod_small. lia.
Qed.

Lemma wmul_eq : forall a b, a * b < W -> wmul a b = a * b.
Proof. intros. unfold wmul. apply N.mod_small. assumption. Qed.

Lemma mul_le_l : forall s a b, a <= b -> s * a <= s * b.
Proof. intros. apply N.mul_le_mono_l. assumption. Qed.

(** ** list / number conversions *)
Lemma nlen_nat : forall {A} (l : list A), N.to_nat (nlen l) = length l.
Proof. intros. unfold nlen. lia. Qed.

Lemma nlen_lt : forall {A} (l : list A) k, k < nlen l -> (N.to_nat k < length l)%nat.
Proof. intros. unfold nlen in *. lia. Qed.

(** ** the byte-addressed primitives on aligned offsets *)
Lemma slot_of_mul : forall siz k, 0 < siz -> slot_of siz (siz * k) = Ok k.
Proof.
  intros siz k H. unfold slot_of.
  destruct (N.eqb_spec siz 0) as [E|E]; [lia|].
  rewrite N.mul_comm, N.mod_mul by lia. cbn [N.eqb].
  rewrite N.div_mul by lia. reflexivity.
Qed.

Lemma sl_read_slot : forall siz sl k, 0 < siz -> k < nlen sl ->
    sl_read siz sl (siz * k) = Ok (nth (N.to_nat k) sl []).
Proof.
  intros. unfold sl_read. rewrite slot_of_mul by assumption. cbn [bind].
  destruct (N.ltb_spec k (nlen sl)); [reflexivity|lia].
Qed.

Lemma sl_write_slot : forall siz sl k v, 0 < siz -> k < nlen sl ->
    sl_write siz sl (siz * k) v = Ok (lupd sl (N.to_nat k) (fit siz v)).
Proof.
  intros. unfold sl_write. rewrite slot_of_mul by assumption. cbn [bind].
  destruct (N.ltb_spec k (nlen sl)); [reflexivity|lia].
Qed.

Lemma sl_move_slot : forall siz sl d s c, 0 < siz -> s + c <= nlen sl -> d + c <= nlen sl ->
    sl_move siz sl (siz * d) (siz * s) (siz * c)
    = Ok (lmove (N.to_nat d) (N.to_nat s) (N.to_nat c) sl).
Proof.
  intros. unfold sl_move. rewrite !slot_of_mul by assumption. cbn [bind].
  destruct (N.leb_spec (s + c) (nlen sl)); [|lia].
  destruct (N.leb_spec (d + c) (nlen sl)); [|lia].
  cbn [andb]. unfold lmove. rewrite N2Nat.inj_add. reflexivity.
Qed.

Lemma sl_copy_slot : forall siz sl d s c, 0 < siz -> s + c <= nlen sl -> d + c <= nlen sl ->
    (c = 0 \/ d + c <= s \/ s + c <= d) ->
    sl_copy siz sl (siz * d) (siz * s) (siz * c)
    = Ok (lmove (N.to_nat d) (N.to_nat s) (N.to_nat c) sl).
Proof.
  intros siz sl d s c H0 H1 H2 H3. unfold sl_copy. rewrite !slot_of_mul by assumption. cbn [bind].
  replace ((c =? 0) || (d + c <=? s) || (s + c <=? d)) with true.
  - apply sl_move_slot; assumption.
  - symmetry. rewrite !orb_true_iff, N.eqb_eq, !N.leb_le. tauto.
Qed.

(** ** invariant bookkeeping *)
Lemma fit_ok : forall siz v, elem_ok siz (fit siz v).
Proof.
  intros. unfold elem_ok, fit. rewrite firstn_length, app_length, repeat_length. lia.
Qed.

Lemma junk_ok : forall siz, elem_ok siz (junk_elem siz).
Proof. intros. unfold elem_ok, junk_elem. apply repeat_length. Qed.

Lemma Forall_lmove : forall (P : elem -> Prop) d s c l, Forall P l -> Forall P (lmove d s c l).
Proof.
  intros. unfold lmove. rewrite !Forall_app. repeat split;
    auto using Forall_firstn, Forall_skipn.
Qed.

Lemma Forall_lupd : forall (P : elem -> Prop) l i x, Forall P l -> P x -> Forall P (lupd l i x).
Proof.
  intros. unfold lupd. rewrite Forall_app. split; [auto using Forall_firstn|].
  constructor; auto using Forall_skipn.
Qed.

Lemma fit_idem : forall siz v, fit siz (fit siz v) = fit siz v.
Proof.
  intros. unfold fit at 1. pose proof (fit_ok siz v) as H. unfold elem_ok in H.
  rewrite firstn_app. rewrite <- H at 1. rewrite firstn_all.
  replace (N.to_nat siz - length (fit siz v))%nat with 0%nat by lia.
  cbn. apply app_nil_r.
Qed.

(* bounds every offset computation needs *)
Lemma off_lt : forall a k, arr_inv a -> k <= a_mem a -> a_siz a * k < HALF.
Proof.
  intros a k I Hk. pose proof (inv_bytes a I). pose proof (mul_le_l (a_siz a) k (a_mem a) Hk). lia.
Qed.

Lemma mem_lt_half : forall a, arr_inv a -> a_mem a < HALF.
Proof.
  intros a I. pose proof (inv_bytes a I). pose proof (inv_siz a I).
  assert (1 * a_mem a <= a_siz a * a_mem a) by (apply N.mul_le_mono_r; lia). lia.
Qed.

Lemma abs_length : forall a, arr_inv a -> nlen (abs a) = a_num a.
Proof.
  intros a I. unfold abs, nlen. rewrite firstn_length.
  pose proof (inv_num a I). pose proof (inv_len a I). unfold nlen in *. lia.
Qed.

Lemma abs_length_nat : forall a, arr_inv a -> length (abs a) = N.to_nat (a_num a).
Proof. intros a I. pose proof (abs_length a I). unfold nlen in *. lia. Qed.

Lemma sl_length_nat : forall a, arr_inv a -> length (a_sl a) = N.to_nat (a_mem a).
Proof. intros a I. pose proof (inv_len a I). unfold nlen in *. lia. Qed.

(** ** put: the harness write through a returned pointer *)
Lemma put_slot : forall a k v, arr_inv a -> k < a_mem a ->
    put a (a_siz a * k) v
    = Ok (mkArr (a_siz a) (a_num a) (a_mem a) (lupd (a_sl a) (N.to_nat k) (fit (a_siz a) v))).
Proof.
  intros a k v I Hk. unfold put. rewrite sl_write_slot.
  - reflexivity.
  - apply (inv_siz a I).
  - rewrite (inv_len a I). assumption.
Qed.

Lemma arr_inv_upd : forall a k x, arr_inv a -> (k < length (a_sl a))%nat -> elem_ok (a_siz a) x ->
    arr_inv (mkArr (a_siz a) (a_num a) (a_mem a) (lupd (a_sl a) k x)).
Proof.
  intros a k x I Hk Hx. destruct I. constructor; cbn; auto.
  - unfold nlen in *. rewrite lupd_length by assumption. assumption.
  - apply Forall_lupd; assumption.
Qed.

(** ** a_vec_insert / a_buf_insert followed by the caller's write *)
Lemma arr_insert_put : forall a idx v, arr_inv a -> a_num a < a_mem a ->
    exists a3 off,
      (a2 <- arr_insert a idx ;; a3 <- put (fst a2) (snd a2) v ;; Ok (a3, snd a2)) = Ok (a3, off)
      /\ arr_inv a3 /\ a_siz a3 = a_siz a /\ a_mem a3 = a_mem a /\ a_num a3 = a_num a + 1
      /\ abs a3 = sp_insert (abs a) idx (fit (a_siz a) v)
      /\ slot_ptr (a_siz a) (a_mem a) (N.min idx (a_num a)) off
      /\ content_at a3 off (a_num a3) = Some (fit (a_siz a) v).
Proof.
  intros a idx v I Hroom.
  pose proof (inv_siz a I) as Hs. pose proof (inv_num a I) as Hn. pose proof (inv_len a I) as Hl.
  pose proof (off_lt a (a_mem a) I (N.le_refl _)) as Hb. pose proof HALF_lt_W as HW.
  pose proof (inv_elem a I) as He. pose proof (mem_lt_half a I) as Hm.
  unfold arr_insert.
  destruct (N.ltb_spec idx (a_num a)) as [Hi|Hi].
  - (* in the middle: memmove the tail up by one slot *)
    assert (E1 : wmul (a_siz a) idx = a_siz a * idx)
      by (apply wmul_eq; pose proof (mul_le_l (a_siz a) idx (a_mem a)); lia).
    assert (E2 : wadd (a_siz a * idx) (a_siz a) = a_siz a * (idx + 1)).
    { rewrite wadd_eq; [lia|]. pose proof (mul_le_l (a_siz a) (idx + 1) (a_mem a)). lia. }
    assert (E3 : wmul (wsub (a_num a) idx) (a_siz a) = a_siz a * (a_num a - idx)).
    { rewrite wsub_eq by lia. rewrite wmul_eq; [lia|].
      pose proof (mul_le_l (a_siz a) (a_num a - idx) (a_mem a)). lia. }
    rewrite E1, E2, E3. rewrite sl_move_slot by lia. cbn [bind fst snd].
    unfold put. cbn [a_siz a_sl a_num a_mem].
    rewrite sl_write_slot; [|lia|].
    2:{ unfold nlen. rewrite lmove_length; unfold nlen in *; lia. }
    cbn [bind]. eexists. eexists. split; [reflexivity|].
    assert (Hlen : length (a_sl a) = N.to_nat (a_mem a)) by (unfold nlen in *; lia).
    assert (Hlm : length (lmove (N.to_nat (idx + 1)) (N.to_nat idx) (N.to_nat (a_num a - idx)) (a_sl a))
                  = length (a_sl a)) by (apply lmove_length; lia).
    unfold slot_ptr; splits; cbn [a_siz a_mem a_num a_sl].
    + constructor; cbn [a_siz a_mem a_num a_sl]; auto.
      * rewrite wadd_eq by lia. lia.
      * unfold nlen in *. rewrite lupd_length by lia. rewrite Hlm. assumption.
      * apply Forall_lupd; [apply Forall_lmove; assumption|apply fit_ok].
    + reflexivity.
    + reflexivity.
    + apply wadd_eq. lia.
    + unfold abs, sp_insert, clampn. cbn [a_num a_sl].
      rewrite wadd_eq by lia. fold (abs a). rewrite (abs_length a I).
      unfold abs. apply nth_error_ext; intro k. ne_norm.
      rewrite ?ne_lupd, ?ne_lmove by lia. ne_norm. ne_split; ne_leaf.
    + f_equal. lia.
    + lia.
    + unfold content_at. cbn [a_siz a_sl a_num].
      rewrite slot_of_mul by assumption. rewrite wadd_eq by lia.
      destruct (N.ltb_spec idx (a_num a + 1)); [|lia].
      rewrite sl_read_slot; [|assumption|unfold nlen; rewrite lupd_length by lia; lia].
      f_equal. apply nth_error_nth with (d := []) . rewrite ne_lupd by lia.
      rewrite Nat.eqb_refl. reflexivity.
  - (* at or beyond the end: a_vec_inc_ *)
    unfold arr_inc. cbn [bind fst snd].
    assert (E1 : wmul (a_siz a) (a_num a) = a_siz a * a_num a)
      by (apply wmul_eq; pose proof (mul_le_l (a_siz a) (a_num a) (a_mem a)); lia).
    rewrite E1. unfold put. cbn [a_siz a_sl a_num a_mem].
    rewrite sl_write_slot by lia. cbn [bind]. eexists. eexists. split; [reflexivity|].
    assert (Hlen : length (a_sl a) = N.to_nat (a_mem a)) by (unfold nlen in *; lia).
    unfold slot_ptr; splits; cbn [a_siz a_mem a_num a_sl].
    + constructor; cbn [a_siz a_mem a_num a_sl]; auto.
      * rewrite wadd_eq by lia. lia.
      * unfold nlen in *. rewrite lupd_length by lia. assumption.
      * apply Forall_lupd; [assumption|apply fit_ok].
    + reflexivity.
    + reflexivity.
    + apply wadd_eq. lia.
    + unfold abs, sp_insert, clampn. cbn [a_num a_sl].
      rewrite wadd_eq by lia. fold (abs a). rewrite (abs_length a I).
      unfold abs. apply nth_error_ext; intro k. ne_norm.
      rewrite ?ne_lupd by lia. ne_norm. ne_split; ne_leaf.
    + f_equal. lia.
    + lia.
    + unfold content_at. cbn [a_siz a_sl a_num].
      rewrite slot_of_mul by assumption. rewrite wadd_eq by lia.
      destruct (N.ltb_spec (a_num a) (a_num a + 1)); [|lia].
      rewrite sl_read_slot; [|assumption|unfold nlen; rewrite lupd_length by lia; lia].
      f_equal. apply nth_error_nth with (d := []). rewrite ne_lupd by lia.
      rewrite Nat.eqb_refl. reflexivity.
Qed.

(** ** a_swap on slots *)
Lemma nlen_concat : forall siz sl, Forall (elem_ok siz) sl -> nlen (concat sl) = siz * nlen sl.
Proof.
  intros siz sl H. unfold nlen. rewrite (concat_length_ok (N.to_nat siz)) by exact H. lia.
Qed.

Lemma sl_swap_rot : forall siz sl p m, 0 < siz -> Forall (elem_ok siz) sl -> p + m < nlen sl ->
    sl_swap siz sl (siz * p) (siz * (p + 1)) (siz * m)
    = Ok (lrot (N.to_nat p) (N.to_nat m) sl).
Proof.
  intros siz sl p m Hs H Hp. unfold sl_swap. rewrite (nlen_concat siz sl H).
  destruct (N.leb_spec (siz * p + siz * m) (siz * nlen sl)) as [_|C];
    [|pose proof (mul_le_l siz (p + m) (nlen sl)); lia].
  destruct (N.leb_spec (siz * (p + 1) + siz * m) (siz * nlen sl)) as [_|C];
    [|pose proof (mul_le_l siz (p + 1 + m) (nlen sl)); lia].
  cbn [andb]. f_equal.
  rewrite !N2Nat.inj_mul. replace (N.to_nat (p + 1)) with (N.to_nat p + 1)%nat by lia.
  rewrite (swap_loop_rot (N.to_nat siz)); [|exact H|unfold nlen in Hp; lia].
  rewrite <- (lrot_length (N.to_nat p) (N.to_nat m) sl) by (unfold nlen in Hp; lia).
  apply chunk_concat. apply (Forall_lrot (fun e => length e = N.to_nat siz));
    [unfold nlen in Hp; lia|exact H].
Qed.

Lemma sl_swap_adj : forall siz sl j, 0 < siz -> Forall (elem_ok siz) sl -> j + 1 < nlen sl ->
    sl_swap siz sl (siz * j) (siz * (j + 1)) siz = Ok (lswap (N.to_nat j) sl).
Proof.
  intros siz sl j Hs H Hj. unfold sl_swap. rewrite (nlen_concat siz sl H).
  destruct (N.leb_spec (siz * j + siz) (siz * nlen sl)) as [_|C];
    [|pose proof (mul_le_l siz (j + 1) (nlen sl)); lia].
  destruct (N.leb_spec (siz * (j + 1) + siz) (siz * nlen sl)) as [_|C];
    [|pose proof (mul_le_l siz (j + 1 + 1) (nlen sl)); lia].
  cbn [andb]. f_equal.
  rewrite !N2Nat.inj_mul. replace (N.to_nat (j + 1)) with (N.to_nat j + 1)%nat by lia.
  rewrite (swap_loop_adjacent (N.to_nat siz)); [|exact H|unfold nlen in Hj; lia].
  rewrite <- (lswap_length (N.to_nat j) sl) by (unfold nlen in Hj; lia).
  apply chunk_concat. apply (Forall_lswap (fun e => length e = N.to_nat siz));
    [unfold nlen in Hj; lia|exact H].
Qed.

Lemma sl_swap_adj' : forall siz sl j, 0 < siz -> Forall (elem_ok siz) sl -> j + 1 < nlen sl ->
    sl_swap siz sl (siz * (j + 1)) (siz * j) siz = Ok (lswap (N.to_nat j) sl).
Proof.
  intros siz sl j Hs H Hj. rewrite <- (sl_swap_adj siz sl j Hs H Hj).
  unfold sl_swap. rewrite (nlen_concat siz sl H).
  destruct (N.leb_spec (siz * j + siz) (siz * nlen sl)) as [_|C];
    [|pose proof (mul_le_l siz (j + 1) (nlen sl)); lia].
  destruct (N.leb_spec (siz * (j + 1) + siz) (siz * nlen sl)) as [_|C];
    [|pose proof (mul_le_l siz (j + 1 + 1) (nlen sl)); lia].
  cbn [andb]. f_equal. f_equal.
  pose proof (concat_length_ok (N.to_nat siz) sl H) as Hc.
  assert (N.to_nat (siz * (j + 1)) + N.to_nat siz <= length (concat sl))%nat.
  { rewrite Hc. unfold nlen in Hj. nia. }
  apply swap_loop_sym; lia.
Qed.

Lemma nth_eq_of_ne : forall {A} (l1 l2 : list A) i j d,
    (i < length l1)%nat -> nth_error l1 i = nth_error l2 j -> nth i l1 d = nth j l2 d.
Proof.
  intros A l1 l2 i j d Hi E. rewrite (ne_nth l1 i d Hi) in E.
  symmetry. apply nth_error_nth. symmetry. exact E.
Qed.

Lemma content_at_slot : forall a p lim, arr_inv a -> p < lim -> p < a_mem a ->
    content_at a (a_siz a * p) lim = Some (nth (N.to_nat p) (a_sl a) []).
Proof.
  intros a p lim I Hl Hm. unfold content_at. rewrite slot_of_mul by (apply (inv_siz a I)).
  destruct (N.ltb_spec p lim); [|lia].
  rewrite sl_read_slot; [reflexivity|apply (inv_siz a I)|rewrite (inv_len a I); assumption].
Qed.

(** ** a_vec_remove / a_buf_remove: both implementations *)
Lemma arr_remove_spec : forall a idx, arr_inv a ->
    exists a' o, arr_remove a idx = Ok (a', o) /\ arr_inv a'
      /\ a_siz a' = a_siz a /\ a_mem a' = a_mem a
      /\ ((a_num a = 0 /\ a' = a /\ o = None)
          \/ (0 < a_num a /\ a_num a' = a_num a - 1 /\ abs a' = sp_remove (abs a) idx
              /\ exists off p, o = Some off /\ slot_ptr (a_siz a) (a_mem a) p off /\ a_num a' <= p
                               /\ content_at a' off (a_mem a') = Some (sp_removed (abs a) idx))).
Proof.
  intros a idx I.
  pose proof (inv_siz a I) as Hs. pose proof (inv_num a I) as Hn. pose proof (inv_len a I) as Hl.
  pose proof (off_lt a (a_mem a) I (N.le_refl _)) as Hb. pose proof HALF_lt_W as HW.
  pose proof (inv_elem a I) as He. pose proof (mem_lt_half a I) as Hm.
  assert (Hlen : length (a_sl a) = N.to_nat (a_mem a)) by (unfold nlen in *; lia).
  assert (Hoff : forall k, k <= a_mem a -> a_siz a * k < W).
  { intros k Hk. pose proof (mul_le_l (a_siz a) k (a_mem a) Hk). lia. }
  unfold arr_remove.
  destruct (N.eqb_spec (a_num a) 0) as [Hz|Hz].
  { cbn [negb andb]. exists a, None. splits; auto. }
  cbn [negb andb]. rewrite wsub_eq by lia.
  destruct (N.ltb_spec idx (a_num a - 1)) as [Hi|Hi].
  - assert (E1 : wmul (a_siz a) idx = a_siz a * idx) by (apply wmul_eq, Hoff; lia).
    assert (E2 : wadd (a_siz a * idx) (a_siz a) = a_siz a * (idx + 1))
      by (rewrite wadd_eq; [lia|pose proof (Hoff (idx + 1)); lia]).
    rewrite E1, E2.
    destruct (N.ltb_spec (a_num a) (a_mem a)) as [Hf|Hf].
    + (* a spare slot exists: copy out, close the gap *)
      assert (E3 : wmul (a_siz a) (a_num a) = a_siz a * a_num a) by (apply wmul_eq, Hoff; lia).
      assert (E4 : wsub (a_siz a * a_num a) (a_siz a * (idx + 1)) = a_siz a * (a_num a - idx - 1)).
      { pose proof (mul_le_l (a_siz a) (idx + 1) (a_num a)). pose proof (Hoff (a_num a)).
        rewrite wsub_eq by lia. lia. }
      rewrite E3, E4.
      replace (sl_copy (a_siz a) (a_sl a) (a_siz a * a_num a) (a_siz a * idx) (a_siz a))
        with (sl_copy (a_siz a) (a_sl a) (a_siz a * a_num a) (a_siz a * idx) (a_siz a * 1))
        by (rewrite N.mul_1_r; reflexivity).
      rewrite sl_copy_slot by lia. cbn [bind].
      assert (L1 : length (lmove (N.to_nat (a_num a)) (N.to_nat idx) (N.to_nat 1) (a_sl a))
                   = length (a_sl a)) by (apply lmove_length; lia).
      rewrite sl_move_slot; [|lia|unfold nlen; rewrite L1; unfold nlen in Hl; lia
                              |unfold nlen; rewrite L1; unfold nlen in Hl; lia].
      cbn [bind]. eexists. eexists. split; [reflexivity|].
      assert (L2 : length (lmove (N.to_nat idx) (N.to_nat (idx + 1)) (N.to_nat (a_num a - idx - 1))
                                 (lmove (N.to_nat (a_num a)) (N.to_nat idx) (N.to_nat 1) (a_sl a)))
                   = length (a_sl a)) by (rewrite lmove_length; lia).
      splits; cbn [a_siz a_mem a_num a_sl]; auto.
      * constructor; cbn [a_siz a_mem a_num a_sl]; auto.
        -- lia.
        -- unfold nlen in *. rewrite L2. assumption.
        -- apply Forall_lmove, Forall_lmove. assumption.
      * right. splits; [lia|reflexivity| |].
        -- unfold abs, sp_remove, rm_pos. cbn [a_num a_sl]. fold (abs a). rewrite (abs_length a I).
           unfold abs. apply nth_error_ext; intro k. ne_norm.
           rewrite !ne_lmove by lia. ne_split; ne_leaf.
        -- exists (a_siz a * a_num a), (a_num a). unfold slot_ptr. splits; try lia; try reflexivity.
           set (a' := mkArr _ _ _ _).
           assert (I' : arr_inv a').
           { constructor; cbn [a' a_siz a_mem a_num a_sl]; auto.
             - lia.
             - unfold nlen in *. rewrite L2. assumption.
             - apply Forall_lmove, Forall_lmove. assumption. }
           change (a_siz a) with (a_siz a'). rewrite content_at_slot by (cbn; auto; lia).
           f_equal. cbn [a' a_sl]. unfold sp_removed, rm_pos. rewrite (abs_length a I). unfold abs.
           apply nth_eq_of_ne; [lia|]. ne_norm. rewrite !ne_lmove by lia. ne_split; ne_leaf.
    + (* exactly full: a_swap(p, q, ptr - p) rotates the element to the last slot *)
      assert (E3 : wmul (a_siz a) (a_num a - 1) = a_siz a * (a_num a - 1)) by (apply wmul_eq, Hoff; lia).
      assert (E4 : wsub (a_siz a * (a_num a - 1)) (a_siz a * idx) = a_siz a * (a_num a - 1 - idx)).
      { pose proof (mul_le_l (a_siz a) idx (a_num a - 1)). pose proof (Hoff (a_num a - 1)).
        rewrite wsub_eq by lia. lia. }
      rewrite E3, E4. rewrite sl_swap_rot by (auto; lia). cbn [bind].
      eexists. eexists. split; [reflexivity|].
      assert (L2 : length (lrot (N.to_nat idx) (N.to_nat (a_num a - 1 - idx)) (a_sl a)) = length (a_sl a))
        by (apply lrot_length; lia).
      assert (I' : arr_inv (mkArr (a_siz a) (a_num a - 1) (a_mem a)
                                  (lrot (N.to_nat idx) (N.to_nat (a_num a - 1 - idx)) (a_sl a)))).
      { constructor; cbn [a_siz a_mem a_num a_sl]; auto.
        - lia.
        - unfold nlen in *. rewrite L2. assumption.
        - apply Forall_lrot; [lia|assumption]. }
      splits; cbn [a_siz a_mem a_num a_sl]; auto.
      right. splits; [lia|reflexivity| |].
      * unfold abs, sp_remove, rm_pos. cbn [a_num a_sl]. fold (abs a). rewrite (abs_length a I).
        unfold abs. apply nth_error_ext; intro k. ne_norm.
        rewrite !ne_lrot by lia. ne_split; ne_leaf.
      * exists (a_siz a * (a_num a - 1)), (a_num a - 1). unfold slot_ptr. splits; try lia; try reflexivity.
        set (a' := mkArr _ _ _ _) in *.
        change (a_siz a) with (a_siz a'). rewrite content_at_slot by (cbn; auto; lia).
        f_equal. cbn [a' a_sl]. unfold sp_removed, rm_pos. rewrite (abs_length a I). unfold abs.
        apply nth_eq_of_ne; [lia|]. ne_norm. rewrite !ne_lrot by lia. ne_split; ne_leaf.
  - (* the last element (or an index beyond it): a_vec_dec_ *)
    unfold arr_dec. rewrite wsub_eq by lia.
    assert (E3 : wmul (a_siz a) (a_num a - 1) = a_siz a * (a_num a - 1)) by (apply wmul_eq, Hoff; lia).
    rewrite E3. eexists. eexists. split; [reflexivity|].
    assert (I' : arr_inv (mkArr (a_siz a) (a_num a - 1) (a_mem a) (a_sl a))).
    { constructor; cbn [a_siz a_mem a_num a_sl]; auto. lia. }
    splits; cbn [a_siz a_mem a_num a_sl]; auto.
    right. splits; [lia|reflexivity| |].
    + unfold abs, sp_remove, rm_pos. cbn [a_num a_sl]. fold (abs a). rewrite (abs_length a I).
      unfold abs. apply nth_error_ext; intro k. ne_norm. ne_split; ne_leaf.
    + exists (a_siz a * (a_num a - 1)), (a_num a - 1). unfold slot_ptr. splits; try lia; try reflexivity.
      set (a' := mkArr _ _ _ _) in *.
      change (a_siz a) with (a_siz a'). rewrite content_at_slot by (cbn; auto; lia).
      f_equal. cbn [a' a_sl]. unfold sp_removed, rm_pos. rewrite (abs_length a I). unfold abs.
      apply nth_eq_of_ne; [lia|]. ne_norm. ne_split; ne_leaf.
Qed.

(** ** pull_back *)
Lemma arr_pull_back_spec : forall a, arr_inv a ->
    exists a' o, arr_pull_back a = (a', o) /\ arr_inv a'
      /\ a_siz a' = a_siz a /\ a_mem a' = a_mem a
      /\ ((a_num a = 0 /\ a' = a /\ o = None)
          \/ (0 < a_num a /\ a_num a' = a_num a - 1 /\ abs a' = removelast (abs a)
              /\ exists off p, o = Some off /\ slot_ptr (a_siz a) (a_mem a) p off /\ a_num a' <= p
                               /\ content_at a' off (a_mem a') = Some (last (abs a) []))).
Proof.
  intros a I.
  pose proof (inv_siz a I) as Hs. pose proof (inv_num a I) as Hn. pose proof (inv_len a I) as Hl.
  pose proof (off_lt a (a_mem a) I (N.le_refl _)) as Hb. pose proof HALF_lt_W as HW.
  pose proof (inv_elem a I) as He. pose proof (mem_lt_half a I) as Hm.
  assert (Hlen : length (a_sl a) = N.to_nat (a_mem a)) by (unfold nlen in *; lia).
  unfold arr_pull_back.
  destruct (N.eqb_spec (a_num a) 0) as [Hz|Hz].
  { exists a, None. splits; auto. }
  unfold arr_dec. rewrite wsub_eq by lia.
  assert (E3 : wmul (a_siz a) (a_num a - 1) = a_siz a * (a_num a - 1)).
  { apply wmul_eq. pose proof (mul_le_l (a_siz a) (a_num a - 1) (a_mem a)). lia. }
  rewrite E3. eexists. eexists. split; [reflexivity|].
  assert (I' : arr_inv (mkArr (a_siz a) (a_num a - 1) (a_mem a) (a_sl a))).
  { constructor; cbn [a_siz a_mem a_num a_sl]; auto. lia. }
  splits; cbn [a_siz a_mem a_num a_sl]; auto.
  right. splits; [lia|reflexivity| |].
  - unfold abs. cbn [a_num a_sl].
    assert (E : firstn (N.to_nat (a_num a)) (a_sl a)
                = firstn (N.to_nat (a_num a - 1)) (a_sl a) ++ [nth (N.to_nat (a_num a - 1)) (a_sl a) []]).
    { apply nth_error_ext; intro k. ne_norm. rewrite <- (ne_nth (a_sl a) _ []) by lia.
      ne_split; ne_leaf. }
    rewrite E. rewrite removelast_last. reflexivity.
  - exists (a_siz a * (a_num a - 1)), (a_num a - 1). unfold slot_ptr. splits; try lia; try reflexivity.
    set (a' := mkArr _ _ _ _) in *.
    change (a_siz a) with (a_siz a'). rewrite content_at_slot by (cbn; auto; lia).
    f_equal. cbn [a' a_sl]. unfold abs.
    assert (E : firstn (N.to_nat (a_num a)) (a_sl a)
                = firstn (N.to_nat (a_num a - 1)) (a_sl a) ++ [nth (N.to_nat (a_num a - 1)) (a_sl a) []]).
    { apply nth_error_ext; intro k. ne_norm. rewrite <- (ne_nth (a_sl a) _ []) by lia.
      ne_split; ne_leaf. }
    rewrite E. rewrite last_last. reflexivity.
Qed.

(** ** bulk reads and writes *)
Lemma sl_write_many_slot : forall siz vs sl k, 0 < siz -> k + nlen vs <= nlen sl -> siz * nlen sl < W ->
    sl_write_many siz sl (siz * k) vs = Ok (lwrite (N.to_nat k) (map (fit siz) vs) sl).
Proof.
  intros siz vs. induction vs as [|v vs IH]; intros sl k Hs Hk Hb.
  - cbn. f_equal. unfold lwrite. cbn [length app]. rewrite Nat.add_0_r. symmetry. apply firstn_skipn.
  - cbn [sl_write_many]. unfold nlen in Hk. cbn [length] in Hk.
    rewrite sl_write_slot by (unfold nlen; lia). cbn [bind].
    assert (E : wadd (siz * k) siz = siz * (k + 1)).
    { rewrite wadd_eq; [lia|]. pose proof (mul_le_l siz (k + 1) (nlen sl)). unfold nlen in *. lia. }
    rewrite E.
    assert (L1 : length (lupd sl (N.to_nat k) (fit siz v)) = length sl) by (apply lupd_length; lia).
    rewrite IH; [|assumption|unfold nlen; rewrite L1; lia|unfold nlen in *; rewrite L1; assumption].
    f_equal. apply nth_error_ext; intro j. cbn [map].
    rewrite !ne_lwrite by (rewrite ?L1; cbn [length]; rewrite ?map_length; lia).
    rewrite ne_lupd by lia. cbn [length]. rewrite !map_length. ne_norm. ne_split; ne_leaf.
Qed.

Lemma sl_read_many_slot : forall siz c sl k, 0 < siz -> k + N.of_nat c <= nlen sl -> siz * nlen sl < W ->
    sl_read_many siz sl (siz * k) c = Ok (firstn c (skipn (N.to_nat k) sl)).
Proof.
  intros siz c. induction c as [|c IH]; intros sl k Hs Hk Hb; [reflexivity|].
  cbn [sl_read_many]. rewrite sl_read_slot by lia. cbn [bind].
  assert (E : wadd (siz * k) siz = siz * (k + 1)).
  { rewrite wadd_eq; [lia|]. pose proof (mul_le_l siz (k + 1) (nlen sl)). lia. }
  rewrite E, IH by lia. cbn [bind]. f_equal.
  apply nth_error_ext; intro j. ne_norm. unfold nlen in Hk.
  rewrite <- (ne_nth sl _ []) by lia. ne_split; ne_leaf.
Qed.

Lemma fill_from_slot : forall c a p v, 0 < a_siz a -> p + N.of_nat c <= nlen (a_sl a) ->
    a_siz a * nlen (a_sl a) < W ->
    fill_from a (a_siz a * p) c v
    = Ok (mkArr (a_siz a) (a_num a) (a_mem a) (lwrite (N.to_nat p) (repeat (fit (a_siz a) v) c) (a_sl a))).
Proof.
  induction c as [|c IH]; intros a p v Hs Hp Hb.
  - cbn. destruct a as [z n m sl]. cbn. f_equal. f_equal. unfold lwrite. cbn [length app].
    rewrite Nat.add_0_r. symmetry. apply firstn_skipn.
  - cbn [fill_from]. unfold put. rewrite sl_write_slot by lia. cbn [bind a_siz].
    assert (E : wadd (a_siz a * p) (a_siz a) = a_siz a * (p + 1)).
    { rewrite wadd_eq; [lia|]. pose proof (mul_le_l (a_siz a) (p + 1) (nlen (a_sl a))). lia. }
    rewrite E. unfold nlen in Hp.
    assert (L1 : length (lupd (a_sl a) (N.to_nat p) (fit (a_siz a) v)) = length (a_sl a))
      by (apply lupd_length; lia).
    set (a1 := mkArr _ _ _ _).
    change (a_siz a) with (a_siz a1) at 1.
    rewrite IH; cbn [a1 a_siz a_sl a_num a_mem];
      [|assumption|unfold nlen; rewrite L1; lia|unfold nlen in *; rewrite L1; assumption].
    f_equal. f_equal. apply nth_error_ext; intro j.
    rewrite !ne_lwrite by (rewrite ?L1, ?repeat_length; cbn [length]; rewrite ?repeat_length; lia).
    rewrite ne_lupd by lia. cbn [repeat length]. rewrite !repeat_length. ne_norm. ne_split; ne_leaf.
Qed.

(** ** a_vec_store / a_buf_store once the capacity is there *)
Lemma arr_store_spec : forall a idx vs, arr_inv a -> a_num a + nlen vs <= a_mem a ->
    exists a', arr_store a idx vs = Ok a' /\ arr_inv a'
      /\ a_siz a' = a_siz a /\ a_mem a' = a_mem a
      /\ abs a' = sp_store (abs a) idx (map (fit (a_siz a)) vs).
Proof.
  intros a idx vs I Hroom.
  pose proof (inv_siz a I) as Hs. pose proof (inv_num a I) as Hn. pose proof (inv_len a I) as Hl.
  pose proof (off_lt a (a_mem a) I (N.le_refl _)) as Hb. pose proof HALF_lt_W as HW.
  pose proof (inv_elem a I) as He. pose proof (mem_lt_half a I) as Hm.
  assert (Hlen : length (a_sl a) = N.to_nat (a_mem a)) by (unfold nlen in *; lia).
  assert (Hoff : forall k, k <= a_mem a -> a_siz a * k < W).
  { intros k Hk. pose proof (mul_le_l (a_siz a) k (a_mem a) Hk). lia. }
  unfold arr_store.
  destruct (N.eqb_spec (nlen vs) 0) as [Hz|Hz].
  { exists a. splits; auto. unfold sp_store. destruct vs; [|unfold nlen in Hz; cbn in Hz; lia].
    cbn [map app]. symmetry. apply firstn_skipn. }
  assert (E1 : wmul (a_siz a) (a_num a) = a_siz a * a_num a) by (apply wmul_eq, Hoff; lia).
  assert (E2 : wmul (a_siz a) (nlen vs) = a_siz a * nlen vs) by (apply wmul_eq, Hoff; lia).
  rewrite E1, E2.
  assert (Hvs : length vs = N.to_nat (nlen vs)) by (unfold nlen; lia).
  destruct (N.ltb_spec idx (a_num a)) as [Hi|Hi].
  - assert (E3 : wmul (a_siz a) idx = a_siz a * idx) by (apply wmul_eq, Hoff; lia).
    assert (E4 : wadd (a_siz a * idx) (a_siz a * nlen vs) = a_siz a * (idx + nlen vs))
      by (rewrite wadd_eq; [lia|pose proof (Hoff (idx + nlen vs)); lia]).
    assert (E5 : wsub (a_siz a * a_num a) (a_siz a * idx) = a_siz a * (a_num a - idx)).
    { pose proof (mul_le_l (a_siz a) idx (a_num a)). pose proof (Hoff (a_num a)).
      rewrite wsub_eq by lia. lia. }
    rewrite E3, E4, E5. rewrite sl_move_slot by lia. cbn [bind fst snd].
    assert (L1 : length (lmove (N.to_nat (idx + nlen vs)) (N.to_nat idx) (N.to_nat (a_num a - idx)) (a_sl a))
                 = length (a_sl a)) by (apply lmove_length; lia).
    assert (NL1 : nlen (lmove (N.to_nat (idx + nlen vs)) (N.to_nat idx) (N.to_nat (a_num a - idx)) (a_sl a))
                  = a_mem a) by (unfold nlen at 1; rewrite L1; exact Hl).
    rewrite sl_write_many_slot; [|assumption|rewrite NL1; lia|rewrite NL1; apply Hoff; lia].
    cbn [bind]. eexists. split; [reflexivity|].
    assert (L2 : length (lwrite (N.to_nat idx) (map (fit (a_siz a)) vs)
                   (lmove (N.to_nat (idx + nlen vs)) (N.to_nat idx) (N.to_nat (a_num a - idx)) (a_sl a)))
                 = length (a_sl a)) by (rewrite lwrite_length; rewrite ?map_length; lia).
    splits; cbn [a_siz a_mem a_num a_sl]; auto.
    + constructor; cbn [a_siz a_mem a_num a_sl]; auto.
      * rewrite wadd_eq by lia. lia.
      * unfold nlen in *. rewrite L2. assumption.
      * unfold lwrite. rewrite !Forall_app. splits.
        -- apply Forall_firstn, Forall_lmove. assumption.
        -- rewrite Forall_map. rewrite Forall_forall. intros; apply fit_ok.
        -- apply Forall_skipn, Forall_lmove. assumption.
    + unfold abs, sp_store, clampn. cbn [a_num a_sl]. rewrite wadd_eq by lia.
      fold (abs a). rewrite (abs_length a I). unfold abs.
      apply nth_error_ext; intro k. ne_norm.
      rewrite !ne_lwrite by (rewrite ?map_length; lia). rewrite !ne_lmove by lia.
      rewrite ?map_length. ne_split; ne_leaf.
  - cbn [bind fst snd].
    rewrite sl_write_many_slot; [|assumption|lia|rewrite Hl; apply Hoff; lia].
    cbn [bind]. eexists. split; [reflexivity|].
    assert (L2 : length (lwrite (N.to_nat (a_num a)) (map (fit (a_siz a)) vs) (a_sl a))
                 = length (a_sl a)) by (rewrite lwrite_length; rewrite ?map_length; lia).
    splits; cbn [a_siz a_mem a_num a_sl]; auto.
    + constructor; cbn [a_siz a_mem a_num a_sl]; auto.
      * rewrite wadd_eq by lia. lia.
      * unfold nlen in *. rewrite L2. assumption.
      * unfold lwrite. rewrite !Forall_app. splits.
        -- apply Forall_firstn. assumption.
        -- rewrite Forall_map. rewrite Forall_forall. intros; apply fit_ok.
        -- apply Forall_skipn. assumption.
    + unfold abs, sp_store, clampn. cbn [a_num a_sl]. rewrite wadd_eq by lia.
      fold (abs a). rewrite (abs_length a I). unfold abs.
      apply nth_error_ext; intro k. ne_norm.
      rewrite !ne_lwrite by (rewrite ?map_length; lia).
      rewrite ?map_length. ne_split; ne_leaf.
Qed.

(** ** a_vec_erase / a_buf_erase (with FIX C04-2) *)
Lemma arr_erase_spec : forall a idx cnt dt, arr_inv a ->
    exists a' rc d, arr_erase a idx cnt dt = Ok (a', rc, d) /\ arr_inv a'
      /\ a_siz a' = a_siz a /\ a_mem a' = a_mem a
      /\ ((idx < a_num a /\ rc = A_SUCCESS /\ abs a' = sp_erase (abs a) idx cnt
           /\ d = if dt then sp_erased (abs a) idx cnt else [])
          \/ (a_num a <= idx /\ rc = A_OBOUNDS /\ a' = a /\ d = [])).
Proof.
  intros a idx cnt dt I.
  pose proof (inv_siz a I) as Hs. pose proof (inv_num a I) as Hn. pose proof (inv_len a I) as Hl.
  pose proof (off_lt a (a_mem a) I (N.le_refl _)) as Hb. pose proof HALF_lt_W as HW.
  pose proof (inv_elem a I) as He. pose proof (mem_lt_half a I) as Hm.
  assert (Hlen : length (a_sl a) = N.to_nat (a_mem a)) by (unfold nlen in *; lia).
  assert (Hoff : forall k, k <= a_mem a -> a_siz a * k < W).
  { intros k Hk. pose proof (mul_le_l (a_siz a) k (a_mem a) Hk). lia. }
  unfold arr_erase.
  destruct (N.ltb_spec idx (a_num a)) as [Hi|Hi]; cbn [andb].
  - rewrite wsub_eq by lia.
    assert (E1 : wmul (a_siz a) idx = a_siz a * idx) by (apply wmul_eq, Hoff; lia).
    rewrite E1. rewrite andb_true_r.
    destruct (N.ltb_spec cnt (a_num a - idx)) as [Hc|Hc].
    + (* a proper middle range *)
      rewrite wadd_eq by lia.
      destruct (N.leb_spec (idx + cnt) (a_num a)) as [_|C]; [|lia].
      replace (idx + cnt - idx) with cnt by lia.
      destruct (N.leb_spec cnt (nlen (a_sl a))) as [_|C]; [|lia].
      assert (D : (if dt then sl_read_many (a_siz a) (a_sl a) (a_siz a * idx) (N.to_nat cnt) else Ok [])
                  = Ok (if dt then sp_erased (abs a) idx cnt else [])).
      { destruct dt; [|reflexivity]. rewrite sl_read_many_slot by (try rewrite Hl; auto; lia).
        f_equal. unfold sp_erased, er_end. rewrite (abs_length a I). unfold abs.
        apply nth_error_ext; intro k. ne_norm. ne_split; ne_leaf. }
      rewrite D. cbn [bind].
      destruct (N.ltb_spec (idx + cnt) (a_num a)) as [_|C]; [|lia].
      assert (E2 : wmul (a_siz a) cnt = a_siz a * cnt) by (apply wmul_eq, Hoff; lia).
      assert (E3 : wadd (a_siz a * idx) (a_siz a * cnt) = a_siz a * (idx + cnt))
        by (rewrite wadd_eq; [lia|pose proof (Hoff (idx + cnt)); lia]).
      assert (E4 : wmul (wsub (a_num a) (idx + cnt)) (a_siz a) = a_siz a * (a_num a - (idx + cnt))).
      { rewrite wsub_eq by lia. rewrite wmul_eq; [lia|]. rewrite N.mul_comm. apply Hoff. lia. }
      rewrite E2, E3, E4. rewrite sl_move_slot by lia. cbn [bind].
      rewrite wsub_eq by lia.
      eexists. eexists. eexists. split; [reflexivity|].
      assert (L1 : length (lmove (N.to_nat idx) (N.to_nat (idx + cnt)) (N.to_nat (a_num a - (idx + cnt))) (a_sl a))
                   = length (a_sl a)) by (apply lmove_length; lia).
      splits; cbn [a_siz a_mem a_num a_sl]; auto.
      * constructor; cbn [a_siz a_mem a_num a_sl]; auto.
        -- lia.
        -- unfold nlen in *. rewrite L1. assumption.
        -- apply Forall_lmove. assumption.
      * left. splits; auto.
        unfold abs, sp_erase, er_end. cbn [a_num a_sl]. fold (abs a). rewrite (abs_length a I). unfold abs.
        apply nth_error_ext; intro k. ne_norm. rewrite !ne_lmove by lia. ne_split; ne_leaf.
    + (* everything from idx on *)
      destruct (N.leb_spec (a_num a) (a_num a)) as [_|C]; [|lia].
      destruct (N.leb_spec (a_num a - idx) (nlen (a_sl a))) as [_|C]; [|lia].
      assert (D : (if dt then sl_read_many (a_siz a) (a_sl a) (a_siz a * idx) (N.to_nat (a_num a - idx)) else Ok [])
                  = Ok (if dt then sp_erased (abs a) idx cnt else [])).
      { destruct dt; [|reflexivity]. rewrite sl_read_many_slot by (try rewrite Hl; auto; lia).
        f_equal. unfold sp_erased, er_end. rewrite (abs_length a I). unfold abs.
        apply nth_error_ext; intro k. ne_norm. ne_split; ne_leaf. }
      rewrite D. cbn [bind].
      destruct (N.ltb_spec (a_num a) (a_num a)) as [C|_]; [lia|].
      eexists. eexists. eexists. split; [reflexivity|].
      splits; cbn [a_siz a_mem a_num a_sl]; auto.
      * constructor; cbn [a_siz a_mem a_num a_sl]; auto. lia.
      * left. splits; auto.
        unfold abs, sp_erase, er_end. cbn [a_num a_sl]. fold (abs a). rewrite (abs_length a I). unfold abs.
        apply nth_error_ext; intro k. ne_norm. ne_split; ne_leaf.
  - rewrite andb_false_r. cbn [bind].
    destruct (N.ltb_spec (a_num a) (a_num a)) as [C|_]; [lia|].
    exists a, A_OBOUNDS, []. splits; auto.
Qed.

(** ** the destructor loop of setn / setz / die *)
Lemma arr_dtor_down_spec : forall a n dt, arr_inv a ->
    arr_dtor_down a n dt = Ok (if dt then rev (skipn (N.to_nat n) (abs a)) else []).
Proof.
  intros a n dt I.
  pose proof (inv_siz a I) as Hs. pose proof (inv_num a I) as Hn. pose proof (inv_len a I) as Hl.
  pose proof (off_lt a (a_mem a) I (N.le_refl _)) as Hb. pose proof HALF_lt_W as HW.
  unfold arr_dtor_down. destruct dt; [|reflexivity]. cbn [andb].
  destruct (N.ltb_spec n (a_num a)) as [Hi|Hi].
  - destruct (N.leb_spec (a_num a - n) (nlen (a_sl a))) as [_|C]; [|lia].
    rewrite wmul_eq by (pose proof (mul_le_l (a_siz a) n (a_mem a)); lia).
    rewrite sl_read_many_slot by (try rewrite Hl; auto; lia). cbn [bind]. f_equal. f_equal.
    unfold abs. unfold nlen in Hl. apply nth_error_ext; intro k. ne_norm. ne_split; ne_leaf.
  - f_equal. rewrite skipn_all2; [reflexivity|]. rewrite (abs_length_nat a I). lia.
Qed.

(** ** resizing the count (after the capacity step) and the harness fill *)
Lemma arr_setn_fill : forall a n fill, arr_inv a -> n <= a_mem a ->
    exists a3,
      (if a_num a <? n
       then (if n - a_num a <=? nlen (a_sl a)
             then fill_from (mkArr (a_siz a) n (a_mem a) (a_sl a)) (wmul (a_siz a) (a_num a))
                            (N.to_nat (n - a_num a)) fill
             else Err OutOfBounds)
       else Ok (mkArr (a_siz a) n (a_mem a) (a_sl a))) = Ok a3
      /\ arr_inv a3 /\ a_siz a3 = a_siz a /\ a_mem a3 = a_mem a
      /\ abs a3 = sp_setn (abs a) n (fit (a_siz a) fill).
Proof.
  intros a n fill I Hn'.
  pose proof (inv_siz a I) as Hs. pose proof (inv_num a I) as Hn. pose proof (inv_len a I) as Hl.
  pose proof (off_lt a (a_mem a) I (N.le_refl _)) as Hb. pose proof HALF_lt_W as HW.
  pose proof (inv_elem a I) as He.
  assert (Hlen : length (a_sl a) = N.to_nat (a_mem a)) by (unfold nlen in *; lia).
  destruct (N.ltb_spec (a_num a) n) as [Hg|Hg].
  - destruct (N.leb_spec (n - a_num a) (nlen (a_sl a))) as [_|C]; [|lia].
    rewrite wmul_eq by (pose proof (mul_le_l (a_siz a) (a_num a) (a_mem a)); lia).
    set (a2 := mkArr _ _ _ _). change (a_siz a) with (a_siz a2) at 1.
    rewrite fill_from_slot; cbn [a2 a_siz a_sl a_num a_mem]; [|assumption|lia|rewrite Hl; lia].
    eexists. split; [reflexivity|].
    assert (L2 : length (lwrite (N.to_nat (a_num a)) (repeat (fit (a_siz a) fill) (N.to_nat (n - a_num a))) (a_sl a))
                 = length (a_sl a)) by (rewrite lwrite_length; rewrite ?repeat_length; lia).
    splits; cbn [a_siz a_mem a_num a_sl]; auto.
    + constructor; cbn [a_siz a_mem a_num a_sl]; auto.
      * unfold nlen in *. rewrite L2. assumption.
      * unfold lwrite. rewrite !Forall_app. splits.
        -- apply Forall_firstn. assumption.
        -- apply Forall_repeat, fit_ok.
        -- apply Forall_skipn. assumption.
    + unfold abs, sp_setn. cbn [a_num a_sl]. fold (abs a). rewrite (abs_length_nat a I). unfold abs.
      apply nth_error_ext; intro k. ne_norm.
      rewrite !ne_lwrite by (rewrite ?repeat_length; lia). rewrite ?repeat_length. ne_norm.
      ne_split; ne_leaf.
  - eexists. split; [reflexivity|].
    splits; cbn [a_siz a_mem a_num a_sl]; auto.
    + constructor; cbn [a_siz a_mem a_num a_sl]; auto.
    + unfold abs, sp_setn. cbn [a_num a_sl]. fold (abs a). rewrite (abs_length_nat a I). unfold abs.
      apply nth_error_ext; intro k. ne_norm. ne_split; ne_leaf.
Qed.

(** ** setz: the storage is re-cut into slots of the new size *)
Lemma chunk_length : forall S n b, length (chunk S n b) = n.
Proof. induction n; intros; cbn; auto. Qed.

Lemma chunk_ok : forall S n b, (S * n <= length b)%nat -> Forall (fun e => length e = S) (chunk S n b).
Proof.
  induction n as [|n IH]; intros b H; cbn [chunk]; constructor.
  - rewrite firstn_length. lia.
  - apply IH. rewrite skipn_length. lia.
Qed.

Lemma arr_setz_spec : forall a z, arr_inv a ->
    let a' := arr_setz (mkArr (a_siz a) 0 (a_mem a) (a_sl a)) z in
    arr_inv a' /\ a_siz a' = (if z =? 0 then 1 else z) /\ a_num a' = 0
    /\ a_mem a' = a_mem a * a_siz a / a_siz a' /\ abs a' = [].
Proof.
  intros a z I.
  pose proof (inv_siz a I) as Hs. pose proof (inv_num a I) as Hn. pose proof (inv_len a I) as Hl.
  pose proof (off_lt a (a_mem a) I (N.le_refl _)) as Hb. pose proof HALF_lt_W as HW.
  pose proof (inv_elem a I) as He.
  unfold arr_setz. cbn [a_siz a_mem a_sl a_num].
  set (z' := if z =? 0 then 1 else z).
  assert (Hz : 0 < z') by (unfold z'; destruct (N.eqb_spec z 0); lia).
  rewrite (nlen_concat (a_siz a) (a_sl a) He), Hl.
  rewrite wmul_eq by lia.
  replace (a_siz a * a_mem a) with (a_mem a * a_siz a) by lia.
  cbv zeta.
  assert (Hq : z' * (a_mem a * a_siz a / z') <= a_mem a * a_siz a) by (apply N.mul_div_le; lia).
  set (q := a_mem a * a_siz a / z') in *. clearbody q.
  splits; cbn [a_siz a_mem a_sl a_num]; auto.
  constructor; cbn [a_siz a_mem a_sl a_num]; auto.
  - lia.
  - unfold nlen. rewrite chunk_length. lia.
  - lia.
  - apply chunk_ok. rewrite (concat_length_ok (N.to_nat (a_siz a))) by exact He.
    unfold nlen in Hl. nia.
Qed.

(** ** qsort modelled by insertion sort *)
Section Sort.
  Variable cmp : elem -> elem -> comparison.

  Lemma ins_sorted_length : forall x l, length (ins_sorted cmp x l) = S (length l).
  Proof.
    induction l as [|y l IH]; cbn; [reflexivity|]. destruct (gtb cmp y x); cbn; auto.
  Qed.

  Lemma isort_length : forall l, length (isort cmp l) = length l.
  Proof. induction l as [|x l IH]; cbn; [reflexivity|]. rewrite ins_sorted_length, IH. reflexivity. Qed.

  Lemma Forall_ins_sorted : forall (P : elem -> Prop) x l, P x -> Forall P l -> Forall P (ins_sorted cmp x l).
  Proof.
    induction l as [|y l IH]; intros Hx H; cbn; [constructor; auto|].
    inversion H; subst. destruct (gtb cmp y x); constructor; auto.
  Qed.

  Lemma Forall_isort : forall (P : elem -> Prop) l, Forall P l -> Forall P (isort cmp l).
  Proof.
    induction l as [|x l IH]; intro H; cbn; [constructor|].
    inversion H; subst. apply Forall_ins_sorted; auto.
  Qed.

  Lemma arr_sort_spec : forall a, arr_inv a ->
      exists a', arr_sort cmp a = Ok a' /\ arr_inv a' /\ a_siz a' = a_siz a /\ a_mem a' = a_mem a
                 /\ abs a' = isort cmp (abs a).
  Proof.
    intros a I.
    pose proof (inv_num a I) as Hn. pose proof (inv_len a I) as Hl.
    unfold arr_sort. destruct (N.leb_spec (a_num a) (nlen (a_sl a))) as [_|C]; [|lia].
    eexists. split; [reflexivity|].
    assert (L : length (isort cmp (abs a)) = N.to_nat (a_num a))
      by (rewrite isort_length; apply (abs_length_nat a I)).
    fold (abs a). destruct I. splits; cbn [a_siz a_mem a_num a_sl]; auto.
    - constructor; cbn [a_siz a_mem a_num a_sl]; auto.
      + unfold nlen in *. rewrite app_length, skipn_length, L. lia.
      + rewrite Forall_app. split; [apply Forall_isort; unfold abs; apply Forall_firstn|apply Forall_skipn]; auto.
    - unfold abs at 1. cbn [a_num a_sl]. rewrite firstn_app, L, Nat.sub_diag, firstn_O, app_nil_r.
      rewrite <- L. apply firstn_all.
  Qed.

  Lemma arr_search_spec : forall a key, arr_inv a -> arr_search cmp a key = Ok (sp_find cmp (abs a) key).
  Proof.
    intros a key I. pose proof (inv_num a I) as Hn. pose proof (inv_len a I) as Hl.
    unfold arr_search. destruct (N.leb_spec (a_num a) (nlen (a_sl a))) as [_|C]; [|lia]. reflexivity.
  Qed.
End Sort.

(** ** the inline accessors *)
Lemma content_at_live : forall a p, arr_inv a -> p < a_mem a ->
    content_at a (a_siz a * p) (a_num a) = elem_at (abs a) p.
Proof.
  intros a p I Hp. unfold elem_at. rewrite (abs_length a I).
  destruct (N.ltb_spec p (a_num a)) as [H|H].
  - rewrite content_at_slot by auto. f_equal. unfold abs.
    pose proof (inv_len a I) as Hl. unfold nlen in Hl.
    apply nth_eq_of_ne; [lia|]. ne_norm. ne_split; ne_leaf.
  - unfold content_at. rewrite slot_of_mul by (apply (inv_siz a I)).
    destruct (N.ltb_spec p (a_num a)); [lia|reflexivity].
Qed.

Lemma ptr_ret_spec : forall a p, arr_inv a -> p < a_mem a ->
    ptr_spec (a_siz a) (a_mem a) (abs a) (vec_ptr_ret a (Some (wmul (a_siz a) p)) (a_num a)) (Some p).
Proof.
  intros a p I Hp. cbn [ptr_spec vec_ptr_ret].
  assert (E : wmul (a_siz a) p = a_siz a * p).
  { apply wmul_eq. pose proof (off_lt a p I ltac:(lia)). pose proof HALF_lt_W. lia. }
  rewrite E. exists (a_siz a * p). rewrite content_at_live by assumption.
  unfold slot_ptr. auto.
Qed.
