(** * C04 — the array core of vec.c / buf.c refines the abstract sequence (part 1: primitives,
      insert, store, erase, resize, accessors) *)
From Coq Require Import ZArith NArith List Bool Lia Arith.
From LibaV Require Import C04.VecDefs C04.VecSpec C04.ListAux C04.SwapProofs.
Import ListNotations.
Local Open Scope N_scope.

Ltac Zify.zify_post_hook ::= Z.to_euclidean_division_equations.

(** ** machine words *)
Lemma W_val : W = 18446744073709551616. Proof. reflexivity. Qed.
Lemma HALF_val : HALF = 9223372036854775808. Proof. reflexivity. Qed.
Lemma HALF_lt_W : HALF < W. Proof. reflexivity. Qed.
Global Opaque W HALF.

Lemma wadd_eq : forall a b, a + b < W -> wadd a b = a + b.
Proof. intros. unfold wadd. apply N.mod_small. assumption. Qed.

Lemma wsub_eq : forall a b, b <= a -> a < W -> wsub a b = a - b.
Proof.
  intros a b Hb Ha. unfold wsub.
  replace (a + W - b) with ((a - b) + 1 * W) by lia.
  rewrite N.mod_add by (rewrite W_val; lia). apply N.mod_small. lia.
Qed.

Lemma wmul_eq : forall a b, a * b < W -> wmul a b = a * b.
Proof. intros. unfold wmul. apply N.mod_small. assumption. Qed.

Lemma mul_le_l : forall s a b, a <= b -> s * a <= s * b.
Proof. intros. apply N.mul_le_mono_l. assumption. Qed.

(** ** list / number conversions *)
Lemma nlen_nat : forall {A} (l : list A), N.to_nat (nlen l) = length l.
Proof. intros. unfold nlen. lia. Qed.

Lemma nlen_lt : forall {A} (l : list A) k, k < nlen l -> (N.to_nat k < length l)%nat.
Proof. intros. unfold nlen in *. lia. Qed.

(** ** the byte-addressed primitives on aligned offsets *)
Lemma slot_of_mul : forall siz k, 0 < siz -> slot_of siz (siz * k) = Ok k.
Proof.
  intros siz k H. unfold slot_of.
  destruct (N.eqb_spec siz 0) as [E|E]; [lia|].
  rewrite N.mul_comm, N.mod_mul by lia. cbn [N.eqb].
  rewrite N.div_mul by lia. reflexivity.
Qed.

Lemma sl_read_slot : forall siz sl k, 0 < siz -> k < nlen sl ->
    sl_read siz sl (siz * k) = Ok (nth (N.to_nat k) sl []).
Proof.
  intros. unfold sl_read. rewrite slot_of_mul by assumption. cbn [bind].
  destruct (N.ltb_spec k (nlen sl)); [reflexivity|lia].
Qed.

Lemma sl_write_slot : forall siz sl k v, 0 < siz -> k < nlen sl ->
    sl_write siz sl (siz * k) v = Ok (lupd sl (N.to_nat k) (fit siz v)).
Proof.
  intros. unfold sl_write. rewrite slot_of_mul by assumption. cbn [bind].
  destruct (N.ltb_spec k (nlen sl)); [reflexivity|lia].
Qed.

Lemma sl_move_slot : forall siz sl d s c, 0 < siz -> s + c <= nlen sl -> d + c <= nlen sl ->
    sl_move siz sl (siz * d) (siz * s) (siz * c)
    = Ok (lmove (N.to_nat d) (N.to_nat s) (N.to_nat c) sl).
Proof.
  intros. unfold sl_move. rewrite !slot_of_mul by assumption. cbn [bind].
  destruct (N.leb_spec (s + c) (nlen sl)); [|lia].
  destruct (N.leb_spec (d + c) (nlen sl)); [|lia].
  cbn [andb]. unfold lmove. rewrite N2Nat.inj_add. reflexivity.
Qed.

Lemma sl_copy_slot : forall siz sl d s c, 0 < siz -> s + c <= nlen sl -> d + c <= nlen sl ->
    (c = 0 \/ d + c <= s \/ s + c <= d) ->
    sl_copy siz sl (siz * d) (siz * s) (siz * c)
    = Ok (lmove (N.to_nat d) (N.to_nat s) (N.to_nat c) sl).
Proof.
  intros siz sl d s c H0 H1 H2 H3. unfold sl_copy. rewrite !slot_of_mul by assumption. cbn [bind].
  replace ((c =? 0) || (d + c <=? s) || (s + c <=? d)) with true.
  - apply sl_move_slot; assumption.
  - symmetry. rewrite !orb_true_iff, N.eqb_eq, !N.leb_le. tauto.
Qed.

(** ** invariant bookkeeping *)
Lemma fit_ok : forall siz v, elem_ok siz (fit siz v).
Proof.
  intros. unfold elem_ok, fit. rewrite firstn_length, app_length, repeat_length. lia.
Qed.

Lemma junk_ok : forall siz, elem_ok siz (junk_elem siz).
Proof. intros. unfold elem_ok, junk_elem. apply repeat_length. Qed.

Lemma Forall_lmove : forall (P : elem -> Prop) d s c l, Forall P l -> Forall P (lmove d s c l).
Proof.
  intros. unfold lmove. rewrite !Forall_app. repeat split;
    auto using Forall_firstn, Forall_skipn.
Qed.

Lemma Forall_lupd : forall (P : elem -> Prop) l i x, Forall P l -> P x -> Forall P (lupd l i x).
Proof.
  intros. unfold lupd. rewrite Forall_app. split; [auto using Forall_firstn|].
  constructor; auto using Forall_skipn.
Qed.

Lemma fit_idem : forall siz v, fit siz (fit siz v) = fit siz v.
Proof.
  intros. unfold fit at 1. pose proof (fit_ok siz v) as H. unfold elem_ok in H.
  rewrite firstn_app. rewrite <- H at 1. rewrite firstn_all.
  replace (N.to_nat siz - length (fit siz v))%nat with 0%nat by lia.
  cbn. apply app_nil_r.
Qed.

(* bounds every offset computation needs *)
Lemma off_lt : forall a k, arr_inv a -> k <= a_mem a -> a_siz a * k < HALF.
Proof.
  intros a k I Hk. pose proof (inv_bytes a I). pose proof (mul_le_l (a_siz a) k (a_mem a) Hk). lia.
Qed.

Lemma mem_lt_half : forall a, arr_inv a -> a_mem a < HALF.
Proof.
  intros a I. pose proof (inv_bytes a I). pose proof (inv_siz a I).
  assert (1 * a_mem a <= a_siz a * a_mem a) by (apply N.mul_le_mono_r; lia). lia.
Qed.

Lemma abs_length : forall a, arr_inv a -> nlen (abs a) = a_num a.
Proof.
  intros a I. unfold abs, nlen. rewrite firstn_length.
  pose proof (inv_num a I). pose proof (inv_len a I). unfold nlen in *. lia.
Qed.

Lemma abs_length_nat : forall a, arr_inv a -> length (abs a) = N.to_nat (a_num a).
Proof. intros a I. pose proof (abs_length a I). unfold nlen in *. lia. Qed.

Lemma sl_length_nat : forall a, arr_inv a -> length (a_sl a) = N.to_nat (a_mem a).
Proof. intros a I. pose proof (inv_len a I). unfold nlen in *. lia. Qed.

(** ** put: the harness write through a returned pointer *)
Lemma put_slot : forall a k v, arr_inv a -> k < a_mem a ->
    put a (a_siz a * k) v
    = Ok (mkArr (a_siz a) (a_num a) (a_mem a) (lupd (a_sl a) (N.to_nat k) (fit (a_siz a) v))).
Proof.
  intros a k v I Hk. unfold put. rewrite sl_write_slot.
  - reflexivity.
  - apply (inv_siz a I).
  - rewrite (inv_len a I). assumption.
Qed.

Lemma arr_inv_upd : forall a k x, arr_inv a -> (k < length (a_sl a))%nat -> elem_ok (a_siz a) x ->
    arr_inv (mkArr (a_siz a) (a_num a) (a_mem a) (lupd (a_sl a) k x)).
Proof.
  intros a k x I Hk Hx. destruct I. constructor; cbn; auto.
  - unfold nlen in *. rewrite lupd_length by assumption. assumption.
  - apply Forall_lupd; assumption.
Qed.

(** ** a_vec_insert / a_buf_insert followed by the caller's write *)
Lemma arr_insert_put : forall a idx v, arr_inv a -> a_num a < a_mem a ->
    exists a3 off,
      (a2 <- arr_insert a idx ;; a3 <- put (fst a2) (snd a2) v ;; Ok (a3, snd a2)) = Ok (a3, off)
      /\ arr_inv a3 /\ a_siz a3 = a_siz a /\ a_mem a3 = a_mem a /\ a_num a3 = a_num a + 1
      /\ abs a3 = sp_insert (abs a) idx (fit (a_siz a) v)
      /\ slot_ptr (a_siz a) (a_mem a) (N.min idx (a_num a)) off
      /\ content_at a3 off (a_num a3) = Some (fit (a_siz a) v).
Proof.
  intros a idx v I Hroom.
  pose proof (inv_siz a I) as Hs. pose proof (inv_num a I) as Hn. pose proof (inv_len a I) as Hl.
  pose proof (off_lt a (a_mem a) I (N.le_refl _)) as Hb. pose proof HALF_lt_W as HW.
  pose proof (inv_elem a I) as He. pose proof (mem_lt_half a I) as Hm.
  unfold arr_insert.
  destruct (N.ltb_spec idx (a_num a)) as [Hi|Hi].
  - (* in the middle: memmove the tail up by one slot *)
    assert (E1 : wmul (a_siz a) idx = a_siz a * idx)
      by (apply wmul_eq; pose proof (mul_le_l (a_siz a) idx (a_mem a)); lia).
    assert (E2 : wadd (a_siz a * idx) (a_siz a) = a_siz a * (idx + 1)).
    { rewrite wadd_eq; [lia|]. pose proof (mul_le_l (a_siz a) (idx + 1) (a_mem a)). lia. }
    assert (E3 : wmul (wsub (a_num a) idx) (a_siz a) = a_siz a * (a_num a - idx)).
    { rewrite wsub_eq by lia. rewrite wmul_eq; [lia|].
      pose proof (mul_le_l (a_siz a) (a_num a - idx) (a_mem a)). lia. }
    rewrite E1, E2, E3. rewrite sl_move_slot by lia. cbn [bind fst snd].
    unfold put. cbn [a_siz a_sl a_num a_mem].
    rewrite sl_write_slot; [|lia|].
    2:{ unfold nlen. rewrite lmove_length; unfold nlen in *; lia. }
    cbn [bind]. eexists. eexists. split; [reflexivity|].
    assert (Hlen : length (a_sl a) = N.to_nat (a_mem a)) by (unfold nlen in *; lia).
    assert (Hlm : length (lmove (N.to_nat (idx + 1)) (N.to_nat idx) (N.to_nat (a_num a - idx)) (a_sl a))
                  = length (a_sl a)) by (apply lmove_length; lia).
    unfold slot_ptr; splits; cbn [a_siz a_mem a_num a_sl].
    + constructor; cbn [a_siz a_mem a_num a_sl]; auto.
      * rewrite wadd_eq by lia. lia.
      * unfold nlen in *. rewrite lupd_length by lia. rewrite Hlm. assumption.
      * apply Forall_lupd; [apply Forall_lmove; assumption|apply fit_ok].
    + reflexivity.
    + reflexivity.
    + apply wadd_eq. lia.
    + unfold abs, sp_insert, clampn. cbn [a_num a_sl].
      rewrite wadd_eq by lia. fold (abs a). rewrite (abs_length a I).
      unfold abs. apply nth_error_ext; intro k. ne_norm.
      rewrite ?ne_lupd, ?ne_lmove by lia. ne_norm. ne_split; ne_leaf.
    + f_equal. lia.
    + lia.
    + unfold content_at. cbn [a_siz a_sl a_num].
      rewrite slot_of_mul by assumption. rewrite wadd_eq by lia.
      destruct (N.ltb_spec idx (a_num a + 1)); [|lia].
      rewrite sl_read_slot; [|assumption|unfold nlen; rewrite lupd_length by lia; lia].
      f_equal. apply nth_error_nth with (d := []) . rewrite ne_lupd by lia.
      rewrite Nat.eqb_refl. reflexivity.
  - (* at or beyond the end: a_vec_inc_ *)
    unfold arr_inc. cbn [bind fst snd].
    assert (E1 : wmul (a_siz a) (a_num a) = a_siz a * a_num a)
      by (apply wmul_eq; pose proof (mul_le_l (a_siz a) (a_num a) (a_mem a)); lia).
    rewrite E1. unfold put. cbn [a_siz a_sl a_num a_mem].
    rewrite sl_write_slot by lia. cbn [bind]. eexists. eexists. split; [reflexivity|].
    assert (Hlen : length (a_sl a) = N.to_nat (a_mem a)) by (unfold nlen in *; lia).
    unfold slot_ptr; splits; cbn [a_siz a_mem a_num a_sl].
    + constructor; cbn [a_siz a_mem a_num a_sl]; auto.
      * rewrite wadd_eq by lia. lia.
      * unfold nlen in *. rewrite lupd_length by lia. assumption.
      * apply Forall_lupd; [assumption|apply fit_ok].
    + reflexivity.
    + reflexivity.
    + apply wadd_eq. lia.
    + unfold abs, sp_insert, clampn. cbn [a_num a_sl].
      rewrite wadd_eq by lia. fold (abs a). rewrite (abs_length a I).
      unfold abs. apply nth_error_ext; intro k. ne_norm.
      rewrite ?ne_lupd by lia. ne_norm. ne_split; ne_leaf.
    + f_equal. lia.
    + lia.
    + unfold content_at. cbn [a_siz a_sl a_num].
      rewrite slot_of_mul by assumption. rewrite wadd_eq by lia.
      destruct (N.ltb_spec (a_num a) (a_num a + 1)); [|lia].
      rewrite sl_read_slot; [|assumption|unfold nlen; rewrite lupd_length by lia; lia].
      f_equal. apply nth_error_nth with (d := []). rewrite ne_lupd by lia.
      rewrite Nat.eqb_refl. reflexivity.
Qed.

(** ** a_swap on slots *)
Lemma nlen_concat : forall siz sl, Forall (elem_ok siz) sl -> nlen (concat sl) = siz * nlen sl.
Proof.
  intros siz sl H. unfold nlen. rewrite (concat_length_ok (N.to_nat siz)) by exact H. lia.
Qed.

Lemma sl_swap_rot : forall siz sl p m, 0 < siz -> Forall (elem_ok siz) sl -> p + m < nlen sl ->
    sl_swap siz sl (siz * p) (siz * (p + 1)) (siz * m)
    = Ok (lrot (N.to_nat p) (N.to_nat m) sl).
Proof.
  intros siz sl p m Hs H Hp. unfold sl_swap. rewrite (nlen_concat siz sl H).
  destruct (N.leb_spec (siz * p + siz * m) (siz * nlen sl)) as [_|C];
    [|pose proof (mul_le_l siz (p + m) (nlen sl)); lia].
  destruct (N.leb_spec (siz * (p + 1) + siz * m) (siz * nlen sl)) as [_|C];
    [|pose proof (mul_le_l siz (p + 1 + m) (nlen sl)); lia].
  cbn [andb]. f_equal.
  rewrite !N2Nat.inj_mul. replace (N.to_nat (p + 1)) with (N.to_nat p + 1)%nat by lia.
  rewrite (swap_loop_rot (N.to_nat siz)); [|exact H|unfold nlen in Hp; lia].
  rewrite <- (lrot_length (N.to_nat p) (N.to_nat m) sl) by (unfold nlen in Hp; lia).
  apply chunk_concat. apply (Forall_lrot (fun e => length e = N.to_nat siz));
    [unfold nlen in Hp; lia|exact H].
Qed.

Lemma sl_swap_adj : forall siz sl j, 0 < siz -> Forall (elem_ok siz) sl -> j + 1 < nlen sl ->
    sl_swap siz sl (siz * j) (siz * (j + 1)) siz = Ok (lswap (N.to_nat j) sl).
Proof.
  intros siz sl j Hs H Hj. unfold sl_swap. rewrite (nlen_concat siz sl H).
  destruct (N.leb_spec (siz * j + siz) (siz * nlen sl)) as [_|C];
    [|pose proof (mul_le_l siz (j + 1) (nlen sl)); lia].
  destruct (N.leb_spec (siz * (j + 1) + siz) (siz * nlen sl)) as [_|C];
    [|pose proof (mul_le_l siz (j + 1 + 1) (nlen sl)); lia].
  cbn [andb]. f_equal.
  rewrite !N2Nat.inj_mul. replace (N.to_nat (j + 1)) with (N.to_nat j + 1)%nat by lia.
  rewrite (swap_loop_adjacent (N.to_nat siz)); [|exact H|unfold nlen in Hj; lia].
  rewrite <- (lswap_length (N.to_nat j) sl) by (unfold nlen in Hj; lia).
  apply chunk_concat. apply (Forall_lswap (fun e => length e = N.to_nat siz));
    [unfold nlen in Hj; lia|exact H].
Qed.

Lemma sl_swap_adj' : forall siz sl j, 0 < siz -> Forall (elem_ok siz) sl -> j + 1 < nlen sl ->
    sl_swap siz sl (siz * (j + 1)) (siz * j) siz = Ok (lswap (N.to_nat j) sl).
Proof.
  intros siz sl j Hs H Hj. rewrite <- (sl_swap_adj siz sl j Hs H Hj).
  unfold sl_swap. rewrite (nlen_concat siz sl H).
  destruct (N.leb_spec (siz * j + siz) (siz * nlen sl)) as [_|C];
    [|pose proof (mul_le_l siz (j + 1) (nlen sl)); lia].
  destruct (N.leb_spec (siz * (j + 1) + siz) (siz * nlen sl)) as [_|C];
    [|pose proof (mul_le_l siz (j + 1 + 1) (nlen sl)); lia].
  cbn [andb]. f_equal. f_equal.
  pose proof (concat_length_ok (N.to_nat siz) sl H) as Hc.
  assert (N.to_nat (siz * (j + 1)) + N.to_nat siz <= length (concat sl))%nat.
  { rewrite Hc. unfold nlen in Hj. nia. }
  apply swap_loop_sym; lia.
Qed.
