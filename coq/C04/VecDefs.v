(** * C04 — executable model of src/vec.c, src/buf.c and a_swap (src/a.c)

    NO proofs in this file (CONVENTIONS.md).  The model follows the C case analysis, in the same
    order, with [a_size] arithmetic written as explicit [mod 2^64].  It models the code WITH the
    proposed fixes /verif/proposed_fixes/C04-1..5.diff applied (see the comments marked FIX).

    Storage is a list of element slots ([elem] = list of bytes); every pointer of the C code is a
    byte offset from the base of the storage; every access converts the byte offset back to a slot
    index with a checked zero remainder and a bounds check against the REAL number of slots, and
    returns [Err] instead of being ignored.  [a_swap] is modelled byte by byte on the flattened
    storage.  Every allocation request goes through [a_alloc], which consumes one boolean of a fault
    schedule and keeps a ledger of live blocks (block id, size in bytes). *)
From Coq Require Import NArith List Bool.
Import ListNotations.
Local Open Scope N_scope.

(* ------------------------------------------------------------------ machine words *)
Definition W : N := 18446744073709551616.            (* 2^64 *)
Definition HALF : N := 9223372036854775808.          (* 2^63 *)
Definition wadd (a b : N) : N := (a + b) mod W.
Definition wsub (a b : N) : N := (a + W - b) mod W.   (* a, b < W *)
Definition wmul (a b : N) : N := (a * b) mod W.

(* ------------------------------------------------------------------ results *)
Inductive err := OutOfBounds | OutOfFuel | Misaligned | Overlap.
Inductive res (A : Type) := Ok (a : A) | Err (e : err).
Arguments Ok {A} a.
Arguments Err {A} e.
Definition bind {A B} (r : res A) (f : A -> res B) : res B :=
  match r with Ok a => f a | Err e => Err e end.
Notation "x <- r ;; k" := (bind r (fun x => k)) (at level 61, r at next level, right associativity).

(* ------------------------------------------------------------------ elements *)
Definition byte := N.
Definition elem := list byte.
Definition JUNK : byte := 165.                       (* what fresh memory contains (harness shim fills 0xA5) *)

Definition nlen {A} (l : list A) : N := N.of_nat (length l).
Definition fit (siz : N) (v : elem) : elem :=         (* the harness always writes exactly siz bytes *)
  firstn (N.to_nat siz) (v ++ repeat 0 (N.to_nat siz)).
Definition junk_elem (siz : N) : elem := repeat JUNK (N.to_nat siz).

(* memcmp on equal-length elements: a total order whose equivalence is identity *)
Fixpoint lex_cmp (a b : elem) : comparison :=
  match a, b with
  | [], [] => Eq
  | [], _ :: _ => Lt
  | _ :: _, [] => Gt
  | x :: a', y :: b' => match x ?= y with Eq => lex_cmp a' b' | c => c end
  end.

(* ------------------------------------------------------------------ slot storage, byte addressed *)
Definition slot_of (siz off : N) : res N :=
  if siz =? 0 then Err Misaligned
  else if off mod siz =? 0 then Ok (off / siz) else Err Misaligned.

Definition sl_read (siz : N) (sl : list elem) (off : N) : res elem :=
  s <- slot_of siz off ;;
  if s <? nlen sl then Ok (nth (N.to_nat s) sl []) else Err OutOfBounds.

Definition sl_write (siz : N) (sl : list elem) (off : N) (v : elem) : res (list elem) :=
  s <- slot_of siz off ;;
  if s <? nlen sl
  then Ok (firstn (N.to_nat s) sl ++ fit siz v :: skipn (S (N.to_nat s)) sl)
  else Err OutOfBounds.

(* memmove(base+dst, base+src, n) *)
Definition sl_move (siz : N) (sl : list elem) (dst src n : N) : res (list elem) :=
  d <- slot_of siz dst ;; s <- slot_of siz src ;; c <- slot_of siz n ;;
  if (s + c <=? nlen sl) && (d + c <=? nlen sl)
  then Ok (firstn (N.to_nat d) sl ++ firstn (N.to_nat c) (skipn (N.to_nat s) sl)
                  ++ skipn (N.to_nat (d + c)) sl)
  else Err OutOfBounds.

(* memcpy(base+dst, base+src, n): as memmove, and the ranges must not overlap *)
Definition sl_copy (siz : N) (sl : list elem) (dst src n : N) : res (list elem) :=
  d <- slot_of siz dst ;; s <- slot_of siz src ;; c <- slot_of siz n ;;
  if (c =? 0) || (d + c <=? s) || (s + c <=? d) then sl_move siz sl dst src n else Err Overlap.

(* a_swap (src/a.c:29-40): for (; siz; --siz, ++lhs, ++rhs) swap the two bytes *)
Definition upd {A} (l : list A) (i : nat) (x : A) : list A := firstn i l ++ x :: skipn (S i) l.
Fixpoint swap_loop (n l r : nat) (b : list byte) : list byte :=
  match n with
  | O => b
  | S n' => let x := nth l b 0 in
            let y := nth r b 0 in
            swap_loop n' (S l) (S r) (upd (upd b l y) r x)
  end.
Fixpoint chunk (siz n : nat) (b : list byte) : list elem :=
  match n with
  | O => []
  | S n' => firstn siz b :: chunk siz n' (skipn siz b)
  end.
Definition sl_swap (siz : N) (sl : list elem) (lhs rhs n : N) : res (list elem) :=
  let b := concat sl in
  if (lhs + n <=? nlen b) && (rhs + n <=? nlen b)
  then Ok (chunk (N.to_nat siz) (length sl)
                 (swap_loop (N.to_nat n) (N.to_nat lhs) (N.to_nat rhs) b))
  else Err OutOfBounds.

Fixpoint sl_write_many (siz : N) (sl : list elem) (off : N) (vs : list elem) : res (list elem) :=
  match vs with
  | [] => Ok sl
  | v :: vs' => sl' <- sl_write siz sl off v ;; sl_write_many siz sl' (wadd off siz) vs'
  end.

Fixpoint sl_read_many (siz : N) (sl : list elem) (off : N) (k : nat) : res (list elem) :=
  match k with
  | O => Ok []
  | S k' => e <- sl_read siz sl off ;; r <- sl_read_many siz sl (wadd off siz) k' ;; Ok (e :: r)
  end.

(* what realloc does to the slots: keep the common prefix, new space is junk *)
Definition resize_slots (siz : N) (sl : list elem) (bytes : N) : list elem :=
  let k := N.to_nat (bytes / siz) in
  firstn k sl ++ repeat (junk_elem siz) (k - length sl).

(* ------------------------------------------------------------------ allocator *)
Inductive event := EvMalloc (size : N) (ok : bool) | EvRealloc (size : N) (ok : bool)
                 | EvFree | EvBad.
Record heap := mkHeap {
  h_sched : list bool;        (* answers to the coming requests; exhausted = true *)
  h_live : list (N * N);      (* ledger: (block id, size in bytes) *)
  h_next : N;                 (* next fresh block id *)
  h_limit : N                 (* a request larger than this fails *)
}.

Definition is_live (h : heap) (id : N) : bool := existsb (fun p => fst p =? id) (h_live h).
Definition ledger_del (l : list (N * N)) (id : N) := filter (fun p => negb (fst p =? id)) l.
Definition ledger_set (l : list (N * N)) (id sz : N) :=
  map (fun p => if fst p =? id then (id, sz) else p) l.

(* a_alloc(addr, size)  (src/a.c:43-55) *)
Definition a_alloc (h : heap) (addr : option N) (size : N) : option N * heap * list event :=
  if size =? 0 then
    match addr with
    | None => (None, h, [])
    | Some id =>
        if is_live h id
        then (None, mkHeap (h_sched h) (ledger_del (h_live h) id) (h_next h) (h_limit h), [EvFree])
        else (None, h, [EvBad])
    end
  else
    let ans := match h_sched h with [] => true | b :: _ => b end in
    let sched' := tl (h_sched h) in
    let ok := ans && (size <=? h_limit h) in
    match addr with
    | None =>
        if ok
        then (Some (h_next h),
              mkHeap sched' ((h_next h, size) :: h_live h) (h_next h + 1) (h_limit h),
              [EvMalloc size true])
        else (None, mkHeap sched' (h_live h) (h_next h) (h_limit h), [EvMalloc size false])
    | Some id =>
        if negb (is_live h id) then (None, mkHeap sched' (h_live h) (h_next h) (h_limit h), [EvBad])
        else if ok
        then (Some id, mkHeap sched' (ledger_set (h_live h) id size) (h_next h) (h_limit h),
              [EvRealloc size true])
        else (None, mkHeap sched' (h_live h) (h_next h) (h_limit h), [EvRealloc size false])
    end.

(* ------------------------------------------------------------------ the array core *)
(** The part of the state vec.c and buf.c share: element size, count, capacity, slots. *)
Record arr := mkArr { a_siz : N; a_num : N; a_mem : N; a_sl : list elem }.

Definition A_SUCCESS : N := 0.
Definition A_OBOUNDS : N := 3.
Definition A_OMEMORY : N := 4.

Section Model.
  Variable cmp : elem -> elem -> comparison.   (* the caller's comparator; C tests cmp(a,b) > 0 *)
  Definition gtb (a b : elem) : bool := match cmp a b with Gt => true | _ => false end.

  (* a_vec_inc_ / a_buf_inc_ :  base + siz * num++ *)
  Definition arr_inc (a : arr) : arr * N :=
    (mkArr (a_siz a) (wadd (a_num a) 1) (a_mem a) (a_sl a), wmul (a_siz a) (a_num a)).
  (* a_vec_dec_ / a_buf_dec_ :  base + siz * --num *)
  Definition arr_dec (a : arr) : arr * N :=
    let n := wsub (a_num a) 1 in (mkArr (a_siz a) n (a_mem a) (a_sl a), wmul (a_siz a) n).

  (* a_vec_insert (vec.c:229-236) / a_buf_insert (buf.c:207-214) once capacity is there *)
  Definition arr_insert (a : arr) (idx : N) : res (arr * N) :=
    let siz := a_siz a in
    if idx <? a_num a then
      let p := wmul siz idx in
      sl <- sl_move siz (a_sl a) (wadd p siz) p (wmul (wsub (a_num a) idx) siz) ;;
      Ok (mkArr siz (wadd (a_num a) 1) (a_mem a) sl, p)
    else Ok (arr_inc a).

  (* a_vec_remove (vec.c:252-273) / a_buf_remove (buf.c:227-250).
     FIX C04-1: the guard is  num && idx < num - 1  (was idx + 1 < num, which wraps for SIZE_MAX) *)
  Definition arr_remove (a : arr) (idx : N) : res (arr * option N) :=
    let siz := a_siz a in
    let num := a_num a in
    if negb (num =? 0) && (idx <? wsub num 1) then
      let p := wmul siz idx in
      let q := wadd p siz in
      if num <? a_mem a then
        (* spare slot: copy the element to slot [num], close the gap with memmove *)
        let ptr := wmul siz num in
        sl1 <- sl_copy siz (a_sl a) ptr p siz ;;
        sl2 <- sl_move siz sl1 p q (wsub ptr q) ;;
        Ok (mkArr siz (wsub num 1) (a_mem a) sl2, Some ptr)
      else
        (* exactly full: a_swap(p, q, ptr - p) used as an overlapping rotation *)
        let num' := wsub num 1 in
        let ptr := wmul siz num' in
        sl1 <- sl_swap siz (a_sl a) p q (wsub ptr p) ;;
        Ok (mkArr siz num' (a_mem a) sl1, Some ptr)
    else if num =? 0 then Ok (a, None)
    else let (a', off) := arr_dec a in Ok (a', Some off).

  (* a_vec_pull_back / a_buf_pull_back *)
  Definition arr_pull_back (a : arr) : arr * option N :=
    if a_num a =? 0 then (a, None) else let (a', off) := arr_dec a in (a', Some off).

  (* a_vec_store (vec.c:285-307) / a_buf_store (buf.c:266-287) once capacity is there; cnt = |vs| *)
  Definition arr_store (a : arr) (idx : N) (vs : list elem) : res arr :=
    let siz := a_siz a in
    let cnt := nlen vs in
    if cnt =? 0 then Ok a else
    let p := wmul siz (a_num a) in
    let n := wmul siz cnt in
    r <- (if idx <? a_num a then
            let q := p in
            let p' := wmul siz idx in
            sl <- sl_move siz (a_sl a) (wadd p' n) p' (wsub q p') ;; Ok (sl, p')
          else Ok (a_sl a, p)) ;;
    sl2 <- sl_write_many siz (fst r) (snd r) vs ;;
    Ok (mkArr siz (wadd (a_num a) cnt) (a_mem a) sl2).

  (* a_vec_erase (vec.c:311-333) / a_buf_erase (buf.c:293-317).
     FIX C04-2: n = (idx < num && cnt < num - idx) ? idx + cnt : num   (was idx + cnt, which wraps);
     the destructor loop is entered only when idx < num. Result: state, rc, destroyed elements. *)
  Definition arr_erase (a : arr) (idx cnt : N) (dtor : bool) : res (arr * N * list elem) :=
    let siz := a_siz a in
    let num := a_num a in
    let n := if (idx <? num) && (cnt <? wsub num idx) then wadd idx cnt else num in
    d <- (if dtor && (idx <? num) then
            let i := if n <=? num then n else num in
            if i - idx <=? nlen (a_sl a)
            then sl_read_many siz (a_sl a) (wmul siz idx) (N.to_nat (i - idx))
            else Err OutOfBounds
          else Ok []) ;;
    if n <? num then
      let p := wmul siz idx in
      sl <- sl_move siz (a_sl a) p (wadd p (wmul siz cnt)) (wmul (wsub num n) siz) ;;
      Ok (mkArr siz (wsub num cnt) (a_mem a) sl, A_SUCCESS, d)
    else if idx <? num then Ok (mkArr siz idx (a_mem a) (a_sl a), A_SUCCESS, d)
    else Ok (a, A_OBOUNDS, d).

  (* the destructor loop of setn:  while (num_ > num) dtor(dec_(ctx))  — elements num_-1 down to num *)
  Definition arr_dtor_down (a : arr) (num : N) (dtor : bool) : res (list elem) :=
    if dtor && (num <? a_num a) then
      if a_num a - num <=? nlen (a_sl a)
      then r <- sl_read_many (a_siz a) (a_sl a) (wmul (a_siz a) num) (N.to_nat (a_num a - num)) ;;
           Ok (rev r)
      else Err OutOfBounds
    else Ok [].

  (* setz (vec.c:101-108, buf.c:70-78) after setn(0): mem = mem * siz / siz', siz = siz' *)
  Definition arr_setz (a : arr) (siz : N) : arr :=
    let bytes := wmul (a_mem a) (a_siz a) in
    let siz' := if siz =? 0 then 1 else siz in
    let mem' := bytes / siz' in
    mkArr siz' 0 mem' (chunk (N.to_nat siz') (N.to_nat (nlen (concat (a_sl a)) / siz')) (concat (a_sl a))).

  (* qsort: modelled by insertion sort (stable); the harness comparator's equivalence is identity *)
  Fixpoint ins_sorted (x : elem) (l : list elem) : list elem :=
    match l with
    | [] => [x]
    | y :: l' => if gtb y x then x :: l else y :: ins_sorted x l'
    end.
  Fixpoint isort (l : list elem) : list elem :=
    match l with [] => [] | x :: l' => ins_sorted x (isort l') end.
  Definition arr_sort (a : arr) : res arr :=
    if a_num a <=? nlen (a_sl a)
    then Ok (mkArr (a_siz a) (a_num a) (a_mem a)
                   (isort (firstn (N.to_nat (a_num a)) (a_sl a)) ++ skipn (N.to_nat (a_num a)) (a_sl a)))
    else Err OutOfBounds.

  (* binary search of sort_fore (vec.c:123-130):  b = 1, i = num - 1; while (b <= i) ... *)
  Fixpoint sf_search (fuel : nat) (siz : N) (sl : list elem) (x : elem) (b i : N) : res N :=
    match fuel with
    | O => Err OutOfFuel
    | S f =>
        if b <=? i then
          let m := wadd b (wsub i b / 2) in
          cur <- sl_read siz sl (wmul siz m) ;;
          if gtb x cur then sf_search f siz sl x (wadd m 1) i
          else sf_search f siz sl x b (wsub m 1)
        else Ok i
    end.

  (* bubble loop of sort_fore when full (vec.c:141-150) *)
  Fixpoint sf_bubble (fuel : nat) (siz : N) (sl : list elem) (ptr cur endo : N) : res (list elem) :=
    match fuel with
    | O => Err OutOfFuel
    | S f =>
        if cur =? endo then Ok sl else
        x <- sl_read siz sl ptr ;; y <- sl_read siz sl cur ;;
        if gtb x y then
          sl' <- sl_swap siz sl cur ptr siz ;; sf_bubble f siz sl' cur (wadd cur siz) endo
        else Ok sl
    end.

  (* a_vec_sort_fore (vec.c:115-153) / a_buf_sort_fore (buf.c:86-125) *)
  Definition arr_sort_fore (a : arr) : res arr :=
    let siz := a_siz a in
    let num := a_num a in
    if 1 <? num then
      let endo := wmul siz num in
      if num <? a_mem a then
        x <- sl_read siz (a_sl a) 0 ;;
        i <- sf_search 65 siz (a_sl a) x 1 (wsub num 1) ;;
        if 0 <? i then
          let cur := wmul siz i in
          sl1 <- sl_copy siz (a_sl a) endo 0 siz ;;
          sl2 <- sl_move siz sl1 0 siz cur ;;
          sl3 <- sl_copy siz sl2 cur endo siz ;;
          Ok (mkArr siz num (a_mem a) sl3)
        else Ok a
      else
        sl' <- sf_bubble (S (length (a_sl a))) siz (a_sl a) 0 siz endo ;;
        Ok (mkArr siz num (a_mem a) sl')
    else Ok a.

  (* upper-bound binary search of sort_back / push_sort (vec.c:164-171, 201-208) *)
  Fixpoint ub_search (fuel : nat) (siz : N) (sl : list elem) (key : elem) (i r : N) : res N :=
    match fuel with
    | O => Err OutOfFuel
    | S f =>
        if i <? r then
          let m := wadd i (wsub r i / 2) in
          cur <- sl_read siz sl (wmul siz m) ;;
          if gtb cur key then ub_search f siz sl key i m
          else ub_search f siz sl key (wadd m 1) r
        else Ok i
    end.

  (* bubble loop of sort_back when full (vec.c:182-190): do { ... } while (ptr != base) *)
  Fixpoint sb_bubble (fuel : nat) (siz : N) (sl : list elem) (ptr : N) : res (list elem) :=
    match fuel with
    | O => Err OutOfFuel
    | S f =>
        let cur := wsub ptr siz in
        x <- sl_read siz sl cur ;; y <- sl_read siz sl ptr ;;
        if gtb x y then
          sl' <- sl_swap siz sl cur ptr siz ;;
          if cur =? 0 then Ok sl' else sb_bubble f siz sl' cur
        else Ok sl
    end.

  (* a_vec_sort_back (vec.c:155-193) / a_buf_sort_back (buf.c:127-167) *)
  Definition arr_sort_back (a : arr) : res arr :=
    let siz := a_siz a in
    let num := a_num a in
    if 1 <? num then
      let endo := wmul siz num in
      let ptr := wsub endo siz in
      if num <? a_mem a then
        let idx := wsub num 1 in
        x <- sl_read siz (a_sl a) ptr ;;
        i <- ub_search 65 siz (a_sl a) x 0 idx ;;
        if i <? idx then
          let cur := wmul siz i in
          sl1 <- sl_copy siz (a_sl a) endo ptr siz ;;
          sl2 <- sl_move siz sl1 (wadd cur siz) cur (wsub ptr cur) ;;
          sl3 <- sl_copy siz sl2 cur endo siz ;;
          Ok (mkArr siz num (a_mem a) sl3)
        else Ok a
      else
        sl' <- sb_bubble (S (length (a_sl a))) siz (a_sl a) ptr ;;
        Ok (mkArr siz num (a_mem a) sl')
    else Ok a.

  (* a_vec_push_sort (vec.c:199-215) / a_buf_push_sort (buf.c:174-191) once capacity is there;
     returns the byte offset of the slot the caller must fill with the key *)
  Definition arr_push_sort (a : arr) (key : elem) : res (arr * N) :=
    let siz := a_siz a in
    let idx := a_num a in
    let (a1, ptr) := arr_inc a in
    i <- ub_search 65 siz (a_sl a1) key 0 idx ;;
    if i <? idx then
      let cur := wmul siz i in
      sl <- sl_move siz (a_sl a1) (wadd cur siz) cur (wsub ptr cur) ;;
      Ok (mkArr siz (a_num a1) (a_mem a1) sl, cur)
    else Ok (a1, ptr).

  (* bsearch: membership lookup among the first num elements; only found / content are compared *)
  Definition arr_search (a : arr) (key : elem) : res (option elem) :=
    if a_num a <=? nlen (a_sl a)
    then Ok (find (fun e => match cmp key e with Eq => true | _ => false end)
                  (firstn (N.to_nat (a_num a)) (a_sl a)))
    else Err OutOfBounds.

  (* inline accessors of vec.h / buf.h: byte offset of the returned pointer, None = NULL *)
  Definition arr_at (a : arr) (idx : N) : option N :=
    if idx <? a_mem a then Some (wmul (a_siz a) idx) else None.
  Definition arr_of (a : arr) (idx : N) : option N :=      (* idx: a_diff as its 64-bit pattern *)
    let n := if idx <? HALF then idx else wadd idx (a_num a) in
    if n <? a_mem a then Some (wmul (a_siz a) n) else None.
  Definition arr_top (a : arr) : option N :=
    if a_num a =? 0 then None else Some (wmul (a_siz a) (wsub (a_num a) 1)).
  Definition arr_end (a : arr) : N := wmul (a_siz a) (a_num a).

  (* what the harness reads through a returned pointer: only initialised (live) slots are read,
     except after remove/pull where the slot just vacated is read *)
  Definition content_at (a : arr) (off : N) (lim : N) : option elem :=
    match slot_of (a_siz a) off with
    | Ok s => if s <? lim then
                match sl_read (a_siz a) (a_sl a) off with Ok e => Some e | Err _ => None end
              else None
    | Err _ => None
    end.

  (* ---------------------------------------------------------------- operations and outputs *)
  Inductive ret :=
  | RVoid
  | RInt (rc : N)
  | RPtr (off : option N) (content : option elem)
  | RFound (content : option elem).
  Record out := mkOut { o_ret : ret; o_dtor : list elem; o_ev : list event; o_err : option err }.

  Inductive op :=
  | OSetm (mem : N)
  | OSetn (n : N) (dtor : bool) (fill : elem)     (* harness fills the newly exposed slots *)
  | OSetz (siz : N) (dtor : bool)
  | OSort | OSortFore | OSortBack
  | OPushSort (key : elem)
  | OSearch (key : elem)
  | OInsert (idx : N) (v : elem)                   (* harness writes v through the returned pointer *)
  | OPushFore (v : elem)
  | OPushBack (v : elem)
  | ORemove (idx : N)
  | OPullFore
  | OPullBack
  | OStore (idx : N) (vs : list elem)
  | OErase (idx cnt : N) (dtor : bool)
  | OAt (idx : N) | OOf (idx : N) | OTop | OEnd.

  (* the harness write through a returned pointer *)
  Definition put (a : arr) (off : N) (v : elem) : res arr :=
    sl <- sl_write (a_siz a) (a_sl a) off v ;; Ok (mkArr (a_siz a) (a_num a) (a_mem a) sl).

  Fixpoint fill_from (a : arr) (off : N) (k : nat) (v : elem) : res arr :=
    match k with
    | O => Ok a
    | S k' => a' <- put a off v ;; fill_from a' (wadd off (a_siz a)) k' v
    end.

  (* ---------------------------------------------------------------- vec *)
  Record vec := mkVec { v_ptr : option N; v_arr : arr }.

  Definition size_down8 (n : N) : N := n / 8 * 8.
  Definition size_up8 (n : N) : N := wadd n 7 / 8 * 8.

  (* do { m += (m >> 1) + 1; } while (m < mem);   (vec.c:66-68) *)
  Fixpoint grow_loop (fuel : nat) (m mem : N) : res N :=
    match fuel with
    | O => Err OutOfFuel
    | S f => let m' := wadd m (wadd (m / 2) 1) in
             if m' <? mem then grow_loop f m' mem else Ok m'
    end.

  (* a_vec_setm (vec.c:59-82).  FIX C04-5: requests above max = down8((SIZE_MAX >> 1) / siz) fail
     with A_OMEMORY before the loop (which otherwise wraps and does not terminate), and the rounded
     capacity is clamped to max.  Result: heap, vec, rc, events. *)
  Definition vec_setm (h : heap) (v : vec) (mem : N) : res (heap * vec * N * list event) :=
    let a := v_arr v in
    if a_mem a <? mem then
      let max := size_down8 ((HALF - 1) / a_siz a) in
      if max <? mem then Ok (h, v, A_OMEMORY, []) else
      m <- grow_loop 128 (a_mem a) mem ;;
      let mem1 := size_up8 m in
      let mem2 := if max <? mem1 then max else mem1 in
      let bytes := wmul (a_siz a) mem2 in
      let '(p, h', ev) := a_alloc h (v_ptr v) bytes in
      match p with
      | Some id => Ok (h', mkVec (Some id) (mkArr (a_siz a) (a_num a) mem2
                                               (resize_slots (a_siz a) (a_sl a) bytes)),
                       A_SUCCESS, ev)
      | None => Ok (h', v, A_OMEMORY, ev)
      end
    else Ok (h, v, A_SUCCESS, []).

  Definition with_arr (v : vec) (a : arr) : vec := mkVec (v_ptr v) a.
  Definition lim_live (a : arr) : N := a_num a.

  Definition vec_ptr_ret (a : arr) (o : option N) (lim : N) : ret :=
    match o with None => RPtr None None | Some off => RPtr (Some off) (content_at a off lim) end.

  (* one operation on a vector: the C call followed by what the harness does with the result *)
  Definition vec_step (h : heap) (v : vec) (o : op) : res (heap * vec * out) :=
    let a := v_arr v in
    match o with
    | OSetm mem =>
        r <- vec_setm h v mem ;;
        let '(h1, v1, rc, ev) := r in Ok (h1, v1, mkOut (RInt rc) [] ev None)
    | OSetn n dtor fill =>
        (* a_vec_setn (vec.c:84-99) *)
        r <- vec_setm h v n ;;
        let '(h1, v1, rc, ev) := r in
        if rc =? 0 then
          let a1 := v_arr v1 in
          d <- arr_dtor_down a1 n dtor ;;
          let a2 := mkArr (a_siz a1) n (a_mem a1) (a_sl a1) in
          a3 <- (if a_num a1 <? n
                 then (if n - a_num a1 <=? nlen (a_sl a1)
                       then fill_from a2 (wmul (a_siz a1) (a_num a1)) (N.to_nat (n - a_num a1)) fill
                       else Err OutOfBounds)
                 else Ok a2) ;;
          Ok (h1, with_arr v1 a3, mkOut (RInt rc) d ev None)
        else Ok (h1, v1, mkOut (RInt rc) [] ev None)
    | OSetz siz dtor =>
        (* a_vec_setz (vec.c:101-108): setn(0) cannot fail (setm(0) never grows) *)
        d <- arr_dtor_down a 0 dtor ;;
        let a1 := mkArr (a_siz a) 0 (a_mem a) (a_sl a) in
        Ok (h, with_arr v (arr_setz a1 siz), mkOut RVoid d [] None)
    | OSort => a1 <- arr_sort a ;; Ok (h, with_arr v a1, mkOut RVoid [] [] None)
    | OSortFore => a1 <- arr_sort_fore a ;; Ok (h, with_arr v a1, mkOut RVoid [] [] None)
    | OSortBack => a1 <- arr_sort_back a ;; Ok (h, with_arr v a1, mkOut RVoid [] [] None)
    | OPushSort key0 =>
        let key := fit (a_siz a) key0 in
        r <- vec_setm h v (wadd (a_num a) 1) ;;
        let '(h1, v1, rc, ev) := r in
        if rc =? 0 then
          r2 <- arr_push_sort (v_arr v1) key ;;
          let (a2, off) := r2 in
          a3 <- put a2 off key ;;
          Ok (h1, with_arr v1 a3, mkOut (vec_ptr_ret a3 (Some off) (a_num a3)) [] ev None)
        else Ok (h1, v1, mkOut (RPtr None None) [] ev None)
    | OSearch key => f <- arr_search a (fit (a_siz a) key) ;; Ok (h, v, mkOut (RFound f) [] [] None)
    | OInsert idx x =>
        r <- vec_setm h v (wadd (a_num a) 1) ;;
        let '(h1, v1, rc, ev) := r in
        if rc =? 0 then
          r2 <- arr_insert (v_arr v1) idx ;;
          let (a2, off) := r2 in
          a3 <- put a2 off x ;;
          Ok (h1, with_arr v1 a3, mkOut (vec_ptr_ret a3 (Some off) (a_num a3)) [] ev None)
        else Ok (h1, v1, mkOut (RPtr None None) [] ev None)
    | OPushFore x =>
        (* a_vec_push_fore = a_vec_insert(ctx, 0) *)
        r <- vec_setm h v (wadd (a_num a) 1) ;;
        let '(h1, v1, rc, ev) := r in
        if rc =? 0 then
          r2 <- arr_insert (v_arr v1) 0 ;;
          let (a2, off) := r2 in
          a3 <- put a2 off x ;;
          Ok (h1, with_arr v1 a3, mkOut (vec_ptr_ret a3 (Some off) (a_num a3)) [] ev None)
        else Ok (h1, v1, mkOut (RPtr None None) [] ev None)
    | OPushBack x =>
        r <- vec_setm h v (wadd (a_num a) 1) ;;
        let '(h1, v1, rc, ev) := r in
        if rc =? 0 then
          let (a2, off) := arr_inc (v_arr v1) in
          a3 <- put a2 off x ;;
          Ok (h1, with_arr v1 a3, mkOut (vec_ptr_ret a3 (Some off) (a_num a3)) [] ev None)
        else Ok (h1, v1, mkOut (RPtr None None) [] ev None)
    | ORemove idx =>
        r <- arr_remove a idx ;;
        let (a1, o1) := r in
        Ok (h, with_arr v a1, mkOut (vec_ptr_ret a1 o1 (a_mem a1)) [] [] None)
    | OPullFore =>
        r <- arr_remove a 0 ;;
        let (a1, o1) := r in
        Ok (h, with_arr v a1, mkOut (vec_ptr_ret a1 o1 (a_mem a1)) [] [] None)
    | OPullBack =>
        let (a1, o1) := arr_pull_back a in
        Ok (h, with_arr v a1, mkOut (vec_ptr_ret a1 o1 (a_mem a1)) [] [] None)
    | OStore idx vs =>
        (* a_vec_store (vec.c:282-309) *)
        r <- vec_setm h v (wadd (a_num a) (nlen vs)) ;;
        let '(h1, v1, rc, ev) := r in
        if rc =? 0 then
          a2 <- arr_store (v_arr v1) idx vs ;;
          Ok (h1, with_arr v1 a2, mkOut (RInt rc) [] ev None)
        else Ok (h1, v1, mkOut (RInt rc) [] ev None)
    | OErase idx cnt dtor =>
        r <- arr_erase a idx cnt dtor ;;
        let '(a1, rc, d) := r in
        Ok (h, with_arr v a1, mkOut (RInt rc) d [] None)
    | OAt idx => Ok (h, v, mkOut (vec_ptr_ret a (arr_at a idx) (a_num a)) [] [] None)
    | OOf idx => Ok (h, v, mkOut (vec_ptr_ret a (arr_of a idx) (a_num a)) [] [] None)
    | OTop => Ok (h, v, mkOut (vec_ptr_ret a (arr_top a) (a_num a)) [] [] None)
    | OEnd =>
        (* a_vec_end: ptr ? end_ : ptr *)
        Ok (h, v, mkOut (match v_ptr v with
                         | Some _ => RPtr (Some (arr_end a)) None
                         | None => RPtr None None end) [] [] None)
    end.

  (* a_vec_new (vec.c:14-19): the struct itself is a 32-byte block *)
  Definition vec_new (h : heap) (siz : N) : heap * option (N * vec) * list event :=
    let '(p, h1, ev) := a_alloc h None 32 in
    match p with
    | Some id => (h1, Some (id, mkVec None (mkArr (if siz =? 0 then 1 else siz) 0 0 [])), ev)
    | None => (h1, None, ev)
    end.

  (* a_vec_die (vec.c:21-28) = a_vec_dtor (setn(0,dtor); free storage) + free the struct *)
  Definition vec_die (h : heap) (id : N) (v : vec) (dtor : bool) : res (heap * list elem * list event) :=
    d <- arr_dtor_down (v_arr v) 0 dtor ;;
    let '(_, h1, ev1) := match v_ptr v with
                         | Some p => a_alloc h (Some p) 0
                         | None => (None, h, []) end in
    let '(_, h2, ev2) := a_alloc h1 (Some id) 0 in
    Ok (h2, d, ev1 ++ ev2).

  (* ---------------------------------------------------------------- buf *)
  Record buf := mkBuf { b_blk : N; b_arr : arr }.
  Definition BUF_HDR : N := 24.                       (* sizeof(a_buf) *)

  (* a_buf_new (buf.c:16-21).  FIX C04-3: siz == 0 becomes 1 before the size is computed *)
  Definition buf_new (h : heap) (siz num : N) : heap * option buf * list event :=
    let siz' := if siz =? 0 then 1 else siz in
    let bytes := wadd BUF_HDR (wmul siz' num) in
    let '(p, h1, ev) := a_alloc h None bytes in
    match p with
    | Some id => (h1, Some (mkBuf id (mkArr siz' 0 num (resize_slots siz' [] (bytes - BUF_HDR)))), ev)
    | None => (h1, None, ev)
    end.

  (* a_buf_setm (buf.c:46-51).  FIX C04-4: num is clamped to the new capacity *)
  Definition buf_setm (h : heap) (b : buf) (mem : N) : heap * buf * bool * list event :=
    let a := b_arr b in
    let bytes := wadd BUF_HDR (wmul (a_siz a) mem) in
    let '(p, h1, ev) := a_alloc h (Some (b_blk b)) bytes in
    match p with
    | Some id => (h1, mkBuf id (mkArr (a_siz a) (if mem <? a_num a then mem else a_num a) mem
                                       (resize_slots (a_siz a) (a_sl a) (bytes - BUF_HDR))), true, ev)
    | None => (h1, b, false, ev)
    end.

  Definition bwith (b : buf) (a : arr) : buf := mkBuf (b_blk b) a.

  Definition buf_step (h : heap) (b : buf) (o : op) : res (heap * buf * out) :=
    let a := b_arr b in
    match o with
    | OSetm mem =>
        let '(h1, b1, ok, ev) := buf_setm h b mem in
        Ok (h1, b1, mkOut (RInt (if ok then A_SUCCESS else A_OMEMORY)) [] ev None)
    | OSetn n dtor fill =>
        (* a_buf_setn (buf.c:53-68): destructor loop, clamp to mem *)
        d <- arr_dtor_down a n dtor ;;
        let n' := if a_mem a <? n then a_mem a else n in
        let a2 := mkArr (a_siz a) n' (a_mem a) (a_sl a) in
        a3 <- (if a_num a <? n'
               then (if n' - a_num a <=? nlen (a_sl a)
                     then fill_from a2 (wmul (a_siz a) (a_num a)) (N.to_nat (n' - a_num a)) fill
                     else Err OutOfBounds)
               else Ok a2) ;;
        Ok (h, bwith b a3, mkOut RVoid d [] None)
    | OSetz siz dtor =>
        d <- arr_dtor_down a 0 dtor ;;
        let a1 := mkArr (a_siz a) 0 (a_mem a) (a_sl a) in
        Ok (h, bwith b (arr_setz a1 siz), mkOut RVoid d [] None)
    | OSort => a1 <- arr_sort a ;; Ok (h, bwith b a1, mkOut RVoid [] [] None)
    | OSortFore => a1 <- arr_sort_fore a ;; Ok (h, bwith b a1, mkOut RVoid [] [] None)
    | OSortBack => a1 <- arr_sort_back a ;; Ok (h, bwith b a1, mkOut RVoid [] [] None)
    | OPushSort key0 =>
        let key := fit (a_siz a) key0 in
        if a_num a <? a_mem a then
          r2 <- arr_push_sort a key ;;
          let (a2, off) := r2 in
          a3 <- put a2 off key ;;
          Ok (h, bwith b a3, mkOut (vec_ptr_ret a3 (Some off) (a_num a3)) [] [] None)
        else Ok (h, b, mkOut (RPtr None None) [] [] None)
    | OSearch key => f <- arr_search a (fit (a_siz a) key) ;; Ok (h, b, mkOut (RFound f) [] [] None)
    | OInsert idx x =>
        if a_num a <? a_mem a then
          r2 <- arr_insert a idx ;;
          let (a2, off) := r2 in
          a3 <- put a2 off x ;;
          Ok (h, bwith b a3, mkOut (vec_ptr_ret a3 (Some off) (a_num a3)) [] [] None)
        else Ok (h, b, mkOut (RPtr None None) [] [] None)
    | OPushFore x =>
        if a_num a <? a_mem a then
          r2 <- arr_insert a 0 ;;
          let (a2, off) := r2 in
          a3 <- put a2 off x ;;
          Ok (h, bwith b a3, mkOut (vec_ptr_ret a3 (Some off) (a_num a3)) [] [] None)
        else Ok (h, b, mkOut (RPtr None None) [] [] None)
    | OPushBack x =>
        if a_num a <? a_mem a then
          let (a2, off) := arr_inc a in
          a3 <- put a2 off x ;;
          Ok (h, bwith b a3, mkOut (vec_ptr_ret a3 (Some off) (a_num a3)) [] [] None)
        else Ok (h, b, mkOut (RPtr None None) [] [] None)
    | ORemove idx =>
        r <- arr_remove a idx ;;
        let (a1, o1) := r in
        Ok (h, bwith b a1, mkOut (vec_ptr_ret a1 o1 (a_mem a1)) [] [] None)
    | OPullFore =>
        r <- arr_remove a 0 ;;
        let (a1, o1) := r in
        Ok (h, bwith b a1, mkOut (vec_ptr_ret a1 o1 (a_mem a1)) [] [] None)
    | OPullBack =>
        let (a1, o1) := arr_pull_back a in
        Ok (h, bwith b a1, mkOut (vec_ptr_ret a1 o1 (a_mem a1)) [] [] None)
    | OStore idx vs =>
        (* a_buf_store (buf.c:260-291): refuses when num + cnt > mem *)
        if wadd (a_num a) (nlen vs) <=? a_mem a then
          a2 <- arr_store a idx vs ;;
          Ok (h, bwith b a2, mkOut (RInt A_SUCCESS) [] [] None)
        else Ok (h, b, mkOut (RInt A_OBOUNDS) [] [] None)
    | OErase idx cnt dtor =>
        r <- arr_erase a idx cnt dtor ;;
        let '(a1, rc, d) := r in
        Ok (h, bwith b a1, mkOut (RInt rc) d [] None)
    | OAt idx => Ok (h, b, mkOut (vec_ptr_ret a (arr_at a idx) (a_num a)) [] [] None)
    | OOf idx => Ok (h, b, mkOut (vec_ptr_ret a (arr_of a idx) (a_num a)) [] [] None)
    | OTop => Ok (h, b, mkOut (vec_ptr_ret a (arr_top a) (a_num a)) [] [] None)
    | OEnd => Ok (h, b, mkOut (RPtr (Some (arr_end a)) None) [] [] None)
    end.

  (* a_buf_die (buf.c:23-30) *)
  Definition buf_die (h : heap) (b : buf) (dtor : bool) : res (heap * list elem * list event) :=
    d <- arr_dtor_down (b_arr b) 0 dtor ;;
    let '(_, h1, ev) := a_alloc h (Some (b_blk b)) 0 in
    Ok (h1, d, ev).

  (* ---------------------------------------------------------------- worlds and histories *)
  (** A world holds two vector handles (for a_vec_swap) and one buffer handle. *)
  Record world := mkWorld { w_heap : heap; w_v0 : option (N * vec); w_v1 : option (N * vec);
                            w_b : option buf }.
  Inductive wop :=
  | WVNew (which : bool) (siz : N)
  | WVDie (which : bool) (dtor : bool)
  | WVSwap
  | WV (which : bool) (o : op)
  | WBNew (siz num : N)
  | WBDie (dtor : bool)
  | WB (o : op).

  Definition get_v (w : world) (which : bool) := if which then w_v1 w else w_v0 w.
  Definition set_v (w : world) (which : bool) (h : heap) (x : option (N * vec)) : world :=
    if which then mkWorld h (w_v0 w) x (w_b w) else mkWorld h x (w_v1 w) (w_b w).

  Definition absent : out := mkOut RVoid [] [] None.
  Definition failed (e : err) : out := mkOut RVoid [] [] (Some e).

  (* an operation the model cannot carry out ([Err]) leaves the world unchanged and is reported *)
  Definition wstep (w : world) (o : wop) : world * out :=
    match o with
    | WVNew which siz =>
        match get_v w which with
        | Some _ => (w, absent)                       (* handle in use: the harness skips the op *)
        | None => let '(h1, x, ev) := vec_new (w_heap w) siz in
                  (set_v w which h1 x, mkOut RVoid [] ev None)
        end
    | WVDie which dtor =>
        match get_v w which with
        | None => (w, absent)
        | Some (id, v) =>
            match vec_die (w_heap w) id v dtor with
            | Ok (h1, d, ev) => (set_v w which h1 None, mkOut RVoid d ev None)
            | Err e => (w, failed e)
            end
        end
    | WVSwap =>
        (* a_vec_swap (vec.c:51-57) exchanges the two structs; the harness keeps the struct blocks *)
        match w_v0 w, w_v1 w with
        | Some (i0, x0), Some (i1, x1) =>
            (mkWorld (w_heap w) (Some (i0, x1)) (Some (i1, x0)) (w_b w), mkOut RVoid [] [] None)
        | _, _ => (w, absent)
        end
    | WV which o =>
        match get_v w which with
        | None => (w, absent)
        | Some (id, v) =>
            match vec_step (w_heap w) v o with
            | Ok (h1, v1, r) => (set_v w which h1 (Some (id, v1)), r)
            | Err e => (w, failed e)
            end
        end
    | WBNew siz num =>
        match w_b w with
        | Some _ => (w, absent)
        | None => let '(h1, x, ev) := buf_new (w_heap w) siz num in
                  (mkWorld h1 (w_v0 w) (w_v1 w) x, mkOut RVoid [] ev None)
        end
    | WBDie dtor =>
        match w_b w with
        | None => (w, absent)
        | Some b =>
            match buf_die (w_heap w) b dtor with
            | Ok (h1, d, ev) => (mkWorld h1 (w_v0 w) (w_v1 w) None, mkOut RVoid d ev None)
            | Err e => (w, failed e)
            end
        end
    | WB o =>
        match w_b w with
        | None => (w, absent)
        | Some b =>
            match buf_step (w_heap w) b o with
            | Ok (h1, b1, r) => (mkWorld h1 (w_v0 w) (w_v1 w) (Some b1), r)
            | Err e => (w, failed e)
            end
        end
    end.

  Definition init_world (sched : list bool) (limit : N) : world :=
    mkWorld (mkHeap sched [] 1 limit) None None None.

  Fixpoint run (w : world) (ops : list wop) : world * list out :=
    match ops with
    | [] => (w, [])
    | o :: ops' => let (w1, r) := wstep w o in
                   let (w2, rs) := run w1 ops' in (w2, r :: rs)
    end.
End Model.

(** Instances run by the correspondence check: the harness comparator is memcmp. *)
Definition wstep_lex : world -> wop -> world * out := wstep lex_cmp.
Definition run_lex : world -> list wop -> world * list out := run lex_cmp.
