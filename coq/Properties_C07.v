(* C07 -- Allocation failure never corrupts a container or leaks memory.

   String part.  Model: C06/StrDefs.v (every a_alloc request of size > 0 consumes one boolean of
   a fault schedule [sc]; every a_alloc call is logged as an event) with the fault view of
   C07/StrFaultDefs.v ([keeps]; the life-cycle machine [fstep]/[frun]/[destroy] with a ledger of
   heap blocks).  Tied to src/str.c by checks/C07.py (fault enumeration) and checks/C06.py.
   Vocabulary: [steps ops m] = every (state, op, (state', result, events)) triple of a history;
   [any_failed e] = some request among the events [e] was refused; [ops_ok] = the documented
   preconditions (sizes below 2^64 - 8, formatter output below INT_MAX).
   Proofs: C07/StrFaultProofs.v, C07/StrLedgerProofs.v. *)
From Coq Require Import NArith ZArith List Bool.
From LibaV Require Import C06.StrDefs C06.StrSpec C07.StrFaultDefs C07.StrFaultProofs C07.StrLedgerProofs.
From LibaV Require C04.VecDefs C04.VecSpec C07.VecFaultDefs C07.VecFaultProofs C07.VecLedgerProofs.
From LibaV Require C05.DListDefs C05.DListProofs C05.QueDefs C05.QueSpec C05.QueProofs.
From LibaV Require C07.QueFaultDefs C07.QueTraceProofs C07.QueFixProofs C07.QueLedgerProofs C07.QueFaultProofs.
Import ListNotations.
Local Open Scope N_scope.

(* Clause "the operation reports failure through its return value" -- every step of every
   history from A_STR_INIT under every fault schedule: if a request was refused, the result is
   the failure value of that function (0 for the formatted append, NULL for a_str_exit, -1 for
   a_str_catc/a_str_catc_, A_OMEMORY for everything else that allocates). *)
Theorem str_fault_reports :
  forall (sc : sched) (ops : list op), ops_ok ops (m_init sc) ->
  Forall (fun x : mstate * op * (mstate * ret * list ev) =>
            let '(m0, o, (m1, r, e)) := x in
            any_failed e = true ->
            fail_ret o = Some r /\
            match o with
            | OCatf _ _ => r = RInt 0%Z
            | OExit _ => r = RPtr None
            | OCatc _ _ | OCatc_ _ _ => r = RInt (-1)%Z
            | _ => r = RInt A_OMEMORY
            end)
         (steps ops (m_init sc)).
Proof. exact str_fault_reports_all. Qed.
Print Assumptions str_fault_reports.

(* Clause "the container still holds exactly its previous contents and satisfies its
   invariants": after a step with a refused request both string objects have the same byte
   string, length, capacity and block size, the invariant holds, and a NUL that stood directly
   after the content is still there. *)
Theorem str_fault_preserves :
  forall (sc : sched) (ops : list op), ops_ok ops (m_init sc) ->
  Forall (fun x : mstate * op * (mstate * ret * list ev) =>
            let '(m0, o, (m1, r, e)) := x in
            any_failed e = true ->
            minv m1 /\ abs m1 = abs m0 /\ keeps (sA m0) (sA m1) /\ keeps (sB m0) (sB m1))
         (steps ops (m_init sc)).
Proof. exact str_fault_preserves_all. Qed.
Print Assumptions str_fault_preserves.

(* Clause "the same operation succeeds later once memory is available": from any state
   satisfying the invariant, after a step with a refused request, re-issuing the operation with
   memory available refuses nothing and yields the byte strings and the result of the run in
   which the operation was issued once with memory available (the block handed over by
   a_str_exit is compared up to and including its terminator). *)
Theorem str_fault_retry :
  forall o m m1 r1 e1,
  minv m -> op_ok o m -> step o m = (m1, r1, e1) -> any_failed e1 = true ->
  forall m2 r2 e2 m3 r3 e3,
    step o (set_sch [] m1) = (m2, r2, e2) ->
    step o (set_sch [] m) = (m3, r3, e3) ->
    any_failed e2 = false /\ any_failed e3 = false /\
    abs m2 = abs m3 /\ ret_equiv (len (asel (fst (op_needs o)) (abs m)) + 1) r2 r3.
Proof. exact fault_retry_available. Qed.
Print Assumptions str_fault_retry.

(* ... and with any other schedule under which neither run is refused anything. *)
Theorem str_fault_retry_any_schedule :
  forall o m m1 r1 e1,
  minv m -> op_ok o m -> step o m = (m1, r1, e1) -> any_failed e1 = true ->
  forall sc2 m2 r2 e2 m3 r3 e3,
    step o (set_sch sc2 m1) = (m2, r2, e2) ->
    step o (set_sch sc2 m) = (m3, r3, e3) ->
    any_failed e2 = false -> any_failed e3 = false ->
    abs m2 = abs m3 /\ ret_equiv (len (asel (fst (op_needs o)) (abs m)) + 1) r2 r3.
Proof. exact fault_retry. Qed.
Print Assumptions str_fault_retry_any_schedule.

(* Clause "every block obtained from the allocator is released exactly once by the time the
   container is destroyed": for every history of constructions (a_str_ctor, a_str_new),
   operations and destructions (a_str_dtor, a_str_die, the caller freeing what a_str_exit handed
   over) on two objects, under every fault schedule and without any precondition: no release or
   resize ever names a block that is not live with that size ([lerr] stays false), and after the
   destructors no block is live. *)
Theorem str_ledger_balanced :
  forall (sc : sched) (fs : list fop),
  let st := fst (frun fs (f_init sc)) in
  lerr (led st) = false /\
  lerr (led (destroy st)) = false /\
  (forall j, live (led (destroy st)) j = None) /\
  live_list (led (destroy st)) = [].
Proof. exact str_ledger_balanced_all. Qed.
Print Assumptions str_ledger_balanced.

(* The code as found (before fix ac1fa53) did not satisfy the second clause: a refused growth
   inside a_str_catv left the measuring pass' text where the terminator had been. *)
Theorem str_catv_as_found_refuted :
  exists s out sc s' sc' e,
    inv s /\ terminated s /\ catv_orig s out sc = Some (0%Z, s', sc', e) /\ any_failed e = true /\
    content s' = content s /\ ~ terminated s'.
Proof. exact catv_fault_as_found_refuted. Qed.
Print Assumptions str_catv_as_found_refuted.

(* ====================================================================== vector and buffer part.
   Model: C04/VecDefs.v (a world = two a_vec handles incl. a_vec_swap and one a_buf handle;
   [a_alloc] answers every request of size > 0 from the schedule [h_sched], refuses requests above
   [h_limit], logs events and keeps the ledger [h_live]; a release/resize of a block that is not
   in the ledger is the event [EvBad]) with the vocabulary of C07/VecFaultDefs.v: [refused r] =
   a request of the operation was refused; [reported] = A_OMEMORY / null element pointer / null
   handle; [set_sched] = the same world with other pending answers; [owned] = the blocks the
   handles own; [destroy_ops] = a_vec_die on both handles, a_buf_die.
   [wsteps cmp w ops] = every (world, op, (world', output)) triple of a history.
   Proofs: C07/VecFaultProofs.v, C07/VecLedgerProofs.v.  Tied to src/vec.c, src/buf.c by
   checks/C07.py (fault enumeration) and checks/C04.py. *)
Module VecPart.
Import C04.VecDefs C04.VecSpec C07.VecFaultDefs C07.VecFaultProofs C07.VecLedgerProofs.

(* "reports": every step of every history from every world, every comparator, every schedule *)
Theorem vec_fault_reports :
  forall (cmp : elem -> elem -> comparison) (w : world) (ops : list wop),
  Forall (fun x : world * wop * (world * out) =>
            let '(w0, o, (w1, r)) := x in refused r = true -> reported o w1 r)
         (wsteps cmp w ops).
Proof. exact vec_fault_reports_all. Qed.
Print Assumptions vec_fault_reports.

(* "preserves": both vectors, the buffer (whole representation: size, count, capacity, every
   slot) and the ledger are exactly as before, the invariant is kept, no destructor ran *)
Theorem vec_fault_preserves :
  forall (cmp : elem -> elem -> comparison) (w : world) (ops : list wop),
  Forall (fun x : world * wop * (world * out) =>
            let '(w0, o, (w1, r)) := x in
            refused r = true ->
            w_v0 w1 = w_v0 w0 /\ w_v1 w1 = w_v1 w0 /\ w_b w1 = w_b w0 /\
            h_live (w_heap w1) = h_live (w_heap w0) /\
            (world_inv w0 -> world_inv w1) /\ o_dtor r = [] /\ o_err r = None)
         (wsteps cmp w ops).
Proof. exact vec_fault_preserves_all. Qed.
Print Assumptions vec_fault_preserves.

(* one step, any world: the world after a refused request IS the world before it, with one
   pending answer consumed *)
Theorem vec_fault_step_exact :
  forall (cmp : elem -> elem -> comparison) w o w' r,
  wstep cmp w o = (w', r) -> refused r = true ->
  reported o w' r /\ w' = set_sched w (tl (h_sched (w_heap w))) /\ o_dtor r = [] /\ o_err r = None.
Proof. exact vec_fault_step. Qed.
Print Assumptions vec_fault_step_exact.

(* "retry": re-issuing the operation after the refusal, under any schedule, is the step the
   untouched world makes under that schedule (in particular the empty schedule = memory
   available: then only a request above the harness limit is refused, [vec_alloc_granted]) *)
Theorem vec_fault_retry :
  forall (cmp : elem -> elem -> comparison) w o w' r,
  wstep cmp w o = (w', r) -> refused r = true ->
  forall sc, wstep cmp (set_sched w' sc) o = wstep cmp (set_sched w sc) o.
Proof. exact C07.VecFaultProofs.vec_fault_retry. Qed.
Print Assumptions vec_fault_retry.

Theorem vec_alloc_granted :
  forall h addr size p h' ev,
  h_sched h = [] -> a_alloc h addr size = (p, h', ev) ->
  h_sched h' = [] /\ forall e, In e ev -> ev_refused e = true -> h_limit h < ev_size e.
Proof. exact a_alloc_granted. Qed.
Print Assumptions vec_alloc_granted.

(* "ledger": for every history satisfying the documented preconditions [hist_pre] (C04), from the
   empty world, under every schedule and limit: no release/resize ever names a block that is not
   live (failed operations included), the ledger holds exactly the blocks the handles own, once
   each, and after a_vec_die / a_buf_die the ledger is empty *)
Theorem vec_ledger_balanced :
  forall cmp : elem -> elem -> comparison,
  (forall a b c, le cmp a b -> le cmp b c -> le cmp a c) -> (forall a b, le cmp a b \/ le cmp b a) ->
  forall (sched : list bool) (limit : N) (ops : list wop),
  hist_pre cmp (init_world sched limit) ops ->
  let w := fst (run cmp (init_world sched limit) ops) in
  let outs := snd (run cmp (init_world sched limit) ops) in
  Forall (fun r => bad r = false) outs /\
  (NoDup (map fst (h_live (w_heap w))) /\ NoDup (owned w) /\
   (forall i, In i (map fst (h_live (w_heap w))) <-> In i (owned w))) /\
  (let (w2, outs2) := run cmp w destroy_ops in
   h_live (w_heap w2) = [] /\ Forall (fun r => bad r = false) outs2 /\
   Forall (fun r => o_err r = None) outs2).
Proof. exact vec_ledger_balanced_all. Qed.
Print Assumptions vec_ledger_balanced.
End VecPart.
Export VecPart.

(* ====================================================================== queue part.
   Model: C05/QueDefs.v (pointer-level: heap of ring nodes [w_h], two queue objects with their
   stacks of recycled nodes; every a_alloc request of size > 0 consumes one boolean of [w_sched]
   and is logged in [w_trace]; [failed w'] = a request of the last operation was refused) with
   coq/C07/QueFaultDefs.v: [qf_step] = one call of the library as it is now (a_que_drop reserves
   the pool array first, a_que_setz releases the recycled nodes: fix commits 2e456ba / 8678f0c),
   [q_fail_ret] = the failure value (null element pointer / A_OMEMORY), [q_same] = the same world
   up to pending schedule and trace, [live_blocks] = element nodes in the heap + one pool array
   per object whose capacity is not 0, [q_destroy] = a_que_dtor on both objects.
   [QInv w X] is C05's representation invariant (rings, recycled nodes disjoint, counts);
   [qf_hist_pre] = every a_que_swap_ of the history names two enqueued elements (C05's
   precondition); [qf_steps w os] = every (world, operation, outcome) of a history.
   Proofs: C07/QueTraceProofs.v, QueFixProofs.v, QueLedgerProofs.v, QueFaultProofs.v.
   Tied to src/que.c by checks/C07.py (fault enumeration, own driver harness/C07/que_drv.c). *)
Module QuePart.
Import FMapPositive C05.DListDefs C05.DListProofs C05.QueDefs C05.QueSpec C05.QueProofs.
Import C07.QueFaultDefs C07.QueTraceProofs C07.QueLedgerProofs C07.QueFaultProofs.

(* "reports" + "preserves" + "retry", every step of every history from the two freshly
   constructed queues, under every fault schedule (the schedule is part of the world and may be
   replaced between operations by QSched): each operation is carried out without model fault;
   if one of its requests was refused it returns its failure value, the world is the one before
   the call up to pending schedule and trace -- so both rings, both stacks of recycled nodes,
   every element address and value, counts and capacities, the invariant and the abstract
   contents are as before -- and re-issuing it under any schedule is the step the untouched world
   makes under that schedule *)
Theorem que_fault_reports_preserves_retry :
  forall os : list qop, qf_hist_pre q_world0 os ->
  Forall (fun x : qworld * qop * outcome (qworld * Z) =>
            let '(w0, o, res) := x in
            exists w' r, res = Ok (w', r) /\ (exists X', QInv w' X') /\
              (failed w' = true ->
                 q_fail_ret o = Some r /\ q_same w0 w' /\
                 (forall X, QInv w0 X -> QInv w' X /\ abs w' X = abs w0 X) /\
                 (forall sc, qf_step (set_sched w' sc) o = qf_step (set_sched w0 sc) o)))
         (qf_steps q_world0 os).
Proof. exact que_fault_all_init. Qed.
Print Assumptions que_fault_reports_preserves_retry.

(* one step from any state satisfying the invariant *)
Theorem que_fault_one_step :
  forall w0 X o w' r,
  QInv w0 X -> qf_step w0 o = Ok (w', r) -> failed w' = true ->
  q_fail_ret o = Some r /\ q_same w0 w' /\ QInv w' X /\ abs w' X = abs w0 X.
Proof. exact que_fault_step. Qed.
Print Assumptions que_fault_one_step.

(* once memory is available (nothing pending in the schedule) nothing is refused *)
Theorem que_fault_retry_granted :
  forall w0 X o,
  QInv w0 X -> dq_pre o (abs w0 X) -> not_sched o -> no_fault w0 ->
  exists w' r, qf_step w0 o = Ok (w', r) /\ failed w' = false /\ no_fault w'.
Proof. exact que_retry_granted. Qed.
Print Assumptions que_fault_retry_granted.

(* the repaired a_que_drop / a_que_setz are all-or-nothing: every operation refines the abstract
   double-ended sequence of C05, with  drop / setz: (0, emptied) or (A_OMEMORY, unchanged) *)
Theorem que_refines_all_or_nothing :
  forall w0 X o,
  QInv w0 X -> dq_pre o (abs w0 X) ->
  exists w' r X', qf_step w0 o = Ok (w', r) /\ QInv w' X' /\
    dqf_step o (abs w0 X) r (failed w') (abs w' X') /\
    (not_sched o -> no_fault w0 -> no_fault w' /\ failed w' = false).
Proof. exact qf_step_refines. Qed.
Print Assumptions que_refines_all_or_nothing.

(* "ledger": along every history (failed operations included) the heap holds exactly the two
   sentinels and the nodes the two objects account for (enqueued + recycled: none is lost, none
   is released twice -- a release of an address that is not in the heap would not lower the
   count), and after a_que_dtor on both objects no block is live *)
Theorem que_ledger_balanced :
  forall os : list qop, qf_hist_pre q_world0 os ->
  exists w' rs, qf_run q_world0 os = Ok (w', rs) /\
    (PositiveMap.cardinal (w_h w') = (2 + held w')%nat /\ live (w_h w') 1 /\ live (w_h w') 2 /\
     (forall x, live (w_h w') x -> (x < w_fresh w')%N) /\ (3 <= w_fresh w')%N) /\
    exists w'', q_destroy w' = Ok w'' /\ live_blocks w'' = 0%nat /\
                (forall x, live (w_h w'') x -> x = 1%N \/ x = 2%N).
Proof. exact que_ledger_balanced_init. Qed.
Print Assumptions que_ledger_balanced.

(* the bodies as found (before the two fix: commits) are refuted by witness: nine elements, a
   later request refused, A_OMEMORY returned after elements had been moved / dropped *)
Theorem que_drop_as_found_refuted :
  exists w w', (exists X, QInv w X) /\ failed w = false /\
    q_drop_orig w false = Ok (w', 4%Z) /\ failed w' = true /\
    ring_of (w_h w) 1 (fuel_of w) = Some [3; 4; 5; 6; 7; 8; 9; 10; 11]%N /\
    ring_of (w_h w') 1 (fuel_of w') = Some [11]%N.
Proof. exact C07.QueFaultProofs.que_drop_as_found_refuted. Qed.
Print Assumptions que_drop_as_found_refuted.

Theorem que_setz_as_found_refuted :
  exists w w', (exists X, QInv w X) /\ failed w = false /\
    q_setz_orig w false 9 = Ok (w', 4%Z) /\ failed w' = true /\
    ring_of (w_h w) 1 (fuel_of w) = Some [3; 4; 5; 6; 7; 8; 9; 10; 11]%N /\
    ring_of (w_h w') 1 (fuel_of w') = Some []%N.
Proof. exact C07.QueFaultProofs.que_setz_as_found_refuted. Qed.
Print Assumptions que_setz_as_found_refuted.
End QuePart.
Export QuePart.
