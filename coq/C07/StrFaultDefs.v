(* C07 (string part) -- allocation failure and the ledger of heap blocks for liba's a_str.
   Definitions only (no proofs).  Built on the C06 model coq/C06/StrDefs.v, whose operations already
   take a fault schedule (one boolean per a_alloc request of size > 0) and log every a_alloc call.

   What is added here
   * [keeps]: what "the container still holds exactly its previous contents and satisfies its
     invariants" means for one string object after a failed operation (same length, capacity,
     block size, byte string; a NUL that stood directly after the content is still there).
   * [catv_orig]: a_str_catv as found (before proposed_fixes/C07-str-1.diff), for the refutation.
   * the ledger machine: the two a_str objects of the C06 machine get a life cycle
     (a_str_ctor / a_str_new / a_str_die, scope exit) and every block obtained from a_alloc gets an
     identity; each step REPLAYS the allocator events of the C06 step against a ledger
     id -> size.  A release or resize that names a block which is not live with that size sets
     [lerr].  a_str_exit hands its block to the caller, who frees it ([EvFree] appended to the
     trace).  realloc always yields a new identity (the harness' allocator always moves). *)
From Coq Require Import NArith ZArith List Bool.
From LibaV Require Import C06.StrDefs C06.StrSpec.
Import ListNotations.
Local Open Scope N_scope.

(* ------------------------------------------------------------------ one object across a failed op *)
Definition bsize (s : str) : option N :=
  match ptr s with Some b => Some (len b) | None => None end.

(* "the container still holds exactly its previous contents and satisfies its invariants":
   one object before ([s]) and after ([s']) an operation in which a request was refused *)
Definition keeps (s s' : str) : Prop :=
  num s' = num s /\ mem s' = mem s /\ bsize s' = bsize s /\ content s' = content s /\
  (terminated s -> terminated s').

(* return values of a retry and of the fault-free run: equal, except that the block handed over
   by a_str_exit may differ beyond the terminator *)
Definition ret_equiv (k : N) (r r' : ret) : Prop :=
  match r, r' with
  | RPtr (Some b), RPtr (Some b') => take k b = take k b'
  | _, _ => r = r'
  end.

(* replace the schedule (memory becomes available again / a retry with another schedule) *)
Definition set_sch (sc : sched) (m : mstate) : mstate := mkM (sA m) (sB m) sc.

(* int a_str_catv as found: the failure path returns at once *)
Definition catv_orig (s : str) (out : list N) (sc : sched) : ares Z :=
  let room := wsub (mem s) (num s) in
  match vsn (ptr s) (num s) room out with
  | None => None
  | Some p1 =>
      let res := len out in
      let need := wadd (num s) (wadd res 1) in
      let s0 := mkStr p1 (num s) (mem s) in
      if mem s <? need then
        let '(rc, s1, sc1, e) := setm_ s0 need sc in
        if (rc =? 0)%Z then
          match vsn (ptr s1) (num s1) (wsub (mem s1) (num s1)) out with
          | None => None
          | Some p2 =>
              Some (Z.of_N res,
                    mkStr p2 (if 0 <? res then wadd (num s1) res else num s1) (mem s1), sc1, e)
          end
        else Some (0%Z, s1, sc1, e)
      else
        Some (Z.of_N res, mkStr p1 (if 0 <? res then wadd (num s) res else num s) (mem s), sc, [])
  end.

(* ------------------------------------------------------------------ allocator trace of one holder *)
(* size of the block a holder owns (None = no block) across one a_alloc event *)
Definition ev_step (sz : option N) (e : ev) : option (option N) :=
  match e, sz with
  | EvMalloc n true, None => Some (Some n)
  | EvMalloc n false, None => Some None
  | EvRealloc o n true, Some o' => if o =? o' then Some (Some n) else None
  | EvRealloc o n false, Some o' => if o =? o' then Some (Some o') else None
  | EvFree o, Some o' => if o =? o' then Some None else None
  | EvFreeNull, None => Some None
  | _, _ => None
  end.

Fixpoint trace (sz : option N) (es : list ev) : option (option N) :=
  match es with
  | [] => Some sz
  | e :: r => match ev_step sz e with
              | Some sz' => trace sz' r
              | None => None
              end
  end.

(* ------------------------------------------------------------------ the ledger *)
Record ledger : Type := mkL { live : N -> option N; next : N; lerr : bool }.

Definition l_init : ledger := mkL (fun _ => None) 0 false.
Definition l_add (n : N) (L : ledger) : ledger * N :=
  (mkL (fun j => if j =? next L then Some n else live L j) (next L + 1) (lerr L), next L).
Definition l_del (i : N) (L : ledger) : ledger :=
  mkL (fun j => if j =? i then None else live L j) (next L) (lerr L).
Definition l_fail (L : ledger) : ledger := mkL (live L) (next L) true.
Definition l_has (L : ledger) (i o : N) : bool :=
  match live L i with Some o' => o =? o' | None => false end.

(* replay one a_alloc event issued by the holder whose current block has identity [cur] *)
Definition l_ev (L : ledger) (cur : option N) (e : ev) : ledger * option N :=
  match e, cur with
  | EvMalloc n true, None => let (L', i) := l_add n L in (L', Some i)
  | EvMalloc n false, None => (L, None)
  | EvRealloc o n ok, Some i =>
      if l_has L i o then
        if ok then let (L', i') := l_add n (l_del i L) in (L', Some i') else (L, cur)
      else (l_fail L, cur)
  | EvFree o, Some i => if l_has L i o then (l_del i L, None) else (l_fail L, cur)
  | EvFreeNull, None => (L, None)
  | _, _ => (l_fail L, cur)
  end.

Fixpoint l_replay (L : ledger) (cur : option N) (es : list ev) : ledger * option N :=
  match es with
  | [] => (L, cur)
  | e :: r => let (L', cur') := l_ev L cur e in l_replay L' cur' r
  end.

(* the live blocks, by increasing identity *)
Fixpoint live_upto (k : nat) (L : ledger) : list (N * N) :=
  match k with
  | O => []
  | S k' => let i := N.of_nat k' in
            match live L i with
            | Some n => live_upto k' L ++ [(i, n)]
            | None => live_upto k' L
            end
  end.
Definition live_list (L : ledger) : list (N * N) := live_upto (N.to_nat (next L)) L.

(* ------------------------------------------------------------------ the machine with life cycle *)
Definition STRUCT_SIZE : N := 24.                       (* sizeof(a_str) *)

Inductive slot : Type :=
| SAbsent                  (* no object (never constructed, died, or a_str_new returned NULL) *)
| SStack                   (* a_str_ctor on caller-owned storage *)
| SHeap (id : N).          (* a_str_new: the structure is a heap block itself *)

Record fstate : Type :=
  mkF { base : mstate; slA : slot; slB : slot; bidA : option N; bidB : option N; led : ledger }.

Definition slot_of (t : tgt) (st : fstate) : slot := match t with TA => slA st | TB => slB st end.
Definition bid_of (t : tgt) (st : fstate) : option N := match t with TA => bidA st | TB => bidB st end.
Definition other (t : tgt) : tgt := match t with TA => TB | TB => TA end.

Definition set_obj (t : tgt) (m : mstate) (sl : slot) (bid : option N) (L : ledger) (st : fstate) : fstate :=
  match t with
  | TA => mkF m sl (slB st) bid (bidB st) L
  | TB => mkF m (slA st) sl (bidA st) bid L
  end.

Definition absent (sl : slot) : bool := match sl with SAbsent => true | _ => false end.

Inductive fop : Type :=
| FCtor (t : tgt)          (* a_str_ctor on an absent slot *)
| FNew (t : tgt)           (* a_str_new into an absent slot *)
| FDie (t : tgt)           (* a_str_die (heap object) / a_str_dtor + end of scope (stack object) *)
| FOp (o : op).            (* an operation of the C06 machine *)

Inductive fret : Type :=
| FR (r : ret)
| FSkip.                   (* the object(s) the operation needs do not exist: nothing is called *)

(* the object an operation works on, and whether it also reads/writes the other one *)
Definition op_needs (o : op) : tgt * bool :=
  match o with
  | OSwap => (TA, true)
  | OCat t self | OCat_ t self => (t, negb self)
  | OCmp t => (t, true)
  | ODtor t | OExit t | OSetm t _ | OSetm_ t _ | OSetn t _ | OSetn_ t _ | OGetc t | OGetc_ t
  | OCatc t _ | OCatc_ t _ | OGetn t _ _ | OGetn_ t _ _ | OCatn t _ | OCatn_ t _ | OCats t _
  | OCats_ t _ | OCatf t _ | ORtrim t _ | ORtrim_ t _ | OLtrim t _ | OLtrim_ t _ | OTrim t _
  | OTrim_ t _ | OUtf t _ | OCmpn t _ | OCmps t _ => (t, false)
  end.

Definition fstep (f : fop) (st : fstate) : fstate * fret * list ev :=
  match f with
  | FCtor t =>
      if absent (slot_of t st)
      then (set_obj t (upd t str_init (sch (base st)) (base st)) SStack None (led st) st, FR RVoid, [])
      else (st, FSkip, [])
  | FNew t =>
      if absent (slot_of t st) then
        let '(p, sc', e) := a_alloc None STRUCT_SIZE (sch (base st)) in
        let (L, cur) := l_replay (led st) None e in
        match cur with
        | Some id => (set_obj t (upd t str_init sc' (base st)) (SHeap id) None L st, FR (RInt 1%Z), e)
        | None => (set_obj t (upd t str_init sc' (base st)) SAbsent None L st, FR (RInt 0%Z), e)
        end
      else (st, FSkip, [])
  | FDie t =>
      match slot_of t st with
      | SAbsent => (st, FR RVoid, [])                       (* a_str_die(NULL) *)
      | SStack =>
          let (s', e) := dtor (sel t (base st)) in
          let (L, cur) := l_replay (led st) (bid_of t st) e in
          (set_obj t (upd t s' (sch (base st)) (base st)) SAbsent cur L st, FR RVoid, e)
      | SHeap id =>
          let (s', e) := dtor (sel t (base st)) in
          let (L, cur) := l_replay (led st) (bid_of t st) e in
          let e2 := [EvFree STRUCT_SIZE] in
          let (L2, _) := l_replay L (Some id) e2 in
          (set_obj t (upd t s' (sch (base st)) (base st)) SAbsent cur L2 st, FR RVoid, e ++ e2)
      end
  | FOp o =>
      let (t, both) := op_needs o in
      if absent (slot_of t st) || (both && absent (slot_of (other t) st)) then (st, FSkip, [])
      else
        let '(m', r, e) := step o (base st) in
        match o with
        | OSwap => (mkF m' (slA st) (slB st) (bidB st) (bidA st) (led st), FR r, e)
        | OExit _ =>
            let (L1, cur1) := l_replay (led st) (bid_of t st) e in
            match r with
            | RPtr (Some blk) =>                             (* the caller now owns blk, and frees it *)
                let e2 := [EvFree (len blk)] in
                let (L2, cur2) := l_replay L1 cur1 e2 in
                (set_obj t m' (slot_of t st) cur2 L2 st, FR r, e ++ e2)
            | _ => (set_obj t m' (slot_of t st) cur1 L1 st, FR r, e)
            end
        | _ =>
            let (L1, cur1) := l_replay (led st) (bid_of t st) e in
            (set_obj t m' (slot_of t st) cur1 L1 st, FR r, e)
        end
  end.

Definition f_init (sc : sched) : fstate := mkF (m_init sc) SStack SStack None None l_init.

Fixpoint frun (fs : list fop) (st : fstate) : fstate * list (fret * list ev) :=
  match fs with
  | [] => (st, [])
  | f :: r => let '(st1, x, e) := fstep f st in
              let (st2, l) := frun r st1 in (st2, (x, e) :: l)
  end.

(* "by the time the container is destroyed" *)
Definition destroy (st : fstate) : fstate :=
  fst (fst (fstep (FDie TB) (fst (fst (fstep (FDie TA) st))))).
