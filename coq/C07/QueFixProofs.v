(* C07 (queue part) -- a_que_drop / a_que_setz WITH proposed_fixes/C07-que-1.diff and C07-que-2.diff
   (the definitions q_reserve, q_drop_fix, q_setz_fix of QueFaultDefs.v) are all-or-nothing under
   allocation failure:

     drop_fix_ok : either rc = 4, nothing but schedule/trace changed and a request was refused, or
                   rc = 0, no request was refused and the queue is empty (refinement of upd s []);
                   with the fault-free schedule [] the result is always rc = 0.
     setz_fix_ok : the same for a_que_setz, plus the new element size.
     fix_example : non-vacuity on nine pushes (the code as found loses eight of nine elements and
                   still reports A_OMEMORY; the repaired code keeps all nine). *)
From Coq Require Import NArith ZArith List Bool FMapPositive Lia Permutation ZifyBool ZifyNat ZifyN.
From LibaV Require Import C05.DListDefs C05.DListProofs C05.QueDefs C05.QueSpec C05.QueProofs.
From LibaV Require Import C07.QueFaultDefs.
Import ListNotations.
Local Open Scope N_scope.

(* ------------------------------------------------------------------ setq / seth leave trace and schedule alone *)
Lemma failed_setq w s q : failed (setq w s q) = failed w.
Proof. destruct s; reflexivity. Qed.
Lemma failed_seth w h : failed (seth w h) = failed w.
Proof. reflexivity. Qed.
Lemma sched_setq w s q : w_sched (setq w s q) = w_sched w.
Proof. destruct s; reflexivity. Qed.
Lemma sched_seth w h : w_sched (seth w h) = w_sched w.
Proof. reflexivity. Qed.
Lemma fresh_setq w s q : w_fresh (setq w s q) = w_fresh w.
Proof. destruct s; reflexivity. Qed.
Lemma getq_seth w h t : getq (seth w h) t = getq w t.
Proof. destruct t; reflexivity. Qed.

(* ------------------------------------------------------------------ the capacity of a pool array grows *)
Lemma mem_grow_QInv w w1 X :
  w_h w1 = w_h w -> w_val w1 = w_val w -> w_fresh w1 = w_fresh w ->
  (forall t, q_pool (getq w1 t) = q_pool (getq w t) /\ q_num (getq w1 t) = q_num (getq w t) /\
             q_mem (getq w t) <= q_mem (getq w1 t)) ->
  QInv w X -> QInv w1 X.
Proof.
  intros Hh Hv Hf Hq I.
  assert (Hall : allnodes w1 X = allnodes w X).
  { unfold allnodes, pools. f_equal. f_equal. f_equal; [apply (Hq false)|apply (Hq true)]. }
  destruct I. constructor; rewrite ?Hall, ?Hh, ?Hv, ?Hf; auto; intros t; destruct (Hq t) as (E1 & E2 & E3);
    rewrite ?E1, ?E2; auto.
  specialize (qi_mem t). lia.
Qed.

(* ------------------------------------------------------------------ q_reserve *)
Definition reserved (w : qworld) (s : bool) : Prop :=
  N.of_nat (length (q_pool (getq w s))) + q_num (getq w s) <= q_mem (getq w s).

Lemma reserve_spec w X s :
  QInv w X -> failed w = false ->
  exists w1 ok, q_reserve w s = (w1, ok) /\
    ((ok = false /\ q_same w w1 /\ failed w1 = true /\ w_sched w <> []) \/
     (ok = true /\ failed w1 = false /\ QInv w1 X /\ abs w1 X = abs w X /\ w_fresh w1 = w_fresh w /\
      reserved w1 s /\ (no_fault w -> no_fault w1))).
Proof.
  intros I F0. unfold q_reserve.
  set (q := getq w s). set (need := N.of_nat (length (q_pool q)) + q_num q).
  destruct (N.ltb (q_mem q) need) eqn:Hlt.
  - apply N.ltb_lt in Hlt.
    pose proof (ask_spec w (RPool (8 * size_up8 need))) as A.
    destruct (ask w (RPool (8 * size_up8 need))) as [w1 ok].
    destruct A as (Hh & Hv & Hf & Ha & Hb & Ht & Hs).
    destruct ok.
    + eexists _, true. split; [reflexivity|]. right. split; [reflexivity|].
      set (w2 := setq w1 s (mkQ (q_pool q) (q_siz q) (q_num q) (size_up8 need))).
      assert (H2h : w_h w2 = w_h w) by (unfold w2; destruct s; simpl; exact Hh).
      assert (H2v : w_val w2 = w_val w) by (unfold w2; destruct s; simpl; exact Hv).
      assert (H2f : w_fresh w2 = w_fresh w) by (unfold w2; destruct s; simpl; exact Hf).
      assert (H2s : getq w2 s = mkQ (q_pool q) (q_siz q) (q_num q) (size_up8 need)) by apply getq_setq_same.
      assert (H2o : getq w2 (negb s) = getq w (negb s)).
      { unfold w2. rewrite getq_setq_other. destruct s; unfold getq; simpl; congruence. }
      pose proof (size_up8_ge need) as Hge.
      split; [|split; [|split; [|split; [|split]]]].
      * unfold w2. rewrite failed_setq. unfold failed. rewrite Ht. cbn [existsb refused negb orb]. exact F0.
      * apply (mem_grow_QInv w w2 X H2h H2v H2f); [|exact I].
        intros t. destruct (bool_cases s t) as [->| ->].
        -- rewrite H2s. cbn [q_pool q_num q_mem]. fold q. split; [reflexivity|]. split; [reflexivity|]. lia.
        -- rewrite H2o. split; [reflexivity|]. split; [reflexivity|]. lia.
      * unfold abs. f_equal; apply pairs_ext; intros x _; unfold val; rewrite H2v; reflexivity.
      * exact H2f.
      * unfold reserved. rewrite H2s. cbn [q_pool q_num q_mem]. fold need. exact Hge.
      * intros H. unfold no_fault, w2. rewrite sched_setq. apply (Hs H).
    + exists w1, false. split; [reflexivity|]. left. split; [reflexivity|]. split; [|split].
      * unfold q_same. auto.
      * unfold failed. rewrite Ht. reflexivity.
      * intros H. destruct (Hs H). discriminate.
  - apply N.ltb_ge in Hlt. exists w, true. split; [reflexivity|]. right. split; [reflexivity|].
    split; [exact F0|]. split; [exact I|]. split; [reflexivity|]. split; [reflexivity|].
    split; [exact Hlt|auto].
Qed.

(* ------------------------------------------------------------------ a_que_die_ + unlink when the array has room *)
Lemma take_rc_nogrow w s n w' rc :
  q_take_rc w s n = Ok (w', rc) -> n <> 0 ->
  N.of_nat (length (q_pool (getq w s))) < q_mem (getq w s) ->
  rc = 0%Z /\ exists h2,
    w' = seth (setq w s (mkQ (n :: q_pool (getq w s)) (q_siz (getq w s)) (q_num (getq w s) - 1)
                             (q_mem (getq w s)))) h2.
Proof.
  intros E Hn Hlt. unfold q_take_rc, q_die_ in E.
  rewrite (neqb_false _ _ Hn) in E.
  replace (N.leb (q_mem (getq w s)) (N.of_nat (length (q_pool (getq w s))))) with false in E
    by (symmetry; apply N.leb_gt; exact Hlt).
  cbn [Z.eqb] in E.
  match type of E with context [l_del_node ?H n] => destruct (l_del_node H n) as [h1|]; cbn [lift] in E; [|discriminate] end.
  destruct (l_init h1 n) as [h2|]; cbn [lift] in E; [|discriminate].
  inversion E; subst. split; [reflexivity|]. exists h2. reflexivity.
Qed.

(* ------------------------------------------------------------------ the loop after a successful reserve *)
Lemma drop_loop_reserved s fuel : forall w X,
  QInv w X -> reserved w s -> failed w = false -> (length (sel s X) < fuel)%nat ->
  exists w', q_drop_loop w s fuel = Ok (w', 0%Z) /\ failed w' = false /\ w_sched w' = w_sched w /\
    QInv w' (upd s [] X) /\ abs w' (upd s [] X) = upd s [] (abs w X).
Proof.
  induction fuel as [|fuel IH]; intros w X I Rv F0 Hf; [lia|].
  cbn [q_drop_loop]. pose proof (qi_ring _ _ I s) as R.
  rewrite (Ring_next _ [] (qaddr s) (sel s X) R). cbn [lift hd].
  destruct (sel s X) as [|n t] eqn:Hsel.
  - cbn [hd]. rewrite N.eqb_refl. exists w. split; [reflexivity|]. split; [exact F0|]. split; [reflexivity|].
    assert (HX : upd s [] X = X) by (rewrite <- Hsel; apply upd_sel). rewrite HX.
    split; [exact I|].
    rewrite <- HX at 1. rewrite abs_upd. reflexivity.
  - cbn [hd]. rewrite neqb_false.
    2:{ intros ->. apply (QInv_head_notin w X s I). rewrite Hsel. left. reflexivity. }
    pose proof (qi_num _ _ I s) as Hnum. rewrite Hsel in Hnum. cbn [length] in Hnum.
    assert (Hn3 : 3 <= n).
    { eapply QInv_node_ge3; eauto. eapply (allnodes_sel w X s). rewrite Hsel. left. reflexivity. }
    unfold reserved in Rv.
    destruct (take_rc_ok w X s [] n t I Hsel) as (w1 & rc & E & T & C).
    destruct (take_rc_nogrow w s n w1 rc E) as (Hrc & h2 & Hw1); [lia|lia|].
    rewrite E. cbn [fst snd]. subst rc. cbn [Z.eqb].
    destruct C as [(Hrc & _)|(_ & I1 & A1)]; [congruence|]. cbn [app] in I1, A1.
    assert (F1 : failed w1 = false) by (rewrite Hw1, failed_seth, failed_setq; exact F0).
    assert (S1 : w_sched w1 = w_sched w) by (rewrite Hw1, sched_seth, sched_setq; reflexivity).
    assert (R1 : reserved w1 s).
    { unfold reserved. rewrite Hw1, getq_seth, getq_setq_same. cbn [q_pool q_num q_mem length]. lia. }
    destruct (IH w1 (upd s t X) I1 R1 F1) as (w2 & E2 & F2 & S2 & I2 & A2).
    { rewrite sel_upd_same. simpl in Hf. lia. }
    rewrite E2. exists w2. split; [reflexivity|]. split; [exact F2|]. split; [congruence|].
    rewrite upd_upd in I2, A2. split; [exact I2|].
    rewrite A2, A1, upd_upd. reflexivity.
Qed.

(* ------------------------------------------------------------------ a_que_drop as repaired *)
Theorem drop_fix_ok : forall w X s, QInv w X -> failed w = false ->
  exists w' rc, q_drop_fix w s = Ok (w', rc) /\
    ((rc = 4%Z /\ q_same w w' /\ failed w' = true) \/
     (rc = 0%Z /\ failed w' = false /\ QInv w' (upd s [] X) /\ abs w' (upd s [] X) = upd s [] (abs w X))) /\
    (no_fault w -> no_fault w' /\ rc = 0%Z).
Proof.
  intros w X s I F0. unfold q_drop_fix.
  destruct (reserve_spec w X s I F0) as (w1 & ok & E & [(Hok & Hs & Hf & Hne)|(Hok & F1 & I1 & A1 & Hfr & R1 & N1)]);
    rewrite E; subst ok.
  - exists w1, 4%Z. split; [reflexivity|]. split; [left; auto|]. intros H. contradiction.
  - destruct (drop_loop_reserved s (fuel_of w1) w1 X I1 R1 F1 (QInv_fuel w1 X s I1)) as (w2 & E2 & F2 & S2 & I2 & A2).
    exists w2, 0%Z. split; [exact E2|]. split.
    + right. split; [reflexivity|]. split; [exact F2|]. split; [exact I2|]. rewrite A2, A1. reflexivity.
    + intros H. split; [|reflexivity]. unfold no_fault. rewrite S2. apply N1. exact H.
Qed.

(* ------------------------------------------------------------------ a_que_setz as repaired *)
(* only the element size of queue s changes *)
Lemma setq_siz_core_eq w s z :
  core_eq w (setq w s (mkQ (q_pool (getq w s)) z (q_num (getq w s)) (q_mem (getq w s)))).
Proof. unfold core_eq. destruct s; simpl; repeat split; destruct t; reflexivity. Qed.

(* the recycled nodes of queue s are given back to the allocator *)
Lemma free_pool_ok w X s z :
  QInv w X ->
  let w' := setq (free_nodes w (q_pool (getq w s))) s (mkQ [] z (q_num (getq w s)) (q_mem (getq w s))) in
  QInv w' X /\ abs w' X = abs w X.
Proof.
  intros I. set (ns := q_pool (getq w s)). intros w'.
  assert (Hns : forall x, In x ns -> In x (allnodes w X)) by (intros x Hx; eapply allnodes_pool; exact Hx).
  assert (Hh' : w_h w' = fold_left ddel ns (w_h w)) by (unfold w'; destruct s; reflexivity).
  assert (Hv' : w_val w' = fold_left vdel ns (w_val w)) by (unfold w'; destruct s; reflexivity).
  assert (Hf' : w_fresh w' = w_fresh w) by (unfold w'; destruct s; reflexivity).
  assert (Hqs : getq w' s = mkQ [] z (q_num (getq w s)) (q_mem (getq w s))) by (unfold w'; apply getq_setq_same).
  assert (Hqo : getq w' (negb s) = getq w (negb s)) by (unfold w'; rewrite getq_setq_other; destruct s; reflexivity).
  assert (Hperm : Permutation (allnodes w X) (ns ++ allnodes w' X)).
  { unfold allnodes, pools, ns. change (w_qa w') with (getq w' false). change (w_qb w') with (getq w' true).
    destruct s; cbn [negb] in Hqo; rewrite Hqs, Hqo; cbn [q_pool getq]; perm_blocks. }
  assert (ND : NoDup (ns ++ allnodes w' X)) by (eapply Permutation_NoDup; [exact Hperm|apply (qi_nodup _ _ I)]).
  assert (Hkeep : forall x, In x (allnodes w' X) -> In x (allnodes w X) /\ ~ In x ns).
  { intros x Hx. split.
    - eapply Permutation_in; [symmetry; exact Hperm|]. apply in_or_app. right. exact Hx.
    - intros H. eapply NoDup_app_disj; eauto. }
  assert (Hh0 : forall x, ~ In x ns -> dget (w_h w') x = dget (w_h w) x)
    by (intros x Hx; rewrite Hh'; apply dget_free; exact Hx).
  split.
  - constructor; rewrite ?Hv', ?Hf'.
    + intros t. eapply (Ring_Frame _ _ ns); [apply (qi_ring _ _ I t)|exact Hh0|].
      intros x Hx Hin. destruct Hx as [<-|Hx].
      * apply Hns in Hin. eapply QInv_sentinel_notin; eauto.
      * assert (H : In x (allnodes w' X)).
        { unfold allnodes. destruct t; cbn [sel] in Hx; apply in_or_app; [right; apply in_or_app; left|left]; exact Hx. }
        eapply NoDup_app_disj; eauto.
    + eapply NoDup_app_r; eauto.
    + intros x Hx. destruct (Hkeep x Hx) as [Hin Hnot].
      pose proof (qi_node _ _ I x Hin) as (B & L & V). split; [exact B|]. split.
      * unfold live. rewrite Hh0 by exact Hnot. exact L.
      * rewrite vget_free by exact Hnot. exact V.
    + intros t. destruct (bool_cases s t) as [->| ->].
      * rewrite Hqs. cbn [q_num]. apply (qi_num _ _ I).
      * rewrite Hqo. apply (qi_num _ _ I).
    + intros t. destruct (bool_cases s t) as [->| ->].
      * rewrite Hqs. cbn [q_pool q_mem length]. lia.
      * rewrite Hqo. apply (qi_mem _ _ I).
    + pose proof (qi_fresh _ _ I) as Fr. rewrite (Permutation_length Hperm), app_length in Fr. lia.
  - unfold abs. f_equal; apply pairs_ext; intros x Hx; unfold val; rewrite Hv'; rewrite vget_free; auto;
      apply Hkeep; unfold allnodes; apply in_or_app; [left|right; apply in_or_app; left]; exact Hx.
Qed.

Theorem setz_fix_ok : forall w X s siz, QInv w X -> failed w = false ->
  exists w' rc, q_setz_fix w s siz = Ok (w', rc) /\
    ((rc = 4%Z /\ q_same w w' /\ failed w' = true) \/
     (rc = 0%Z /\ failed w' = false /\ QInv w' (upd s [] X) /\ abs w' (upd s [] X) = upd s [] (abs w X) /\
      q_siz (getq w' s) = (if N.eqb siz 0 then 1 else siz))) /\
    (no_fault w -> no_fault w' /\ rc = 0%Z).
Proof.
  intros w X s siz I F0. unfold q_setz_fix.
  destruct (drop_fix_ok w X s I F0) as (w1 & rc & E & [(Hrc & Hs & Hf)|(Hrc & F1 & I1 & A1)] & N1);
    rewrite E; subst rc; cbn [Z.eqb].
  - exists w1, 4%Z. split; [reflexivity|]. split; [left; auto|exact N1].
  - set (z := if N.eqb siz 0 then 1 else siz).
    destruct (N.ltb (q_siz (getq w1 s)) z).
    + destruct (free_pool_ok w1 (upd s [] X) s z I1) as [I2 A2].
      eexists _, 0%Z. split; [reflexivity|]. split.
      * right. split; [reflexivity|]. split; [rewrite failed_setq; exact F1|]. split; [exact I2|].
        split; [rewrite A2; exact A1|]. rewrite getq_setq_same. reflexivity.
      * intros H. split; [|reflexivity]. unfold no_fault. rewrite sched_setq. apply (N1 H).
    + pose proof (setq_siz_core_eq w1 s z) as C3.
      eexists _, 0%Z. split; [reflexivity|]. split.
      * right. split; [reflexivity|]. split; [rewrite failed_setq; exact F1|].
        split; [eapply core_eq_QInv; eauto|]. split; [rewrite (core_eq_abs _ _ _ C3); exact A1|].
        rewrite getq_setq_same. reflexivity.
      * intros H. split; [|reflexivity]. unfold no_fault. rewrite sched_setq. apply (N1 H).
Qed.

(* ------------------------------------------------------------------ non-vacuity *)
(* queue A holds nine elements (addresses 3..11), its pool array does not exist yet *)
Definition w9 : qworld := match q_run q_world0 nine_pushes with Ok (w, _) => w | _ => q_world0 end.

(* what is observed after a drop: the return code and the ring of queue A *)
Definition drop_obs (r : outcome (qworld * Z)) : option (Z * option (list id)) :=
  match r with Ok (w', rc) => Some (rc, ring_of (w_h w') 1 (fuel_of w')) | _ => None end.

Example fix_example :
  ring_of (w_h w9) 1 (fuel_of w9) = Some [3; 4; 5; 6; 7; 8; 9; 10; 11] /\
  (* repaired: the single request is refused -> A_OMEMORY, all nine elements still there *)
  drop_obs (q_drop_fix (clear_trace (set_sched w9 [false])) false)
    = Some (4%Z, Some [3; 4; 5; 6; 7; 8; 9; 10; 11]) /\
  (* as found: the second growth of the pool array is refused -> A_OMEMORY, eight elements gone *)
  drop_obs (q_drop_orig (clear_trace (set_sched w9 [true; false])) false) = Some (4%Z, Some [11]) /\
  (* repaired, fault-free allocator: success, empty *)
  drop_obs (q_drop_fix (clear_trace (set_sched w9 [])) false) = Some (0%Z, Some []).
Proof. vm_compute. repeat split. Qed.

Lemma sched_trace_core w l : same_core w (clear_trace (set_sched w l)).
Proof. unfold same_core. cbn [clear_trace set_sched w_h w_val w_fresh w_qa w_qb]. auto. Qed.

(* the example is an instance of the theorems: the world of the example satisfies their hypotheses *)
Lemma w9_inv l : exists X, QInv (clear_trace (set_sched w9 l)) X /\ failed (clear_trace (set_sched w9 l)) = false /\
  X = ([3; 4; 5; 6; 7; 8; 9; 10; 11], []).
Proof.
  destruct (run_refines nine_pushes q_world0 ([], []) world0_inv) as (w' & rs & X & E & I & _).
  { vm_compute. tauto. }
  assert (Hw : w' = w9) by (unfold w9; rewrite E; reflexivity). subst w'.
  pose proof (ring_of_spec w9 X false I) as Ha. pose proof (ring_of_spec w9 X true I) as Hb.
  exists X. split; [|split; [reflexivity|]].
  - eapply same_core_QInv; [|exact I]. apply sched_trace_core.
  - destruct X as [xa xb]. cbn [sel fst snd] in Ha, Hb.
    assert (Ea : ring_of (w_h w9) (qaddr false) (fuel_of w9) = Some [3; 4; 5; 6; 7; 8; 9; 10; 11]) by (vm_compute; reflexivity).
    assert (Eb : ring_of (w_h w9) (qaddr true) (fuel_of w9) = Some []) by (vm_compute; reflexivity).
    rewrite Ea in Ha. rewrite Eb in Hb. inversion Ha. inversion Hb. reflexivity.
Qed.
