(* C07 (string part) -- (d): the ledger of heap blocks is balanced over every history of the
   life-cycle machine [fstep] (coq/C07/StrFaultDefs.v): no release / resize ever names a block
   that is not live with that size ([lerr] stays false), and after the destructors nothing is
   live.  No precondition on the operations is needed: the allocator trace of every C06 step is
   a valid trace of the one block its object owns ([step_mech], StrFaultProofs.v). *)
From Coq Require Import NArith ZArith List Bool Lia ZifyBool ZifyNat ZifyN Permutation.
From LibaV Require Import C06.StrDefs C06.StrSpec C06.StrLemmas C06.StrProofs
  C07.StrFaultDefs C07.StrFaultProofs.
Import ListNotations.
Local Open Scope N_scope.

(* a holder: the identity of the block it owns (if any) and the size it believes the block has *)
Definition holder : Type := (option N * option N)%type.

Definition cur_ok (L : ledger) (h : holder) : Prop :=
  match fst h, snd h with
  | None, None => True
  | Some i, Some n => live L i = Some n
  | _, _ => False
  end.

Definition hid (h : holder) : list N := match fst h with Some i => [i] | None => [] end.
Definition ids (hs : list holder) : list N := flat_map hid hs.

Definition fresh_above (L : ledger) : Prop := forall j, next L <= j -> live L j = None.

(* the ledger holds exactly the blocks of the holders [hs], once each, with the sizes they
   believe, and no bad release has happened *)
Definition holds (L : ledger) (hs : list holder) : Prop :=
  lerr L = false /\ fresh_above L /\ Forall (cur_ok L) hs /\ NoDup (ids hs) /\
  forall j, ~ In j (ids hs) -> live L j = None.

Lemma holds_perm L hs hs' : Permutation hs hs' -> holds L hs -> holds L hs'.
Proof.
  intros P (He & Hf & Hc & Hn & Ho).
  assert (P' : Permutation (ids hs) (ids hs')) by (apply Permutation_flat_map, P).
  split; [assumption|]. split; [assumption|].
  split; [eapply Permutation_Forall; eassumption|].
  split; [eapply Permutation_NoDup; eassumption|].
  intros j Hj. apply Ho. intros Hin. apply Hj. eapply Permutation_in; eassumption.
Qed.

Lemma ids_live L hs i : Forall (cur_ok L) hs -> In i (ids hs) -> exists n, live L i = Some n.
Proof.
  intros Hc Hin. unfold ids in Hin. apply in_flat_map in Hin. destruct Hin as (h & Hh & Hi).
  rewrite Forall_forall in Hc. specialize (Hc h Hh). unfold cur_ok, hid in *.
  destruct (fst h) as [i'|]; [|contradiction]. destruct Hi as [<-|[]].
  destruct (snd h) as [n|]; [|contradiction]. eauto.
Qed.

Lemma ids_lt L hs i : fresh_above L -> Forall (cur_ok L) hs -> In i (ids hs) -> i < next L.
Proof.
  intros Hf Hc Hin. destruct (ids_live L hs i Hc Hin) as (n & Hn).
  destruct (N.lt_ge_cases i (next L)) as [|Hge]; [assumption|].
  rewrite (Hf i Hge) in Hn. discriminate.
Qed.

Lemma cur_ok_rest L L' hs :
  (forall i, In i (ids hs) -> live L' i = live L i) -> Forall (cur_ok L) hs -> Forall (cur_ok L') hs.
Proof.
  induction hs as [|h hs IH]; intros Hs Hc; [constructor|].
  inversion Hc as [|? ? H1 H2]; subst. constructor.
  - unfold cur_ok in *. destruct (fst h) as [i|] eqn:Ei; [|assumption].
    destruct (snd h) as [n|]; [|assumption]. rewrite Hs; [assumption|].
    unfold ids; cbn [flat_map]. apply in_or_app. left. unfold hid. rewrite Ei. now left.
  - apply IH; [|assumption]. intros i Hi. apply Hs. unfold ids; cbn [flat_map]. apply in_or_app. now right.
Qed.

Lemma ids_cons_some i sz rest : ids ((Some i, sz) :: rest) = i :: ids rest.
Proof. reflexivity. Qed.
Lemma ids_cons_none sz rest : ids ((None, sz) :: rest) = ids rest.
Proof. reflexivity. Qed.

Lemma neqb (a b : N) : a <> b -> (a =? b) = false.
Proof. intros H. now apply N.eqb_neq. Qed.

(* the holder at the head obtains a block *)
Lemma holds_add L n rest :
  holds L ((None, None) :: rest) -> holds (fst (l_add n L)) ((Some (snd (l_add n L)), Some n) :: rest).
Proof.
  intros (He & Hf & Hc & Hn & Ho). inversion Hc as [|? ? _ Hcr]; subst.
  rewrite ids_cons_none in *. cbn [l_add fst snd]. unfold holds. rewrite ids_cons_some.
  assert (Hlt : forall i, In i (ids rest) -> i < next L) by (intros; eapply ids_lt; eassumption).
  split; [assumption|]. split; [|split; [|split]].
  - intros j Hj. cbn [live next] in *. rewrite neqb by lia. apply Hf. lia.
  - constructor.
    + unfold cur_ok; cbn [fst snd live]. now rewrite N.eqb_refl.
    + apply (cur_ok_rest L); [|assumption]. intros i Hi. cbn [live].
      rewrite neqb; [reflexivity|]. specialize (Hlt i Hi). lia.
  - constructor; [|assumption]. intros Hin. specialize (Hlt _ Hin). lia.
  - intros j Hj. cbn [live]. rewrite neqb by (intros ->; apply Hj; now left).
    apply Ho. intros Hin. apply Hj. now right.
Qed.

(* the holder at the head gives its block up *)
Lemma holds_del L i n rest :
  holds L ((Some i, Some n) :: rest) -> holds (l_del i L) ((None, None) :: rest).
Proof.
  intros (He & Hf & Hc & Hn & Ho). inversion Hc as [|? ? _ Hcr]; subst.
  rewrite ids_cons_some in *. unfold holds. rewrite ids_cons_none. inversion Hn as [|? ? Hni Hnr]; subst.
  split; [assumption|]. split; [|split; [|split]].
  - intros j Hj. cbn [live next l_del] in *. destruct (j =? i); [reflexivity|]. now apply Hf.
  - constructor; [exact I|]. apply (cur_ok_rest L); [|assumption]. intros k Hk. cbn [live l_del].
    rewrite neqb; [reflexivity|]. intros ->. contradiction.
  - assumption.
  - intros j Hj. cbn [live l_del]. destruct (N.eqb_spec j i) as [->|Hne]; [reflexivity|].
    apply Ho. intros [->|Hin]; [now apply Hne|contradiction].
Qed.

Lemma holds_head L cur sz rest : holds L ((cur, sz) :: rest) -> cur_ok L (cur, sz).
Proof. intros (_ & _ & Hc & _). now inversion Hc. Qed.

(* one allocator event of the holder at the head *)
Lemma l_ev_holds L cur sz rest e sz' :
  holds L ((cur, sz) :: rest) -> ev_step sz e = Some sz' ->
  holds (fst (l_ev L cur e)) ((snd (l_ev L cur e), sz') :: rest).
Proof.
  intros H Hs. pose proof (holds_head _ _ _ _ H) as Hc. unfold cur_ok in Hc; cbn [fst snd] in Hc.
  destruct e as [n ok|o n ok|o|].
  - (* malloc *)
    destruct sz as [o'|]; [destruct ok; discriminate|].
    destruct cur as [i|]; [contradiction|].
    destruct ok; injection Hs as <-; cbn [l_ev].
    + pose proof (holds_add L n rest H) as A. destruct (l_add n L) as [L' i'] eqn:E. exact A.
    + exact H.
  - (* realloc *)
    destruct sz as [o'|]; [|destruct ok; discriminate].
    destruct cur as [i|]; [|contradiction].
    assert (o = o' /\ sz' = (if ok then Some n else Some o')) as [-> ->].
    { destruct ok; cbn in Hs; destruct (o =? o') eqn:Eo; try discriminate;
        apply N.eqb_eq in Eo; injection Hs as <-; auto. }
    cbn [l_ev]. unfold l_has. rewrite Hc, N.eqb_refl.
    destruct ok.
    + pose proof (holds_add (l_del i L) n rest (holds_del L i o' rest H)) as A.
      destruct (l_add n (l_del i L)) as [L' i'] eqn:E. exact A.
    + exact H.
  - (* free *)
    destruct sz as [o'|]; [|discriminate].
    destruct cur as [i|]; [|contradiction].
    cbn in Hs. destruct (o =? o') eqn:Eo; [|discriminate]. apply N.eqb_eq in Eo. subst o'.
    injection Hs as <-. cbn [l_ev]. unfold l_has. rewrite Hc, N.eqb_refl. cbn [fst snd].
    exact (holds_del L i o rest H).
  - (* free(NULL) *)
    destruct sz as [o'|]; [discriminate|].
    destruct cur as [i|]; [contradiction|]. injection Hs as <-. exact H.
Qed.

Lemma l_replay_holds es : forall L cur sz rest sz',
  holds L ((cur, sz) :: rest) -> trace sz es = Some sz' ->
  holds (fst (l_replay L cur es)) ((snd (l_replay L cur es), sz') :: rest).
Proof.
  induction es as [|e es IH]; intros L cur sz rest sz' H T; cbn [trace l_replay] in *.
  - injection T as <-. exact H.
  - destruct (ev_step sz e) as [sz1|] eqn:E; [|discriminate].
    pose proof (l_ev_holds L cur sz rest e sz1 H E) as H1.
    destruct (l_ev L cur e) as [L1 cur1]. cbn [fst snd] in H1.
    exact (IH L1 cur1 sz1 rest sz' H1 T).
Qed.

(* ------------------------------------------------------------------ the machine invariant *)
Definition sl_holder (sl : slot) : holder :=
  match sl with SHeap id => (Some id, Some STRUCT_SIZE) | _ => (None, None) end.

(* the four holders of the machine, those of object t first *)
Definition canon (t : tgt) (st : fstate) : list holder :=
  [ (bid_of t st, bsize (sel t (base st))); (bid_of (other t) st, bsize (oth t (base st)));
    sl_holder (slot_of t st); sl_holder (slot_of (other t) st) ].

Definition fholders (st : fstate) : list holder := canon TA st.

(* an absent slot owns nothing *)
Definition absent_clean (sl : slot) (bid : option N) (s : str) : Prop :=
  sl = SAbsent -> bid = None /\ bsize s = None.

Definition finv (st : fstate) : Prop :=
  holds (led st) (fholders st) /\
  absent_clean (slA st) (bidA st) (sA (base st)) /\ absent_clean (slB st) (bidB st) (sB (base st)).

Lemma finv_init sc : finv (f_init sc).
Proof.
  split; [|split; intros H; discriminate].
  unfold holds, fholders, f_init; cbn.
  split; [reflexivity|]. split; [intros j _; reflexivity|].
  split; [repeat constructor|]. split; [constructor|]. reflexivity.
Qed.

Lemma perm_AB {A} (a b c d : A) : Permutation [a; b; c; d] [b; a; d; c].
Proof. eapply perm_trans; [apply perm_swap|]. do 2 apply perm_skip. apply perm_swap. Qed.
Lemma perm4_3 {A} (a b c d : A) : Permutation [a; b; c; d] [c; a; b; d].
Proof. apply Permutation_sym. exact (Permutation_middle [a; b] [d] c). Qed.

Lemma holds_canon t st L : holds L (fholders st) <-> holds L (canon t st).
Proof.
  destruct t; [tauto|]. unfold fholders, canon; cbn [other bid_of sel oth slot_of].
  split; apply holds_perm, perm_AB.
Qed.

Lemma absent_clean_of t st : finv st ->
  absent_clean (slot_of t st) (bid_of t st) (sel t (base st)) /\
  absent_clean (slot_of (other t) st) (bid_of (other t) st) (oth t (base st)).
Proof. intros (_ & CA & CB). destruct t; cbn; auto. Qed.

(* re-assemble the invariant after object t's block holder moved to cur and its slot to sl',
   the other object being untouched *)
Lemma finv_set_obj t st m' sl' cur L :
  finv st -> oth t m' = oth t (base st) ->
  holds L [ (cur, bsize (sel t m')); (bid_of (other t) st, bsize (oth t (base st)));
            sl_holder sl'; sl_holder (slot_of (other t) st) ] ->
  absent_clean sl' cur (sel t m') ->
  finv (set_obj t m' sl' cur L st).
Proof.
  intros Hinv Ho H Hc. destruct (absent_clean_of t st Hinv) as [_ Co].
  split; [|split].
  - apply (holds_canon t). unfold canon.
    destruct t; cbn [set_obj led base bid_of other slot_of slA slB bidA bidB sel oth] in *;
      rewrite ?Ho; exact H.
  - destruct t; cbn [set_obj led base bid_of other slot_of slA slB bidA bidB sel oth] in *;
      rewrite ?Ho; assumption.
  - destruct t; cbn [set_obj led base bid_of other slot_of slA slB bidA bidB sel oth] in *;
      rewrite ?Ho; assumption.
Qed.

(* a replay by the holder in third position (the structure of object t) *)
Lemma replay_third es L a b cur sz d sz' :
  holds L [a; b; (cur, sz); d] -> trace sz es = Some sz' ->
  holds (fst (l_replay L cur es)) [a; b; (snd (l_replay L cur es), sz'); d].
Proof.
  intros H T. apply (holds_perm _ _ _ (perm4_3 _ _ _ _)) in H.
  pose proof (l_replay_holds es _ _ _ _ _ H T) as H1.
  exact (holds_perm _ _ _ (Permutation_sym (perm4_3 _ _ _ _)) H1).
Qed.

Lemma holder_none L rest cur : holds L ((cur, None) :: rest) -> cur = None.
Proof.
  intros H. apply holds_head in H. unfold cur_ok in H; cbn in H.
  destruct cur; [contradiction|reflexivity].
Qed.

Lemma holder_none3 L a b cur d : holds L [a; b; (cur, None); d] -> cur = None.
Proof. intros H. apply (holds_perm _ _ _ (perm4_3 _ _ _ _)) in H. eapply holder_none; exact H. Qed.

Lemma holder_some3 L a b cur n d : holds L [a; b; (cur, Some n); d] -> exists i, cur = Some i.
Proof.
  intros H. apply (holds_perm _ _ _ (perm4_3 _ _ _ _)) in H. apply holds_head in H.
  unfold cur_ok in H; cbn in H. destruct cur; [eauto|contradiction].
Qed.

Lemma dtor_trace s : trace (bsize s) (snd (dtor s)) = Some None /\ fst (dtor s) = str_init.
Proof. unfold dtor, bsize. destruct (ptr s); cbn; rewrite ?N.eqb_refl; auto. Qed.

Lemma oth_upd' t s sc m : oth t (upd t s sc m) = oth t m.
Proof. destruct t; reflexivity. Qed.
Lemma sel_upd' t s sc m : sel t (upd t s sc m) = s.
Proof. destruct t; reflexivity. Qed.

Lemma absent_true sl : absent sl = true -> sl = SAbsent.
Proof. destruct sl; cbn; congruence. Qed.
Lemma absent_false sl : absent sl = false -> sl <> SAbsent.
Proof. destruct sl; cbn; congruence. Qed.

Theorem fstep_finv f st : finv st -> finv (fst (fst (fstep f st))).
Proof.
  intros Hinv. pose proof Hinv as (H & _).
  destruct f as [t|t|t|o]; cbn [fstep].
  - (* ctor *)
    destruct (absent (slot_of t st)) eqn:Ea; [|exact Hinv]. cbn [fst].
    apply absent_true in Ea. apply (holds_canon t) in H. unfold canon in H.
    destruct (proj1 (absent_clean_of t st Hinv) Ea) as [Eb Es]. rewrite Eb, Es, Ea in H.
    apply finv_set_obj; [assumption|apply oth_upd'| |intros _; rewrite sel_upd'; auto].
    rewrite sel_upd'. exact H.
  - (* new *)
    destruct (absent (slot_of t st)) eqn:Ea; [|exact Hinv].
    apply absent_true in Ea. apply (holds_canon t) in H. unfold canon in H.
    destruct (proj1 (absent_clean_of t st Hinv) Ea) as [Eb Es]. rewrite Eb, Es, Ea in H.
    cbn [sl_holder] in H.
    destruct (a_alloc None STRUCT_SIZE (sch (base st))) as [[p sc'] e] eqn:Eal.
    assert (T : trace None e = Some None \/ trace None e = Some (Some STRUCT_SIZE)).
    { unfold a_alloc in Eal. cbn in Eal. destruct (next_ok (sch (base st))) as [[|] ?];
        injection Eal as <- <- <-; cbn; auto. }
    destruct T as [T|T]; pose proof (replay_third e _ _ _ _ _ _ _ H T) as S;
      destruct (l_replay (led st) None e) as [L cur]; cbn [fst snd] in S.
    + pose proof (holder_none3 _ _ _ _ _ S) as ->. cbn [fst].
      apply finv_set_obj; [assumption|apply oth_upd'| |intros _; rewrite sel_upd'; auto].
      rewrite sel_upd'. exact S.
    + destruct (holder_some3 _ _ _ _ _ _ S) as (id & ->). cbn [fst].
      apply finv_set_obj; [assumption|apply oth_upd'| |intros E; discriminate].
      rewrite sel_upd'. exact S.
  - (* die *)
    apply (holds_canon t) in H. unfold canon in H.
    destruct (slot_of t st) as [| |id] eqn:Esl; [exact Hinv| |].
    + destruct (dtor_trace (sel t (base st))) as [T Ei].
      destruct (dtor (sel t (base st))) as [s' e]. cbn [fst snd] in *. subst s'.
      pose proof (l_replay_holds e _ _ _ _ _ H T) as R.
      destruct (l_replay (led st) (bid_of t st) e) as [L cur]. cbn [fst snd] in *.
      pose proof (holder_none _ _ _ R) as ->.
      apply finv_set_obj; [assumption|apply oth_upd'| |intros _; rewrite sel_upd'; auto].
      rewrite sel_upd'. exact R.
    + destruct (dtor_trace (sel t (base st))) as [T Ei].
      destruct (dtor (sel t (base st))) as [s' e]. cbn [fst snd] in *. subst s'.
      pose proof (l_replay_holds e _ _ _ _ _ H T) as R.
      destruct (l_replay (led st) (bid_of t st) e) as [L cur]. cbn [fst snd] in *.
      pose proof (holder_none _ _ _ R) as ->. cbn [sl_holder] in R.
      assert (T2 : trace (Some STRUCT_SIZE) [EvFree STRUCT_SIZE] = Some None) by reflexivity.
      pose proof (replay_third _ _ _ _ _ _ _ _ R T2) as S.
      destruct (l_replay L (Some id) [EvFree STRUCT_SIZE]) as [L2 c2]. cbn [fst snd] in *.
      pose proof (holder_none3 _ _ _ _ _ S) as ->.
      apply finv_set_obj; [assumption|apply oth_upd'| |intros _; rewrite sel_upd'; auto].
      rewrite sel_upd'. exact S.
  - (* an operation of the C06 machine *)
    destruct (op_needs o) as [t both] eqn:En.
    destruct (absent (slot_of t st) || (both && absent (slot_of (other t) st))) eqn:Ea; [exact Hinv|].
    apply orb_false_iff in Ea. destruct Ea as [Ea Ea2]. apply absent_false in Ea.
    apply (holds_canon t) in H. unfold canon in H.
    destruct (step o (base st)) as [[m' r] e] eqn:Es.
    pose proof (step_mech o (base st) m' r e Es) as M. unfold step_mech_stmt in M.
    assert (Hgen : forall sz',
               oth t m' = oth t (base st) -> trace (bsize (sel t (base st))) e = Some sz' ->
               sz' = bsize (sel t m') ->
               finv (set_obj t m' (slot_of t st) (snd (l_replay (led st) (bid_of t st) e))
                             (fst (l_replay (led st) (bid_of t st) e)) st)).
    { intros sz' Ho T ->. pose proof (l_replay_holds e _ _ _ _ _ H T) as R.
      apply finv_set_obj; [assumption|assumption|exact R|intros E; contradiction]. }
    destruct o; cbn [op_needs] in En; injection En as <- <-;
      try (cbn [fst op_needs] in M; destruct M as (Ho & T & _);
           specialize (Hgen _ Ho T eq_refl);
           destruct (l_replay (led st) (bid_of _ st) e) as [L1 cur1]; cbn [fst snd] in *;
           exact Hgen).
    + (* swap *)
      destruct M as (-> & EA & EB & _). cbn [fst]. cbn [andb other slot_of] in Ea2.
      apply absent_false in Ea2. cbn [slot_of] in Ea.
      split; [|split]; unfold fholders, canon;
        cbn [base slA slB bidA bidB led bid_of other sel oth slot_of] in *; rewrite ?EA, ?EB.
      * revert H. apply holds_perm. apply perm_swap.
      * intros E. contradiction.
      * intros E. contradiction.
    + (* exit *)
      destruct M as (Ho & _ & T).
      destruct r as [z|n d|[blk|]| |];
        try (specialize (Hgen _ Ho T eq_refl);
             destruct (l_replay (led st) (bid_of _ st) e) as [L1 cur1]; cbn [fst snd] in *;
             exact Hgen).
      destruct T as [T Ei].
      pose proof (l_replay_holds e _ _ _ _ _ H T) as R.
      destruct (l_replay (led st) (bid_of _ st) e) as [L1 cur1]. cbn [fst snd] in *.
      assert (T2 : trace (Some (len blk)) [EvFree (len blk)] = Some None)
        by (cbn; now rewrite N.eqb_refl).
      pose proof (l_replay_holds _ _ _ _ _ _ R T2) as R2.
      destruct (l_replay L1 cur1 [EvFree (len blk)]) as [L2 cur2]. cbn [fst snd] in *.
      apply finv_set_obj; [assumption|assumption| |intros E; contradiction].
      rewrite Ei. exact R2.
Qed.

Theorem frun_finv fs : forall st, finv st -> finv (fst (frun fs st)).
Proof.
  induction fs as [|f fs IH]; intros st Hi; cbn [frun]; [exact Hi|].
  pose proof (fstep_finv f st Hi) as H1.
  destruct (fstep f st) as [[st1 x] e]. cbn [fst] in H1.
  specialize (IH st1 H1). destruct (frun fs st1) as [st2 l]. exact IH.
Qed.

Lemma destroy_absent st : slA (destroy st) = SAbsent /\ slB (destroy st) = SAbsent.
Proof.
  unfold destroy.
  assert (D : forall t st, slot_of t (fst (fst (fstep (FDie t) st))) = SAbsent /\
                           slot_of (other t) (fst (fst (fstep (FDie t) st))) = slot_of (other t) st).
  { intros t s. cbn [fstep]. destruct (slot_of t s) eqn:E.
    - cbn [fst]. auto.
    - destruct (dtor _) as [s' e]. destruct (l_replay _ _ e) as [L c]. cbn [fst].
      destruct t; cbn; auto.
    - destruct (dtor _) as [s' e]. destruct (l_replay _ _ e) as [L c].
      destruct (l_replay L _ _) as [L2 c2]. cbn [fst]. destruct t; cbn; auto. }
  destruct (D TA st) as [A1 _]. destruct (D TB (fst (fst (fstep (FDie TA) st)))) as [B2 A2].
  cbn [slot_of other] in *. split; [congruence|assumption].
Qed.

(* (d): every history of constructions, operations and destructions, under every fault schedule;
   then the destructors *)
Theorem str_ledger_balanced_all : forall sc fs,
  let st := fst (frun fs (f_init sc)) in
  lerr (led st) = false /\
  lerr (led (destroy st)) = false /\
  (forall j, live (led (destroy st)) j = None) /\
  live_list (led (destroy st)) = [].
Proof.
  intros sc fs st.
  assert (Hi : finv st) by (apply frun_finv, finv_init).
  assert (Hd : finv (destroy st)).
  { unfold destroy. apply fstep_finv, fstep_finv, Hi. }
  split; [exact (proj1 (proj1 Hi))|]. split; [exact (proj1 (proj1 Hd))|].
  destruct (destroy_absent st) as [EA EB].
  destruct Hd as ((_ & _ & _ & _ & Ho) & CA & CB).
  destruct (CA EA) as [bA _]. destruct (CB EB) as [bB _].
  assert (Hall : forall j, live (led (destroy st)) j = None).
  { intros j. apply Ho. unfold fholders, canon, ids; cbn [bid_of other slot_of flat_map].
    rewrite EA, EB, bA, bB. cbn. auto. }
  split; [exact Hall|].
  unfold live_list. induction (N.to_nat (next (led (destroy st)))) as [|k IH]; [reflexivity|].
  cbn [live_upto]. rewrite Hall. exact IH.
Qed.

(* non-vacuity: a history with a heap-allocated object, a refused growth, a hand-over by
   a_str_exit; two blocks are live before the destructors run, none afterwards *)
Example ledger_example :
  let fs := [FDie TB; FNew TB; FOp (OCatn TA [104; 105]); FOp (OCatn TB [1;2;3;4;5;6;7;8;9]);
             FOp (OCatn TA [1;2;3;4;5;6;7;8;9]); FOp (OExit TA); FOp (OCatc TA 65%Z)] in
  let st := fst (frun fs (f_init [true; true; true; false])) in
  live_list (led st) = [(0, 24); (2, 16); (3, 8)] /\ live_list (led (destroy st)) = [] /\
  lerr (led (destroy st)) = false.
Proof. vm_compute. auto. Qed.
