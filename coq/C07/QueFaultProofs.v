(* C07 (queue part) -- the four clauses for liba's a_que (repaired a_que_drop / a_que_setz):
   a refused request is reported, leaves the two queues and every block as they were, a retry is
   the fault-free step, the number of live blocks is accounted for and 0 after the destructors;
   the bodies of a_que_drop / a_que_setz as found are refuted by witness.
   Uses: QueTraceProofs.v (where the allocator is asked), QueFixProofs.v (the repaired drop / setz
   are all-or-nothing), QueLedgerProofs.v (counting the blocks), C05's refinement theorem for
   every other operation. *)
From Coq Require Import NArith ZArith List Bool Lia ZifyBool ZifyNat ZifyN FMapPositive.
From LibaV Require Import C05.DListDefs C05.DListProofs C05.QueDefs C05.QueSpec C05.QueProofs.
From LibaV Require Import C07.QueFaultDefs C07.QueTraceProofs C07.QueFixProofs C07.QueLedgerProofs.
Import ListNotations.
Local Open Scope N_scope.

(* the abstract step of the repaired library: C05's [dq_step], with all-or-nothing drop / setz *)
Definition dqf_step (o : qop) (A : astate) (r : Z) (f : bool) (A' : astate) : Prop :=
  match o with
  | QDrop s | QSetz s _ =>
      (r = 0%Z /\ f = false /\ A' = upd s [] A) \/ (r = 4%Z /\ f = true /\ A' = A)
  | _ => dq_step o A r f A'
  end.

Lemma q_same_same_core w w1 : q_same w w1 <-> same_core w w1.
Proof. unfold q_same, same_core. tauto. Qed.

Lemma clear_inv w0 X : QInv w0 X -> QInv (clear_trace w0) X /\ abs (clear_trace w0) X = abs w0 X.
Proof.
  intros I. split; [eapply same_core_QInv; [apply clear_trace_core|exact I]|].
  apply same_core_abs, clear_trace_core.
Qed.

(* one operation of the repaired library refines the abstract double-ended sequence *)
Theorem qf_step_refines w0 X o :
  QInv w0 X -> dq_pre o (abs w0 X) ->
  exists w' r X', qf_step w0 o = Ok (w', r) /\ QInv w' X' /\
    dqf_step o (abs w0 X) r (failed w') (abs w' X') /\
    (not_sched o -> no_fault w0 -> no_fault w' /\ failed w' = false).
Proof.
  intros I Hpre.
  destruct o; try exact (step_refines w0 X _ I Hpre).
  - (* drop *)
    destruct (clear_inv w0 X I) as [Ic Ac]. cbn [qf_step dqf_step].
    destruct (drop_fix_ok (clear_trace w0) X s Ic eq_refl) as (w' & rc & E & C & NF).
    rewrite E. destruct C as [(-> & S & F)|(-> & F & I' & A')].
    + exists w', 4%Z, X. split; [reflexivity|].
      apply q_same_same_core in S.
      split; [eapply same_core_QInv; eauto|]. split.
      * right. rewrite F. split; [reflexivity|]. split; [reflexivity|].
        rewrite (same_core_abs _ _ _ S). exact Ac.
      * intros _ H. destruct (NF H) as [_ Hrc]. discriminate.
    + exists w', 0%Z, (upd s [] X). split; [reflexivity|]. split; [exact I'|]. split.
      * left. rewrite F, A', Ac. auto.
      * intros _ H. destruct (NF H) as [H1 _]. auto.
  - (* setz *)
    destruct (clear_inv w0 X I) as [Ic Ac]. cbn [qf_step dqf_step].
    destruct (setz_fix_ok (clear_trace w0) X s siz Ic eq_refl) as (w' & rc & E & C & NF).
    rewrite E. destruct C as [(-> & S & F)|(-> & F & I' & A' & _)].
    + exists w', 4%Z, X. split; [reflexivity|].
      apply q_same_same_core in S.
      split; [eapply same_core_QInv; eauto|]. split.
      * right. rewrite F. split; [reflexivity|]. split; [reflexivity|].
        rewrite (same_core_abs _ _ _ S). exact Ac.
      * intros _ H. destruct (NF H) as [_ Hrc]. discriminate.
    + exists w', 0%Z, (upd s [] X). split; [reflexivity|]. split; [exact I'|]. split.
      * left. rewrite F, A', Ac. auto.
      * intros _ H. destruct (NF H) as [H1 _]. auto.
Qed.

(* ================================================================== (a) (b): a refused request *)
Theorem que_fault_step w0 X o w' r :
  QInv w0 X -> qf_step w0 o = Ok (w', r) -> failed w' = true ->
  q_fail_ret o = Some r /\ q_same w0 w' /\ QInv w' X /\ abs w' X = abs w0 X.
Proof.
  intros I E F.
  assert (K : q_fail_ret o = Some r /\ q_same w0 w').
  { destruct o; try (apply q_step_failed; [exact I0 || exact Logic.I|exact E|exact F]).
    - (* drop *)
      destruct (clear_inv w0 X I) as [Ic _]. cbn [qf_step] in E.
      destruct (drop_fix_ok (clear_trace w0) X s Ic eq_refl) as (w1 & rc & E1 & C & _).
      rewrite E1 in E. injection E as <- <-.
      destruct C as [(-> & S & _)|(_ & F1 & _)]; [|congruence].
      split; [reflexivity|]. eapply q_same_trans; [apply q_same_clear|exact S].
    - (* setz *)
      destruct (clear_inv w0 X I) as [Ic _]. cbn [qf_step] in E.
      destruct (setz_fix_ok (clear_trace w0) X s siz Ic eq_refl) as (w1 & rc & E1 & C & _).
      rewrite E1 in E. injection E as <- <-.
      destruct C as [(-> & S & _)|(_ & F1 & _)]; [|congruence].
      split; [reflexivity|]. eapply q_same_trans; [apply q_same_clear|exact S]. }
  destruct K as [K1 K2]. split; [exact K1|]. split; [exact K2|].
  apply q_same_same_core in K2.
  split; [eapply same_core_QInv; eauto|apply same_core_abs; exact K2].
Qed.

(* ================================================================== (c): the retry *)
Lemma qf_step_clear w o : qf_step w o = qf_step (clear_trace w) o.
Proof. destruct o; reflexivity. Qed.

Theorem que_fault_retry w0 X o w' r :
  QInv w0 X -> qf_step w0 o = Ok (w', r) -> failed w' = true ->
  forall sc, qf_step (set_sched w' sc) o = qf_step (set_sched w0 sc) o.
Proof.
  intros I E F sc. destruct (que_fault_step _ _ _ _ _ I E F) as (_ & S & _).
  rewrite (qf_step_clear (set_sched w' sc)), (qf_step_clear (set_sched w0 sc)).
  rewrite (q_same_clear_sched _ _ sc S). reflexivity.
Qed.

(* once memory is available no request is refused and the operation is carried out *)
Theorem que_retry_granted w0 X o :
  QInv w0 X -> dq_pre o (abs w0 X) -> not_sched o -> no_fault w0 ->
  exists w' r, qf_step w0 o = Ok (w', r) /\ failed w' = false /\ no_fault w'.
Proof.
  intros I Hpre Hns Hnf.
  destruct (qf_step_refines w0 X o I Hpre) as (w' & r & X' & E & _ & _ & NF).
  destruct (NF Hns Hnf). eauto.
Qed.

(* ================================================================== histories *)
(* every element swap of the history is applied to two enqueued elements (C05's hist_pre, for the
   repaired machine) *)
Fixpoint qf_hist_pre (w : qworld) (os : list qop) : Prop :=
  match os with
  | [] => True
  | o :: r => op_pre w o /\ match qf_step w o with Ok (w1, _) => qf_hist_pre w1 r | _ => True end
  end.

(* every (world, operation, outcome) of a history *)
Fixpoint qf_steps (w : qworld) (os : list qop) : list (qworld * qop * outcome (qworld * Z)) :=
  match os with
  | [] => []
  | o :: r => (w, o, qf_step w o) :: match qf_step w o with Ok (w1, _) => qf_steps w1 r | _ => [] end
  end.

(* what the clauses (a) (b) (c) say about one step *)
Definition que_fault_ok (x : qworld * qop * outcome (qworld * Z)) : Prop :=
  let '(w0, o, res) := x in
  exists w' r, res = Ok (w', r) /\ (exists X', QInv w' X') /\
    (failed w' = true ->
       q_fail_ret o = Some r /\ q_same w0 w' /\
       (forall X, QInv w0 X -> QInv w' X /\ abs w' X = abs w0 X) /\
       (forall sc, qf_step (set_sched w' sc) o = qf_step (set_sched w0 sc) o)).

Theorem que_fault_all : forall os w X,
  QInv w X -> qf_hist_pre w os -> Forall que_fault_ok (qf_steps w os).
Proof.
  induction os as [|o os IH]; intros w X I Hp; cbn [qf_steps]; [constructor|].
  cbn [qf_hist_pre] in Hp. destruct Hp as [Hpo Hpr].
  pose proof (op_pre_dq w X o I Hpo) as Hdq.
  destruct (qf_step_refines w X o I Hdq) as (w1 & r & X1 & E & I1 & _ & _).
  rewrite E in *. constructor; [|exact (IH w1 X1 I1 Hpr)].
  exists w1, r. split; [reflexivity|]. split; [eauto|]. intros F.
  destruct (que_fault_step w X o w1 r I E F) as (K1 & K2 & _).
  split; [exact K1|]. split; [exact K2|]. split.
  - intros X0 I0. destruct (que_fault_step w X0 o w1 r I0 E F) as (_ & _ & ? & ?). auto.
  - exact (que_fault_retry w X o w1 r I E F).
Qed.

Theorem que_fault_all_init : forall os, qf_hist_pre q_world0 os -> Forall que_fault_ok (qf_steps q_world0 os).
Proof. intros os. apply (que_fault_all os q_world0 ([], [])). apply world0_inv. Qed.

(* ================================================================== (d): the ledger *)
Theorem que_ledger_balanced_all : forall os w X,
  QInv w X -> card_inv w -> qf_hist_pre w os ->
  exists w' rs, qf_run w os = Ok (w', rs) /\ card_inv w' /\
    exists w'', q_destroy w' = Ok w'' /\ live_blocks w'' = 0%nat /\
                (forall x, live (w_h w'') x -> x = 1 \/ x = 2).
Proof.
  induction os as [|o os IH]; intros w X I C Hp; cbn [qf_run].
  - exists w, []. split; [reflexivity|]. split; [exact C|].
    destruct (q_destroy_card w X I C) as (w2 & E & _ & _ & L & D). eauto.
  - cbn [qf_hist_pre] in Hp. destruct Hp as [Hpo Hpr].
    pose proof (op_pre_dq w X o I Hpo) as Hdq.
    destruct (qf_step_refines w X o I Hdq) as (w1 & r & X1 & E & I1 & _ & _).
    pose proof (qf_step_card w X o w1 r I C E) as C1.
    rewrite E in *. cbn [fst snd] in *. destruct (IH w1 X1 I1 C1 Hpr) as (w2 & rs & E2 & C2 & D).
    rewrite E2. cbn [fst snd]. exists w2, (r :: rs). auto.
Qed.

Theorem que_ledger_balanced_init : forall os,
  qf_hist_pre q_world0 os ->
  exists w' rs, qf_run q_world0 os = Ok (w', rs) /\ card_inv w' /\
    exists w'', q_destroy w' = Ok w'' /\ live_blocks w'' = 0%nat /\
                (forall x, live (w_h w'') x -> x = 1 \/ x = 2).
Proof.
  intros os Hp. apply (que_ledger_balanced_all os q_world0 ([], [])); [apply world0_inv|apply card_inv_world0|exact Hp].
Qed.

(* ================================================================== the bodies as found *)
Definition world9 : qworld :=
  match qf_run q_world0 nine_pushes with Ok (w, _) => clear_trace w | _ => q_world0 end.

Lemma world9_inv : exists X, QInv world9 X.
Proof.
  assert (Hp : qf_hist_pre q_world0 nine_pushes) by (vm_compute; tauto).
  assert (R : forall os w X, QInv w X -> qf_hist_pre w os ->
              exists w' rs X', qf_run w os = Ok (w', rs) /\ QInv w' X').
  { induction os as [|o os IH]; intros w X I Hq; cbn [qf_run].
    - exists w, [], X. auto.
    - cbn [qf_hist_pre] in Hq. destruct Hq as [Hpo Hpr].
      pose proof (op_pre_dq w X o I Hpo) as Hdq.
      destruct (qf_step_refines w X o I Hdq) as (w1 & r & X1 & E & I1 & _ & _).
      rewrite E in *. cbn [fst snd] in *. destruct (IH w1 X1 I1 Hpr) as (w2 & rs & X2 & E2 & I2).
      rewrite E2. cbn [fst snd]. exists w2, (r :: rs), X2. auto. }
  destruct (R nine_pushes q_world0 ([], []) world0_inv Hp) as (w' & rs & X' & E & I').
  exists X'. unfold world9. rewrite E. apply (clear_inv w' X' I').
Qed.

(* a_que_drop as found: nine elements, the second growth of the pool array refused -> A_OMEMORY
   is returned after eight of the nine elements have been moved to the pool *)
Theorem que_drop_as_found_refuted :
  exists w w', (exists X, QInv w X) /\ failed w = false /\
    q_drop_orig w false = Ok (w', 4%Z) /\ failed w' = true /\
    ring_of (w_h w) 1 (fuel_of w) = Some [3; 4; 5; 6; 7; 8; 9; 10; 11] /\
    ring_of (w_h w') 1 (fuel_of w') = Some [11].
Proof.
  exists (set_sched world9 [true; false]).
  eexists. split.
  { destruct world9_inv as [X I]. exists X. eapply same_core_QInv; [|exact I]. unfold same_core. auto. }
  split; [reflexivity|]. split; [vm_compute; reflexivity|]. vm_compute. auto.
Qed.

(* a_que_setz as found: one element, the resize of the recycled node refused -> A_OMEMORY is
   returned and the element is gone *)
Theorem que_setz_as_found_refuted :
  exists w w', (exists X, QInv w X) /\ failed w = false /\
    q_setz_orig w false 9 = Ok (w', 4%Z) /\ failed w' = true /\
    ring_of (w_h w) 1 (fuel_of w) = Some [3; 4; 5; 6; 7; 8; 9; 10; 11] /\
    ring_of (w_h w') 1 (fuel_of w') = Some [].
Proof.
  exists (set_sched world9 [true; true; false]).
  eexists. split.
  { destruct world9_inv as [X I]. exists X. eapply same_core_QInv; [|exact I]. unfold same_core. auto. }
  split; [reflexivity|]. split; [vm_compute; reflexivity|]. vm_compute. auto.
Qed.

(* the repaired bodies on the same inputs: nothing is moved *)
Example que_drop_repaired_example :
  exists w', q_drop_fix (set_sched world9 [false]) false = Ok (w', 4%Z) /\ failed w' = true /\
    ring_of (w_h w') 1 (fuel_of w') = Some [3; 4; 5; 6; 7; 8; 9; 10; 11] /\
    exists w'', q_setz_fix (set_sched world9 []) false 9 = Ok (w'', 0%Z) /\
      ring_of (w_h w'') 1 (fuel_of w'') = Some [] /\ live_blocks w'' = 1%nat.
Proof. eexists. split; [vm_compute; reflexivity|]. split; [reflexivity|]. split; [reflexivity|].
  eexists. split; [vm_compute; reflexivity|]. vm_compute. auto. Qed.
