(* C07 (vector and buffer part) -- proofs of the clauses "reports", "preserves", "retry":
   an operation of the C04 world machine in which an allocation request is refused returns its
   failure value and leaves the whole world (both vectors, the buffer, the ledger) as it was,
   only the pending schedule has advanced; hence a retry is the fault-free run.
   No invariant and no precondition is needed for these three clauses. *)
From Coq Require Import NArith List Bool Lia ZifyBool ZifyNat ZifyN.
From LibaV Require Import C04.VecDefs C04.VecSpec C07.VecFaultDefs.
Import ListNotations.
Local Open Scope N_scope.

Definition adv (h : heap) : heap := mkHeap (tl (h_sched h)) (h_live h) (h_next h) (h_limit h).

Lemma a_alloc_refused h addr size p h' ev :
  a_alloc h addr size = (p, h', ev) -> existsb ev_refused ev = true -> p = None /\ h' = adv h.
Proof.
  unfold a_alloc, adv. destruct (size =? 0).
  - destruct addr as [id|]; [destruct (is_live h id)|]; intros [= <- <- <-]; cbn; discriminate.
  - destruct addr as [id|].
    + destruct (negb (is_live h id)); [intros [= <- <- <-]; cbn; discriminate|].
      destruct (_ && _); intros [= <- <- <-]; cbn; [discriminate|auto].
    + destruct (_ && _); intros [= <- <- <-]; cbn; [discriminate|auto].
Qed.

Lemma vec_setm_refused h v mem h' v' rc ev :
  vec_setm h v mem = Ok (h', v', rc, ev) -> existsb ev_refused ev = true ->
  rc = A_OMEMORY /\ v' = v /\ h' = adv h.
Proof.
  unfold vec_setm. destruct (a_mem (v_arr v) <? mem); [|intros [= <- <- <- <-]; cbn; discriminate].
  destruct (_ <? mem); [intros [= <- <- <- <-]; cbn; discriminate|].
  destruct (grow_loop _ _ _) as [m|]; cbn [bind]; [|discriminate].
  destruct (a_alloc h (v_ptr v) _) as [[p h1] ev1] eqn:E.
  destruct p as [id|]; intros [= <- <- <- <-] F; destruct (a_alloc_refused _ _ _ _ _ _ E F) as [Hp Hh];
    [discriminate|auto].
Qed.

Lemma set_sched_adv w : set_sched w (tl (h_sched (w_heap w))) =
  mkWorld (adv (w_heap w)) (w_v0 w) (w_v1 w) (w_b w).
Proof. reflexivity. Qed.

Lemma set_v_same w which h : set_v w which h (get_v w which) = mkWorld h (w_v0 w) (w_v1 w) (w_b w).
Proof. destruct which; reflexivity. Qed.

Section Fault.
  Variable cmp : elem -> elem -> comparison.

  (* the shape every allocating vector operation has: vec_setm, then work on success *)
  Lemma vec_step_refused h v o h' v' r :
    vec_step cmp h v o = Ok (h', v', r) -> refused r = true ->
    h' = adv h /\ v' = v /\ o_dtor r = [] /\ o_err r = None /\
    match o with
    | OSetm _ | OSetn _ _ _ | OStore _ _ => o_ret r = RInt A_OMEMORY
    | OPushSort _ | OInsert _ _ | OPushFore _ | OPushBack _ => o_ret r = RPtr None None
    | _ => False
    end.
  Proof.
    unfold refused.
    destruct o; cbn [vec_step];
      try (repeat match goal with
                  | |- context [bind ?x _] => destruct x; cbn [bind]
                  | |- context [match ?x with _ => _ end] => destruct x
                  end; try discriminate; intros [= <- <- <-]; cbn; discriminate).
    all: destruct (vec_setm h v _) as [[[[h1 v1] rc] ev]|] eqn:E; cbn [bind]; [|discriminate].
    all: pose proof (vec_setm_refused _ _ _ _ _ _ _ E) as R.
    - (* setm *)
      intros [= <- <- <-]. cbn [o_ev o_dtor o_err o_ret]. intros F. destruct (R F) as (-> & -> & ->). auto.
    - (* setn *)
      destruct (rc =? 0) eqn:Erc.
      + destruct (arr_dtor_down _ _ _); cbn [bind]; [|discriminate].
        destruct (if a_num (v_arr v1) <? n then _ else _); cbn [bind]; [|discriminate].
        intros [= <- <- <-]. cbn [o_ev]. intros F. destruct (R F) as (-> & _). discriminate.
      + intros [= <- <- <-]. cbn [o_ev o_dtor o_err o_ret]. intros F. destruct (R F) as (-> & -> & ->). auto.
    - (* push_sort *)
      destruct (rc =? 0) eqn:Erc.
      + destruct (arr_push_sort _ _ _) as [[a2 off]|]; cbn [bind]; [|discriminate].
        destruct (put _ _ _); cbn [bind]; [|discriminate].
        intros [= <- <- <-]. cbn [o_ev]. intros F. destruct (R F) as (-> & _). discriminate.
      + intros [= <- <- <-]. cbn [o_ev o_dtor o_err o_ret]. intros F. destruct (R F) as (_ & -> & ->). auto.
    - (* insert *)
      destruct (rc =? 0) eqn:Erc.
      + destruct (arr_insert _ _) as [[a2 off]|]; cbn [bind]; [|discriminate].
        destruct (put _ _ _); cbn [bind]; [|discriminate].
        intros [= <- <- <-]. cbn [o_ev]. intros F. destruct (R F) as (-> & _). discriminate.
      + intros [= <- <- <-]. cbn [o_ev o_dtor o_err o_ret]. intros F. destruct (R F) as (_ & -> & ->). auto.
    - (* push_fore *)
      destruct (rc =? 0) eqn:Erc.
      + destruct (arr_insert _ _) as [[a2 off]|]; cbn [bind]; [|discriminate].
        destruct (put _ _ _); cbn [bind]; [|discriminate].
        intros [= <- <- <-]. cbn [o_ev]. intros F. destruct (R F) as (-> & _). discriminate.
      + intros [= <- <- <-]. cbn [o_ev o_dtor o_err o_ret]. intros F. destruct (R F) as (_ & -> & ->). auto.
    - (* push_back *)
      destruct (rc =? 0) eqn:Erc.
      + destruct (arr_inc _) as [a2 off].
        destruct (put _ _ _); cbn [bind]; [|discriminate].
        intros [= <- <- <-]. cbn [o_ev]. intros F. destruct (R F) as (-> & _). discriminate.
      + intros [= <- <- <-]. cbn [o_ev o_dtor o_err o_ret]. intros F. destruct (R F) as (_ & -> & ->). auto.
    - (* store *)
      destruct (rc =? 0) eqn:Erc.
      + destruct (arr_store _ _ _); cbn [bind]; [|discriminate].
        intros [= <- <- <-]. cbn [o_ev]. intros F. destruct (R F) as (-> & _). discriminate.
      + intros [= <- <- <-]. cbn [o_ev o_dtor o_err o_ret]. intros F. destruct (R F) as (-> & -> & ->). auto.
  Qed.

  Lemma buf_step_refused h b o h' b' r :
    buf_step cmp h b o = Ok (h', b', r) -> refused r = true ->
    h' = adv h /\ b' = b /\ o_dtor r = [] /\ o_err r = None /\
    match o with OSetm _ => o_ret r = RInt A_OMEMORY | _ => False end.
  Proof.
    unfold refused.
    destruct o; cbn [buf_step];
      try (repeat match goal with
                  | |- context [bind ?x _] => destruct x; cbn [bind]
                  | |- context [match ?x with _ => _ end] => destruct x
                  end; try discriminate; intros [= <- <- <-]; cbn; discriminate).
    unfold buf_setm. destruct (a_alloc h (Some (b_blk b)) _) as [[p h1] ev] eqn:E.
    destruct p as [id|]; intros [= <- <- <-]; cbn [o_ev o_dtor o_err o_ret]; intros F;
      destruct (a_alloc_refused _ _ _ _ _ _ E F) as [Hp ->]; [discriminate|auto].
  Qed.

  (* clauses "reports" and "preserves", one step, ANY world (no invariant needed) *)
  Theorem vec_fault_step w o w' r :
    wstep cmp w o = (w', r) -> refused r = true ->
    reported o w' r /\ w' = set_sched w (tl (h_sched (w_heap w))) /\ o_dtor r = [] /\ o_err r = None.
  Proof.
    rewrite set_sched_adv.
    destruct o as [which siz|which dt| |which o|siz num|dt|o]; cbn [wstep].
    - destruct (get_v w which) eqn:G; [intros [= <- <-]; discriminate|].
      unfold vec_new. destruct (a_alloc (w_heap w) None 32) as [[p h1] ev] eqn:E.
      destruct p as [id|]; intros [= <- <-]; unfold refused; cbn [o_ev o_dtor o_err]; intros F;
        destruct (a_alloc_refused _ _ _ _ _ _ E F) as [Hp ->]; [discriminate|].
      cbn [reported]. split; [destruct which; reflexivity|]. split; [|auto].
      rewrite <- G. apply set_v_same.
    - destruct (get_v w which) as [[id v]|]; [|intros [= <- <-]; discriminate].
      unfold vec_die. destruct (arr_dtor_down _ _ _); cbn [bind]; [|intros [= <- <-]; discriminate].
      destruct (v_ptr v) as [p|].
      + unfold a_alloc at 1. cbn [N.eqb]. destruct (is_live _ p);
          unfold a_alloc; cbn [N.eqb]; destruct (is_live _ id); intros [= <- <-]; discriminate.
      + unfold a_alloc; cbn [N.eqb]; destruct (is_live _ id); intros [= <- <-]; discriminate.
    - destruct (w_v0 w) as [[i0 x0]|]; [destruct (w_v1 w) as [[i1 x1]|]|]; intros [= <- <-]; discriminate.
    - destruct (get_v w which) as [[id v]|] eqn:G; [|intros [= <- <-]; discriminate].
      destruct (vec_step cmp (w_heap w) v o) as [[[h1 v1] r1]|e] eqn:E; [|intros [= <- <-]; discriminate].
      intros [= <- <-] F. destruct (vec_step_refused _ _ _ _ _ _ E F) as (-> & -> & Hd & He & Hr).
      rewrite <- G, set_v_same. split; [|auto].
      cbn [reported]. destruct o; try contradiction; assumption.
    - destruct (w_b w) eqn:G; [intros [= <- <-]; discriminate|].
      unfold buf_new. destruct (a_alloc (w_heap w) None _) as [[p h1] ev] eqn:E.
      destruct p as [id|]; intros [= <- <-]; unfold refused; cbn [o_ev o_dtor o_err]; intros F;
        destruct (a_alloc_refused _ _ _ _ _ _ E F) as [Hp ->]; [discriminate|].
      cbn [reported w_b]. rewrite <- G. auto.
    - destruct (w_b w) as [b|]; [|intros [= <- <-]; discriminate].
      unfold buf_die. destruct (arr_dtor_down _ _ _); cbn [bind]; [|intros [= <- <-]; discriminate].
      unfold a_alloc; cbn [N.eqb]; destruct (is_live _ _); intros [= <- <-]; discriminate.
    - destruct (w_b w) as [b|] eqn:G; [|intros [= <- <-]; discriminate].
      destruct (buf_step cmp (w_heap w) b o) as [[[h1 b1] r1]|e] eqn:E; [|intros [= <- <-]; discriminate].
      intros [= <- <-] F. destruct (buf_step_refused _ _ _ _ _ _ E F) as (-> & -> & Hd & He & Hr).
      split; [|auto].
      cbn [reported]. destruct o; try contradiction; assumption.
  Qed.

  (* the same along every history, from every world *)
  Fixpoint wsteps (w : world) (ops : list wop) : list (world * wop * (world * out)) :=
    match ops with
    | [] => []
    | o :: r => let x := wstep cmp w o in (w, o, x) :: wsteps (fst x) r
    end.

  Theorem vec_fault_reports_all : forall w ops,
    Forall (fun x : world * wop * (world * out) =>
              let '(w0, o, (w1, r)) := x in refused r = true -> reported o w1 r)
           (wsteps w ops).
  Proof.
    intros w ops. revert w. induction ops as [|o ops IH]; intros w; cbn [wsteps]; constructor; [|apply IH].
    destruct (wstep cmp w o) as [w1 r] eqn:E. intros F.
    exact (proj1 (vec_fault_step _ _ _ _ E F)).
  Qed.

  Theorem vec_fault_preserves_all : forall w ops,
    Forall (fun x : world * wop * (world * out) =>
              let '(w0, o, (w1, r)) := x in
              refused r = true ->
              w_v0 w1 = w_v0 w0 /\ w_v1 w1 = w_v1 w0 /\ w_b w1 = w_b w0 /\
              h_live (w_heap w1) = h_live (w_heap w0) /\
              (world_inv w0 -> world_inv w1) /\ o_dtor r = [] /\ o_err r = None)
           (wsteps w ops).
  Proof.
    intros w ops. revert w. induction ops as [|o ops IH]; intros w; cbn [wsteps]; constructor; [|apply IH].
    destruct (wstep cmp w o) as [w1 r] eqn:E. intros F.
    destruct (vec_fault_step _ _ _ _ E F) as (_ & -> & Hd & He).
    unfold set_sched, world_inv; cbn [w_v0 w_v1 w_b w_heap h_live]. repeat split; auto; tauto.
  Qed.

  (* clause "retry": after a step with a refused request, re-issuing the operation under ANY
     schedule is the step the untouched world would have made under that schedule *)
  Theorem vec_fault_retry w o w' r :
    wstep cmp w o = (w', r) -> refused r = true ->
    forall sc, wstep cmp (set_sched w' sc) o = wstep cmp (set_sched w sc) o.
  Proof.
    intros E F sc. destruct (vec_fault_step _ _ _ _ E F) as (_ & -> & _). reflexivity.
  Qed.
End Fault.

(* once memory is available (nothing pending in the schedule) only a request above the harness'
   limit is refused *)
Lemma a_alloc_granted h addr size p h' ev :
  h_sched h = [] -> a_alloc h addr size = (p, h', ev) ->
  h_sched h' = [] /\ forall e, In e ev -> ev_refused e = true -> h_limit h < ev_size e.
Proof.
  unfold a_alloc. intros Hs. rewrite Hs. cbn [tl andb].
  destruct (size =? 0).
  - destruct addr as [id|]; [destruct (is_live h id)|]; intros [= <- <- <-]; (split; [try reflexivity; try assumption|]);
      cbn; try tauto; intros e [<-|[]]; discriminate.
  - destruct addr as [id|].
    + destruct (negb (is_live h id)); [intros [= <- <- <-]; split; [reflexivity|cbn; intros e [<-|[]]; discriminate]|].
      destruct (size <=? h_limit h) eqn:El; intros [= <- <- <-]; (split; [reflexivity|]);
        cbn; intros e [<-|[]]; cbn; try discriminate. intros _. lia.
    + destruct (size <=? h_limit h) eqn:El; intros [= <- <- <-]; (split; [reflexivity|]);
        cbn; intros e [<-|[]]; cbn; try discriminate. intros _. lia.
Qed.
