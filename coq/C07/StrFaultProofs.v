(* C07 (string part) -- proofs: a refused allocation request is reported, leaves each string
   object as it was (contents, invariants, terminator), a retry with memory available behaves
   like the fault-free run, and the ledger of heap blocks is balanced over every history. *)
From Coq Require Import NArith ZArith List Bool Lia ZifyBool ZifyNat ZifyN.
From LibaV Require Import C06.StrDefs C06.StrSpec C06.StrLemmas C06.StrProofs C07.StrFaultDefs.
Import ListNotations.
Local Open Scope N_scope.
Ltac Zify.zify_post_hook ::= Z.div_mod_to_equations.

(* ------------------------------------------------------------------ small facts *)
Lemma put_len i v l l' : put i v l = Some l' -> len l' = len l.
Proof.
  unfold put. destruct (i <? len l) eqn:E; [|discriminate]. intros [= <-].
  rewrite len_app, len_take, len_cons, len_drop. lia.
Qed.

Lemma blit_len i src l l' : blit i src l = Some l' -> len l' = len l.
Proof.
  unfold blit. destruct (i + len src <=? len l) eqn:E; [|discriminate]. intros [= <-].
  rewrite !len_app, len_take, len_drop. lia.
Qed.

Lemma trace_app sz e1 e2 sz1 : trace sz e1 = Some sz1 -> trace sz (e1 ++ e2) = trace sz1 e2.
Proof.
  revert sz. induction e1 as [|x e1 IH]; intros sz; cbn [trace app].
  - intros [= ->]. reflexivity.
  - destruct (ev_step sz x); [apply IH|discriminate].
Qed.

Lemma bsize_mk b n m : bsize (mkStr (Some b) n m) = Some (len b).
Proof. reflexivity. Qed.

(* destruct every match / if / let of a hypothesis *)
Ltac crack H :=
  repeat match type of H with
         | context [match ?x with _ => _ end] => destruct x eqn:?
         end; try discriminate.

(* all length facts about put/blit results in the context *)
Ltac lens :=
  repeat match goal with
         | H : put _ _ ?b = Some ?b' |- _ => apply put_len in H
         | H : blit _ _ ?b = Some ?b' |- _ => apply blit_len in H
         end.

(* ------------------------------------------------------------------ a_alloc, setm_, setm *)
Definition mech_core (s : str) (sc : sched) (s' : str) (sc' : sched) (e : list ev) : Prop :=
  trace (bsize s) e = Some (bsize s') /\ (sc = [] -> any_failed e = false /\ sc' = []).

Lemma setm__mech s m sc :
  let '(rc, s', sc', e) := setm_ s m sc in
  mech_core s sc s' sc' e /\
  ((any_failed e = true /\ rc = A_OMEMORY /\ s' = s) \/ (any_failed e = false /\ rc = A_SUCCESS)).
Proof.
  unfold setm_, a_alloc, mech_core, bsize.
  destruct (size_up8 m =? 0) eqn:E0.
  - destruct (ptr s) as [b|] eqn:Ep; cbn; rewrite ?N.eqb_refl; auto.
  - destruct sc as [|[|] sc]; cbn [next_ok]; destruct (ptr s) as [b|] eqn:Ep;
      cbn [trace ev_step any_failed existsb ev_failed negb orb ptr]; rewrite ?N.eqb_refl, ?E0, ?Ep;
      cbn [trace ev_step ptr];
      rewrite ?len_app, ?len_take, ?len_fresh;
      try (split; [split; [try reflexivity|intros; try discriminate; auto]|auto]);
      try (do 2 f_equal; lia).
Qed.

Lemma setm_mech s m sc :
  let '(rc, s', sc', e) := setm s m sc in
  mech_core s sc s' sc' e /\
  ((any_failed e = true /\ rc = A_OMEMORY /\ s' = s) \/ (any_failed e = false /\ rc = A_SUCCESS)).
Proof.
  unfold setm. destruct (mem s <? m); [apply setm__mech|].
  unfold mech_core. cbn. auto.
Qed.

(* ------------------------------------------------------------------ every allocating operation *)
Definition a_mech {A} (s : str) (sc : sched) (x : ares A) : Prop :=
  forall r s' sc' e, x = Some (r, s', sc', e) ->
    mech_core s sc s' sc' e /\ (any_failed e = true -> s' = s).

Ltac bsize_eq :=
  unfold bsize; cbn [ptr];
  repeat match goal with H : ptr _ = Some _ |- _ => rewrite H end;
  lens; try reflexivity; try (f_equal; congruence).

Ltac with_setm H :=
  match type of H with
  | context [setm ?s ?n ?sc] =>
      let M := fresh "M" in
      pose proof (setm_mech s n sc) as M;
      destruct (setm s n sc) as [[[?rc ?s1] ?sc1] ?e1];
      destruct M as ((?T & ?G) & [(?F & -> & ->) | (?F & ->)]);
      cbn [Z.eqb A_OMEMORY A_SUCCESS andb] in H
  end.

Ltac op_mech :=
  let H := fresh "H" in
  intros ?r ?s' ?sc' ?e H; with_setm H;
  [ try (crack H); injection H as <- <- <- <-; split; [split; assumption|reflexivity]
  | crack H; injection H as <- <- <- <-;
    (split; [split; [|assumption]|congruence]);
    match goal with T : trace _ _ = Some _ |- _ => rewrite T end; f_equal; bsize_eq ].

Lemma catc__mech s c sc : a_mech s sc (catc_ s c sc).
Proof. unfold a_mech, catc_. op_mech. Qed.

Lemma catc_mech s c sc : a_mech s sc (catc s c sc).
Proof. unfold a_mech, catc. op_mech. Qed.

Lemma catn__mech s d sc : a_mech s sc (catn_ s d sc).
Proof. unfold a_mech, catn_. op_mech. Qed.

Lemma catn_mech s d sc : a_mech s sc (catn s d sc).
Proof.
  unfold a_mech, catn. intros r s' sc' e H. with_setm H.
  - injection H as <- <- <- <-. split; [split; assumption|reflexivity].
  - destruct (ptr s1) as [b|] eqn:Ep; [|discriminate].
    destruct (len d =? 0).
    + crack H. injection H as <- <- <- <-. split; [split; [|assumption]|congruence].
      rewrite T. f_equal. bsize_eq.
    + destruct (blit (num s1) d b) as [b1|] eqn:Eb; [|discriminate].
      crack H. injection H as <- <- <- <-. split; [split; [|assumption]|congruence].
      rewrite T. f_equal. bsize_eq.
Qed.

Lemma utf_catc_mech s c sc : a_mech s sc (utf_catc s c sc).
Proof. unfold a_mech, utf_catc. op_mech. Qed.

Lemma mech_core_trans s sc s1 sc1 e1 s2 sc2 e2 :
  mech_core s sc s1 sc1 e1 -> mech_core s1 sc1 s2 sc2 e2 -> mech_core s sc s2 sc2 (e1 ++ e2).
Proof.
  intros [T1 G1] [T2 G2]. split.
  - rewrite (trace_app _ _ _ _ T1). exact T2.
  - intros ->. destruct (G1 eq_refl) as [F1 ->]. destruct (G2 eq_refl) as [F2 ->].
    rewrite any_failed_app, F1, F2. auto.
Qed.

Lemma cat_gen_mech term s obj sc r s' sc' e :
  cat_gen term s obj sc = Some (r, s', sc', e) -> mech_core s sc s' sc' e.
Proof.
  unfold cat_gen. intros H. with_setm H.
  - injection H as <- <- <- <-. split; assumption.
  - destruct (obj_bytes _) as [d|]; [|discriminate].
    destruct term.
    + destruct (catn s1 d sc1) as [[[[rc2 s2] sc2] e2]|] eqn:E2; [|discriminate].
      injection H as <- <- <- <-. eapply mech_core_trans; [split; eassumption|].
      apply (catn_mech s1 d sc1 _ _ _ _ E2).
    + destruct (catn_ s1 d sc1) as [[[[rc2 s2] sc2] e2]|] eqn:E2; [|discriminate].
      injection H as <- <- <- <-. eapply mech_core_trans; [split; eassumption|].
      apply (catn__mech s1 d sc1 _ _ _ _ E2).
Qed.

Lemma exit_mech s sc r s' sc' e : exit s sc = Some (r, s', sc', e) ->
  (sc = [] -> any_failed e = false /\ sc' = []) /\
  (any_failed e = true -> s' = s /\ r = None) /\
  match r with
  | Some blk => trace (bsize s) e = Some (Some (len blk)) /\ s' = str_init
  | None => trace (bsize s) e = Some (bsize s')
  end.
Proof.
  unfold exit. intros H. destruct (ptr s) as [b0|] eqn:Ep0.
  - with_setm H.
    + injection H as <- <- <- <-. split; [assumption|]. split; [auto|assumption].
    + crack H. injection H as <- <- <- <-. split; [assumption|]. split; [congruence|].
      split; [|reflexivity]. rewrite T. f_equal. bsize_eq.
  - injection H as <- <- <- <-. split; [auto|]. split; [discriminate|].
    cbn. unfold bsize. rewrite Ep0. reflexivity.
Qed.

Lemma vsn_len dst off room text p1 : vsn dst off room text = Some p1 ->
  match p1, dst with
  | Some b', Some b => len b' = len b
  | None, None => True
  | _, _ => False
  end.
Proof.
  unfold vsn. destruct (room =? 0).
  - intros [= <-]. destruct dst; auto.
  - destruct dst as [b|]; [|discriminate]. intros H. crack H. injection H as <-. lens. assumption.
Qed.

Lemma vsn_bsize s out room p1 : vsn (ptr s) (num s) room out = Some p1 ->
  bsize (mkStr p1 (num s) (mem s)) = bsize s.
Proof.
  intros H. apply vsn_len in H. unfold bsize; cbn [ptr].
  destruct p1, (ptr s); try contradiction; congruence.
Qed.

Lemma reterm_bsize s s' : reterm s = Some s' -> bsize s' = bsize s /\ num s' = num s /\ mem s' = mem s.
Proof.
  unfold reterm. intros H. crack H; injection H as <-; [|auto].
  split; [bsize_eq|auto].
Qed.

Lemma catv_mech s out sc r s' sc' e :
  catv s out sc = Some (r, s', sc', e) -> mech_core s sc s' sc' e.
Proof.
  unfold catv. intros H.
  destruct (vsn (ptr s) (num s) _ out) as [p1|] eqn:E1; [|discriminate].
  pose proof (vsn_bsize _ _ _ _ E1) as B1.
  destruct (mem s <? _).
  - match type of H with context [setm_ ?a ?b ?c] =>
      pose proof (setm__mech a b c) as M; destruct (setm_ a b c) as [[[rc s1] sc1] e1] end.
    destruct M as ((T & G) & [(F & -> & ->) | (F & ->)]); cbn [Z.eqb A_OMEMORY A_SUCCESS] in H.
    + destruct (reterm _) as [s2|] eqn:Er; [|discriminate]. injection H as <- <- <- <-.
      apply reterm_bsize in Er. destruct Er as (Er & _). split; [|assumption].
      rewrite <- B1, T. f_equal. congruence.
    + destruct (vsn (ptr s1) _ _ out) as [p2|] eqn:E2; [|discriminate]. injection H as <- <- <- <-.
      pose proof (vsn_bsize _ _ _ _ E2) as B2. split; [|assumption].
      rewrite <- B1, T. f_equal. unfold bsize in *; cbn [ptr] in *. congruence.
  - injection H as <- <- <- <-. split; [|auto]. cbn [trace]. f_equal.
    unfold bsize in *; cbn [ptr] in *. congruence.
Qed.

(* ------------------------------------------------------------------ pure operations keep the block *)
Ltac p_mech := let H := fresh "H" in intros H; crack H; injection H; intros; subst; bsize_eq.

Lemma getc__bs s r s' : getc_ s = Some (r, s') -> bsize s' = bsize s.
Proof. unfold getc_. p_mech. Qed.
Lemma getc_bs s r s' : getc s = Some (r, s') -> bsize s' = bsize s.
Proof. unfold getc. p_mech. Qed.
Lemma getn__bs s w n r s' : getn_ s w n = Some (r, s') -> bsize s' = bsize s.
Proof. unfold getn_. p_mech. Qed.
Lemma getn_bs s w n r s' : getn s w n = Some (r, s') -> bsize s' = bsize s.
Proof. unfold getn. p_mech. Qed.
Lemma rtrim__bs s set r s' : rtrim_ s set = Some (r, s') -> bsize s' = bsize s.
Proof. unfold rtrim_. p_mech. Qed.
Lemma ltrim__bs s set r s' : ltrim_ s set = Some (r, s') -> bsize s' = bsize s.
Proof. unfold ltrim_. p_mech. Qed.
Lemma term_if_shorter_bs old s r s' : term_if_shorter old s = Some (r, s') -> bsize s' = bsize s.
Proof. unfold term_if_shorter. p_mech. Qed.
Lemma rtrim_bs s set r s' : rtrim s set = Some (r, s') -> bsize s' = bsize s.
Proof.
  unfold rtrim. destruct (rtrim_ s set) as [[u s1]|] eqn:E; [|discriminate].
  intros H. apply term_if_shorter_bs in H. apply rtrim__bs in E. congruence.
Qed.
Lemma ltrim_bs s set r s' : ltrim s set = Some (r, s') -> bsize s' = bsize s.
Proof.
  unfold ltrim. destruct (ltrim_ s set) as [[u s1]|] eqn:E; [|discriminate].
  intros H. apply term_if_shorter_bs in H. apply ltrim__bs in E. congruence.
Qed.
Lemma trim__bs s set r s' : trim_ s set = Some (r, s') -> bsize s' = bsize s.
Proof.
  unfold trim_. destruct (rtrim_ s set) as [[u s1]|] eqn:E; [|discriminate].
  intros H. apply ltrim__bs in H. apply rtrim__bs in E. congruence.
Qed.
Lemma trim_bs s set r s' : trim s set = Some (r, s') -> bsize s' = bsize s.
Proof.
  unfold trim. destruct (trim_ s set) as [[u s1]|] eqn:E; [|discriminate].
  intros H. apply term_if_shorter_bs in H. apply trim__bs in E. congruence.
Qed.

(* ------------------------------------------------------------------ one step of the C06 machine *)
Lemma sch_upd t s sc m : sch (upd t s sc m) = sc.
Proof. destruct t; reflexivity. Qed.

Lemma mech_core_refl s sc : mech_core s sc s sc [].
Proof. split; [reflexivity|auto]. Qed.

Lemma mech_core_pure s sc s' : bsize s' = bsize s -> mech_core s sc s' sc [].
Proof. intros H. split; [cbn; now rewrite H|auto]. Qed.

Definition step_mech_stmt (o : op) (m m' : mstate) (r : ret) (e : list ev) : Prop :=
  match o with
  | OSwap => e = [] /\ sA m' = sB m /\ sB m' = sA m /\ sch m' = sch m
  | OExit t =>
      oth t m' = oth t m /\ (sch m = [] -> any_failed e = false /\ sch m' = []) /\
      match r with
      | RPtr (Some blk) => trace (bsize (sel t m)) e = Some (Some (len blk)) /\ sel t m' = str_init
      | _ => trace (bsize (sel t m)) e = Some (bsize (sel t m'))
      end
  | _ => let t := fst (op_needs o) in
         oth t m' = oth t m /\ mech_core (sel t m) (sch m) (sel t m') (sch m') e
  end.

Ltac la L :=
  unfold lift_a;
  match goal with |- context [match ?x with _ => _ end] =>
    destruct x as [[[[?r0 ?s'] ?sc'] ?e0]|] eqn:?E end;
  intros [= <- <- <-]; rewrite ?sel_upd, ?oth_upd, ?sch_upd;
  (split; [reflexivity|]);
  [ eapply L; eassumption | apply mech_core_refl ].

Ltac lp L :=
  unfold lift_p;
  match goal with |- context [match ?x with _ => _ end] =>
    destruct x as [[?r0 ?s']|] eqn:?E end;
  intros [= <- <- <-]; rewrite ?sel_upd, ?oth_upd, ?sch_upd;
  (split; [reflexivity|]);
  [ apply mech_core_pure; eapply L; eassumption | apply mech_core_refl ].

Lemma a_mech_core {A} s sc (x : ares A) r s' sc' e :
  a_mech s sc x -> x = Some (r, s', sc', e) -> mech_core s sc s' sc' e.
Proof. intros M H. exact (proj1 (M _ _ _ _ H)). Qed.

Lemma catc_core s c sc r s' sc' e : catc s c sc = Some (r, s', sc', e) -> mech_core s sc s' sc' e.
Proof. intros H. exact (proj1 (catc_mech s c sc _ _ _ _ H)). Qed.
Lemma catc__core s c sc r s' sc' e : catc_ s c sc = Some (r, s', sc', e) -> mech_core s sc s' sc' e.
Proof. intros H. exact (proj1 (catc__mech s c sc _ _ _ _ H)). Qed.
Lemma catn_core s d sc r s' sc' e : catn s d sc = Some (r, s', sc', e) -> mech_core s sc s' sc' e.
Proof. intros H. exact (proj1 (catn_mech s d sc _ _ _ _ H)). Qed.
Lemma catn__core s d sc r s' sc' e : catn_ s d sc = Some (r, s', sc', e) -> mech_core s sc s' sc' e.
Proof. intros H. exact (proj1 (catn__mech s d sc _ _ _ _ H)). Qed.
Lemma utf_catc_core s c sc r s' sc' e : utf_catc s c sc = Some (r, s', sc', e) -> mech_core s sc s' sc' e.
Proof. intros H. exact (proj1 (utf_catc_mech s c sc _ _ _ _ H)). Qed.

Lemma step_mech o m m' r e : step o m = (m', r, e) -> step_mech_stmt o m m' r e.
Proof.
  unfold step_mech_stmt. destruct o; cbn [step op_needs fst].
  - (* dtor *)
    unfold dtor. destruct (ptr (sel t m)) as [b|] eqn:Ep; intros [= <- <- <-];
      rewrite sel_upd, oth_upd, sch_upd; (split; [reflexivity|]); (split; [|auto]);
      unfold bsize; rewrite Ep; cbn; rewrite ?N.eqb_refl; reflexivity.
  - intros [= <- <- <-]. cbn. auto.
  - (* exit *)
    destruct (exit (sel t m) (sch m)) as [[[[p s'] sc'] e0]|] eqn:E; intros [= <- <- <-].
    + rewrite sel_upd, oth_upd, sch_upd. split; [reflexivity|].
      destruct (exit_mech _ _ _ _ _ _ E) as (G & _ & T). split; [assumption|].
      destruct p; assumption.
    + split; [reflexivity|]. split; [auto|]. reflexivity.
  - (* setm *)
    pose proof (setm_mech (sel t m) m0 (sch m)) as M.
    destruct (setm (sel t m) m0 (sch m)) as [[[rc s1] sc1] e1]. intros [= <- <- <-].
    rewrite sel_upd, oth_upd, sch_upd. split; [reflexivity|]. exact (proj1 M).
  - pose proof (setm__mech (sel t m) m0 (sch m)) as M.
    destruct (setm_ (sel t m) m0 (sch m)) as [[[rc s1] sc1] e1]. intros [= <- <- <-].
    rewrite sel_upd, oth_upd, sch_upd. split; [reflexivity|]. exact (proj1 M).
  - (* setn *)
    unfold setn. destruct (n <=? mem (sel t m)); intros [= <- <- <-];
      rewrite sel_upd, oth_upd, sch_upd; (split; [reflexivity|]); apply mech_core_pure; reflexivity.
  - intros [= <- <- <-]. rewrite sel_upd, oth_upd, sch_upd. split; [reflexivity|].
    apply mech_core_pure; reflexivity.
  - lp getc_bs.
  - lp getc__bs.
  - la catc_core.
  - la catc__core.
  - lp getn_bs.
  - lp getn__bs.
  - la catn_core.
  - la catn__core.
  - unfold cats. la catn_core.
  - unfold cats_. la catn__core.
  - unfold cat. destruct self; cbn [negb fst]; la cat_gen_mech.
  - unfold cat_. destruct self; cbn [negb fst]; la cat_gen_mech.
  - la catv_mech.
  - lp rtrim_bs.
  - lp rtrim__bs.
  - lp ltrim_bs.
  - lp ltrim__bs.
  - lp trim_bs.
  - lp trim__bs.
  - la utf_catc_core.
  - unfold lift_c. destruct (cmp _ _); intros [= <- <- <-]; (split; [reflexivity|apply mech_core_refl]).
  - unfold lift_c. destruct (cmpn _ _); intros [= <- <- <-]; (split; [reflexivity|apply mech_core_refl]).
  - unfold lift_c. destruct (cmps _ _); intros [= <- <- <-]; (split; [reflexivity|apply mech_core_refl]).
Qed.

(* ================================================================== (a) (b): a refused request *)
Lemma keeps_refl s : keeps s s.
Proof. unfold keeps. auto. Qed.

Lemma set_sch_upd t m sc : upd t (sel t m) sc m = set_sch sc m.
Proof. destruct t, m; reflexivity. Qed.

Lemma cat_gen_failsame term s obj sc r s' sc' e :
  inv s -> (forall o, obj = Some o -> inv o) ->
  fits s (match obj with Some o => num o | None => num s end + 1) ->
  cat_gen term s obj sc = Some (r, s', sc', e) -> any_failed e = true -> s' = s.
Proof.
  intros Hi Ho Hf. split_inv Hi. unfold cat_gen.
  set (onum := match obj with Some o => num o | None => num s end) in *.
  assert (Hneed : (if term then wadd (wadd (num s) onum) 1 else wadd (num s) onum)
                  = num s + onum + (if term then 1 else 0)).
  { unfold fits in Hf. destruct term; rewrite !wadd_small; rewrite ?wadd_small; lia. }
  rewrite Hneed. clear Hneed.
  set (tk := if term then 1 else 0) in *.
  assert (Htk : tk <= 1) by (unfold tk; destruct term; lia).
  assert (Htk1 : term = true -> tk = 1) by (unfold tk; intros ->; reflexivity).
  destruct (setm_spec s (num s + onum + tk) sc Hi ltac:(unfold fits in *; lia)) as [R _].
  pose proof (setm_mech s (num s + onum + tk) sc) as M.
  destruct (setm s (num s + onum + tk) sc) as [[[rc s1] sc1] e1].
  destruct M as (_ & [(F & -> & ->) | (F & ->)]); cbn [Z.eqb A_OMEMORY A_SUCCESS].
  - intros [= <- <- <- <-] _. reflexivity.
  - destruct R as [(_ & He & Hi1 & Hn1 & Hm1 & Hk1) | (? & ? & _)]; [|congruence].
    split_inv Hi1.
    set (o' := match obj with Some o => o | None => s1 end).
    assert (Hio : inv o') by (unfold o'; destruct obj; auto).
    assert (Hno : num o' = onum) by (unfold o', onum; destruct obj; auto).
    rewrite (obj_bytes_spec o' Hio).
    assert (Hld : len (content o') = onum) by (rewrite inv_content_len; auto).
    assert (Hf1 : fits s1 (len (content o') + 1)) by (unfold fits in *; lia).
    destruct term.
    + specialize (Htk1 eq_refl).
      destruct (catn_good s1 (content o') sc1 Hi1 Hf1) as [_ N].
      destruct N as (s2 & ->); [lia|]. intros [= <- <- <- <-].
      rewrite any_failed_app, F. cbn. discriminate.
    + destruct (catn__good s1 (content o') sc1 Hi1 Hf1) as [_ N].
      destruct N as (s2 & ->); [lia|]. intros [= <- <- <- <-].
      rewrite any_failed_app, F. cbn. discriminate.
Qed.

(* a refused growth inside a_str_catv (repaired): 0 is returned and the object is kept,
   terminator included *)
Lemma catv_fail_keeps s out sc r s' sc' e :
  inv s -> fits s (len out + 1) ->
  catv s out sc = Some (r, s', sc', e) -> any_failed e = true -> keeps s s'.
Proof.
  intros Hi Hf. split_inv Hi. unfold catv. unfold fits in Hf.
  rewrite wsub_small by lia.
  rewrite !wadd_small by (rewrite ?wadd_small; lia).
  destruct (mem s <? num s + (len out + 1)) eqn:Eg.
  - destruct (vsn_any s out Hi) as (p1 & E1 & Hi0 & Hc0). rewrite E1.
    pose proof (vsn_bsize _ _ _ _ E1) as B1.
    set (s0 := mkStr p1 (num s) (mem s)) in *.
    pose proof (setm__mech s0 (num s + (len out + 1)) sc) as M.
    destruct (setm_ s0 (num s + (len out + 1)) sc) as [[[rc s1] sc1] e1].
    destruct M as (_ & [(F & -> & ->) | (F & ->)]); cbn [Z.eqb A_OMEMORY A_SUCCESS].
    + destruct (reterm_good s0 Hi0) as (s2 & Er & Hi2 & Hc2 & Hn2 & Hm2 & Ht2). rewrite Er.
      intros [= <- <- <- <-] _. apply reterm_bsize in Er. destruct Er as (Eb & _).
      unfold keeps. unfold s0 in Hn2, Hm2, Ht2; cbn [num mem] in Hn2, Hm2, Ht2.
      split; [congruence|]. split; [congruence|]. split; [congruence|]. split; [congruence|].
      intros [Hlt _]. apply Ht2. assumption.
    + destruct (vsn (ptr s1) _ _ out); [|discriminate]. intros [= <- <- <- <-]. congruence.
  - destruct (vsn _ _ _ out); [|discriminate]. intros [= <- <- <- <-]. discriminate.
Qed.

Lemma keeps_upd t m s' sc' :
  keeps (sel t m) s' -> keeps (sA m) (sA (upd t s' sc' m)) /\ keeps (sB m) (sB (upd t s' sc' m)).
Proof. destruct t; cbn; auto using keeps_refl. Qed.

Lemma same_upd t m sc' :
  keeps (sA m) (sA (upd t (sel t m) sc' m)) /\ keeps (sB m) (sB (upd t (sel t m) sc' m)) /\
  upd t (sel t m) sc' m = set_sch (sch (upd t (sel t m) sc' m)) m.
Proof.
  rewrite sch_upd, set_sch_upd. cbn. auto using keeps_refl.
Qed.

Ltac weaken := match goal with |- ?P /\ ?Q /\ (_ -> ?R) => cut (P /\ Q /\ R); [tauto|] end.

Ltac pure_absurd Hs Hf :=
  unfold lift_p, lift_c, setn, dtor in Hs;
  repeat match type of Hs with context [match ?x with _ => _ end] => destruct x end;
  injection Hs as <- <- <-; cbn in Hf; discriminate.

Ltac alloc_same Hs Hf L :=
  unfold lift_a in Hs;
  match type of Hs with context [match ?x with _ => _ end] =>
    destruct x as [[[[?r0 ?s'] ?sc'] ?e0]|] eqn:?E end;
  [ injection Hs as <- <- <-;
    match goal with E : _ = Some _ |- _ => pose proof (proj2 (L _ _ _ _ _ _ _ E) Hf) as ->; apply same_upd end
  | injection Hs as <- <- <-; cbn in Hf; discriminate ].

(* what a step with a refused request leaves behind, beyond C06's step_good *)
Lemma fault_step_keeps o m m' r e :
  minv m -> op_ok o m -> step o m = (m', r, e) -> any_failed e = true ->
  keeps (sA m) (sA m') /\ keeps (sB m) (sB m') /\
  ((forall t out, o <> OCatf t out) -> m' = set_sch (sch m') m).
Proof.
  intros Hm Hok Hs Hf.
  destruct o; cbn [step op_ok] in *;
    try (pure_absurd Hs Hf).
  - (* dtor *) unfold dtor in Hs. destruct (ptr (sel t m)); injection Hs as <- <- <-; discriminate.
  - (* exit *)
    destruct (exit (sel t m) (sch m)) as [[[[p s'] sc'] e0]|] eqn:E; injection Hs as <- <- <-;
      [|discriminate].
    destruct (exit_mech _ _ _ _ _ _ E) as (_ & F & _). destruct (F Hf) as [-> ->].
    destruct (same_upd t m sc') as (? & ? & ?). auto.
  - (* setm *)
    pose proof (setm_mech (sel t m) m0 (sch m)) as M.
    destruct (setm (sel t m) m0 (sch m)) as [[[rc s1] sc1] e1]. injection Hs as <- <- <-.
    destruct M as (_ & [(_ & _ & ->) | (F & _)]); [|congruence].
    destruct (same_upd t m sc1) as (? & ? & ?). auto.
  - pose proof (setm__mech (sel t m) m0 (sch m)) as M.
    destruct (setm_ (sel t m) m0 (sch m)) as [[[rc s1] sc1] e1]. injection Hs as <- <- <-.
    destruct M as (_ & [(_ & _ & ->) | (F & _)]); [|congruence].
    destruct (same_upd t m sc1) as (? & ? & ?). auto.
  - weaken. alloc_same Hs Hf catc_mech.
  - weaken. alloc_same Hs Hf catc__mech.
  - weaken. alloc_same Hs Hf catn_mech.
  - weaken. alloc_same Hs Hf catn__mech.
  - weaken. unfold cats in Hs. alloc_same Hs Hf catn_mech.
  - weaken. unfold cats_ in Hs. alloc_same Hs Hf catn__mech.
  - (* cat *)
    unfold lift_a, cat in Hs.
    destruct (cat_gen true _ _ _) as [[[[r0 s'] sc'] e0]|] eqn:E; injection Hs as <- <- <-; [|discriminate].
    assert (s' = sel t m) as ->.
    { eapply cat_gen_failsame; [| | |exact E|exact Hf]; auto using minv_sel.
      - intros o Ho. destruct self; [discriminate|]. injection Ho as <-. now apply minv_oth.
      - destruct self; exact Hok. }
    destruct (same_upd t m sc') as (? & ? & ?). auto.
  - unfold lift_a, cat_ in Hs.
    destruct (cat_gen false _ _ _) as [[[[r0 s'] sc'] e0]|] eqn:E; injection Hs as <- <- <-; [|discriminate].
    assert (s' = sel t m) as ->.
    { eapply cat_gen_failsame; [| | |exact E|exact Hf]; auto using minv_sel.
      - intros o Ho. destruct self; [discriminate|]. injection Ho as <-. now apply minv_oth.
      - destruct self; exact Hok. }
    destruct (same_upd t m sc') as (? & ? & ?). auto.
  - (* catf *)
    unfold lift_a in Hs.
    destruct (catv _ _ _) as [[[[r0 s'] sc'] e0]|] eqn:E; injection Hs as <- <- <-; [|discriminate].
    destruct Hok as [Hok _].
    pose proof (catv_fail_keeps _ _ _ _ _ _ _ (minv_sel t m Hm) Hok E Hf) as K.
    destruct (keeps_upd t m s' sc' K). split; [assumption|]. split; [assumption|].
    intros Hne. exfalso. eapply Hne. reflexivity.
  - weaken. alloc_same Hs Hf utf_catc_mech.
Qed.

Theorem fault_step o m m' r e :
  minv m -> op_ok o m -> step o m = (m', r, e) -> any_failed e = true ->
  fail_ret o = Some r /\ minv m' /\ abs m' = abs m /\ keeps (sA m) (sA m') /\ keeps (sB m) (sB m').
Proof.
  intros Hm Hok Hs Hf.
  destruct (step_good o m m' r e Hm Hok Hs) as (Hm' & [_ Href] & _). rewrite Hf in Href.
  destruct Href as [Ha Hr].
  destruct (fault_step_keeps o m m' r e Hm Hok Hs Hf) as (KA & KB & _). auto.
Qed.

(* the failure values, spelled out *)
Lemma fail_ret_table o r : fail_ret o = Some r ->
  match o with
  | OCatf _ _ => r = RInt 0%Z
  | OExit _ => r = RPtr None
  | OCatc _ _ | OCatc_ _ _ => r = RInt (-1)%Z
  | _ => r = RInt A_OMEMORY
  end.
Proof. destruct o; cbn; intros [= <-]; reflexivity. Qed.

Definition fault_reports_step (x : mstate * op * (mstate * ret * list ev)) : Prop :=
  let '(m0, o, (m1, r, e)) := x in
  any_failed e = true ->
  fail_ret o = Some r /\
  match o with
  | OCatf _ _ => r = RInt 0%Z
  | OExit _ => r = RPtr None
  | OCatc _ _ | OCatc_ _ _ => r = RInt (-1)%Z
  | _ => r = RInt A_OMEMORY
  end.

Definition fault_preserves_step (x : mstate * op * (mstate * ret * list ev)) : Prop :=
  let '(m0, o, (m1, r, e)) := x in
  any_failed e = true ->
  minv m1 /\ abs m1 = abs m0 /\ keeps (sA m0) (sA m1) /\ keeps (sB m0) (sB m1).

Lemma steps_forall (P : mstate * op * (mstate * ret * list ev) -> Prop) :
  (forall o m m' r e, minv m -> op_ok o m -> step o m = (m', r, e) -> P (m, o, (m', r, e))) ->
  forall ops m, minv m -> ops_ok ops m -> Forall P (steps ops m).
Proof.
  intros HP. induction ops as [|o ops IH]; intros m Hm Hok; cbn [steps]; [constructor|].
  destruct Hok as [Ho Hr]. destruct (step o m) as [[m1 r] e] eqn:Es. cbn [fst] in *.
  constructor; [now apply HP|]. apply IH; [|assumption].
  now destruct (step_good o m m1 r e Hm Ho Es).
Qed.

Theorem str_fault_reports_all : forall sc ops, ops_ok ops (m_init sc) ->
  Forall fault_reports_step (steps ops (m_init sc)).
Proof.
  intros sc ops Hok. apply steps_forall; [|apply minv_init|assumption].
  intros o m m' r e Hm Ho Hs Hf. destruct (fault_step o m m' r e Hm Ho Hs Hf) as (Hr & _).
  split; [assumption|]. now apply fail_ret_table.
Qed.

Theorem str_fault_preserves_all : forall sc ops, ops_ok ops (m_init sc) ->
  Forall fault_preserves_step (steps ops (m_init sc)).
Proof.
  intros sc ops Hok. apply steps_forall; [|apply minv_init|assumption].
  intros o m m' r e Hm Ho Hs Hf. destruct (fault_step o m m' r e Hm Ho Hs Hf) as (_ & ? & ? & ? & ?).
  auto.
Qed.

(* ================================================================== (c) retry *)
Lemma ret_equiv_refl k r : ret_equiv k r r.
Proof. destruct r as [| | [b|] | |]; cbn; reflexivity. Qed.

Lemma minv_set_sch sc m : minv (set_sch sc m) <-> minv m.
Proof. unfold minv, set_sch; cbn. tauto. Qed.

Lemma abs_set_sch sc m : abs (set_sch sc m) = abs m.
Proof. reflexivity. Qed.

Lemma set_sch_set_sch sc sc' m : set_sch sc (set_sch sc' m) = set_sch sc m.
Proof. reflexivity. Qed.

Theorem fault_retry o m m1 r1 e1 :
  minv m -> op_ok o m -> step o m = (m1, r1, e1) -> any_failed e1 = true ->
  forall sc2 m2 r2 e2 m3 r3 e3,
    step o (set_sch sc2 m1) = (m2, r2, e2) ->           (* the retry, after the failed attempt *)
    step o (set_sch sc2 m) = (m3, r3, e3) ->            (* the same schedule without the failed attempt *)
    any_failed e2 = false -> any_failed e3 = false ->
    abs m2 = abs m3 /\ ret_equiv (len (asel (fst (op_needs o)) (abs m)) + 1) r2 r3.
Proof.
  intros Hm Hok Hs Hf sc2 m2 r2 e2 m3 r3 e3 H2 H3 F2 F3.
  destruct (fault_step_keeps o m m1 r1 e1 Hm Hok Hs Hf) as (KA & KB & Hsame).
  assert (Hnc : (forall t out, o <> OCatf t out) ->
                abs m2 = abs m3 /\ ret_equiv (len (asel (fst (op_needs o)) (abs m)) + 1) r2 r3).
  { intros Hne. rewrite (Hsame Hne), set_sch_set_sch in H2. rewrite H2 in H3.
    injection H3 as <- <- <-. split; [reflexivity|apply ret_equiv_refl]. }
  destruct o; try (apply Hnc; intros; discriminate).
  (* formatted append *)
  clear Hnc Hsame. destruct Hok as [Hfit Hlen].
  destruct (fault_step (OCatf t out) m m1 r1 e1 Hm (conj Hfit Hlen) Hs Hf) as (_ & Hm1 & Ha1 & _).
  assert (Hn1 : num (sel t m1) = num (sel t m)).
  { destruct t; [destruct KA as (? & _)|destruct KB as (? & _)]; assumption. }
  assert (Hok1 : op_ok (OCatf t out) (set_sch sc2 m1)).
  { cbn. unfold fits in *. replace (sel t (set_sch sc2 m1)) with (sel t m1) by (destruct t; reflexivity).
    rewrite Hn1. auto. }
  assert (Hok0 : op_ok (OCatf t out) (set_sch sc2 m)).
  { cbn. unfold fits in *. replace (sel t (set_sch sc2 m)) with (sel t m) by (destruct t; reflexivity). auto. }
  destruct (step_good (OCatf t out) _ _ _ _ (proj2 (minv_set_sch sc2 m1) Hm1) Hok1 H2) as (_ & [_ R2] & _).
  destruct (step_good (OCatf t out) _ _ _ _ (proj2 (minv_set_sch sc2 m) Hm) Hok0 H3) as (_ & [_ R3] & _).
  rewrite F2 in R2. rewrite F3 in R3. cbn [spec_ok] in R2, R3.
  rewrite abs_set_sch in R2, R3. rewrite Ha1 in R2.
  destruct R2 as [-> ->]. destruct R3 as [-> ->]. split; reflexivity.
Qed.

(* once memory is available every request is granted *)
Theorem retry_granted o m m' r e : sch m = [] -> step o m = (m', r, e) -> any_failed e = false.
Proof.
  intros Hsc Hs. pose proof (step_mech o m m' r e Hs) as M. unfold step_mech_stmt in M.
  destruct o; try (destruct M as (_ & _ & G); exact (proj1 (G Hsc))).
  - destruct M as (-> & _). reflexivity.
  - destruct M as (_ & G & _). exact (proj1 (G Hsc)).
Qed.

(* (c) as one statement: after a failed attempt, re-issuing the operation with memory available
   makes no refused request and gives the byte strings and the return value of the run in which
   the operation was issued once, with memory available *)
Theorem fault_retry_available o m m1 r1 e1 :
  minv m -> op_ok o m -> step o m = (m1, r1, e1) -> any_failed e1 = true ->
  forall m2 r2 e2 m3 r3 e3,
    step o (set_sch [] m1) = (m2, r2, e2) ->
    step o (set_sch [] m) = (m3, r3, e3) ->
    any_failed e2 = false /\ any_failed e3 = false /\
    abs m2 = abs m3 /\ ret_equiv (len (asel (fst (op_needs o)) (abs m)) + 1) r2 r3.
Proof.
  intros Hm Hok Hs Hf m2 r2 e2 m3 r3 e3 H2 H3.
  assert (F2 : any_failed e2 = false) by (eapply retry_granted; [|exact H2]; reflexivity).
  assert (F3 : any_failed e3 = false) by (eapply retry_granted; [|exact H3]; reflexivity).
  split; [assumption|]. split; [assumption|].
  exact (fault_retry o m m1 r1 e1 Hm Hok Hs Hf [] m2 r2 e2 m3 r3 e3 H2 H3 F2 F3).
Qed.

(* the code as found does not keep the terminator (DESIGN section 6, C07 a_str_catv) *)
Theorem catv_fault_as_found_refuted :
  exists s out sc s' sc' e,
    inv s /\ terminated s /\ catv_orig s out sc = Some (0%Z, s', sc', e) /\ any_failed e = true /\
    content s' = content s /\ ~ terminated s'.
Proof.
  exists (mkStr (Some [97;98;99;0;165;165;165;165]) 3 8),
         [48;49;50;51;52;53;54;55;56;57;65;66;67;68;69;70], [false].
  do 3 eexists. split; [|split; [|split; [vm_compute; reflexivity|]]].
  - unfold inv, buf; cbn. rewrite W64_val. repeat split; lia.
  - split; [cbn; lia|reflexivity].
  - split; [reflexivity|]. split; [reflexivity|]. intros [_ H]. vm_compute in H. discriminate.
Qed.

(* (d) the ledger of heap blocks: coq/C07/StrLedgerProofs.v *)
