(* C07 (vector and buffer part) -- allocation failure and the ledger of heap blocks for liba's
   a_vec and a_buf.  Definitions only (no proofs).

   Built on the C04 model coq/C04/VecDefs.v, which already threads an allocator through every
   operation: [a_alloc] consumes one boolean of the schedule [h_sched] per request of size > 0
   (a request above [h_limit] is refused as well), logs the request as an event and keeps the
   ledger [h_live] of live blocks (block id, size); a release or resize that names a block which
   is not in the ledger is logged as [EvBad].  A world is two vector handles (a_vec_new/a_vec_die,
   a_vec_swap) and one buffer handle (a_buf_new/a_buf_die).

   What is added here: the vocabulary of the four clauses of C07. *)
From Coq Require Import NArith List Bool.
From LibaV Require Import C04.VecDefs C04.VecSpec.
Import ListNotations.
Local Open Scope N_scope.

(* a request of the operation was refused *)
Definition ev_refused (e : event) : bool :=
  match e with EvMalloc _ false => true | EvRealloc _ false => true | _ => false end.
Definition refused (r : out) : bool := existsb ev_refused (o_ev r).

(* a release / resize named a block that is not live *)
Definition ev_bad (e : event) : bool := match e with EvBad => true | _ => false end.
Definition bad (r : out) : bool := existsb ev_bad (o_ev r).

(* the world with other pending allocator answers (memory becomes available again, a retry) *)
Definition set_sched (w : world) (sc : list bool) : world :=
  mkWorld (mkHeap sc (h_live (w_heap w)) (h_next (w_heap w)) (h_limit (w_heap w)))
          (w_v0 w) (w_v1 w) (w_b w).

(* how each entry point reports that its request was refused: the error code A_OMEMORY, a null
   element pointer, or (a_vec_new, a_buf_new) a null handle *)
Definition reported (o : wop) (w' : world) (r : out) : Prop :=
  match o with
  | WVNew which _ => get_v w' which = None
  | WBNew _ _ => w_b w' = None
  | WV _ (OSetm _) | WV _ (OSetn _ _ _) | WV _ (OStore _ _) | WB (OSetm _) => o_ret r = RInt A_OMEMORY
  | WV _ (OPushSort _) | WV _ (OInsert _ _) | WV _ (OPushFore _) | WV _ (OPushBack _) =>
      o_ret r = RPtr None None
  | _ => False
  end.

(* the blocks the world's handles own: each vector structure, each vector's storage, the buffer *)
Definition vec_blocks (x : option (N * vec)) : list N :=
  match x with
  | Some (id, v) => id :: match v_ptr v with Some p => [p] | None => [] end
  | None => []
  end.
Definition buf_blocks (x : option buf) : list N :=
  match x with Some b => [b_blk b] | None => [] end.
Definition owned (w : world) : list N := vec_blocks (w_v0 w) ++ vec_blocks (w_v1 w) ++ buf_blocks (w_b w).

(* "by the time the container is destroyed": a_vec_die on both handles, a_buf_die *)
Definition destroy_ops : list wop := [WVDie false false; WVDie true false; WBDie false].

(* a largest request exists in the harness (h_limit); "memory is available" = nothing pending in
   the schedule and the request is below the limit *)
Definition ev_size (e : event) : N :=
  match e with EvMalloc n _ => n | EvRealloc n _ => n | _ => 0 end.
