(* C07 (queue part): extraction of the repaired queue machine (ExtrOcamlBasic only). *)
Require Extraction.
Require Import ExtrOcamlBasic.
From LibaV Require Import C05.DListDefs C05.QueDefs C07.QueFaultDefs.
Extraction "C07/extracted/quefault.ml"
  dget ring_of ring_of_back vget getq qaddr fuel_of q_step qf_step qo_step q_world0 q_destroy live_blocks
  clear_trace set_sched w_h w_val w_fresh w_trace w_sched q_pool q_siz q_num q_mem.
